// C04 — transaction blocks commit everything on success and nothing on error
// or panic. See DESIGN.md §3 C04.
//
// A generated case is a small program over a key→value table: top-level steps
// on the root handle (single writes, reads, db.Transaction trees up to depth 4,
// manual Begin…Commit/Rollback programs), a configuration {PrepareStmt,
// DisableNestedTransaction, SkipDefaultTransaction} and a fault plan (none, or
// the k-th BEGIN / COMMIT / SAVEPOINT / statement / PREPARE driver call fails
// with recdrv.ErrInjected; ROLLBACK and ROLLBACK TO are never faulted). The
// program is executed against gorm in lock step with a snapshot-stack
// reference model.
//
// panic(nil) is one of the ways a block can end; keep its pre-1.21 meaning
// (recover() == nil), which is what gorm's own module (go 1.18) gets and what
// DB.Transaction's `panicked` flag exists for.
//
//go:debug panicnil=1
package c04

import (
	"context"
	"database/sql"
	"database/sql/driver"
	"errors"
	"fmt"
	"reflect"
	"runtime"
	"sort"
	"strings"
	"testing"
	"time"

	"gorm.io/gorm"
	"gorm.io/gorm/clause"
	"gorm.io/gorm/logger"
	"pgregory.net/rapid"

	"verif/internal/evid"
	"verif/internal/harness"
	"verif/internal/recdrv"
	"verif/internal/testdb"
)

func TestMain(m *testing.M) { harness.Main(m) }

// panicNilIsNil: the //go:debug panicnil=1 directive above is in effect.
var panicNilIsNil = func() (isNil bool) {
	defer func() { isNil = recover() == nil }()
	var v interface{}
	panic(v)
}()

// ---- the table ------------------------------------------------------------------------------

type KV struct {
	K string `gorm:"column:k;primaryKey"`
	V int64  `gorm:"column:v"`
}

func (KV) TableName() string { return "kv" }

// HKV is KV with model hooks: the hook functions of the record run inside
// Create, on the handle gorm passes to hooks.
type HKV struct {
	K      string                  `gorm:"column:k;primaryKey"`
	V      int64                   `gorm:"column:v"`
	Before func(tx *gorm.DB) error `gorm:"-"`
	After  func(tx *gorm.DB) error `gorm:"-"`
}

func (HKV) TableName() string { return "kv" }

func (r *HKV) BeforeCreate(tx *gorm.DB) error {
	if r.Before != nil {
		return r.Before(tx)
	}
	return nil
}

func (r *HKV) AfterCreate(tx *gorm.DB) error {
	if r.After != nil {
		return r.After(tx)
	}
	return nil
}

var keys = []string{"a", "b", "c", "d"}

// ---- programs -------------------------------------------------------------------------------

// Step kinds.
const (
	opPut    = "put"    // Clauses(OnConflict{UpdateAll}).Create(&KV{k,v})  (one INSERT … ON CONFLICT DO UPDATE)
	opRawPut = "rawput" // Exec("INSERT OR REPLACE INTO kv …")
	opUpd    = "upd"    // Model(&KV{}).Where("k = ?").Update("v", v)       (changes existing keys only)
	opSave   = "save"   // Save(&KV{k,v}): UPDATE, and when no row matched INSERT … ON CONFLICT DO UPDATE
	opDel    = "del"    // Where("k = ?").Delete(&KV{})
	opRead   = "read"   // Order("k").Find(&rows), compared with the model
	opSP     = "sp"     // SavePoint(name)
	opRBTo   = "rbto"   // RollbackTo(name) (a save point made earlier in the same block)
	opBlock  = "block"  // handle.Transaction(func(tx) error {…})
	opBatch  = "batch"  // CreateInBatches(&rows, size): a library operation that opens its own (nested) Transaction block
	opHook   = "hook"   // Create(&HKV{k,v}) whose BeforeCreate / AfterCreate hook runs the steps of Child on the handle the hook receives (child blocks included); the hook returns the first error of its steps
	opManual = "manual" // tx := db.Begin(); …; tx.Commit() / tx.Rollback()   (top level only)
)

// Sessions a step may derive from the handle it uses (Step.Sess). All of them
// stay on the handle's connection pool / transaction.
const (
	sePrep      = "prep"      // h.Session(&gorm.Session{PrepareStmt: true})
	sePlain     = "sess"      // h.Session(&gorm.Session{})
	seNewDB     = "newdb"     // h.Session(&gorm.Session{NewDB: true})
	seCtx       = "ctx"       // h.WithContext(ctx)
	seSkipHooks = "skiphooks" // h.Session(&gorm.Session{SkipHooks: true})
	seLogger    = "logger"    // h.Session(&gorm.Session{Logger: …})
	seInit      = "init"      // h.Session(&gorm.Session{Initialized: true}) (a single-use statement instance; never kept)
	seSkipDef   = "skipdef"   // h.Session(&gorm.Session{SkipDefaultTransaction: true})
	seNoNest    = "nonest"    // h.Session(&gorm.Session{DisableNestedTransaction: true})
)

var sessKinds = []string{sePrep, sePrep, sePlain, seNewDB, seCtx, seSkipHooks, seLogger, seInit, seSkipDef, seNoNest}

type ctxKey struct{}

func derive(h *gorm.DB, kind string) *gorm.DB {
	switch kind {
	case sePrep:
		return h.Session(&gorm.Session{PrepareStmt: true})
	case sePlain:
		return h.Session(&gorm.Session{})
	case seNewDB:
		return h.Session(&gorm.Session{NewDB: true})
	case seCtx:
		return h.WithContext(context.WithValue(context.Background(), ctxKey{}, "c04"))
	case seSkipHooks:
		return h.Session(&gorm.Session{SkipHooks: true})
	case seLogger:
		return h.Session(&gorm.Session{Logger: logger.Discard.LogMode(logger.Silent)})
	case seInit:
		return h.Session(&gorm.Session{Initialized: true})
	case seSkipDef:
		return h.Session(&gorm.Session{SkipDefaultTransaction: true})
	case seNoNest:
		return h.Session(&gorm.Session{DisableNestedTransaction: true})
	}
	return h
}

// attr: the two switches that change what the model expects, per handle. A
// handle inherits them from the handle it was derived from (Session copies the
// Config; the handle a block function receives is a Session of the handle
// Transaction was called on).
type attr struct{ noNest, skipDef, skipHooks bool }

type sessKey struct {
	base *gorm.DB
	kind string
}

func (x *runner) inherit(h, from *gorm.DB) { x.attrs[h] = x.attrs[from] }

func (x *runner) noNest(h *gorm.DB) bool    { return x.c.Cfg.NoNest || x.attrs[h].noNest }
func (x *runner) skipDef(h *gorm.DB) bool   { return x.c.Cfg.SkipDef || x.attrs[h].skipDef }
func (x *runner) skipHooks(h *gorm.DB) bool { return x.attrs[h].skipHooks }

// session derives (or, for Cached steps, finds again) the session of a step.
func (x *runner) session(base *gorm.DB, st Step) *gorm.DB {
	if st.Sess == "" {
		return base
	}
	key := sessKey{base, st.Sess}
	if st.Cached && st.Sess != seInit {
		if h, ok := x.sessions[key]; ok {
			x.class("session:used-again-later")
			return h
		}
	}
	h := derive(base, st.Sess)
	a := x.attrs[base]
	switch st.Sess {
	case seSkipDef:
		a.skipDef = true
	case seNoNest:
		a.noNest = true
	case seSkipHooks:
		a.skipHooks = true // (Statement.SkipHooks travels with the statement into the blocks started from this session)
	}
	x.attrs[h] = a
	if st.Cached && st.Sess != seInit {
		x.sessions[key] = h
	}
	return h
}

// Outcomes of a block body.
const (
	outNil            = "nil"             // return nil
	outErr            = "err"             // return error E(block id)
	outPanic          = "panic"           // panic(P(block id))
	outErrU           = "erru"            // return an error whose dynamic type is not comparable (a struct with a slice)
	outPanicNil       = "panicnil"        // panic(nil)
	outGoexit         = "goexit"          // runtime.Goexit() (what t.FailNow does): the whole goroutine unwinds
	outCommit         = "commit"          // manual: tx.Commit()
	outRollback       = "rollback"        // manual: tx.Rollback()
	outRollbackNil    = "rollback+nil"    // outermost block: tx.Rollback() by hand, then return nil: the Commit that follows fails (sql.ErrTxDone)
	outCancelNil      = "cancel+nil"      // outermost block started WithContext(ctx): cancel ctx, wait until database/sql has rolled back, return nil
	outRollbackCommit = "rollback+commit" // manual: tx.Rollback(); tx.Commit(): the Commit fails
	outCancelCommit   = "cancel+commit"   // manual begun WithContext(ctx): cancel ctx, wait for the rollback, tx.Commit(): the Commit fails
	outCommitRB       = "commit+rollback" // manual: defer tx.Rollback(); …; tx.Commit() – the Rollback after the Commit changes nothing
)

type Step struct {
	Op        string
	K         string
	V         int64
	Reuse     bool   // put/upd/del: then read through result.Session(&gorm.Session{NewDB: true}) of the handle the write returned
	Via       int    // 0: the step goes through the block's own handle; n: through the handle of the n-th enclosing block (a captured variable – the same database transaction)
	Cached    bool   // the derived session is kept and used again by later steps that ask for the same kind from the same handle
	CtxCancel bool   // nested block: started as h.WithContext(ctx2).Transaction(…); ctx2 is cancelled at the end of the block function, just before its outcome
	Conn      bool   // top level: the step runs inside db.Connection(func(c) …) on the dedicated connection handle c
	When      string // hook: "before" (BeforeCreate) or "after" (AfterCreate)
	Opts      string // block / manual: the *sql.TxOptions argument ("" none, "nil", "zero", "serializable")
	Read      string // read: how ("" Find, "rawscan", "rows", "count", "subquery")
	Form      string // batch: value form ("" []KV, "ptrs" []*KV, "array" [n]KV, "maps" []map[string]interface{} with Model)
	ViaCreate bool   // batch: Create(value) with CreateBatchSize (Config or Session) instead of CreateInBatches(value, size)
	Sess      string // "" or the kind of session derived from the chosen handle through which the step is issued (same transaction)
	Name      string // save point name
	Rows      []KV   // batch: the rows
	Size      int    // batch: the batch size
	Child     *Body
	Swallow   bool // block / batch: the parent ignores the child's error and goes on (otherwise it returns it)
	Recover   bool // block: the parent recovers a panic of the child and goes on (otherwise it propagates)
}

// Body is the function of one block: steps, then the outcome (steps behind the
// outcome would never run, so the outcome is always last).
type Body struct {
	ID    int
	Steps []Step
	Out   string
	Err   string // Out == err: which error VALUE the block returns ("" its own sentinel; see errValue)
}

// errValue: the value a block with outcome err returns. What a block returns
// is the caller's business: the outcome (undo, propagate unchanged) must not
// depend on it, even when it looks like an error of the database layer.
func errValue(b *Body) error {
	switch b.Err {
	case "canceled":
		return context.Canceled
	case "deadline":
		return context.DeadlineExceeded
	case "wrapped-canceled":
		return fmt.Errorf("block %d: step with its own context: %w", b.ID, context.Canceled)
	case "wrapped-deadline":
		return fmt.Errorf("block %d: remote call: %w", b.ID, context.DeadlineExceeded)
	case "txdone":
		return sql.ErrTxDone
	case "invalidtx":
		return gorm.ErrInvalidTransaction
	case "conndone":
		return sql.ErrConnDone
	case "badconn":
		return driver.ErrBadConn
	case "notfound":
		return gorm.ErrRecordNotFound
	case "wrapped-notfound":
		return fmt.Errorf("block %d: %w", b.ID, gorm.ErrRecordNotFound)
	}
	return &blockErr{b.ID}
}

var errValues = []string{"canceled", "deadline", "wrapped-canceled", "wrapped-deadline", "txdone", "invalidtx", "conndone", "badconn", "notfound", "wrapped-notfound"}

type Config struct {
	Prepare     bool // PrepareStmt
	NoNest      bool // DisableNestedTransaction
	SkipDef     bool // SkipDefaultTransaction
	BatchSize   int  // CreateBatchSize (0 = off)
	Translate   bool // TranslateError
	NoReturning bool // dialector registered without RETURNING support
}

// Fault plan: the K-th (0-based) driver call of category Kind fails.
const (
	fNone      = "none"
	fBegin     = "begin"
	fCommit    = "commit"
	fSavepoint = "savepoint"
	fStmt      = "stmt"
	fPrepare   = "prepare"
	fBadConn   = "badconn" // the K-th statement inside a driver transaction fails with driver.ErrBadConn and the connection stays bad: every later statement, PREPARE, SAVEPOINT and the COMMIT on it fail the same way
)

type FaultPlan struct {
	Kind string
	K    int
}

type Case struct {
	Cfg   Config
	Init  []KV
	Top   Body // steps on the root handle (Out unused)
	Fault FaultPlan
}

func b2i(b bool) int {
	if b {
		return 1
	}
	return 0
}

func (s Step) render(sb *strings.Builder) {
	via := ""
	if s.Via > 0 {
		via = fmt.Sprintf("@^%d", s.Via)
	}
	if s.Sess != "" {
		via += "~" + s.Sess
		if s.Cached && s.Sess != seInit {
			via += "*"
		}
	}
	if s.Opts != "" {
		via += "(opts:" + s.Opts + ")"
	}
	if s.Conn {
		via += "@conn"
	}
	switch s.Op {
	case opBlock, opManual:
	case opHook:
		defer func() {
			sb.WriteString(via) // after the hook body
		}()
	default:
		defer sb.WriteString(via)
	}
	switch s.Op {
	case opPut, opRawPut, opUpd, opSave:
		fmt.Fprintf(sb, "%s(%s,%d)", s.Op, s.K, s.V)
		if s.Reuse {
			sb.WriteString("+read")
		}
	case opDel:
		fmt.Fprintf(sb, "del(%s)", s.K)
		if s.Reuse {
			sb.WriteString("+read")
		}
	case opHook:
		fmt.Fprintf(sb, "hook-%s(%s,%d)", s.When, s.K, s.V)
		s.Child.render(sb)
	case opRead:
		sb.WriteString("read")
		if s.Read != "" {
			sb.WriteString(":" + s.Read)
		}
	case opBatch:
		sb.WriteString("batch")
		if s.ViaCreate {
			sb.WriteString("-create")
		}
		if s.Form != "" {
			sb.WriteString(":" + s.Form)
		}
		sb.WriteString("[")
		for i, r := range s.Rows {
			if i > 0 {
				sb.WriteString(",")
			}
			fmt.Fprintf(sb, "%s=%d", r.K, r.V)
		}
		fmt.Fprintf(sb, "/%d]", s.Size)
		if s.Swallow {
			sb.WriteString("/swallow")
		} else {
			sb.WriteString("/return")
		}
	case opSP, opRBTo:
		fmt.Fprintf(sb, "%s(%s)", s.Op, s.Name)
	case opBlock:
		sb.WriteString("T" + via)
		if s.CtxCancel {
			sb.WriteString("(ctx2-cancelled-at-end)")
		}
		s.Child.render(sb)
		if s.Swallow {
			sb.WriteString("/swallow")
		} else {
			sb.WriteString("/return")
		}
		if s.Recover {
			sb.WriteString("/recover")
		}
	case opManual:
		sb.WriteString("M" + via)
		s.Child.render(sb)
	}
}

func (b *Body) render(sb *strings.Builder) {
	fmt.Fprintf(sb, "#%d{", b.ID)
	for i, s := range b.Steps {
		if i > 0 {
			sb.WriteString("; ")
		}
		s.render(sb)
	}
	if b.Out != "" {
		if len(b.Steps) > 0 {
			sb.WriteString("; ")
		}
		sb.WriteString("-> " + b.Out)
		if b.Out == outErr && b.Err != "" {
			sb.WriteString(":" + b.Err)
		}
	}
	sb.WriteString("}")
}

func (c Case) String() string {
	var sb strings.Builder
	fmt.Fprintf(&sb, "cfg{prepare=%d nonest=%d skipdef=%d", b2i(c.Cfg.Prepare), b2i(c.Cfg.NoNest), b2i(c.Cfg.SkipDef))
	if c.Cfg.BatchSize > 0 {
		fmt.Fprintf(&sb, " batchsize=%d", c.Cfg.BatchSize)
	}
	if c.Cfg.Translate {
		sb.WriteString(" translate=1")
	}
	if c.Cfg.NoReturning {
		sb.WriteString(" noreturning=1")
	}
	fmt.Fprintf(&sb, "} fault{%s", c.Fault.Kind)
	if c.Fault.Kind != fNone {
		fmt.Fprintf(&sb, "#%d", c.Fault.K)
	}
	sb.WriteString("} init{")
	for i, r := range c.Init {
		if i > 0 {
			sb.WriteString(",")
		}
		fmt.Fprintf(&sb, "%s=%d", r.K, r.V)
	}
	sb.WriteString("} prog")
	c.Top.render(&sb)
	return sb.String()
}

// ---- fault-free walk: counts driver calls per category and locates save points ---------------

const (
	frTop = iota
	frRoot
	frNested
	frManual
)

// spEvent is one SAVEPOINT statement of the fault-free execution.
type spEvent struct {
	nested     bool  // issued by a nested Transaction block (otherwise a manual SavePoint step)
	parent     *Body // nested: the enclosing body
	parentKind int
	stepIdx    int
}

type walker struct {
	cfg                      Config
	begins, commits, stmts   int
	sps                      []spEvent
	depth, maxDepth, nBlocks int
	failing                  int
}

// steps returns the outcome (0 ok, 1 error, 2 panic) of running b without faults.
func (w *walker) steps(b *Body, kind int) int {
	for i, st := range b.Steps {
		switch st.Op {
		case opPut, opUpd, opDel, opSave:
			w.stmts++
			if st.Reuse {
				w.stmts++
			}
			if kind == frTop && !w.cfg.SkipDef {
				w.begins++
				w.commits++
			}
		case opRawPut, opRead:
			w.stmts++
		case opBatch:
			nb := (len(st.Rows) + st.Size - 1) / st.Size
			w.stmts += nb
			blockMode := !w.cfg.SkipDef && nb > 1
			if kind == frTop {
				if !w.cfg.SkipDef {
					w.begins++
					w.commits++
				}
			} else if blockMode && !w.cfg.NoNest {
				w.sps = append(w.sps, spEvent{nested: true, parent: b, parentKind: kind, stepIdx: i})
			}
		case opHook:
			w.stmts++
			if kind == frTop {
				w.begins++
				w.commits++
			}
			w.steps(st.Child, frNested)
		case opSP:
			w.sps = append(w.sps, spEvent{})
		case opRBTo:
		case opManual:
			w.begins++
			w.nBlocks++
			w.depth++
			if w.depth > w.maxDepth {
				w.maxDepth = w.depth
			}
			o := w.steps(st.Child, frManual)
			w.depth--
			if o == 0 && (st.Child.Out == outCommit || st.Child.Out == outCommitRB) {
				w.commits++
			}
		case opBlock:
			w.nBlocks++
			ck := frNested
			if kind == frTop {
				w.begins++
				ck = frRoot
			} else if !w.cfg.NoNest {
				w.sps = append(w.sps, spEvent{nested: true, parent: b, parentKind: kind, stepIdx: i})
			}
			w.depth++
			if w.depth > w.maxDepth {
				w.maxDepth = w.depth
			}
			o := w.steps(st.Child, ck)
			w.depth--
			if o != 0 {
				w.failing++
			}
			if kind == frTop {
				if o == 0 {
					w.commits++
				}
				continue
			}
			if o == 1 && !st.Swallow {
				return 1
			}
			if o == 2 && !st.Recover {
				return 2
			}
			if o == 3 {
				return 3
			}
		}
	}
	switch b.Out {
	case outErr, outErrU:
		return 1
	case outPanic, outPanicNil:
		return 2
	case outGoexit:
		return 3
	case outRollbackNil, outCancelNil:
		return 4 // ends without a COMMIT, Transaction returns the error of the refused Commit
	}
	return 0
}

func walk(c Case) *walker {
	w := &walker{cfg: c.Cfg}
	w.steps(&c.Top, frTop)
	return w
}

// savepointPoison recognises the listed finding class `nested-savepoint-fault`:
// the injected fault hits the SAVEPOINT statement with which a nested
// Transaction block starts and the enclosing function swallows the block's
// error, i.e. goes on using its handle (the check reads through it right after
// every failed child). When the enclosing function returns the error instead,
// its handle is not used again and the case stays in the generated domain.
func savepointPoison(c Case) bool {
	if c.Fault.Kind != fSavepoint {
		return false
	}
	w := walk(c)
	if c.Fault.K >= len(w.sps) {
		return false
	}
	e := w.sps[c.Fault.K]
	return e.nested && e.parent.Steps[e.stepIdx].Swallow
}

// ---- running a case in lock step with the reference model --------------------------------------

type blockErr struct{ id int }

func (e *blockErr) Error() string { return fmt.Sprintf("E(block %d)", e.id) }

// blockErrU is an error whose dynamic type is not comparable.
type blockErrU struct {
	id   int
	tags []string
}

func (e blockErrU) Error() string { return fmt.Sprintf("EU(block %d)", e.id) }

// sameErr: got is (or wraps) the error want the block function returned.
func sameErr(got, want error) bool {
	if u, ok := want.(blockErrU); ok {
		var g blockErrU
		return errors.As(got, &g) && g.id == u.id
	}
	return errors.Is(got, want)
}

type panicVal struct{ id int }

type spEntry struct {
	name string
	snap map[string]int64
}

type frame struct {
	kind  int
	sps   []spEntry
	atEnd func() // runs when the steps are done, just before the outcome
}

type runner struct {
	c     Case
	db    *testdb.DB
	cur   map[string]int64 // the model: what the current connection must see
	fired bool
	viols []string

	writes    int
	failAt    []int // number of successful writes at each failure
	depth     int
	maxDepth  int
	classes   map[string]bool
	faultHit  string
	nStmt     int
	harnessEr string

	attrs          map[*gorm.DB]attr
	sessions       map[sessKey]*gorm.DB
	cancelTx       func()         // cancels the context the running outermost transaction was begun with
	txKilled       bool           // the running outermost transaction has been finished behind Commit's back (manual Rollback / cancelled context)
	excluded       string         // the case turned out to be in a listed known-finding class
	faultErr       error          // what an injected fault returns
	inHook         int            // hook bodies that are running
	rollbackFailed bool           // badconn: a driver ROLLBACK on the dead connection reported ErrBadConn
	goexit         bool           // the program has called runtime.Goexit: the goroutine is unwinding
	handles        []*gorm.DB     // handles of the blocks that are running, outermost first
	active         []*activeBlock // Transaction blocks that are running
}

type activeBlock struct {
	from        *gorm.DB // the handle Transaction was called on
	sameInnerOK bool     // a deeper block started from the same handle has completed successfully
}

func clone(m map[string]int64) map[string]int64 {
	o := make(map[string]int64, len(m))
	for k, v := range m {
		o[k] = v
	}
	return o
}

func render(m map[string]int64) string {
	ks := make([]string, 0, len(m))
	for k := range m {
		ks = append(ks, k)
	}
	sort.Strings(ks)
	var sb strings.Builder
	sb.WriteString("{")
	for i, k := range ks {
		if i > 0 {
			sb.WriteString(",")
		}
		fmt.Fprintf(&sb, "%s=%d", k, m[k])
	}
	sb.WriteString("}")
	return sb.String()
}

func renderRows(rows []KV) string {
	m := map[string]int64{}
	for _, r := range rows {
		m[r.K] = r.V
	}
	s := render(m)
	if len(m) != len(rows) {
		s += fmt.Sprintf("(%d rows)", len(rows))
	}
	return s
}

func (x *runner) violate(format string, a ...interface{}) {
	if len(x.viols) < 4 {
		x.viols = append(x.viols, fmt.Sprintf(format, a...))
	}
}

func (x *runner) takeFired() bool {
	f := x.fired
	x.fired = false
	return f
}

func (x *runner) class(c string) { x.classes[c] = true }

func (x *runner) noteFailure() { x.failAt = append(x.failAt, x.writes) }

func category(e *recdrv.Event) string {
	switch e.Kind {
	case recdrv.Begin:
		return fBegin
	case recdrv.Commit:
		return fCommit
	case recdrv.Prepare, recdrv.Exec, recdrv.Query:
		t := strings.ToUpper(strings.TrimSpace(e.Text))
		if strings.HasPrefix(t, "ROLLBACK") || strings.HasPrefix(t, "RELEASE") {
			return "" // never faulted (excluded domain)
		}
		if strings.HasPrefix(t, "SAVEPOINT") {
			if e.Kind == recdrv.Prepare {
				return ""
			}
			return fSavepoint
		}
		if e.Kind == recdrv.Prepare {
			return fPrepare
		}
		return fStmt
	}
	return ""
}

// stmt checks the result of one statement step: it fails with the injected
// error exactly when the fault fired during it, and then has no effect.
func (x *runner) stmt(what string, err error, apply func()) error {
	x.nStmt++
	if x.takeFired() {
		x.noteFailure()
		x.class("fault-hit:in-" + x.faultHit)
		if err == nil {
			x.violate("%s: the driver call failed with the injected fault but the statement reported no error", what)
			return x.faultErr
		}
		if !errors.Is(err, x.faultErr) {
			x.violate("%s: returned error %q which is not the injected driver error", what, err)
		}
		return err
	}
	if err != nil {
		x.violate("%s: unexpected error %q (no fault was injected into this statement)", what, err)
		return nil // keep going as the program would have without the error
	}
	if apply != nil {
		apply()
	}
	return nil
}

func (x *runner) wrote() { x.writes++ }

func (x *runner) read(h *gorm.DB, where string) error { return x.readAs(h, where, "") }

// readAs reads the whole table in one query through h and compares it with the model.
func (x *runner) readAs(h *gorm.DB, where string, how string) error {
	var rows []KV
	var err error
	count := int64(-1)
	switch how {
	case "rawscan":
		x.class("read:raw-scan")
		err = h.Raw("SELECT k, v FROM kv ORDER BY k").Scan(&rows).Error
	case "rows":
		x.class("read:rows-scanrows")
		var rs *sql.Rows
		rs, err = h.Model(&KV{}).Order("k").Rows()
		if err == nil {
			for rs.Next() {
				var r KV
				if e := h.ScanRows(rs, &r); e != nil {
					err = e
					break
				}
				rows = append(rows, r)
			}
			if e := rs.Close(); e != nil && err == nil {
				err = e
			}
		}
	case "count":
		x.class("read:count")
		err = h.Model(&KV{}).Count(&count).Error
	case "subquery":
		// a chain built from the ROOT handle passed as an argument: it is only rendered
		// into the statement, which runs on h's connection / transaction
		x.class("read:subquery-argument-from-root-handle")
		err = h.Where("k IN (?)", x.db.DB.Model(&KV{}).Select("k")).Order("k").Find(&rows).Error
	default:
		err = h.Order("k").Find(&rows).Error
	}
	return x.stmt(where+" read", err, func() {
		if count >= 0 {
			if int(count) != len(x.cur) {
				x.violate("%s: Count sees %d rows, the model has %s", where, count, render(x.cur))
			}
			return
		}
		got := renderRows(rows)
		if want := render(x.cur); got != want {
			x.violate("%s: read sees %s, the model (all writes so far minus what failed blocks / RollbackTo undid) has %s", where, got, want)
		}
	})
}

// primitive runs a statement step on handle h.
func (x *runner) primitive(h *gorm.DB, st Step, where string) error {
	// reuse reads through a new session of the handle the write returned: it
	// must run on the same connection pool / transaction as h
	reuse := func(res *gorm.DB) error {
		if !st.Reuse {
			return nil
		}
		x.class("op:read-through-result-session")
		return x.read(res.Session(&gorm.Session{NewDB: true}), where+" (new session of the handle returned by the write)")
	}
	switch st.Op {
	case opPut:
		res := h.Clauses(clause.OnConflict{UpdateAll: true}).Create(&KV{K: st.K, V: st.V})
		if e := x.stmt(fmt.Sprintf("%s put(%s,%d)", where, st.K, st.V), res.Error, func() { x.cur[st.K] = st.V; x.wrote() }); e != nil {
			return e
		}
		return reuse(res)
	case opRawPut:
		err := h.Exec("INSERT OR REPLACE INTO kv (k, v) VALUES (?, ?)", st.K, st.V).Error
		return x.stmt(fmt.Sprintf("%s rawput(%s,%d)", where, st.K, st.V), err, func() { x.cur[st.K] = st.V; x.wrote() })
	case opUpd:
		res := h.Model(&KV{}).Where("k = ?", st.K).Update("v", st.V)
		if e := x.stmt(fmt.Sprintf("%s upd(%s,%d)", where, st.K, st.V), res.Error, func() {
			if _, ok := x.cur[st.K]; ok {
				x.cur[st.K] = st.V
			}
			x.wrote()
		}); e != nil {
			return e
		}
		return reuse(res)
	case opDel:
		res := h.Where("k = ?", st.K).Delete(&KV{})
		if e := x.stmt(fmt.Sprintf("%s del(%s)", where, st.K), res.Error, func() { delete(x.cur, st.K); x.wrote() }); e != nil {
			return e
		}
		return reuse(res)
	case opSave:
		res := h.Save(&KV{K: st.K, V: st.V})
		if e := x.stmt(fmt.Sprintf("%s save(%s,%d)", where, st.K, st.V), res.Error, func() { x.cur[st.K] = st.V; x.wrote() }); e != nil {
			return e
		}
		return nil
	case opRead:
		return x.readAs(h, where, st.Read)
	}
	x.harnessEr = "unknown primitive " + st.Op
	return nil
}

// hookPut creates the record (k,v) with a model hook that runs the steps of
// st.Child on the handle gorm hands to hooks. That handle is a session of the
// statement, i.e. it is inside the statement's transaction: the explicit one
// (inTx) or, on the root handle, the default transaction of the Create (which
// makes the statement, hook included, all-or-nothing). Blocks the hook opens are
// nested blocks like any other.
func (x *runner) hookPut(h *gorm.DB, st Step, where string, inTx bool) error {
	what := fmt.Sprintf("%s hook-%s(%s,%d)", where, st.When, st.K, st.V)
	x.class("op:hook-" + st.When)
	snap := clone(x.cur)
	skip := x.skipHooks(h)
	if skip {
		x.class("hook:not-called(SkipHooks)")
	}
	ran := false
	var hookErr error
	body := func(tx *gorm.DB) error {
		ran = true
		x.inherit(tx, h)
		if st.When == "after" {
			if x.takeFired() {
				x.harnessEr = "AfterCreate ran although the INSERT was faulted"
			}
			x.cur[st.K] = st.V
			x.wrote()
		}
		if !inTx {
			x.depth++
			if x.depth > x.maxDepth {
				x.maxDepth = x.depth
			}
			defer func() { x.depth-- }()
		}
		x.inHook++
		defer func() { x.inHook-- }()
		hookErr = x.runSteps(tx, st.Child, &frame{kind: frNested})
		return hookErr
	}
	row := &HKV{K: st.K, V: st.V}
	if st.When == "before" {
		row.Before = body
	} else {
		row.After = body
	}
	res := h.Clauses(clause.OnConflict{UpdateAll: true}).Create(row)
	fired := x.takeFired()
	err := res.Error
	fail := func(e error) error {
		if !inTx {
			x.cur = snap // the default transaction of the statement is rolled back, hook writes included
		}
		return e
	}
	if ran && skip {
		x.violate("%s: the hook ran although the handle skips hooks", what)
	}
	switch {
	case ran && hookErr != nil:
		// a step of the hook failed: the hook returned that error, the statement fails with it
		if fired {
			x.harnessEr = "fault fired after a failed hook"
		}
		if err == nil {
			x.violate("%s: the hook returned %q but Create reported no error", what, hookErr)
			return fail(hookErr)
		}
		if !sameErr(err, hookErr) {
			x.violate("%s: the hook returned %q but Create reported %q", what, hookErr, err)
		}
		return fail(err)
	case fired:
		// BEGIN / INSERT / COMMIT of the statement failed
		x.noteFailure()
		x.class("fault-hit:in-" + x.faultHit)
		if st.When == "after" && ran && inTx {
			x.harnessEr = "fault fired after AfterCreate inside an explicit transaction"
		}
		if err == nil {
			x.violate("%s: a driver call failed with the injected fault but Create reported no error", what)
			err = x.faultErr
		} else if !errors.Is(err, x.faultErr) {
			x.violate("%s: returned error %q which is not the injected driver error", what, err)
		}
		return fail(err)
	}
	if err != nil {
		x.violate("%s: unexpected error %q (no fault was injected into this statement)", what, err)
		return nil
	}
	if !ran && !skip {
		x.violate("%s: Create succeeded but the hook never ran", what)
	}
	if st.When == "before" || !ran {
		x.cur[st.K] = st.V
		x.wrote()
	}
	return nil
}

// batch runs CreateInBatches on h. With more than one batch and default
// transactions on, the call is a Transaction block of its own: the outermost one
// on the root handle (BEGIN … COMMIT), a nested one (SAVEPOINT) inside a
// transaction. A batch fails when the injected fault hits it or when one of its
// keys is already in the table (UNIQUE constraint: the INSERT statement has no
// effect, SQLite keeps the transaction open). It returns whether the call failed.
func (x *runner) batch(h *gorm.DB, st Step, where string, inTx bool) (bool, error) {
	x.class("op:batch")
	what := fmt.Sprintf("%s %s", where, stepString(st))
	rows := append([]KV(nil), st.Rows...)
	size := st.Size
	call := func(value interface{}) *gorm.DB { return h.CreateInBatches(value, size) }
	if st.ViaCreate {
		x.class("batch:Create-with-CreateBatchSize")
		if x.c.Cfg.BatchSize > 0 {
			size = x.c.Cfg.BatchSize // Config.CreateBatchSize
			call = func(value interface{}) *gorm.DB { return h.Create(value) }
		} else {
			hs := h.Session(&gorm.Session{CreateBatchSize: size})
			x.inherit(hs, h)
			h = hs
			call = func(value interface{}) *gorm.DB { return hs.Create(value) }
		}
	}
	var value interface{} = &rows
	switch st.Form {
	case "ptrs":
		x.class("batch:form-slice-of-pointers")
		ps := make([]*KV, len(rows))
		for i := range rows {
			ps[i] = &rows[i]
		}
		value = &ps
	case "array":
		x.class("batch:form-array")
		arr := reflect.New(reflect.ArrayOf(len(rows), reflect.TypeOf(KV{})))
		for i := range rows {
			arr.Elem().Index(i).Set(reflect.ValueOf(rows[i]))
		}
		value = arr.Interface()
	case "maps":
		x.class("batch:form-slice-of-maps")
		ms := make([]map[string]interface{}, len(rows))
		for i, r := range rows {
			ms[i] = map[string]interface{}{"k": r.K, "v": r.V}
		}
		value = &ms
		inner := call
		model := h.Model(&KV{})
		if st.ViaCreate {
			call = func(v interface{}) *gorm.DB { return model.Create(v) }
		} else {
			call = func(v interface{}) *gorm.DB { return model.CreateInBatches(v, size) }
		}
		_ = inner
	}
	nb := (len(rows) + size - 1) / size
	part := func(j int) []KV {
		end := (j + 1) * size
		if end > len(rows) {
			end = len(rows)
		}
		return st.Rows[j*size : end]
	}
	predicted := nb // first batch that violates the primary key
	tmp := clone(x.cur)
	for j := 0; j < nb && predicted == nb; j++ {
		for _, r := range part(j) {
			if _, dup := tmp[r.K]; dup {
				predicted = j
				break
			}
			tmp[r.K] = r.V
		}
	}
	start := len(x.db.Rec.Events())
	res := call(value)
	fired := x.takeFired()
	okB := 0
	for _, e := range x.db.Rec.Events()[start:] {
		if (e.Kind == recdrv.Exec || e.Kind == recdrv.Query) && e.Err == nil && strings.HasPrefix(strings.ToUpper(strings.TrimSpace(e.Text)), "INSERT") {
			okB++
		}
	}
	apply := func(n int) {
		for j := 0; j < n; j++ {
			for _, r := range part(j) {
				x.cur[r.K] = r.V
			}
		}
		if n > 0 {
			x.wrote()
		}
	}
	blockMode := !x.skipDef(h) && nb > 1
	if blockMode {
		x.class("batch:own-transaction-block")
	}
	if !fired && predicted == nb {
		if res.Error != nil {
			x.violate("%s: unexpected error %q (no fault was injected, no key repeats)", what, res.Error)
			return false, nil
		}
		if okB != nb {
			x.violate("%s: %d successful INSERT statements, want %d batches", what, okB, nb)
		}
		apply(nb)
		return false, nil
	}
	x.noteFailure()
	err := res.Error
	if fired {
		x.class("fault-hit:in-" + x.faultHit)
		x.class("batch:fails-by-fault")
		if err == nil {
			x.violate("%s: a driver call failed with the injected fault but CreateInBatches reported no error", what)
			err = x.faultErr
		} else if !errors.Is(err, x.faultErr) {
			x.violate("%s: returned error %q which is not the injected driver error", what, err)
		}
	} else {
		x.class("batch:fails-by-constraint")
		if err == nil {
			x.violate("%s: batch %d repeats a key of the table but CreateInBatches reported no error", what, predicted+1)
			err = errors.New("missing constraint error")
		}
		if okB != predicted {
			x.violate("%s: %d successful INSERT statements before the failing batch, want %d", what, okB, predicted)
			okB = predicted
		}
	}
	if okB > 0 {
		x.class("batch:fails-after-an-earlier-batch-succeeded")
	}
	stay := okB // batches whose rows stay (in the transaction / durable) after the failed call
	if inTx {
		if blockMode && !x.noNest(h) {
			stay = 0 // its own nested block: ROLLBACK TO its save point
		}
	} else if blockMode || !x.skipDef(h) {
		stay = 0 // its own outermost block, or a single Create in its default transaction
	}
	if okB > 0 && stay == 0 {
		x.class("batch:earlier-batches-undone")
	}
	apply(stay)
	return true, err
}

// killByContext cancels the context the outermost transaction was begun with and
// waits until database/sql's background goroutine has rolled the transaction
// back (the driver's open-transaction counter drops), so that what follows does
// not depend on timing.
func (x *runner) killByContext() {
	if x.cancelTx == nil {
		x.harnessEr = "cancel outcome without a cancellable context"
		return
	}
	x.cancelTx()
	deadline := time.Now().Add(hangAfter)
	for x.db.Rec.OpenTx() != 0 || x.db.SQL.Stats().InUse != 0 {
		if time.Now().After(deadline) {
			x.harnessEr = "database/sql did not roll the transaction back after its context was cancelled"
			return
		}
		time.Sleep(50 * time.Microsecond)
	}
	x.txKilled = true
}

// rollbackErrOK: Rollback().Error of a manual program is nil, or – on the dead
// connection of a badconn fault – the driver's error.
func (x *runner) rollbackErrOK(e error) bool {
	return e == nil || (x.c.Fault.Kind == fBadConn && errors.Is(e, driver.ErrBadConn))
}

// unchanged: got is the very value the block function returned (same dynamic
// type, equal value), not merely something that still matches it.
func unchanged(got, want error) bool {
	if got == nil || want == nil {
		return got == want
	}
	if reflect.TypeOf(got) != reflect.TypeOf(want) {
		return false
	}
	if reflect.TypeOf(want).Comparable() {
		return got == want
	}
	return sameErr(got, want)
}

func refusedCommit(err error) bool {
	return errors.Is(err, sql.ErrTxDone) || errors.Is(err, context.Canceled)
}

// runSteps is the function body of block b running on handle h. It returns
// what the block function returns and panics with *panicVal for outcome panic.
func (x *runner) runSteps(own *gorm.DB, b *Body, fr *frame) error {
	where := fmt.Sprintf("block #%d", b.ID)
	x.handles = append(x.handles, own)
	depth := len(x.handles)
	defer func() { x.handles = x.handles[:depth-1] }() // a handle is never used after its block has ended
	for i := range b.Steps {
		st := b.Steps[i]
		h := own
		if st.Via > 0 {
			if st.Via >= depth {
				x.harnessEr = "step through a handle that does not exist"
				continue
			}
			h = x.handles[depth-1-st.Via]
			x.class("handle:captured-enclosing")
			x.class("handle:captured-enclosing:" + st.Op)
		}
		base := h
		if st.Sess != "" {
			h = x.session(base, st)
			x.class("session:" + st.Sess)
			x.class("session:" + st.Sess + ":" + st.Op)
		}
		switch st.Op {
		case opSP:
			x.class("op:savepoint")
			err := h.SavePoint(st.Name).Error
			snap := clone(x.cur)
			if e := x.stmt(where+" SavePoint("+st.Name+")", err, func() { fr.sps = append(fr.sps, spEntry{st.Name, snap}) }); e != nil {
				return e
			}
		case opRBTo:
			x.class("op:rollbackto")
			idx := -1
			for j := len(fr.sps) - 1; j >= 0; j-- {
				if fr.sps[j].name == st.Name {
					idx = j
					break
				}
			}
			if idx < 0 {
				x.harnessEr = "RollbackTo without save point generated"
				continue
			}
			for _, later := range fr.sps[idx+1:] {
				if later.name != st.Name && len(later.name) > 64 && len(st.Name) > 64 && later.name[:64] == st.Name[:64] {
					x.class("shape:rollbackto-past-a-later-save-point-sharing-the-first-64-bytes")
					if render(later.snap) != render(fr.sps[idx].snap) {
						x.class("shape:rollbackto-past-a-later-save-point-sharing-the-first-64-bytes(writes-between)")
					}
				}
			}
			if len(st.Name) > 64 {
				x.class("op:long-save-point-name")
			}
			err := h.RollbackTo(st.Name).Error
			if x.takeFired() {
				x.harnessEr = "fault fired in ROLLBACK TO"
			}
			if err != nil {
				x.violate("%s RollbackTo(%s): unexpected error %q", where, st.Name, err)
			}
			x.cur = clone(fr.sps[idx].snap)
			fr.sps = fr.sps[:idx+1]
		case opHook:
			if e := x.hookPut(h, st, where, true); e != nil {
				return e
			}
		case opBatch:
			failed, err := x.batch(h, st, where, true)
			if failed {
				if !st.Swallow {
					return err
				}
				x.class("parent:swallows-batch-error")
				if e := x.read(base, where+" (handle after failed CreateInBatches)"); e != nil {
					return e
				}
			}
		case opBlock:
			kind, v, pv := x.callBlock(h, st.Child, false, st.Opts, st.CtxCancel)
			switch kind {
			case 1:
				if !st.Swallow {
					return v
				}
				x.class("parent:swallows-error")
				if e := x.read(base, where+" (handle after failed child)"); e != nil {
					return e
				}
			case 2:
				if !st.Recover {
					panic(pv)
				}
				x.class("parent:recovers-panic")
				if e := x.read(base, where+" (handle after panicked child)"); e != nil {
					return e
				}
			}
		default:
			if e := x.primitive(h, st, where); e != nil {
				return e
			}
		}
	}
	if fr.atEnd != nil {
		fr.atEnd()
	}
	switch b.Out {
	case outRollbackNil:
		x.class("outcome:manual-rollback-then-return-nil")
		if e := own.Rollback().Error; !x.rollbackErrOK(e) {
			x.violate("%s: Rollback inside the block: unexpected error %q", where, e)
		}
		x.txKilled = true
		return nil
	case outCancelNil:
		x.class("outcome:context-cancelled-then-return-nil")
		x.killByContext()
		return nil
	case outErr:
		x.class("outcome:error")
		if b.Err != "" {
			x.class("outcome:error-value:" + b.Err)
		}
		return errValue(b)
	case outErrU:
		x.class("outcome:error(uncomparable type)")
		return blockErrU{b.ID, []string{"c04"}}
	case outPanic:
		x.class("outcome:panic")
		panic(&panicVal{b.ID})
	case outPanicNil:
		x.class("outcome:panic(nil)")
		var nilValue interface{}
		panic(nilValue)
	case outGoexit:
		x.class("outcome:goexit")
		x.goexit = true
		runtime.Goexit()
	}
	return nil
}

// callBlock runs h.Transaction(child) and checks it against the model. It
// returns (0,nil,nil) for success, (1,err,nil) when Transaction returned an
// error, (2,nil,value) when it panicked.
func txOptions(kind string) []*sql.TxOptions {
	switch kind {
	case "nil":
		return []*sql.TxOptions{nil}
	case "zero":
		return []*sql.TxOptions{{}}
	case "serializable":
		return []*sql.TxOptions{{Isolation: sql.LevelSerializable}}
	case "readonly":
		// (the SQLite driver ignores it: writes work and must be durable once the block returned nil)
		return []*sql.TxOptions{{ReadOnly: true}}
	}
	return nil
}

func (x *runner) callBlock(h *gorm.DB, child *Body, root bool, opts string, ctxCancel bool) (int, error, interface{}) {
	if opts != "" {
		x.class("txoptions:" + opts)
	}
	var atEnd func()
	if ctxCancel && !root {
		// h.WithContext(ctx2).Transaction(…) with ctx2 cancelled when the block function is done
		x.class("block:nested-started-WithContext-cancelled-at-end")
		ctx2, cancel2 := context.WithCancel(context.Background())
		defer cancel2()
		base := h
		h = base.WithContext(ctx2)
		x.inherit(h, base)
		atEnd = cancel2
	}
	if !root && x.inHook > 0 && !x.noNest(h) {
		x.class("block:nested-below-a-model-hook")
		if p, ok := h.Statement.ConnPool.(*gorm.PreparedStmtTX); ok {
			if _, double := p.Tx.(*gorm.PreparedStmtTX); double {
				// SAVEPOINT goes through a prepared statement (Session{PrepareStmt} taken inside a
				// transaction that already uses prepared statements)
				x.class("shape:nested-block-below-a-hook-with-prepared-SAVEPOINT")
				if harness.OpenClass("C04", "hook-nested-prepared-savepoint") {
					x.excluded = "hook-nested-prepared-savepoint"
				}
			}
		}
	}
	where := fmt.Sprintf("Transaction #%d", child.ID)
	snap := clone(x.cur)
	x.depth++
	if x.depth > x.maxDepth {
		x.maxDepth = x.depth
	}
	defer func() { x.depth-- }()
	me := &activeBlock{from: h}
	var sameAbove []*activeBlock
	for _, a := range x.active {
		if a.from == h {
			sameAbove = append(sameAbove, a)
		}
	}
	if len(sameAbove) > 0 {
		x.class("shape:block-started-from-the-handle-an-enclosing-block-was-started-from")
	}
	x.active = append(x.active, me)
	nActive := len(x.active)
	defer func() {
		x.active = x.active[:nActive-1]
	}()
	failedAfterInner := func() {
		if me.sameInnerOK && !root {
			x.class("shape:block-fails-after-same-handle-inner-block-succeeded")
			if !x.noNest(h) {
				x.class("shape:block-fails-after-same-handle-inner-block-succeeded(savepoints)")
			}
		}
	}
	var (
		entered     int
		fcRet       error
		fcPanicked  bool
		fcPanic     interface{}
		cerr        error
		outPanicked bool
		outPanic    interface{}
	)
	// (panics are detected with flags, not by the recovered value: panic(nil) recovers as nil)
	finished := false
	var finish func() (int, error, interface{})
	defer func() {
		if !finished && x.goexit {
			finish() // Goexit is unwinding through this frame: do the model's bookkeeping on the way
		}
	}()
	finish = func() (int, error, interface{}) {
		fired := x.takeFired()

		undo := root || !x.noNest(h)
		undoIt := func() {
			if !undo {
				return
			}
			if atEnd != nil {
				x.class("shape:failed-nested-block-whose-context-is-cancelled-must-be-undone")
				if harness.OpenClass("C04", "nested-context-cancelled") {
					x.excluded = "nested-context-cancelled"
				}
			}
			x.cur = snap
		}
		if root {
			x.class("block:outermost")
		} else if x.noNest(h) {
			x.class("block:nested-disabled")
			if !x.c.Cfg.NoNest {
				x.class("block:nested-disabled-by-session")
			}
		} else {
			x.class("block:nested-savepoint")
		}
		if entered > 1 {
			x.violate("%s: the block function ran %d times", where, entered)
		}
		switch {
		case entered == 0:
			// BEGIN / SAVEPOINT failed: the error must come back, nothing ran
			x.noteFailure()
			if !fired {
				if outPanicked {
					x.violate("%s: panicked with %v before running the block function", where, outPanic)
					return 2, nil, outPanic
				}
				x.violate("%s: the block function never ran although no fault was injected (returned %v)", where, cerr)
				if cerr == nil {
					return 0, nil, nil
				}
				return 1, cerr, nil
			}
			x.class("fault-hit:" + x.faultHit)
			if outPanicked {
				x.violate("%s: injected %s fault turned into panic %v", where, x.faultHit, outPanic)
				return 2, nil, outPanic
			}
			if !errors.Is(cerr, x.faultErr) {
				x.violate("%s: %s failed with the injected error but Transaction returned %v", where, x.faultHit, cerr)
				cerr = x.faultErr
			}
			return 1, cerr, nil
		case x.goexit:
			// the block function ended its goroutine: nothing of the block may stay
			failedAfterInner()
			x.noteFailure()
			if fired {
				x.harnessEr = "fault fired after Goexit"
			}
			undoIt()
			return 3, nil, nil
		case fcPanicked:
			failedAfterInner()
			x.noteFailure()
			if fired {
				x.harnessEr = "fault fired after a panicking block function"
			}
			undoIt()
			if !outPanicked {
				x.violate("%s: the block function panicked with %v but Transaction returned normally (%v): the panic was swallowed", where, fcPanic, cerr)
				return 1, fmt.Errorf("swallowed panic"), nil
			}
			if outPanic != fcPanic {
				x.violate("%s: panic value changed on the way out: panicked %#v, recovered %#v", where, fcPanic, outPanic)
			}
			return 2, nil, outPanic
		case fcRet != nil:
			failedAfterInner()
			x.noteFailure()
			if fired {
				x.harnessEr = "fault fired after a failing block function"
			}
			undoIt()
			if outPanicked {
				x.violate("%s: the block function returned %q but Transaction panicked with %v", where, fcRet, outPanic)
				return 2, nil, outPanic
			}
			if cerr == nil {
				x.violate("%s: the block function returned %q but Transaction returned nil: the error was lost", where, fcRet)
				return 0, nil, nil
			}
			if !sameErr(cerr, fcRet) {
				x.violate("%s: the block function returned %q but Transaction returned %q", where, fcRet, cerr)
			} else if !unchanged(cerr, fcRet) {
				x.violate("%s: the block function returned %q (%T) but Transaction returned a different value %q (%T): the error does not reach the caller unchanged", where, fcRet, fcRet, cerr, cerr)
			}
			return 1, cerr, nil
		}
		// the block function returned nil
		if outPanicked {
			x.violate("%s: the block function returned nil but Transaction panicked with %v", where, outPanic)
			return 2, nil, outPanic
		}
		if root && x.txKilled {
			// the transaction was finished before Commit ran (Rollback by hand / cancelled context):
			// the Commit is refused, nothing is durable and the error comes back
			x.txKilled = false
			x.noteFailure()
			x.cur = snap
			if fired {
				x.harnessEr = "fault fired in a refused COMMIT"
			}
			if cerr == nil {
				x.violate("%s: the transaction had been rolled back before the block function returned nil, yet Transaction returned nil: nothing is durable but no error is reported", where)
				return 1, sql.ErrTxDone, nil
			}
			if !refusedCommit(cerr) {
				x.violate("%s: the transaction had been rolled back before Commit; Transaction returned %q, want sql.ErrTxDone", where, cerr)
			}
			return 1, cerr, nil
		}
		if root && fired {
			// COMMIT failed: nothing is durable and the error comes back
			x.noteFailure()
			x.class("fault-hit:commit")
			x.cur = snap
			if !errors.Is(cerr, x.faultErr) {
				x.violate("%s: COMMIT failed with the injected error but Transaction returned %v: the commit error was lost", where, cerr)
				return 1, x.faultErr, nil
			}
			return 1, cerr, nil
		}
		if fired {
			x.harnessEr = "fault fired after a nested block returned nil"
		}
		if cerr != nil {
			x.violate("%s: the block function returned nil and no fault was injected, but Transaction returned %q", where, cerr)
			return 1, cerr, nil
		}
		for _, a := range sameAbove {
			a.sameInnerOK = true
		}
		return 0, nil, nil
	}
	func() {
		returned := false
		defer func() {
			if returned || x.goexit {
				return
			}
			outPanicked, outPanic = true, recover()
		}()
		cerr = h.Transaction(func(tx *gorm.DB) (e error) {
			entered++
			x.inherit(tx, h)
			normal := false
			defer func() {
				if normal || x.goexit {
					return
				}
				r := recover()
				fcPanicked, fcPanic = true, r
				panic(r)
			}()
			e = x.runSteps(tx, child, &frame{kind: frNested, atEnd: atEnd})
			normal = true
			fcRet = e
			return e
		}, txOptions(opts)...)
		returned = true
	}()
	finished = true
	return finish()
}

// manual runs tx := db.Begin(); steps…; tx.Commit()/tx.Rollback(). Any error
// of a step makes the program roll back and stop (the idiomatic reaction).
func (x *runner) manual(h *gorm.DB, b *Body, opts string) {
	if opts != "" {
		x.class("txoptions:" + opts)
	}
	where := fmt.Sprintf("manual #%d", b.ID)
	x.class("block:manual")
	snap := clone(x.cur)
	x.depth++
	if x.depth > x.maxDepth {
		x.maxDepth = x.depth
	}
	defer func() { x.depth-- }()
	tx := h.Begin(txOptions(opts)...)
	x.inherit(tx, h)
	if x.takeFired() {
		x.noteFailure()
		x.class("fault-hit:begin")
		if !errors.Is(tx.Error, x.faultErr) {
			x.violate("%s: BEGIN failed with the injected error but Begin().Error is %v", where, tx.Error)
		}
		if b.ID%2 == 1 {
			// `tx := db.Begin(); defer tx.Rollback()` without looking at tx.Error: must not crash
			x.class("manual:rollback-after-failed-begin")
			tx.Rollback()
		}
		return
	}
	if tx.Error != nil {
		x.violate("%s: Begin: unexpected error %q", where, tx.Error)
		return
	}
	var (
		err      error
		panicked bool
		pv       interface{}
	)
	// `done := false; defer func() { if !done { tx.Rollback() } }()` of a careful manual program
	rollback := func() {
		if e := tx.Rollback().Error; !x.rollbackErrOK(e) && !errors.Is(e, err) {
			// (a failed SavePoint leaves its error on the handle, which Rollback reports again)
			x.violate("%s: Rollback after a failed step: unexpected error %q", where, e)
		}
		if x.takeFired() {
			x.harnessEr = "fault fired in ROLLBACK"
		}
		x.cur = snap
	}
	finished := false
	defer func() {
		if !finished && x.goexit {
			rollback()
		}
	}()
	func() {
		returned := false
		defer func() {
			if returned || x.goexit {
				return
			}
			panicked, pv = true, recover()
		}()
		err = x.runSteps(tx, b, &frame{kind: frManual})
		returned = true
	}()
	finished = true
	if panicked || err != nil {
		if panicked && pv != nil {
			if _, ok := pv.(*panicVal); !ok {
				panic(pv) // not one of ours: a harness or gorm crash
			}
		}
		rollback()
		return
	}
	switch b.Out {
	case outRollbackCommit, outCancelCommit:
		if b.Out == outRollbackCommit {
			x.class("outcome:manual-rollback-then-commit")
			if e := tx.Rollback().Error; !x.rollbackErrOK(e) {
				x.violate("%s: Rollback: unexpected error %q", where, e)
			}
		} else {
			x.class("outcome:manual-context-cancelled-then-commit")
			x.killByContext()
		}
		x.txKilled = false
		x.noteFailure()
		x.cur = snap
		e := tx.Commit().Error
		if x.takeFired() {
			x.harnessEr = "fault fired in a refused COMMIT"
		}
		if e == nil {
			x.violate("%s: the transaction had been rolled back before Commit, yet Commit().Error is nil: nothing is durable but no error is reported", where)
		} else if !refusedCommit(e) {
			x.violate("%s: the transaction had been rolled back before Commit; Commit().Error is %q, want sql.ErrTxDone", where, e)
		}
	case outCommit, outCommitRB:
		e := tx.Commit().Error
		if b.Out == outCommitRB {
			// the deferred Rollback of `defer tx.Rollback()`: the transaction is finished, it changes nothing
			x.class("manual:rollback-after-commit")
			tx.Rollback()
		}
		if x.takeFired() {
			x.noteFailure()
			x.class("fault-hit:commit")
			x.cur = snap
			if !errors.Is(e, x.faultErr) {
				x.violate("%s: COMMIT failed with the injected error but Commit().Error is %v", where, e)
			}
			return
		}
		if e != nil {
			x.violate("%s: Commit: unexpected error %q", where, e)
		}
	default:
		x.class("outcome:manual-rollback")
		if e := tx.Rollback().Error; !x.rollbackErrOK(e) {
			x.violate("%s: Rollback: unexpected error %q", where, e)
		}
		if x.takeFired() {
			x.harnessEr = "fault fired in ROLLBACK"
		}
		x.cur = snap
	}
}

// hangAfter: how long a top-level step may take before it is declared deadlocked (a step takes well under a millisecond).
const hangAfter = 10 * time.Second

type result struct {
	viols      []string
	harnessErr string
	classes    []string
	nontrivial bool
	excluded   string
}

// runCase executes the case on a fresh database and returns the violations.
func runCase(c Case) result {
	if !panicNilIsNil {
		return result{harnessErr: "panic(nil) does not recover as nil: the go:debug panicnil=1 directive is not in effect"}
	}
	d := testdb.Open(testdb.Options{Config: gorm.Config{
		PrepareStmt:              c.Cfg.Prepare,
		DisableNestedTransaction: c.Cfg.NoNest,
		SkipDefaultTransaction:   c.Cfg.SkipDef,
		CreateBatchSize:          c.Cfg.BatchSize,
		TranslateError:           c.Cfg.Translate,
	}, NoReturning: c.Cfg.NoReturning})
	hung := false
	defer func() {
		if !hung {
			d.Close()
		}
	}()
	x := &runner{c: c, db: d, cur: map[string]int64{}, classes: map[string]bool{}, attrs: map[*gorm.DB]attr{}, sessions: map[sessKey]*gorm.DB{}}
	if _, err := d.SQL.Exec("CREATE TABLE kv (k TEXT PRIMARY KEY, v INTEGER NOT NULL)"); err != nil {
		return result{harnessErr: "create table: " + err.Error()}
	}
	for _, r := range c.Init {
		if _, err := d.SQL.Exec("INSERT INTO kv (k, v) VALUES (?, ?)", r.K, r.V); err != nil {
			return result{harnessErr: "seed: " + err.Error()}
		}
		x.cur[r.K] = r.V
	}
	d.Rec.Reset()
	x.faultErr = recdrv.ErrInjected
	if c.Fault.Kind == fBadConn {
		x.faultErr = driver.ErrBadConn
		n := 0
		bad := map[int]bool{}
		// The dead connection also fails to confirm the ROLLBACK (the real transaction is rolled back
		// by recdrv first): the fault is still the one injected at a statement; what is checked about
		// the failed ROLLBACK is only that it does not change the error the block / statement returns
		// and that the connection is given back.
		d.Rec.RollbackFault = func(e *recdrv.Event) error {
			if bad[e.ConnID] {
				x.rollbackFailed = true
				return driver.ErrBadConn
			}
			return nil
		}
		d.Rec.SetFault(func(idx int, e *recdrv.Event) error {
			cat := category(e)
			if cat == "" || cat == fBegin {
				return nil // (ROLLBACK / ROLLBACK TO are never faulted)
			}
			if bad[e.ConnID] {
				x.fired = true
				return driver.ErrBadConn
			}
			if cat != fStmt || e.TxID == 0 {
				return nil
			}
			n++
			if n-1 == c.Fault.K {
				bad[e.ConnID] = true
				x.fired = true
				x.faultHit = fBadConn
				return driver.ErrBadConn
			}
			return nil
		})
	} else if c.Fault.Kind != fNone {
		n := 0
		d.Rec.SetFault(func(idx int, e *recdrv.Event) error {
			if x.faultHit != "" {
				return nil
			}
			if category(e) != c.Fault.Kind {
				return nil
			}
			n++
			if n-1 == c.Fault.K {
				x.fired = true
				x.faultHit = c.Fault.Kind
				return recdrv.ErrInjected
			}
			return nil
		})
	}

	// top level: steps on the root handle
	for _, st := range c.Top.Steps {
		root := d.DB
		evStart := len(d.Rec.Events())
		x.cancelTx = nil
		if st.Sess != "" {
			root = x.session(d.DB, st)
			x.class("session:" + st.Sess)
			x.class("session:" + st.Sess + ":top-level-" + st.Op)
		}
		if st.Child != nil && (st.Child.Out == outCancelNil || st.Child.Out == outCancelCommit) {
			ctx, cancel := context.WithCancel(context.Background())
			defer cancel()
			base := root
			root = base.WithContext(ctx)
			x.inherit(root, base)
			x.cancelTx = cancel
		}
		runTop := func() {
			switch st.Op {
			case opBlock:
				kind, _, pv := x.callBlock(root, st.Child, true, st.Opts, false)
				if kind == 2 && pv != nil {
					if _, ok := pv.(*panicVal); !ok {
						panic(pv)
					}
				}
			case opManual:
				x.manual(root, st.Child, st.Opts)
			case opHook:
				x.class("op:top-level-hook")
				_ = x.hookPut(root, st, "top level", false)
			case opBatch:
				x.class("op:top-level-batch")
				x.batch(root, st, "top level", false)
			default:
				x.class("op:top-level-" + st.Op)
				_ = x.primitive(root, st, "top level")
			}
		}
		if st.Conn {
			// the step runs on the dedicated connection handle of db.Connection
			x.class("top-level:inside-Connection")
			x.class("top-level:inside-Connection:" + st.Op)
			inner, outer := runTop, root
			runTop = func() {
				ran := false
				err := outer.Connection(func(c *gorm.DB) error {
					ran = true
					x.inherit(c, outer)
					root = c
					inner()
					return nil
				})
				if err != nil || !ran {
					x.violate("Connection around top-level step %s: error %v, function ran: %v", stepString(st), err, ran)
				}
			}
		}
		if st.Conn || (st.Child != nil && hasOutcome(st.Child, outGoexit)) {
			// a block of this step may end its goroutine: give it one and wait for it. (Also for
			// steps inside db.Connection: a transaction left open on the dedicated connection
			// blocks Conn.Close for ever; the watchdog below turns that into a violation.)
			done := make(chan struct{})
			var crashed bool
			var crash interface{}
			go func() {
				defer close(done)
				ok := false
				defer func() {
					if !ok && !x.goexit {
						crashed, crash = true, recover()
					}
				}()
				runTop()
				ok = true
			}()
			select {
			case <-done:
			case <-time.After(hangAfter):
				hung = true
				x.violate("top-level step %s did not finish within %v: deadlock (a transaction left open on the dedicated connection of db.Connection blocks Conn.Close)", stepString(st), hangAfter)
			}
			if hung {
				break
			}
			x.goexit = false
			if crashed {
				panic(crash)
			}
		} else {
			runTop()
		}
		if st.Op == opBlock || st.Op == opManual {
			// every statement of the block ran inside its transaction: between BEGIN and the
			// COMMIT / ROLLBACK the driver saw nothing outside a transaction
			evs := d.Rec.Events()
			if evStart <= len(evs) {
				evs = evs[evStart:]
			}
			first, last := -1, -1
			for i, e := range evs {
				if e.Kind == recdrv.Begin && first < 0 && e.Err == nil {
					first = i
				}
				if e.Kind == recdrv.Commit || e.Kind == recdrv.Rollback {
					last = i
				}
			}
			for i := first + 1; first >= 0 && i < last; i++ {
				if e := evs[i]; e.TxID == 0 && (e.Kind == recdrv.Exec || e.Kind == recdrv.Query || e.Kind == recdrv.Prepare) {
					x.violate("top-level step %s: while its transaction was open the statement %q ran OUTSIDE the transaction (connection %d, autocommit)", stepString(st), e.Text, e.ConnID)
					break
				}
			}
		}
		// the connection is back in the pool after every top-level step
		if in := d.SQL.Stats().InUse; in != 0 {
			x.violate("after top-level step %s: sql.DB.Stats().InUse = %d, want 0 (connection not returned to the pool)", stepString(st), in)
		}
		if n := d.Rec.OpenTx(); n != 0 {
			x.violate("after top-level step %s: %d driver transaction(s) still open", stepString(st), n)
		}
	}

	if hung {
		// the stuck goroutine still owns the runner and the database: report and leave both alone
		return result{viols: append([]string(nil), x.viols...), classes: []string{"run:hung"}}
	}
	d.Rec.SetFault(nil)
	x.fired = false
	// final contents: through the root handle (which must still work) and directly
	var rows []KV
	if err := d.DB.Order("k").Find(&rows).Error; err != nil {
		x.violate("final read through the root handle: unexpected error %q", err)
	} else if got, want := renderRows(rows), render(x.cur); got != want {
		x.violate("final table is %s, the model has %s", got, want)
	}
	if got, err := rawTable(d.SQL); err != nil {
		x.violate("final direct read: unexpected error %q", err)
	} else if want := render(x.cur); got != want {
		x.violate("final table (read directly) is %s, the model has %s", got, want)
	}
	if in := d.SQL.Stats().InUse; in != 0 {
		x.violate("at the end sql.DB.Stats().InUse = %d, want 0", in)
	}
	if n := d.Rec.OpenTx(); n != 0 {
		x.violate("at the end %d driver transaction(s) still open", n)
	}

	// classification
	x.class(fmt.Sprintf("depth:%d", x.maxDepth))
	x.class(fmt.Sprintf("cfg:prepare=%d", b2i(c.Cfg.Prepare)))
	x.class(fmt.Sprintf("cfg:nonest=%d", b2i(c.Cfg.NoNest)))
	x.class(fmt.Sprintf("cfg:skipdef=%d", b2i(c.Cfg.SkipDef)))
	x.class(fmt.Sprintf("cfg:batchsize=%d", c.Cfg.BatchSize))
	x.class(fmt.Sprintf("cfg:translate=%d", b2i(c.Cfg.Translate)))
	x.class(fmt.Sprintf("cfg:noreturning=%d", b2i(c.Cfg.NoReturning)))
	switch {
	case c.Fault.Kind == fNone:
		x.class("fault:none")
	case x.rollbackFailed:
		x.class("fault:" + c.Fault.Kind + "-fired")
		x.class("fault:badconn-ROLLBACK-reported-an-error-too")
	case x.faultHit == "":
		x.class("fault:" + c.Fault.Kind + "-not-reached")
	default:
		x.class("fault:" + c.Fault.Kind + "-fired")
	}
	nt := false
	if x.maxDepth >= 2 {
		for _, w := range x.failAt {
			if w > 0 && w < x.writes {
				nt = true
			}
		}
	}
	switch {
	case nt:
		x.class("run:nontrivial")
	case len(x.failAt) == 0:
		x.class("run:no-failure")
	case x.maxDepth < 2:
		x.class("run:failure-but-depth<2")
	case x.writes == 0:
		x.class("run:failure-but-no-write")
	case x.failAt[0] == x.writes && x.failAt[len(x.failAt)-1] == x.writes:
		x.class("run:failure-but-no-write-after")
	default:
		x.class("run:failure-but-no-write-before")
	}
	cl := make([]string, 0, len(x.classes))
	for k := range x.classes {
		cl = append(cl, k)
	}
	sort.Strings(cl)
	return result{viols: x.viols, harnessErr: x.harnessEr, classes: cl, nontrivial: nt, excluded: x.excluded}
}

func stepString(s Step) string {
	var sb strings.Builder
	s.render(&sb)
	return sb.String()
}

func rawTable(db *sql.DB) (string, error) {
	rs, err := db.Query("SELECT k, v FROM kv ORDER BY k")
	if err != nil {
		return "", err
	}
	defer rs.Close()
	m := map[string]int64{}
	for rs.Next() {
		var k string
		var v int64
		if err := rs.Scan(&k, &v); err != nil {
			return "", err
		}
		m[k] = v
	}
	return render(m), rs.Err()
}

// ---- generator --------------------------------------------------------------------------------

// uniform draws an (almost) uniformly distributed index in [0,n): rapid's
// integer generators strongly prefer small values (≈40 % of IntRange(0,99)
// draws are below 10), which starves the later alternatives of a weighted
// choice; booleans are fair. Shrinks towards 0.
func uniform(rt *rapid.T, label string, n int) int {
	v, span := 0, 1
	for span < n*4 {
		v <<= 1
		if rapid.Bool().Draw(rt, label) {
			v |= 1
		}
		span <<= 1
	}
	return v % n
}

type gen struct {
	inHook   int // >0 while generating the body of a hook: no Goexit below it (a hook cannot hand it on in an orderly way: the default transaction of its statement has no deferred rollback)
	fav      string
	startIdx []int // per running block (outermost first): index of the handle it was started from (-1: the root handle)
	rt       *rapid.T
	budget   int
	nextID   int
	nextV    int64
	maxDepth int
}

func (g *gen) value() int64 { g.nextV++; return g.nextV }

func (g *gen) primitive(top bool) Step {
	ops := []string{opPut, opPut, opPut, opSave, opSave, opRawPut, opUpd, opDel, opDel, opRead, opRead, opRead}
	op := ops[uniform(g.rt, "op", len(ops))]
	st := Step{Op: op}
	if op != opRead {
		st.K = keys[uniform(g.rt, "key", len(keys))]
	}
	if op == opPut || op == opRawPut || op == opUpd || op == opSave {
		st.V = g.value()
	}
	if op == opRead {
		st.Read = []string{"", "", "rawscan", "rows", "count", "subquery"}[uniform(g.rt, "readkind", 6)]
	}
	if op == opPut || op == opUpd || op == opDel {
		st.Reuse = uniform(g.rt, "reuse", 5) == 0
	}
	return st
}

// via picks the handle a step of a block at the given depth goes through: 0 =
// the block's own, n = the n-th enclosing block's (all of them are the same
// database transaction; the root handle is a different connection and is never
// used inside a transaction).
func (g *gen) via(depth int, child bool) int {
	if depth < 2 {
		return 0
	}
	r := uniform(g.rt, "via", 12)
	if child {
		// often the very handle this block was itself started from (a unit-of-work
		// handle carried around and used for every nested block)
		if s := g.startIdx[len(g.startIdx)-1]; s >= 0 && r < 4 {
			return depth - 1 - s
		}
		if r < 7 {
			return 0
		}
	} else if r < 8 {
		return 0
	}
	return 1 + uniform(g.rt, "up", depth-1)
}

// spNames is the pool of manual save point names of one block. Names are
// private to the block (a child re-using a live name of its parent would
// capture the parent's later RollbackTo – SQL semantics, not gorm's) and
// distinct without regard to letter case (SQLite compares save point names
// case-insensitively); within a block a name may be set again: the latest one
// counts. style 0: short names; 1: long names (67–110 bytes) that share their
// first 64+ bytes and differ only at the end; 2: everything, including
// underscores, digits, mixed case and a long name that differs early.
func spNames(id, style int) []string {
	short := []string{fmt.Sprintf("s%dx", id), fmt.Sprintf("s%dy", id)}
	prefix := fmt.Sprintf("save_point_of_block_%d_", id)
	for len(prefix) < 64+(id*7)%40 {
		prefix += "with_a_long_descriptive_name_"
	}
	prefix = prefix[:64+(id*7)%40]
	long := []string{prefix + "_01", prefix + "_02", prefix + "_0003x"}
	switch style {
	case 0:
		return short
	case 1:
		return long
	}
	early := fmt.Sprintf("e%d_", id)
	for len(early) < 70 {
		early += "differs_early_"
	}
	all := append(append([]string{}, short...), long...)
	return append(all, fmt.Sprintf("_%d_tmp_9", id), fmt.Sprintf("Sp%d_MixedCase_2", id), early)
}

// batchStep: CreateInBatches of 2–5 rows with fresh keys in batches of 1–3; one
// row in three calls takes a key of the small pool instead, which fails the
// batch it is in when that key is in the table at that moment.
func (g *gen) batchStep() Step {
	n := 2 + uniform(g.rt, "rows", 4)
	st := Step{Op: opBatch, Size: 1 + uniform(g.rt, "size", 3), Swallow: uniform(g.rt, "swallow", 3) < 2,
		Form:      []string{"", "", "", "ptrs", "array", "maps"}[uniform(g.rt, "form", 6)],
		ViaCreate: uniform(g.rt, "viacreate", 3) == 0 && g.inHook == 0}
	for i := 0; i < n; i++ {
		v := g.value()
		st.Rows = append(st.Rows, KV{K: fmt.Sprintf("n%d", v), V: v})
	}
	if uniform(g.rt, "clash", 3) == 0 {
		i := uniform(g.rt, "clashrow", n)
		if i < st.Size && n > st.Size && rapid.Bool().Draw(g.rt, "later") {
			i = st.Size + uniform(g.rt, "clashrow", n-st.Size) // rather not in the first batch
		}
		st.Rows[i].K = keys[uniform(g.rt, "key", len(keys))]
	}
	return st
}

// hookStep: a Create whose BeforeCreate / AfterCreate hook runs 1–3 steps on the
// handle it receives: mostly child blocks (the hook handles their failure: error
// swallowed, panic recovered), some plain statements.
func (g *gen) hookStep(depth int) Step {
	st := Step{Op: opHook, K: keys[uniform(g.rt, "key", len(keys))], V: g.value(), When: []string{"after", "before"}[uniform(g.rt, "when", 2)]}
	b := &Body{ID: g.nextID, Out: outNil}
	g.nextID++
	g.inHook++
	g.startIdx = append(g.startIdx, -1)
	n := 1 + uniform(g.rt, "hooksteps", 3)
	for i := 0; i < n; i++ {
		if g.budget > 0 {
			g.budget--
		}
		if uniform(g.rt, "hookkind", 10) < 7 && depth+2 <= g.maxDepth {
			v := g.via(depth+1, true)
			g.startIdx = append(g.startIdx, depth-v)
			ch := g.body(depth+2, false)
			g.startIdx = g.startIdx[:len(g.startIdx)-1]
			b.Steps = append(b.Steps, Step{Op: opBlock, Child: ch, Via: v, Sess: g.sess(15), Swallow: true, Recover: true})
		} else {
			p := g.primitive(false)
			p.Via = g.via(depth+1, false)
			b.Steps = append(b.Steps, p)
		}
	}
	g.startIdx = g.startIdx[:len(g.startIdx)-1]
	g.inHook--
	st.Child = b
	return st
}

// sess decorates a step with a session derived from the handle it uses.
func (g *gen) sess(percent int) string {
	if uniform(g.rt, "sess?", 100) >= percent {
		return ""
	}
	if g.inHook > 0 {
		// The handle a hook receives shares the Statement of the running Create (hooks read
		// tx.Statement); a session that is not NewDB clones that statement, SQL, Vars and clauses
		// included, and so do the handles of the blocks started from it. What such a session
		// does is not C04's subject (and not documented; even Session{Initialized: true} re-runs
		// the INSERT of the hook's statement): below a hook only Session{NewDB: true}.
		return seNewDB
	}
	k := sessKinds[uniform(g.rt, "sess", len(sessKinds))]
	if g.fav == "" {
		g.fav = k // the case's favourite kind: asked for (and kept) again and again, so that it really is used again later
	}
	if g.fav != seInit && uniform(g.rt, "fav", 5) < 2 {
		return g.fav + "*"
	}
	if k != seInit && rapid.Bool().Draw(g.rt, "keep") {
		k += "*" // kept and used again (normalize turns the mark into Step.Cached)
	}
	return k
}

func (g *gen) opts() string {
	return []string{"", "", "", "", "", "nil", "zero", "serializable", "readonly", "readonly"}[uniform(g.rt, "txopts", 10)]
}

// normalize moves the "kept session" mark of the generator into Step.Cached.
func normalize(b *Body) {
	for i := range b.Steps {
		st := &b.Steps[i]
		if strings.HasSuffix(st.Sess, "*") {
			st.Sess = strings.TrimSuffix(st.Sess, "*")
			st.Cached = true
		}
		if st.Child != nil {
			normalize(st.Child)
		}
	}
}

// body generates the function of a block at the given depth (1 = outermost).
func (g *gen) body(depth int, manual bool) *Body {
	b := &Body{ID: g.nextID}
	g.nextID++
	n := []int{3, 2, 4, 1, 5, 6, 0, 3}[uniform(g.rt, "steps", 8)]
	if depth == 1 && n < 3 && rapid.Bool().Draw(g.rt, "longer") {
		n += 3
	}
	primBelow, blockBelow := 50, 74
	if depth == 1 {
		primBelow, blockBelow = 40, 76 // the outermost body gets more children
	}
	spBelow := 86
	if uniform(g.rt, "spheavy", 4) == 0 {
		// a body that is mostly about save points
		primBelow, blockBelow, spBelow = 40, 48, 74
		if n < 4 {
			n += 2
		}
	}
	pool := spNames(b.ID, []int{0, 0, 0, 1, 1, 1, 1, 2, 2, 2}[uniform(g.rt, "spstyle", 10)])
	var names []string
	if g.budget >= 5 && uniform(g.rt, "spscenario", 8) == 0 {
		// SavePoint(n1); write; SavePoint(n2); [write]; RollbackTo(n1 or n2) with two names of
		// the pool (a RollbackTo past a later save point), then the ordinary steps
		n1 := pool[uniform(g.rt, "spname", len(pool))]
		n2 := pool[uniform(g.rt, "spname", len(pool))]
		deco := func(st Step) Step {
			st.Via = g.via(depth, false)
			st.Sess = g.sess(20)
			return st
		}
		b.Steps = append(b.Steps, deco(Step{Op: opSP, Name: n1}), deco(g.primitive(false)), deco(Step{Op: opSP, Name: n2}))
		if rapid.Bool().Draw(g.rt, "write2") {
			b.Steps = append(b.Steps, deco(g.primitive(false)))
		}
		names = []string{n1, n2}
		target := n1
		if uniform(g.rt, "target", 4) == 0 {
			target = n2
		}
		if target == n1 && n1 != n2 {
			names = names[:1]
		}
		b.Steps = append(b.Steps, deco(Step{Op: opRBTo, Name: target}))
		g.budget -= len(b.Steps)
	}
	for i := 0; i < n && g.budget > 0; i++ {
		g.budget--
		r := uniform(g.rt, "kind", 100)
		switch {
		case r < 5 && depth+2 <= g.maxDepth:
			st := g.hookStep(depth)
			st.Via = g.via(depth, false)
			st.Sess = g.sess(20)
			b.Steps = append(b.Steps, st)
		case r < 11:
			st := g.batchStep()
			st.Via = g.via(depth, false)
			st.Sess = g.sess(20)
			b.Steps = append(b.Steps, st)
		case r < primBelow || (r < blockBelow && depth >= g.maxDepth):
			st := g.primitive(false)
			st.Via = g.via(depth, false)
			st.Sess = g.sess(30)
			b.Steps = append(b.Steps, st)
		case r < blockBelow:
			v := g.via(depth, true)
			g.startIdx = append(g.startIdx, depth-1-v)
			ch := g.body(depth+1, false)
			g.startIdx = g.startIdx[:len(g.startIdx)-1]
			b.Steps = append(b.Steps, Step{Op: opBlock, Child: ch, Via: v, Sess: g.sess(20), Opts: g.opts(), CtxCancel: uniform(g.rt, "ctx2", 8) == 7 && g.inHook == 0,
				Swallow: uniform(g.rt, "swallow", 3) < 2,
				Recover: rapid.Bool().Draw(g.rt, "recover")})
		case r < spBelow:
			nm := pool[uniform(g.rt, "spname", len(pool))]
			names = append(names, nm)
			b.Steps = append(b.Steps, Step{Op: opSP, Name: nm, Via: g.via(depth, false), Sess: g.sess(20)})
		case len(names) > 0:
			nm := names[0] // often the earliest one: rolls back past the later save points
			if rapid.Bool().Draw(g.rt, "rbany") {
				nm = names[uniform(g.rt, "rbname", len(names))]
			}
			// ROLLBACK TO keeps the named save point and drops the later ones
			for j := len(names) - 1; j >= 0; j-- {
				if names[j] == nm {
					names = names[:j+1]
					break
				}
			}
			b.Steps = append(b.Steps, Step{Op: opRBTo, Name: nm, Via: g.via(depth, false), Sess: g.sess(20)})
		default:
			st := g.primitive(false)
			st.Via = g.via(depth, false)
			st.Sess = g.sess(30)
			b.Steps = append(b.Steps, st)
		}
	}
	if manual {
		b.Out = []string{outCommit, outCommit, outCommit, outRollback, outRollback, outCommitRB, outRollbackCommit, outCancelCommit}[uniform(g.rt, "end", 8)]
	} else {
		outs := []string{outNil, outNil, outNil, outNil, outNil, outNil, outNil, outErr, outErr, outErr, outErrU, outPanic, outPanic, outPanic, outPanicNil, outGoexit}
		b.Out = outs[uniform(g.rt, "outcome", len(outs))]
		if b.Out == outGoexit && g.inHook > 0 {
			b.Out = outPanic
		}
		if b.Out == outErr && rapid.Bool().Draw(g.rt, "errvalue?") {
			b.Err = errValues[uniform(g.rt, "errvalue", len(errValues))]
		}
		if depth == 1 && uniform(g.rt, "killed", 8) == 7 {
			// only the outermost block can finish its transaction behind Commit's back
			b.Out = []string{outRollbackNil, outCancelNil}[uniform(g.rt, "how", 2)]
		}
	}
	return b
}

func genCase(rt *rapid.T) Case {
	c := Case{}
	c.Cfg.Prepare = rapid.Bool().Draw(rt, "prepare")
	c.Cfg.NoNest = uniform(rt, "nonest", 3) == 0
	c.Cfg.SkipDef = rapid.Bool().Draw(rt, "skipdef")
	c.Cfg.BatchSize = []int{0, 0, 0, 2, 3}[uniform(rt, "batchsize", 5)]
	c.Cfg.Translate = uniform(rt, "translate", 4) == 0
	c.Cfg.NoReturning = uniform(rt, "noreturning", 4) == 0
	budgets := []int{14, 12, 16, 10, 8, 5}
	if harness.Thorough() {
		budgets = []int{18, 14, 22, 10, 26, 6}
	}
	g := &gen{rt: rt, budget: budgets[uniform(rt, "budget", len(budgets))], nextID: 1, nextV: 10, maxDepth: 4}
	nInit := uniform(rt, "init", 3)
	for i := 0; i < nInit; i++ {
		c.Init = append(c.Init, KV{K: keys[i], V: int64(i + 1)})
	}
	nTop := []int{2, 3, 1}[uniform(rt, "top", 3)]
	for i := 0; i < nTop; i++ {
		r := uniform(rt, "topkind", 100)
		switch {
		case r < 65:
			g.startIdx = []int{-1}
			c.Top.Steps = append(c.Top.Steps, Step{Op: opBlock, Sess: g.sess(25), Opts: g.opts(), Conn: uniform(rt, "conn", 6) == 5, Child: g.body(1, false)})
		case r < 82:
			g.startIdx = []int{-1}
			c.Top.Steps = append(c.Top.Steps, Step{Op: opManual, Sess: g.sess(25), Opts: g.opts(), Conn: uniform(rt, "conn", 6) == 5, Child: g.body(1, true)})
		case r < 86 && !c.Cfg.SkipDef:
			// (on the root handle the hook runs in the default transaction of its statement; without
			// one there is no enclosing transaction and the hook's blocks are outermost blocks)
			st := g.hookStep(0)
			st.Sess = g.sess(25)
			if strings.HasPrefix(st.Sess, seSkipDef) {
				st.Sess = ""
			}
			c.Top.Steps = append(c.Top.Steps, st)
		case r < 90:
			st := g.batchStep()
			st.Sess = g.sess(25)
			st.Conn = uniform(rt, "conn", 6) == 5
			c.Top.Steps = append(c.Top.Steps, st)
		default:
			st := g.primitive(true)
			st.Sess = g.sess(25)
			st.Conn = uniform(rt, "conn", 6) == 5
			c.Top.Steps = append(c.Top.Steps, st)
		}
	}
	if uniform(rt, "trailer", 5) < 3 {
		// a write through the root handle after everything else
		st := g.primitive(true)
		if st.Op == opRead {
			st = Step{Op: opPut, K: keys[uniform(rt, "key", len(keys))], V: g.value()}
		}
		c.Top.Steps = append(c.Top.Steps, st)
	}
	normalize(&c.Top)
	for i := range c.Top.Steps {
		// (inside db.Connection the dedicated connection stays checked out, which the wait for the
		// background rollback of a cancelled context looks at: keep the two apart)
		if ch := c.Top.Steps[i].Child; ch != nil && (ch.Out == outCancelNil || ch.Out == outCancelCommit) {
			c.Top.Steps[i].Conn = false
		}
	}
	// fault plan: aim at a call that exists in the fault-free run
	w := walk(c)
	kinds := []string{fNone, fNone, fBegin, fCommit, fSavepoint, fSavepoint, fStmt, fStmt, fStmt, fBadConn, fBadConn}
	if c.Cfg.Prepare || usesSession(&c.Top, sePrep) {
		kinds = append(kinds, fPrepare)
	}
	kind := kinds[uniform(rt, "fault", len(kinds))]
	count := 0
	switch kind {
	case fBegin:
		count = w.begins
	case fCommit:
		count = w.commits
	case fSavepoint:
		count = len(w.sps)
	case fStmt:
		count = w.stmts
	case fBadConn:
		count = w.stmts
		if count > 3 && rapid.Bool().Draw(rt, "early") {
			count = 3 // often an early statement: the first write of a transaction
		}
	case fPrepare:
		count = w.stmts
	}
	if kind == fNone || count == 0 {
		c.Fault = FaultPlan{Kind: fNone}
	} else {
		c.Fault = FaultPlan{Kind: kind, K: uniform(rt, "k", count)}
	}
	if c.Fault.Kind == fSavepoint {
		// DB.SavePoint reports its error on the handle it is called on (like Commit and
		// Rollback it returns that handle). What a still running enclosing block may do with
		// its handle after a SavePoint called on it failed is not stated by the property, so
		// where a SAVEPOINT can fail the manual SavePoint steps use the block's own handle.
		ownSavepoints(&c.Top)
	}
	return c
}

func hasOutcome(b *Body, out string) bool {
	if b.Out == out {
		return true
	}
	for _, st := range b.Steps {
		if st.Child != nil && hasOutcome(st.Child, out) {
			return true
		}
	}
	return false
}

func usesSession(b *Body, kind string) bool {
	for _, st := range b.Steps {
		if st.Sess == kind || st.Sess == kind+"*" || (st.Child != nil && usesSession(st.Child, kind)) {
			return true
		}
	}
	return false
}

func ownSavepoints(b *Body) {
	for i := range b.Steps {
		if b.Steps[i].Op == opSP {
			b.Steps[i].Via = 0
		}
		if b.Steps[i].Child != nil {
			ownSavepoints(b.Steps[i].Child)
		}
	}
}

const rule = "C04: programs on a key→value table: 1-3 top-level steps (db.Transaction tree of depth ≤4, manual Begin…Commit/Rollback, single write/read), " +
	"block bodies of put/rawput/upd/del/read/SavePoint/RollbackTo/child-block/CreateInBatches steps (CreateInBatches opens its own block; a batch fails by fault or by a repeated key; a Create whose BeforeCreate/AfterCreate model hook runs steps and child blocks on the handle gorm passes to hooks) ending in return nil | return error | panic(value) | panic(nil) | runtime.Goexit() (outermost blocks and manual programs also: Rollback by hand or cancelled context, then return nil / Commit; nested blocks also started WithContext(ctx2) with ctx2 cancelled at the end), parents returning or swallowing a child's error " +
	"and optionally recovering its panic, every step inside a block going through the block's own handle or the captured handle of any enclosing block (same transaction), optionally through a session derived from that handle (Session{PrepareStmt}, Session{}, Session{NewDB}, WithContext, Session{SkipHooks}, Session{Logger}); manual save point names short, long (67-110 bytes sharing the first 64+ bytes), with digits/underscores/mixed case, private per block; configuration bits PrepareStmt, DisableNestedTransaction, SkipDefaultTransaction (the last two also per Session), CreateBatchSize, TranslateError, RETURNING support; blocks and manual programs with and without *sql.TxOptions and inside db.Connection; fault plan none or the k-th BEGIN/COMMIT/SAVEPOINT/statement/PREPARE " +
	"driver call fails (never ROLLBACK / ROLLBACK TO), or the k-th statement inside a transaction fails with driver.ErrBadConn and its connection stays bad (its ROLLBACK is carried out but reports ErrBadConn too); a block that returns an error returns its own sentinel or a value of the database layer (context.Canceled/DeadlineExceeded bare and wrapped, sql.ErrTxDone, sql.ErrConnDone, driver.ErrBadConn, gorm.ErrInvalidTransaction, gorm.ErrRecordNotFound); non-trivial = nesting depth ≥2 reached and at least one failure (block returning an error or panicking, fired fault) with successful writes both before and after it; " +
	"distinct = configuration + fault plan + initial rows + program text"

func checkCase(t interface {
	Fatalf(string, ...interface{})
}, c Case) {
	desc := c.String()
	if harness.OpenClass("C04", "nested-savepoint-fault") && savepointPoison(c) {
		evid.Excluded("nested-savepoint-fault")
		return
	}
	evid.Journal(desc)
	res := runCase(c)
	if res.excluded != "" && res.harnessErr == "" {
		// the run reached a shape of a listed open finding: not a case of the check (counted)
		evid.Excluded(res.excluded)
		return
	}
	evid.Case(desc, res.nontrivial, nil, res.classes...)
	if res.harnessErr != "" {
		t.Fatalf("harness: %s, case: %s", res.harnessErr, desc)
	}
	if len(res.viols) > 0 {
		t.Fatalf("C04 violated: %s\n  case: %s", strings.Join(res.viols, "\n  then: "), desc)
	}
}

func TestC04(t *testing.T) {
	evid.Rule(rule)
	rapid.Check(t, func(rt *rapid.T) {
		checkCase(rt, genCase(rt))
	})
}

// ---- witnesses of listed findings (plain tests, no generator) -------------------------------

// A nested Transaction block whose SAVEPOINT statement fails returns the error
// (fine) but also leaves it on the enclosing handle (DB.SavePoint does
// db.AddError on the handle Transaction was called on). An enclosing function
// that swallows the child's error then finds its handle unusable, and the
// outermost Transaction commits its writes yet returns the stale error.
func TestC04WitnessSavepointPoison(t *testing.T) {
	for _, prepare := range []bool{false, true} {
		d := testdb.Open(testdb.Options{Config: gorm.Config{PrepareStmt: prepare}})
		if _, err := d.SQL.Exec("CREATE TABLE kv (k TEXT PRIMARY KEY, v INTEGER NOT NULL)"); err != nil {
			t.Fatalf("harness: %v", err)
		}
		d.Rec.Reset()
		d.Rec.SetFault(func(idx int, e *recdrv.Event) error {
			if category(e) == fSavepoint {
				return recdrv.ErrInjected
			}
			return nil
		})
		var childErr, afterErr error
		err := d.Transaction(func(tx *gorm.DB) error {
			if e := tx.Create(&KV{K: "a", V: 1}).Error; e != nil {
				return e
			}
			childErr = tx.Transaction(func(tx2 *gorm.DB) error { return nil }) // SAVEPOINT fails
			afterErr = tx.Create(&KV{K: "b", V: 2}).Error                      // the enclosing transaction must still be usable
			return nil                                                         // child error swallowed
		})
		d.Rec.SetFault(nil)
		table, rerr := rawTable(d.SQL)
		if rerr != nil {
			t.Fatalf("harness: %v", rerr)
		}
		if !errors.Is(childErr, recdrv.ErrInjected) {
			t.Errorf("prepare=%v: nested block with failing SAVEPOINT returned %v, want the injected error", prepare, childErr)
		}
		if afterErr != nil {
			t.Errorf("prepare=%v: write on the enclosing handle after the failed nested block: %v (the enclosing transaction is no longer usable)", prepare, afterErr)
		}
		if err != nil && table != "{}" {
			t.Errorf("prepare=%v: outermost Transaction returned %q but its writes are durable: table %s", prepare, err, table)
		}
		if err == nil && table != "{a=1,b=2}" {
			t.Errorf("prepare=%v: outermost Transaction returned nil but the table is %s, want {a=1,b=2}", prepare, table)
		}
		d.Close()
	}
}

// A nested block started from tx.WithContext(ctx2) whose context is cancelled
// when the block fails: DB.Transaction issues the ROLLBACK TO SAVEPOINT through
// the same handle, i.e. with the dead context, database/sql refuses to run it and
// the deferred function ignores the result: the failed block's writes stay in the
// enclosing transaction, which commits them.
func TestC04WitnessNestedContextRollback(t *testing.T) {
	for _, prepare := range []bool{false, true} {
		d := testdb.Open(testdb.Options{Config: gorm.Config{PrepareStmt: prepare}})
		if _, err := d.SQL.Exec("CREATE TABLE kv (k TEXT PRIMARY KEY, v INTEGER NOT NULL)"); err != nil {
			t.Fatalf("harness: %v", err)
		}
		d.Rec.Reset()
		innerFailed := errors.New("inner failed")
		var childErr error
		var seen string
		err := d.Transaction(func(tx *gorm.DB) error {
			if e := tx.Create(&KV{K: "a", V: 1}).Error; e != nil {
				return e
			}
			ctx2, cancel2 := context.WithCancel(context.Background())
			childErr = tx.WithContext(ctx2).Transaction(func(tx2 *gorm.DB) error {
				if e := tx2.Create(&KV{K: "b", V: 2}).Error; e != nil {
					return e
				}
				cancel2() // e.g. the deadline of this unit of work expires
				return innerFailed
			})
			var rows []KV
			if e := tx.Order("k").Find(&rows).Error; e != nil {
				return e
			}
			seen = renderRows(rows)
			return nil // the failure of the nested block is handled here
		})
		table, rerr := rawTable(d.SQL)
		if rerr != nil {
			t.Fatalf("harness: %v", rerr)
		}
		if !errors.Is(childErr, innerFailed) {
			t.Errorf("prepare=%v: nested block returned %v, want its own error", prepare, childErr)
		}
		if err != nil {
			t.Errorf("prepare=%v: outermost Transaction returned %v", prepare, err)
		}
		if seen != "{a=1}" {
			t.Errorf("prepare=%v: after the failed nested block the enclosing transaction sees %s, want {a=1} (the nested block's write was not undone)", prepare, seen)
		}
		if table != "{a=1}" {
			t.Errorf("prepare=%v: durable table is %s, want {a=1}: the write of the failed nested block was committed", prepare, table)
		}
		d.Close()
	}
}

// A nested block opened by an AfterCreate hook on the handle the hook receives.
// DB.Transaction sets the save point through db.Session(&Session{}), which
// clones the Statement of the running Create (SQL and bind values included; the
// hook's handle shares it) and Exec only resets the SQL: SAVEPOINT is sent with
// the INSERT's bind values. SQLite ignores surplus values on a direct exec, but
// when the statement goes through a prepared statement (Session{PrepareStmt}
// taken inside a transaction that already uses prepared statements) database/sql
// rejects it: the nested block is refused with "sql: expected 0 arguments, got 2"
// although nothing failed.
func TestC04WitnessHookNestedSavepoint(t *testing.T) {
	d := testdb.Open(testdb.Options{Config: gorm.Config{PrepareStmt: true}})
	defer d.Close()
	if _, err := d.SQL.Exec("CREATE TABLE kv (k TEXT PRIMARY KEY, v INTEGER NOT NULL)"); err != nil {
		t.Fatalf("harness: %v", err)
	}
	d.Rec.Reset()
	ran := false
	var childErr error
	err := d.Transaction(func(tx *gorm.DB) error {
		return tx.Session(&gorm.Session{PrepareStmt: true}).Create(&HKV{K: "a", V: 1, After: func(htx *gorm.DB) error {
			childErr = htx.Transaction(func(tx2 *gorm.DB) error {
				ran = true
				return tx2.Session(&gorm.Session{NewDB: true}).Create(&KV{K: "b", V: 2}).Error
			})
			return nil
		}}).Error
	})
	table, rerr := rawTable(d.SQL)
	if rerr != nil {
		t.Fatalf("harness: %v", rerr)
	}
	if err != nil {
		t.Errorf("outermost Transaction returned %v", err)
	}
	if childErr != nil || !ran {
		t.Errorf("nested block opened by the AfterCreate hook: returned %v, block function ran: %v (no fault was injected)", childErr, ran)
	}
	if table != "{a=1,b=2}" {
		t.Errorf("durable table is %s, want {a=1,b=2}", table)
	}
	for _, e := range d.Rec.Events() {
		if strings.HasPrefix(e.Text, "SAVEPOINT") && len(e.Args) > 0 {
			t.Logf("note: %v carries the bind values of the hook's INSERT", e)
		}
	}
}

// Transaction called on a handle that already carries an Error (e.g. the value a
// failed finisher returned): DB.Begin copies the old error into the new handle,
// opens the sql.Tx all the same, and Transaction sees tx.Error != nil and
// returns it – without running the block and without rolling the transaction
// back: the connection never goes back to the pool.
func TestC04WitnessErroredHandleLeak(t *testing.T) {
	d := testdb.Open(testdb.Options{})
	defer d.Close()
	if _, err := d.SQL.Exec("CREATE TABLE kv (k TEXT PRIMARY KEY, v INTEGER NOT NULL)"); err != nil {
		t.Fatalf("harness: %v", err)
	}
	d.Rec.Reset()
	var row KV
	res := d.First(&row, "k = ?", "missing") // ErrRecordNotFound stays on res
	if !errors.Is(res.Error, gorm.ErrRecordNotFound) {
		t.Fatalf("harness: First returned %v", res.Error)
	}
	ran := false
	err := res.Transaction(func(tx *gorm.DB) error { ran = true; return nil })
	if in, open := d.SQL.Stats().InUse, d.Rec.OpenTx(); in != 0 || open != 0 {
		t.Errorf("Transaction on a handle carrying %q returned %v (block ran: %v) and left InUse=%d, open driver transactions=%d: the transaction it began was neither committed nor rolled back", res.Error, err, ran, in, open)
	}
}
