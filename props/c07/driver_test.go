// The database behind a C07 case: a private shared-cache in-memory SQLite reached through an
// unbounded database/sql pool, so that goroutines really overlap inside gorm AND inside the
// driver (statement building, scanning, prepared statements), not only in front of one pooled
// connection.
//
// SQLite allows one write transaction per shared cache and answers a second writer (or a reader
// of a table that is being written) with "database table is locked" instead of waiting. That is
// a property of the test database, not of gorm, so this wrapper removes it:
//   - every connection runs with PRAGMA read_uncommitted, so readers neither take nor respect
//     table locks (a goroutine only reads rows of its own key range, which nobody else writes);
//   - writers queue on one harness mutex: BEGIN takes it until COMMIT/ROLLBACK, an autocommit
//     write takes it for the call (a write that returns rows, INSERT .. RETURNING, until the
//     rows are closed).
//
// The mutex is only ever held by a goroutine that owns its connection and needs nothing else,
// so it cannot be part of a deadlock.
package c07

import (
	"context"
	"database/sql"
	"database/sql/driver"
	"fmt"
	"strings"
	"sync"
	"sync/atomic"

	sqlite3 "github.com/mattn/go-sqlite3"
)

var (
	memSeq   int64
	sqliteDr = &sqlite3.SQLiteDriver{}
)

type memDB struct {
	dsn    string
	anchor driver.Conn
	w      sync.Mutex // the one writer
	SQL    *sql.DB
	conns  int64
}

func openMem(maxOpen, maxIdle int) *memDB {
	n := atomic.AddInt64(&memSeq, 1)
	m := &memDB{dsn: fmt.Sprintf("file:c07mem%d?mode=memory&cache=shared", n)}
	c, err := sqliteDr.Open(m.dsn)
	if err != nil {
		panic("harness: open anchor: " + err.Error())
	}
	m.anchor = c
	m.SQL = sql.OpenDB(memConnector{m})
	if maxOpen > 0 {
		m.SQL.SetMaxOpenConns(maxOpen)
	}
	m.SQL.SetMaxIdleConns(maxIdle)
	return m
}

func (m *memDB) Close() {
	_ = m.SQL.Close()
	if m.anchor != nil {
		_ = m.anchor.Close()
		m.anchor = nil
	}
}

type memConnector struct{ m *memDB }

func (c memConnector) Driver() driver.Driver { return memDriver{c.m} }

func (c memConnector) Connect(ctx context.Context) (driver.Conn, error) {
	raw, err := sqliteDr.Open(c.m.dsn)
	if err != nil {
		return nil, err
	}
	sc := raw.(*sqlite3.SQLiteConn)
	if _, err := sc.Exec("PRAGMA read_uncommitted = 1", nil); err != nil {
		_ = sc.Close()
		return nil, err
	}
	atomic.AddInt64(&c.m.conns, 1)
	return &memConn{m: c.m, raw: sc}, nil
}

type memDriver struct{ m *memDB }

func (d memDriver) Open(string) (driver.Conn, error) {
	return memConnector{d.m}.Connect(context.Background())
}

type memConn struct {
	m    *memDB
	raw  *sqlite3.SQLiteConn
	inTx bool
}

var (
	_ driver.ConnBeginTx        = (*memConn)(nil)
	_ driver.ConnPrepareContext = (*memConn)(nil)
	_ driver.ExecerContext      = (*memConn)(nil)
	_ driver.QueryerContext     = (*memConn)(nil)
	_ driver.Pinger             = (*memConn)(nil)
)

// isRead: a statement that cannot write (gorm's queries start with SELECT).
func isRead(q string) bool {
	q = strings.TrimLeft(q, " \t\r\n(")
	return len(q) >= 6 && strings.EqualFold(q[:6], "SELECT")
}

func (c *memConn) Ping(ctx context.Context) error { return c.raw.Ping(ctx) }

func (c *memConn) Close() error { return c.raw.Close() }

func (c *memConn) Prepare(q string) (driver.Stmt, error) {
	return c.PrepareContext(context.Background(), q)
}

func (c *memConn) PrepareContext(ctx context.Context, q string) (driver.Stmt, error) {
	s, err := c.raw.PrepareContext(ctx, q)
	if err != nil {
		return nil, err
	}
	return &memStmt{c: c, raw: s.(*sqlite3.SQLiteStmt), read: isRead(q)}, nil
}

func (c *memConn) Begin() (driver.Tx, error) {
	return c.BeginTx(context.Background(), driver.TxOptions{})
}

func (c *memConn) BeginTx(ctx context.Context, opts driver.TxOptions) (driver.Tx, error) {
	c.m.w.Lock()
	t, err := c.raw.BeginTx(ctx, opts)
	if err != nil {
		c.m.w.Unlock()
		return nil, err
	}
	c.inTx = true
	return &memTx{c: c, raw: t}, nil
}

func (c *memConn) ExecContext(ctx context.Context, q string, args []driver.NamedValue) (driver.Result, error) {
	if !c.inTx {
		c.m.w.Lock()
		defer c.m.w.Unlock()
	}
	return c.raw.ExecContext(ctx, q, args)
}

func (c *memConn) QueryContext(ctx context.Context, q string, args []driver.NamedValue) (driver.Rows, error) {
	if c.inTx || isRead(q) {
		return c.raw.QueryContext(ctx, q, args)
	}
	c.m.w.Lock()
	rows, err := c.raw.QueryContext(ctx, q, args)
	if err != nil {
		c.m.w.Unlock()
		return nil, err
	}
	return &writeRows{Rows: rows, m: c.m}, nil
}

// writeRows: the rows of an autocommit write (INSERT .. RETURNING); the statement is only finished,
// and the write lock of SQLite only released, when they are closed.
type writeRows struct {
	driver.Rows
	m    *memDB
	done bool
}

func (r *writeRows) Close() error {
	err := r.Rows.Close()
	if !r.done {
		r.done = true
		r.m.w.Unlock()
	}
	return err
}

type memTx struct {
	c    *memConn
	raw  driver.Tx
	done bool
}

func (t *memTx) finish() {
	if !t.done {
		t.done = true
		t.c.inTx = false
		t.c.m.w.Unlock()
	}
}

func (t *memTx) Commit() error   { err := t.raw.Commit(); t.finish(); return err }
func (t *memTx) Rollback() error { err := t.raw.Rollback(); t.finish(); return err }

type memStmt struct {
	c    *memConn
	raw  *sqlite3.SQLiteStmt
	read bool
}

var (
	_ driver.StmtExecContext  = (*memStmt)(nil)
	_ driver.StmtQueryContext = (*memStmt)(nil)
)

func (s *memStmt) Close() error  { return s.raw.Close() }
func (s *memStmt) NumInput() int { return s.raw.NumInput() }

func (s *memStmt) Exec(args []driver.Value) (driver.Result, error) {
	return s.ExecContext(context.Background(), namedValues(args))
}

func (s *memStmt) Query(args []driver.Value) (driver.Rows, error) {
	return s.QueryContext(context.Background(), namedValues(args))
}

func namedValues(args []driver.Value) []driver.NamedValue {
	out := make([]driver.NamedValue, len(args))
	for i, a := range args {
		out[i] = driver.NamedValue{Ordinal: i + 1, Value: a}
	}
	return out
}

func (s *memStmt) ExecContext(ctx context.Context, args []driver.NamedValue) (driver.Result, error) {
	if !s.c.inTx {
		s.c.m.w.Lock()
		defer s.c.m.w.Unlock()
	}
	return s.raw.ExecContext(ctx, args)
}

func (s *memStmt) QueryContext(ctx context.Context, args []driver.NamedValue) (driver.Rows, error) {
	if s.c.inTx || s.read {
		return s.raw.QueryContext(ctx, args)
	}
	s.c.m.w.Lock()
	rows, err := s.raw.QueryContext(ctx, args)
	if err != nil {
		s.c.m.w.Unlock()
		return nil, err
	}
	return &writeRows{Rows: rows, m: s.c.m}, nil
}
