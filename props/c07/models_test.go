// The C07 model families: six model types connected by belongs-to / has-one / has-many /
// many-to-many relations (one connected component, with cycles: Author <-> Book, Author <->
// Company) plus two relation-free models. Every key is explicit (no generated keys), so a
// goroutine that only uses keys of its own range gets schedule independent results.
package c07

import (
	"context"
	"database/sql/driver"
	"fmt"
	"reflect"
	"sort"
	"strings"
	"sync/atomic"
	"time"

	"gorm.io/gorm"
	"gorm.io/gorm/schema"
)

type Company struct {
	ID    uint `gorm:"primaryKey;autoIncrement:false"`
	Name  string
	Staff []Author `gorm:"foreignKey:CompanyID"` // has many (back reference of Author.Company)
}

type Author struct {
	ID        uint `gorm:"primaryKey;autoIncrement:false"`
	Name      string
	Age       int
	CompanyID *uint
	Company   *Company `gorm:"foreignKey:CompanyID"`                                               // belongs to
	Profile   *Profile `gorm:"foreignKey:AuthorID"`                                                // has one
	Books     []Book   `gorm:"foreignKey:AuthorID"`                                                // has many
	Tags      []Tag    `gorm:"many2many:author_tags;joinForeignKey:AuthorID;joinReferences:TagID"` // many to many
}

type Profile struct {
	ID       uint `gorm:"primaryKey;autoIncrement:false"`
	Bio      string
	AuthorID *uint
	Memo     string `gorm:"-"` // a field without a column on the target of a has-one relation
}

type Book struct {
	ID       uint `gorm:"primaryKey;autoIncrement:false"`
	Title    string
	Pages    int
	AuthorID *uint
	Author   *Author  `gorm:"foreignKey:AuthorID"` // belongs to (back reference of Author.Books)
	Reviews  []Review `gorm:"foreignKey:BookID"`   // has many
}

type Review struct {
	ID     uint `gorm:"primaryKey;autoIncrement:false"`
	Stars  int
	BookID *uint
	Memo   string `gorm:"-"` // ... of a has-many relation
}

type Tag struct {
	ID    uint `gorm:"primaryKey;autoIncrement:false"`
	Label string
}

// relation-free models. Gadget carries the field shapes whose schema setup and scan paths have
// state of their own: a serializer (pooled *serializer scan values), a custom Valuer/Scanner type,
// an embedded struct (parsed through a private embedded cache), tracked times and hook methods.
type Gadget struct {
	ID        uint `gorm:"primaryKey;autoIncrement:false"`
	Name      string
	Qty       int
	Labels    []string `gorm:"serializer:json"`
	Level     Level
	Spec      Spec `gorm:"embedded;embeddedPrefix:spec_"`
	CreatedAt time.Time
	UpdatedAt time.Time
	Seen      int `gorm:"-"` // set by AfterFind
}

// Level is stored as text through its own Valuer/Scanner.
type Level int

func (Level) GormDataType() string { return "string" }

func (l Level) Value() (driver.Value, error) { return fmt.Sprintf("L%d", int(l)), nil }

func (l *Level) Scan(v interface{}) error {
	var s string
	switch x := v.(type) {
	case string:
		s = x
	case []byte:
		s = string(x)
	case nil:
		*l = 0
		return nil
	default:
		return fmt.Errorf("c07: Level.Scan %T", v)
	}
	n := 0
	if _, err := fmt.Sscanf(s, "L%d", &n); err != nil {
		return fmt.Errorf("c07: Level.Scan %q", s)
	}
	*l = Level(n)
	return nil
}

type Spec struct {
	Color string
	Size  int
}

// hook methods: they touch the value they are called on and a counter only
var hookCalls int64

func (g *Gadget) BeforeCreate(tx *gorm.DB) error {
	atomic.AddInt64(&hookCalls, 1)
	if g.Spec.Color == "" {
		g.Spec.Color = "plain"
	}
	return nil
}

func (g *Gadget) AfterFind(tx *gorm.DB) error {
	atomic.AddInt64(&hookCalls, 1)
	g.Seen++
	return nil
}

func (w *Widget) BeforeSave(tx *gorm.DB) error {
	atomic.AddInt64(&hookCalls, 1)
	if w.Code == "" {
		w.Code = "nocode"
	}
	return nil
}

// GadgetLite: a smaller destination type for Model(&Gadget{}).Find(&[]GadgetLite{}) (first use of a
// type as a scan destination). GadgetFilter: a type used only as a struct condition.
type GadgetLite struct {
	ID   uint
	Name string
}

type GadgetFilter struct {
	Name string
	Qty  int
}

type Widget struct {
	ID        uint `gorm:"primaryKey;autoIncrement:false"`
	Code      string
	Weight    float64
	DeletedAt gorm.DeletedAt
	Secret    Cipher
	UpdatedAt time.Time
}

// A second family, unrelated to the first: one shared target type (Parcel) that is the has-many /
// has-one target of four different owner types. Every owner's parse registers a reverse relation
// in Parcel's relation map, so "Parcel warm, owners used for the first time by several goroutines"
// exercises writes of several parses into one published schema.
type Parcel struct {
	ID        uint `gorm:"primaryKey;autoIncrement:false"`
	Label     string
	Weight    int
	DepotID   *uint
	CourierID *uint
	CustomsID *uint
	SorterID  *uint
	Memo      string `gorm:"-:all"` // ... of the has-many / has-one relations of four owner types
}

type Depot struct {
	ID      uint `gorm:"primaryKey;autoIncrement:false"`
	Name    string
	Parcels []Parcel `gorm:"foreignKey:DepotID"`
}

type Courier struct {
	ID      uint `gorm:"primaryKey;autoIncrement:false"`
	Name    string
	Parcels []Parcel `gorm:"foreignKey:CourierID"`
}

type Customs struct {
	ID      uint `gorm:"primaryKey;autoIncrement:false"`
	Name    string
	Parcels []Parcel `gorm:"foreignKey:CustomsID"`
}

type Sorter struct {
	ID     uint `gorm:"primaryKey;autoIncrement:false"`
	Name   string
	Parcel *Parcel `gorm:"foreignKey:SorterID"` // has one
}

// Three more families, unrelated to each other and to the first two: an owner type with a
// many-to-many relation to a target type of its own (own join table). Different goroutines can use
// them for the first time at the same instant on a cold handle without entering the listed
// first-use classes (no schema is reached from two parses), so the many-to-many parse itself
// (join table type built by reflect.StructOf, name casing) runs concurrently.
type Band struct {
	ID    uint `gorm:"primaryKey;autoIncrement:false"`
	Name  string
	Songs []Song `gorm:"many2many:band_songs"`
}

type Song struct {
	ID    uint `gorm:"primaryKey;autoIncrement:false"`
	Title string
}

type Team struct {
	ID     uint `gorm:"primaryKey;autoIncrement:false"`
	Name   string
	Skills []Skill `gorm:"many2many:team_skills"`
}

type Skill struct {
	ID    uint `gorm:"primaryKey;autoIncrement:false"`
	Label string
}

type Shop struct {
	ID     uint `gorm:"primaryKey;autoIncrement:false"`
	Name   string
	Brands []Brand `gorm:"many2many:shop_brands"`
}

type Brand struct {
	ID    uint `gorm:"primaryKey;autoIncrement:false"`
	Label string
}

// Cipher is a field type that is its own serializer (schema.SerializerInterface) with a stateful
// pointer-receiver Scan: it decodes into the receiver, and gorm then copies the receiver into the
// field. Every pooled scan value must therefore own its serializer instance.
type Cipher string

func (c *Cipher) Scan(ctx context.Context, field *schema.Field, dst reflect.Value, dbValue interface{}) error {
	switch v := dbValue.(type) {
	case []byte:
		*c = Cipher(strings.TrimPrefix(string(v), "enc:"))
	case string:
		*c = Cipher(strings.TrimPrefix(v, "enc:"))
	case nil:
		*c = ""
	default:
		return fmt.Errorf("c07: Cipher.Scan %T", dbValue)
	}
	return nil
}

func (c Cipher) Value(ctx context.Context, field *schema.Field, dst reflect.Value, fieldValue interface{}) (interface{}, error) {
	return "enc:" + string(c), nil
}

// model kinds
const (
	mCompany = iota
	mAuthor
	mProfile
	mBook
	mReview
	mTag
	mGadget
	mWidget
	mParcel
	mDepot
	mCourier
	mCustoms
	mSorter
	mBand
	mSong
	mTeam
	mSkill
	mShop
	mBrand
	nModels
)

var modelNames = [nModels]string{"Company", "Author", "Profile", "Book", "Review", "Tag", "Gadget", "Widget", "Parcel", "Depot", "Courier", "Customs", "Sorter", "Band", "Song", "Team", "Skill", "Shop", "Brand"}
var modelTables = [nModels]string{"companies", "authors", "profiles", "books", "reviews", "tags", "gadgets", "widgets", "parcels", "depots", "couriers", "customs", "sorters", "bands", "songs", "teams", "skills", "shops", "brands"}

// family: 1 = Company..Tag, 2 = Parcel and its owners, 3/4/5 = Band+Song / Team+Skill / Shop+Brand,
// 0 = relation-free.
const nFamilies = 5

func family(m int) int {
	switch {
	case m < mGadget:
		return 1
	case m >= mBand:
		return 3 + (m-mBand)/2
	case m >= mParcel:
		return 2
	}
	return 0
}

// many-to-many families: owner, target, relation name, join table
var m2mOwner = map[int]int{3: mBand, 4: mTeam, 5: mShop}

func isM2MOwner(m int) bool { return m == mBand || m == mTeam || m == mShop }

func m2mRel(owner int) string {
	return map[int]string{mBand: "Songs", mTeam: "Skills", mShop: "Brands"}[owner]
}

var joinTables = []string{"author_tags", "band_songs", "team_skills", "shop_brands"}

var (
	family1Models = []int{mCompany, mAuthor, mProfile, mBook, mReview, mTag}
	family2Models = []int{mParcel, mDepot, mCourier, mCustoms, mSorter}
	parcelOwners  = []int{mDepot, mCourier, mCustoms, mSorter}
	freeModels    = []int{mGadget, mWidget}
)

// parcelRel: the name of an owner's relation to Parcel.
func parcelRel(owner int) string {
	if owner == mSorter {
		return "Parcel"
	}
	return "Parcels"
}

func newModel(m int) interface{} {
	switch m {
	case mCompany:
		return &Company{}
	case mAuthor:
		return &Author{}
	case mProfile:
		return &Profile{}
	case mBook:
		return &Book{}
	case mReview:
		return &Review{}
	case mTag:
		return &Tag{}
	case mGadget:
		return &Gadget{}
	case mWidget:
		return &Widget{}
	case mParcel:
		return &Parcel{}
	case mDepot:
		return &Depot{}
	case mCourier:
		return &Courier{}
	case mCustoms:
		return &Customs{}
	case mSorter:
		return &Sorter{}
	case mBand:
		return &Band{}
	case mSong:
		return &Song{}
	case mTeam:
		return &Team{}
	case mSkill:
		return &Skill{}
	case mShop:
		return &Shop{}
	case mBrand:
		return &Brand{}
	}
	panic("harness: bad model kind")
}

func newSlice(m int) interface{} {
	return reflect.New(reflect.SliceOf(reflect.TypeOf(newModel(m)).Elem())).Interface()
}

// forbidden: the value of the model's first column that the table's CHECK constraint refuses - a
// statement with it is prepared like any other and fails when it is executed.
func forbidden(m int) interface{} {
	if m == mReview {
		return -77
	}
	return "FORBIDDEN"
}

// the tables, as AutoMigrate of a separate handle wrote them (plus one CHECK constraint each) (fixed text: the handle under test
// must stay cold, so the check creates tables through database/sql)
var ddl = []string{
	"CREATE TABLE `companies` (`id` integer,`name` text,CHECK (`name` <> 'FORBIDDEN'),PRIMARY KEY (`id`))",
	"CREATE TABLE `authors` (`id` integer,`name` text,`age` integer,`company_id` integer,CHECK (`name` <> 'FORBIDDEN'),PRIMARY KEY (`id`))",
	"CREATE TABLE `profiles` (`id` integer,`bio` text,`author_id` integer,CHECK (`bio` <> 'FORBIDDEN'),PRIMARY KEY (`id`))",
	"CREATE TABLE `books` (`id` integer,`title` text,`pages` integer,`author_id` integer,CHECK (`title` <> 'FORBIDDEN'),PRIMARY KEY (`id`))",
	"CREATE TABLE `reviews` (`id` integer,`stars` integer,`book_id` integer,CHECK (`stars` <> -77),PRIMARY KEY (`id`))",
	"CREATE TABLE `tags` (`id` integer,`label` text,CHECK (`label` <> 'FORBIDDEN'),PRIMARY KEY (`id`))",
	"CREATE TABLE `author_tags` (`author_id` integer,`tag_id` integer,PRIMARY KEY (`author_id`,`tag_id`))",
	"CREATE TABLE `gadgets` (`id` integer,`name` text,`qty` integer,`labels` text,`level` text,`spec_color` text,`spec_size` integer,`created_at` datetime,`updated_at` datetime,CHECK (`name` <> 'FORBIDDEN'),PRIMARY KEY (`id`))",
	"CREATE TABLE `widgets` (`id` integer,`code` text,`weight` real,`deleted_at` datetime,`secret` text,`updated_at` datetime,CHECK (`code` <> 'FORBIDDEN'),PRIMARY KEY (`id`))",
	"CREATE TABLE `bands` (`id` integer,`name` text,CHECK (`name` <> 'FORBIDDEN'),PRIMARY KEY (`id`))",
	"CREATE TABLE `songs` (`id` integer,`title` text,CHECK (`title` <> 'FORBIDDEN'),PRIMARY KEY (`id`))",
	"CREATE TABLE `band_songs` (`band_id` integer,`song_id` integer,PRIMARY KEY (`band_id`,`song_id`))",
	"CREATE TABLE `teams` (`id` integer,`name` text,CHECK (`name` <> 'FORBIDDEN'),PRIMARY KEY (`id`))",
	"CREATE TABLE `skills` (`id` integer,`label` text,CHECK (`label` <> 'FORBIDDEN'),PRIMARY KEY (`id`))",
	"CREATE TABLE `team_skills` (`team_id` integer,`skill_id` integer,PRIMARY KEY (`team_id`,`skill_id`))",
	"CREATE TABLE `shops` (`id` integer,`name` text,CHECK (`name` <> 'FORBIDDEN'),PRIMARY KEY (`id`))",
	"CREATE TABLE `brands` (`id` integer,`label` text,CHECK (`label` <> 'FORBIDDEN'),PRIMARY KEY (`id`))",
	"CREATE TABLE `shop_brands` (`shop_id` integer,`brand_id` integer,PRIMARY KEY (`shop_id`,`brand_id`))",
	"CREATE TABLE `parcels` (`id` integer,`label` text,`weight` integer,`depot_id` integer,`courier_id` integer,`customs_id` integer,`sorter_id` integer,CHECK (`label` <> 'FORBIDDEN'),PRIMARY KEY (`id`))",
	"CREATE TABLE `depots` (`id` integer,`name` text,CHECK (`name` <> 'FORBIDDEN'),PRIMARY KEY (`id`))",
	"CREATE TABLE `couriers` (`id` integer,`name` text,CHECK (`name` <> 'FORBIDDEN'),PRIMARY KEY (`id`))",
	"CREATE TABLE `customs` (`id` integer,`name` text,CHECK (`name` <> 'FORBIDDEN'),PRIMARY KEY (`id`))",
	"CREATE TABLE `sorters` (`id` integer,`name` text,CHECK (`name` <> 'FORBIDDEN'),PRIMARY KEY (`id`))",
}

// ---- rendering (results are compared as text) ---------------------------------------------------

func up(p *uint) string {
	if p == nil {
		return "nil"
	}
	return fmt.Sprint(*p)
}

func renderCompany(c *Company) string {
	if c == nil {
		return "nil"
	}
	s := fmt.Sprintf("Company{%d %q", c.ID, c.Name)
	if c.Staff != nil {
		parts := make([]string, len(c.Staff))
		for i := range c.Staff {
			parts[i] = renderAuthor(&c.Staff[i])
		}
		s += " staff=[" + strings.Join(sortedStrings(parts), ",") + "]"
	}
	return s + "}"
}

func renderAuthor(a *Author) string {
	if a == nil {
		return "nil"
	}
	s := fmt.Sprintf("Author{%d %q %d co=%s", a.ID, a.Name, a.Age, up(a.CompanyID))
	if a.Company != nil {
		s += " company=" + renderCompany(a.Company)
	}
	if a.Profile != nil {
		s += " profile=" + renderProfile(a.Profile)
	}
	if a.Books != nil {
		parts := make([]string, len(a.Books))
		for i := range a.Books {
			parts[i] = renderBook(&a.Books[i])
		}
		s += " books=[" + strings.Join(sortedStrings(parts), ",") + "]"
	}
	if a.Tags != nil {
		parts := make([]string, len(a.Tags))
		for i := range a.Tags {
			parts[i] = renderTag(&a.Tags[i])
		}
		s += " tags=[" + strings.Join(sortedStrings(parts), ",") + "]"
	}
	return s + "}"
}

func renderProfile(p *Profile) string {
	if p == nil {
		return "nil"
	}
	return fmt.Sprintf("Profile{%d %q a=%s}", p.ID, p.Bio, up(p.AuthorID))
}

func renderBook(b *Book) string {
	if b == nil {
		return "nil"
	}
	s := fmt.Sprintf("Book{%d %q %d a=%s", b.ID, b.Title, b.Pages, up(b.AuthorID))
	if b.Author != nil {
		s += " author=" + renderAuthor(b.Author)
	}
	if b.Reviews != nil {
		parts := make([]string, len(b.Reviews))
		for i := range b.Reviews {
			parts[i] = renderReview(&b.Reviews[i])
		}
		s += " reviews=[" + strings.Join(sortedStrings(parts), ",") + "]"
	}
	return s + "}"
}

func renderReview(r *Review) string {
	return fmt.Sprintf("Review{%d %d b=%s}", r.ID, r.Stars, up(r.BookID))
}

func renderTag(t *Tag) string { return fmt.Sprintf("Tag{%d %q}", t.ID, t.Label) }

func renderGadget(g *Gadget) string {
	s := fmt.Sprintf("Gadget{%d %q %d %q L%d %s/%d", g.ID, g.Name, g.Qty, g.Labels, int(g.Level), g.Spec.Color, g.Spec.Size)
	if !g.CreatedAt.IsZero() {
		s += " c=" + g.CreatedAt.UTC().Format("15:04:05")
	}
	if !g.UpdatedAt.IsZero() {
		s += " u=" + g.UpdatedAt.UTC().Format("15:04:05")
	}
	if g.Seen != 0 {
		s += fmt.Sprintf(" seen=%d", g.Seen)
	}
	return s + "}"
}

func renderWidget(w *Widget) string {
	s := fmt.Sprintf("Widget{%d %q %g secret=%q", w.ID, w.Code, w.Weight, string(w.Secret))
	if w.DeletedAt.Valid {
		s += " deleted=" + w.DeletedAt.Time.UTC().Format("15:04:05")
	}
	if !w.UpdatedAt.IsZero() {
		s += " u=" + w.UpdatedAt.UTC().Format("15:04:05")
	}
	return s + "}"
}

func renderParcel(p *Parcel) string {
	if p == nil {
		return "nil"
	}
	return fmt.Sprintf("Parcel{%d %q %d d=%s c=%s u=%s s=%s}", p.ID, p.Label, p.Weight, up(p.DepotID), up(p.CourierID), up(p.CustomsID), up(p.SorterID))
}

func renderParcels(ps []Parcel) string {
	if ps == nil {
		return ""
	}
	parts := make([]string, len(ps))
	for i := range ps {
		parts[i] = renderParcel(&ps[i])
	}
	return " parcels=[" + strings.Join(sortedStrings(parts), ",") + "]"
}

// render renders a model pointer or a pointer to a slice of models. Slices are sorted by the
// rendered text of their members only where the query gave no order (the callers always order).
func render(v interface{}) string {
	switch x := v.(type) {
	case *Company:
		return renderCompany(x)
	case *Author:
		return renderAuthor(x)
	case *Profile:
		return renderProfile(x)
	case *Book:
		return renderBook(x)
	case *Review:
		return renderReview(x)
	case *Tag:
		return renderTag(x)
	case *Gadget:
		return renderGadget(x)
	case *Widget:
		return renderWidget(x)
	case *GadgetLite:
		return fmt.Sprintf("GadgetLite{%d %q}", x.ID, x.Name)
	case *Parcel:
		return renderParcel(x)
	case *Depot:
		return fmt.Sprintf("Depot{%d %q%s}", x.ID, x.Name, renderParcels(x.Parcels))
	case *Courier:
		return fmt.Sprintf("Courier{%d %q%s}", x.ID, x.Name, renderParcels(x.Parcels))
	case *Customs:
		return fmt.Sprintf("Customs{%d %q%s}", x.ID, x.Name, renderParcels(x.Parcels))
	case *Band:
		return fmt.Sprintf("Band{%d %q%s}", x.ID, x.Name, renderNested("songs", &x.Songs, x.Songs == nil))
	case *Song:
		return fmt.Sprintf("Song{%d %q}", x.ID, x.Title)
	case *Team:
		return fmt.Sprintf("Team{%d %q%s}", x.ID, x.Name, renderNested("skills", &x.Skills, x.Skills == nil))
	case *Skill:
		return fmt.Sprintf("Skill{%d %q}", x.ID, x.Label)
	case *Shop:
		return fmt.Sprintf("Shop{%d %q%s}", x.ID, x.Name, renderNested("brands", &x.Brands, x.Brands == nil))
	case *Brand:
		return fmt.Sprintf("Brand{%d %q}", x.ID, x.Label)
	case *Sorter:
		s := fmt.Sprintf("Sorter{%d %q", x.ID, x.Name)
		if x.Parcel != nil {
			s += " parcel=" + renderParcel(x.Parcel)
		}
		return s + "}"
	}
	rv := reflect.ValueOf(v)
	if rv.Kind() == reflect.Ptr && rv.Elem().Kind() == reflect.Slice {
		parts := make([]string, rv.Elem().Len())
		for i := range parts {
			if e := rv.Elem().Index(i); e.Kind() == reflect.Ptr {
				parts[i] = render(e.Interface())
			} else {
				parts[i] = render(e.Addr().Interface())
			}
		}
		return "[" + strings.Join(parts, " ") + "]"
	}
	panic(fmt.Sprintf("harness: render %T", v))
}

// renderNested renders a loaded to-many relation (members sorted).
func renderNested(name string, slicePtr interface{}, isNil bool) string {
	if isNil {
		return ""
	}
	rv := reflect.ValueOf(slicePtr).Elem()
	parts := make([]string, rv.Len())
	for i := range parts {
		parts[i] = render(rv.Index(i).Addr().Interface())
	}
	return " " + name + "=[" + strings.Join(sortedStrings(parts), ",") + "]"
}

func sortedStrings(s []string) []string { sort.Strings(s); return s }
