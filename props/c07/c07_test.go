// C07 — one shared handle can be used from many goroutines at once, including first use.
//
// G goroutines (2..32) are released by one barrier and each runs a random program (<= 8
// operations) through the SAME *gorm.DB on rows whose explicit primary keys are private to the
// goroutine, on a handle whose schema cache is cold, partly warm or warm, with and without
// PrepareStmt / default transactions. Oracles: (1) the race detector (the driver builds this
// package with -race; the number of reports is read after every case, so a report is attributed
// to the case that produced it), (2) every operation's result and the final rows equal those of
// the same programs run one after the other on a fresh database. See DESIGN.md §3 C07.
package c07

import (
	"context"
	"database/sql"
	"encoding/json"
	"errors"
	"fmt"
	"os"
	"reflect"
	"regexp"
	"runtime"
	"strings"
	"sync"
	"sync/atomic"
	"testing"
	"time"

	"gorm.io/gorm"
	"gorm.io/gorm/clause"
	"gorm.io/gorm/logger"
	"gorm.io/gorm/schema"
	"pgregory.net/rapid"

	"verif/internal/evid"
	"verif/internal/harness"
	"verif/internal/testdb"
	"verif/internal/vdialect"
)

func TestMain(m *testing.M) { harness.Main(m) }

const (
	nKeys     = 8 // key offsets 1..nKeys inside a goroutine's private range
	rangeSize = 100
	maxOps    = 8

	classColdRelated = "cold-related-first-use"
	classBoundedPool = "preparestmt-bounded-pool"
	classTargetInUse = "owner-first-use-target-in-use"
	classTargetWrite = "owner-first-use-target-written"

	stallLimit = 30 * time.Second // no operation of any goroutine finished for this long = deadlock
)

// ---- case description ---------------------------------------------------------------------------

// Op is one operation of a program. The meaning of A, B, V depends on K (see exec).
type Op struct {
	K      string `json:"k"`
	M      int    `json:"m"`                // model kind
	A      int    `json:"a,omitempty"`      // key offset
	B      int    `json:"b,omitempty"`      // second key offset (0 = none)
	V      int    `json:"v,omitempty"`      // payload
	R      string `json:"r,omitempty"`      // relation names ("Books" or "Books,Tags")
	Sub    []Op   `json:"sub,omitempty"`    // body of a transaction block
	Commit bool   `json:"commit,omitempty"` // transaction block: commit or roll back
	Y      bool   `json:"y,omitempty"`      // runtime.Gosched() before the operation
	S      int    `json:"s,omitempty"`      // bit mask of per-call Session options (sessOptNames)
}

// Carried describes a reusable handle all goroutines share that already carries clauses of its own:
// db.Where(..)x Wheres .Order(..)x Orders [.Joins][.Preload][.Select("*")].Session(&gorm.Session{}).
// The "carried" operations derive a chain from it, add one more clause of a kind it already has
// (Order, Where, Select, Omit, Joins, Preload, Limit, Clauses) and finish it; what they add must
// never show in another goroutine's chain. The carried conditions are true for every row and the
// carried orderings are constant expressions, so results are decided by what the goroutine adds.
type Carried struct {
	M       int  `json:"m"`                 // Gadget, Widget, or Author (only when family 1 is completely parsed)
	Orders  int  `json:"orders"`            // 0..7 Order() calls (slices with spare capacity: 3, 5, 6, 7)
	Wheres  int  `json:"wheres"`            // 0..3 Where() calls
	Select  bool `json:"select,omitempty"`  // Select("<table>.*")
	Joins   bool `json:"joins,omitempty"`   // Author: Joins("Company")
	Preload bool `json:"preload,omitempty"` // Author: Preload("Profile")
}

func (k *Carried) String() string {
	s := fmt.Sprintf("%s where x%d order x%d", modelNames[k.M], k.Wheres, k.Orders)
	if k.Select {
		s += " select"
	}
	if k.Joins {
		s += " joins"
	}
	if k.Preload {
		s += " preload"
	}
	return s
}

var carriedUses = []string{"order", "order2", "where", "select", "omit", "limit", "clauses", "joins", "preload", "not"}

// per-call session options: the operation runs on db.Session(&gorm.Session{...}) derived for the call
var sessOptNames = []string{"SkipHooks", "QueryFields", "FullSaveAssociations", "NewDB", "Context", "SkipDefaultTransaction", "DryRun", "CreateBatchSize", "Debug"}

func isBlock(k string) bool { return k == "tx" || k == "conn" || k == "mtx" }

func (o Op) String() string {
	var b strings.Builder
	if o.Y {
		b.WriteByte('~')
	}
	b.WriteString(o.K)
	if o.S != 0 {
		var names []string
		for i, n := range sessOptNames {
			if o.S&(1<<i) != 0 {
				names = append(names, n)
			}
		}
		b.WriteString("[" + strings.Join(names, "+") + "]")
	}
	if isBlock(o.K) {
		parts := make([]string, len(o.Sub))
		for i, s := range o.Sub {
			parts[i] = s.String()
		}
		end := "rollback"
		if o.Commit {
			end = "commit"
		}
		fmt.Fprintf(&b, "{%s;%s}", strings.Join(parts, " "), end)
		return b.String()
	}
	fmt.Fprintf(&b, "(%s", modelNames[o.M])
	if o.R != "" {
		b.WriteString("." + o.R)
	}
	fmt.Fprintf(&b, " %d", o.A)
	if o.B != 0 {
		fmt.Fprintf(&b, ",%d", o.B)
	}
	if o.V != 0 {
		fmt.Fprintf(&b, " v%d", o.V)
	}
	b.WriteByte(')')
	return b.String()
}

// Case is one generated case; it is also the replay unit (JSON).
type Case struct {
	G        int      `json:"g"`
	Warm     string   `json:"warm"`               // cold | parse | query | one | targets
	WarmOne  int      `json:"warm_one,omitempty"` // model warmed when Warm == "one"
	Prepare  bool     `json:"prepare"`            // Config.PrepareStmt
	Sess     string   `json:"sess,omitempty"`     // "" | "call" | "goroutine": prepared statements through db.Session(&gorm.Session{PrepareStmt: true}) derived per call / once per goroutine from the shared handle (opened without Config.PrepareStmt)
	SkipTx   bool     `json:"skip_tx"`            // Config.SkipDefaultTransaction
	Procs    int      `json:"procs"`              // GOMAXPROCS during the concurrent run (0 = unchanged)
	MaxOpen  int      `json:"max_open"`           // SetMaxOpenConns of the pool (0 = unbounded)
	Cfg      []string `json:"cfg,omitempty"`      // gorm.Config switches / dialector / logger / plugin (cfgNames)
	Carry    *Carried `json:"carry,omitempty"`    // a second shared handle, derived before the barrier, that already carries clauses (see Carried)
	Root     string   `json:"root,omitempty"`     // the shared handle: "" = the handle gorm.Open returned, or one derived from it before the barrier (rootNames)
	Programs [][]Op   `json:"programs"`
}

func (c *Case) String() string {
	var b strings.Builder
	fmt.Fprintf(&b, "G=%d warm=%s", c.G, c.Warm)
	if c.Warm == "one" {
		b.WriteString(":" + modelNames[c.WarmOne])
	}
	fmt.Fprintf(&b, " prepare=%v", c.Prepare)
	if c.Sess != "" {
		b.WriteString(" session-prepare=per-" + c.Sess)
	}
	fmt.Fprintf(&b, " skiptx=%v procs=%d maxopen=%d", c.SkipTx, c.Procs, c.MaxOpen)
	if len(c.Cfg) > 0 {
		b.WriteString(" cfg=" + strings.Join(c.Cfg, "+"))
	}
	if c.Root != "" {
		b.WriteString(" shared-handle=" + c.Root)
	}
	if c.Carry != nil {
		b.WriteString(" carrying-handle={" + c.Carry.String() + "}")
	}
	for g, p := range c.Programs {
		parts := make([]string, len(p))
		for i, o := range p {
			parts[i] = o.String()
		}
		fmt.Fprintf(&b, "\n  g%d: %s", g, strings.Join(parts, " "))
	}
	return b.String()
}

func (c *Case) JSON() string { b, _ := json.Marshal(c); return string(b) }

// familySafe: the state of the schema cache at the barrier keeps concurrent use of the family
// outside the two listed findings about first use (cold-related-first-use,
// owner-first-use-target-in-use): every type of the family is parsed. Parsing Company, Author or
// Book parses the whole first family (they reach every other member); no single type of the
// second family does (an owner reaches Parcel, Parcel reaches nothing).
//
// Where the boundary of those findings lies (measured on the unchanged tree): the parse of a
// model type X writes into the published schemas of the types X has relations to - the foreign
// key field's DataType/GORMDataType/Size (guessRelation) and, for has-one/has-many, the entry
// "_X_Field" of the target's Relationships.Relations map (parseRelation; under the target's Mux,
// which no reader takes). So the first use of X races with (a) the concurrent first use of a type
// related to X (cold-related-first-use) and (b) creates/updates/association saves whose statement
// rows are of a has-target of X and which iterate that map in Statement.SelectAndOmitColumns
// (owner-first-use-target-in-use), also when the target was parsed and used long before.
// The only readers of that map outside the type's own parse are the Select/Omit(clause.Associations)
// paths: association mode saves (Append/Replace run the nested save with Omit(clause.Associations)).
// Race-free and therefore generated (the "targets" arrangement, see runConcurrent): the target type
// parsed and queried before the barrier, then every goroutine makes its FIRST call on the second
// family - mostly on one of the cold owner types - with any operation except an association mode
// write; concurrent parses of different owners write the target's relation map one after the
// other under the target's Mux.
func (c *Case) familySafe(f int) bool {
	switch c.Warm {
	case "parse", "query":
		return true
	case "one":
		if f >= 3 {
			return c.WarmOne == m2mOwner[f] // the owner's parse parses its target and the join table
		}
		return f == 1 && (c.WarmOne == mCompany || c.WarmOne == mAuthor || c.WarmOne == mBook)
	}
	return false
}

// assocWriteKinds save rows of the relation's target type through association mode; the nested save
// runs with Omit(clause.Associations) and iterates the target's relation map.
var assocWriteKinds = map[string]bool{"aappend": true, "areplace": true, "adelete": true, "aclear": true}

// phaseAKinds: first calls on the second family while its owner types are cold.
// They are calls on an OWNER type that write no row of the target type and do not join it: since
// Parcel has a field without a column, every create/update/delete of Parcel rows and every relation
// join of Parcel looks the field's name up in Parcel's relation map (Statement.SelectAndOmitColumns,
// the loop over the fields without a column) - the listed finding owner-first-use-target-written.
// (repaired by 8eab58d: while that line reads `fixed:` the calls that write or join target rows - tree, joins - are
// back in the first-call phase)
var phaseAKindsNarrow = []string{"create", "batch", "save", "find", "first", "count", "pluck", "preload", "preload", "afind", "acount", "update", "updates", "delete", "delrange"}

func phaseAKinds() []string {
	if harness.OpenClass("C07", classTargetWrite) {
		return phaseAKindsNarrow
	}
	return append([]string{"tree", "tree", "joins"}, phaseAKindsNarrow...)
}

func isPhaseAOp(o Op) bool {
	if isBlock(o.K) || family(o.M) != 2 || o.M == mParcel {
		return false
	}
	for _, k := range phaseAKinds() {
		if o.K == k {
			return true
		}
	}
	return false
}

func touchesFamily(p []Op, f int) bool {
	for _, o := range p {
		if isBlock(o.K) {
			if touchesFamily(o.Sub, f) {
				return true
			}
		} else if family(o.M) == f {
			return true
		}
	}
	return false
}

func (c *Case) familyGoroutines(f int) int {
	n := 0
	for _, p := range c.Programs {
		if touchesFamily(p, f) {
			n++
		}
	}
	return n
}

// inFirstUseClass: the case lies in one of the listed first-use findings' classes. In the
// "targets" arrangement the first operations run in a phase of their own, after which the whole
// second family is parsed: there the second family is judged by the first operations only.
func (c *Case) inFirstUseClass() bool {
	if c.Warm == "targets" {
		for _, p := range c.Programs {
			if touchesFamily(p[:1], 2) && !isPhaseAOp(p[0]) {
				return true
			}
			if touchesFamily(p[:1], 1) {
				return true
			}
		}
		rest := 0
		for _, p := range c.Programs {
			if touchesFamily(p[1:], 1) {
				rest++
			}
		}
		if rest >= 2 {
			return true
		}
		for f := 3; f <= nFamilies; f++ {
			if c.familyGoroutines(f) >= 2 {
				return true
			}
		}
		return false
	}
	for f := 1; f <= nFamilies; f++ {
		if !c.familySafe(f) && c.familyGoroutines(f) >= 2 {
			return true
		}
	}
	return false
}

// ---- generator ----------------------------------------------------------------------------------

var assocRels = map[int][]string{
	mAuthor:  {"Company", "Profile", "Books", "Tags"},
	mBook:    {"Author", "Reviews"},
	mCompany: {"Staff"},
	mDepot:   {"Parcels"},
	mCourier: {"Parcels"},
	mCustoms: {"Parcels"},
	mSorter:  {"Parcel"},
	mBand:    {"Songs"},
	mTeam:    {"Skills"},
	mShop:    {"Brands"},
}

var preloadRels = map[int][]string{
	mAuthor:  {"Company", "Profile", "Books", "Books.Reviews", "Tags", "Company.Staff"},
	mBook:    {"Author", "Reviews", "Author.Profile", "Author.Tags"},
	mCompany: {"Staff", "Staff.Books", "Staff.Profile"},
	mDepot:   {"Parcels"},
	mCourier: {"Parcels"},
	mCustoms: {"Parcels"},
	mSorter:  {"Parcel"},
	mBand:    {"Songs"},
	mTeam:    {"Skills"},
	mShop:    {"Brands"},
}

var joinRels = map[int][]string{
	mAuthor: {"Company", "Profile"},
	mBook:   {"Author", "Author.Company"},
	mSorter: {"Parcel"},
}

var (
	simpleKinds = []string{"create", "create", "batch", "find", "find", "first", "count", "pluck", "update", "updates", "save", "delete", "delrange"}
	relKinds    = []string{"tree", "tree", "preload", "preload", "joins", "aappend", "aappend", "afind", "acount", "areplace", "adelete", "aclear"}
	// operations whose statement cannot be prepared (missing table / column): the error must be the
	// same as alone, also for a goroutine that waits for another goroutine's failing preparation
	badKinds = []string{"badraw", "badtable", "badexec", "badcol"}
	// statements that are prepared like their valid twins (identical text) and fail when executed:
	// the table's CHECK constraint refuses the value
	// calls that fail because of their arguments, made directly on the handle the goroutine was given
	// (at top level: the shared handle itself): the error belongs to the call, never to the handle
	badchainUses = []string{"select-arg", "preload-unknown", "joins-unknown", "association-unknown", "dest-unsupported", "model-unsupported", "updates-no-model", "scope-error"}
	badvalUses   = []string{"update", "updates", "exec", "updcol", "save", "create"}
	loopN        = 25 // "loop": the same single-row UPDATE text this many times
	// column names as arguments (Select, Omit, Updates map keys, Where map keys, Pluck) in varied
	// spellings: database name, field name, lowerCamel, UPPER_SNAKE, Title_Snake
	spellKinds = []string{"spell", "spell", "spell"}
	// further finishers, chain methods, clauses and value forms
	moreKinds = []string{"take", "last", "findbatches", "firstorinit", "firstorcreate", "updcol", "rawscan", "exec", "row", "rows", "createmap", "createbatches", "wherestruct", "tosql", "updret", "delret", "scopes", "mig", "query", "set", "onconflict", "lite", "unscoped"}
	// operations that may run on a per-call Session with options
	sessKinds = map[string]bool{"create": true, "batch": true, "find": true, "first": true, "count": true, "pluck": true, "update": true, "updates": true, "save": true, "delete": true, "tree": true, "preload": true}
	cfgNames  = []string{"queryfields", "batchsize", "fullsave", "translate", "propagate", "logger", "replacer", "noreturning", "plugin"}
	rootNames = []string{"session", "ctx", "newdb", "cond"}
	spellUses = []string{"select-find", "select-updates", "omit-updates", "map-updates", "where-map", "pluck", "omit-create"}
)

// palette: which model families a goroutine may use (the relation-free models always).
type palette struct {
	f1, f2 bool
	m2m    [3]bool  // the many-to-many families 3, 4, 5
	carry  *Carried // non-nil: "carried" operations may be generated (if the goroutine may use the model)
}

func (p palette) related() bool { return p.f1 || p.f2 || p.m2m[0] || p.m2m[1] || p.m2m[2] }

func (p palette) m2mOwners() []int {
	var ms []int
	for i, ok := range p.m2m {
		if ok {
			ms = append(ms, m2mOwner[3+i])
		}
	}
	return ms
}

func (p palette) models() []int {
	ms := append([]int(nil), freeModels...)
	if p.f1 {
		ms = append(ms, family1Models...)
	}
	if p.f2 {
		ms = append(ms, family2Models...)
	}
	for _, o := range p.m2mOwners() {
		ms = append(ms, o, o+1) // owner and its target
	}
	return ms
}

// pick: the owner types a relation operation may use; withM2M adds the many-to-many owners.
func (p palette) pick(f1, f2 []int, withM2M ...bool) []int {
	var ms []int
	if p.f1 {
		ms = append(ms, f1...)
	}
	if p.f2 {
		ms = append(ms, f2...)
	}
	if len(withM2M) > 0 && withM2M[0] {
		ms = append(ms, p.m2mOwners()...)
	}
	return ms
}

func genOp(t *rapid.T, pal palette, depth int) Op {
	kinds := append([]string(nil), simpleKinds...)
	kinds = append(kinds, badKinds...)
	kinds = append(kinds, spellKinds...)
	kinds = append(kinds, moreKinds...)
	kinds = append(kinds, "badval", "badval", "badchain", "badchain", "badchain")
	if pal.f1 || pal.f2 {
		kinds = append(kinds, relKinds...)
		kinds = append(kinds, "delassoc")
	} else if pal.related() { // many-to-many families only: no relation Joins, no delassoc owner
		kinds = append(kinds, "tree", "tree", "preload", "preload", "aappend", "aappend", "afind", "acount", "areplace", "adelete", "aclear")
	}
	if depth < 2 {
		kinds = append(kinds, "tx", "tx", "tx", "mtx")
	}
	if depth == 0 {
		kinds = append(kinds, "conn") // db.Connection on a tx handle would ask the pool for a second connection
		// the carrying handle belongs to the pool, not to a block's connection: top level only
		if k := pal.carry; k != nil && (family(k.M) == 0 || pal.f1) {
			kinds = append(kinds, "carried", "carried", "carried", "carried")
		}
	}
	o := Op{K: rapid.SampledFrom(kinds).Draw(t, "kind")}
	o.Y = rapid.IntRange(0, 3).Draw(t, "yield") == 0
	if sessKinds[o.K] && rapid.IntRange(0, 3).Draw(t, "sessopt") == 0 {
		o.S = 1 << rapid.IntRange(0, len(sessOptNames)-1).Draw(t, "opt1")
		if rapid.Bool().Draw(t, "two") {
			o.S |= 1 << rapid.IntRange(0, len(sessOptNames)-1).Draw(t, "opt2")
		}
	}
	if isBlock(o.K) {
		n := rapid.IntRange(1, 3).Draw(t, "txlen")
		for i := 0; i < n; i++ {
			o.Sub = append(o.Sub, genOp(t, pal, depth+1))
		}
		o.Commit = rapid.IntRange(0, 2).Draw(t, "commit") != 0
		return o
	}
	fillOp(t, &o, pal)
	return o
}

// fillOp draws the arguments of a non-block operation of kind o.K.
func fillOp(t *rapid.T, o *Op, pal palette) {
	o.A = rapid.IntRange(1, nKeys).Draw(t, "a")
	o.V = rapid.IntRange(0, 9).Draw(t, "v")
	switch o.K {
	case "badraw", "badtable", "badexec", "badcol":
		o.M = mGadget
		o.V = rapid.IntRange(0, 2).Draw(t, "text") // three distinct failing texts per kind
	case "spell":
		o.M = rapid.SampledFrom(pal.models()).Draw(t, "model")
		o.B = rapid.IntRange(0, len(spellUses)-1).Draw(t, "use")
		o.V = rapid.IntRange(0, 99).Draw(t, "columnAndSpelling")
	case "badchain":
		o.M = rapid.SampledFrom(pal.models()).Draw(t, "model")
		o.B = rapid.IntRange(0, len(badchainUses)-1).Draw(t, "use")
	case "badval":
		o.M = rapid.SampledFrom(pal.models()).Draw(t, "model")
		o.B = rapid.IntRange(0, len(badvalUses)-1).Draw(t, "use")
		o.A = rapid.IntRange(1, 4).Draw(t, "likelyKey")
	case "loop":
		o.M = rapid.SampledFrom(pal.models()).Draw(t, "model")
		o.A = rapid.IntRange(1, 2).Draw(t, "seededKey")
	case "carried":
		o.M = pal.carry.M
		o.B = rapid.IntRange(0, len(carriedUses)-1).Draw(t, "use")
	case "lite":
		o.M = mGadget
	case "unscoped":
		o.M = mWidget
	case "delassoc":
		o.M = rapid.SampledFrom(pal.pick([]int{mAuthor, mAuthor}, parcelOwners)).Draw(t, "owner")
	case "tree":
		o.M = rapid.SampledFrom(pal.pick([]int{mAuthor, mAuthor}, parcelOwners, true)).Draw(t, "owner")
		o.B = rapid.IntRange(1, nKeys).Draw(t, "b")
		o.V = rapid.IntRange(0, 31).Draw(t, "parts")
	case "preload":
		o.M = rapid.SampledFrom(pal.pick([]int{mAuthor, mAuthor, mBook, mCompany}, parcelOwners, true)).Draw(t, "owner")
		rels := preloadRels[o.M]
		mask := rapid.IntRange(1, 1<<len(rels)-1).Draw(t, "rels")
		var pick []string
		for i, r := range rels {
			if mask&(1<<i) != 0 && len(pick) < 3 {
				pick = append(pick, r)
			}
		}
		o.R = strings.Join(pick, ",")
	case "joins":
		o.M = rapid.SampledFrom(pal.pick([]int{mAuthor, mBook}, []int{mSorter})).Draw(t, "owner")
		o.R = rapid.SampledFrom(joinRels[o.M]).Draw(t, "rel")
	case "aappend", "afind", "acount", "areplace", "adelete", "aclear":
		o.M = rapid.SampledFrom(pal.pick([]int{mAuthor, mAuthor, mAuthor, mBook, mCompany}, parcelOwners, true)).Draw(t, "owner")
		o.R = rapid.SampledFrom(assocRels[o.M]).Draw(t, "rel")
		o.B = rapid.IntRange(1, nKeys).Draw(t, "b")
		o.A = rapid.IntRange(1, 3).Draw(t, "ownerKey") // keys 1 and 2 are seeded: the owner mostly exists
	default:
		o.M = rapid.SampledFrom(pal.models()).Draw(t, "model")
		switch o.K {
		case "first", "take", "row", "update", "updcol", "exec", "delete":
			o.A = rapid.IntRange(1, 4).Draw(t, "likelyKey") // single-row operations mostly hit a row
		}
		if o.K == "create" && o.M == mAuthor {
			o.B = rapid.IntRange(0, nKeys).Draw(t, "company")
		}
	}
}

func genProgram(t *rapid.T, pal palette, n int) []Op {
	p := make([]Op, n)
	for i := range p {
		p[i] = genOp(t, pal, 0)
	}
	return p
}

// genOwnerOp: a first call on one of Parcel's owner types (see phaseAKinds).
func genOwnerOp(t *rapid.T) Op {
	o := Op{K: rapid.SampledFrom(phaseAKinds()).Draw(t, "ownerKind")}
	o.Y = rapid.IntRange(0, 3).Draw(t, "yield") == 0
	fillOp(t, &o, palette{f2: true})
	if family(o.M) != 2 || o.M == mParcel {
		o.M = rapid.SampledFrom(parcelOwners).Draw(t, "ownerType")
		if o.R != "" {
			o.R = parcelRel(o.M)
		}
	}
	return o
}

// firstUseOpen: the first-use findings are listed as open (they are two faces of one defect: a
// parse writes into published schemas).
func firstUseOpen() bool {
	return harness.OpenClass("C07", classColdRelated) || harness.OpenClass("C07", classTargetInUse) || harness.OpenClass("C07", classTargetWrite)
}

func genCase(t *rapid.T) *Case {
	c := &Case{}
	switch rapid.IntRange(0, 3).Draw(t, "gbucket") {
	case 0:
		c.G = rapid.IntRange(2, 4).Draw(t, "G")
	case 1:
		c.G = rapid.IntRange(5, 8).Draw(t, "G")
	case 2:
		c.G = rapid.IntRange(9, 16).Draw(t, "G")
	default:
		c.G = rapid.IntRange(17, 32).Draw(t, "G")
	}
	c.Warm = rapid.SampledFrom([]string{"cold", "cold", "cold", "parse", "parse", "query", "query", "one", "one", "targets", "targets", "targets"}).Draw(t, "warm")
	if w := os.Getenv("VERIF_C07_WARM"); w != "" { // development aid: measure one arrangement
		c.Warm = w
	}
	if c.Warm == "one" {
		c.WarmOne = rapid.IntRange(0, nModels-1).Draw(t, "warmOne")
	}
	switch rapid.SampledFrom([]string{"off", "off", "config", "config", "call", "goroutine"}).Draw(t, "prepare") {
	case "config":
		c.Prepare = true
	case "call":
		c.Sess = "call"
	case "goroutine":
		c.Sess = "goroutine"
	}
	c.SkipTx = rapid.Bool().Draw(t, "skipTx")
	c.Procs = rapid.SampledFrom([]int{0, 0, 1, 2, 4}).Draw(t, "procs")
	c.MaxOpen = rapid.SampledFrom([]int{0, 0, 0, 1, 2, 4}).Draw(t, "maxOpen")
	for _, n := range cfgNames {
		if rapid.IntRange(0, 4).Draw(t, "cfg:"+n) == 0 {
			c.Cfg = append(c.Cfg, n)
		}
	}
	if rapid.IntRange(0, 2).Draw(t, "derivedRoot") == 0 {
		c.Root = rapid.SampledFrom(rootNames).Draw(t, "root")
	}
	if rapid.IntRange(0, 2).Draw(t, "carrying") != 0 {
		k := &Carried{M: rapid.SampledFrom([]int{mGadget, mGadget, mWidget, mAuthor}).Draw(t, "carryModel")}
		if k.M == mAuthor && !c.familySafe(1) {
			k.M = mGadget
		}
		k.Orders = rapid.SampledFrom([]int{0, 1, 2, 3, 3, 4, 5, 5, 6, 7}).Draw(t, "carryOrders")
		k.Wheres = rapid.IntRange(0, 3).Draw(t, "carryWheres")
		k.Select = rapid.IntRange(0, 3).Draw(t, "carrySelect") == 0
		if k.M == mAuthor {
			k.Joins = rapid.Bool().Draw(t, "carryJoins")
			k.Preload = rapid.Bool().Draw(t, "carryPreload")
		}
		c.Carry = k
	}
	if (c.Prepare || c.Sess != "") && c.MaxOpen > 0 && harness.OpenClass("C07", classBoundedPool) {
		// listed finding: PrepareStmt on a bounded pool can deadlock (a transaction that holds the last
		// connection waits for a preparation that waits for a connection); keep the pool unbounded
		evid.Excluded(classBoundedPool)
		c.MaxOpen = 0
	}

	// The listed first-use findings. While they are open the generator keeps cases out of their
	// classes by construction: a family that is not completely parsed at the barrier is used by at
	// most one goroutine (drawn per family); every other goroutine uses the other family, if that
	// one is parsed, and the relation-free models. In the "targets" arrangement the second family
	// is used by everybody: first calls (phase A) on the cold owner types, the rest of the programs
	// (phase B) after all of the family has been parsed.
	open := firstUseOpen()
	only := [nFamilies + 1]int{-2, -2, -2, -2, -2, -2} // -2: everybody may use the family; -1: nobody; g: only goroutine g
	for f := 1; f <= 2; f++ {
		if open && !c.familySafe(f) && !(f == 2 && c.Warm == "targets") {
			only[f] = rapid.IntRange(-1, c.G-1).Draw(t, fmt.Sprintf("family%dGoroutine", f))
		}
	}
	// the many-to-many families, while cold: one goroutine each - different goroutines where G allows,
	// and their first calls are on their family (create with targets, then preload), so that the
	// unrelated many-to-many parses run at the same instant
	m2mFirst := map[int][]Op{}
	if base := rapid.IntRange(0, c.G-1).Draw(t, "m2mBase"); true {
		for f := 3; f <= nFamilies; f++ {
			if !open || c.familySafe(f) {
				continue
			}
			only[f] = (base + f) % c.G
			if c.Warm == "targets" || rapid.IntRange(0, 3).Draw(t, "m2mFirst") == 0 {
				continue // used (if at all) somewhere later in the goroutine's program
			}
			owner := m2mOwner[f]
			tree := Op{K: "tree", M: owner, A: rapid.IntRange(3, nKeys).Draw(t, "a"), B: rapid.IntRange(3, nKeys).Draw(t, "b"), V: rapid.IntRange(0, 31).Draw(t, "parts")}
			m2mFirst[only[f]] = append(m2mFirst[only[f]], tree, Op{K: "preload", M: owner, R: m2mRel(owner)})
		}
	}
	for f := 1; f <= nFamilies; f++ {
		if only[f] != -2 {
			evid.Excluded(classColdRelated)
			break
		}
	}
	if open && c.Warm == "targets" {
		evid.Excluded(classTargetInUse)
		if harness.OpenClass("C07", classTargetWrite) {
			evid.Excluded(classTargetWrite)
		}
	}
	// a storm: every goroutine starts with the same statement text (a failing or a good one)
	var storm *Op
	if c.Warm != "targets" && rapid.IntRange(0, 2).Draw(t, "storm") == 0 {
		// three kinds of storm: a text that cannot be prepared; a read of the same model (overlapping
		// scans: value pools, serializers, hooks); the same UPDATE text (shared patch map, refused values)
		var kinds []string
		switch rapid.IntRange(0, 2).Draw(t, "stormClass") {
		case 0:
			kinds = []string{"badraw", "badtable", "badexec", "badcol"}
		case 1:
			kinds = []string{"find", "find", "first", "take", "last", "rows", "count"}
		default:
			kinds = []string{"update", "updates", "updates", "loop", "loop"}
		}
		o := Op{K: rapid.SampledFrom(kinds).Draw(t, "stormKind")}
		fillOp(t, &o, palette{})
		if o.K == "updates" {
			// every goroutine hands the SAME patch map to Updates, on a model with a tracked update time
			o.M, o.V = rapid.SampledFrom([]int{mGadget, mWidget}).Draw(t, "tracked"), 2*rapid.IntRange(0, 4).Draw(t, "patch")
		}
		storm = &o
	}
	c.Programs = make([][]Op, c.G)
	for g := range c.Programs {
		pal := palette{f1: only[1] == -2 || only[1] == g, f2: only[2] == -2 || only[2] == g, carry: c.Carry}
		for i := range pal.m2m {
			pal.m2m[i] = only[3+i] == -2 || only[3+i] == g
		}
		n := rapid.IntRange(1, maxOps).Draw(t, "len")
		var first []Op
		switch {
		case storm != nil:
			o := *storm
			if o.K == "loop" || o.K == "update" {
				// the same UPDATE text from every goroutine, on a row of its own; every fourth or so with the
				// value the CHECK constraint refuses (fails when executed, not when prepared)
				if rapid.IntRange(0, 3).Draw(t, "refused") == 0 {
					if o.K == "loop" {
						o.B = 1
					} else {
						o = Op{K: "badval", M: o.M, A: o.A, B: 0}
					}
				}
			}
			first = []Op{o}
		case c.Warm == "targets" && rapid.IntRange(0, 5).Draw(t, "ownerFirst") != 0:
			// target warm, owners cold: the goroutine's first call is on an owner type
			first = []Op{genOwnerOp(t)}
		case c.Warm == "targets" && open:
			// or on a relation-free model
			o := Op{K: rapid.SampledFrom(append(append([]string(nil), simpleKinds...), badKinds...)).Draw(t, "freeKind")}
			fillOp(t, &o, palette{})
			first = []Op{o}
		case c.Warm == "targets":
			first = genProgram(t, palette{f1: true, f2: true, m2m: [3]bool{true, true, true}}, 1)
		}
		first = append(first, m2mFirst[g]...)
		if n < len(first) {
			n = len(first)
		}
		c.Programs[g] = append(first, genProgram(t, pal, n-len(first))...)
	}
	return c
}

// ---- executing one operation ----------------------------------------------------------------------

var errRollback = errors.New("c07: roll back")

// carrying is the clause-carrying shared handle of the case that runs (set before its goroutines start).
var carrying struct {
	h       *gorm.DB
	prepare bool // the case enables prepared statements per derived Session
}

// sharedArgs: argument values that several goroutines hand to their calls - the same map / struct
// object, as a caller does who keeps one patch or one filter for a batch of requests. gorm only
// reads them (maps for Updates / UpdateColumns / Where, a struct condition). Rebuilt for every run.
var sharedArgs struct {
	patch  [nModels][3]map[string]interface{}
	cond   [nModels]map[string]interface{}
	filter *GadgetFilter
}

func resetSharedArgs() {
	for m := 0; m < nModels; m++ {
		for v := 0; v < 3; v++ {
			sharedArgs.patch[m][v] = changes(m, v)
		}
		col := firstColumn(m)
		sharedArgs.cond[m] = map[string]interface{}{col: changes(m, 1)[col]}
	}
	sharedArgs.filter = &GadgetFilter{Name: "g1", Qty: 1}
}

// progress counts finished operations (of the one case that runs at a time); the deadlock watchdog reads it.
var progress int64

func keyOf(g, off int) uint { return uint((g+1)*rangeSize + off) }

func pkey(g, off int) *uint { k := keyOf(g, off); return &k }

// build returns a pointer to a model value with key (g, a) and fields derived from v.
func build(m, g, a, b, v int) interface{} {
	id := keyOf(g, a)
	switch m {
	case mCompany:
		return &Company{ID: id, Name: fmt.Sprintf("co%d", v)}
	case mAuthor:
		x := &Author{ID: id, Name: fmt.Sprintf("au%d", v), Age: 20 + v}
		if b != 0 {
			x.CompanyID = pkey(g, b)
		}
		return x
	case mProfile:
		return &Profile{ID: id, Bio: fmt.Sprintf("bio%d", v), AuthorID: pkey(g, 1+v%nKeys)}
	case mBook:
		return &Book{ID: id, Title: fmt.Sprintf("t%d", v), Pages: 100 + v, AuthorID: pkey(g, 1+v%nKeys)}
	case mReview:
		return &Review{ID: id, Stars: v % 6, BookID: pkey(g, 1+v%nKeys)}
	case mTag:
		return &Tag{ID: id, Label: fmt.Sprintf("l%d", v)}
	case mGadget:
		return &Gadget{ID: id, Name: fmt.Sprintf("g%d", v), Qty: v, Labels: []string{"x", fmt.Sprint(v)}[:1+v%2], Level: Level(v % 4), Spec: Spec{Color: []string{"", "red", "blue"}[v%3], Size: v}}
	case mWidget:
		return &Widget{ID: id, Code: fmt.Sprintf("w%d", v), Weight: float64(v) / 2, Secret: Cipher(fmt.Sprintf("s%d-%d", id, v))}
	case mParcel:
		x := &Parcel{ID: id, Label: fmt.Sprintf("p%d", v), Weight: v, DepotID: pkey(g, 1+v%nKeys), CourierID: pkey(g, 1+(v+1)%nKeys)}
		if v%2 == 0 {
			x.CustomsID = pkey(g, 1+(v+2)%nKeys)
		}
		if v%3 == 0 {
			x.SorterID = pkey(g, 1+(v+3)%nKeys)
		}
		return x
	case mDepot:
		return &Depot{ID: id, Name: fmt.Sprintf("de%d", v)}
	case mCourier:
		return &Courier{ID: id, Name: fmt.Sprintf("cr%d", v)}
	case mCustoms:
		return &Customs{ID: id, Name: fmt.Sprintf("cu%d", v)}
	case mSorter:
		return &Sorter{ID: id, Name: fmt.Sprintf("so%d", v)}
	case mBand:
		return &Band{ID: id, Name: fmt.Sprintf("ba%d", v)}
	case mSong:
		return &Song{ID: id, Title: fmt.Sprintf("sg%d", v)}
	case mTeam:
		return &Team{ID: id, Name: fmt.Sprintf("te%d", v)}
	case mSkill:
		return &Skill{ID: id, Label: fmt.Sprintf("sk%d", v)}
	case mShop:
		return &Shop{ID: id, Name: fmt.Sprintf("sh%d", v)}
	case mBrand:
		return &Brand{ID: id, Label: fmt.Sprintf("br%d", v)}
	}
	panic("harness: build")
}

func buildSlice(m, g int, keys []int, v int) interface{} {
	s := reflect.MakeSlice(reflect.SliceOf(reflect.TypeOf(newModel(m)).Elem()), 0, len(keys))
	for i, k := range keys {
		s = reflect.Append(s, reflect.ValueOf(build(m, g, k, 0, v+i)).Elem())
	}
	p := reflect.New(s.Type())
	p.Elem().Set(s)
	return p.Interface()
}

// pointerSlice turns *[]T into *[]*T (same elements).
func pointerSlice(v interface{}) interface{} {
	src := reflect.ValueOf(v).Elem()
	dst := reflect.MakeSlice(reflect.SliceOf(reflect.PointerTo(src.Type().Elem())), 0, src.Len())
	for i := 0; i < src.Len(); i++ {
		dst = reflect.Append(dst, src.Index(i).Addr())
	}
	p := reflect.New(dst.Type())
	p.Elem().Set(dst)
	return p.Interface()
}

// changes: the columns an update writes, as column/value pairs (two columns where the model has two).
func changes(m, v int) map[string]interface{} {
	switch m {
	case mCompany:
		return map[string]interface{}{"name": fmt.Sprintf("CO%d", v)}
	case mAuthor:
		return map[string]interface{}{"name": fmt.Sprintf("AU%d", v), "age": 40 + v}
	case mProfile:
		return map[string]interface{}{"bio": fmt.Sprintf("BIO%d", v)}
	case mBook:
		return map[string]interface{}{"title": fmt.Sprintf("T%d", v), "pages": 500 + v}
	case mReview:
		return map[string]interface{}{"stars": (v + 3) % 6}
	case mTag:
		return map[string]interface{}{"label": fmt.Sprintf("L%d", v)}
	case mGadget:
		return map[string]interface{}{"name": fmt.Sprintf("G%d", v), "qty": 50 + v}
	case mWidget:
		return map[string]interface{}{"code": fmt.Sprintf("W%d", v), "weight": float64(v) + 0.25}
	case mParcel:
		return map[string]interface{}{"label": fmt.Sprintf("P%d", v), "weight": 70 + v}
	case mDepot, mCourier, mCustoms, mSorter, mBand, mTeam, mShop:
		return map[string]interface{}{"name": fmt.Sprintf("%s%d", strings.ToUpper(modelNames[m][:2]), v)}
	case mSong:
		return map[string]interface{}{"title": fmt.Sprintf("SG%d", v)}
	case mSkill, mBrand:
		return map[string]interface{}{"label": fmt.Sprintf("%s%d", strings.ToUpper(modelNames[m][:2]), v)}
	}
	panic("harness: changes")
}

// modelColumns: field name and column name of the non-key columns a "spell" operation may name.
var modelColumns = [nModels][][2]string{
	mCompany: {{"Name", "name"}},
	mAuthor:  {{"Name", "name"}, {"Age", "age"}, {"CompanyID", "company_id"}},
	mProfile: {{"Bio", "bio"}, {"AuthorID", "author_id"}},
	mBook:    {{"Title", "title"}, {"Pages", "pages"}, {"AuthorID", "author_id"}},
	mReview:  {{"Stars", "stars"}, {"BookID", "book_id"}},
	mTag:     {{"Label", "label"}},
	mGadget:  {{"Name", "name"}, {"Qty", "qty"}},
	mWidget:  {{"Code", "code"}, {"Weight", "weight"}, {"DeletedAt", "deleted_at"}},
	mParcel:  {{"Label", "label"}, {"Weight", "weight"}, {"DepotID", "depot_id"}, {"CourierID", "courier_id"}, {"SorterID", "sorter_id"}},
	mDepot:   {{"Name", "name"}},
	mCourier: {{"Name", "name"}},
	mCustoms: {{"Name", "name"}},
	mSorter:  {{"Name", "name"}},
	mBand:    {{"Name", "name"}},
	mSong:    {{"Title", "title"}},
	mTeam:    {{"Name", "name"}},
	mSkill:   {{"Label", "label"}},
	mShop:    {{"Name", "name"}},
	mBrand:   {{"Label", "label"}},
}

// spelling: database name, field name, lowerCamel, UPPER_SNAKE, Title_Snake.
func spelling(col [2]string, k int) string {
	switch k % 5 {
	case 0:
		return col[1]
	case 1:
		return col[0]
	case 2:
		return strings.ToLower(col[0][:1]) + col[0][1:]
	case 3:
		return strings.ToUpper(col[1])
	}
	parts := strings.Split(col[1], "_")
	for i, p := range parts {
		parts[i] = strings.ToUpper(p[:1]) + p[1:]
	}
	return strings.Join(parts, "_")
}

func columnValue(m int, column string, g, v int) interface{} {
	if x, ok := changes(m, v%10)[column]; ok {
		return x
	}
	if strings.HasSuffix(column, "_id") {
		return keyOf(g, 1+v%nKeys)
	}
	return nil // deleted_at
}

func firstColumn(m int) string {
	return [nModels]string{"name", "name", "bio", "title", "stars", "label", "name", "code", "label", "name", "name", "name", "name", "name", "title", "name", "label", "name", "label"}[m]
}

func errText(err error) string {
	if err == nil {
		return "ok"
	}
	return "err=" + err.Error()
}

func inRange(db *gorm.DB, m, g int) *gorm.DB {
	return db.Where(modelTables[m]+".id BETWEEN ? AND ?", keyOf(g, 0), keyOf(g, rangeSize-1))
}

// targets builds the values handed to an association call: a pointer for to-one relations, a
// slice for to-many ones.
func targets(owner int, rel string, g, b, v int) interface{} {
	switch owner {
	case mAuthor:
		switch rel {
		case "Company":
			return build(mCompany, g, b, 0, v)
		case "Profile":
			return &Profile{ID: keyOf(g, b), Bio: fmt.Sprintf("bio%d", v)}
		case "Books":
			return &[]Book{{ID: keyOf(g, b), Title: fmt.Sprintf("t%d", v)}, {ID: keyOf(g, 1+b%nKeys), Title: "second"}}
		case "Tags":
			return &[]Tag{{ID: keyOf(g, b), Label: fmt.Sprintf("l%d", v)}, {ID: keyOf(g, 1+(b+1)%nKeys), Label: "second"}}
		}
	case mBook:
		switch rel {
		case "Author":
			return &Author{ID: keyOf(g, b), Name: fmt.Sprintf("au%d", v)}
		case "Reviews":
			return &[]Review{{ID: keyOf(g, b), Stars: v % 6}}
		}
	case mCompany:
		return &[]Author{{ID: keyOf(g, b), Name: fmt.Sprintf("au%d", v)}}
	case mDepot, mCourier, mCustoms:
		return &[]Parcel{{ID: keyOf(g, b), Label: fmt.Sprintf("p%d", v)}, {ID: keyOf(g, 1+b%nKeys), Label: "second"}}
	case mSorter:
		return &Parcel{ID: keyOf(g, b), Label: fmt.Sprintf("p%d", v)}
	case mBand:
		return &[]Song{{ID: keyOf(g, b), Title: fmt.Sprintf("sg%d", v)}, {ID: keyOf(g, 1+b%nKeys), Title: "second"}}
	case mTeam:
		return &[]Skill{{ID: keyOf(g, b), Label: fmt.Sprintf("sk%d", v)}, {ID: keyOf(g, 1+b%nKeys), Label: "second"}}
	case mShop:
		return &[]Brand{{ID: keyOf(g, b), Label: fmt.Sprintf("br%d", v)}, {ID: keyOf(g, 1+b%nKeys), Label: "second"}}
	}
	panic("harness: targets")
}

func targetModel(owner int, rel string) int {
	switch rel {
	case "Company":
		return mCompany
	case "Profile":
		return mProfile
	case "Books":
		return mBook
	case "Tags":
		return mTag
	case "Author", "Staff":
		return mAuthor
	case "Reviews":
		return mReview
	case "Parcels", "Parcel":
		return mParcel
	case "Songs":
		return mSong
	case "Skills":
		return mSkill
	case "Brands":
		return mBrand
	}
	panic("harness: targetModel")
}

// exec runs one operation of goroutine g through db (the shared handle or a block's tx handle)
// and renders everything the caller can observe.
func exec(db *gorm.DB, g int, o Op) string {
	defer atomic.AddInt64(&progress, 1)
	if o.Y {
		runtime.Gosched()
	}
	if o.S != 0 {
		db = applySessionOptions(db, o.S)
	}
	switch o.K {
	case "create", "save":
		v := build(o.M, g, o.A, o.B, o.V)
		var r *gorm.DB
		if o.K == "create" {
			r = db.Create(v)
		} else {
			r = db.Save(v)
		}
		return fmt.Sprintf("%s ra=%d %s", errText(r.Error), r.RowsAffected, render(v))
	case "batch":
		keys := make([]int, 2+o.V%5) // 2..6 rows (up to 6x9 bind variables in one statement), keys 3..8
		for i := range keys {
			keys[i] = 3 + (o.A-1+i)%(nKeys-2)
		}
		v := buildSlice(o.M, g, keys, o.V)
		if o.V%2 == 1 {
			v = pointerSlice(v) // *[]*T instead of *[]T
		}
		r := db.Create(v)
		return fmt.Sprintf("%s ra=%d %s", errText(r.Error), r.RowsAffected, render(v))
	case "spell":
		col := modelColumns[o.M][o.V%len(modelColumns[o.M])]
		name := spelling(col, o.V/len(modelColumns[o.M]))
		val := columnValue(o.M, col[1], g, o.V)
		post := fmt.Sprintf(" via %s(%s)", spellUses[o.B], name)
		switch spellUses[o.B] {
		case "select-find":
			out := newSlice(o.M)
			r := inRange(db.Select("id", name), o.M, g).Order(modelTables[o.M] + ".id").Find(out)
			return fmt.Sprintf("%s ra=%d %s", errText(r.Error), r.RowsAffected, render(out)) + post
		case "select-updates":
			r := db.Model(build(o.M, g, o.A, 0, 0)).Select(name).Updates(changes(o.M, o.V%10))
			return fmt.Sprintf("%s ra=%d", errText(r.Error), r.RowsAffected) + post
		case "omit-updates":
			r := db.Model(build(o.M, g, o.A, 0, 0)).Omit(name).Updates(changes(o.M, o.V%10))
			return fmt.Sprintf("%s ra=%d", errText(r.Error), r.RowsAffected) + post
		case "map-updates":
			r := db.Model(build(o.M, g, o.A, 0, 0)).Updates(map[string]interface{}{name: val})
			return fmt.Sprintf("%s ra=%d", errText(r.Error), r.RowsAffected) + post
		case "where-map":
			out := newSlice(o.M)
			r := inRange(db, o.M, g).Where(map[string]interface{}{name: val}).Order(modelTables[o.M] + ".id").Find(out)
			return fmt.Sprintf("%s ra=%d %s", errText(r.Error), r.RowsAffected, render(out)) + post
		case "pluck":
			var vals []string
			r := inRange(db.Model(newModel(o.M)), o.M, g).Order(modelTables[o.M]+".id").Pluck(name, &vals)
			return fmt.Sprintf("%s %q", errText(r.Error), vals) + post
		case "omit-create":
			v := build(o.M, g, o.A, 0, o.V%10)
			r := db.Omit(name).Create(v)
			return fmt.Sprintf("%s ra=%d %s", errText(r.Error), r.RowsAffected, render(v)) + post
		}
		panic("harness: spell use")
	case "badraw":
		var n []int64
		r := db.Raw(fmt.Sprintf("SELECT id FROM c07_missing_%d WHERE id = ?", o.V), keyOf(g, o.A)).Scan(&n)
		return fmt.Sprintf("%s ra=%d %v", errText(r.Error), r.RowsAffected, n)
	case "badtable":
		var out []Gadget
		r := db.Table(fmt.Sprintf("c07_absent_%d", o.V)).Where("id = ?", keyOf(g, o.A)).Find(&out)
		return fmt.Sprintf("%s ra=%d %s", errText(r.Error), r.RowsAffected, render(&out))
	case "badexec":
		r := db.Exec(fmt.Sprintf("UPDATE c07_gone_%d SET qty = ? WHERE id = ?", o.V), o.A, keyOf(g, o.A))
		return fmt.Sprintf("%s ra=%d", errText(r.Error), r.RowsAffected)
	case "badcol":
		var n int64
		r := db.Model(&Gadget{}).Where(fmt.Sprintf("no_such_column_%d = ?", o.V), keyOf(g, o.A)).Count(&n)
		return fmt.Sprintf("%s n=%d", errText(r.Error), n)
	case "tree":
		if isM2MOwner(o.M) {
			var v interface{}
			two := o.V&1 == 0
			switch o.M {
			case mBand:
				x := &Band{ID: keyOf(g, o.A), Name: "tree", Songs: []Song{{ID: keyOf(g, o.A), Title: "ts1"}, {ID: keyOf(g, o.B), Title: "ts2"}}}
				if !two {
					x.Songs = x.Songs[:1]
				}
				v = x
			case mTeam:
				x := &Team{ID: keyOf(g, o.A), Name: "tree", Skills: []Skill{{ID: keyOf(g, o.A), Label: "tk1"}, {ID: keyOf(g, o.B), Label: "tk2"}}}
				if !two {
					x.Skills = x.Skills[:1]
				}
				v = x
			default:
				x := &Shop{ID: keyOf(g, o.A), Name: "tree", Brands: []Brand{{ID: keyOf(g, o.A), Label: "tb1"}, {ID: keyOf(g, o.B), Label: "tb2"}}}
				if !two {
					x.Brands = x.Brands[:1]
				}
				v = x
			}
			r := db.Create(v)
			return fmt.Sprintf("%s ra=%d %s", errText(r.Error), r.RowsAffected, render(v))
		}
		if family(o.M) == 2 {
			var v interface{}
			ps := []Parcel{{ID: keyOf(g, o.A), Label: "tp1", Weight: o.V}, {ID: keyOf(g, o.B), Label: "tp2"}}
			if o.V&1 != 0 {
				ps = ps[:1]
			}
			switch o.M {
			case mDepot:
				v = &Depot{ID: keyOf(g, o.A), Name: "tree", Parcels: ps}
			case mCourier:
				v = &Courier{ID: keyOf(g, o.A), Name: "tree", Parcels: ps}
			case mCustoms:
				v = &Customs{ID: keyOf(g, o.A), Name: "tree", Parcels: ps}
			default:
				v = &Sorter{ID: keyOf(g, o.A), Name: "tree", Parcel: &ps[0]}
			}
			r := db.Create(v)
			return fmt.Sprintf("%s ra=%d %s", errText(r.Error), r.RowsAffected, render(v))
		}
		a := &Author{ID: keyOf(g, o.A), Name: "tree", Age: o.V}
		if o.V&1 != 0 {
			a.Company = &Company{ID: keyOf(g, o.B), Name: "treeco"}
		}
		if o.V&2 != 0 {
			a.Profile = &Profile{ID: keyOf(g, o.A), Bio: "treebio"}
		}
		if o.V&4 != 0 {
			a.Books = []Book{{ID: keyOf(g, o.A), Title: "tb1"}, {ID: keyOf(g, o.B), Title: "tb2"}}
			if o.V&16 != 0 {
				a.Books[0].Reviews = []Review{{ID: keyOf(g, o.A), Stars: 5}, {ID: keyOf(g, o.B), Stars: 1}}
			}
		}
		if o.V&8 != 0 {
			a.Tags = []Tag{{ID: keyOf(g, o.A), Label: "tt1"}, {ID: keyOf(g, o.B), Label: "tt2"}}
		}
		r := db.Create(a)
		return fmt.Sprintf("%s ra=%d %s", errText(r.Error), r.RowsAffected, render(a))
	case "find":
		out := newSlice(o.M)
		var r *gorm.DB
		if o.V%3 == 2 { // inline conditions
			r = db.Order(modelTables[o.M]+".id").Find(out, modelTables[o.M]+".id BETWEEN ? AND ?", keyOf(g, 0), keyOf(g, rangeSize-1))
		} else if o.V%3 == 1 { // a condition map all goroutines share
			r = inRange(db, o.M, g).Where(sharedArgs.cond[o.M]).Order(modelTables[o.M] + ".id").Find(out)
		} else {
			r = inRange(db, o.M, g).Order(modelTables[o.M] + ".id").Find(out)
		}
		return fmt.Sprintf("%s ra=%d %s", errText(r.Error), r.RowsAffected, render(out))
	case "first":
		out := newModel(o.M)
		r := db.First(out, keyOf(g, o.A))
		return fmt.Sprintf("%s ra=%d %s", errText(r.Error), r.RowsAffected, render(out))
	case "count":
		var n int64
		r := inRange(db.Model(newModel(o.M)), o.M, g).Count(&n)
		return fmt.Sprintf("%s n=%d", errText(r.Error), n)
	case "pluck":
		var vals []string
		r := inRange(db.Model(newModel(o.M)), o.M, g).Order(modelTables[o.M]+".id").Pluck(firstColumn(o.M), &vals)
		return fmt.Sprintf("%s %q", errText(r.Error), vals)
	case "preload":
		out := newSlice(o.M)
		q := inRange(db, o.M, g).Order(modelTables[o.M] + ".id")
		for _, rel := range strings.Split(o.R, ",") {
			q = q.Preload(rel)
		}
		r := q.Find(out)
		return fmt.Sprintf("%s ra=%d %s", errText(r.Error), r.RowsAffected, render(out))
	case "joins":
		out := newSlice(o.M)
		r := inRange(db.Joins(o.R), o.M, g).Order(modelTables[o.M] + ".id").Find(out)
		return fmt.Sprintf("%s ra=%d %s", errText(r.Error), r.RowsAffected, render(out))
	case "update":
		v := build(o.M, g, o.A, 0, 0)
		ch := changes(o.M, o.V)
		col := firstColumn(o.M)
		r := db.Model(v).Update(col, ch[col])
		return fmt.Sprintf("%s ra=%d", errText(r.Error), r.RowsAffected)
	case "updates":
		var with interface{} = sharedArgs.patch[o.M][o.V%3] // a patch map all goroutines share
		if o.V%2 == 1 {                                     // a struct: its non-zero fields
			v := build(o.M, g, o.A, 0, o.V)
			reflect.ValueOf(v).Elem().FieldByName("ID").SetUint(0)
			with = v
		}
		r := inRange(db.Model(newModel(o.M)), o.M, g).Where(modelTables[o.M]+".id >= ?", keyOf(g, o.A)).Updates(with)
		return fmt.Sprintf("%s ra=%d", errText(r.Error), r.RowsAffected)
	case "delete":
		r := db.Delete(newModel(o.M), keyOf(g, o.A))
		return fmt.Sprintf("%s ra=%d", errText(r.Error), r.RowsAffected)
	case "delrange":
		r := inRange(db, o.M, g).Where(modelTables[o.M]+".id >= ?", keyOf(g, o.A)).Delete(newModel(o.M))
		return fmt.Sprintf("%s ra=%d", errText(r.Error), r.RowsAffected)
	case "badchain":
		out := newSlice(o.M)
		col := firstColumn(o.M)
		var r *gorm.DB
		switch badchainUses[o.B] {
		case "select-arg":
			r = inRange(db.Select(42), o.M, g).Find(out)
		case "preload-unknown":
			r = inRange(db, o.M, g).Preload("Nope").Find(out)
		case "joins-unknown":
			r = inRange(db, o.M, g).Joins("Nope").Find(out)
		case "association-unknown":
			err := db.Model(build(o.M, g, o.A, 0, 0)).Association("Nope").Find(out)
			return fmt.Sprintf("%s via badchain+%s", errText(err), badchainUses[o.B])
		case "dest-unsupported":
			var n int
			r = db.First(&n)
		case "model-unsupported":
			r = db.Model(42).Where("id = ?", keyOf(g, o.A)).Update(col, changes(o.M, o.V)[col])
		case "updates-no-model":
			r = db.Where("id = ?", keyOf(g, o.A)).Updates(changes(o.M, o.V))
		default: // scope-error
			r = db.Scopes(func(tx *gorm.DB) *gorm.DB { _ = tx.AddError(errors.New("c07: scope refuses")); return tx }).Find(out)
		}
		return fmt.Sprintf("%s ra=%d %s via badchain+%s", hexAddr.ReplaceAllString(errText(r.Error), "0x?"), r.RowsAffected, render(out), badchainUses[o.B])
	case "badval":
		col := firstColumn(o.M)
		bad := forbidden(o.M)
		var r *gorm.DB
		switch badvalUses[o.B] {
		case "update":
			r = db.Model(build(o.M, g, o.A, 0, 0)).Update(col, bad)
		case "updates":
			r = inRange(db.Model(newModel(o.M)), o.M, g).Where(modelTables[o.M]+".id >= ?", keyOf(g, o.A)).Updates(map[string]interface{}{col: bad})
		case "exec":
			r = db.Exec(fmt.Sprintf("UPDATE %s SET %s = ? WHERE id = ?", modelTables[o.M], col), bad, keyOf(g, o.A))
		case "updcol":
			r = db.Model(build(o.M, g, o.A, 0, 0)).UpdateColumn(col, bad)
		default: // save / create a value whose first column is refused
			v := build(o.M, g, o.A, 0, o.V)
			f := reflect.ValueOf(v).Elem().FieldByName(modelColumns[o.M][0][0])
			if f.Kind() == reflect.String {
				f.SetString("FORBIDDEN")
			} else {
				f.SetInt(-77)
			}
			if badvalUses[o.B] == "save" {
				r = db.Save(v)
			} else {
				r = db.Create(v)
			}
		}
		return fmt.Sprintf("%s ra=%d via badval+%s", errText(r.Error), r.RowsAffected, badvalUses[o.B])
	case "loop":
		// the same single-row UPDATE text loopN times on a seeded row of the goroutine's own
		col := firstColumn(o.M)
		oks, errs, first := 0, 0, ""
		for i := 0; i < loopN; i++ {
			var val interface{} = changes(o.M, i%10)[col]
			if o.B == 1 {
				val = forbidden(o.M)
			}
			r := db.Model(build(o.M, g, o.A, 0, 0)).Update(col, val)
			if r.Error != nil {
				errs++
				if first == "" {
					first = fmt.Sprintf(" first error at #%d: %v", i, r.Error)
				}
			} else {
				oks += int(r.RowsAffected)
			}
		}
		return fmt.Sprintf("ok loop updated=%d failed=%d%s", oks, errs, first)
	case "carried":
		h := carrying.h
		if carrying.prepare {
			h = h.Session(&gorm.Session{PrepareStmt: true})
		}
		tb := modelTables[o.M]
		col := tb + "." + firstColumn(o.M)
		idOrder := tb + ".id"
		if o.V%2 == 1 {
			idOrder += " desc"
		}
		q := inRange(h, o.M, g)
		use := carriedUses[o.B]
		if (use == "joins" || use == "preload") && o.M != mAuthor {
			use = "order"
		}
		switch use {
		case "order":
			q = q.Order(idOrder)
		case "order2":
			q = q.Order(col + " desc").Order(idOrder)
		case "where":
			q = q.Where(col+" <> ?", changes(o.M, o.V)[firstColumn(o.M)]).Where(tb+".id <> ?", keyOf(g, o.A)).Order(idOrder)
		case "select":
			q = q.Select(tb+".id", col).Order(idOrder)
		case "omit":
			q = q.Omit(firstColumn(o.M)).Order(idOrder)
		case "limit":
			q = q.Order(idOrder).Limit(2 + o.V%3).Offset(o.V % 2)
		case "clauses":
			q = q.Clauses(clause.OrderBy{Columns: []clause.OrderByColumn{{Column: clause.Column{Table: tb, Name: "id"}, Desc: o.V%2 == 1}}})
		case "joins":
			q = q.Joins("Profile").Order(idOrder)
		case "preload":
			q = q.Preload("Tags").Order(idOrder)
		case "not":
			q = q.Not(tb+".id = ?", keyOf(g, o.A)).Or(tb+".id = ?", keyOf(g, 1+o.A%nKeys)).Order(idOrder)
		}
		out := newSlice(o.M)
		r := q.Find(out)
		return fmt.Sprintf("%s ra=%d %s via carried+%s", errText(r.Error), r.RowsAffected, render(out), use)
	case "conn":
		var inner []string
		err := db.Connection(func(tx *gorm.DB) error {
			// the callback's handle keeps one Statement for all calls made on it (it is not a
			// fresh-statement handle like the one of Transaction): derive one that is
			h := tx.Session(&gorm.Session{NewDB: true})
			for _, s := range o.Sub {
				inner = append(inner, exec(h, g, s))
			}
			return nil
		})
		return fmt.Sprintf("conn %s {%s}", errText(err), strings.Join(inner, " ; "))
	case "mtx":
		// the manual form: Begin, SavePoint after the first operation, RollbackTo before the end
		// (when rolling back), Commit
		tx := db.Begin()
		if tx.Error != nil {
			return "mtx begin " + errText(tx.Error)
		}
		var inner []string
		for i, s := range o.Sub {
			inner = append(inner, exec(tx, g, s))
			if i == 0 {
				inner = append(inner, "savepoint "+errText(tx.SavePoint("c07sp").Error))
			}
		}
		if !o.Commit {
			inner = append(inner, "rollbackto "+errText(tx.RollbackTo("c07sp").Error))
		}
		return fmt.Sprintf("mtx {%s} commit %s", strings.Join(inner, " ; "), errText(tx.Commit().Error))
	case "take":
		out := newModel(o.M)
		r := db.Take(out, keyOf(g, o.A))
		return fmt.Sprintf("%s ra=%d %s", errText(r.Error), r.RowsAffected, render(out))
	case "last":
		out := newModel(o.M)
		r := inRange(db, o.M, g).Last(out)
		return fmt.Sprintf("%s ra=%d %s", errText(r.Error), r.RowsAffected, render(out))
	case "findbatches":
		out := newSlice(o.M)
		var batches []string
		r := inRange(db, o.M, g).FindInBatches(out, 2, func(tx *gorm.DB, batch int) error {
			batches = append(batches, fmt.Sprintf("#%d ra=%d %s", batch, tx.RowsAffected, render(out)))
			return nil
		})
		return fmt.Sprintf("%s ra=%d %s", errText(r.Error), r.RowsAffected, strings.Join(batches, " "))
	case "firstorinit":
		out := newModel(o.M)
		r := db.Where(map[string]interface{}{"id": keyOf(g, o.A)}).Attrs(build(o.M, g, o.A, 0, o.V)).FirstOrInit(out)
		return fmt.Sprintf("%s ra=%d %s", errText(r.Error), r.RowsAffected, render(out))
	case "firstorcreate":
		out := newModel(o.M)
		q := db.Where(map[string]interface{}{"id": keyOf(g, o.A)}).Attrs(build(o.M, g, o.A, 0, o.V))
		if o.V%2 == 1 {
			q = q.Assign(changes(o.M, o.V))
		}
		r := q.FirstOrCreate(out)
		return fmt.Sprintf("%s ra=%d %s", errText(r.Error), r.RowsAffected, render(out))
	case "updcol":
		col := firstColumn(o.M)
		var r *gorm.DB
		if o.V%2 == 0 {
			r = db.Model(build(o.M, g, o.A, 0, 0)).UpdateColumn(col, changes(o.M, o.V)[col])
		} else {
			r = db.Model(build(o.M, g, o.A, 0, 0)).UpdateColumns(sharedArgs.patch[o.M][o.V%3])
		}
		return fmt.Sprintf("%s ra=%d", errText(r.Error), r.RowsAffected)
	case "rawscan":
		var out []GadgetLite // first use of a type as destination of a raw query
		r := db.Raw(fmt.Sprintf("SELECT id, CAST(%s AS text) AS name FROM %s WHERE id BETWEEN ? AND ? ORDER BY id", firstColumn(o.M), modelTables[o.M]), keyOf(g, 0), keyOf(g, rangeSize-1)).Scan(&out)
		return fmt.Sprintf("%s ra=%d %s", errText(r.Error), r.RowsAffected, render(&out))
	case "exec":
		col := firstColumn(o.M)
		r := db.Exec(fmt.Sprintf("UPDATE %s SET %s = ? WHERE id = ?", modelTables[o.M], col), changes(o.M, o.V)[col], keyOf(g, o.A))
		return fmt.Sprintf("%s ra=%d", errText(r.Error), r.RowsAffected)
	case "row":
		var v sql.NullString
		err := db.Model(newModel(o.M)).Select(firstColumn(o.M)).Where("id = ?", keyOf(g, o.A)).Row().Scan(&v)
		return fmt.Sprintf("%s %v", errText(err), v)
	case "rows":
		rows, err := inRange(db.Model(newModel(o.M)), o.M, g).Order(modelTables[o.M] + ".id").Rows()
		if err != nil {
			return errText(err)
		}
		var got []string
		for rows.Next() {
			one := newModel(o.M)
			if err := db.ScanRows(rows, one); err != nil {
				got = append(got, errText(err))
				break
			}
			got = append(got, render(one))
		}
		err = rows.Err()
		_ = rows.Close()
		return fmt.Sprintf("%s %v", errText(err), got)
	case "createmap":
		col := firstColumn(o.M)
		var r *gorm.DB
		if o.V%2 == 0 {
			r = db.Model(newModel(o.M)).Create(map[string]interface{}{"id": keyOf(g, o.A), col: changes(o.M, o.V)[col]})
		} else {
			r = db.Model(newModel(o.M)).Create([]map[string]interface{}{
				{"id": keyOf(g, o.A), col: changes(o.M, o.V)[col]},
				{"id": keyOf(g, 1+o.A%nKeys), col: changes(o.M, o.V+1)[col]},
			})
		}
		return fmt.Sprintf("%s ra=%d", errText(r.Error), r.RowsAffected)
	case "createbatches":
		n := 3 + o.V%4
		keys := make([]int, n)
		for i := range keys {
			keys[i] = 3 + (o.A-1+i)%(nKeys-2)
		}
		v := buildSlice(o.M, g, keys, o.V)
		r := db.CreateInBatches(v, 3)
		return fmt.Sprintf("%s ra=%d %s", errText(r.Error), r.RowsAffected, render(v))
	case "wherestruct":
		out := newSlice(o.M)
		var cond interface{}
		if o.M == mGadget {
			cond = &GadgetFilter{Name: fmt.Sprintf("g%d", o.V), Qty: o.V} // a type used as condition only
			if o.V%2 == 0 {
				cond = sharedArgs.filter // one filter value all goroutines share
			}
		} else {
			cond = build(o.M, g, o.A, 0, o.V)
		}
		r := inRange(db, o.M, g).Where(cond).Order(modelTables[o.M] + ".id").Find(out)
		return fmt.Sprintf("%s ra=%d %s", errText(r.Error), r.RowsAffected, render(out))
	case "lite":
		var out []GadgetLite
		r := inRange(db.Model(&Gadget{}), mGadget, g).Order("gadgets.id").Find(&out)
		return fmt.Sprintf("%s ra=%d %s", errText(r.Error), r.RowsAffected, render(&out))
	case "tosql":
		col := firstColumn(o.M)
		text := db.ToSQL(func(tx *gorm.DB) *gorm.DB {
			return inRange(tx.Model(newModel(o.M)), o.M, g).Where(col+" = ?", changes(o.M, o.V)[col]).Limit(3).Find(newSlice(o.M))
		})
		return "ok " + text
	case "updret", "delret":
		out := newSlice(o.M)
		q := inRange(db.Model(out), o.M, g).Clauses(clause.Returning{}).Where(modelTables[o.M]+".id >= ?", keyOf(g, o.A))
		var r *gorm.DB
		if o.K == "updret" {
			r = q.Updates(changes(o.M, o.V))
		} else {
			r = q.Delete(out)
		}
		return fmt.Sprintf("%s ra=%d %s", errText(r.Error), r.RowsAffected, renderSorted(out))
	case "unscoped":
		if o.V%2 == 0 {
			var out []Widget
			r := inRange(db.Unscoped(), mWidget, g).Order("widgets.id").Find(&out)
			return fmt.Sprintf("%s ra=%d %s", errText(r.Error), r.RowsAffected, render(&out))
		}
		r := db.Unscoped().Delete(&Widget{}, keyOf(g, o.A))
		return fmt.Sprintf("%s ra=%d", errText(r.Error), r.RowsAffected)
	case "scopes":
		out := newSlice(o.M)
		r := db.Scopes(
			func(tx *gorm.DB) *gorm.DB { return inRange(tx, o.M, g) },
			func(tx *gorm.DB) *gorm.DB { return tx.Order(modelTables[o.M] + ".id desc").Limit(3) },
		).Find(out)
		return fmt.Sprintf("%s ra=%d %s", errText(r.Error), r.RowsAffected, render(out))
	case "mig":
		switch o.V % 3 {
		case 0:
			return fmt.Sprintf("ok hastable=%v", db.Migrator().HasTable(newModel(o.M)))
		case 1:
			return fmt.Sprintf("ok hascolumn=%v", db.Migrator().HasColumn(newModel(o.M), firstColumn(o.M)))
		}
		if family(o.M) != 0 {
			return fmt.Sprintf("ok hastable=%v", db.Migrator().HasTable(modelTables[o.M]))
		}
		// a second schema instance of the type, cached under the table's name
		return fmt.Sprintf("ok hascolumn=%v", db.Table(modelTables[o.M]).Migrator().HasColumn(newModel(o.M), "id"))
	case "query":
		col := firstColumn(o.M)
		tb := modelTables[o.M]
		switch o.V % 4 {
		case 3: // a chain derived from the shared handle as argument of another chain (sub-query)
			out := newSlice(o.M)
			sub := inRange(db.Model(newModel(o.M)), o.M, g).Select("id").Where(tb+".id <> ?", keyOf(g, o.A))
			r := db.Where(tb+".id IN (?)", sub).Order(tb + ".id").Find(out)
			return fmt.Sprintf("%s ra=%d %s", errText(r.Error), r.RowsAffected, render(out))
		case 0:
			out := newSlice(o.M)
			r := inRange(db, o.M, g).Where(db.Not(tb+"."+col+" = ?", changes(o.M, o.V)[col]).Or(tb+".id = ?", keyOf(g, o.A))).Order(tb + ".id").Find(out)
			return fmt.Sprintf("%s ra=%d %s", errText(r.Error), r.RowsAffected, render(out))
		case 1:
			out := newSlice(o.M)
			r := inRange(db, o.M, g).Distinct().Order(tb + ".id").Limit(3).Offset(1).Find(out)
			return fmt.Sprintf("%s ra=%d %s", errText(r.Error), r.RowsAffected, render(out))
		}
		var out []map[string]interface{}
		r := inRange(db.Model(newModel(o.M)), o.M, g).Select("CAST("+col+" AS text) AS v, count(*) AS n").Group(col).Having("count(*) > ?", 0).Order("v").Find(&out)
		parts := make([]string, len(out))
		for i, m := range out {
			parts[i] = fmt.Sprintf("%v:%v", m["v"], m["n"])
		}
		return fmt.Sprintf("%s ra=%d %v", errText(r.Error), r.RowsAffected, parts)
	case "set":
		h := db.Set("c07:setting", o.V).InstanceSet("c07:instance", g)
		a, okA := h.Get("c07:setting")
		b, okB := h.InstanceGet("c07:instance")
		out := newSlice(o.M)
		r := inRange(h, o.M, g).Order(modelTables[o.M] + ".id").Find(out)
		c, okC := r.Get("c07:setting")
		return fmt.Sprintf("%s ra=%d %s set=%v/%v instance=%v/%v after=%v/%v", errText(r.Error), r.RowsAffected, render(out), a, okA, b, okB, c, okC)
	case "onconflict":
		v := build(o.M, g, o.A, 0, o.V)
		oc := clause.OnConflict{DoNothing: true}
		if o.V%2 == 1 {
			oc = clause.OnConflict{Columns: []clause.Column{{Name: "id"}}, UpdateAll: true}
		}
		r := db.Clauses(oc).Create(v)
		return fmt.Sprintf("%s ra=%d %s", errText(r.Error), r.RowsAffected, render(v))
	case "delassoc":
		r := db.Select(clause.Associations).Delete(build(o.M, g, o.A, 0, 0))
		return fmt.Sprintf("%s ra=%d", errText(r.Error), r.RowsAffected)
	case "tx":
		var inner []string
		err := db.Transaction(func(tx *gorm.DB) error {
			for _, s := range o.Sub {
				inner = append(inner, exec(tx, g, s))
			}
			if !o.Commit {
				return errRollback
			}
			return nil
		})
		return fmt.Sprintf("tx %s {%s}", errText(err), strings.Join(inner, " ; "))
	case "aappend", "afind", "acount", "areplace", "adelete", "aclear":
		owner := newModel(o.M)
		if err := db.First(owner, keyOf(g, o.A)).Error; err != nil {
			return "owner " + errText(err)
		}
		as := db.Model(owner).Association(o.R)
		var res string
		switch o.K {
		case "aappend":
			res = errText(as.Append(targets(o.M, o.R, g, o.B, o.V)))
		case "areplace":
			res = errText(as.Replace(targets(o.M, o.R, g, o.B, o.V)))
		case "adelete":
			res = errText(as.Delete(targets(o.M, o.R, g, o.B, o.V)))
		case "aclear":
			res = errText(as.Clear())
		case "acount":
			n := as.Count()
			res = fmt.Sprintf("%s n=%d", errText(as.Error), n)
		case "afind":
			out := newSlice(targetModel(o.M, o.R))
			err := as.Find(out)
			res = fmt.Sprintf("%s %s", errText(err), renderSorted(out))
		}
		return res + " owner=" + render(owner)
	}
	panic("harness: unknown operation kind " + o.K)
}

type ctxKey struct{}

func applySessionOptions(db *gorm.DB, mask int) *gorm.DB {
	s := &gorm.Session{}
	debug := false
	for i, n := range sessOptNames {
		if mask&(1<<i) == 0 {
			continue
		}
		switch n {
		case "SkipHooks":
			s.SkipHooks = true
		case "QueryFields":
			s.QueryFields = true
		case "FullSaveAssociations":
			s.FullSaveAssociations = true
		case "NewDB":
			s.NewDB = true
		case "Context":
			s.Context = context.WithValue(context.Background(), ctxKey{}, 1)
		case "SkipDefaultTransaction":
			s.SkipDefaultTransaction = true
		case "DryRun":
			s.DryRun = true
		case "CreateBatchSize":
			s.CreateBatchSize = 3
		case "Debug":
			debug = true
		}
	}
	db = db.Session(s)
	if debug {
		db = db.Debug()
	}
	return db
}

// countingWriter is the logger's output: it formats nothing and keeps nothing.
type countingWriter struct{ n int64 }

func (w *countingWriter) Printf(string, ...interface{}) { atomic.AddInt64(&w.n, 1) }

// plugin registers callbacks in every processor; they run inside every operation of every goroutine.
type plugin struct{ calls int64 }

func (p *plugin) Name() string { return "c07plugin" }

func (p *plugin) Initialize(db *gorm.DB) error {
	hit := func(tx *gorm.DB) {
		atomic.AddInt64(&p.calls, 1)
		tx.Statement.Settings.Store("c07:plugin", true)
	}
	cb := db.Callback()
	for _, err := range []error{
		cb.Create().Before("gorm:create").Register("c07:before_create", hit),
		cb.Query().After("gorm:query").Register("c07:after_query", hit),
		cb.Update().Before("gorm:update").Register("c07:before_update", hit),
		cb.Delete().After("gorm:delete").Register("c07:after_delete", hit),
		cb.Row().Before("gorm:row").Register("c07:before_row", hit),
		cb.Raw().Before("gorm:raw").Register("c07:before_raw", hit),
		cb.Query().Match(func(*gorm.DB) bool { return true }).Register("c07:matched", hit),
		cb.Query().Match(func(*gorm.DB) bool { return false }).Register("c07:unmatched", func(*gorm.DB) { panic("c07: unmatched callback ran") }),
	} {
		if err != nil {
			return err
		}
	}
	return nil
}

func (c *Case) has(cfg string) bool {
	for _, n := range c.Cfg {
		if n == cfg {
			return true
		}
	}
	return false
}

// renderSorted renders a slice result whose order the query does not define.
func renderSorted(slicePtr interface{}) string {
	rv := reflect.ValueOf(slicePtr).Elem()
	parts := make([]string, rv.Len())
	for i := range parts {
		parts[i] = render(rv.Index(i).Addr().Interface())
	}
	return "[" + strings.Join(sortedStrings(parts), " ") + "]"
}

// ---- running a case ---------------------------------------------------------------------------------

type caseDB struct {
	*gorm.DB          // the handle gorm.Open returned (warm-up, witnesses)
	shared   *gorm.DB // the handle the goroutines share
	mem      *memDB
}

func openCase(c *Case) *caseDB {
	mem := openMem(c.MaxOpen, c.G+2)
	for _, q := range ddl {
		if _, err := mem.SQL.Exec(q); err != nil {
			mem.Close()
			panic("harness: " + q + ": " + err.Error())
		}
	}
	seed(mem.SQL, c.G)
	now := testdb.FixedNow
	cfg := &gorm.Config{
		PrepareStmt:            c.Prepare,
		SkipDefaultTransaction: c.SkipTx,
		Logger:                 logger.Discard,
		NowFunc:                func() time.Time { return now },
		QueryFields:            c.has("queryfields"),
		FullSaveAssociations:   c.has("fullsave"),
		TranslateError:         c.has("translate"),
		PropagateUnscoped:      c.has("propagate"),
	}
	if c.has("batchsize") {
		cfg.CreateBatchSize = 2
	}
	if c.has("logger") {
		cfg.Logger = logger.New(&countingWriter{}, logger.Config{LogLevel: logger.Info, IgnoreRecordNotFoundError: false})
	}
	if c.has("replacer") {
		cfg.NamingStrategy = schema.NamingStrategy{IdentifierMaxLength: 64, NameReplacer: strings.NewReplacer("Qzx", "qzx")}
	}
	db, err := gorm.Open(vdialect.NewSQLite(mem.SQL, c.has("noreturning")), cfg)
	if err == nil && c.has("plugin") {
		err = db.Use(&plugin{})
	}
	if err != nil {
		mem.Close()
		panic("harness: gorm.Open: " + err.Error())
	}
	d := &caseDB{DB: db, mem: mem, shared: db}
	// the handle all goroutines share may be one derived from the opened handle before the barrier
	switch c.Root {
	case "session":
		d.shared = db.Session(&gorm.Session{})
	case "ctx":
		d.shared = db.WithContext(context.WithValue(context.Background(), ctxKey{}, 2))
	case "newdb":
		d.shared = db.Session(&gorm.Session{NewDB: true, SkipHooks: false})
	case "cond":
		d.shared = db.Where("1 = 1").Session(&gorm.Session{})
	}
	resetSharedArgs()
	carrying.h, carrying.prepare = nil, c.Sess != ""
	if k := c.Carry; k != nil {
		tb := modelTables[k.M]
		h := d.shared
		for i := 0; i < k.Wheres; i++ {
			h = h.Where(tb+".id > ?", i) // true for every row
		}
		for i := 0; i < k.Orders; i++ {
			h = h.Order(fmt.Sprintf("%s.id * 0 + %d", tb, i)) // constant: decides nothing
		}
		if k.Joins {
			h = h.Joins("Company")
		}
		if k.Preload {
			h = h.Preload("Profile")
		}
		if k.Select {
			h = h.Select(tb + ".*")
		}
		carrying.h = h.Session(&gorm.Session{})
	}
	return d
}

func (d *caseDB) Close() { d.mem.Close() }

// seed gives every goroutine a few rows of its own in every table (keys 1 and 2 of its range, linked
// to each other), written through database/sql so that the handle stays cold: reads find rows to
// scan from the first operation on.
func seed(db *sql.DB, G int) {
	stmts := map[string][]string{}
	add := func(table, format string, a ...interface{}) {
		stmts[table] = append(stmts[table], fmt.Sprintf(format, a...))
	}
	for g := 0; g < G; g++ {
		k1, k2 := keyOf(g, 1), keyOf(g, 2)
		add("companies", "(%d,'seedco1'),(%d,'seedco2')", k1, k2)
		add("authors", "(%d,'seed1',30,%d),(%d,'seed2',31,%d)", k1, k1, k2, k1)
		add("profiles", "(%d,'seedbio',%d)", k1, k1)
		add("books", "(%d,'seedt1',10,%d),(%d,'seedt2',11,%d)", k1, k1, k2, k1)
		add("reviews", "(%d,4,%d),(%d,2,%d)", k1, k1, k2, k1)
		add("tags", "(%d,'seedl1'),(%d,'seedl2')", k1, k2)
		add("author_tags", "(%d,%d),(%d,%d)", k1, k1, k1, k2)
		for _, tb := range []string{"bands", "songs", "teams", "skills", "shops", "brands"} {
			add(tb, "(%d,'seed1'),(%d,'seed2')", k1, k2)
		}
		for _, tb := range []string{"band_songs", "team_skills", "shop_brands"} {
			add(tb, "(%d,%d),(%d,%d)", k1, k1, k1, k2)
		}
		add("gadgets", "(%d,'seedg1',1,'[\"s\"]','L1','red',1,'2031-07-05 11:12:13+00:00','2031-07-05 11:12:13+00:00'),(%d,'seedg2',2,NULL,'L2','',2,'2031-07-05 11:12:13+00:00','2031-07-05 11:12:13+00:00')", k1, k2)
		add("widgets", "(%d,'seedw1',1.5,NULL,'enc:seed%d','2031-07-05 11:12:13+00:00'),(%d,'seedw2',2.5,NULL,'enc:seed%d','2031-07-05 11:12:13+00:00')", k1, k1, k2, k2)
		add("parcels", "(%d,'seedp1',5,%d,%d,%d,%d),(%d,'seedp2',6,%d,%d,NULL,NULL)", k1, k1, k1, k1, k1, k2, k1, k2)
		for _, tb := range []string{"depots", "couriers", "customs", "sorters"} {
			add(tb, "(%d,'seed1'),(%d,'seed2')", k1, k2)
		}
	}
	tx, err := db.Begin()
	if err != nil {
		panic("harness: seed: " + err.Error())
	}
	for _, tb := range append(append([]string(nil), modelTables[:]...), joinTables...) {
		if _, err := tx.Exec("INSERT INTO " + tb + " VALUES " + strings.Join(stmts[tb], ",")); err != nil {
			panic("harness: seed " + tb + ": " + err.Error())
		}
	}
	if err := tx.Commit(); err != nil {
		panic("harness: seed: " + err.Error())
	}
}

// warm parses model types before the barrier, as the case says.
func (d *caseDB) warm(c *Case) {
	parse := func(m int) {
		stmt := &gorm.Statement{DB: d.DB}
		if err := stmt.Parse(newModel(m)); err != nil {
			panic("harness: parse " + modelNames[m] + ": " + err.Error())
		}
	}
	switch c.Warm {
	case "parse":
		for m := 0; m < nModels; m++ {
			parse(m)
		}
	case "query":
		for m := 0; m < nModels; m++ {
			if err := d.DB.Limit(1).Find(newSlice(m)).Error; err != nil {
				panic("harness: warm query " + modelNames[m] + ": " + err.Error())
			}
		}
	case "one":
		parse(c.WarmOne)
	case "targets":
		// the shared target type is parsed and in use; its owners are not
		parse(mParcel)
		if err := d.DB.Limit(1).Find(newSlice(mParcel)).Error; err != nil {
			panic("harness: warm query Parcel: " + err.Error())
		}
		// ... and written: one row outside every goroutine's range, updated and deleted again
		p := &Parcel{ID: 1, Label: "warm"}
		if err := d.DB.Create(p).Error; err != nil {
			panic("harness: warm create Parcel: " + err.Error())
		}
		if err := d.DB.Model(p).Update("label", "warmer").Error; err != nil {
			panic("harness: warm update Parcel: " + err.Error())
		}
		if err := d.DB.Delete(p).Error; err != nil {
			panic("harness: warm delete Parcel: " + err.Error())
		}
	}
}

// dump reads every table through database/sql (not gorm), ordered by key.
func dump(db *sql.DB) []string {
	var out []string
	tables := append(append([]string(nil), modelTables[:]...), joinTables...)
	for _, tb := range tables {
		order := "id"
		for _, jt := range joinTables {
			if tb == jt {
				order = "1, 2" // the two key columns
			}
		}
		rows, err := db.Query("SELECT * FROM " + tb + " ORDER BY " + order)
		if err != nil {
			panic("harness: dump " + tb + ": " + err.Error())
		}
		cols, _ := rows.Columns()
		for rows.Next() {
			vals := make([]interface{}, len(cols))
			ptrs := make([]interface{}, len(cols))
			for i := range vals {
				ptrs[i] = &vals[i]
			}
			if err := rows.Scan(ptrs...); err != nil {
				panic("harness: dump scan: " + err.Error())
			}
			parts := make([]string, len(cols))
			for i, v := range vals {
				switch x := v.(type) {
				case []byte:
					parts[i] = fmt.Sprintf("%s=%q", cols[i], string(x))
				case time.Time:
					parts[i] = fmt.Sprintf("%s=%s", cols[i], x.UTC().Format(time.RFC3339))
				default:
					parts[i] = fmt.Sprintf("%s=%v", cols[i], x)
				}
			}
			out = append(out, tb+"{"+strings.Join(parts, " ")+"}")
		}
		if err := rows.Err(); err != nil {
			panic("harness: dump rows: " + err.Error())
		}
		rows.Close()
	}
	return out
}

type outcome struct {
	results   [][]string // per goroutine, per operation
	rows      []string   // final rows of every table
	handleErr string     // non-empty: a shared handle carries an error after the run
	stalled   string     // non-empty: no operation finished for stallLimit; holds the goroutine stacks
}

func runProgram(c *Case, db *gorm.DB, g int, prog []Op, res []string) {
	if c.Sess == "goroutine" {
		db = db.Session(&gorm.Session{PrepareStmt: true})
	}
	for i, o := range prog {
		func() {
			defer func() {
				if p := recover(); p != nil {
					res[i] = fmt.Sprintf("PANIC: %v", p)
				}
			}()
			h := db
			if c.Sess == "call" {
				h = db.Session(&gorm.Session{PrepareStmt: true})
			}
			res[i] = exec(h, g, o)
		}()
	}
}

// phases: the "targets" arrangement runs the first operation of every program in a phase of its own
// (target type warm, owner types cold), then parses the rest of the second family, then runs the
// remaining operations; every other arrangement is one phase.
func (c *Case) phases() [][2]int {
	if c.Warm == "targets" {
		return [][2]int{{0, 1}, {1, 1 << 30}}
	}
	return [][2]int{{0, 1 << 30}}
}

func slice(p []Op, ph [2]int) (int, int) {
	lo, hi := ph[0], ph[1]
	if lo > len(p) {
		lo = len(p)
	}
	if hi > len(p) {
		hi = len(p)
	}
	return lo, hi
}

// betweenPhases: after phase A of the "targets" arrangement the whole second family is parsed.
func (d *caseDB) betweenPhases(c *Case, next int) {
	if c.Warm == "targets" && next == 1 {
		for _, m := range family2Models {
			stmt := &gorm.Statement{DB: d.DB}
			if err := stmt.Parse(newModel(m)); err != nil {
				panic("harness: parse " + modelNames[m] + ": " + err.Error())
			}
		}
	}
}

// runConcurrent: all goroutines through one handle, released by one barrier per phase; returns only
// after every goroutine has finished.
func runConcurrent(c *Case) outcome {
	d := openCase(c)
	defer d.Close()
	d.warm(c)
	out := outcome{results: make([][]string, c.G)}
	for g := range out.results {
		out.results[g] = make([]string, len(c.Programs[g]))
	}
	if c.Procs > 0 {
		defer runtime.GOMAXPROCS(runtime.GOMAXPROCS(c.Procs))
	}
	for pi, ph := range c.phases() {
		d.betweenPhases(c, pi)
		start := make(chan struct{})
		var wg sync.WaitGroup
		for g := 0; g < c.G; g++ {
			lo, hi := slice(c.Programs[g], ph)
			if lo == hi {
				continue
			}
			wg.Add(1)
			go func(g, lo, hi int) {
				defer wg.Done()
				<-start
				runProgram(c, d.shared, g, c.Programs[g][lo:hi], out.results[g][lo:hi])
			}(g, lo, hi)
		}
		close(start)
		done := make(chan struct{})
		go func() { wg.Wait(); close(done) }()
		if out.stalled = supervise(c, "concurrent run", done, func() { _ = d.mem.SQL.Close() }); out.stalled != "" {
			return out
		}
	}
	out.handleErr = handleErrors(d)
	out.rows = dump(d.mem.SQL)
	return out
}

// handleErrors: the shared handles carry no error after the run - an operation's error belongs to
// the value the operation returned. (An error left on a shared handle fails every later call of
// every goroutine, and equally in the serial run, where the comparison alone would not show it.)
func handleErrors(d *caseDB) string {
	var bad []string
	if d.DB.Error != nil {
		bad = append(bad, fmt.Sprintf("the opened handle carries %q", d.DB.Error))
	}
	if d.shared != d.DB && d.shared.Error != nil {
		bad = append(bad, fmt.Sprintf("the shared handle carries %q", d.shared.Error))
	}
	if carrying.h != nil && carrying.h.Error != nil {
		bad = append(bad, fmt.Sprintf("the clause-carrying handle carries %q", carrying.h.Error))
	}
	return strings.Join(bad, "; ")
}

// supervise waits until done is closed. A phase in which no operation finishes for stallLimit is a
// deadlock (or an endless loop): the goroutine stacks are kept and release is called (closing the
// pool fails every call that waits for a connection, which ends the goroutines of a pool-related
// deadlock). If nothing moves after that either, nothing can end these goroutines: the failure is
// printed and the process ends.
func supervise(c *Case, phase string, done <-chan struct{}, release func()) (stalled string) {
	tick := time.NewTicker(200 * time.Millisecond)
	defer tick.Stop()
	last, lastChange := atomic.LoadInt64(&progress), time.Now()
	released := false
	blockedDumps := 0 // consecutive dumps, without progress in between, in which every goroutine was blocked
	var lastDump time.Time
	for {
		select {
		case <-done:
			return stalled
		case <-tick.C:
			p := atomic.LoadInt64(&progress)
			if p != last {
				last, lastChange, blockedDumps = p, time.Now(), 0
				continue
			}
			// The verdict comes from the goroutine states: when every goroutine that runs operations,
			// gorm or database/sql code is blocked (lock, channel, select) in two dumps taken a second
			// apart and nothing finished in between, nothing can wake them - a deadlock. The clock
			// only paces the dumps. (stallLimit remains as the bound for endless loops.)
			verdict := false
			if time.Since(lastChange) > time.Second && time.Since(lastDump) > time.Second {
				buf := make([]byte, 1<<20)
				dump := string(buf[:runtime.Stack(buf, true)])
				lastDump = time.Now()
				if allBlocked(dump) {
					blockedDumps++
				} else {
					blockedDumps = 0
				}
				if blockedDumps >= 2 {
					verdict = true
					if stalled == "" {
						stalled = "every goroutine is blocked (two dumps a second apart, no operation finished in between):\n" + gormStacks(dump)
					}
				}
			}
			if !verdict && time.Since(lastChange) > stallLimit {
				verdict = true
				if stalled == "" {
					buf := make([]byte, 1<<20)
					stalled = "no operation finished for " + stallLimit.String() + ":\n" + gormStacks(string(buf[:runtime.Stack(buf, true)]))
				}
			}
			if !verdict {
				continue
			}
			if !released {
				// closing the pool fails every call that waits for a connection: the goroutines of a
				// pool-related deadlock end with errors
				released = true
				release()
				lastChange, blockedDumps = time.Now(), 0
				continue
			}
			fmt.Println("VERIF-FAILURE-BEGIN\nC07 violated: " + phase + ": deadlock or endless loop - the goroutines do not end, also after the pool was closed\ncase: " + c.String() + "\ncase-json: " + c.JSON() + "\n" + stalled + "\nVERIF-FAILURE-END")
			evid.Flush()
			os.Exit(1)
		}
	}
}

// allBlocked: every goroutine of the dump that is inside an operation, gorm or database/sql (the
// pool's opener included) waits for a lock, a channel or a select; none is running, runnable or in
// a system call. The test's own goroutines (this watchdog, the testing package) are not counted.
func allBlocked(dump string) bool {
	seen := false
	for _, g := range strings.Split(dump, "\n\n") {
		if !strings.HasPrefix(g, "goroutine ") {
			continue
		}
		if !(strings.Contains(g, "gorm.io/gorm") || strings.Contains(g, "database/sql") || strings.Contains(g, "c07.runProgram")) {
			continue
		}
		if strings.Contains(g, "c07.supervise") {
			continue
		}
		head := g[:strings.Index(g, "\n")+1]
		lb, rb := strings.Index(head, "["), strings.Index(head, "]")
		if lb < 0 || rb < lb {
			return false
		}
		state := strings.Split(head[lb+1:rb], ",")[0]
		switch state {
		case "chan receive", "chan send", "select", "sync.Mutex.Lock", "sync.RWMutex.Lock", "sync.RWMutex.RLock", "semacquire", "sync.Cond.Wait", "sync.WaitGroup.Wait", "chan receive (nil chan)", "select (no cases)":
			seen = true
		default:
			return false
		}
	}
	return seen
}

// gormStacks keeps the goroutines of a full stack dump that are inside gorm.
func gormStacks(all string) string {
	var keep []string
	for _, g := range strings.Split(all, "\n\n") {
		if strings.Contains(g, "gorm.io/gorm") {
			lines := strings.Split(g, "\n")
			if len(lines) > 25 {
				lines = append(lines[:25], "\t...")
			}
			keep = append(keep, strings.Join(lines, "\n"))
		}
	}
	if len(keep) > 6 {
		keep = append(keep[:6], fmt.Sprintf("... and %d more goroutines inside gorm", len(keep)-6))
	}
	return "goroutines inside gorm when nothing had moved for " + stallLimit.String() + ":\n" + strings.Join(keep, "\n\n")
}

// runSerial: the same programs one after the other on a fresh database of the same configuration.
func runSerial(c *Case) outcome {
	d := openCase(c)
	defer d.Close()
	d.warm(c)
	out := outcome{results: make([][]string, c.G)}
	for g := range out.results {
		out.results[g] = make([]string, len(c.Programs[g]))
	}
	done := make(chan struct{})
	go func() {
		defer close(done)
		for pi, ph := range c.phases() {
			d.betweenPhases(c, pi)
			for g := 0; g < c.G; g++ {
				lo, hi := slice(c.Programs[g], ph)
				runProgram(c, d.shared, g, c.Programs[g][lo:hi], out.results[g][lo:hi])
			}
		}
	}()
	if out.stalled = supervise(c, "serial run", done, func() { _ = d.mem.SQL.Close() }); out.stalled != "" {
		return out
	}
	out.handleErr = handleErrors(d)
	out.rows = dump(d.mem.SQL)
	return out
}

// compare returns a description of the first differences ("" = equal).
func compare(c *Case, conc, ser outcome) string {
	var diffs []string
	for g := range c.Programs {
		for i := range c.Programs[g] {
			if conc.results[g][i] != ser.results[g][i] {
				diffs = append(diffs, fmt.Sprintf("g%d op %d %s:\n    concurrent: %s\n    alone:      %s", g, i, c.Programs[g][i], conc.results[g][i], ser.results[g][i]))
			}
		}
	}
	a, b := strings.Join(conc.rows, "\n"), strings.Join(ser.rows, "\n")
	if a != b {
		have := map[string]bool{}
		for _, r := range ser.rows {
			have[r] = true
		}
		var only []string
		for _, r := range conc.rows {
			if !have[r] {
				only = append(only, "only after the concurrent run: "+r)
			} else {
				delete(have, r)
			}
		}
		for _, r := range ser.rows {
			if have[r] {
				only = append(only, "only after the serial run:     "+r)
			}
		}
		diffs = append(diffs, "final rows differ:\n    "+strings.Join(only, "\n    "))
	}
	if len(diffs) > 6 {
		diffs = append(diffs[:6], fmt.Sprintf("... and %d more", len(diffs)-6))
	}
	return strings.Join(diffs, "\n  ")
}

// check runs one case and returns what is wrong with it ("" = the property held).
func check(c *Case) string {
	before := raceReports()
	conc := runConcurrent(c)
	races := raceReports() - before
	if conc.stalled != "" {
		return "deadlock - no operation of any goroutine finished for " + stallLimit.String() + " (the pool was then closed to end the goroutines)" + panicsOf(c, conc) + "\n" + conc.stalled
	}
	ser := runSerial(c)
	if ser.stalled != "" {
		return "the programs do not finish even one after the other: no operation finished for " + stallLimit.String() + " in the serial run" + panicsOf(c, ser) + "\n" + ser.stalled
	}
	if p := panicsOf(c, ser); p != "" {
		// a panic that also happens alone is not a C07 matter (the results still have to be equal), but
		// it must not go unseen: an operation that always panics tests nothing
		evid.Class("result:panic-also-alone")
		if os.Getenv("VERIF_C07_SHOW_PANICS") != "" {
			fmt.Println("panic in the serial run:", p)
		}
	}
	errs, total := 0, 0
	for g := range ser.results {
		for i, r := range ser.results[g] {
			total++
			if strings.Contains(r, "err=") {
				errs++
				if k := c.Programs[g][i].K; !isBlock(k) {
					evid.AddExtra("error_results_alone:"+k, 1)
				}
			}
		}
	}
	evid.AddExtra("operations_run_per_side", int64(total))
	evid.AddExtra("operations_with_an_error_result_alone", int64(errs))
	var bad []string
	if conc.handleErr != "" || ser.handleErr != "" {
		bad = append(bad, fmt.Sprintf("an operation left its error on a handle the goroutines share (after the concurrent run: %s; after the serial run: %s): every later call through that handle fails with it", orNone(conc.handleErr), orNone(ser.handleErr)))
	}
	if races > 0 {
		bad = append(bad, fmt.Sprintf("the race detector reported %d data race(s) while the goroutines of this case ran (reports: stderr, above)", races))
	}
	if d := compare(c, conc, ser); d != "" {
		bad = append(bad, "results differ from the same programs run one after the other:\n  "+d)
	}
	return strings.Join(bad, "\n")
}

// hexAddr: some error texts print the address of the value they refuse
var hexAddr = regexp.MustCompile(`0x[0-9a-f]+`)

func orNone(s string) string {
	if s == "" {
		return "none"
	}
	return s
}

// panicsOf lists the operations that ended in a (recovered) panic: a panic inside an operation
// that had begun its default transaction leaves that transaction open, which later shows as a stall.
func panicsOf(c *Case, o outcome) string {
	var out []string
	for g := range o.results {
		for i, r := range o.results[g] {
			if strings.Contains(r, "PANIC:") {
				out = append(out, fmt.Sprintf("\n  g%d op %d %s: %s", g, i, c.Programs[g][i], r))
			}
		}
	}
	if len(out) == 0 {
		return ""
	}
	return "\noperations that panicked before:" + strings.Join(out, "")
}

// report prints a schedule-dependent failure so that the driver keeps it (rapid cannot re-create it).
func report(c *Case, what string) string {
	msg := fmt.Sprintf("C07 violated: %s\ncase: %s\ncase-json: %s", what, c, c.JSON())
	if atomic.AddInt32(&reported, 1) <= 3 { // rapid's shrink attempts fail again: keep the log readable
		fmt.Println("VERIF-FAILURE-BEGIN\n" + msg + "\nVERIF-FAILURE-END")
	}
	return msg
}

var reported int32

func opKinds(p []Op, into map[string]bool) {
	for _, o := range p {
		into[o.K] = true
		if o.S != 0 {
			into["sessopt"] = true
		}
		if isBlock(o.K) {
			opKinds(o.Sub, into)
		}
	}
}

func firstModel(p []Op) int {
	o := p[0]
	for isBlock(o.K) {
		o = o.Sub[0]
	}
	return o.M
}

func runCase(rt *rapid.T) {
	c := genCase(rt)
	if c.inFirstUseClass() && firstUseOpen() {
		rt.Fatalf("harness: generator produced a case of the excluded class: %s", c)
	}
	evid.Journal(c.JSON())
	if bad := check(c); bad != "" {
		rt.Fatalf("%s", report(c, bad))
	}

	// ---- evidence ----
	kinds := map[string]bool{}
	firstUse := map[int]int{}
	owners := map[int]bool{}
	for _, p := range c.Programs {
		opKinds(p, kinds)
		firstUse[firstModel(p)]++
		if m := firstModel(p); family(m) == 2 && m != mParcel {
			owners[m] = true
		}
	}
	assoc := false
	var cl []string
	for k := range kinds {
		cl = append(cl, "op:"+k)
		if k == "preload" || k == "joins" || k == "tree" || (strings.HasPrefix(k, "a") && k != "badraw") {
			assoc = true
		}
	}
	switch {
	case c.G <= 4:
		cl = append(cl, "G:2-4")
	case c.G <= 8:
		cl = append(cl, "G:5-8")
	case c.G <= 16:
		cl = append(cl, "G:9-16")
	default:
		cl = append(cl, "G:17-32")
	}
	for _, n := range c.Cfg {
		cl = append(cl, "cfg:"+n)
	}
	if k := c.Carry; k != nil {
		cl = append(cl, fmt.Sprintf("carrying-handle:orders=%d", k.Orders), fmt.Sprintf("carrying-handle:wheres=%d", k.Wheres), "carrying-handle:"+modelNames[k.M])
		if k.Select {
			cl = append(cl, "carrying-handle:select")
		}
		if k.Joins {
			cl = append(cl, "carrying-handle:joins")
		}
		if k.Preload {
			cl = append(cl, "carrying-handle:preload")
		}
	}
	if c.Root != "" {
		cl = append(cl, "shared-handle:"+c.Root)
	} else {
		cl = append(cl, "shared-handle:opened")
	}
	cl = append(cl, "cache:"+c.Warm, "prepare:"+map[bool]string{false: "off", true: "config"}[c.Prepare]+map[string]string{"": "", "call": "+session-per-call", "goroutine": "+session-per-goroutine"}[c.Sess], fmt.Sprintf("skipdefaulttx:%v", c.SkipTx), fmt.Sprintf("procs:%d", c.Procs), fmt.Sprintf("maxopen:%d", c.MaxOpen))
	cold := c.Warm == "cold" || c.Warm == "one" || c.Warm == "targets"
	same := 0
	for _, n := range firstUse {
		if n > same {
			same = n
		}
	}
	if same >= 2 {
		cl = append(cl, "first-op:same-type-by-several")
		if o := c.Programs[0][0]; same == c.G && strings.HasPrefix(o.K, "bad") {
			cl = append(cl, "first-op:same-failing-text-by-all")
		}
	}
	coldM2M := 0
	for f := 3; f <= nFamilies; f++ {
		if !c.familySafe(f) && len(c.Programs) > 0 {
			for _, p := range c.Programs {
				if o := p[0]; isM2MOwner(o.M) && family(o.M) == f && o.K == "tree" {
					coldM2M++
				} else if len(p) > 1 && strings.HasPrefix(p[0].K, "bad") || len(p) > 1 && (p[0].K == "first" || p[0].K == "count") {
					if o := p[1]; isM2MOwner(o.M) && family(o.M) == f && o.K == "tree" {
						coldM2M++
					}
				}
			}
		}
	}
	if coldM2M >= 2 {
		cl = append(cl, fmt.Sprintf("m2m:first-call-on-%d-unrelated-cold-many2many-owners", coldM2M))
	}
	for f := 1; f <= nFamilies; f++ {
		n := c.familyGoroutines(f)
		if c.Warm == "targets" && f == 2 {
			continue // labelled by the number of distinct cold owner types below
		}
		switch {
		case c.Warm == "parse" || c.Warm == "query":
			if n >= 2 {
				cl = append(cl, fmt.Sprintf("family%d:warm-used-by-several", f))
			}
		case c.familySafe(f):
			if n >= 2 {
				cl = append(cl, fmt.Sprintf("family%d:partly-cold-used-by-several", f))
			}
		case n == 1:
			cl = append(cl, fmt.Sprintf("family%d:cold-used-by-one", f))
		case n >= 2:
			cl = append(cl, fmt.Sprintf("family%d:cold-used-by-several", f))
		}
	}
	if c.Warm == "targets" {
		switch {
		case len(owners) >= 3:
			cl = append(cl, "target-warm:first-call-on-3+-distinct-cold-owner-types")
		case len(owners) == 2:
			cl = append(cl, "target-warm:first-call-on-2-distinct-cold-owner-types")
		}
	}
	nt := (cold && c.G >= 2) || (!cold && c.G >= 4 && assoc)
	evid.Case(c.JSON(), nt, c.String(), cl...)
}

func TestC07(t *testing.T) {
	evid.Rule("C07: G in 2..32 goroutines (four size buckets) released by one barrier, each running 1-8 operations through ONE shared *gorm.DB (the opened handle, or one derived from it before the barrier: Session{}, WithContext, Session{NewDB}, a conditioned handle; in two thirds of the cases also a second shared Session handle that already carries 0-3 Where conditions, 0-7 Order columns and possibly Select/Joins/Preload, from which goroutines derive chains that add one more Order/Where/Select/Omit/Limit/Clauses/Joins/Preload/Not-Or before finishing) on explicit keys private to the goroutine. Operations: Create (single, []T, []*T 2-6 rows, nested associations, maps, []map, CreateInBatches, OnConflict), Save, FirstOrInit/FirstOrCreate with struct Attrs / map Assign, Find (chain and inline conditions, struct conditions of the model's and of a foreign type, smaller destination struct, Scopes, Not/Or groups, Distinct/Limit/Offset, Group/Having into maps, sub-query built from the shared handle), First/Take/Last, FindInBatches, Count, Pluck, Row, Rows+ScanRows, Raw.Scan, Exec, ToSQL, Preload incl. nested, relation Joins, Update/Updates (map, struct)/UpdateColumn(s), clause.Returning on update and delete, Delete (key, range, Unscoped, Select(clause.Associations)), Set/Get/InstanceSet/InstanceGet, Migrator HasTable/HasColumn (also through Table()), Transaction blocks (nested, rollback), manual Begin/SavePoint/RollbackTo/Commit, Connection blocks, Association Append/Replace/Delete/Clear/Find/Count, statements that cannot be prepared (Raw/Table/Exec on a missing table, a missing column; three texts each, shared by all goroutines), calls that fail because of their arguments made directly on the shared handle (unsupported Select argument, unknown relation in Preload/Joins/Association, unsupported destination or Model value, Updates without a model, a Scope adding an error; no shared handle may carry an error afterwards), statements that are refused when executed (every table has a CHECK constraint; Update/Updates/Exec/UpdateColumn/Save/Create with the refused value, same text as the valid calls), loops of 25 identical single-row UPDATEs, patch / condition maps and a struct filter that all goroutines share as arguments, column names in five spellings for Select/Omit/Updates(map)/Where(map)/Pluck; a quarter of the plain operations run on a per-call Session with SkipHooks/QueryFields/FullSaveAssociations/NewDB/Context/SkipDefaultTransaction/DryRun/CreateBatchSize/Debug. Models: a cyclic family of six related types (belongs-to, has-one, has-many, many-to-many), a second family (one target type with four has-many/has-one owner types), three mutually unrelated many-to-many families (on a cold handle first used by different goroutines at the barrier), two relation-free types with a json serializer field, a field type that is its own stateful serializer, a Valuer/Scanner type, an embedded struct, tracked times, soft delete and hook methods. In a third of the cases all goroutines start with the same statement: a text that cannot be prepared, a read of one model (overlapping scans), or one UPDATE text (shared patch map, loops, a quarter of the goroutines with the refused value). Schema cache cold / one type parsed / only the shared target type parsed and queried (owners first used concurrently) / all parsed / all queried before the barrier; PrepareStmt off / Config.PrepareStmt / db.Session(&gorm.Session{PrepareStmt: true}) derived per call or once per goroutine; Config switches QueryFields, CreateBatchSize, FullSaveAssociations, TranslateError, PropagateUnscoped, an Info-level Logger, a NameReplacer naming strategy, a dialector without RETURNING, a Plugin registering callbacks (with Match) in every processor; default transactions on/off; pool unbounded or 1/2/4; GOMAXPROCS 1/2/4/default; generated Gosched points. Judged by the race detector (report count read after every case), by equality of every result (error texts, recovered panics included) and of all final rows with a serial run on a fresh database, and by a deadlock watchdog. Non-trivial = part of the schema cache is cold at the barrier (G >= 2 always), or warm cache with >= 4 goroutines and >= 1 association/preload/joins/nested-create operation; distinct = configuration + programs")
	evid.Assume("SQLite's single-writer rule is hidden by the harness: connections run read_uncommitted and writers queue on one harness mutex (BEGIN..COMMIT or one autocommit write); write paths of two goroutines therefore overlap only outside transactions (SkipDefaultTransaction cases)")
	evid.Assume("the runtime's schedule is sampled, not enumerated; the race detector reports unsynchronised conflicting accesses it observes within its history window")
	if !raceEnabled {
		t.Log("note: built without -race - only the differential oracle is active")
	}
	if p := harness.ReplayPath(); p != "" {
		replayCase(t, p)
		return
	}
	rapid.Check(t, runCase)
}

// replayCase re-runs one saved case (the JSON of a Case, as written next to a failure or kept in
// the driver's journal) 200 times on fresh handles.
func replayCase(t *testing.T, path string) {
	b, err := os.ReadFile(path)
	if err != nil {
		t.Fatalf("harness: replay file: %v", err)
	}
	var c Case
	if err := json.Unmarshal(b, &c); err != nil || c.G == 0 || len(c.Programs) != c.G {
		t.Fatalf("harness: replay file %s does not hold a C07 case: %v", path, err)
	}
	evid.Journal(c.JSON())
	for i := 0; i < 200; i++ {
		if bad := check(&c); bad != "" {
			t.Fatalf("%s\n(replay run %d of 200)", report(&c, bad), i+1)
		}
	}
	t.Logf("replayed 200 times without a race report or divergence: %s", &c)
}
