package c07

import (
	"fmt"
	"strings"
	"testing"

	"gorm.io/gorm"
	"gorm.io/gorm/logger"

	"verif/internal/vdialect"
)

// TestC07Guard checks the harness itself: the fixed DDL is what AutoMigrate writes for the models,
// every kind of operation works when it runs alone (an operation that always fails would compare
// equal and test nothing), and the serial reference is reproducible.
func TestC07Guard(t *testing.T) {
	// (1) DDL
	mem := openMem(0, 2)
	db, err := gorm.Open(vdialect.NewSQLite(mem.SQL, false), &gorm.Config{Logger: logger.Discard})
	if err != nil {
		t.Fatalf("harness: %v", err)
	}
	for m := 0; m < nModels; m++ {
		if err := db.AutoMigrate(newModel(m)); err != nil {
			t.Fatalf("harness: AutoMigrate %s: %v", modelNames[m], err)
		}
	}
	rows, err := mem.SQL.Query("SELECT sql FROM sqlite_master WHERE type = 'table'")
	if err != nil {
		t.Fatalf("harness: %v", err)
	}
	got := map[string]bool{}
	for rows.Next() {
		var s string
		_ = rows.Scan(&s)
		// constraints and indexes are not part of the fixed text: compare the column lists
		got[columnsOf(s)] = true
	}
	rows.Close()
	mem.Close()
	for _, q := range ddl {
		if !got[columnsOf(q)] {
			t.Errorf("harness: fixed DDL %q has no AutoMigrate counterpart; AutoMigrate wrote %v", q, keysOf(got))
		}
	}

	// (2) every operation kind succeeds alone
	script := []Op{
		{K: "tree", M: mAuthor, A: 3, B: 4, V: 31},
		{K: "create", M: mAuthor, A: 5, B: 2, V: 1},
		{K: "batch", M: mGadget, A: 1, V: 0},
		{K: "create", M: mWidget, A: 3, V: 3},
		{K: "save", M: mTag, A: 4, V: 2},
		{K: "find", M: mAuthor},
		{K: "first", M: mBook, A: 1},
		{K: "count", M: mTag},
		{K: "pluck", M: mReview},
		{K: "preload", M: mAuthor, R: "Company,Profile,Books.Reviews"},
		{K: "preload", M: mAuthor, R: "Tags,Company.Staff"},
		{K: "preload", M: mBook, R: "Author.Profile,Reviews,Author.Tags"},
		{K: "preload", M: mCompany, R: "Staff.Books,Staff.Profile"},
		{K: "joins", M: mAuthor, R: "Company"},
		{K: "joins", M: mAuthor, R: "Profile"},
		{K: "joins", M: mBook, R: "Author"},
		{K: "joins", M: mBook, R: "Author.Company"},
		{K: "update", M: mBook, A: 1, V: 4},
		{K: "updates", M: mAuthor, A: 1, V: 5},
		{K: "aappend", M: mAuthor, A: 1, B: 3, V: 1, R: "Books"},
		{K: "aappend", M: mAuthor, A: 1, B: 3, V: 1, R: "Tags"},
		{K: "aappend", M: mAuthor, A: 1, B: 3, V: 1, R: "Profile"},
		{K: "aappend", M: mAuthor, A: 3, B: 3, V: 1, R: "Company"},
		{K: "aappend", M: mBook, A: 1, B: 4, V: 1, R: "Reviews"},
		{K: "aappend", M: mCompany, A: 2, B: 5, V: 1, R: "Staff"},
		{K: "afind", M: mAuthor, A: 1, R: "Books"},
		{K: "afind", M: mAuthor, A: 1, R: "Tags"},
		{K: "afind", M: mBook, A: 1, R: "Author"},
		{K: "acount", M: mCompany, A: 2, R: "Staff"},
		{K: "areplace", M: mAuthor, A: 1, B: 5, V: 2, R: "Tags"},
		{K: "adelete", M: mAuthor, A: 1, B: 3, V: 1, R: "Books"},
		{K: "aclear", M: mAuthor, A: 1, R: "Profile"},
		{K: "tx", Commit: true, Sub: []Op{{K: "create", M: mGadget, A: 5, V: 1}, {K: "tx", Sub: []Op{{K: "delete", M: mGadget, A: 5}}}, {K: "find", M: mGadget}}},
		{K: "delete", M: mWidget, A: 1},
		{K: "find", M: mWidget},
		{K: "delrange", M: mBook, A: 1},
		{K: "tree", M: mDepot, A: 3, B: 4, V: 2},
		{K: "tree", M: mSorter, A: 5, B: 5, V: 3},
		{K: "create", M: mParcel, A: 6, V: 6},
		{K: "batch", M: mCourier, A: 1, V: 0},
		{K: "preload", M: mDepot, R: "Parcels"},
		{K: "preload", M: mSorter, R: "Parcel"},
		{K: "joins", M: mSorter, R: "Parcel"},
		{K: "aappend", M: mCustoms, A: 1, B: 7, V: 1, R: "Parcels"},
		{K: "aappend", M: mSorter, A: 2, B: 8, V: 1, R: "Parcel"},
		{K: "afind", M: mCourier, A: 1, R: "Parcels"},
		{K: "acount", M: mDepot, A: 1, R: "Parcels"},
		{K: "areplace", M: mDepot, A: 1, B: 3, V: 2, R: "Parcels"},
		{K: "updates", M: mParcel, A: 1, V: 5},
		{K: "find", M: mParcel},
		{K: "spell", M: mGadget, A: 2, B: 0, V: 0},
		{K: "spell", M: mGadget, A: 2, B: 1, V: 2},
		{K: "spell", M: mBook, A: 2, B: 2, V: 3},
		{K: "spell", M: mGadget, A: 2, B: 3, V: 0},
		{K: "spell", M: mAuthor, A: 2, B: 4, V: 2},
		{K: "spell", M: mParcel, A: 2, B: 5, V: 5},
		{K: "spell", M: mGadget, A: 7, B: 6, V: 1},
		{K: "tree", M: mBand, A: 3, B: 4, V: 0},
		{K: "tree", M: mTeam, A: 3, B: 4, V: 1},
		{K: "tree", M: mShop, A: 3, B: 4, V: 2},
		{K: "preload", M: mBand, R: "Songs"},
		{K: "preload", M: mShop, R: "Brands"},
		{K: "aappend", M: mTeam, A: 1, B: 5, V: 1, R: "Skills"},
		{K: "afind", M: mTeam, A: 1, R: "Skills"},
		{K: "acount", M: mBand, A: 3, R: "Songs"},
		{K: "areplace", M: mShop, A: 1, B: 6, V: 1, R: "Brands"},
		{K: "create", M: mSong, A: 7, V: 1},
		{K: "create", M: mWidget, A: 5, V: 7},
		{K: "first", M: mWidget, A: 5},
		{K: "loop", M: mGadget, A: 1},
		{K: "loop", M: mReview, A: 2},
		{K: "take", M: mTag, A: 1},
		{K: "last", M: mGadget},
		{K: "findbatches", M: mGadget},
		{K: "firstorinit", M: mReview, A: 8, V: 2},
		{K: "firstorcreate", M: mReview, A: 8, V: 3},
		{K: "firstorcreate", M: mGadget, A: 8, V: 2},
		{K: "updcol", M: mTag, A: 1, V: 2},
		{K: "updcol", M: mBook, A: 2, V: 3},
		{K: "rawscan", M: mTag},
		{K: "exec", M: mGadget, A: 1, V: 4},
		{K: "row", M: mGadget, A: 1},
		{K: "rows", M: mWidget},
		{K: "createmap", M: mCourier, A: 7, V: 2},
		{K: "createmap", M: mCompany, A: 7, V: 3},
		{K: "createbatches", M: mCustoms, A: 3, V: 2},
		{K: "wherestruct", M: mGadget, V: 1},
		{K: "wherestruct", M: mTag, A: 1, V: 2},
		{K: "lite", M: mGadget},
		{K: "tosql", M: mGadget, V: 1},
		{K: "updret", M: mTag, A: 7, V: 1},
		{K: "delret", M: mTag, A: 8, V: 1},
		{K: "unscoped", M: mWidget, V: 0},
		{K: "unscoped", M: mWidget, A: 1, V: 1},
		{K: "scopes", M: mBook},
		{K: "mig", M: mGadget, V: 0},
		{K: "mig", M: mAuthor, V: 1},
		{K: "mig", M: mGadget, V: 2},
		{K: "query", M: mGadget, A: 1, V: 0},
		{K: "query", M: mGadget, V: 1},
		{K: "query", M: mGadget, V: 2},
		{K: "query", M: mBook, A: 1, V: 3},
		{K: "find", M: mTag, V: 2},
		{K: "updates", M: mTag, A: 1, V: 3},
		{K: "batch", M: mSorter, A: 5, V: 1},
		{K: "set", M: mGadget, V: 3},
		{K: "onconflict", M: mTag, A: 1, V: 0},
		{K: "onconflict", M: mTag, A: 1, V: 1},
		{K: "delassoc", M: mDepot, A: 2},
		{K: "conn", Sub: []Op{{K: "create", M: mWidget, A: 6, V: 1}, {K: "tx", Commit: true, Sub: []Op{{K: "find", M: mWidget}}}}},
		{K: "mtx", Commit: false, Sub: []Op{{K: "create", M: mWidget, A: 7, V: 1}, {K: "create", M: mWidget, A: 8, V: 1}}},
		{K: "find", M: mWidget, S: 1 | 2 | 16 | 32 | 256},
		{K: "create", M: mTag, A: 6, V: 1, S: 4 | 8 | 128},
	}
	// operations whose statement is refused when it is executed
	for b := range badvalUses {
		script = append(script, Op{K: "badval", M: mGadget, A: 1, B: b, V: 1}, Op{K: "badval", M: mReview, A: 1, B: b, V: 1})
	}
	script = append(script, Op{K: "loop", M: mTag, A: 1, B: 1})
	for b := range badchainUses {
		script = append(script, Op{K: "badchain", M: mAuthor, A: 1, B: b, V: 1})
	}
	// operations that must fail, with the database's error
	bad := map[string]string{
		"badraw(Gadget 1 v1)":   "err=no such table: c07_missing_1",
		"badtable(Gadget 1 v2)": "err=no such table: c07_absent_2",
		"badexec(Gadget 1)":     "err=no such table: c07_gone_0",
		"badcol(Gadget 1 v1)":   "err=no such column: no_such_column_1",
	}
	script = append(script, Op{K: "badraw", M: mGadget, A: 1, V: 1}, Op{K: "badtable", M: mGadget, A: 1, V: 2}, Op{K: "badexec", M: mGadget, A: 1}, Op{K: "badcol", M: mGadget, A: 1, V: 1})
	// the clause-carrying handle: every use works alone and what a chain adds decides its result
	carried := []Op{}
	for b := range carriedUses {
		carried = append(carried, Op{K: "carried", M: mAuthor, A: 1, B: b, V: 0}, Op{K: "carried", M: mAuthor, A: 2, B: b, V: 1})
	}
	kc := Case{G: 1, Warm: "parse", Carry: &Carried{M: mAuthor, Orders: 5, Wheres: 2, Select: true, Joins: true, Preload: true}, Programs: [][]Op{carried}}
	res := runSerial(&kc).results[0]
	for i, r := range res {
		if !strings.HasPrefix(r, "ok ra=") || strings.HasPrefix(r, "ok ra=0") {
			t.Errorf("harness: %s on the carrying handle does not work alone: %s", carried[i], r)
		}
	}
	if asc, desc := res[0], res[1]; strings.Index(asc, "Author{101") > strings.Index(asc, "Author{102") || strings.Index(desc, "Author{101") < strings.Index(desc, "Author{102") {
		t.Errorf("harness: the ordering a chain adds to the carrying handle does not decide the result: %q / %q", asc, desc)
	}
	for _, cfg := range []Case{{G: 1, Warm: "cold"}, {G: 1, Warm: "query", Prepare: true, SkipTx: true}, {G: 1, Warm: "one", WarmOne: mTag, Sess: "call"}, {G: 1, Warm: "parse", Sess: "goroutine", SkipTx: true},
		{G: 1, Warm: "cold", Cfg: []string{"queryfields", "batchsize", "fullsave", "translate", "propagate", "logger", "replacer", "plugin"}, Root: "cond"},
		{G: 1, Warm: "cold", Cfg: []string{"noreturning", "logger"}, Root: "ctx", Prepare: true}} {
		c := cfg
		c.Programs = [][]Op{script}
		first := runSerial(&c)
		for i, r := range first.results[0] {
			if script[i].K == "badchain" {
				if !strings.HasPrefix(r, "err=") {
					t.Errorf("harness: %s must fail: %s", script[i], r)
				}
				continue
			}
			if script[i].K == "badval" {
				if !strings.HasPrefix(r, "err=CHECK constraint failed") {
					t.Errorf("harness: %s must be refused by the CHECK constraint: %s", script[i], r)
				}
				continue
			}
			if script[i].K == "loop" {
				want := fmt.Sprintf("ok loop updated=%d failed=0", loopN)
				if script[i].B == 1 {
					want = fmt.Sprintf("ok loop updated=0 failed=%d first error at #0: CHECK constraint failed", loopN)
				}
				if !strings.HasPrefix(r, want) {
					t.Errorf("harness: %s returned %q, want %q", script[i], r, want)
				}
				continue
			}
			if want, isBad := bad[script[i].String()]; isBad || strings.HasPrefix(script[i].K, "bad") {
				if !isBad || !strings.HasPrefix(r, want) {
					t.Errorf("harness: operation %s must fail with %q (prepare=%v): %s", script[i], want, c.Prepare, r)
				}
				continue
			}
			if !strings.HasPrefix(r, "ok") && !strings.HasPrefix(r, "tx ok") && !strings.HasPrefix(r, "conn ok") && !(strings.HasPrefix(r, "mtx {ok") && strings.HasSuffix(r, "commit ok")) {
				t.Errorf("harness: operation %s does not work alone (prepare=%v): %s", script[i], c.Prepare, r)
			}
		}
		if !strings.Contains(first.results[0][9], "reviews=[Review{") || !strings.Contains(first.results[0][13], "company=Company{") {
			t.Errorf("harness: preload / joins results carry no related rows: %q / %q", first.results[0][9], first.results[0][13])
		}
		// (3) the reference is reproducible
		second := runSerial(&c)
		if d := compare(&c, first, second); d != "" {
			t.Errorf("harness: two serial runs of one program differ:\n%s", d)
		}
		depotPreload := 0
		for i, o := range script {
			if o.K == "preload" && o.M == mDepot {
				depotPreload = i
			}
		}
		if r := first.results[0][depotPreload]; !strings.Contains(r, "parcels=[Parcel{") {
			t.Errorf("harness: Preload(Parcels) carries no parcels: %q", r)
		}
		for i, o := range script {
			r := first.results[0][i]
			if o.K == "preload" && o.M == mBand && !strings.Contains(r, "songs=[Song{") {
				t.Errorf("harness: Preload(Songs) carries no songs: %q", r)
			}
			if o.K == "first" && o.M == mWidget && o.A == 5 && !strings.Contains(r, `secret="s105-7"`) {
				t.Errorf("harness: the Cipher field does not round-trip: %q", r)
			}
		}
		if first.handleErr != "" {
			t.Errorf("harness: a shared handle carries an error after a serial run on the unchanged tree: %s", first.handleErr)
		}
		if len(first.rows) < 10 {
			t.Errorf("harness: final dump holds only %d rows", len(first.rows))
		}
	}
}

func columnsOf(createSQL string) string {
	i := strings.Index(createSQL, "(")
	s := createSQL[:i]
	for _, part := range strings.Split(createSQL[i+1:], ",") {
		part = strings.TrimSpace(part)
		if strings.HasPrefix(part, "`") {
			f := strings.Fields(part)
			if len(f) >= 2 {
				s += " " + f[0] + ":" + strings.TrimRight(f[1], ")")
			}
		}
	}
	return s
}

func keysOf(m map[string]bool) []string {
	var out []string
	for k := range m {
		out = append(out, k)
	}
	return sortedStrings(out)
}
