//go:build race

package c07

import "runtime"

// raceEnabled: the binary carries the race detector (the driver builds C07 with -race).
const raceEnabled = true

// raceReports is the number of data race reports printed by this process so far.
func raceReports() int { return runtime.RaceErrors() }
