//go:build !race

package c07

const raceEnabled = false

func raceReports() int { return 0 }
