package c07

import (
	"context"
	"database/sql"
	"fmt"
	"runtime"
	"strings"
	"sync"
	"testing"
	"time"

	"gorm.io/gorm"
	"gorm.io/gorm/logger"

	"verif/internal/vdialect"
)

// TestC07WitnessColdRelatedFirstUse: the listed finding cold-related-first-use. Twelve goroutines
// make their first call on a cold handle, each on one of the related model types (Create or
// Find on rows of their own), for 50 fresh handles. Every call succeeds and returns what it
// returns alone, but the race detector reports unsynchronised accesses inside
// schema.(*Schema).guessRelation / parseRelation / setRelation / ParseWithSpecialTableName: a schema is
// stored in the cache before its relations are parsed (schema.go, LoadOrStore), the nested
// getOrParse of another goroutine's parse takes it from the cache without waiting for
// `initialized`, reads it and writes into its fields (foreign key DataType/GORMDataType/Size,
// Relationships.Relations) while the owner is still parsing or already using it.
// The test asserts the property (no race report), so it fails while the defect exists. It needs
// the race detector (the driver builds C07 with -race).
func TestC07WitnessColdRelatedFirstUse(t *testing.T) {
	if !raceEnabled {
		t.Log("built without -race: only the results of the calls are checked")
	}
	before := raceReports()
	c := &Case{G: 12, Warm: "cold"}
	// a second handle, fully parsed and used by one goroutine at a time, says what a Find returns alone
	ref := openCase(c)
	defer ref.Close()
	ref.warm(&Case{Warm: "parse"})
	var refMu sync.Mutex
	for round := 0; round < 50; round++ {
		c.SkipTx = round%2 == 0
		d := openCase(c)
		start := make(chan struct{})
		errs := make([]string, c.G)
		var wg sync.WaitGroup
		for g := 0; g < c.G; g++ {
			wg.Add(1)
			go func(g int) {
				defer wg.Done()
				defer func() {
					if p := recover(); p != nil {
						errs[g] = fmt.Sprintf("panic: %v", p)
					}
				}()
				<-start
				m := (g + round) % 6 // Company, Author, Profile, Book, Review, Tag
				var res, want string
				if g%2 == 0 {
					v := build(m, g, 3, 0, 1)
					want = "ok ra=1 " + render(v)
					res = exec(d.DB, g, Op{K: "create", M: m, A: 3, V: 1})
				} else {
					refMu.Lock()
					want = exec(ref.DB, g, Op{K: "find", M: m})
					refMu.Unlock()
					res = exec(d.DB, g, Op{K: "find", M: m})
				}
				if res != want {
					errs[g] = fmt.Sprintf("first %s returned %q, alone it returns %q", modelNames[m], res, want)
				}
			}(g)
		}
		close(start)
		waitOrDeadlock(c, &wg, d)
		d.Close()
		for g, e := range errs {
			if e != "" {
				t.Errorf("C07 violated: round %d goroutine %d: %s", round, g, e)
			}
		}
	}
	if n := raceReports() - before; n > 0 {
		t.Fatalf("C07 violated: %d data race report(s) during the concurrent first use of related model types on cold handles (12 goroutines x 50 handles; reports on stderr)", n)
	}
}

// signalPool tells the test when a pool-level PrepareContext is entered (the cache entry of that
// text is published by then) and then does what *sql.DB does.
type signalPool struct {
	*sql.DB
	entered chan string
}

func (p *signalPool) PrepareContext(ctx context.Context, q string) (*sql.Stmt, error) {
	select {
	case p.entered <- q:
	default:
	}
	return p.DB.PrepareContext(ctx, q)
}

func (p *signalPool) GetDBConn() (*sql.DB, error) { return p.DB, nil }

// TestC07WitnessPrepareStmtBoundedPool: the listed finding preparestmt-bounded-pool. With
// Config.PrepareStmt and a pool bounded by SetMaxOpenConns(1), goroutine A is inside
// db.Transaction (it holds the connection) while goroutine B calls db.Where("id = ?", 7).Find(&g)
// through the same handle: B publishes the in-progress cache entry of the text and waits for a
// connection (PreparedStmtDB.prepare -> sql.DB.PrepareContext); A then runs the same query on its
// tx handle, finds B's entry and waits for B's preparation (<-stmt.prepared): neither returns.
// Alone, each call returns at once. The test gives them 5 s and then cancels B's context to end
// both goroutines.
func TestC07WitnessPrepareStmtBoundedPool(t *testing.T) {
	mem := openMem(1, 2)
	defer mem.Close()
	for _, q := range ddl {
		if _, err := mem.SQL.Exec(q); err != nil {
			t.Fatalf("harness: %v", err)
		}
	}
	pool := &signalPool{DB: mem.SQL, entered: make(chan string, 16)}
	db, err := gorm.Open(vdialect.NewSQLite(pool, false), &gorm.Config{PrepareStmt: true, Logger: logger.Discard})
	if err != nil {
		t.Fatalf("harness: %v", err)
	}
	ctx, cancel := context.WithCancel(context.Background())
	defer cancel()
	inTx, bWaits := make(chan struct{}), make(chan struct{})
	aDone, bDone := make(chan error, 1), make(chan error, 1)
	go func() {
		aDone <- db.Transaction(func(tx *gorm.DB) error {
			close(inTx)
			<-bWaits // B has published its cache entry and asks the pool for a connection
			var g Gadget
			return tx.Where("id = ?", 7).Find(&g).Error
		})
	}()
	<-inTx
	for len(pool.entered) > 0 {
		<-pool.entered
	}
	go func() {
		var g Gadget
		bDone <- db.WithContext(ctx).Where("id = ?", 7).Find(&g).Error
	}()
	<-pool.entered
	close(bWaits)
	select {
	case err := <-aDone:
		if err != nil {
			t.Errorf("C07 violated: the query inside the transaction block returned %v", err)
		}
		if err := <-bDone; err != nil {
			t.Errorf("C07 violated: the query outside the block returned %v", err)
		}
	case <-time.After(5 * time.Second):
		cancel() // B's wait for a connection ends, B closes its entry, A continues
		eb, ea := <-bDone, <-aDone
		t.Fatalf("C07 violated: deadlock - with PrepareStmt and SetMaxOpenConns(1) neither the Find inside db.Transaction nor the same Find outside it returned within 5s (after cancelling the outer call's context: outer=%v, block=%v)", eb, ea)
	}
}

// TestC07WitnessOwnerFirstUseTargetInUse: the listed finding owner-first-use-target-in-use. Depot
// (and with it Parcel, the target of its has-many relation) is parsed and used before the barrier.
// Then three goroutines append parcels to depots of their own through association mode
// (db.Model(&depot).Association("Parcels").Append(&parcels)) while three others make their first
// call - a Find - on Courier, Customs and Sorter, the other types that have a has-many / has-one
// relation to Parcel; 50 fresh handles. Every call returns what it returns alone, but the parse of
// an owner type writes the reverse relation "_Courier_Parcels" into Parcel's
// Relationships.Relations map (schema.(*Schema).parseRelation, relationship.go:106, under a mutex
// that no reader takes) while the nested save of the appended parcels, which runs with
// Omit(clause.Associations), iterates that map (Statement.SelectAndOmitColumns, statement.go:718):
// a data race that the runtime may end with "fatal error: concurrent map iteration and map
// write". The test asserts the property (no race report), so it fails while the defect exists; it
// needs the race detector.
func TestC07WitnessOwnerFirstUseTargetInUse(t *testing.T) {
	if !raceEnabled {
		t.Log("built without -race: only the results of the calls are checked")
	}
	before := raceReports()
	c := &Case{G: 6, Warm: "one", WarmOne: mDepot}
	for round := 0; round < 50; round++ {
		c.SkipTx = round%2 == 0
		d := openCase(c)
		d.warm(c)
		if res := exec(d.DB, 0, Op{K: "find", M: mParcel}); !strings.HasPrefix(res, "ok ra=2") {
			t.Fatalf("harness: Find on Parcel before the barrier: %s", res)
		}
		start := make(chan struct{})
		errs := make([]string, c.G)
		var wg sync.WaitGroup
		for g := 0; g < c.G; g++ {
			wg.Add(1)
			go func(g int) {
				defer wg.Done()
				defer func() {
					if p := recover(); p != nil {
						errs[g] = fmt.Sprintf("panic: %v", p)
					}
				}()
				<-start
				if g%2 == 0 {
					for k := 3; k <= 6; k++ {
						if res := exec(d.DB, g, Op{K: "aappend", M: mDepot, A: 1, B: k, V: k, R: "Parcels"}); !strings.HasPrefix(res, "ok owner=Depot{") {
							errs[g] = fmt.Sprintf("Association(Parcels).Append returned %q", res)
						}
					}
					return
				}
				m := []int{mCourier, mCustoms, mSorter}[(g/2+round)%3]
				want := fmt.Sprintf("ok ra=2 [%s %s]", render(seedOwner(m, g, 1)), render(seedOwner(m, g, 2)))
				if res := exec(d.DB, g, Op{K: "find", M: m}); res != want {
					errs[g] = fmt.Sprintf("first Find on %s returned %q, alone it returns %q", modelNames[m], res, want)
				}
			}(g)
		}
		close(start)
		waitOrDeadlock(c, &wg, d)
		d.Close()
		for g, e := range errs {
			if e != "" {
				t.Errorf("C07 violated: round %d goroutine %d: %s", round, g, e)
			}
		}
	}
	if n := raceReports() - before; n > 0 {
		t.Fatalf("C07 violated: %d data race report(s) while owner types of an already used target type were used for the first time and rows of the target type were appended through association mode (6 goroutines x 50 handles; reports on stderr)", n)
	}
}

// seedOwner: the seeded row k (1 or 2) of goroutine g in an owner table.
func seedOwner(m, g, k int) interface{} {
	v := build(m, g, k, 0, 0)
	name := fmt.Sprintf("seed%d", k)
	switch x := v.(type) {
	case *Depot:
		x.Name = name
	case *Courier:
		x.Name = name
	case *Customs:
		x.Name = name
	case *Sorter:
		x.Name = name
	}
	return v
}

// waitOrDeadlock waits for the witness's goroutines under the same watchdog as the generated cases:
// a deadlock ends the process with a failure instead of hanging the test.
func waitOrDeadlock(c *Case, wg *sync.WaitGroup, d *caseDB) {
	done := make(chan struct{})
	go func() { wg.Wait(); close(done) }()
	if st := supervise(c, "witness", done, func() { _ = d.mem.SQL.Close() }); st != "" {
		fmt.Println("C07 violated: witness goroutines were blocked and ended only after the pool was closed\n" + st)
	}
}

// TestC07WitnessOwnerFirstUseTargetWrite: the listed finding owner-first-use-target-written. Parcel
// has a field without a column (`gorm:"-:all"`). Depot and Parcel are parsed and used before the
// barrier. Then three goroutines create Parcel rows of their own (plain db.Create) while three others
// make their first call - a Find - on Courier, Customs and Sorter; 120 fresh handles. Every call
// returns what it returns alone, but every create/update/delete of a model looks the name of each of
// its fields without a column up in the model's Relationships.Relations map
// (Statement.SelectAndOmitColumns, statement.go:753, no lock) while the parse of an owner type writes
// the reverse relation into that map (schema.(*Schema).parseRelation, relationship.go:106): a data
// race. The test asserts the property (no race report), so it fails while the defect exists.
func TestC07WitnessOwnerFirstUseTargetWrite(t *testing.T) {
	if !raceEnabled {
		t.Log("built without -race: only the results of the calls are checked")
	}
	before := raceReports()
	c := &Case{G: 6, Warm: "one", WarmOne: mDepot}
	for round := 0; round < 120; round++ {
		c.SkipTx = round%2 == 0
		d := openCase(c)
		d.warm(c)
		start := make(chan struct{})
		errs := make([]string, c.G)
		var wg sync.WaitGroup
		for g := 0; g < c.G; g++ {
			wg.Add(1)
			go func(g int) {
				defer wg.Done()
				defer func() {
					if p := recover(); p != nil {
						errs[g] = fmt.Sprintf("panic: %v", p)
					}
				}()
				<-start
				if g%2 == 0 {
					for k := 3; k <= 6; k++ {
						want := "ok ra=1 " + render(build(mParcel, g, k, 0, k))
						if res := exec(d.DB, g, Op{K: "create", M: mParcel, A: k, V: k}); res != want {
							errs[g] = fmt.Sprintf("create Parcel returned %q, alone it returns %q", res, want)
						}
					}
					return
				}
				for i := 0; i < round%4; i++ {
					runtime.Gosched() // vary which side comes first
				}
				m := []int{mCourier, mCustoms, mSorter}[(g/2+round)%3]
				want := fmt.Sprintf("ok ra=2 [%s %s]", render(seedOwner(m, g, 1)), render(seedOwner(m, g, 2)))
				if res := exec(d.DB, g, Op{K: "find", M: m}); res != want {
					errs[g] = fmt.Sprintf("first Find on %s returned %q, alone it returns %q", modelNames[m], res, want)
				}
			}(g)
		}
		close(start)
		waitOrDeadlock(c, &wg, d)
		d.Close()
		for g, e := range errs {
			if e != "" {
				t.Errorf("C07 violated: round %d goroutine %d: %s", round, g, e)
			}
		}
	}
	if n := raceReports() - before; n > 0 {
		t.Fatalf("C07 violated: %d data race report(s) while owner types of an already used target type were used for the first time and rows of the target type (which has a field without a column) were created (6 goroutines x 120 handles; reports on stderr)", n)
	}
}
