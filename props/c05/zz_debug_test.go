package c05

import (
	"fmt"
	"testing"
)

func TestZZDebug(t *testing.T) {
	c := Case{Op: Op{Kind: kCreate, Plugin: true, Owners: []OwnerSpec{{Name: "a", Val: 1}}}}
	base, _ := materialize(c.Init)
	r := runOnce(base, c.Op, fault{})
	for _, h := range r.hooks {
		fmt.Println(h.name, "driver calls before:", h.drvBefore, "of", r.faultable)
	}
}
