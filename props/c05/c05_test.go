// C05 — each single write operation is all-or-nothing under any failure and
// reports it. See DESIGN.md §3 C05.
//
// For every generated operation the check first runs it fault-free on a fresh
// database built from the generated initial content (learning its N faultable
// driver calls and H hook invocations), then ENUMERATES: for every k < N the
// identical database is rebuilt and the k-th driver call fails; for every
// h < H the h-th hook invocation returns an error. Every faulted run must
// report the injected error, leave every table exactly as it was, and leave no
// transaction open and no connection checked out.
package c05

import (
	"context"
	"database/sql"
	"database/sql/driver"
	"encoding/json"
	"errors"
	"fmt"
	"io"
	"os"
	"sort"
	"strings"
	"sync"
	"testing"
	"time"

	"gorm.io/gorm"
	"gorm.io/gorm/clause"
	"gorm.io/gorm/logger"
	"pgregory.net/rapid"

	"verif/internal/evid"
	"verif/internal/harness"
	"verif/internal/recdrv"
	"verif/internal/testdb"
)

func TestMain(m *testing.M) { harness.Main(m) }

// ---- models ------------------------------------------------------------------------------------
//
//	Owner -belongs to-> Company -belongs to-> Region
//	Owner -has one->    Profile
//	Owner -has many->   Item -has many-> Part
//	Owner -many2many->  Tag            (join table owner_tags)
//	Owner -has many (polymorphic)-> Note (soft-deletable)
//
// Every model carries all eight write hooks; each consults the per-run plan.

type Region struct {
	ID   uint `gorm:"primaryKey"`
	Name string
}

type Company struct {
	ID       uint `gorm:"primaryKey"`
	Name     string
	RegionID *uint
	Region   Region // belongs-to held by value (skipped while zero)
}

type Profile struct {
	ID      uint `gorm:"primaryKey"`
	OwnerID uint
	Bio     string
}

type Part struct {
	ID     uint `gorm:"primaryKey"`
	ItemID uint
	Name   string
}

type Item struct {
	ID      uint `gorm:"primaryKey"`
	OwnerID uint
	Name    string
	Qty     int
	Parts   []*Part // has-many of pointers
}

type Tag struct {
	ID     uint `gorm:"primaryKey"`
	Name   string
	Owners []*Owner `gorm:"many2many:owner_tags"` // back-reference: an owner's tag may point back to it (cycle)
}

// Badge: polymorphic has-one held by value.
type Badge struct {
	ID          uint `gorm:"primaryKey"`
	SubjectID   uint
	SubjectType string
	Label       string
}

// OwnerTag is the join model cases may install with SetupJoinTable (it has
// hooks, the generated join model has none); its table always exists.
type OwnerTag struct {
	OwnerID uint `gorm:"primaryKey"`
	TagID   uint `gorm:"primaryKey"`
	Note    string
}

type Note struct {
	ID          uint `gorm:"primaryKey"`
	SubjectID   uint
	SubjectType string
	Text        string
	DeletedAt   gorm.DeletedAt
}

type Owner struct {
	ID        uint `gorm:"primaryKey"`
	Name      string
	Val       int
	UpdatedAt time.Time
	Code      *string `gorm:"uniqueIndex"` // NULL or unique: a natural way for an INSERT/UPDATE to fail
	CompanyID *uint
	Company   *Company
	Profile   *Profile
	Items     []Item
	Tags      []*Tag `gorm:"many2many:owner_tags"`
	Notes     []Note `gorm:"polymorphic:Subject"`
	Badge     Badge  `gorm:"polymorphic:Subject"`
}

// PlainOwner is the hook-less twin of Owner: same table, same relations, no
// hook methods at all (gorm may treat a model without hooks differently; the
// associations its records carry are saved all the same).
type PlainOwner struct {
	ID        uint `gorm:"primaryKey"`
	Name      string
	Val       int
	UpdatedAt time.Time
	Code      *string
	CompanyID *uint
	Company   *Company
	Profile   *Profile `gorm:"foreignKey:OwnerID"`
	Items     []Item   `gorm:"foreignKey:OwnerID"`
	Tags      []*Tag   `gorm:"many2many:owner_tags;joinForeignKey:OwnerID;joinReferences:TagID"`
	Notes     []Note   `gorm:"polymorphic:Subject;polymorphicValue:owners"`
	Badge     Badge    `gorm:"polymorphic:Subject;polymorphicValue:owners"`
}

func (PlainOwner) TableName() string { return "owners" }

// Audit rows are written by the hooks of Owner when the case asks for it
// (writes made by a hook through the handle it is given belong to the operation).
type Audit struct {
	ID  uint   `gorm:"primaryKey"`
	Msg string `gorm:"uniqueIndex"` // every hook invocation writes its own messages; a repeated one fails by itself
}

var allModels = []interface{}{&Region{}, &Company{}, &Owner{}, &Profile{}, &Item{}, &Part{}, &Tag{}, &Note{}, &Badge{}, &Audit{}}

// tables in dump order with their ORDER BY.
var tables = []struct{ name, order string }{
	{"regions", "id"}, {"companies", "id"}, {"owners", "id"}, {"profiles", "id"}, {"items", "id"},
	{"parts", "id"}, {"tags", "id"}, {"notes", "id"}, {"badges", "id"}, {"owner_tags", "owner_id, tag_id"}, {"audits", "id"},
}

// ---- hook plan ---------------------------------------------------------------------------------

var errHook = errors.New("c05: injected hook error")

type hookCall struct {
	name      string
	drvBefore int // faultable driver calls made before this invocation
}

type hookPlan struct {
	n        int
	failAt   int // -1: no hook fails
	cancelAt int // -1: no hook cancels the context of the operation
	cancel   context.CancelFunc
	auditVia string // "" = tx.Exec, "session" = Create through a NewDB+SkipDefaultTransaction session of tx,
	// "batches" = tx.CreateInBatches(3 rows, 2), "transaction" = tx.Transaction(func: 3 Creates): blocks of their own
	audit     bool
	auditFail string // "natural": the block of an After* hook repeats its first message in its last row (fails in its second part)
	swallow   bool   // the hook tolerates a failed audit block (returns nil)
	blocks    []blockCall
	swallowed int
	leaked    bool // a transaction was still open when the operation returned inside db.Connection
	rec       *recdrv.Recorder
	log       []hookCall
	fired     bool
}

// blockCall is one write block (CreateInBatches / Transaction) issued by a hook.
type blockCall struct {
	hook int   // hook invocation index (its rows carry the prefix "h<hook>:")
	err  error // what the block reported to the hook
}

const blockRows = 3

// plan is the plan of the run in progress (nil while templates are built).
var plan *hookPlan

func hook(tx *gorm.DB, model, name string) error {
	p := plan
	if p == nil {
		return nil
	}
	i := p.n
	p.n++
	p.log = append(p.log, hookCall{model + "." + name, p.rec.Faultable()})
	if i == p.failAt {
		p.fired = true
		return errHook
	}
	if i == p.cancelAt {
		// the context of the operation ends while the hook is busy; the hook
		// itself succeeds. database/sql rolls the transaction back in the
		// background: wait until it has done so, so that the outcome does not
		// depend on scheduling.
		p.fired = true
		p.cancel()
		for w := 0; w < 500000 && p.rec.OpenTx() != 0; w++ {
			time.Sleep(20 * time.Microsecond)
		}
		return nil
	}
	if p.audit && model == "Owner" {
		tag := fmt.Sprintf("h%d:%s.%s", i, model, name)
		switch p.auditVia {
		case "session":
			// a clean session of the handle the hook got, without a transaction
			// of its own (the hook already runs inside the operation's)
			if err := tx.Session(&gorm.Session{NewDB: true, SkipDefaultTransaction: true}).Create(&Audit{Msg: tag}).Error; err != nil {
				return err
			}
		case "batches", "transaction":
			// a write block of its own, nested in the operation's transaction: it
			// is all-or-nothing by itself (SAVEPOINT), whatever the hook then
			// does with its error
			rows := make([]Audit, blockRows)
			for j := range rows {
				rows[j].Msg = fmt.Sprintf("%s#%d", tag, j+1)
			}
			if p.auditFail == "natural" && strings.HasPrefix(name, "After") {
				rows[blockRows-1].Msg = rows[0].Msg
			}
			var err error
			if p.auditVia == "batches" {
				err = tx.CreateInBatches(&rows, 2).Error
			} else {
				err = tx.Transaction(func(tx2 *gorm.DB) error {
					for j := range rows {
						if e := tx2.Create(&rows[j]).Error; e != nil {
							return e
						}
					}
					return nil
				})
			}
			p.blocks = append(p.blocks, blockCall{i, err})
			if err != nil {
				if !p.swallow {
					return err
				}
				p.swallowed++
			}
		default:
			if err := tx.Exec("INSERT INTO audits (msg) VALUES (?)", tag).Error; err != nil {
				return err
			}
		}
	}
	return nil
}

func (*Region) BeforeSave(tx *gorm.DB) error    { return hook(tx, "Region", "BeforeSave") }
func (*Region) BeforeCreate(tx *gorm.DB) error  { return hook(tx, "Region", "BeforeCreate") }
func (*Region) AfterCreate(tx *gorm.DB) error   { return hook(tx, "Region", "AfterCreate") }
func (*Region) BeforeUpdate(tx *gorm.DB) error  { return hook(tx, "Region", "BeforeUpdate") }
func (*Region) AfterUpdate(tx *gorm.DB) error   { return hook(tx, "Region", "AfterUpdate") }
func (*Region) AfterSave(tx *gorm.DB) error     { return hook(tx, "Region", "AfterSave") }
func (*Region) BeforeDelete(tx *gorm.DB) error  { return hook(tx, "Region", "BeforeDelete") }
func (*Region) AfterDelete(tx *gorm.DB) error   { return hook(tx, "Region", "AfterDelete") }
func (*Company) BeforeSave(tx *gorm.DB) error   { return hook(tx, "Company", "BeforeSave") }
func (*Company) BeforeCreate(tx *gorm.DB) error { return hook(tx, "Company", "BeforeCreate") }
func (*Company) AfterCreate(tx *gorm.DB) error  { return hook(tx, "Company", "AfterCreate") }
func (*Company) BeforeUpdate(tx *gorm.DB) error { return hook(tx, "Company", "BeforeUpdate") }
func (*Company) AfterUpdate(tx *gorm.DB) error  { return hook(tx, "Company", "AfterUpdate") }
func (*Company) AfterSave(tx *gorm.DB) error    { return hook(tx, "Company", "AfterSave") }
func (*Company) BeforeDelete(tx *gorm.DB) error { return hook(tx, "Company", "BeforeDelete") }
func (*Company) AfterDelete(tx *gorm.DB) error  { return hook(tx, "Company", "AfterDelete") }
func (*Profile) BeforeSave(tx *gorm.DB) error   { return hook(tx, "Profile", "BeforeSave") }
func (*Profile) BeforeCreate(tx *gorm.DB) error { return hook(tx, "Profile", "BeforeCreate") }
func (*Profile) AfterCreate(tx *gorm.DB) error  { return hook(tx, "Profile", "AfterCreate") }
func (*Profile) BeforeUpdate(tx *gorm.DB) error { return hook(tx, "Profile", "BeforeUpdate") }
func (*Profile) AfterUpdate(tx *gorm.DB) error  { return hook(tx, "Profile", "AfterUpdate") }
func (*Profile) AfterSave(tx *gorm.DB) error    { return hook(tx, "Profile", "AfterSave") }
func (*Profile) BeforeDelete(tx *gorm.DB) error { return hook(tx, "Profile", "BeforeDelete") }
func (*Profile) AfterDelete(tx *gorm.DB) error  { return hook(tx, "Profile", "AfterDelete") }
func (*Part) BeforeSave(tx *gorm.DB) error      { return hook(tx, "Part", "BeforeSave") }
func (*Part) BeforeCreate(tx *gorm.DB) error    { return hook(tx, "Part", "BeforeCreate") }
func (*Part) AfterCreate(tx *gorm.DB) error     { return hook(tx, "Part", "AfterCreate") }
func (*Part) BeforeUpdate(tx *gorm.DB) error    { return hook(tx, "Part", "BeforeUpdate") }
func (*Part) AfterUpdate(tx *gorm.DB) error     { return hook(tx, "Part", "AfterUpdate") }
func (*Part) AfterSave(tx *gorm.DB) error       { return hook(tx, "Part", "AfterSave") }
func (*Part) BeforeDelete(tx *gorm.DB) error    { return hook(tx, "Part", "BeforeDelete") }
func (*Part) AfterDelete(tx *gorm.DB) error     { return hook(tx, "Part", "AfterDelete") }
func (*Item) BeforeSave(tx *gorm.DB) error      { return hook(tx, "Item", "BeforeSave") }
func (*Item) BeforeCreate(tx *gorm.DB) error    { return hook(tx, "Item", "BeforeCreate") }
func (*Item) AfterCreate(tx *gorm.DB) error     { return hook(tx, "Item", "AfterCreate") }
func (*Item) BeforeUpdate(tx *gorm.DB) error    { return hook(tx, "Item", "BeforeUpdate") }
func (*Item) AfterUpdate(tx *gorm.DB) error     { return hook(tx, "Item", "AfterUpdate") }
func (*Item) AfterSave(tx *gorm.DB) error       { return hook(tx, "Item", "AfterSave") }
func (*Item) BeforeDelete(tx *gorm.DB) error    { return hook(tx, "Item", "BeforeDelete") }
func (*Item) AfterDelete(tx *gorm.DB) error     { return hook(tx, "Item", "AfterDelete") }
func (*Tag) BeforeSave(tx *gorm.DB) error       { return hook(tx, "Tag", "BeforeSave") }
func (*Tag) BeforeCreate(tx *gorm.DB) error     { return hook(tx, "Tag", "BeforeCreate") }
func (*Tag) AfterCreate(tx *gorm.DB) error      { return hook(tx, "Tag", "AfterCreate") }
func (*Tag) BeforeUpdate(tx *gorm.DB) error     { return hook(tx, "Tag", "BeforeUpdate") }
func (*Tag) AfterUpdate(tx *gorm.DB) error      { return hook(tx, "Tag", "AfterUpdate") }
func (*Tag) AfterSave(tx *gorm.DB) error        { return hook(tx, "Tag", "AfterSave") }
func (*Tag) BeforeDelete(tx *gorm.DB) error     { return hook(tx, "Tag", "BeforeDelete") }
func (*Tag) AfterDelete(tx *gorm.DB) error      { return hook(tx, "Tag", "AfterDelete") }
func (*Note) BeforeSave(tx *gorm.DB) error      { return hook(tx, "Note", "BeforeSave") }
func (*Note) BeforeCreate(tx *gorm.DB) error    { return hook(tx, "Note", "BeforeCreate") }
func (*Note) AfterCreate(tx *gorm.DB) error     { return hook(tx, "Note", "AfterCreate") }
func (*Note) BeforeUpdate(tx *gorm.DB) error    { return hook(tx, "Note", "BeforeUpdate") }
func (*Note) AfterUpdate(tx *gorm.DB) error     { return hook(tx, "Note", "AfterUpdate") }
func (*Note) AfterSave(tx *gorm.DB) error       { return hook(tx, "Note", "AfterSave") }
func (*Note) BeforeDelete(tx *gorm.DB) error    { return hook(tx, "Note", "BeforeDelete") }
func (*Note) AfterDelete(tx *gorm.DB) error     { return hook(tx, "Note", "AfterDelete") }
func (*Owner) BeforeSave(tx *gorm.DB) error     { return hook(tx, "Owner", "BeforeSave") }
func (*Owner) BeforeCreate(tx *gorm.DB) error   { return hook(tx, "Owner", "BeforeCreate") }
func (*Owner) AfterCreate(tx *gorm.DB) error    { return hook(tx, "Owner", "AfterCreate") }
func (*Owner) BeforeUpdate(tx *gorm.DB) error   { return hook(tx, "Owner", "BeforeUpdate") }
func (*Owner) AfterUpdate(tx *gorm.DB) error    { return hook(tx, "Owner", "AfterUpdate") }
func (*Owner) AfterSave(tx *gorm.DB) error      { return hook(tx, "Owner", "AfterSave") }
func (*Owner) BeforeDelete(tx *gorm.DB) error   { return hook(tx, "Owner", "BeforeDelete") }
func (*Owner) AfterDelete(tx *gorm.DB) error    { return hook(tx, "Owner", "AfterDelete") }

func (*Badge) BeforeSave(tx *gorm.DB) error      { return hook(tx, "Badge", "BeforeSave") }
func (*Badge) BeforeCreate(tx *gorm.DB) error    { return hook(tx, "Badge", "BeforeCreate") }
func (*Badge) AfterCreate(tx *gorm.DB) error     { return hook(tx, "Badge", "AfterCreate") }
func (*Badge) BeforeUpdate(tx *gorm.DB) error    { return hook(tx, "Badge", "BeforeUpdate") }
func (*Badge) AfterUpdate(tx *gorm.DB) error     { return hook(tx, "Badge", "AfterUpdate") }
func (*Badge) AfterSave(tx *gorm.DB) error       { return hook(tx, "Badge", "AfterSave") }
func (*Badge) BeforeDelete(tx *gorm.DB) error    { return hook(tx, "Badge", "BeforeDelete") }
func (*Badge) AfterDelete(tx *gorm.DB) error     { return hook(tx, "Badge", "AfterDelete") }
func (*OwnerTag) BeforeSave(tx *gorm.DB) error   { return hook(tx, "OwnerTag", "BeforeSave") }
func (*OwnerTag) BeforeCreate(tx *gorm.DB) error { return hook(tx, "OwnerTag", "BeforeCreate") }
func (*OwnerTag) AfterCreate(tx *gorm.DB) error  { return hook(tx, "OwnerTag", "AfterCreate") }
func (*OwnerTag) BeforeUpdate(tx *gorm.DB) error { return hook(tx, "OwnerTag", "BeforeUpdate") }
func (*OwnerTag) AfterUpdate(tx *gorm.DB) error  { return hook(tx, "OwnerTag", "AfterUpdate") }
func (*OwnerTag) AfterSave(tx *gorm.DB) error    { return hook(tx, "OwnerTag", "AfterSave") }
func (*OwnerTag) BeforeDelete(tx *gorm.DB) error { return hook(tx, "OwnerTag", "BeforeDelete") }
func (*OwnerTag) AfterDelete(tx *gorm.DB) error  { return hook(tx, "OwnerTag", "AfterDelete") }

// ---- record graph specifications (plain data; a fresh struct graph is built from them per run) ---

type RegionSpec struct {
	ID   uint   `json:"id"`
	Name string `json:"n"`
}

type CompanySpec struct {
	ID     uint        `json:"id"`
	Name   string      `json:"n"`
	Region *RegionSpec `json:"region,omitempty"`
}

type ProfileSpec struct {
	ID  uint   `json:"id"`
	Bio string `json:"n"`
}

type PartSpec struct {
	ID   uint   `json:"id"`
	Name string `json:"n"`
}

type ItemSpec struct {
	ID    uint       `json:"id"`
	Name  string     `json:"n"`
	Qty   int        `json:"q"`
	Parts []PartSpec `json:"parts,omitempty"`
}

type TagSpec struct {
	ID      uint   `json:"id"`
	Name    string `json:"n"`
	BackRef bool   `json:"backref,omitempty"` // tag.Owners = [the owner holding the tag]
}

type NoteSpec struct {
	ID   uint   `json:"id"`
	Text string `json:"n"`
}

type OwnerSpec struct {
	ID      uint         `json:"id"`
	Name    string       `json:"n"`
	Val     int          `json:"v"`
	Code    string       `json:"code,omitempty"`
	Company *CompanySpec `json:"company,omitempty"`
	Profile *ProfileSpec `json:"profile,omitempty"`
	Items   []ItemSpec   `json:"items,omitempty"`
	Tags    []TagSpec    `json:"tags,omitempty"`
	Notes   []NoteSpec   `json:"notes,omitempty"`
	Badge   string       `json:"badge,omitempty"` // label of the polymorphic has-one ("" = none)
}

func (s OwnerSpec) build() *Owner {
	o := &Owner{}
	s.buildInto(o)
	return o
}

// buildPlain builds the same graph on the hook-less twin (no back-references:
// Tag.Owners points at Owner values).
func (s OwnerSpec) buildPlain() *PlainOwner {
	var o Owner
	s.buildInto(&o)
	for _, tg := range o.Tags {
		tg.Owners = nil
	}
	return &PlainOwner{ID: o.ID, Name: o.Name, Val: o.Val, Code: o.Code, Company: o.Company, Profile: o.Profile,
		Items: o.Items, Tags: o.Tags, Notes: o.Notes, Badge: o.Badge}
}

// buildInto fills o in place (back-references point at o itself).
func (s OwnerSpec) buildInto(o *Owner) {
	*o = Owner{ID: s.ID, Name: s.Name, Val: s.Val}
	if s.Code != "" {
		code := s.Code
		o.Code = &code
	}
	if c := s.Company; c != nil {
		o.Company = &Company{ID: c.ID, Name: c.Name}
		if r := c.Region; r != nil {
			o.Company.Region = Region{ID: r.ID, Name: r.Name}
		}
	}
	if p := s.Profile; p != nil {
		o.Profile = &Profile{ID: p.ID, Bio: p.Bio}
	}
	for _, it := range s.Items {
		item := Item{ID: it.ID, Name: it.Name, Qty: it.Qty}
		for _, pt := range it.Parts {
			item.Parts = append(item.Parts, &Part{ID: pt.ID, Name: pt.Name})
		}
		o.Items = append(o.Items, item)
	}
	for _, tg := range s.Tags {
		tag := &Tag{ID: tg.ID, Name: tg.Name}
		if tg.BackRef {
			tag.Owners = []*Owner{o}
		}
		o.Tags = append(o.Tags, tag)
	}
	for _, nt := range s.Notes {
		o.Notes = append(o.Notes, Note{ID: nt.ID, Text: nt.Text})
	}
	if s.Badge != "" {
		o.Badge = Badge{Label: s.Badge}
	}
}

// shape labels of a graph.
func (s OwnerSpec) shapes(into map[string]bool) {
	if s.Company != nil {
		into["rel:belongs-to"] = true
		if s.Company.Region != nil {
			into["rel:belongs-to-nested"] = true
		}
	}
	if s.Profile != nil {
		into["rel:has-one"] = true
	}
	if len(s.Items) > 0 {
		into["rel:has-many"] = true
	}
	for _, it := range s.Items {
		if len(it.Parts) > 0 {
			into["rel:has-many-nested"] = true
		}
	}
	if len(s.Tags) > 0 {
		into["rel:many2many"] = true
	}
	if len(s.Notes) > 0 {
		into["rel:polymorphic"] = true
	}
	if s.Badge != "" {
		into["rel:polymorphic-has-one-value"] = true
	}
	for _, tg := range s.Tags {
		if tg.BackRef {
			into["rel:many2many-back-reference"] = true
		}
	}
	if len(s.Items) > 10 || len(s.Tags) > 10 || len(s.Notes) > 10 {
		into["size:>10-children"] = true
	}
}

// InitSpec is the initial database content: loose rows plus owner graphs, all
// with generated keys.
type InitSpec struct {
	Companies []CompanySpec `json:"companies,omitempty"`
	Tags      []TagSpec     `json:"tags,omitempty"`
	Owners    []OwnerSpec   `json:"owners,omitempty"`
}

// Op is one write operation.
type Op struct {
	Kind        string      `json:"kind"`
	NoReturning bool        `json:"noreturning,omitempty"` // dialector without RETURNING support
	Audit       bool        `json:"audit,omitempty"`       // Owner hooks write an audit row through their handle
	AuditVia    string      `json:"auditvia,omitempty"`    // "session": the audit row is created through tx.Session(NewDB+SkipDefaultTransaction); "batches"/"transaction": a block of 3 rows through tx.CreateInBatches(…, 2) / tx.Transaction
	Wide        *WideSpec   `json:"wide,omitempty"`        // create-many-join-rows: the record graph, described by its sizes
	Plain       bool        `json:"plain,omitempty"`       // the root record is a PlainOwner: hook-less twin of Owner
	Scope       string      `json:"scope,omitempty"`       // Scopes(func): identity | where | session (returns d.Session(&Session{})) | with-context
	Conflict    string      `json:"conflict,omitempty"`    // create kinds: Clauses(clause.OnConflict{...}): nothing | update-all | columns
	Cols        []string    `json:"cols,omitempty"`        // create/save/updates: Select(cols)
	Omit        []string    `json:"omit,omitempty"`        // create/save/updates: Omit(cols)
	BatchVia    string      `json:"batchvia,omitempty"`    // CreateBatchSize set through "session" or "config" (Create then runs in batches, association inserts too)
	FullVia     string      `json:"fullvia,omitempty"`     // updates-full: FullSaveAssociations through Config instead of Session
	Config      []string    `json:"config,omitempty"`      // gorm.Config switches that must be transparent: PrepareStmt, TranslateError
	OnConn      bool        `json:"onconn,omitempty"`      // run inside db.Connection(func(tx)): the handle is bound to one *sql.Conn
	InTx        bool        `json:"intx,omitempty"`        // CreateInBatches inside db.Transaction (its own transaction becomes a SAVEPOINT)
	Hist        []string    `json:"hist,omitempty"`        // writes made through the handle before the operation: prior-write | prior-failed-write
	Plugin      bool        `json:"plugin,omitempty"`      // callbacks registered into the create/update/delete pipelines; they fail like hooks
	CustomJoin  bool        `json:"customjoin,omitempty"`  // SetupJoinTable(Owner.Tags / Tag.Owners, &OwnerTag{}): join rows go through a model with hooks
	AuditFail   string      `json:"auditfail,omitempty"`   // "natural": the audit block of every After* hook fails by itself in its second part (hooks swallow it)
	Swallow     bool        `json:"swallow,omitempty"`     // hooks return nil when their audit block fails
	Returning   bool        `json:"returning,omitempty"`   // update/delete/save with Clauses(clause.Returning{}): the main statement runs as a query
	Pre         []PreStep   `json:"pre,omitempty"`         // sessions derived from the handle (and maybe used for a read) before the operation
	Ctx         bool        `json:"ctx,omitempty"`         // run on db.WithContext(cancellable context); hooks may cancel it
	Collide     bool        `json:"collide,omitempty"`     // the last record carries the unique code of an existing owner: the operation fails by itself
	Rot         int         `json:"rot,omitempty"`         // rotation of the injected error values over the fault positions
	Ptrs        bool        `json:"ptrs,omitempty"`        // slice of pointers instead of values
	Batch       int         `json:"batch,omitempty"`
	Form        string      `json:"form,omitempty"`     // delete/update: struct | slice | where
	Select      []string    `json:"select,omitempty"`   // delete: Select(...)
	Unscoped    bool        `json:"unscoped,omitempty"` // delete: Unscoped() (hard delete of soft-deletable children)
	IDs         []uint      `json:"ids,omitempty"`      // targeted existing owners (update-col, delete)
	NewName     string      `json:"newname,omitempty"`
	NewVal      int         `json:"newval,omitempty"`
	Owners      []OwnerSpec `json:"owners,omitempty"`
}

// WideSpec describes one Create whose many2many relation produces several
// hundred join rows (more than fit into one statement on drivers with a small
// bind-variable limit): Owners records, each with Tags tags; Shared = every
// owner points at the same (explicitly keyed) tags, otherwise the tags are new.
type WideSpec struct {
	Owners int  `json:"owners"`
	Tags   int  `json:"tags"`
	Shared bool `json:"shared,omitempty"`
}

func (w WideSpec) build() []*Owner {
	out := make([]*Owner, w.Owners)
	for i := range out {
		o := &Owner{Name: fmt.Sprintf("ow-w%d", i), Val: 1}
		for j := 0; j < w.Tags; j++ {
			if w.Shared {
				o.Tags = append(o.Tags, &Tag{ID: uint(2000 + j), Name: fmt.Sprintf("tg%d", 2000+j)})
			} else {
				o.Tags = append(o.Tags, &Tag{Name: fmt.Sprintf("tg-w%d-%d", i, j)})
			}
		}
		out[i] = o
	}
	return out
}

// PreStep derives a session from the default handle before the operation runs
// on that handle. Deriving (and reading through) a session must not change the
// handle: the operation on it stays all-or-nothing.
type PreStep struct {
	Opt string `json:"opt"`
	Use bool   `json:"use,omitempty"`
	// Reg: through the derived session a no-op callback is registered / registered
	// and replaced / registered and removed on the processor Pipe (create, update,
	// delete). Callbacks are shared by all handles; a no-op changes nothing.
	Reg  string `json:"reg,omitempty"`
	Pipe string `json:"pipe,omitempty"`
}

// registrar is the part of gorm's (unexported) callback processor used here.
type registrar interface {
	Register(name string, fn func(*gorm.DB)) error
	Replace(name string, fn func(*gorm.DB)) error
	Remove(name string) error
}

func preRegister(s *gorm.DB, ps PreStep, i int) {
	var p registrar
	switch ps.Pipe {
	case "update":
		p = s.Callback().Update()
	case "delete":
		p = s.Callback().Delete()
	default:
		p = s.Callback().Create()
	}
	name := fmt.Sprintf("c05:pre%d", i)
	noop := func(*gorm.DB) {}
	must := func(err error) {
		if err != nil {
			panic("harness: callback " + ps.Reg + ": " + err.Error())
		}
	}
	must(p.Register(name, noop))
	switch ps.Reg {
	case "replace":
		must(p.Replace(name, noop))
	case "remove":
		must(p.Remove(name))
	}
}

var sessionOptions = map[string]func() *gorm.Session{
	"NewDB":                        func() *gorm.Session { return &gorm.Session{NewDB: true} },
	"SkipDefaultTransaction":       func() *gorm.Session { return &gorm.Session{SkipDefaultTransaction: true} },
	"NewDB+SkipDefaultTransaction": func() *gorm.Session { return &gorm.Session{NewDB: true, SkipDefaultTransaction: true} },
	"NewDB+SkipDefaultTransaction+SkipHooks": func() *gorm.Session {
		return &gorm.Session{NewDB: true, SkipDefaultTransaction: true, SkipHooks: true}
	},
	"DryRun":                         func() *gorm.Session { return &gorm.Session{DryRun: true} },
	"NewDB+DryRun":                   func() *gorm.Session { return &gorm.Session{NewDB: true, DryRun: true} },
	"PrepareStmt":                    func() *gorm.Session { return &gorm.Session{PrepareStmt: true} },
	"NewDB+PrepareStmt":              func() *gorm.Session { return &gorm.Session{NewDB: true, PrepareStmt: true} },
	"SkipHooks":                      func() *gorm.Session { return &gorm.Session{SkipHooks: true} },
	"NewDB+SkipHooks":                func() *gorm.Session { return &gorm.Session{NewDB: true, SkipHooks: true} },
	"DisableNestedTransaction":       func() *gorm.Session { return &gorm.Session{DisableNestedTransaction: true} },
	"NewDB+DisableNestedTransaction": func() *gorm.Session { return &gorm.Session{NewDB: true, DisableNestedTransaction: true} },
	"AllowGlobalUpdate":              func() *gorm.Session { return &gorm.Session{AllowGlobalUpdate: true} },
	"NewDB+AllowGlobalUpdate":        func() *gorm.Session { return &gorm.Session{NewDB: true, AllowGlobalUpdate: true} },
	"FullSaveAssociations":           func() *gorm.Session { return &gorm.Session{FullSaveAssociations: true} },
	"NewDB+FullSaveAssociations":     func() *gorm.Session { return &gorm.Session{NewDB: true, FullSaveAssociations: true} },
	"PropagateUnscoped":              func() *gorm.Session { return &gorm.Session{PropagateUnscoped: true} },
	"NewDB+PropagateUnscoped":        func() *gorm.Session { return &gorm.Session{NewDB: true, PropagateUnscoped: true} },
	"QueryFields":                    func() *gorm.Session { return &gorm.Session{QueryFields: true} },
	"NewDB+QueryFields":              func() *gorm.Session { return &gorm.Session{NewDB: true, QueryFields: true} },
	"CreateBatchSize":                func() *gorm.Session { return &gorm.Session{CreateBatchSize: 1} },
	"NewDB+CreateBatchSize":          func() *gorm.Session { return &gorm.Session{NewDB: true, CreateBatchSize: 1} },
	"Context":                        func() *gorm.Session { return &gorm.Session{Context: context.Background()} },
	"NewDB+Context":                  func() *gorm.Session { return &gorm.Session{NewDB: true, Context: context.Background()} },
	"Logger":                         func() *gorm.Session { return &gorm.Session{Logger: logger.Discard} },
	"NewDB+Logger":                   func() *gorm.Session { return &gorm.Session{NewDB: true, Logger: logger.Discard} },
	"NowFunc":                        func() *gorm.Session { return &gorm.Session{NowFunc: func() time.Time { return initNow }} },
	"NewDB+NowFunc":                  func() *gorm.Session { return &gorm.Session{NewDB: true, NowFunc: func() time.Time { return initNow }} },
	"Initialized":                    func() *gorm.Session { return &gorm.Session{Initialized: true} },
	"NewDB+Initialized":              func() *gorm.Session { return &gorm.Session{NewDB: true, Initialized: true} },
}

func sessionOptionNames() []string {
	out := make([]string, 0, len(sessionOptions))
	for k := range sessionOptions {
		out = append(out, k)
	}
	sort.Strings(out)
	return out
}

// Case is what one rapid iteration generates.
type Case struct {
	Init InitSpec `json:"init"`
	Op   Op       `json:"op"`
}

func (c Case) String() string {
	b, _ := json.Marshal(c)
	return string(b)
}

const (
	kCreate        = "create"
	kCreateSlice   = "create-slice"
	kCreateBatches = "create-in-batches"
	kSave          = "save"
	kSaveMissing   = "save-missing-row"
	kSaveSlice     = "save-slice"
	kCreateMap     = "create-map"
	kUpdatesStruct = "updates-model-struct"
	kDeleteNote    = "delete-soft-root"
	kCreateWide    = "create-many-join-rows"
	kUpdatesFull   = "updates-full-save-associations"
	kUpdatesMap    = "updates-model-map"
	kUpdateCol     = "update-column"
	kDelete        = "delete"
)

var allKinds = []string{kCreate, kCreateSlice, kCreateBatches, kSave, kSaveMissing, kSaveSlice, kCreateMap, kUpdatesStruct, kDeleteNote, kCreateWide, kUpdatesFull, kUpdatesMap, kUpdateCol, kDelete, kDelete}

func ownerSlice(specs []OwnerSpec) []Owner {
	out := make([]Owner, len(specs))
	for i, s := range specs {
		s.buildInto(&out[i])
	}
	return out
}

func ownerPtrs(specs []OwnerSpec) []*Owner {
	out := make([]*Owner, len(specs))
	for i, s := range specs {
		out[i] = s.build()
	}
	return out
}

// exec runs the operation on db with a freshly built record graph.
func (op Op) exec(db *gorm.DB) *gorm.DB {
	if op.OnConn {
		var res *gorm.DB
		err := db.Connection(func(tx *gorm.DB) error {
			res = op.exec1(tx)
			// Connection now closes the connection, which waits for ever for a
			// transaction the operation left open on it. That state is detected
			// here (no clock involved); ending the context lets database/sql roll
			// the transaction back so that Connection can return.
			if p := plan; p != nil && p.rec.OpenTx() != 0 {
				p.leaked = true
				if p.cancel != nil {
					p.cancel()
				}
			}
			return nil
		})
		if res == nil {
			return &gorm.DB{Error: err}
		}
		return res
	}
	if !op.InTx {
		return op.exec1(db)
	}
	// the operation inside a caller's transaction that is committed whatever
	// the operation reports: only CreateInBatches protects itself there (with
	// a SAVEPOINT), so only it is generated with InTx
	var res *gorm.DB
	err := db.Transaction(func(tx *gorm.DB) error {
		res = op.exec1(tx)
		return nil
	})
	out := &gorm.DB{}
	if res != nil {
		out.Error, out.RowsAffected = res.Error, res.RowsAffected
	}
	if out.Error == nil {
		out.Error = err
	}
	return out
}

func ownerMap(s OwnerSpec) map[string]interface{} {
	m := map[string]interface{}{"name": s.Name, "val": s.Val}
	if s.ID != 0 {
		m["id"] = s.ID
	}
	if s.Code != "" {
		m["code"] = s.Code
	}
	return m
}

// record builds the i-th root record: *Owner or its hook-less twin.
func (op Op) record(i int) interface{} {
	if op.Plain {
		return op.Owners[i].buildPlain()
	}
	return op.Owners[i].build()
}

// keyed returns an empty root record carrying only the key.
func (op Op) keyed(id uint) interface{} {
	if op.Plain {
		return &PlainOwner{ID: id}
	}
	return &Owner{ID: id}
}

func (op Op) exec1(db *gorm.DB) *gorm.DB {
	root := db
	switch op.Scope {
	case "identity":
		db = db.Scopes(func(d *gorm.DB) *gorm.DB { return d })
	case "where":
		db = db.Scopes(func(d *gorm.DB) *gorm.DB { return d.Where("1 = 1") })
	case "session":
		db = db.Scopes(func(d *gorm.DB) *gorm.DB { return d.Session(&gorm.Session{}) })
	case "with-context":
		db = db.Scopes(func(d *gorm.DB) *gorm.DB { return d.WithContext(d.Statement.Context) })
	}
	if op.Returning {
		db = db.Clauses(clause.Returning{})
	}
	switch op.Conflict {
	case "nothing":
		db = db.Clauses(clause.OnConflict{DoNothing: true})
	case "update-all":
		db = db.Clauses(clause.OnConflict{UpdateAll: true})
	case "columns":
		db = db.Clauses(clause.OnConflict{Columns: []clause.Column{{Name: "id"}}, DoUpdates: clause.AssignmentColumns([]string{"name", "val"})})
	}
	if len(op.Cols) > 0 {
		db = db.Select(append([]string(nil), op.Cols...))
	}
	if len(op.Omit) > 0 {
		db = db.Omit(op.Omit...)
	}
	if op.BatchVia == "session" {
		db = db.Session(&gorm.Session{CreateBatchSize: op.Batch})
	}
	// a handle handed to another chain as an argument (sub-query)
	subquery := func() *gorm.DB {
		return root.Session(&gorm.Session{NewDB: true}).Model(&Owner{}).Select("id").Where("id IN ?", op.IDs)
	}
	switch op.Kind {
	case kCreate:
		return db.Create(op.record(0))
	case kCreateSlice:
		if op.Form == "array" {
			var v [2]Owner
			op.Owners[0].buildInto(&v[0])
			op.Owners[1].buildInto(&v[1])
			return db.Create(&v)
		}
		if op.Ptrs {
			v := ownerPtrs(op.Owners)
			return db.Create(&v)
		}
		v := ownerSlice(op.Owners)
		return db.Create(&v)
	case kCreateWide:
		v := op.Wide.build()
		if len(v) == 1 {
			return db.Create(v[0])
		}
		if op.Ptrs {
			return db.Create(&v)
		}
		vals := make([]Owner, len(v))
		for i := range v {
			vals[i] = *v[i]
		}
		return db.Create(&vals)
	case kCreateMap:
		switch op.Form {
		case "map":
			return db.Model(&Owner{}).Create(ownerMap(op.Owners[0]))
		case "ptr-map":
			m := ownerMap(op.Owners[0])
			return db.Model(&Owner{}).Create(&m)
		}
		ms := make([]map[string]interface{}, len(op.Owners))
		for i, o := range op.Owners {
			ms[i] = ownerMap(o)
		}
		if op.Form == "ptr-maps" {
			return db.Model(&Owner{}).Create(&ms)
		}
		return db.Model(&Owner{}).Create(ms)
	case kCreateBatches:
		if op.Ptrs {
			v := ownerPtrs(op.Owners)
			return db.CreateInBatches(&v, op.Batch)
		}
		v := ownerSlice(op.Owners)
		return db.CreateInBatches(&v, op.Batch)
	case kSave, kSaveMissing:
		return db.Save(op.record(0))
	case kSaveSlice:
		if op.Ptrs {
			v := ownerPtrs(op.Owners)
			return db.Save(&v)
		}
		v := ownerSlice(op.Owners)
		return db.Save(&v)
	case kUpdatesFull:
		if op.FullVia == "config" {
			return db.Updates(op.record(0))
		}
		return db.Session(&gorm.Session{FullSaveAssociations: true}).Updates(op.record(0))
	case kUpdatesMap:
		vals := map[string]interface{}{"name": op.NewName, "val": op.NewVal}
		if op.Form == "slice-model" {
			v := make([]Owner, len(op.IDs))
			for i, id := range op.IDs {
				v[i] = Owner{ID: id}
			}
			return db.Model(&v).Updates(vals)
		}
		return db.Model(op.record(0)).Updates(vals)
	case kUpdatesStruct:
		if op.Plain {
			return db.Model(&PlainOwner{ID: op.IDs[0]}).Updates(PlainOwner{Name: op.NewName, Val: op.NewVal})
		}
		return db.Model(&Owner{ID: op.IDs[0]}).Updates(Owner{Name: op.NewName, Val: op.NewVal})
	case kUpdateCol:
		switch op.Form {
		case "struct":
			return db.Model(op.keyed(op.IDs[0])).Update("name", op.NewName)
		case "graph":
			// the record handed to Model carries association values: they are
			// saved by the update pipeline around the single-column UPDATE
			return db.Model(op.record(0)).Update("name", op.NewName)
		case "expr":
			return db.Model(op.keyed(op.IDs[0])).Update("val", gorm.Expr("val + ?", 100))
		case "update-column":
			return db.Model(op.keyed(op.IDs[0])).UpdateColumn("name", op.NewName)
		case "update-columns":
			return db.Model(&Owner{}).Where("id IN ?", op.IDs).UpdateColumns(map[string]interface{}{"name": op.NewName, "val": 100})
		case "subquery":
			return db.Model(&Owner{}).Where("id IN (?)", subquery()).Update("name", op.NewName)
		default:
			return db.Model(&Owner{}).Where("id IN ?", op.IDs).Update("name", op.NewName)
		}
	case kDelete:
		tx := db
		if op.Unscoped {
			tx = tx.Unscoped()
		}
		if len(op.Select) > 0 {
			tx = tx.Select(append([]string(nil), op.Select...))
		}
		switch op.Form {
		case "struct":
			return tx.Delete(op.keyed(op.IDs[0]))
		case "slice":
			v := make([]Owner, len(op.IDs))
			for i, id := range op.IDs {
				v[i] = Owner{ID: id}
			}
			return tx.Delete(&v)
		case "pk":
			if len(op.IDs) == 1 {
				return tx.Delete(&Owner{}, op.IDs[0])
			}
			return tx.Delete(&Owner{}, op.IDs)
		case "model-dest":
			return tx.Model(&Owner{ID: op.IDs[0]}).Delete(&Owner{})
		case "subquery":
			return tx.Where("id IN (?)", subquery()).Delete(&Owner{})
		default:
			return tx.Where("id IN ?", op.IDs).Delete(&Owner{})
		}
	case kDeleteNote:
		tx := db
		if op.Unscoped {
			tx = tx.Unscoped()
		}
		if op.Form == "struct" {
			return tx.Delete(&Note{ID: op.IDs[0]})
		}
		return tx.Where("id IN ?", op.IDs).Delete(&Note{})
	}
	panic("unknown operation kind " + op.Kind)
}

// ---- databases ---------------------------------------------------------------------------------

var (
	ddlOnce sync.Once
	ddl     string
)

// schemaDDL migrates the models once and returns the resulting DDL script, so
// that every per-run database is created by one cheap Exec.
func schemaDDL() string {
	ddlOnce.Do(func() {
		d := testdb.Open(testdb.Options{Config: gorm.Config{DisableForeignKeyConstraintWhenMigrating: true}})
		defer d.Close()
		if err := setupJoin(d.DB); err != nil {
			panic("harness: SetupJoinTable: " + err.Error())
		}
		if err := d.AutoMigrate(allModels...); err != nil {
			panic("harness: AutoMigrate: " + err.Error())
		}
		rows, err := d.SQL.Query("SELECT sql FROM sqlite_master WHERE sql IS NOT NULL AND name NOT LIKE 'sqlite_%' ORDER BY rowid")
		if err != nil {
			panic("harness: reading DDL: " + err.Error())
		}
		defer rows.Close()
		var parts []string
		for rows.Next() {
			var s string
			if err := rows.Scan(&s); err != nil {
				panic(err)
			}
			parts = append(parts, s)
		}
		ddl = strings.Join(parts, ";\n") + ";"
	})
	return ddl
}

// registerPlugin installs callbacks the way a plugin does: after the main
// statement and after the After* hooks of each write pipeline. They consult the
// hook plan, so every one of their invocations is failed in turn too.
func registerPlugin(db *gorm.DB) {
	cb := func(name string) func(*gorm.DB) {
		return func(db *gorm.DB) {
			if db.Error == nil {
				if err := hook(db, "Plugin", name); err != nil {
					db.AddError(err)
				}
			}
		}
	}
	must := func(err error) {
		if err != nil {
			panic("harness: registering callback: " + err.Error())
		}
	}
	// Both neighbours are named: a callback registered with After(x) alone is
	// sorted behind gorm:commit_or_rollback_transaction, i.e. it would run after
	// the COMMIT and its error could not undo anything (by the registrant's choice).
	const end = "gorm:commit_or_rollback_transaction"
	must(db.Callback().Create().After("gorm:create").Before("gorm:save_after_associations").Register("c05:created", cb("create:after-statement")))
	must(db.Callback().Create().After("gorm:after_create").Before(end).Register("c05:create_done", cb("create:after-hooks")))
	must(db.Callback().Update().After("gorm:update").Before("gorm:save_after_associations").Register("c05:updated", cb("update:after-statement")))
	must(db.Callback().Update().After("gorm:after_update").Before(end).Register("c05:update_done", cb("update:after-hooks")))
	must(db.Callback().Delete().After("gorm:delete").Before("gorm:after_delete").Register("c05:deleted", cb("delete:after-statement")))
	must(db.Callback().Delete().After("gorm:after_delete").Before(end).Register("c05:delete_done", cb("delete:after-hooks")))
}

func setupJoin(db *gorm.DB) error {
	if err := db.SetupJoinTable(&Owner{}, "Tags", &OwnerTag{}); err != nil {
		return err
	}
	return db.SetupJoinTable(&Tag{}, "Owners", &OwnerTag{})
}

// content is a full copy of all tables.
type content struct {
	cols  map[string][]string
	rows  map[string][][]interface{}
	text  string // canonical rendering (the "dump")
	ids   map[string][]uint
	codes map[uint]string // owners.id -> owners.code
}

func readContent(sqlDB *sql.DB) (*content, error) {
	c := &content{cols: map[string][]string{}, rows: map[string][][]interface{}{}, ids: map[string][]uint{}, codes: map[uint]string{}}
	var sb strings.Builder
	for _, t := range tables {
		rows, err := sqlDB.Query("SELECT * FROM " + t.name + " ORDER BY " + t.order)
		if err != nil {
			return nil, fmt.Errorf("dump of %s: %w", t.name, err)
		}
		cols, _ := rows.Columns()
		c.cols[t.name] = cols
		sb.WriteString(t.name + "(" + strings.Join(cols, ",") + ")\n")
		for rows.Next() {
			vals := make([]interface{}, len(cols))
			ptrs := make([]interface{}, len(cols))
			for i := range vals {
				ptrs[i] = &vals[i]
			}
			if err := rows.Scan(ptrs...); err != nil {
				rows.Close()
				return nil, fmt.Errorf("dump of %s: %w", t.name, err)
			}
			for i, v := range vals {
				if b, ok := v.([]byte); ok {
					vals[i] = string(b)
				}
			}
			c.rows[t.name] = append(c.rows[t.name], vals)
			if cols[0] == "id" {
				if id, ok := vals[0].(int64); ok {
					c.ids[t.name] = append(c.ids[t.name], uint(id))
					if t.name == "owners" {
						for i, col := range cols {
							if code, ok := vals[i].(string); ok && col == "code" {
								c.codes[uint(id)] = code
							}
						}
					}
				}
			}
			sb.WriteString("  ")
			for i, v := range vals {
				if i > 0 {
					sb.WriteString(" | ")
				}
				if tm, ok := v.(time.Time); ok {
					sb.WriteString(tm.UTC().Format(time.RFC3339Nano))
				} else {
					fmt.Fprintf(&sb, "%v", v)
				}
			}
			sb.WriteString("\n")
		}
		err = rows.Err()
		rows.Close()
		if err != nil {
			return nil, fmt.Errorf("dump of %s: %w", t.name, err)
		}
	}
	c.text = sb.String()
	return c, nil
}

var initNow = testdb.FixedNow
var opNow = testdb.FixedNow.Add(90 * time.Minute)

// materialize builds the initial content through gorm (hooks inert, no faults)
// on a scratch database and reads it back. An error of one of these plain
// fault-free Creates is returned to the caller (it is a failure of the code
// under test, not of the harness).
func materialize(in InitSpec) (*content, error) {
	plan = nil
	d := testdb.Open(testdb.Options{Config: gorm.Config{NowFunc: func() time.Time { return initNow }}})
	defer d.Close()
	if _, err := d.SQL.Exec(schemaDDL()); err != nil {
		panic("harness: DDL: " + err.Error())
	}
	for _, c := range in.Companies {
		co := &Company{Name: c.Name}
		if c.Region != nil {
			co.Region = Region{Name: c.Region.Name}
		}
		if err := d.Create(co).Error; err != nil {
			return nil, fmt.Errorf("Create(&Company{Name: %q, Region: %v}): %w", c.Name, c.Region != nil, err)
		}
	}
	for _, tg := range in.Tags {
		if err := d.Create(&Tag{Name: tg.Name}).Error; err != nil {
			return nil, fmt.Errorf("Create(&Tag{Name: %q}): %w", tg.Name, err)
		}
	}
	for _, o := range in.Owners {
		if err := d.Create(o.build()).Error; err != nil {
			b, _ := json.Marshal(o)
			return nil, fmt.Errorf("Create(owner graph %s): %w", b, err)
		}
	}
	c, err := readContent(d.SQL)
	if err != nil {
		panic("harness: " + err.Error())
	}
	return c, nil
}

// freshDB opens a new database holding exactly the initial content.
func freshDB(base *content, op Op) *testdb.DB {
	cfg := gorm.Config{NowFunc: func() time.Time { return opNow }}
	for _, c := range op.Config {
		switch c {
		case "PrepareStmt":
			cfg.PrepareStmt = true
		case "TranslateError":
			cfg.TranslateError = true
		}
	}
	if op.BatchVia == "config" {
		cfg.CreateBatchSize = op.Batch
	}
	if op.FullVia == "config" {
		cfg.FullSaveAssociations = true
	}
	d := testdb.Open(testdb.Options{Config: cfg, NoReturning: op.NoReturning})
	if _, err := d.SQL.Exec(schemaDDL()); err != nil {
		panic("harness: DDL: " + err.Error())
	}
	if op.Plugin {
		registerPlugin(d.DB)
	}
	if op.CustomJoin {
		if err := setupJoin(d.DB); err != nil {
			panic("harness: SetupJoinTable: " + err.Error())
		}
	}
	tx, err := d.SQL.Begin()
	if err != nil {
		panic("harness: " + err.Error())
	}
	for _, t := range tables {
		rows := base.rows[t.name]
		if len(rows) == 0 {
			continue
		}
		cols := base.cols[t.name]
		q := "INSERT INTO " + t.name + " (" + strings.Join(cols, ",") + ") VALUES (" + strings.TrimSuffix(strings.Repeat("?,", len(cols)), ",") + ")"
		for _, r := range rows {
			if _, err := tx.Exec(q, r...); err != nil {
				panic("harness: initial rows: " + err.Error())
			}
		}
	}
	if err := tx.Commit(); err != nil {
		panic("harness: " + err.Error())
	}
	d.Rec.Reset()
	return d
}

// ---- one run -----------------------------------------------------------------------------------

type fault struct {
	kind string // "" | "driver" | "next" | "hook" | "cancel"
	idx  int
	err  namedErr // driver, next: the value the failing call returns
}

func (f fault) String() string {
	switch f.kind {
	case "driver":
		return fmt.Sprintf("driver-call#%d returns %s", f.idx, f.err.name)
	case "hook":
		return fmt.Sprintf("hook#%d returns error", f.idx)
	case "cancel":
		return fmt.Sprintf("hook#%d cancels the context and returns nil", f.idx)
	case "next":
		return fmt.Sprintf("rows.Next#%d returns %s", f.idx, f.err.name)
	}
	return "none"
}

// namedErr is one error VALUE a failing driver call returns. gorm must report
// whatever the driver reports: no value is "harmless".
type namedErr struct {
	name string
	err  error
}

// faultErrors rotate over the fault positions (every value at every COMMIT).
// Not in the list: driver.ErrSkip (a database/sql protocol value) and
// gorm.ErrInvalidTransaction (BeginTransaction documents it as "no transaction
// support", a driver does not return it).
var faultErrors = []namedErr{
	{"sentinel", recdrv.ErrInjected},
	{"sql.ErrTxDone", sql.ErrTxDone},
	{"context.Canceled", context.Canceled},
	{"context.DeadlineExceeded", context.DeadlineExceeded},
	{"io.ErrUnexpectedEOF", io.ErrUnexpectedEOF},
	{"sql.ErrNoRows", sql.ErrNoRows},
	{"gorm.ErrRecordNotFound", gorm.ErrRecordNotFound},
	{"wrapped(sql.ErrTxDone)", fmt.Errorf("c05 driver: %w", sql.ErrTxDone)},
	{"wrapped(context.Canceled)", fmt.Errorf("c05 driver: %w", context.Canceled)},
	{"wrapped(sentinel)", fmt.Errorf("c05 driver: %w", recdrv.ErrInjected)},
}

// commitOnlyErrors: driver.ErrBadConn is consumed by database/sql everywhere
// else (BEGIN is retried on another connection, a statement inside a
// transaction poisons it so that the later ROLLBACK error replaces it); at
// COMMIT it is handed to the caller unchanged.
var commitOnlyErrors = []namedErr{
	{"driver.ErrBadConn", driver.ErrBadConn},
	{"wrapped(driver.ErrBadConn)", fmt.Errorf("c05 driver: %w", driver.ErrBadConn)},
}

// nextCall is one driver.Rows.Next call: the statement whose rows are read and
// the number of faultable driver calls made before it.
type nextCall struct {
	query     string
	drvBefore int
}

type runResult struct {
	err       error
	rows      int64
	dump      string
	dumpErr   error
	faultable int
	hooks     []hookCall
	nexts     []nextCall
	events    []recdrv.Event
	pre       string // tables right before the operation (after the generated history)
	blocks    []blockCall
	swallowed int
	audits    []string // audits.msg after the operation
	histErr   string
	hung      bool // inside db.Connection the operation returned with its transaction still open (Connection would never return)
	openTx    int
	inUse     int
	fired     bool
}

func runOnce(base *content, op Op, f fault) (r runResult) {
	d := freshDB(base, op)
	defer d.Close()
	// history before the operation: sessions derived from the default handle
	for i, ps := range op.Pre {
		s := d.DB.Session(sessionOptions[ps.Opt]())
		if ps.Reg != "" {
			preRegister(s, ps, i)
		}
		if ps.Use {
			var n int64
			s.Model(&Owner{}).Count(&n)
		}
	}
	r.pre = base.text
	// ... and writes made through the handle: one that succeeds, one whose
	// first hook fails (it must itself be reported and leave nothing)
	for _, h := range op.Hist {
		switch h {
		case "prior-write":
			plan = nil
			if err := d.DB.Create(&Tag{Name: "hist"}).Error; err != nil {
				r.histErr = "prior fault-free Create(&Tag{}) through the handle failed: " + err.Error()
			}
		case "prior-failed-write":
			plan = &hookPlan{failAt: 0, cancelAt: -1, rec: d.Rec}
			if err := d.DB.Create(&Tag{Name: "hist-fail"}).Error; !errors.Is(err, errHook) {
				r.histErr = fmt.Sprintf("prior Create(&Tag{}) whose BeforeSave hook fails reported %v", err)
			}
			plan = nil
		}
	}
	if len(op.Hist) > 0 {
		if c, err := readContent(d.SQL); err != nil {
			r.histErr = "tables unreadable after the history: " + err.Error()
		} else {
			r.pre = c.text
		}
	}
	d.Rec.Reset()
	p := &hookPlan{failAt: -1, cancelAt: -1, audit: op.Audit, auditVia: op.AuditVia, auditFail: op.AuditFail, swallow: op.Swallow, rec: d.Rec}
	switch f.kind {
	case "hook":
		p.failAt = f.idx
	case "cancel":
		p.cancelAt = f.idx
	}
	handle := d.DB
	if op.Ctx || op.OnConn { // OnConn: a context to end, should the operation leak its transaction
		ctx, cancel := context.WithCancel(context.Background())
		defer cancel()
		p.cancel = cancel
		handle = d.DB.WithContext(ctx)
	}
	plan = p
	if f.kind == "driver" {
		d.Rec.SetFault(func(idx int, e *recdrv.Event) error {
			if idx == f.idx && !isRollback(*e) {
				return f.err.err
			}
			return nil
		})
	} else {
		d.Rec.SetFault(nil)
	}
	d.Rec.TrackRows(true)
	d.Rec.SetRowsFault(func(idx int, query string) error {
		r.nexts = append(r.nexts, nextCall{query, d.Rec.Faultable()})
		if f.kind == "next" && idx == f.idx {
			r.fired = true
			return f.err.err
		}
		return nil
	})
	res := op.exec(handle)
	r.hung = p.leaked
	plan = nil
	d.Rec.SetRowsFault(nil)
	d.Rec.TrackRows(false)
	if f.kind == "cancel" {
		// the background rollback of database/sql releases the connection
		// shortly after the transaction is marked finished
		for w := 0; w < 500000 && (d.Rec.OpenTx() != 0 || d.SQL.Stats().InUse != 0); w++ {
			time.Sleep(20 * time.Microsecond)
		}
	}
	r.err, r.rows = res.Error, res.RowsAffected
	r.faultable = d.Rec.Faultable()
	r.events = d.Rec.Events()
	r.hooks = p.log
	r.blocks, r.swallowed = p.blocks, p.swallowed
	d.Rec.SetFault(nil)
	r.openTx = d.Rec.OpenTx()
	r.inUse = d.SQL.Stats().InUse
	r.fired = r.fired || p.fired
	if f.kind == "driver" {
		for _, e := range r.events {
			if e.Err == f.err.err {
				r.fired = true
			}
		}
	}
	d.Rec.Pause()
	c, err := readContent(d.SQL)
	d.Rec.Resume()
	if err != nil {
		r.dumpErr = err
	} else {
		r.dump = c.text
		for _, row := range c.rows["audits"] {
			if len(row) > 1 {
				r.audits = append(r.audits, fmt.Sprint(row[1]))
			}
		}
	}
	return r
}

// blockViolation checks the write blocks hooks issued: a block that reported
// an error must have left none of its rows; one that reported success has all
// of them if the operation was committed.
func blockViolation(r runResult) string {
	for _, b := range r.blocks {
		prefix := fmt.Sprintf("h%d:", b.hook)
		n := 0
		for _, m := range r.audits {
			if strings.HasPrefix(m, prefix) {
				n++
			}
		}
		switch {
		case b.err != nil && n != 0:
			return fmt.Sprintf("the write block issued by hook invocation #%d failed (%v) but %d of its %d rows are in the database: it was partly applied", b.hook, b.err, n, blockRows)
		case b.err == nil && r.err == nil && n != blockRows:
			return fmt.Sprintf("the write block issued by hook invocation #%d reported success and the operation was committed, but %d of its %d rows are in the database", b.hook, n, blockRows)
		}
	}
	return ""
}

// withoutAudits cuts the audits table (the last one) off a dump.
func withoutAudits(dump string) string {
	if i := strings.Index(dump, "audits("); i >= 0 {
		return dump[:i]
	}
	return dump
}

func isRollback(e recdrv.Event) bool {
	return strings.HasPrefix(strings.ToUpper(strings.TrimSpace(e.Text)), "ROLLBACK")
}

func faultableEvents(ev []recdrv.Event) []recdrv.Event {
	var out []recdrv.Event
	for _, e := range ev {
		switch e.Kind {
		case recdrv.Begin, recdrv.Commit, recdrv.Prepare, recdrv.Exec, recdrv.Query:
			out = append(out, e)
		}
	}
	return out
}

// stmtLabel classifies a driver call: begin, commit, insert:<table>, update:<table>, delete:<table>, select, other.
func stmtLabel(e recdrv.Event) (label, table string, write bool) {
	switch e.Kind {
	case recdrv.Begin:
		return "begin", "", false
	case recdrv.Commit:
		return "commit", "", false
	}
	t := strings.TrimSpace(e.Text)
	up := strings.ToUpper(t)
	name := func(after string) string {
		rest := strings.TrimSpace(t[len(after):])
		rest = strings.TrimLeft(rest, "`\"")
		if i := strings.IndexAny(rest, "`\" ("); i >= 0 {
			rest = rest[:i]
		}
		return rest
	}
	switch {
	case strings.HasPrefix(up, "INSERT INTO"):
		n := name("INSERT INTO")
		return "insert:" + n, n, true
	case strings.HasPrefix(up, "UPDATE"):
		n := name("UPDATE")
		return "update:" + n, n, true
	case strings.HasPrefix(up, "DELETE FROM"):
		n := name("DELETE FROM")
		return "delete:" + n, n, true
	case strings.HasPrefix(up, "SELECT"):
		return "select", "", false
	}
	return "other", "", false
}

func eventLog(ev []recdrv.Event) string {
	var sb strings.Builder
	for _, e := range ev {
		sb.WriteString("    " + e.String() + "\n")
	}
	return sb.String()
}

type fataler interface {
	Fatalf(string, ...interface{})
}

// checkCase performs the fault-free run and the full enumeration for one case.
func checkCase(t fataler, c Case, base *content) {
	desc := c.String()
	op := c.Op
	if op.Collide {
		if familyOn("natural") {
			checkNatural(t, c, base)
		}
		return
	}
	ref := runOnce(base, op, fault{})
	if ref.histErr != "" {
		t.Fatalf("C05 violated: %s\n  case: %s", ref.histErr, desc)
	}
	if ref.hung {
		t.Fatalf("C05 violated: the fault-free operation returned with its transaction still open inside db.Connection (Connection then waits for ever to release the connection)\n  case: %s\n  driver calls:\n%s", desc, eventLog(ref.events))
	}
	if ref.err != nil {
		t.Fatalf("C05 violated: the fault-free operation failed: %v\n  case: %s\n  driver calls:\n%s", ref.err, desc, eventLog(ref.events))
	}
	if ref.openTx != 0 || ref.inUse != 0 {
		t.Fatalf("C05 violated: after the fault-free operation %d transaction(s) open, %d connection(s) checked out\n  case: %s\n  driver calls:\n%s", ref.openTx, ref.inUse, desc, eventLog(ref.events))
	}
	if ref.dumpErr != nil {
		t.Fatalf("C05 violated: tables unreadable after the fault-free operation: %v (open transactions %d, connections in use %d)\n  case: %s", ref.dumpErr, ref.openTx, ref.inUse, desc)
	}
	if ref.dump == ref.pre {
		// The fault-free run changed nothing. Sessions derived before the
		// operation are to blame only if the same operation without them does
		// change the database; otherwise the operation is a no-op by itself.
		if len(op.Pre) > 0 {
			plain := op
			plain.Pre = nil
			if alone := runOnce(base, plain, fault{}); alone.err == nil && alone.dumpErr == nil && alone.dump != alone.pre {
				t.Fatalf("C05 violated: the fault-free operation reported success but changed nothing after sessions %v were derived from the handle; without them the same operation applies\n  case: %s\n  driver calls:\n%s", op.Pre, desc, eventLog(ref.events))
			}
		}
		if op.Conflict != "" {
			// ON CONFLICT DO NOTHING skipped every record, or the upsert rewrote
			// an existing row with the values it already has (a map or a column
			// list upsert does not touch updated_at): nothing to apply, nothing
			// to check
			evid.Excluded("vacuous-upsert:" + op.Conflict)
			return
		}
		t.Fatalf("harness: vacuous case, the fault-free operation changed nothing\n  case: %s", desc)
	}
	if msg := blockViolation(ref); msg != "" {
		t.Fatalf("C05 violated: %s (fault-free run)\n  case: %s\n  driver calls:\n%s  audits: %v", msg, desc, eventLog(ref.events), ref.audits)
	}
	fe := faultableEvents(ref.events)
	if len(fe) != ref.faultable {
		t.Fatalf("harness: %d faultable events logged, recorder counted %d", len(fe), ref.faultable)
	}
	N, H := ref.faultable, len(ref.hooks)
	// fault-free facts used for the non-triviality rule and the class labels
	tablesTouched := map[string]bool{}
	firstWrite := -1
	labels := make([]string, N)
	for i, e := range fe {
		l, tb, w := stmtLabel(e)
		labels[i] = l
		if w {
			tablesTouched[tb] = true
			if firstWrite < 0 {
				firstWrite = i
			}
		}
	}
	multi := len(tablesTouched) >= 2
	shapeList := opShapes(op, multi)
	evid.AddExtra("operations", 1)
	evid.AddExtra("driver_faults", int64(N))
	evid.AddExtra("hook_faults", int64(H))

	verify := func(f fault, r runResult, injected error, nt bool, posLabel string, more ...string) {
		fdesc := fmt.Sprintf("%s fault=%s/%s", desc, f, posLabel)
		evid.Case(fdesc, nt, nil, append(append(append([]string(nil), shapeList...), "fault:"+posLabel), more...)...)
		where := fmt.Sprintf("\n  case: %s\n  fault: %s (%s) of N=%d driver calls, H=%d hook invocations\n  driver calls of the faulted run:\n%s  hooks of the faulted run: %v",
			desc, f, posLabel, N, H, eventLog(r.events), hookNames(r.hooks))
		if r.histErr != "" {
			t.Fatalf("C05 violated: %s%s", r.histErr, where)
		}
		if r.hung {
			t.Fatalf("C05 violated: the failed operation returned with its transaction still open inside db.Connection (Connection then waits for ever to release the connection)%s", where)
		}
		if !r.fired {
			t.Fatalf("harness: the planned fault was never reached (the operation is not deterministic)%s", where)
		}
		if msg := blockViolation(r); msg != "" {
			t.Fatalf("C05 violated: %s%s\n  audits: %v", msg, where, r.audits)
		}
		if r.swallowed > 0 && r.err == nil {
			// the failure hit a write block of a hook that tolerates it: the block
			// left nothing (checked above), the operation itself completes
			if r.openTx != 0 || r.inUse != 0 {
				t.Fatalf("C05 violated: after the operation %d transaction(s) still open, %d connection(s) still checked out%s", r.openTx, r.inUse, where)
			}
			if r.dumpErr != nil {
				t.Fatalf("C05 violated: tables unreadable after the operation: %v%s", r.dumpErr, where)
			}
			if withoutAudits(r.dump) != withoutAudits(ref.dump) {
				t.Fatalf("C05 violated: a hook tolerated the failure of its own write block, the operation reported success but was not applied completely%s\n  tables of the fault-free run:\n%s  tables after:\n%s", where, indent(ref.dump), indent(r.dump))
			}
			return
		}
		if r.err == nil {
			t.Fatalf("C05 violated: a failing step was not reported: result.Error is nil (RowsAffected %d)%s", r.rows, where)
		}
		if r.swallowed > 0 {
			injected = r.err // swallowed inside a hook and still failed later: only "reported, nothing applied" is required
		}
		if !errors.Is(r.err, injected) {
			t.Fatalf("C05 violated: result.Error does not wrap the injected failure: %q%s", r.err.Error(), where)
		}
		if r.openTx != 0 || r.inUse != 0 {
			t.Fatalf("C05 violated: after the failed operation %d transaction(s) still open, %d connection(s) still checked out%s", r.openTx, r.inUse, where)
		}
		if r.dumpErr != nil {
			t.Fatalf("C05 violated: tables unreadable after the failed operation: %v%s", r.dumpErr, where)
		}
		if r.dump != r.pre {
			t.Fatalf("C05 violated: the operation failed (%v) but was partly applied%s\n  tables before:\n%s  tables after:\n%s", r.err, where, indent(r.pre), indent(r.dump))
		}
	}

	// a case with hundreds of records has hundreds of hook and Rows.Next
	// positions that differ only in the record they belong to: first, middle
	// and last are tried (every driver call still fails in turn)
	pick := func(n int) []int {
		if op.Wide == nil || n <= 3 {
			all := make([]int, n)
			for i := range all {
				all[i] = i
			}
			return all
		}
		return []int{0, n / 2, n - 1}
	}
	for k := 0; k < N && familyOn("driver"); k++ {
		// the value the failing call returns rotates over the positions; a
		// COMMIT is tried with every value
		if isRollback(fe[k]) {
			// ROLLBACK TO SAVEPOINT (after a hook's write block failed by itself):
			// faults are never injected into a rollback (DESIGN.md 2.3)
			evid.Excluded("fault-position-is-a-rollback")
			continue
		}
		vals := []namedErr{faultErrors[(k+op.Rot)%len(faultErrors)]}
		if labels[k] == "commit" {
			vals = append(append([]namedErr(nil), faultErrors...), commitOnlyErrors...)
		}
		for _, v := range vals {
			f := fault{kind: "driver", idx: k, err: v}
			r := runOnce(base, op, f)
			verify(f, r, v.err, multi && firstWrite >= 0 && k > firstWrite, "drv:"+labels[k], "err:"+v.name)
		}
	}
	// lazily reported statement failures: the j-th Rows.Next of the operation
	// (rows of INSERT/UPDATE/DELETE ... RETURNING) fails, which the caller of
	// the driver sees only through rows.Err()
	evid.AddExtra("rows_next_faults", int64(len(ref.nexts)))
	for _, j := range pick(len(ref.nexts)) {
		if !familyOn("next") {
			break
		}
		v := faultErrors[(j+op.Rot+3)%len(faultErrors)]
		f := fault{kind: "next", idx: j, err: v}
		r := runOnce(base, op, f)
		l, _, _ := stmtLabel(recdrv.Event{Kind: recdrv.Query, Text: ref.nexts[j].query})
		verify(f, r, v.err, multi && firstWrite >= 0 && ref.nexts[j].drvBefore-1 > firstWrite, "next:"+l, "err:"+v.name)
	}
	for _, h := range pick(H) {
		if !familyOn("hook") {
			break
		}
		f := fault{kind: "hook", idx: h}
		r := runOnce(base, op, f)
		verify(f, r, errHook, multi && firstWrite >= 0 && ref.hooks[h].drvBefore > firstWrite, "hook:"+ref.hooks[h].name)
	}
	if !op.Ctx || !familyOn("cancel") {
		return
	}
	// context-bound handle: every hook invocation in turn cancels the context of
	// the operation and returns nil. The operation may then complete (stored,
	// nil error) or fail (nothing stored, error) - never "nothing stored, nil".
	evid.AddExtra("cancel_faults", int64(H))
	for _, h := range pick(H) {
		f := fault{kind: "cancel", idx: h}
		r := runOnce(base, op, f)
		posLabel := "cancel:" + ref.hooks[h].name
		evid.Case(fmt.Sprintf("%s fault=%s/%s", desc, f, posLabel), multi && firstWrite >= 0 && ref.hooks[h].drvBefore > firstWrite, nil,
			append(append([]string(nil), shapeList...), "fault:"+posLabel)...)
		where := fmt.Sprintf("\n  case: %s\n  fault: %s (%s) of N=%d driver calls, H=%d hook invocations\n  driver calls of the run:\n%s  hooks of the run: %v",
			desc, f, posLabel, N, H, eventLog(r.events), hookNames(r.hooks))
		if r.hung {
			t.Fatalf("C05 violated: the operation whose context was cancelled returned with its transaction still open inside db.Connection%s", where)
		}
		if !r.fired {
			t.Fatalf("harness: the planned hook invocation was never reached (the operation is not deterministic)%s", where)
		}
		if r.openTx != 0 || r.inUse != 0 {
			t.Fatalf("C05 violated: after the operation whose context was cancelled %d transaction(s) still open, %d connection(s) still checked out (result.Error %v)%s", r.openTx, r.inUse, r.err, where)
		}
		if r.dumpErr != nil {
			t.Fatalf("C05 violated: tables unreadable after the operation whose context was cancelled: %v%s", r.dumpErr, where)
		}
		if msg := blockViolation(r); msg != "" {
			t.Fatalf("C05 violated: %s%s\n  audits: %v", msg, where, r.audits)
		}
		switch {
		case r.err == nil && r.dump == ref.dump:
			// completed in spite of the cancellation: allowed
		case r.err == nil && r.dump == r.pre:
			t.Fatalf("C05 violated: a failing step was not reported: the context of the operation ended inside a hook, nothing was stored, and result.Error is nil (RowsAffected %d)%s", r.rows, where)
		case r.err == nil:
			t.Fatalf("C05 violated: result.Error is nil but the operation was only partly applied after its context ended inside a hook%s\n  tables before:\n%s  tables after:\n%s", where, indent(r.pre), indent(r.dump))
		case r.dump != r.pre:
			t.Fatalf("C05 violated: the operation failed (%v) but was partly applied%s\n  tables before:\n%s  tables after:\n%s", r.err, where, indent(r.pre), indent(r.dump))
		}
	}
}

// opShapes lists the class labels of an operation.
func opShapes(op Op, multi bool) []string {
	shape := map[string]bool{"op:" + op.Kind: true}
	for _, o := range op.Owners {
		o.shapes(shape)
	}
	if op.NoReturning {
		shape["dialect:no-returning"] = true
	} else {
		shape["dialect:returning"] = true
	}
	if op.Audit {
		shape["hooks:write-audit-rows"] = true
	}
	if op.Ctx {
		shape["handle:with-context"] = true
	}
	switch op.AuditVia {
	case "session":
		shape["hooks:audit-via-derived-session"] = true
	case "batches", "transaction":
		shape["hooks:audit-block:"+op.AuditVia] = true
		if op.Swallow {
			shape["hooks:audit-block-error-swallowed"] = true
		} else {
			shape["hooks:audit-block-error-returned"] = true
		}
		if op.AuditFail != "" {
			shape["hooks:audit-block-fails-by-itself"] = true
		}
	}
	if op.CustomJoin {
		shape["join:custom-model-with-hooks"] = true
	}
	if op.Plain {
		shape["model:hook-less-root"] = true
	}
	if op.Wide != nil {
		shape["size:>499-join-rows"] = true
		shape["rel:many2many"] = true
		if op.Wide.Shared {
			shape["size:>499-join-rows:shared-targets"] = true
		}
	}
	if op.Scope != "" {
		shape["chain:scopes:"+op.Scope] = true
	}
	if op.Form != "" && op.Kind != kDelete {
		shape["form:"+op.Kind+":"+op.Form] = true
	}
	if op.Ptrs {
		shape["form:slice-of-pointers"] = true
	}
	if op.Conflict != "" {
		shape["clause:on-conflict:"+op.Conflict] = true
	}
	if len(op.Cols) > 0 {
		shape["chain:select:"+strings.Join(op.Cols, ",")] = true
	}
	if len(op.Omit) > 0 {
		shape["chain:omit:"+strings.ReplaceAll(strings.Join(op.Omit, ","), clause.Associations, "clause.Associations")] = true
	}
	if op.BatchVia != "" {
		shape["option:create-batch-size:"+op.BatchVia] = true
	}
	if op.FullVia != "" {
		shape["option:full-save-associations:"+op.FullVia] = true
	}
	for _, c := range op.Config {
		shape["config:"+c] = true
	}
	if op.InTx {
		shape["history:inside-transaction(savepoint)"] = true
	}
	if op.OnConn {
		shape["handle:db.Connection"] = true
	}
	for _, h := range op.Hist {
		shape["history:"+h] = true
	}
	if op.Plugin {
		shape["hooks:plugin-callbacks"] = true
	}
	if op.Returning {
		shape["clause:returning"] = true
	}
	for _, ps := range op.Pre {
		shape["pre:session:"+ps.Opt] = true
		if ps.Reg != "" {
			shape["pre:callback-"+ps.Reg+":"+ps.Pipe] = true
		}
		if ps.Use {
			shape["pre:session-used"] = true
		}
	}
	if op.Kind == kDeleteNote {
		shape["delete:form:"+op.Form] = true
		if op.Unscoped {
			shape["delete:unscoped"] = true
		}
	}
	if op.Kind == kDelete {
		if len(op.Select) == 0 {
			shape["delete:plain"] = true
		}
		for _, s := range op.Select {
			if s == clause.Associations {
				s = "clause.Associations"
			}
			shape["delete:select:"+s] = true
		}
		shape["delete:form:"+op.Form] = true
		if op.Unscoped {
			shape["delete:unscoped"] = true
		}
	}
	if multi {
		shape["tables:>=2"] = true
	} else {
		shape["tables:1"] = true
	}
	var shapeList []string
	for k := range shape {
		shapeList = append(shapeList, k)
	}
	sort.Strings(shapeList)
	return shapeList
}

// checkNatural handles operations that fail by themselves: the last record
// carries the unique code of an existing owner, so its INSERT/UPDATE violates
// the unique index. No fault is injected; the operation must report the
// constraint error, apply nothing (association rows written before the failing
// statement, earlier batches) and finish its transaction.
func checkNatural(t fataler, c Case, base *content) {
	desc := c.String()
	r := runOnce(base, c.Op, fault{})
	if r.hung {
		t.Fatalf("C05 violated: the operation (which fails by itself on a unique index) returned with its transaction still open inside db.Connection\n  case: %s\n  driver calls:\n%s", desc, eventLog(r.events))
	}
	fe := faultableEvents(r.events)
	tablesTouched := map[string]bool{}
	firstWrite, failedAt := -1, -1
	failLabel := ""
	// the failing statement is the last write the operation issued (with
	// RETURNING the driver reports the violation while the rows are read, so
	// the recorded call itself carries no error)
	for i, e := range fe {
		l, tb, w := stmtLabel(e)
		if w {
			tablesTouched[tb] = true
			failedAt, failLabel = i, l
			if firstWrite < 0 {
				firstWrite = i
			}
		}
	}
	multi := len(tablesTouched) >= 2
	where := fmt.Sprintf("\n  case: %s\n  driver calls:\n%s  hooks: %v", desc, eventLog(r.events), hookNames(r.hooks))
	last := c.Op.Owners[len(c.Op.Owners)-1]
	collides := false
	for id, code := range base.codes {
		if code == last.Code {
			collides = true
			for _, o := range c.Op.Owners {
				if o.ID == id {
					collides = false
				}
			}
		}
	}
	if !collides || failedAt < 0 || !strings.HasSuffix(failLabel, ":owners") {
		t.Fatalf("harness: the generated record does not collide with an existing unique code%s", where)
	}
	evid.AddExtra("operations", 1)
	evid.AddExtra("natural_failures", 1)
	evid.Case(desc+" fault=none/natural:unique-collision", multi && firstWrite >= 0 && failedAt > firstWrite, nil,
		append(opShapes(c.Op, multi), "fault:natural:unique-collision:"+failLabel)...)
	if r.err == nil {
		t.Fatalf("C05 violated: a failing step was not reported: the last record carries the unique code %q of another owner (its INSERT/UPDATE violates the unique index) but result.Error is nil (RowsAffected %d)%s\n  tables before:\n%s  tables after:\n%s", last.Code, r.rows, where, indent(r.pre), indent(r.dump))
	}
	if !strings.Contains(r.err.Error(), "UNIQUE constraint failed") && !errors.Is(r.err, gorm.ErrDuplicatedKey) { // the latter under Config.TranslateError
		t.Fatalf("C05 violated: result.Error does not carry the constraint violation of the failing statement: %q%s", r.err.Error(), where)
	}
	if r.openTx != 0 || r.inUse != 0 {
		t.Fatalf("C05 violated: after the failed operation %d transaction(s) still open, %d connection(s) still checked out%s", r.openTx, r.inUse, where)
	}
	if r.dumpErr != nil {
		t.Fatalf("C05 violated: tables unreadable after the failed operation: %v%s", r.dumpErr, where)
	}
	if r.dump != r.pre {
		t.Fatalf("C05 violated: the operation failed (%v) but was partly applied%s\n  tables before:\n%s  tables after:\n%s", r.err, where, indent(r.pre), indent(r.dump))
	}
}

// familyOn: development aid (sensitivity experiments) - VERIF_C05_FAULTS limits
// the fault families that are run (driver,hook,cancel,natural); unset = all.
func familyOn(name string) bool {
	v := os.Getenv("VERIF_C05_FAULTS")
	if v == "" {
		return true
	}
	for _, f := range strings.Split(v, ",") {
		if f == name {
			return true
		}
	}
	return false
}

func hookNames(h []hookCall) []string {
	out := make([]string, len(h))
	for i, x := range h {
		out[i] = x.name
	}
	return out
}

func indent(s string) string {
	return "    " + strings.ReplaceAll(strings.TrimRight(s, "\n"), "\n", "\n    ") + "\n"
}

// ---- generators --------------------------------------------------------------------------------

var nameGen = rapid.SampledFrom([]string{"a", "b", "c", "d", "e", "f"})

// small counts, biased towards 0..2 (bounds: <=4 children)
func countGen(max int) *rapid.Generator[int] {
	return rapid.Custom(func(t *rapid.T) int {
		n := rapid.SampledFrom([]int{0, 0, 0, 1, 1, 1, 2, 2, 3, 4}).Draw(t, "n")
		if n > max {
			n = max
		}
		return n
	})
}

// idSource hands out keys for one table of one operation graph: 0 (generated by
// the database), an existing key, or a new explicit key. Explicit new keys are
// spaced so that generated keys following them cannot collide.
type idSource struct {
	existing []uint
	used     map[uint]bool
	next     uint
	distinct bool // keys must be distinct inside the operation (children); shared targets may repeat
}

func newIDSource(existing []uint, distinct bool) *idSource {
	return &idSource{existing: existing, used: map[uint]bool{}, next: 500, distinct: distinct}
}

func (s *idSource) draw(t *rapid.T, label string, allowExisting, allowFresh bool) uint {
	switch rapid.SampledFrom([]string{"auto", "auto", "auto", "existing", "existing", "fresh"}).Draw(t, label) {
	case "existing":
		if !allowExisting {
			return 0
		}
		var cand []uint
		for _, id := range s.existing {
			if !s.distinct || !s.used[id] {
				cand = append(cand, id)
			}
		}
		if len(cand) == 0 {
			return 0
		}
		id := rapid.SampledFrom(cand).Draw(t, label+"-existing")
		s.used[id] = true
		return id
	case "fresh":
		if !allowFresh {
			return 0
		}
		id := s.next
		s.next += 100
		return id
	}
	return 0
}

type idSources struct {
	owners, companies, regions, profiles, items, parts, tags, notes *idSource
}

func newIDSources(base *content) *idSources {
	return &idSources{
		owners:    newIDSource(base.ids["owners"], true),
		companies: newIDSource(base.ids["companies"], false),
		regions:   newIDSource(base.ids["regions"], false),
		profiles:  newIDSource(base.ids["profiles"], true),
		items:     newIDSource(base.ids["items"], true),
		parts:     newIDSource(base.ids["parts"], true),
		tags:      newIDSource(base.ids["tags"], false),
		notes:     newIDSource(base.ids["notes"], true),
	}
}

// drawGraph draws the associations of one owner. With ids == nil every key is 0.
func drawGraph(t *rapid.T, o *OwnerSpec, ids *idSources, small bool) {
	maxKids := 4
	if small {
		maxKids = 2
	}
	id := func(s func() *idSource, label string) uint {
		if ids == nil {
			return 0
		}
		return s().draw(t, label, true, true)
	}
	// shared targets (belongs-to, many2many) repeat the same explicit key only
	// with identical content: one key = one record
	if rapid.IntRange(0, 2).Draw(t, "has-company") > 0 {
		c := &CompanySpec{ID: id(func() *idSource { return ids.companies }, "company-id")}
		c.Name = fmt.Sprintf("co%d", c.ID)
		if c.ID == 0 {
			c.Name = "co-" + nameGen.Draw(t, "company-name")
		}
		if rapid.IntRange(0, 2).Draw(t, "has-region") == 0 {
			r := &RegionSpec{ID: id(func() *idSource { return ids.regions }, "region-id")}
			r.Name = fmt.Sprintf("rg%d", r.ID)
			if r.ID == 0 {
				r.Name = "rg-" + nameGen.Draw(t, "region-name")
			}
			c.Region = r
		}
		o.Company = c
	}
	if rapid.IntRange(0, 2).Draw(t, "has-profile") == 0 {
		o.Profile = &ProfileSpec{ID: id(func() *idSource { return ids.profiles }, "profile-id"), Bio: "bio-" + nameGen.Draw(t, "bio")}
	}
	for i, n := 0, countGen(maxKids).Draw(t, "items"); i < n; i++ {
		it := ItemSpec{ID: id(func() *idSource { return ids.items }, "item-id"), Name: "it-" + nameGen.Draw(t, "item-name"), Qty: rapid.IntRange(1, 9).Draw(t, "qty")}
		for j, m := 0, countGen(2).Draw(t, "parts"); j < m; j++ {
			it.Parts = append(it.Parts, PartSpec{ID: id(func() *idSource { return ids.parts }, "part-id"), Name: "pt-" + nameGen.Draw(t, "part-name")})
		}
		o.Items = append(o.Items, it)
	}
	for i, n := 0, countGen(maxKids).Draw(t, "tags"); i < n; i++ {
		tg := TagSpec{ID: id(func() *idSource { return ids.tags }, "tag-id")}
		tg.Name = fmt.Sprintf("tg%d", tg.ID)
		if tg.ID == 0 {
			tg.Name = "tg-" + nameGen.Draw(t, "tag-name")
		}
		tg.BackRef = ids != nil && rapid.IntRange(0, 3).Draw(t, "tag-backref") == 0
		o.Tags = append(o.Tags, tg)
	}
	for i, n := 0, countGen(maxKids).Draw(t, "notes"); i < n; i++ {
		o.Notes = append(o.Notes, NoteSpec{ID: id(func() *idSource { return ids.notes }, "note-id"), Text: "nt-" + nameGen.Draw(t, "note")})
	}
	if rapid.IntRange(0, 3).Draw(t, "has-badge") == 0 {
		o.Badge = "bd-" + nameGen.Draw(t, "badge")
	}
	// rarely: one relation with more children than the slices gorm collects
	// association values in are pre-sized for (cap 10)
	wideOdds := 59 // expensive (>= 44 more hook positions): rarer in the quick tier
	if harness.Thorough() {
		wideOdds = 24
	}
	if ids != nil && !small && rapid.IntRange(0, wideOdds).Draw(t, "wide") == 0 {
		switch rapid.SampledFrom([]string{"items", "tags", "notes"}).Draw(t, "wide-relation") {
		case "items":
			for len(o.Items) < 11 {
				o.Items = append(o.Items, ItemSpec{Name: fmt.Sprintf("it-w%d", len(o.Items)), Qty: 1})
			}
		case "tags":
			for len(o.Tags) < 11 {
				o.Tags = append(o.Tags, TagSpec{Name: fmt.Sprintf("tg-w%d", len(o.Tags))})
			}
		case "notes":
			for len(o.Notes) < 11 {
				o.Notes = append(o.Notes, NoteSpec{Text: fmt.Sprintf("nt-w%d", len(o.Notes))})
			}
		}
	}
}

func drawOwner(t *rapid.T, ids *idSources, ownerID uint, small bool) OwnerSpec {
	o := OwnerSpec{ID: ownerID, Name: "ow-" + nameGen.Draw(t, "owner-name"), Val: rapid.IntRange(1, 9).Draw(t, "val")}
	drawGraph(t, &o, ids, small)
	return o
}

func drawInit(t *rapid.T, minOwners int) InitSpec {
	var in InitSpec
	for i, n := 0, rapid.IntRange(0, 2).Draw(t, "init-companies"); i < n; i++ {
		c := CompanySpec{Name: "co-" + nameGen.Draw(t, "init-company")}
		if rapid.Bool().Draw(t, "init-company-region") {
			c.Region = &RegionSpec{Name: "rg-" + nameGen.Draw(t, "init-region")}
		}
		in.Companies = append(in.Companies, c)
	}
	for i, n := 0, rapid.IntRange(0, 2).Draw(t, "init-tags"); i < n; i++ {
		in.Tags = append(in.Tags, TagSpec{Name: "tg-" + nameGen.Draw(t, "init-tag")})
	}
	for i, n := 0, rapid.IntRange(minOwners, 3).Draw(t, "init-owners"); i < n; i++ {
		o := drawOwner(t, nil, 0, true)
		o.Code = fmt.Sprintf("k%d", i+1) // every initial owner holds a unique code
		in.Owners = append(in.Owners, o)
	}
	return in
}

func kinds() []string {
	if v := os.Getenv("VERIF_C05_KINDS"); v != "" {
		return strings.Split(v, ",")
	}
	return allKinds
}

// pickExisting draws 1..max distinct existing owner keys.
func pickExisting(t *rapid.T, existing []uint, max int) []uint {
	if max > len(existing) {
		max = len(existing)
	}
	n := rapid.IntRange(1, max).Draw(t, "targets")
	perm := rapid.Permutation(existing).Draw(t, "target-order")
	out := append([]uint(nil), perm[:n]...)
	return out
}

var colOptions = []struct{ cols, omit []string }{
	{}, {}, {}, {},
	{omit: []string{clause.Associations}},
	{omit: []string{"Tags.*"}},
	{omit: []string{"Items", "Profile"}},
	{omit: []string{"Company.Region"}},
	{cols: []string{"Name", "Val", "Code", "Items", "Tags"}},
	{cols: []string{"Name", "Val", "Code", "Company", "Badge"}},
}

var deleteSelects = [][]string{
	nil, nil,
	{clause.Associations}, {clause.Associations}, {clause.Associations},
	{"Items"}, {"Profile"}, {"Tags"}, {"Notes"},
	{"Items", "Tags"}, {"Profile", "Notes"}, {"Items", "Profile", "Tags", "Notes"},
}

// drawCase draws initial content and operation; it returns the materialized
// initial content too (the operation's keys refer to it).
func drawCase(t *rapid.T) (Case, *content) {
	kind := rapid.SampledFrom(kinds()).Draw(t, "kind")
	minOwners := 0
	switch kind {
	case kSave, kSaveMissing, kUpdatesFull, kUpdatesMap, kUpdatesStruct, kUpdateCol, kDelete, kDeleteNote:
		minOwners = 1
	}
	in := drawInit(t, minOwners)
	if kind == kDeleteNote && len(in.Owners[0].Notes) == 0 {
		in.Owners[0].Notes = []NoteSpec{{Text: "nt-" + nameGen.Draw(t, "init-note")}}
	}
	base, err := materialize(in)
	if err != nil {
		b, _ := json.Marshal(in)
		t.Fatalf("C05 violated: a fault-free Create failed while the initial content was built: %v\n  initial content: %s", err, b)
	}
	ids := newIDSources(base)
	op := Op{Kind: kind}
	op.NoReturning = rapid.IntRange(0, 3).Draw(t, "no-returning") == 0
	op.Audit = rapid.IntRange(0, 3).Draw(t, "audit") == 0
	if op.Audit {
		op.AuditVia = rapid.SampledFrom([]string{"", "session", "batches", "transaction"}).Draw(t, "audit-via")
		if op.AuditVia == "batches" || op.AuditVia == "transaction" {
			op.Swallow = rapid.Bool().Draw(t, "audit-swallow")
			if op.Swallow && rapid.Bool().Draw(t, "audit-block-fails") {
				op.AuditFail = "natural"
			}
		}
	}
	op.Ctx = rapid.IntRange(0, 2).Draw(t, "with-context") == 0
	op.CustomJoin = rapid.IntRange(0, 3).Draw(t, "custom-join") == 0
	switch kind {
	case kSave, kSaveMissing, kUpdatesFull, kUpdatesMap, kUpdatesStruct, kUpdateCol, kDelete, kDeleteNote:
		op.Returning = rapid.Bool().Draw(t, "returning")
	}
	op.Plugin = rapid.IntRange(0, 4).Draw(t, "plugin-callbacks") == 0
	if h := rapid.SampledFrom([]string{"", "", "", "prior-write", "prior-failed-write"}).Draw(t, "history-write"); h != "" {
		op.Hist = []string{h}
	}
	for _, c := range []string{"PrepareStmt", "TranslateError"} {
		if rapid.IntRange(0, 7).Draw(t, "config-"+c) == 0 {
			op.Config = append(op.Config, c)
		}
	}
	existingOK := false
	switch kind {
	case kCreate, kCreateSlice, kCreateBatches, kCreateMap:
		op.Conflict = rapid.SampledFrom([]string{"", "", "", "nothing", "update-all", "columns"}).Draw(t, "on-conflict")
		existingOK = op.Conflict != ""
	}
	switch kind {
	case kCreate, kCreateSlice, kSave, kSaveSlice, kUpdatesFull:
		if via := rapid.SampledFrom([]string{"", "", "", "session", "config"}).Draw(t, "batch-size-via"); via != "" {
			op.BatchVia, op.Batch = via, rapid.IntRange(1, 2).Draw(t, "batch-size")
		}
	}
	if kind == kUpdatesFull && rapid.IntRange(0, 2).Draw(t, "full-via-config") == 0 {
		op.FullVia = "config"
	}
	for i, n := 0, rapid.SampledFrom([]int{0, 0, 1, 1, 2}).Draw(t, "pre-sessions"); i < n; i++ {
		ps := PreStep{Opt: rapid.SampledFrom(sessionOptionNames()).Draw(t, "pre-session"), Use: rapid.Bool().Draw(t, "pre-session-use")}
		if ps.Reg = rapid.SampledFrom([]string{"", "", "register", "replace", "remove"}).Draw(t, "pre-session-callback"); ps.Reg != "" {
			// mostly the pipeline the operation itself runs through, and often
			// through a handle whose settings differ in what the pipelines consult
			// when they are compiled (the transaction callbacks are registered
			// with Match(!SkipDefaultTransaction))
			own := "create"
			switch kind {
			case kUpdatesFull, kUpdatesMap, kUpdatesStruct, kUpdateCol:
				own = "update"
			case kDelete, kDeleteNote:
				own = "delete"
			}
			ps.Pipe = rapid.SampledFrom([]string{own, own, own, own, "create", "update", "delete"}).Draw(t, "pre-session-pipeline")
			if rapid.IntRange(0, 2).Draw(t, "pre-session-skips-transaction") == 0 {
				ps.Opt = rapid.SampledFrom([]string{"SkipDefaultTransaction", "NewDB+SkipDefaultTransaction", "NewDB+SkipDefaultTransaction+SkipHooks"}).Draw(t, "pre-session-skip-option")
			}
		}
		op.Pre = append(op.Pre, ps)
	}
	op.Rot = rapid.IntRange(0, len(faultErrors)-1).Draw(t, "error-rotation")
	switch kind {
	case kCreate:
		op.Owners = []OwnerSpec{drawOwner(t, ids, ids.owners.draw(t, "owner-id", existingOK, true), false)}
	case kCreateSlice:
		n := rapid.IntRange(1, 3).Draw(t, "owners")
		for i := 0; i < n; i++ {
			op.Owners = append(op.Owners, drawOwner(t, ids, ids.owners.draw(t, "owner-id", existingOK, true), true))
		}
		op.Ptrs = rapid.Bool().Draw(t, "ptrs")
		if n == 2 && rapid.IntRange(0, 2).Draw(t, "array") == 0 {
			op.Form, op.Ptrs = "array", false
		}
	case kCreateWide:
		// more than 499 join rows (2 join columns) / 333 (custom join model, 3
		// columns) for ONE many2many relation of ONE write
		op.Audit, op.AuditVia, op.Swallow, op.AuditFail = false, "", false, ""
		w := &WideSpec{Shared: rapid.Bool().Draw(t, "wide-shared")}
		if w.Shared {
			w.Tags = rapid.IntRange(18, 24).Draw(t, "wide-tags")
			w.Owners = (505+w.Tags-1)/w.Tags + rapid.IntRange(0, 2).Draw(t, "wide-owners-extra")
		} else {
			w.Owners = rapid.SampledFrom([]int{1, 1, 2}).Draw(t, "wide-owners")
			w.Tags = (505+w.Owners-1)/w.Owners + rapid.IntRange(0, 15).Draw(t, "wide-tags-extra")
		}
		op.Wide = w
		op.Ptrs = rapid.Bool().Draw(t, "ptrs")
	case kCreateMap:
		op.Form = rapid.SampledFrom([]string{"map", "ptr-map", "maps", "ptr-maps"}).Draw(t, "form")
		n := 1
		if strings.HasSuffix(op.Form, "maps") {
			n = rapid.IntRange(1, 3).Draw(t, "owners")
		}
		for i := 0; i < n; i++ {
			op.Owners = append(op.Owners, OwnerSpec{ID: ids.owners.draw(t, "owner-id", existingOK, true), Name: "ow-" + nameGen.Draw(t, "owner-name"), Val: rapid.IntRange(1, 9).Draw(t, "val")})
		}
		op.Audit, op.AuditVia, op.Swallow, op.AuditFail = false, "", false, ""
		if op.Form == "maps" {
			// Create of a non-pointer []map fails by itself on a dialect with
			// RETURNING (gorm.Scan has no arm for that destination: "unsupported
			// Scan, storing driver.Value type int64 into type *map"); the error is
			// reported and nothing is applied, so C05 holds, but there is nothing
			// to enumerate. Generated without RETURNING only.
			op.NoReturning = true
		}
	case kCreateBatches:
		n := rapid.IntRange(2, 4).Draw(t, "owners")
		for i := 0; i < n; i++ {
			op.Owners = append(op.Owners, drawOwner(t, ids, ids.owners.draw(t, "owner-id", existingOK, true), true))
		}
		op.Batch = rapid.IntRange(1, n).Draw(t, "batch")
		op.Ptrs = rapid.Bool().Draw(t, "ptrs")
		op.InTx = op.Batch < n && rapid.IntRange(0, 2).Draw(t, "inside-transaction") == 0
	case kSave:
		// zero key (insert), key of an existing row (update), explicit key
		// without a row (update of nothing, then the upsert fallback)
		var id uint
		switch rapid.SampledFrom([]string{"new", "existing", "existing", "missing"}).Draw(t, "save-target") {
		case "existing":
			id = rapid.SampledFrom(base.ids["owners"]).Draw(t, "owner-id")
			ids.owners.used[id] = true
		case "missing":
			id = 900
		}
		op.Owners = []OwnerSpec{drawOwner(t, ids, id, false)}
	case kSaveMissing:
		// key set, no such row, no associations, hooks do not write: Save's
		// UPDATE matches nothing (and changes nothing), then the insert fallback
		// runs as a second pipeline
		op.Audit, op.AuditVia, op.Swallow, op.AuditFail = false, "", false, ""
		op.Owners = []OwnerSpec{{ID: 900, Name: "ow-" + nameGen.Draw(t, "owner-name"), Val: rapid.IntRange(1, 9).Draw(t, "val")}}
	case kSaveSlice:
		n := rapid.IntRange(1, 3).Draw(t, "owners")
		for i := 0; i < n; i++ {
			op.Owners = append(op.Owners, drawOwner(t, ids, ids.owners.draw(t, "owner-id", true, true), true))
		}
		op.Ptrs = rapid.Bool().Draw(t, "ptrs")
	case kUpdatesFull, kUpdatesMap:
		id := rapid.SampledFrom(base.ids["owners"]).Draw(t, "owner-id")
		ids.owners.used[id] = true
		op.Owners = []OwnerSpec{drawOwner(t, ids, id, false)}
		op.NewName = "new-" + nameGen.Draw(t, "new-name")
		op.NewVal = rapid.IntRange(10, 19).Draw(t, "new-val")
		if kind == kUpdatesMap && rapid.IntRange(0, 2).Draw(t, "slice-model") == 0 {
			op.Form = "slice-model"
			op.IDs = pickExisting(t, base.ids["owners"], 3)
		}
	case kUpdatesStruct:
		op.IDs = pickExisting(t, base.ids["owners"], 1)
		op.NewName = "new-" + nameGen.Draw(t, "new-name")
		op.NewVal = rapid.IntRange(10, 19).Draw(t, "new-val")
	case kUpdateCol:
		op.Form = rapid.SampledFrom([]string{"struct", "graph", "graph", "where", "expr", "update-column", "update-columns", "subquery"}).Draw(t, "form")
		op.IDs = pickExisting(t, base.ids["owners"], 3)
		switch op.Form {
		case "struct", "expr", "update-column":
			op.IDs = op.IDs[:1]
		case "graph":
			op.IDs = op.IDs[:1]
			ids.owners.used[op.IDs[0]] = true
			op.Owners = []OwnerSpec{drawOwner(t, ids, op.IDs[0], false)}
		}
		op.NewName = "new-" + nameGen.Draw(t, "new-name")
	case kDeleteNote:
		op.Form = rapid.SampledFrom([]string{"struct", "where"}).Draw(t, "form")
		op.IDs = pickExisting(t, base.ids["notes"], 3)
		if op.Form == "struct" {
			op.IDs = op.IDs[:1]
		}
		op.Unscoped = rapid.IntRange(0, 2).Draw(t, "unscoped") == 0
	case kDelete:
		op.Form = rapid.SampledFrom([]string{"struct", "struct", "slice", "where", "pk", "model-dest", "subquery"}).Draw(t, "form")
		op.IDs = pickExisting(t, base.ids["owners"], 3)
		if op.Form == "struct" || op.Form == "model-dest" {
			op.IDs = op.IDs[:1]
		}
		op.Select = rapid.SampledFrom(deleteSelects).Draw(t, "select")
		op.Unscoped = rapid.IntRange(0, 3).Draw(t, "unscoped") == 0
	}
	// hook-less twin of the root model, where the operation takes one record
	switch {
	case kind == kCreate, kind == kSave, kind == kSaveMissing, kind == kUpdatesFull, kind == kUpdatesStruct,
		kind == kUpdatesMap && op.Form == "",
		kind == kUpdateCol && (op.Form == "struct" || op.Form == "graph" || op.Form == "expr" || op.Form == "update-column"),
		kind == kDelete && op.Form == "struct":
		if rapid.IntRange(0, 2).Draw(t, "hook-less-root") == 0 {
			op.Plain = true
			op.Audit, op.AuditVia, op.Swallow, op.AuditFail = false, "", false, "" // only Owner hooks write audit rows
			for i := range op.Owners {
				for j := range op.Owners[i].Tags {
					op.Owners[i].Tags[j].BackRef = false
				}
			}
		}
	}
	op.Scope = rapid.SampledFrom([]string{"", "", "", "", "", "", "", "", "", "", "identity", "identity", "where", "where", "session", "with-context"}).Draw(t, "scope")
	op.OnConn = !op.InTx && rapid.IntRange(0, 7).Draw(t, "on-connection") == 0
	// Select / Omit of columns and associations (the unique code is always
	// among the selected columns)
	switch {
	case kind == kCreate, kind == kCreateSlice, kind == kUpdatesFull, kind == kSave && op.Owners[0].ID != 900:
		co := rapid.SampledFrom(colOptions).Draw(t, "select-omit")
		op.Cols, op.Omit = co.cols, co.omit
	}
	// natural failure: the last record takes the unique code of an existing
	// owner other than itself (not under ON CONFLICT DO NOTHING, which also
	// swallows a unique-index conflict, nor under a column-list upsert)
	switch {
	case op.Conflict == "nothing", op.Conflict == "columns": // "columns" rewrites name and val only: an upserted row never takes the code
	case kind == kCreate, kind == kCreateSlice, kind == kCreateBatches, kind == kCreateMap, kind == kSave, kind == kSaveMissing, kind == kSaveSlice, kind == kUpdatesFull:
		last := &op.Owners[len(op.Owners)-1]
		// ... and not rewritten by the operation itself (a Save of a slice
		// upserts its earlier elements, which clears their code)
		touched := map[uint]bool{}
		for _, o := range op.Owners {
			touched[o.ID] = true
		}
		var codes []string
		for _, id := range base.ids["owners"] {
			if !touched[id] && base.codes[id] != "" {
				codes = append(codes, base.codes[id])
			}
		}
		want := rapid.IntRange(0, 4).Draw(t, "collide") == 0
		if kind == kSaveMissing {
			want = rapid.IntRange(0, 2).Draw(t, "collide-missing") == 0
		}
		if want && len(codes) > 0 {
			op.Collide = true
			last.Code = rapid.SampledFrom(codes).Draw(t, "collide-code")
		}
	}
	return Case{Init: in, Op: op}, base
}

// ---- the check -----------------------------------------------------------------------------------

const rule = "C05: rapid draws an initial database (0-3 owner graphs, loose companies and tags), one write operation " +
	"(Create of a struct / a slice, CreateInBatches, Save of a new or existing struct / of a slice, Updates under Session{FullSaveAssociations}, " +
	"Model(graph).Updates(map), Update of a column, Delete of a struct / slice / condition with Select(clause.Associations) or Select of named associations) " +
	"and its record graph (owner with belongs-to -> belongs-to, has-one, has-many -> has-many, many-to-many, polymorphic has-many; keys generated, existing or new explicit; <=3 levels, <=4 children; " +
	"dialector with or without RETURNING; hooks optionally writing audit rows). The operation runs fault-free once (N faultable driver calls, H hook invocations; must succeed and change the database); " +
	"then EVERY k<N (k-th driver call fails: BEGIN, each INSERT/UPDATE/DELETE, COMMIT) and EVERY h<H (h-th hook invocation returns an error) is run from the identical initial database. " +
	"The value a failing driver call returns rotates over {sentinel, sql.ErrTxDone, context.Canceled, context.DeadlineExceeded, io.ErrUnexpectedEOF, sql.ErrNoRows, gorm.ErrRecordNotFound and fmt.Errorf wrappers}; every COMMIT is tried with every value plus driver.ErrBadConn. " +
	"Operations on a db.WithContext handle additionally run once per hook invocation with that hook cancelling the context and returning nil (outcome must be stored+nil or nothing stored+error). " +
	"One case in five of the eligible kinds fails by itself instead (unique-index collision of the last record, no fault injected; must report the constraint error and apply nothing). " +
	"With RETURNING (dialect default for inserts; Clauses(clause.Returning{}) on half of the save/update/delete operations) every driver.Rows.Next of the operation is failed in turn too (a statement failing while it is executed lazily, visible only through rows.Err()). " +
	"Before the operation 0-2 sessions with a drawn option set (every field of gorm.Session, with and without NewDB) are derived from the default handle, half of them used for a read, three in five for registering / replacing / removing a no-op callback on the create, update or delete processor; audit-writing hooks may write through tx.Session(NewDB+SkipDefaultTransaction). " +
	"Further drawn dimensions (each with a class label): value forms (pointer/slice/slice of pointers/array/map/*map/[]map/*[]map; Updates with map, struct, Model(slice); Update with gorm.Expr; UpdateColumn(s); Delete by struct/slice/condition/primary keys/Model()+empty value/sub-query handle; soft-deleted root with and without Unscoped), " +
	"clauses (OnConflict DoNothing/UpdateAll/column list, Select/Omit of columns, associations, nested paths and Tags.*), options (CreateBatchSize and FullSaveAssociations through Session or Config, PrepareStmt, TranslateError), " +
	"type shapes (belongs-to by value, has-many of pointers, polymorphic has-one by value, many2many back-reference cycle, SetupJoinTable join model with hooks, >10 children), " +
	"handle histories (derived sessions, a prior successful / failed write through the handle, db.Connection, CreateInBatches inside db.Transaction = SAVEPOINT) and plugin callbacks registered inside the pipelines failing like hooks. " +
	"Audit-writing hooks write one row (tx.Exec / derived session) or a block of 3 rows through tx.CreateInBatches(rows, 2) / tx.Transaction(func); a block may fail by itself in its second part (repeated unique message) or by an injected fault, and the hook returns or swallows its error: a failed block leaves none of its rows, and with the error swallowed the operation applies completely. " +
	"One kind (create-many-join-rows) creates 1-30 owners whose many2many relation yields 505-560 join rows in one write (new or shared tags, generated or SetupJoinTable join model); there every driver call fails in turn but only the first, middle and last hook / Rows.Next positions are tried. " +
	"One evaluation = one faulted run. Non-trivial = the operation writes >=2 tables and the fault lands after the first write statement succeeded. " +
	"Distinct = initial content + operation + record graph + fault position."

func TestC05(t *testing.T) {
	evid.Rule(rule)
	evid.Extra("exhaustive_per_case", true)
	rapid.Check(t, func(rt *rapid.T) {
		c, base := drawCase(rt)
		if saveFallbackWrites(c, base) && harness.OpenClass("C05", classSaveFallback) {
			evid.Excluded(classSaveFallback)
			return
		}
		if hookBlockInAssociationSave(c) && harness.OpenClass("C05", classHookBlockAssoc) {
			evid.Excluded(classHookBlockAssoc)
			return
		}
		if scopeReturnsSession(c) && harness.OpenClass("C05", classScopeSession) {
			evid.Excluded(classScopeSession)
			return
		}
		evid.Journal(c.String())
		checkCase(rt, c, base)
	})
}

// ---- listed finding: Save falls back to a second, separate transaction ---------------------------

// classSaveFallback: Save(&record) where the record's non-zero primary key has
// no row, and the record carries associations (or its hooks write). Save first
// runs the UPDATE pipeline in its own transaction - which commits the
// association upserts and hook writes although the UPDATE matched nothing - and
// then a second Create pipeline in another transaction (finisher_api.go Save).
// Any failure in the second pipeline is reported, but the first one stays applied.
const classSaveFallback = "save-fallback-second-transaction"

func saveFallbackWrites(c Case, base *content) bool {
	if c.Op.Kind != kSave || len(c.Op.Owners) != 1 {
		return false
	}
	o := c.Op.Owners[0]
	if o.ID == 0 {
		return false
	}
	for _, id := range base.ids["owners"] {
		if id == o.ID {
			return false
		}
	}
	sh := map[string]bool{}
	o.shapes(sh)
	return len(sh) > 0 || c.Op.Audit
}

// classHookBlockAssoc: a hook of a record that is being saved as an ASSOCIATION
// issues a write block of its own through its handle (tx.CreateInBatches with
// more than one batch, or tx.Transaction(func)). saveAssociations builds the
// nested Create with Session{DisableNestedTransaction: true}; callMethod
// derives the hook's handle from it, so the block gets no SAVEPOINT: when its
// second part fails, its first part stays in the operation's transaction and
// is committed with it if the hook tolerates the error. (Hooks of the root
// record do get the SAVEPOINT.) In this generator only Owner hooks write
// blocks, and an Owner is saved as an association only through the many2many
// back-reference Tag.Owners.
const classHookBlockAssoc = "hook-write-block-in-association-save"

func hookBlockInAssociationSave(c Case) bool {
	if !c.Op.Audit || (c.Op.AuditVia != "batches" && c.Op.AuditVia != "transaction") {
		return false
	}
	// every kind that is handed a record graph saves its associations
	// (create, save, updates, Model(graph).Update); delete kinds carry no graph
	for _, o := range c.Op.Owners {
		for _, tg := range o.Tags {
			if tg.BackRef {
				return true
			}
		}
	}
	return false
}

// TestC05WitnessHookBlockInAssociationSave: Create(&Owner{Tags: [tag pointing
// back at the owner]}); the Owner hooks write 3 audit rows through
// tx.Transaction / tx.CreateInBatches(rows, 2), the block of every After* hook
// fails in its second part (repeated unique message) and the hook swallows the
// error. It fails while the defect exists: the rows of the first part written
// by the hooks that ran during the association save are committed.
func TestC05WitnessHookBlockInAssociationSave(t *testing.T) {
	for _, via := range []string{"transaction", "batches"} {
		c := Case{Op: Op{Kind: kCreate, Audit: true, AuditVia: via, AuditFail: "natural", Swallow: true,
			Owners: []OwnerSpec{{Name: "ow-a", Val: 1, Tags: []TagSpec{{Name: "tg-a", BackRef: true}}}}}}
		base, err := materialize(c.Init)
		if err != nil {
			t.Fatalf("harness: %v", err)
		}
		checkCase(t, c, base)
	}
}

// classScopeSession: the operation is chained after Scopes(func) whose function
// returns a Session-derived handle (d.Session(&gorm.Session{}), d.WithContext).
// processor.Execute continues with that handle, which is not an instance
// (clone > 0): BeginTransaction's db.InstanceSet("gorm:started_transaction")
// goes through getInstance() and stores the flag under the address of a cloned
// Statement, CommitOrRollbackTransaction's InstanceGet never finds it. The
// write returns Error == nil, no COMMIT or ROLLBACK is sent, the transaction
// stays open and its connection checked out.
const classScopeSession = "scope-returns-session-handle"

func scopeReturnsSession(c Case) bool {
	return c.Op.Scope == "session" || c.Op.Scope == "with-context"
}

// TestC05WitnessScopeSessionHandle: Create(&Owner{}) after Scopes(func(d) {
// return d.Session(&gorm.Session{}) }) / d.WithContext(ctx): the fault-free
// operation must finish its transaction. Fails while the defect exists.
func TestC05WitnessScopeSessionHandle(t *testing.T) {
	for _, sc := range []string{"session", "with-context"} {
		c := Case{Op: Op{Kind: kCreate, Scope: sc, Owners: []OwnerSpec{{Name: "ow-a", Val: 1}}}}
		base, err := materialize(c.Init)
		if err != nil {
			t.Fatalf("harness: %v", err)
		}
		checkCase(t, c, base)
	}
}

// TestC05WitnessSaveFallback asserts the property on the smallest such input:
// empty database, Save(&Owner{ID: 900, Profile: &Profile{...}}), every driver
// call and every hook failing in turn. It fails while the defect exists (the
// profile row survives a failed BEGIN/INSERT/COMMIT of the fallback insert).
func TestC05WitnessSaveFallback(t *testing.T) {
	for _, noRet := range []bool{false, true} {
		c := Case{Op: Op{Kind: kSave, NoReturning: noRet, Owners: []OwnerSpec{{ID: 900, Name: "ow-a", Val: 2, Profile: &ProfileSpec{Bio: "bio-b"}}}}}
		base, err := materialize(c.Init)
		if err != nil {
			t.Fatalf("harness: %v", err)
		}
		checkCase(t, c, base)
	}
}
