// C16 — Save, upsert and FirstOrCreate/FirstOrInit converge to the documented
// state, independent of Session/WithContext placement. See DESIGN.md §3 C16.
package c16

import (
	"context"
	"errors"
	"fmt"
	"reflect"
	"sort"
	"strings"
	"testing"
	"time"

	"gorm.io/gorm"
	"gorm.io/gorm/clause"
	"pgregory.net/rapid"

	"verif/internal/evid"
	"verif/internal/harness"
	"verif/internal/recdrv"
	"verif/internal/testdb"
)

func TestMain(m *testing.M) { harness.Main(m) }

// ---- models ---------------------------------------------------------------------------------

type Rec struct {
	ID        uint   `gorm:"primaryKey"`
	Code      string `gorm:"uniqueIndex"`
	Name      string
	Age       int `gorm:"index"` // conditions served from this index scan rows in (age, key) order
	Note      string
	CreatedAt time.Time
	UpdatedAt time.Time
}

type SRec struct {
	ID        uint   `gorm:"primaryKey"`
	Code      string `gorm:"uniqueIndex"`
	Name      string
	Age       int `gorm:"index"`
	Note      string
	CreatedAt time.Time
	UpdatedAt time.Time
	DeletedAt gorm.DeletedAt
}

// KRec: the key is assigned by the application (no database default for it).
type KRec struct {
	ID        uint   `gorm:"primaryKey;autoIncrement:false"`
	Code      string `gorm:"uniqueIndex"`
	Name      string
	Age       int `gorm:"index"`
	Note      string
	CreatedAt time.Time
	UpdatedAt time.Time
}

// DRec: two columns with database defaults - a literal one (gorm writes it itself for a zero field) and
// a computed one (left to the database for a zero field, read back through RETURNING, and documented to
// be left alone by OnConflict{UpdateAll}).
type DRec struct {
	ID        uint   `gorm:"primaryKey"`
	Code      string `gorm:"uniqueIndex"`
	Name      string `gorm:"default:dflt"`
	Age       int    `gorm:"index"`
	Note      string `gorm:"default:(lower('N'))"`
	CreatedAt time.Time
	UpdatedAt time.Time
}

func (DRec) TableName() string { return "recs" }
func (Rec) TableName() string  { return "recs" }
func (SRec) TableName() string { return "recs" }
func (KRec) TableName() string { return "recs" }

// model kinds
const (
	kPlain = iota
	kSoft
	kAppKey
	kDef
)

const (
	defName = "dflt" // DRec.Name's literal default
	defNote = "n"    // what DRec.Note's computed default evaluates to
)

var kindNames = []string{"plain", "soft", "appkey", "defaults"}

// newRec returns a pointer to a zero record of the kind's model type.
func newRec(kind int) reflect.Value {
	switch kind {
	case kSoft:
		return reflect.ValueOf(&SRec{})
	case kAppKey:
		return reflect.ValueOf(&KRec{})
	case kDef:
		return reflect.ValueOf(&DRec{})
	}
	return reflect.ValueOf(&Rec{})
}

func recOf(kind int, v Val) reflect.Value {
	p := newRec(kind)
	e := p.Elem()
	e.FieldByName("ID").SetUint(uint64(v.ID))
	e.FieldByName("Code").SetString(v.Code)
	e.FieldByName("Name").SetString(v.Name)
	e.FieldByName("Age").SetInt(int64(v.Age))
	e.FieldByName("Note").SetString(v.Note)
	return p
}

func recAttr(kind int, attrs ...Attr) reflect.Value {
	p := newRec(kind)
	e := p.Elem()
	for _, a := range attrs {
		switch a.Col {
		case "name":
			e.FieldByName("Name").SetString(a.S)
		case "note":
			e.FieldByName("Note").SetString(a.S)
		case "code":
			e.FieldByName("Code").SetString(a.S)
		case "age":
			e.FieldByName("Age").SetInt(int64(a.I))
		}
	}
	return p
}

func rowOf(p reflect.Value) Row {
	e := p.Elem()
	r := Row{ID: uint(e.FieldByName("ID").Uint()), Code: e.FieldByName("Code").String(), Name: e.FieldByName("Name").String(),
		Age: int(e.FieldByName("Age").Int()), Note: e.FieldByName("Note").String()}
	if f := e.FieldByName("DeletedAt"); f.IsValid() {
		r.Deleted = f.Interface().(gorm.DeletedAt).Valid
	}
	return r
}

// Row is the model's view of one table row (tracked timestamps aside).
type Row struct {
	ID      uint
	Code    string
	Name    string
	Age     int
	Note    string
	Deleted bool
	// Nulls: bit 0 name, bit 1 age, bit 2 note hold NULL (a map insert that leaves the column out);
	// a record read back shows the zero value for them, a condition never matches them
	Nulls uint8
}

const (
	nullName = 1 << iota
	nullAge
	nullNote
)

func nullBit(col string) uint8 {
	switch col {
	case "name":
		return nullName
	case "age":
		return nullAge
	case "note":
		return nullNote
	}
	return 0
}

func (r Row) String() string {
	d := ""
	if r.Deleted {
		d = " DELETED"
	}
	if r.Nulls != 0 {
		d += fmt.Sprintf(" NULLS:%03b", r.Nulls)
	}
	return fmt.Sprintf("{%d %q %q %d %q%s}", r.ID, r.Code, r.Name, r.Age, r.Note, d)
}

// ---- reference model ------------------------------------------------------------------------

type Model struct {
	Kind    int // kPlain | kSoft | kAppKey
	Soft    bool
	Rows    map[uint]Row
	MaxEver uint // highest key ever stored (AUTOINCREMENT never reuses)
}

func (m *Model) clone() *Model {
	c := &Model{Kind: m.Kind, Soft: m.Soft, Rows: map[uint]Row{}, MaxEver: m.MaxEver}
	for k, v := range m.Rows {
		c.Rows[k] = v
	}
	return c
}

func (m *Model) sorted() []Row {
	out := make([]Row, 0, len(m.Rows))
	for _, r := range m.Rows {
		out = append(out, r)
	}
	sort.Slice(out, func(i, j int) bool { return out[i].ID < out[j].ID })
	return out
}

func (m *Model) byCode(code string) *Row {
	for _, r := range m.sorted() {
		if r.Code == code {
			r := r
			return &r
		}
	}
	return nil
}

func (m *Model) put(r Row) {
	m.Rows[r.ID] = r
	if r.ID > m.MaxEver {
		m.MaxEver = r.ID
	}
}

// ---- operations -----------------------------------------------------------------------------

// Val is a generated record value.
type Val struct {
	ID   uint
	Code string
	Name string
	Age  int
	Note string
}

// KV is one generated attribute (column, value) in a given Go form.
type Attr struct {
	Form string // "struct" | "map" | "kv"
	Col  string // "name" | "age" | "note" | "code"
	S    string
	I    int
	L    []int // col IN (L...) - only as a map condition
	More *Attr // a second column in the same struct / map value (Attrs and Assign only)
	// Field: the key of a map / kv attribute is spelled as the Go field name ("Name") instead of the column
	// name ("name") - schema.LookUpField accepts both (Attrs and Assign only)
	Field bool
	// Nil: the value is an untyped nil ("set this column to NULL"; map and key-value forms, not the unique column)
	Nil bool
}

// key is the attribute's name as the caller spells it.
func (a Attr) key() string {
	if a.Field {
		return strings.ToUpper(a.Col[:1]) + a.Col[1:]
	}
	return a.Col
}

type Op struct {
	Kind string // save | saveslice | upsert | firstorinit | firstorcreate
	V    Val
	Vs   []Val // saveslice: the records, with distinct non-zero keys and distinct codes
	// upsert
	Rule   string   // nothing | nothing-id | updates-id | updates-code | updateall
	Subset []string // columns of DoUpdates
	// MapCols != nil: the proposed row is given as map[string]interface{} through Model(&T{}) and
	// carries only the key (when non-zero), the unique column and these columns
	MapCols []string
	// OCWhere: the rule carries OnConflict.Where `recs.age < excluded.age` - the stored row is only
	// updated when the proposed age is higher (a conditional upsert)
	OCWhere bool
	// PreOC: an OnConflict rule that is already on the chain when the operation adds its own (a default
	// set on a session, say): the later rule replaces it as a whole
	PreOC string // "" | nothing-code | updates-code
	// Deref: Save is handed a pointer to the pointer (**T, **[]T) - Save walks through every level
	Deref bool
	// first-or-*: the chain starts with Unscoped() (soft-deleted rows are matched, and written)
	Unscoped bool
	// first-or-*
	CondForm string // struct | map | inline-struct | inline-map
	Conds    []Attr // one or two equality conditions (never the primary key)
	Attrs    *Attr
	Assign   *Attr
	// where the extra Session/WithContext goes in the metamorphic variants is enumerated, not drawn
}

func (a Attr) String() string {
	if a.More != nil {
		m := *a.More
		a.More = nil
		return a.String() + "+" + m.String()
	}
	if a.L != nil {
		return fmt.Sprintf("%s:%s IN %v", a.Form, a.Col, a.L)
	}
	if a.Nil {
		return fmt.Sprintf("%s:%s=nil", a.Form, a.key())
	}
	if a.Col == "age" {
		return fmt.Sprintf("%s:%s=%d", a.Form, a.key(), a.I)
	}
	return fmt.Sprintf("%s:%s=%q", a.Form, a.key(), a.S)
}

func (o Op) String() string {
	switch o.Kind {
	case "save":
		if o.PreOC != "" {
			return fmt.Sprintf("Clauses(OnConflict{%s}).Save(%+v)", o.PreOC, o.V)
		}
		if o.Deref {
			return fmt.Sprintf("Save(**T %+v)", o.V)
		}
		return fmt.Sprintf("Save(%+v)", o.V)
	case "saveslice":
		if o.Deref {
			return fmt.Sprintf("Save(**[]T%+v)", o.Vs)
		}
		return fmt.Sprintf("Save(&[]T%+v)", o.Vs)
	case "upsertslice":
		w := ""
		if o.OCWhere {
			w = " WHERE recs.age < excluded.age"
		}
		return fmt.Sprintf("Create(&[]T%+v) OnConflict{%s %v%s}", o.Vs, o.Rule, o.Subset, w)
	case "upsert":
		w := ""
		if o.OCWhere {
			w = " WHERE recs.age < excluded.age"
		}
		if o.PreOC != "" {
			w += " (after an earlier OnConflict{" + o.PreOC + "} on the chain)"
		}
		if o.MapCols != nil {
			return fmt.Sprintf("Model(&T{}).Create(map of %+v with columns id,code,%v) OnConflict{%s %v%s}", o.V, o.MapCols, o.Rule, o.Subset, w)
		}
		return fmt.Sprintf("Create(%+v) OnConflict{%s %v%s}", o.V, o.Rule, o.Subset, w)
	}
	s := o.Kind
	if o.Unscoped {
		s += " Unscoped"
	}
	s += " conds[" + o.CondForm + "]="
	for _, c := range o.Conds {
		s += c.String() + ","
	}
	if o.Attrs != nil {
		s += " Attrs(" + o.Attrs.String() + ")"
	}
	if o.Assign != nil {
		s += " Assign(" + o.Assign.String() + ")"
	}
	return s
}

// Outcome of an operation, in the form compared between model and database and
// between metamorphic variants.
type Outcome struct {
	AutoID   bool // the stored row gets a database-assigned key (value not predicted)
	Err      bool
	ErrText  string
	Out      Row // returned / back-filled record
	OutValid bool
	Stored   *Row // the row the table ends up with, when it differs from Out (database defaults)
	// upsertslice: keys the records carry after the call (back-filled), and for the expectation the new
	// rows whose key the database assigns (matched by their unique code afterwards)
	IDs          []uint
	Fresh        []Row
	RowsAffected int64
	RAValid      bool
}

// ---- executing an operation against gorm -------------------------------------------------------

// variant: insert Session(&Session{}) or WithContext at chain position pos (-1 = none).
type variant struct {
	pos  int
	kind string // "session" | "ctx"
}

func (v variant) apply(db *gorm.DB, at int) *gorm.DB {
	if v.pos != at {
		return db
	}
	switch v.kind {
	case "session":
		return db.Session(&gorm.Session{})
	case "debug":
		return db.Debug() // a Session with another logger level (the logger itself discards)
	case "session-prepare":
		return db.Session(&gorm.Session{PrepareStmt: true})
	}
	return db.WithContext(context.WithValue(context.Background(), ctxKey{}, "c16"))
}

type ctxKey struct{}

func attrArgs(a Attr, kind int) []interface{} {
	switch a.Form {
	case "struct":
		if a.More != nil {
			return []interface{}{recAttr(kind, a, *a.More).Elem().Interface()}
		}
		return []interface{}{recAttr(kind, a).Elem().Interface()}
	case "map":
		mv := map[string]interface{}{}
		for _, x := range []*Attr{&a, a.More} {
			if x == nil {
				continue
			}
			if x.Nil {
				mv[x.key()] = nil
			} else if x.Col == "age" {
				mv[x.key()] = x.I
			} else {
				mv[x.key()] = x.S
			}
		}
		return []interface{}{mv}
	}
	if a.Nil {
		return []interface{}{a.key(), nil}
	}
	if a.Col == "age" {
		return []interface{}{a.key(), a.I}
	}
	return []interface{}{a.key(), a.S}
}

// condArgs returns the condition in the given form as the argument list of Where / the finisher.
func condArgs(conds []Attr, form string, kind int) []interface{} {
	if !strings.HasSuffix(form, "sql") {
		return []interface{}{condValue(conds, form, kind)}
	}
	var q []string
	var args []interface{}
	for _, c := range conds {
		switch {
		case c.L != nil:
			q = append(q, c.Col+" IN ?")
			args = append(args, append([]int(nil), c.L...))
		case c.Col == "age":
			q = append(q, "age = ?")
			args = append(args, c.I)
		default:
			q = append(q, c.Col+" = ?")
			args = append(args, c.S)
		}
	}
	return append([]interface{}{strings.Join(q, " AND ")}, args...)
}

func condValue(conds []Attr, form string, kind int) interface{} {
	if strings.HasSuffix(form, "map") {
		m := map[string]interface{}{}
		for _, c := range conds {
			if c.L != nil {
				m[c.Col] = append([]int(nil), c.L...)
			} else if c.Col == "age" {
				m["age"] = c.I
			} else {
				m[c.Col] = c.S
			}
		}
		return m
	}
	return recAttr(kind, conds...).Elem().Interface()
}

// fixedValue is what an assign-* rule writes into column c on conflict.
func preClause(name string) clause.OnConflict {
	if name == "updates-code" {
		return clause.OnConflict{Columns: []clause.Column{{Name: "code"}}, DoUpdates: clause.AssignmentColumns([]string{"note"})}
	}
	return clause.OnConflict{Columns: []clause.Column{{Name: "code"}}, DoNothing: true}
}

func contains(l []string, x string) bool {
	for _, y := range l {
		if y == x {
			return true
		}
	}
	return false
}

func fixedValue(c string) interface{} {
	if c == "age" {
		return 9
	}
	return "fixed-" + c
}

// chainLen is the number of chain calls before the finisher (positions 0..chainLen).
func chainLen(o Op) int {
	switch o.Kind {
	case "save", "saveslice":
		if o.PreOC != "" {
			return 1
		}
		return 0
	case "upsertslice":
		return 1
	case "upsert":
		n := 1
		if o.MapCols != nil {
			n = 2
		}
		if o.PreOC != "" {
			n++
		}
		return n
	}
	n := 0
	if o.Unscoped {
		n++
	}
	if !strings.HasPrefix(o.CondForm, "inline") {
		n++
	}
	if o.Attrs != nil {
		n++
	}
	if o.Assign != nil {
		n++
	}
	return n
}

func run(d *testdb.DB, kind int, o Op, v variant) Outcome {
	db := d.DB
	var res *gorm.DB
	out := Outcome{}
	switch o.Kind {
	case "save":
		tx := v.apply(db, 0)
		if o.PreOC != "" {
			tx = v.apply(tx.Clauses(preClause(o.PreOC)), 1)
		}
		r := recOf(kind, o.V)
		if o.Deref {
			pp := reflect.New(r.Type())
			pp.Elem().Set(r)
			res = tx.Save(pp.Interface())
		} else {
			res = tx.Save(r.Interface())
		}
		out.Out, out.OutValid = rowOf(r), true
	case "saveslice":
		tx := v.apply(db, 0)
		sl := reflect.New(reflect.SliceOf(newRec(kind).Elem().Type()))
		for _, x := range o.Vs {
			sl.Elem().Set(reflect.Append(sl.Elem(), recOf(kind, x).Elem()))
		}
		if o.Deref {
			pp := reflect.New(sl.Type())
			pp.Elem().Set(sl)
			res = tx.Save(pp.Interface())
		} else {
			res = tx.Save(sl.Interface())
		}
	case "upsertslice":
		oc := clause.OnConflict{UpdateAll: true}
		if o.Rule == "updates-id" {
			oc = clause.OnConflict{Columns: []clause.Column{{Name: "id"}}, DoUpdates: clause.AssignmentColumns(append([]string(nil), o.Subset...))}
		}
		if o.OCWhere {
			oc.Where = clause.Where{Exprs: []clause.Expression{clause.Expr{SQL: "recs.age < excluded.age"}}}
		}
		tx := v.apply(db, 0).Clauses(oc)
		tx = v.apply(tx, 1)
		sl := reflect.New(reflect.SliceOf(newRec(kind).Elem().Type()))
		for _, x := range o.Vs {
			sl.Elem().Set(reflect.Append(sl.Elem(), recOf(kind, x).Elem()))
		}
		res = tx.Create(sl.Interface())
		for i := 0; i < sl.Elem().Len(); i++ {
			out.IDs = append(out.IDs, uint(sl.Elem().Index(i).FieldByName("ID").Uint()))
		}
	case "upsert":
		var oc clause.OnConflict
		switch o.Rule {
		case "nothing":
			oc = clause.OnConflict{DoNothing: true}
		case "nothing-id":
			oc = clause.OnConflict{Columns: []clause.Column{{Name: "id"}}, DoNothing: true}
		case "updates-id":
			oc = clause.OnConflict{Columns: []clause.Column{{Name: "id"}}, DoUpdates: clause.AssignmentColumns(append([]string(nil), o.Subset...))}
		case "updates-code":
			oc = clause.OnConflict{Columns: []clause.Column{{Name: "code"}}, DoUpdates: clause.AssignmentColumns(append([]string(nil), o.Subset...))}
		case "updates-any":
			// no conflict target: whichever uniqueness the proposed row violates (key or unique column) is handled
			oc = clause.OnConflict{DoUpdates: clause.AssignmentColumns(append([]string(nil), o.Subset...))}
		case "updateall":
			oc = clause.OnConflict{UpdateAll: true}
		case "updateall-code":
			oc = clause.OnConflict{Columns: []clause.Column{{Name: "code"}}, UpdateAll: true}
		case "assign-id", "assign-code":
			// explicit values instead of the proposed row's
			am := map[string]interface{}{}
			for _, c := range o.Subset {
				am[c] = fixedValue(c)
			}
			oc = clause.OnConflict{Columns: []clause.Column{{Name: strings.TrimPrefix(o.Rule, "assign-")}}, DoUpdates: clause.Assignments(am)}
		}
		if o.OCWhere {
			oc.Where = clause.Where{Exprs: []clause.Expression{clause.Expr{SQL: "recs.age < excluded.age"}}}
		}
		if o.MapCols != nil {
			mv := map[string]interface{}{"code": o.V.Code}
			if o.V.ID != 0 {
				mv["id"] = o.V.ID
			}
			for _, c := range o.MapCols {
				switch c {
				case "name":
					mv["name"] = o.V.Name
				case "age":
					mv["age"] = o.V.Age
				case "note":
					mv["note"] = o.V.Note
				}
			}
			tx := v.apply(db, 0).Model(newRec(kind).Interface())
			at := 1
			if o.PreOC != "" {
				tx = v.apply(tx, at).Clauses(preClause(o.PreOC))
				at++
			}
			tx = v.apply(tx, at).Clauses(oc)
			tx = v.apply(tx, at+1)
			res = tx.Create(mv)
			break
		}
		tx := v.apply(db, 0)
		at := 0
		if o.PreOC != "" {
			tx = tx.Clauses(preClause(o.PreOC))
			at++
			tx = v.apply(tx, at)
		}
		tx = tx.Clauses(oc)
		tx = v.apply(tx, at+1)
		res = tx.Create(recOf(kind, o.V).Interface())
	default:
		tx := db
		at := 0
		if o.Unscoped {
			tx = v.apply(tx, at).Unscoped()
			at++
		}
		var inline []interface{}
		cv := condArgs(o.Conds, o.CondForm, kind)
		if strings.HasPrefix(o.CondForm, "inline") {
			inline = cv
		} else {
			tx = v.apply(tx, at).Where(cv[0], cv[1:]...)
			at++
		}
		if o.Attrs != nil {
			tx = v.apply(tx, at).Attrs(attrArgs(*o.Attrs, kind)...)
			at++
		}
		if o.Assign != nil {
			tx = v.apply(tx, at).Assign(attrArgs(*o.Assign, kind)...)
			at++
		}
		tx = v.apply(tx, at)
		r := newRec(kind)
		if o.Kind == "firstorinit" {
			res = tx.FirstOrInit(r.Interface(), inline...)
		} else {
			res = tx.FirstOrCreate(r.Interface(), inline...)
		}
		out.Out, out.OutValid = rowOf(r), true
	}
	if res.Error != nil {
		out.Err = true
		out.ErrText = res.Error.Error()
	}
	out.RowsAffected = res.RowsAffected
	return out
}

// insertDefaults: what an INSERT of r stores in the defaults model when the name / note are given or not,
// and what the caller's record shows afterwards (the computed default can only be read back with RETURNING).
func insertDefaults(r Row, nameGiven, noteGiven bool) (stored, out Row) {
	stored = r
	if !nameGiven {
		stored.Name = defName
	}
	if !noteGiven {
		stored.Note = defNote
	}
	out = stored
	if !noteGiven && curDims.NoReturning {
		out.Note = ""
	}
	return
}

// ---- the reference semantics -----------------------------------------------------------------

// expect applies o to the model and returns the expected outcome. wantErr
// means: the operation must fail and leave the table unchanged.
func expect(m *Model, o Op) (exp Outcome) {
	switch o.Kind {
	case "save":
		v := o.V
		if c := m.byCode(v.Code); c != nil && c.ID != v.ID {
			return Outcome{Err: true}
		}
		r := Row{ID: v.ID, Code: v.Code, Name: v.Name, Age: v.Age, Note: v.Note}
		if m.Kind == kDef {
			if _, exists := m.Rows[v.ID]; !exists || v.ID == 0 {
				// the record is inserted: zero fields take their defaults (an UPDATE of an existing key
				// writes the value as it is)
				stored, out := insertDefaults(r, v.Name != "", v.Note != "")
				if v.ID == 0 {
					return Outcome{AutoID: true, Out: out, Stored: &stored, OutValid: true, RowsAffected: 1, RAValid: true}
				}
				m.put(stored)
				return Outcome{Out: out, OutValid: true, RowsAffected: 1, RAValid: true}
			}
		}
		if v.ID == 0 {
			return Outcome{AutoID: true, Out: r, OutValid: true, RowsAffected: 1, RAValid: true}
		}
		m.put(r)
		return Outcome{Out: r, OutValid: true, RowsAffected: 1, RAValid: true}
	case "saveslice":
		w := m.clone()
		for _, v := range o.Vs {
			if c := w.byCode(v.Code); c != nil && c.ID != v.ID {
				return Outcome{Err: true} // one statement: nothing of it stays
			}
			w.put(Row{ID: v.ID, Code: v.Code, Name: v.Name, Age: v.Age, Note: v.Note})
		}
		*m = *w
		return Outcome{RowsAffected: int64(len(o.Vs)), RAValid: true}
	case "upsertslice":
		// one statement: the records are applied in order, each like a single upsert with the same rule
		w := m.clone()
		var out Outcome
		for _, v := range o.Vs {
			one := expect(w, Op{Kind: "upsert", V: v, Rule: map[string]string{"updateall": "updateall", "updates-id": "updates-id"}[o.Rule], Subset: o.Subset, OCWhere: o.OCWhere})
			if one.Err {
				return Outcome{Err: true}
			}
			if one.AutoID {
				r := one.Out
				if one.Stored != nil {
					r = *one.Stored
				}
				out.Fresh = append(out.Fresh, r)
			}
		}
		*m = *w
		return out
	case "upsert":
		v := o.V
		supplied := func(c string) bool {
			if o.MapCols == nil {
				return true
			}
			for _, x := range o.MapCols {
				if x == c {
					return true
				}
			}
			return false
		}
		// a column the map does not carry is not part of the INSERT: the proposed row has no value for it
		var vNulls uint8
		if !supplied("name") {
			v.Name, vNulls = "", vNulls|nullName
		}
		if !supplied("age") {
			v.Age, vNulls = 0, vNulls|nullAge
		}
		if !supplied("note") {
			v.Note, vNulls = "", vNulls|nullNote
		}
		var byID *Row
		if v.ID != 0 {
			if r, ok := m.Rows[v.ID]; ok {
				byID = &r
			}
		}
		byCode := m.byCode(v.Code)
		def := m.Kind == kDef
		if def {
			// columns with a default are never NULL: left out (map) or zero (struct), the default is stored -
			// v becomes the row the INSERT would store, which is also what `excluded` shows on conflict
			vNulls &^= nullName | nullNote
			nameGiven, noteGiven := v.Name != "", v.Note != ""
			if o.MapCols != nil {
				nameGiven, noteGiven = supplied("name"), supplied("note") // a map value is written as it is
			}
			if !nameGiven {
				v.Name = defName
			}
			if !noteGiven {
				v.Note = defNote
			}
		}
		if byID == nil && byCode == nil {
			r := Row{ID: v.ID, Code: v.Code, Name: v.Name, Age: v.Age, Note: v.Note, Nulls: vNulls}
			if v.ID == 0 {
				return Outcome{AutoID: true, Out: r, RowsAffected: 1, RAValid: true}
			}
			m.put(r)
			return Outcome{RowsAffected: 1, RAValid: true}
		}
		if o.Rule == "nothing" {
			return Outcome{RowsAffected: 0, RAValid: true}
		}
		var target *Row
		if o.Rule == "updates-code" || o.Rule == "updateall-code" || o.Rule == "assign-code" {
			if byCode == nil {
				return Outcome{Err: true} // primary-key conflict is not the upsert target
			}
			target = byCode
		} else if o.Rule == "updates-any" {
			// the generator keeps at most one conflicting row
			target = byID
			if target == nil {
				target = byCode
			}
		} else {
			if byID == nil {
				return Outcome{Err: true} // unique(code) conflict is not the upsert target
			}
			target = byID
		}
		t := *target
		if o.OCWhere && o.Rule != "nothing-id" {
			// NULL on either side makes the condition unknown: no update
			if t.Nulls&nullAge != 0 || vNulls&nullAge != 0 || !(t.Age < v.Age) {
				return Outcome{RowsAffected: 0, RAValid: true}
			}
		}
		switch o.Rule {
		case "nothing-id":
			return Outcome{RowsAffected: 0, RAValid: true}
		case "updates-id", "updates-code", "updates-any":
			for _, c := range o.Subset {
				switch c {
				case "name":
					t.Name = v.Name
				case "age":
					t.Age = v.Age
				case "note":
					t.Note = v.Note
				}
				t.Nulls = t.Nulls&^nullBit(c) | vNulls&nullBit(c) // excluded.col is NULL when the map left it out
			}
		case "assign-id", "assign-code":
			for _, c := range o.Subset {
				switch c {
				case "name":
					t.Name = "fixed-name"
				case "age":
					t.Age = 9
				case "note":
					t.Note = "fixed-note"
				}
				t.Nulls &^= nullBit(c)
			}
		case "updateall", "updateall-code":
			// every column except the primary key takes the proposed value (deleted_at included);
			// the row that was hit keeps its key, whatever the conflict target is
			// - of the columns the proposed row carries: a map that leaves columns out leaves them alone
			t.Code = v.Code
			if supplied("name") {
				t.Name, t.Nulls = v.Name, t.Nulls&^nullName
			}
			if supplied("age") {
				t.Age, t.Nulls = v.Age, t.Nulls&^nullAge
			}
			if supplied("note") && !def { // documented: UpdateAll leaves columns with a computed default alone
				t.Note, t.Nulls = v.Note, t.Nulls&^nullNote
			}
			if o.MapCols == nil {
				t.Deleted = false
			}
		}
		m.put(t)
		return Outcome{RowsAffected: 1, RAValid: true}
	}
	// first-or-*
	match := func(r Row) bool {
		if r.Deleted && !o.Unscoped {
			return false
		}
		for _, c := range o.Conds {
			if r.Nulls&nullBit(c.Col) != 0 {
				return false // NULL equals nothing
			}
			switch c.Col {
			case "name":
				if r.Name != c.S {
					return false
				}
			case "note":
				if r.Note != c.S {
					return false
				}
			case "age":
				if c.L != nil {
					in := false
					for _, v := range c.L {
						in = in || r.Age == v
					}
					if !in {
						return false
					}
				} else if r.Age != c.I {
					return false
				}
			}
		}
		return true
	}
	var set func(r *Row, a Attr)
	set = func(r *Row, a Attr) {
		if a.More != nil {
			defer set(r, *a.More)
		}
		r.Nulls &^= nullBit(a.Col)
		if a.Nil {
			// in memory the field becomes its zero value; an UPDATE built from it stores NULL
			r.Nulls |= nullBit(a.Col)
			a.S, a.I = "", 0
		}
		switch a.Col {
		case "name":
			r.Name = a.S
		case "note":
			r.Note = a.S
		case "code":
			r.Code = a.S
		case "age":
			r.Age = a.I
		}
	}
	for _, r := range m.sorted() {
		if !match(r) {
			continue
		}
		// found: returned unchanged, Assign applied (and stored by FirstOrCreate)
		if o.Assign != nil {
			set(&r, *o.Assign)
			if o.Kind == "firstorcreate" {
				if o.Assign.Col == "code" || (o.Assign.More != nil && o.Assign.More.Col == "code") {
					if c := m.byCode(r.Code); c != nil && c.ID != r.ID {
						return Outcome{Err: true}
					}
				}
				m.put(r)
				return Outcome{Out: r, OutValid: true, RowsAffected: 1, RAValid: true}
			}
		}
		return Outcome{Out: r, OutValid: true}
	}
	// not found: conditions + Attrs + Assign
	r := Row{}
	for _, c := range o.Conds {
		// an IN condition is no equality, and a condition written as SQL text is not taken apart
		// (documented: only struct and map conditions initialise the record)
		if c.L == nil && !strings.HasSuffix(o.CondForm, "sql") {
			set(&r, c)
		}
	}
	if o.Attrs != nil {
		set(&r, *o.Attrs)
	}
	if o.Assign != nil {
		set(&r, *o.Assign)
	}
	if o.Kind == "firstorinit" {
		return Outcome{Out: r, OutValid: true}
	}
	r.Nulls = 0 // the record is created from the struct, whose fields cannot carry NULL: zero values are stored
	if m.byCode(r.Code) != nil {
		return Outcome{Err: true}
	}
	if m.Kind == kAppKey {
		// no database default for the key: the record is stored under the key it carries (0)
		if _, taken := m.Rows[0]; taken {
			return Outcome{Err: true}
		}
		m.put(r)
		return Outcome{Out: r, OutValid: true, RowsAffected: 1, RAValid: true}
	}
	if m.Kind == kDef {
		stored, out := insertDefaults(r, r.Name != "", r.Note != "")
		return Outcome{AutoID: true, Out: out, Stored: &stored, OutValid: true, RowsAffected: 1, RAValid: true}
	}
	return Outcome{AutoID: true, Out: r, OutValid: true, RowsAffected: 1, RAValid: true}
}

// ---- database plumbing ----------------------------------------------------------------------

// dims are the configuration dimensions of a case: none of them may change any outcome.
type dims struct {
	NoReturning bool // dialector without RETURNING (keys come back through LastInsertId)
	SkipTx      bool // Config.SkipDefaultTransaction
	Prepare     bool // Config.PrepareStmt
	Batch       int  // Config.CreateBatchSize
}

func (x dims) String() string {
	return fmt.Sprintf("returning=%v skiptx=%v prepare=%v batch=%d", !x.NoReturning, x.SkipTx, x.Prepare, x.Batch)
}

var curDims dims // the case being run (one case at a time per process)

var ddlCache [4][]string // CREATE statements of the recs table per model kind, captured once

func nowFunc() time.Time { return testdb.FixedNow }

func openDB(kind int, m *Model) *testdb.DB {
	var seed []dbRow
	for _, r := range m.sorted() {
		x := dbRow{ID: r.ID, Code: r.Code, Name: r.Name, Age: r.Age, Note: r.Note,
			NameNull: r.Nulls&nullName != 0, AgeNull: r.Nulls&nullAge != 0, NoteNull: r.Nulls&nullNote != 0,
			CreatedAt: testdb.FixedNow.Add(-2 * time.Hour), UpdatedAt: testdb.FixedNow.Add(-2 * time.Hour)}
		if r.Deleted {
			del := testdb.FixedNow.Add(-time.Hour)
			x.DeletedAt = &del
		}
		seed = append(seed, x)
	}
	return openSeeded(kind, seed, m.MaxEver)
}

// openSeeded builds a fresh database holding exactly the given rows (timestamps
// included) whose AUTOINCREMENT continues after maxEver.
func openSeeded(kind int, seed []dbRow, maxEver uint) *testdb.DB {
	soft := kind == kSoft
	d := testdb.Open(testdb.Options{NoReturning: curDims.NoReturning,
		Config: gorm.Config{NowFunc: nowFunc, SkipDefaultTransaction: curDims.SkipTx, PrepareStmt: curDims.Prepare, CreateBatchSize: curDims.Batch}})
	k := kind
	if ddlCache[k] == nil {
		// the schema comes from AutoMigrate once; later databases replay its DDL (much cheaper)
		var err error
		err = d.AutoMigrate(newRec(kind).Interface())
		if err != nil {
			panic("harness: migrate: " + err.Error())
		}
		var stmts []string
		if err := d.Raw("SELECT sql FROM sqlite_master WHERE sql IS NOT NULL AND name NOT LIKE 'sqlite_%' ORDER BY rowid").Scan(&stmts).Error; err != nil || len(stmts) == 0 {
			panic(fmt.Sprintf("harness: capture ddl: %v %v", err, stmts))
		}
		ddlCache[k] = stmts
	} else {
		for _, q := range ddlCache[k] {
			if err := d.Exec(q).Error; err != nil {
				panic("harness: ddl: " + err.Error())
			}
		}
	}
	for _, r := range seed {
		var e error
		var name, age, note interface{} = r.Name, r.Age, r.Note
		if r.NameNull {
			name = nil
		}
		if r.AgeNull {
			age = nil
		}
		if r.NoteNull {
			note = nil
		}
		var created, updated interface{} = r.CreatedAt, r.UpdatedAt
		if r.CreatedNull {
			created = nil
		}
		if r.UpdatedNull {
			updated = nil
		}
		if soft {
			var del interface{}
			if r.DeletedAt != nil {
				del = *r.DeletedAt
			}
			e = d.Exec("INSERT INTO recs (id, code, name, age, note, created_at, updated_at, deleted_at) VALUES (?,?,?,?,?,?,?,?)",
				r.ID, r.Code, name, age, note, created, updated, del).Error
		} else {
			e = d.Exec("INSERT INTO recs (id, code, name, age, note, created_at, updated_at) VALUES (?,?,?,?,?,?,?)",
				r.ID, r.Code, name, age, note, created, updated).Error
		}
		if e != nil {
			panic("harness: seed: " + e.Error())
		}
	}
	if maxEver > 0 {
		// make AUTOINCREMENT continue after the highest key ever used
		var n int64
		d.Raw("SELECT count(*) FROM sqlite_sequence WHERE name = 'recs'").Scan(&n)
		if n == 0 {
			d.Exec("INSERT INTO sqlite_sequence (name, seq) VALUES ('recs', ?)", maxEver)
		} else {
			d.Exec("UPDATE sqlite_sequence SET seq = ? WHERE name = 'recs'", maxEver)
		}
	}
	d.Rec.Reset()
	return d
}

// seqOf reads the AUTOINCREMENT high-water mark (SQLite also advances it for
// inserts that end in ON CONFLICT DO NOTHING, so it is not derivable from the rows).
func seqOf(d *testdb.DB) uint {
	var seq uint
	d.Rec.Pause()
	d.Raw("SELECT seq FROM sqlite_sequence WHERE name = 'recs'").Scan(&seq)
	d.Rec.Resume()
	return seq
}

type dbRow struct {
	ID        uint
	Code      string
	Name      string
	Age       int
	Note      string
	CreatedAt time.Time
	UpdatedAt time.Time
	DeletedAt *time.Time
	// NULL flags (computed columns of the dump query)
	NameNull, AgeNull, NoteNull, CreatedNull, UpdatedNull bool
}

func dump(d *testdb.DB, kind int) ([]Row, string) {
	rows, full, _ := dumpRaw(d, kind)
	return rows, full
}

func dumpRaw(d *testdb.DB, kind int) ([]Row, string, []dbRow) {
	soft := kind == kSoft
	var rows []dbRow
	const nulls = ", name IS NULL AS name_null, age IS NULL AS age_null, note IS NULL AS note_null, created_at IS NULL AS created_null, updated_at IS NULL AS updated_null"
	q := "SELECT id, code, name, age, note, created_at, updated_at" + nulls + " FROM recs ORDER BY id"
	if soft {
		q = "SELECT id, code, name, age, note, created_at, updated_at, deleted_at" + nulls + " FROM recs ORDER BY id"
	}
	d.Rec.Pause()
	err := d.Raw(q).Scan(&rows).Error
	d.Rec.Resume()
	if err != nil {
		panic("harness: dump: " + err.Error())
	}
	out := make([]Row, len(rows))
	var full strings.Builder
	for i, r := range rows {
		out[i] = Row{ID: r.ID, Code: r.Code, Name: r.Name, Age: r.Age, Note: r.Note, Deleted: r.DeletedAt != nil}
		if r.NameNull {
			out[i].Nulls |= nullName
		}
		if r.AgeNull {
			out[i].Nulls |= nullAge
		}
		if r.NoteNull {
			out[i].Nulls |= nullNote
		}
		fmt.Fprintf(&full, "%v|%s|%s|%v|%v%v;", out[i], r.CreatedAt.UTC().Format(time.RFC3339Nano), r.UpdatedAt.UTC().Format(time.RFC3339Nano), r.DeletedAt, r.CreatedNull, r.UpdatedNull)
	}
	return out, full.String(), rows
}

func rowsEqual(a, b []Row) bool {
	if len(a) != len(b) {
		return false
	}
	for i := range a {
		if a[i] != b[i] {
			return false
		}
	}
	return true
}

// ---- generators -----------------------------------------------------------------------------

var (
	genCode = rapid.SampledFrom([]string{"c1", "c2", "c3", "c4", ""})
	genName = rapid.SampledFrom([]string{"ann", "bob", "o'neil", ""})
	genNote = rapid.SampledFrom([]string{"x", "y", ""})
	genAge  = rapid.IntRange(0, 3)
)

func genVal(t *rapid.T, label string, kind int) Val {
	lo := 0
	if kind == kAppKey {
		lo = 1 // the application always supplies the key of a record it writes
	}
	return Val{
		ID:   uint(rapid.IntRange(lo, 5).Draw(t, label+".id")),
		Code: genCode.Draw(t, label+".code"),
		Name: genName.Draw(t, label+".name"),
		Age:  genAge.Draw(t, label+".age"),
		Note: genNote.Draw(t, label+".note"),
	}
}

func genAttr(t *rapid.T, label string, cols []string, allowZero bool) Attr {
	a := Attr{Form: rapid.SampledFrom([]string{"struct", "map", "kv"}).Draw(t, label+".form"),
		Col: rapid.SampledFrom(cols).Draw(t, label+".col")}
	zeroOK := allowZero && a.Form != "struct" // a zero struct field is "not given"
	if a.Form != "struct" && (label == "attrs" || label == "assign" || strings.HasSuffix(label, ".more")) {
		a.Field = rapid.IntRange(0, 3).Draw(t, label+".field") == 0
	}
	switch a.Col {
	case "age":
		lo := 1
		if zeroOK {
			lo = 0
		}
		a.I = rapid.IntRange(lo, 3).Draw(t, label+".i")
	case "code":
		a.S = rapid.SampledFrom([]string{"c1", "c2", "c3", "c4", "c5"}).Draw(t, label+".s")
	case "name":
		a.S = rapid.SampledFrom([]string{"ann", "bob", "o'neil", "zed"}).Draw(t, label+".s")
	default:
		a.S = rapid.SampledFrom([]string{"x", "y", "z"}).Draw(t, label+".s")
	}
	if zeroOK && a.Col != "code" && (label == "attrs" || label == "assign" || strings.HasSuffix(label, ".more")) {
		a.Nil = rapid.IntRange(0, 5).Draw(t, label+".nil") == 0
	}
	if a.Form != "kv" && len(cols) > 1 && label != "" && !strings.HasSuffix(label, ".more") && rapid.IntRange(0, 2).Draw(t, label+".two") == 0 {
		var rest []string
		for _, c := range cols {
			if c != a.Col {
				rest = append(rest, c)
			}
		}
		m := genAttr(t, label+".more", rest, allowZero)
		m.Form, m.More = a.Form, nil
		if a.Form == "struct" {
			m.Nil = false // a struct field cannot carry nil
		}
		if a.Form == "struct" && m.Col == "age" && m.I == 0 {
			m.I = 1 // a zero struct field is "not given"
		}
		a.More = &m
	}
	return a
}

func genOp(t *rapid.T, m *Model) Op {
	kinds := []string{"save", "save", "saveslice", "upsertslice", "upsert", "upsert", "upsert", "firstorinit", "firstorcreate", "firstorcreate"}
	if m.Kind == kAppKey {
		// FirstOrCreate would store its new record under key 0, and gorm treats a zero key as "no key"
		// from then on (documented): records of this model are only written with a key
		kinds = []string{"save", "save", "saveslice", "upsertslice", "upsert", "upsert", "upsert", "firstorinit"}
	}
	if m.Kind == kDef {
		// Save of a slice is an upsert with UpdateAll, which leaves computed-default columns alone: what
		// "stores the full value" means for them is not documented
		kinds = []string{"save", "save", "upsert", "upsert", "upsert", "firstorinit", "firstorcreate", "firstorcreate"}
	}
	kind := rapid.SampledFrom(kinds).Draw(t, "kind")
	o := Op{Kind: kind}
	switch kind {
	case "save":
		o.V = genVal(t, "v", m.Kind)
		if o.V.ID != 0 && rapid.IntRange(0, 4).Draw(t, "preoc") == 0 {
			// with a zero key Save is a plain Create and the caller's rule is the one in effect
			o.PreOC = rapid.SampledFrom([]string{"nothing-code", "updates-code"}).Draw(t, "preocRule")
		}
		o.Deref = rapid.IntRange(0, 5).Draw(t, "deref") == 0
	case "upsertslice":
		// 2-3 records, some with a key (existing or not), some without; conflicts are by key only: a record
		// whose key exists carries that row's code, every other record a code nobody holds. A condition on
		// the rule is generated so that it holds (a conditional update that does not happen returns no row,
		// and which record a missing row belongs to is not defined)
		o.Rule = rapid.SampledFrom([]string{"updateall", "updates-id"}).Draw(t, "rule")
		if o.Rule == "updates-id" {
			o.Subset = []string{"name", "age", "note"}[:rapid.IntRange(1, 3).Draw(t, "nsub")]
			if !contains(o.Subset, "age") {
				o.Subset = append(o.Subset, "age")
			}
		}
		o.OCWhere = rapid.Bool().Draw(t, "ocwhere")
		ids := rapid.Permutation([]int{1, 2, 3, 4, 5}).Draw(t, "ids")
		freshCodes := []string{"b1", "b2", "b3", "b4"}
		fc := 0
		nextFresh := func() string {
			for fc < len(freshCodes) {
				c := freshCodes[fc]
				fc++
				if m.byCode(c) == nil {
					return c
				}
			}
			for {
				fc++
				if c := fmt.Sprintf("b%d", 100+fc); m.byCode(c) == nil {
					return c
				}
			}
		}
		for i, n := 0, rapid.IntRange(2, 3).Draw(t, "n"); i < n; i++ {
			v := genVal(t, fmt.Sprintf("v%d", i), m.Kind)
			v.ID = 0
			if m.Kind == kAppKey || rapid.Bool().Draw(t, fmt.Sprintf("preset%d", i)) {
				v.ID = uint(ids[i])
				// next to records without a key, a preset key above every key ever used could be the very
				// key the database hands to one of them in the same statement
				if m.Kind != kAppKey && v.ID > m.MaxEver {
					v.ID = 0
				}
			}
			if r, ok := m.Rows[v.ID]; ok && v.ID != 0 {
				v.Code = r.Code
				if o.OCWhere {
					v.Age = r.Age + 1 // the condition holds (a NULL age never does: then no condition)
					if r.Nulls&nullAge != 0 {
						o.OCWhere = false
					}
				}
			} else {
				v.Code = nextFresh()
			}
			o.Vs = append(o.Vs, v)
		}
	case "saveslice":
		ids := rapid.Permutation([]int{1, 2, 3, 4, 5}).Draw(t, "ids")
		codes := rapid.Permutation([]string{"c1", "c2", "c3", "c4", ""}).Draw(t, "codes")
		for i, n := 0, rapid.IntRange(2, 3).Draw(t, "n"); i < n; i++ {
			v := genVal(t, fmt.Sprintf("v%d", i), m.Kind)
			v.ID, v.Code = uint(ids[i]), codes[i]
			o.Vs = append(o.Vs, v)
		}
		o.Deref = rapid.IntRange(0, 5).Draw(t, "deref") == 0
	case "upsert":
		o.V = genVal(t, "v", m.Kind)
		o.Rule = rapid.SampledFrom([]string{"nothing", "nothing-id", "updates-id", "updates-code", "updates-any", "updateall", "updateall-code", "assign-id", "assign-code"}).Draw(t, "rule")
		if strings.HasPrefix(o.Rule, "updates") || strings.HasPrefix(o.Rule, "assign") {
			all := []string{"name", "age", "note"}
			mask := rapid.IntRange(1, 7).Draw(t, "subset")
			for i, c := range all {
				if mask&(1<<i) != 0 {
					o.Subset = append(o.Subset, c)
				}
			}
		}
		if rapid.IntRange(0, 4).Draw(t, "preoc") == 0 {
			o.PreOC = rapid.SampledFrom([]string{"nothing-code", "updates-code"}).Draw(t, "preocRule")
		}
		if o.Rule != "nothing" && o.Rule != "nothing-id" {
			o.OCWhere = rapid.IntRange(0, 3).Draw(t, "ocwhere") == 0
		}
		if rapid.IntRange(0, 3).Draw(t, "asmap") == 0 {
			o.MapCols = []string{}
			mask := rapid.IntRange(0, 7).Draw(t, "mapcols")
			for i, c := range []string{"name", "age", "note"} {
				if mask&(1<<i) != 0 {
					o.MapCols = append(o.MapCols, c)
				}
			}
		}
		// domain: a proposed row that conflicts with two different rows (one by key, one by
		// the unique column) is decided by the database's constraint-check order, not by
		// the conflict rule - redraw the code so at most one row conflicts
		if o.V.ID != 0 {
			if byID, ok := m.Rows[o.V.ID]; ok {
				if c := m.byCode(o.V.Code); c != nil && c.ID != byID.ID {
					o.V.Code = byID.Code
				}
			}
		}
	default:
		o.CondForm = rapid.SampledFrom([]string{"struct", "map", "inline-struct", "inline-map", "sql", "inline-sql"}).Draw(t, "condform")
		if m.Kind == kSoft {
			o.Unscoped = rapid.IntRange(0, 2).Draw(t, "unscoped") == 0
		}
		n := rapid.IntRange(1, 2).Draw(t, "nconds")
		cols := []string{"name", "age", "note"}
		first := rapid.IntRange(0, 2).Draw(t, "cond0")
		o.Conds = append(o.Conds, genCondAttr(t, "c0", cols[first], o.CondForm))
		if n == 2 {
			second := (first + 1 + rapid.IntRange(0, 1).Draw(t, "cond1")) % 3
			o.Conds = append(o.Conds, genCondAttr(t, "c1", cols[second], o.CondForm))
		}
		used := map[string]bool{}
		for _, c := range o.Conds {
			used[c.Col] = true
		}
		var free []string
		for _, c := range []string{"name", "age", "note", "code"} {
			if !used[c] {
				free = append(free, c)
			}
		}
		if rapid.Bool().Draw(t, "hasAttrs") {
			a := genAttr(t, "attrs", free, true)
			o.Attrs = &a
		}
		if rapid.Bool().Draw(t, "hasAssign") {
			a := genAttr(t, "assign", free, true)
			o.Assign = &a
		}
	}
	return o
}

func genCondAttr(t *rapid.T, label, col, form string) Attr {
	a := Attr{Col: col, Form: "map"}
	isStruct := strings.HasSuffix(form, "struct")
	switch col {
	case "age":
		lo := 0
		if isStruct {
			lo = 1 // a zero struct field is no condition
		}
		a.I = rapid.IntRange(lo, 3).Draw(t, label+".i")
		if !isStruct && rapid.IntRange(0, 2).Draw(t, label+".in") == 0 {
			// slice value = IN; served from the age index, so the scan order is not the key order
			a.L = []int{a.I, (a.I + 1 + rapid.IntRange(0, 2).Draw(t, label+".in2")) % 4}
		}
	case "name":
		vals := []string{"ann", "bob", "o'neil", ""}
		if isStruct {
			vals = vals[:3]
		}
		a.S = rapid.SampledFrom(vals).Draw(t, label+".s")
	default:
		vals := []string{"x", "y", ""}
		if isStruct {
			vals = vals[:2]
		}
		a.S = rapid.SampledFrom(vals).Draw(t, label+".s")
	}
	return a
}

// ---- the property ---------------------------------------------------------------------------

func TestC16(t *testing.T) {
	evid.Rule("C16: stateful histories (1-8 operations) of Save (one record, or a slice of 2-3) / Create+OnConflict{DoNothing, DoUpdates(column subset, from the proposed row or explicit values), UpdateAll; target id or the unique column} with the proposed row as struct or as a map carrying a column subset / FirstOrInit / FirstOrCreate (struct, map, inline conditions; Attrs/Assign as struct, map, key-value; optionally Unscoped on the soft-delete model) over keys 0..5 and four unique codes, on four models (auto key, soft delete, application-assigned key, columns with literal and computed database defaults) and under drawn configuration (RETURNING on/off, SkipDefaultTransaction, PrepareStmt, CreateBatchSize), each compared with a reference map and re-run with Session/WithContext at every chain position on identical database copies; non-trivial = a key or unique-column collision happened and a Session/WithContext variant not in last position was compared; distinct = model kind + initial rows + operation list")
	evid.Assume("SQLite's own resolution of INSERT ... ON CONFLICT is trusted; proposed rows conflicting with two different rows are not generated")
	rapid.Check(t, func(rt *rapid.T) {
		kind := rapid.SampledFrom([]int{kPlain, kPlain, kSoft, kSoft, kAppKey, kDef}).Draw(rt, "kind")
		soft := kind == kSoft
		m := &Model{Kind: kind, Soft: soft, Rows: map[uint]Row{}}
		nInit := rapid.IntRange(0, 4).Draw(rt, "ninit")
		codes := []string{"c1", "c2", "c3", "c4", ""}
		for i := 0; i < nInit; i++ {
			id := uint(rapid.IntRange(1, 5).Draw(rt, "init.id"))
			if _, ok := m.Rows[id]; ok {
				continue
			}
			r := Row{ID: id, Code: codes[i], Name: genName.Draw(rt, "init.name"), Age: genAge.Draw(rt, "init.age"), Note: genNote.Draw(rt, "init.note")}
			if soft {
				r.Deleted = rapid.IntRange(0, 2).Draw(rt, "init.deleted") == 0
			}
			m.put(r)
		}
		curDims = dims{NoReturning: rapid.IntRange(0, 3).Draw(rt, "noReturning") == 0, SkipTx: rapid.IntRange(0, 3).Draw(rt, "skipTx") == 0,
			Prepare: rapid.IntRange(0, 3).Draw(rt, "prepare") == 0, Batch: rapid.SampledFrom([]int{0, 0, 1, 2}).Draw(rt, "batch")}
		var desc strings.Builder
		fmt.Fprintf(&desc, "model=%s config[%s] init=%v ops=", kindNames[kind], curDims, m.sorted())
		d := openDB(kind, m)
		defer d.Close()

		nOps := rapid.IntRange(1, 8).Draw(rt, "nops")
		collision, midVariant := false, false
		classes := map[string]bool{}
		for i := 0; i < nOps; i++ {
			o := genOp(rt, m)
			fmt.Fprintf(&desc, "%s; ", o)
			classes["op:"+o.Kind] = true
			if o.Kind == "upsert" {
				classes["rule:"+o.Rule] = true
				if o.OCWhere {
					classes["upsert:conditional(OnConflict.Where)"] = true
				}
				if o.PreOC != "" {
					classes["upsert:after-an-earlier-OnConflict-on-the-chain"] = true
				}
				if o.MapCols != nil {
					classes["upsert:map-value"] = true
					if len(o.MapCols) < 3 {
						classes["upsert:map-column-subset"] = true
					}
				}
			}
			pre := m.clone()
			exp := expect(m, o)
			if exp.Err {
				*m = *pre.clone()
				collision = true
				classes["outcome:conflict-error"] = true
			}
			if o.Kind == "saveslice" || o.Kind == "upsertslice" {
				for _, v := range o.Vs {
					if _, ok := pre.Rows[v.ID]; ok {
						collision = true
						classes["collision:key"] = true
						if pre.Rows[v.ID].Deleted {
							classes["collision:soft-deleted-key"] = true
						}
					}
					if pre.byCode(v.Code) != nil {
						collision = true
						classes["collision:unique-column"] = true
					}
				}
			} else if o.Kind == "save" || o.Kind == "upsert" {
				if o.V.ID != 0 {
					if _, ok := pre.Rows[o.V.ID]; ok {
						collision = true
						classes["collision:key"] = true
						if pre.Rows[o.V.ID].Deleted {
							classes["collision:soft-deleted-key"] = true
						}
					}
				}
				if pre.byCode(o.V.Code) != nil {
					collision = true
					classes["collision:unique-column"] = true
				}
			} else if !exp.Err {
				if _, ok := pre.Rows[exp.Out.ID]; ok && exp.Out.ID != 0 {
					collision = true
					classes["first-or:found"] = true
					if pre.Rows[exp.Out.ID].Deleted {
						classes["first-or:found-soft-deleted(unscoped)"] = true
					}
				} else {
					classes["first-or:not-found"] = true
				}
				if o.Attrs != nil {
					classes["first-or:attrs-"+o.Attrs.Form] = true
				}
				if o.Assign != nil {
					classes["first-or:assign-"+o.Assign.Form] = true
				}
			}

			// -- baseline on the history's database
			_, _, preRaw := dumpRaw(d, kind)
			preSeq := seqOf(d)
			d.Rec.Reset()
			got := run(d, kind, o, variant{pos: -1})
			events := d.Rec.Events()
			rows, full := dump(d, kind)
			fail := func(format string, a ...interface{}) {
				rt.Fatalf("C16 violated: %s\n  operation %d: %s\n  table before: %v\n  table after:  %v\n  expected:     %v\n  history: %s",
					fmt.Sprintf(format, a...), i+1, o, pre.sorted(), rows, m.sorted(), desc.String())
			}
			if o.Kind == "upsertslice" && !got.Err && !exp.Err {
				// adopt the keys the database assigned to the new rows (matched by their unique code)
				taken := map[uint]bool{}
				for _, fr := range exp.Fresh {
					found := false
					for _, r := range rows {
						if _, old := pre.Rows[r.ID]; !old && r.Code == fr.Code && !taken[r.ID] {
							if r.ID <= pre.MaxEver {
								fail("new row %q got key %d which is not above the highest key ever used (%d)", fr.Code, r.ID, pre.MaxEver)
							}
							fr.ID, found = r.ID, true
							taken[r.ID] = true
							m.put(fr)
							break
						}
					}
					if !found {
						fail("the new record with code %q was not stored", fr.Code)
					}
				}
				if !curDims.NoReturning {
					// the records identify the rows they were stored in (a later Save of the slice relies on it)
					for k, v := range o.Vs {
						want := v.ID
						if want == 0 {
							if r := m.byCode(v.Code); r != nil {
								want = r.ID
							}
						}
						if k < len(got.IDs) && got.IDs[k] != want {
							fail("record %d of the slice (code %q) carries key %d after the call, its row has key %d (keys after the call: %v)", k, v.Code, got.IDs[k], want, got.IDs)
						}
					}
				}
			}
			if exp.AutoID && !got.Err {
				// adopt the key the database assigned: exactly one new row, key above every key ever used
				var fresh []Row
				for _, r := range rows {
					if _, ok := pre.Rows[r.ID]; !ok {
						fresh = append(fresh, r)
					}
				}
				if len(fresh) != 1 {
					fail("expected exactly one new row with a database-assigned key, found %d", len(fresh))
				}
				if fresh[0].ID <= pre.MaxEver {
					fail("new row got key %d which is not above the highest key ever used (%d)", fresh[0].ID, pre.MaxEver)
				}
				exp.Out.ID = fresh[0].ID
				if exp.Stored != nil {
					exp.Stored.ID = fresh[0].ID
					m.put(*exp.Stored)
				} else {
					m.put(exp.Out)
				}
			}
			if exp.Err != got.Err {
				if got.Err {
					fail("unexpected error %q", got.ErrText)
				} else {
					fail("expected the conflict to be reported as an error, got none")
				}
			}
			if !rowsEqual(rows, m.sorted()) {
				fail("table contents differ from the reference model")
			}
			if !exp.Err {
				exp.Out.Nulls = 0 // a NULL column reads back as the zero value
				if exp.OutValid && got.OutValid && exp.Out != got.Out {
					fail("returned record %v, want %v", got.Out, exp.Out)
				}
				if exp.RAValid && exp.RowsAffected != got.RowsAffected {
					fail("RowsAffected %d, want %d", got.RowsAffected, exp.RowsAffected)
				}
			}
			if o.Kind == "firstorinit" {
				for _, e := range events {
					if e.Kind == recdrv.Exec || e.Kind == recdrv.Begin ||
						(e.Kind == recdrv.Query && !strings.HasPrefix(strings.ToUpper(strings.TrimSpace(e.Text)), "SELECT")) {
						fail("FirstOrInit sent a write to the driver: %s", e)
					}
				}
			}

			// -- Save twice equals Save once
			if (o.Kind == "save" || o.Kind == "saveslice") && !exp.Err {
				o2 := o
				o2.V.ID = exp.Out.ID
				if kind == kDef {
					// the caller saves the same record again: it carries the defaults read back by the first Save
					o2.V.Name, o2.V.Note = m.Rows[exp.Out.ID].Name, m.Rows[exp.Out.ID].Note
				}
				got2 := run(d, kind, o2, variant{pos: -1})
				rows2, _ := dump(d, kind)
				if got2.Err {
					fail("second Save of the same value failed: %s", got2.ErrText)
				}
				if !rowsEqual(rows2, m.sorted()) {
					rows = rows2
					fail("saving the same value twice changed the table")
				}
				classes["save-twice"] = true
			}

			// -- metamorphic: Session / WithContext at every chain position
			n := chainLen(o)
			for pos := 0; pos <= n; pos++ {
				for _, vkind := range []string{"session", "ctx", "debug", "session-prepare"} {
					if (vkind == "debug" || vkind == "session-prepare") && (pos+i)%3 != 0 {
						continue // the two extra kinds at every third position only (cost)
					}
					vd := openSeeded(kind, preRaw, preSeq)
					vgot := run(vd, kind, o, variant{pos: pos, kind: vkind})
					vrows, vfull := dump(vd, kind)
					vd.Close()
					if pos < n {
						midVariant = true
					}
					same := vgot.Err == got.Err && vgot.Out == got.Out && vgot.RowsAffected == got.RowsAffected && rowsEqual(vrows, rows) && fmt.Sprint(vgot.IDs) == fmt.Sprint(got.IDs)
					if o.Kind != "save" && o.Kind != "saveslice" { // the baseline table of a Save was written twice: timestamps may differ
						same = same && vfull == full
					}
					if !same {
						rows = vrows
						fail("outcome depends on a %s call at chain position %d of %d: without it (err=%v out=%v ra=%d), with it (err=%v %q out=%v ra=%d)",
							vkind, pos, n, got.Err, got.Out, got.RowsAffected, vgot.Err, vgot.ErrText, vgot.Out, vgot.RowsAffected)
					}
				}
			}
		}
		var cl []string
		for k := range classes {
			cl = append(cl, k)
		}
		sort.Strings(cl)
		cl = append(cl, "model:"+kindNames[kind])
		if curDims.NoReturning {
			cl = append(cl, "config:no-returning")
		}
		if curDims.SkipTx {
			cl = append(cl, "config:skip-default-transaction")
		}
		if curDims.Prepare {
			cl = append(cl, "config:prepare-stmt")
		}
		if curDims.Batch > 0 {
			cl = append(cl, "config:create-batch-size")
		}
		evid.Case(desc.String(), collision && midVariant, nil, cl...)
	})
}

// ---- witness of a repaired finding ---------------------------------------------------------------

// Where(..).Attrs(..).WithContext(ctx).FirstOrInit used to drop the Attrs.
func TestC16WitnessAttrsAfterSession(t *testing.T) {
	curDims = dims{}
	m := &Model{Rows: map[uint]Row{}}
	for _, vkind := range []string{"session", "ctx"} {
		for _, k := range []string{"firstorinit", "firstorcreate"} {
			d := openDB(kPlain, m)
			a := Attr{Form: "struct", Col: "note", S: "x"}
			b := Attr{Form: "map", Col: "age", I: 2}
			o := Op{Kind: k, CondForm: "struct", Conds: []Attr{{Col: "name", S: "ann"}}, Attrs: &a, Assign: &b}
			got := run(d, kPlain, o, variant{pos: 3, kind: vkind})
			d.Close()
			if got.Err || got.Out.Note != "x" || got.Out.Age != 2 || got.Out.Name != "ann" {
				t.Errorf("C16 violated: %s with %s after Attrs/Assign returned %v (err %q), want name=ann note=x age=2", k, vkind, got.Out, got.ErrText)
			}
		}
	}
	if errors.Is(nil, nil) {
		return
	}
}
