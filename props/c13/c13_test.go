// C13 — hooks run once per record, in documented order, in the operation's
// transaction. See DESIGN.md §3 C13.
//
// Static harness models (Parent, Child) implement all nine hooks. Every hook
// invocation issues a tiny probe statement through the *gorm.DB it was given;
// the recording driver logs that probe (with the driver transaction it ran in)
// in the same sequence as the operation's own statements, so the driver log is
// the single ordered event log of hooks and statements. A per-run plan can make
// the h-th invocation fail and can make a before-hook set a column directly or
// through Statement.SetColumn. Every generated operation is run fault-free once
// (H invocations) and then once per h < H with the h-th invocation failing, each
// on an identical fresh database.
package c13

import (
	"context"
	"database/sql"
	"database/sql/driver"
	"errors"
	"fmt"
	"sort"
	"strconv"
	"strings"
	"testing"
	"unsafe"

	"gorm.io/gorm"
	"gorm.io/gorm/clause"
	"gorm.io/gorm/logger"
	"pgregory.net/rapid"

	"verif/internal/evid"
	"verif/internal/harness"
	"verif/internal/recdrv"
	"verif/internal/testdb"
)

func TestMain(m *testing.M) { harness.Main(m) }

// ---- models -------------------------------------------------------------------------------------

// Parent has a belongs-to (Boss) and a has-many (Kids) of Child.
type Parent struct {
	ID   uint `gorm:"primaryKey;autoIncrement"`
	Tag  string
	Name string
	Note string
	Age  int
	// a second column with a database-side default (an expression): together with the key there are
	// two fields gorm writes only for the records that carry a value
	Code   string `gorm:"default:(lower('AUTO'))"`
	BossID *uint
	Boss   *Child  `gorm:"foreignKey:BossID"`
	Kids   []Child `gorm:"foreignKey:ParentID"`
	// a second belongs-to and a second has-many, so that each association callback has two
	// relations to save; Item has a composite key of which gorm knows only the foreign-key half
	// until the item's own BeforeCreate assigns the line number
	MentorID *uint
	Mentor   *Child `gorm:"foreignKey:MentorID"`
	Items    []Item `gorm:"foreignKey:ParentID"`
	// a has-one held by value and a many2many of pointers: the remaining relation kinds and
	// the remaining pointer/value arms of callbacks/associations.go
	Desk    Child    `gorm:"foreignKey:OwnerID"`
	Friends []*Child `gorm:"many2many:parent_friends"`
}

// FriendLink is a join model of the caller for Parent.Friends (db.SetupJoinTable): the link rows gorm
// builds from the keys of both sides are records of a model with its own create/save hooks.
type FriendLink struct {
	ParentID uint `gorm:"primaryKey"`
	ChildID  uint `gorm:"primaryKey"`
	Kind     string
}

func (FriendLink) TableName() string { return "parent_friends" }

func (l *FriendLink) tag() string { return fmt.Sprintf("link.%d-%d", l.ParentID, l.ChildID) }

func (l *FriendLink) hook(tx *gorm.DB, name string) error {
	return cur.hook(tx, "FriendLink", name, unsafe.Pointer(l), l.tag(), func(string) {})
}

func (l *FriendLink) BeforeSave(tx *gorm.DB) error { return l.hook(tx, hBeforeSave) }
func (l *FriendLink) BeforeCreate(tx *gorm.DB) error {
	l.Kind = "hooked" // a value set by the join model's before-hook: must be what the link row stores
	return l.hook(tx, hBeforeCreate)
}
func (l *FriendLink) AfterCreate(tx *gorm.DB) error { return l.hook(tx, hAfterCreate) }
func (l *FriendLink) AfterSave(tx *gorm.DB) error   { return l.hook(tx, hAfterSave) }

var linkHooks = hookSetOf(&FriendLink{})

// Item: has-many child of Parent with the composite primary key (parent_id, line_no).
type Item struct {
	ParentID uint `gorm:"primaryKey;autoIncrement:false"`
	LineNo   uint `gorm:"primaryKey;autoIncrement:false"`
	Tag      string
	Name     string
}

func (Item) TableName() string { return "items" }

// lineOf: the line number an item gets, from its tag "<parent>.i<k>" -> k+1.
func lineOf(tag string) uint {
	i := strings.LastIndex(tag, ".i")
	if i < 0 {
		return 0
	}
	n, _ := strconv.Atoi(tag[i+2:])
	return uint(n + 1)
}

func (it *Item) hook(tx *gorm.DB, name string) error {
	return cur.hook(tx, "Item", name, unsafe.Pointer(it), it.Tag, func(v string) { it.Name = v })
}

func (it *Item) BeforeSave(tx *gorm.DB) error { return it.hook(tx, hBeforeSave) }
func (it *Item) BeforeCreate(tx *gorm.DB) error {
	if it.LineNo == 0 {
		it.LineNo = lineOf(it.Tag) // the second half of the key is assigned here
	}
	return it.hook(tx, hBeforeCreate)
}
func (it *Item) AfterCreate(tx *gorm.DB) error  { return it.hook(tx, hAfterCreate) }
func (it *Item) BeforeUpdate(tx *gorm.DB) error { return it.hook(tx, hBeforeUpdate) }
func (it *Item) AfterUpdate(tx *gorm.DB) error  { return it.hook(tx, hAfterUpdate) }
func (it *Item) AfterSave(tx *gorm.DB) error    { return it.hook(tx, hAfterSave) }
func (it *Item) BeforeDelete(tx *gorm.DB) error { return it.hook(tx, hBeforeDelete) }
func (it *Item) AfterDelete(tx *gorm.DB) error  { return it.hook(tx, hAfterDelete) }
func (it *Item) AfterFind(tx *gorm.DB) error    { return it.hook(tx, hAfterFind) }

type Child struct {
	ID       uint `gorm:"primaryKey"`
	Tag      string
	Name     string
	ParentID *uint // has-many foreign key (Parent.Kids, Plain.Kids)
	OwnerID  *uint // has-one foreign key (Parent.Desk)
}

func (Parent) TableName() string { return "parents" }
func (Child) TableName() string  { return "children" }

const (
	hBeforeSave   = "BeforeSave"
	hBeforeCreate = "BeforeCreate"
	hAfterCreate  = "AfterCreate"
	hBeforeUpdate = "BeforeUpdate"
	hAfterUpdate  = "AfterUpdate"
	hAfterSave    = "AfterSave"
	hBeforeDelete = "BeforeDelete"
	hAfterDelete  = "AfterDelete"
	hAfterFind    = "AfterFind"
)

func (p *Parent) BeforeSave(tx *gorm.DB) error { return p.hook(tx, hBeforeSave) }
func (p *Parent) BeforeCreate(tx *gorm.DB) error {
	cur.parentBeforeCreate(p)
	return p.hook(tx, hBeforeCreate)
}
func (p *Parent) AfterCreate(tx *gorm.DB) error  { return p.hook(tx, hAfterCreate) }
func (p *Parent) BeforeUpdate(tx *gorm.DB) error { return p.hook(tx, hBeforeUpdate) }
func (p *Parent) AfterUpdate(tx *gorm.DB) error  { return p.hook(tx, hAfterUpdate) }
func (p *Parent) AfterSave(tx *gorm.DB) error    { return p.hook(tx, hAfterSave) }
func (p *Parent) BeforeDelete(tx *gorm.DB) error { return p.hook(tx, hBeforeDelete) }
func (p *Parent) AfterDelete(tx *gorm.DB) error  { return p.hook(tx, hAfterDelete) }
func (p *Parent) AfterFind(tx *gorm.DB) error    { return p.hook(tx, hAfterFind) }

func (c *Child) BeforeSave(tx *gorm.DB) error   { return c.hook(tx, hBeforeSave) }
func (c *Child) BeforeCreate(tx *gorm.DB) error { return c.hook(tx, hBeforeCreate) }
func (c *Child) AfterCreate(tx *gorm.DB) error  { return c.hook(tx, hAfterCreate) }
func (c *Child) BeforeUpdate(tx *gorm.DB) error { return c.hook(tx, hBeforeUpdate) }
func (c *Child) AfterUpdate(tx *gorm.DB) error  { return c.hook(tx, hAfterUpdate) }
func (c *Child) AfterSave(tx *gorm.DB) error    { return c.hook(tx, hAfterSave) }
func (c *Child) BeforeDelete(tx *gorm.DB) error { return c.hook(tx, hBeforeDelete) }
func (c *Child) AfterDelete(tx *gorm.DB) error  { return c.hook(tx, hAfterDelete) }
func (c *Child) AfterFind(tx *gorm.DB) error    { return c.hook(tx, hAfterFind) }

func (p *Parent) hook(tx *gorm.DB, name string) error {
	return cur.hook(tx, "Parent", name, unsafe.Pointer(p), p.Tag, func(v string) { p.Name = v })
}

func (c *Child) hook(tx *gorm.DB, name string) error {
	return cur.hook(tx, "Child", name, unsafe.Pointer(c), c.Tag, func(v string) { c.Name = v })
}

// ---- models with hook subsets (no associations, except Plain) -----------------------------------

// Flat carries the columns of every subset model; it has no hook of its own.
type Flat struct {
	ID   uint `gorm:"primaryKey"`
	Tag  string
	Name string
	Note string
	Age  int
}

func (f *Flat) flat() *Flat { return f }

func (f *Flat) fire(tx *gorm.DB, model, hook string) error {
	return cur.hook(tx, model, hook, unsafe.Pointer(f), f.Tag, func(v string) { f.Name = v })
}

// SaveOnly: only the two Save hooks.
type SaveOnly struct{ Flat }

func (m *SaveOnly) BeforeSave(tx *gorm.DB) error { return m.fire(tx, "SaveOnly", hBeforeSave) }
func (m *SaveOnly) AfterSave(tx *gorm.DB) error  { return m.fire(tx, "SaveOnly", hAfterSave) }

// AfterSaveOnly: a single hook.
type AfterSaveOnly struct{ Flat }

func (m *AfterSaveOnly) AfterSave(tx *gorm.DB) error { return m.fire(tx, "AfterSaveOnly", hAfterSave) }

type CreateOnly struct{ Flat }

func (m *CreateOnly) BeforeCreate(tx *gorm.DB) error { return m.fire(tx, "CreateOnly", hBeforeCreate) }
func (m *CreateOnly) AfterCreate(tx *gorm.DB) error  { return m.fire(tx, "CreateOnly", hAfterCreate) }

type UpdateOnly struct{ Flat }

func (m *UpdateOnly) BeforeUpdate(tx *gorm.DB) error { return m.fire(tx, "UpdateOnly", hBeforeUpdate) }
func (m *UpdateOnly) AfterUpdate(tx *gorm.DB) error  { return m.fire(tx, "UpdateOnly", hAfterUpdate) }

type DeleteOnly struct{ Flat }

func (m *DeleteOnly) BeforeDelete(tx *gorm.DB) error { return m.fire(tx, "DeleteOnly", hBeforeDelete) }
func (m *DeleteOnly) AfterDelete(tx *gorm.DB) error  { return m.fire(tx, "DeleteOnly", hAfterDelete) }

type FindOnly struct{ Flat }

func (m *FindOnly) AfterFind(tx *gorm.DB) error { return m.fire(tx, "FindOnly", hAfterFind) }

// Mixed declares the Save hooks on the value and the specific hooks on the pointer.
type Mixed struct{ Flat }

func (m Mixed) BeforeSave(tx *gorm.DB) error    { return m.Flat.fire(tx, "Mixed", hBeforeSave) }
func (m Mixed) AfterSave(tx *gorm.DB) error     { return m.Flat.fire(tx, "Mixed", hAfterSave) }
func (m *Mixed) BeforeCreate(tx *gorm.DB) error { return m.fire(tx, "Mixed", hBeforeCreate) }
func (m *Mixed) AfterCreate(tx *gorm.DB) error  { return m.fire(tx, "Mixed", hAfterCreate) }
func (m *Mixed) BeforeUpdate(tx *gorm.DB) error { return m.fire(tx, "Mixed", hBeforeUpdate) }
func (m *Mixed) AfterUpdate(tx *gorm.DB) error  { return m.fire(tx, "Mixed", hAfterUpdate) }

// ValueRecv declares all nine hooks on the value (as gorm's own test models do): every hook sees a copy.
type ValueRecv struct{ Flat }

func (m ValueRecv) BeforeSave(tx *gorm.DB) error { return m.Flat.fire(tx, "ValueRecv", hBeforeSave) }
func (m ValueRecv) BeforeCreate(tx *gorm.DB) error {
	return m.Flat.fire(tx, "ValueRecv", hBeforeCreate)
}
func (m ValueRecv) AfterCreate(tx *gorm.DB) error { return m.Flat.fire(tx, "ValueRecv", hAfterCreate) }
func (m ValueRecv) BeforeUpdate(tx *gorm.DB) error {
	return m.Flat.fire(tx, "ValueRecv", hBeforeUpdate)
}
func (m ValueRecv) AfterUpdate(tx *gorm.DB) error { return m.Flat.fire(tx, "ValueRecv", hAfterUpdate) }
func (m ValueRecv) AfterSave(tx *gorm.DB) error   { return m.Flat.fire(tx, "ValueRecv", hAfterSave) }
func (m ValueRecv) BeforeDelete(tx *gorm.DB) error {
	return m.Flat.fire(tx, "ValueRecv", hBeforeDelete)
}
func (m ValueRecv) AfterDelete(tx *gorm.DB) error { return m.Flat.fire(tx, "ValueRecv", hAfterDelete) }
func (m ValueRecv) AfterFind(tx *gorm.DB) error   { return m.Flat.fire(tx, "ValueRecv", hAfterFind) }

// HookBase carries hooks that Promoted only has by method promotion from the embedded struct.
type HookBase struct{ Flat }

func (b *HookBase) BeforeCreate(tx *gorm.DB) error { return b.fire(tx, "Promoted", hBeforeCreate) }
func (b *HookBase) AfterCreate(tx *gorm.DB) error  { return b.fire(tx, "Promoted", hAfterCreate) }
func (b *HookBase) BeforeUpdate(tx *gorm.DB) error { return b.fire(tx, "Promoted", hBeforeUpdate) }
func (b *HookBase) AfterSave(tx *gorm.DB) error    { return b.fire(tx, "Promoted", hAfterSave) }
func (b *HookBase) BeforeDelete(tx *gorm.DB) error { return b.fire(tx, "Promoted", hBeforeDelete) }
func (b *HookBase) AfterFind(tx *gorm.DB) error    { return b.fire(tx, "Promoted", hAfterFind) }

type Promoted struct{ HookBase }

// Soft is soft-deleted: Delete sends an UPDATE, yet it is the delete hooks that apply (and the
// update hooks that do not).
type Soft struct {
	Flat
	DeletedAt gorm.DeletedAt
}

func (m *Soft) BeforeUpdate(tx *gorm.DB) error { return m.fire(tx, "Soft", hBeforeUpdate) }
func (m *Soft) AfterUpdate(tx *gorm.DB) error  { return m.fire(tx, "Soft", hAfterUpdate) }
func (m *Soft) BeforeDelete(tx *gorm.DB) error { return m.fire(tx, "Soft", hBeforeDelete) }
func (m *Soft) AfterDelete(tx *gorm.DB) error  { return m.fire(tx, "Soft", hAfterDelete) }
func (m *Soft) AfterFind(tx *gorm.DB) error    { return m.fire(tx, "Soft", hAfterFind) }

func (ValueRecv) TableName() string { return "flats" }
func (Promoted) TableName() string  { return "flats" }
func (Soft) TableName() string      { return "softs" }

// AuditRow is what a hook stores with a gorm Create through its handle (no hooks of its own).
type AuditRow struct {
	ID   uint `gorm:"primaryKey"`
	N    int
	What string
}

func (AuditRow) TableName() string { return "audits" }

// Plain has no hook at all; its has-many children (Child) have all of them.
type Plain struct {
	Flat
	Kids []*Child `gorm:"foreignKey:ParentID"` // a has-many of pointers (Parent.Kids holds values)
}

func (p *Plain) setKids(k []Child) {
	p.Kids = nil
	for i := range k {
		p.Kids = append(p.Kids, &k[i])
	}
}

type kidHolder interface{ setKids([]Child) }

func (SaveOnly) TableName() string      { return "flats" }
func (AfterSaveOnly) TableName() string { return "flats" }
func (CreateOnly) TableName() string    { return "flats" }
func (UpdateOnly) TableName() string    { return "flats" }
func (DeleteOnly) TableName() string    { return "flats" }
func (FindOnly) TableName() string      { return "flats" }
func (Mixed) TableName() string         { return "flats" }
func (Plain) TableName() string         { return "plains" }

// hookSetOf reads the applicable hooks off the method set of v (as gorm's schema parser and
// callMethod's interface assertions do).
func hookSetOf(v interface{}) map[string]bool {
	s := map[string]bool{}
	if _, ok := v.(interface{ BeforeSave(*gorm.DB) error }); ok {
		s[hBeforeSave] = true
	}
	if _, ok := v.(interface{ BeforeCreate(*gorm.DB) error }); ok {
		s[hBeforeCreate] = true
	}
	if _, ok := v.(interface{ AfterCreate(*gorm.DB) error }); ok {
		s[hAfterCreate] = true
	}
	if _, ok := v.(interface{ BeforeUpdate(*gorm.DB) error }); ok {
		s[hBeforeUpdate] = true
	}
	if _, ok := v.(interface{ AfterUpdate(*gorm.DB) error }); ok {
		s[hAfterUpdate] = true
	}
	if _, ok := v.(interface{ AfterSave(*gorm.DB) error }); ok {
		s[hAfterSave] = true
	}
	if _, ok := v.(interface{ BeforeDelete(*gorm.DB) error }); ok {
		s[hBeforeDelete] = true
	}
	if _, ok := v.(interface{ AfterDelete(*gorm.DB) error }); ok {
		s[hAfterDelete] = true
	}
	if _, ok := v.(interface{ AfterFind(*gorm.DB) error }); ok {
		s[hAfterFind] = true
	}
	return s
}

// kit is what the generic machinery needs to know about one top-level model type.
type kit struct {
	name       string
	table      string
	hooks      map[string]bool // method set of *T: the hooks gorm considers applicable
	valueHooks map[string]bool // method set of T: hooks declared on the value (they see a copy)
	hasBoss    bool            // Parent: also the has-one Desk and the many2many Friends
	hasKids    bool
	soft       bool // soft delete: Delete sends an UPDATE unless Unscoped
	build      func(c *Case) *memory
	updateWith func(note string, age int, name string) interface{} // struct argument of Updates
	zero       func() interface{}                                  // a fresh zero value pointer (Model(..) of map creates)
}

type flatPtr[T any] interface {
	*T
	flat() *Flat
}

func makeKit[T any, PT flatPtr[T]](name, table string) *kit {
	var zero T
	k := &kit{name: name, table: table, hooks: hookSetOf(PT(&zero)), valueHooks: hookSetOf(zero)}
	_, k.hasKids = interface{}(PT(&zero)).(kidHolder)
	fill := func(p PT, r RecSpec, m *memory) {
		*p.flat() = Flat{ID: r.ID, Tag: r.Tag, Name: r.Name, Note: r.Note, Age: r.Age}
		if kh, ok := interface{}(p).(kidHolder); ok && len(r.Kids) > 0 {
			kids := make([]Child, len(r.Kids))
			for i, ks := range r.Kids {
				kids[i] = Child{Tag: ks.Tag, Name: ks.Name}
				m.ptrs[ks.Tag] = uintptr(unsafe.Pointer(&kids[i]))
			}
			kh.setKids(kids)
		}
	}
	ref := func(p PT) memRec {
		f := p.flat()
		return memRec{Tag: f.Tag, ID: f.ID, Ptr: uintptr(unsafe.Pointer(f))}
	}
	k.updateWith = func(note string, age int, name string) interface{} {
		var v T
		*PT(&v).flat() = Flat{Note: note, Age: age, Name: name}
		return v
	}
	k.zero = func() interface{} { return PT(new(T)) }
	k.build = func(c *Case) *memory {
		m := &memory{ptrs: map[string]uintptr{}}
		switch c.Op {
		case opPluck:
			m.arg = PT(new(T))
			return m
		case opFind, opFirst:
			switch c.Shape {
			case shPtr:
				p := PT(new(T))
				m.arg = p
				m.find = func() []memRec { return []memRec{ref(p)} }
			case shPtrSlice:
				sl := &[]T{}
				m.arg = sl
				m.find = func() []memRec {
					out := make([]memRec, len(*sl))
					for i := range *sl {
						out[i] = ref(PT(&(*sl)[i]))
					}
					return out
				}
			case shPtrPSlice:
				sl := &[]*T{}
				m.arg = sl
				m.find = func() []memRec {
					out := make([]memRec, len(*sl))
					for i := range *sl {
						out[i] = ref(PT((*sl)[i]))
					}
					return out
				}
			}
			return m
		}
		n := len(c.Recs)
		switch c.Shape {
		case shPtr, shCond, shDest:
			p := PT(new(T))
			if c.Shape == shCond {
				p.flat().Tag = "cond"
			} else {
				fill(p, c.Recs[0], m)
			}
			m.arg = p
			m.recs = []memRec{ref(p)}
		case shPtrSlice, shSlice:
			sl := make([]T, n)
			for i, r := range c.Recs {
				fill(PT(&sl[i]), r, m)
				m.recs = append(m.recs, ref(PT(&sl[i])))
			}
			if c.Shape == shPtrSlice {
				m.arg = &sl
			} else {
				m.arg = sl
			}
		case shPtrArray:
			var arr [2]T
			for i, r := range c.Recs {
				fill(PT(&arr[i]), r, m)
			}
			parr := &arr
			for i := range c.Recs {
				m.recs = append(m.recs, ref(PT(&parr[i])))
			}
			m.arg = parr
		case shPtrPSlice, shPSlice:
			sl := make([]*T, n)
			for i, r := range c.Recs {
				sl[i] = new(T)
				fill(PT(sl[i]), r, m)
				m.recs = append(m.recs, ref(PT(sl[i])))
			}
			if c.Shape == shPtrPSlice {
				m.arg = &sl
			} else {
				m.arg = sl
			}
		}
		return m
	}
	return k
}

var kits = map[string]*kit{}

// modelNames in generation order (Parent is the full-featured model and is drawn most often).
var modelNames = []string{"Parent", "SaveOnly", "AfterSaveOnly", "CreateOnly", "UpdateOnly", "DeleteOnly", "FindOnly", "Mixed", "Plain", "ValueRecv", "Promoted", "Soft"}

func init() {
	kits["Parent"] = &kit{name: "Parent", table: "parents", hooks: hookSetOf(&Parent{}), valueHooks: hookSetOf(Parent{}),
		hasBoss: true, hasKids: true, build: buildParentMem, zero: func() interface{} { return &Parent{} },
		updateWith: func(note string, age int, name string) interface{} { return Parent{Note: note, Age: age, Name: name} }}
	kits["SaveOnly"] = makeKit[SaveOnly]("SaveOnly", "flats")
	kits["AfterSaveOnly"] = makeKit[AfterSaveOnly]("AfterSaveOnly", "flats")
	kits["CreateOnly"] = makeKit[CreateOnly]("CreateOnly", "flats")
	kits["UpdateOnly"] = makeKit[UpdateOnly]("UpdateOnly", "flats")
	kits["DeleteOnly"] = makeKit[DeleteOnly]("DeleteOnly", "flats")
	kits["FindOnly"] = makeKit[FindOnly]("FindOnly", "flats")
	kits["Mixed"] = makeKit[Mixed]("Mixed", "flats")
	kits["Plain"] = makeKit[Plain]("Plain", "plains")
	kits["ValueRecv"] = makeKit[ValueRecv]("ValueRecv", "flats")
	kits["Promoted"] = makeKit[Promoted]("Promoted", "flats")
	kits["Soft"] = makeKit[Soft]("Soft", "softs")
	kits["Soft"].soft = true
}

func (c *Case) kit() *kit {
	if c.Model == "" {
		return kits["Parent"]
	}
	return kits[c.Model]
}

// applicable: the model's method set has the hook (children implement all nine).
func applicable(model, hook string) bool {
	if model == "Child" || model == "Item" {
		return true
	}
	if model == "FriendLink" {
		return linkHooks[hook]
	}
	return kits[model].hooks[hook]
}

func valueHook(model, hook string) bool {
	if model == "Child" || model == "Item" || model == "FriendLink" {
		return false
	}
	return kits[model].valueHooks[hook]
}

// ---- the run in progress (hooks are methods of static types: they find their run here) ----------

var errHook = errors.New("c13: injected hook failure")

type invocation struct {
	N        int
	Model    string
	Hook     string
	Tag      string
	Ptr      uintptr
	ProbeErr error
}

type runState struct {
	c        *Case
	fail     int    // invocation index that returns an error (-1: none)
	failKind string // which error value it returns
	invs     []invocation
}

// The error VALUES a failing hook returns. A hook may well fail with an error gorm knows (a lookup
// inside the hook returning ErrRecordNotFound, a cancelled context, ...): none of them may be
// mistaken for one of the operation's own conditions.
var failKinds = []string{"sentinel", "notfound", "wrapped-notfound", "canceled", "norows", "txdone", "invalidtx", "badconn"}

// failValue is the error identity errors.Is must find in what the operation returns.
func failValue(kind string) error {
	switch kind {
	case "notfound", "wrapped-notfound":
		return gorm.ErrRecordNotFound
	case "canceled":
		return context.Canceled
	case "norows":
		return sql.ErrNoRows
	case "txdone":
		return sql.ErrTxDone
	case "invalidtx":
		return gorm.ErrInvalidTransaction
	case "badconn":
		return driver.ErrBadConn
	}
	return errHook
}

func failError(kind string, n int, model, name, tag string) error {
	switch kind {
	case "", "sentinel", "wrapped-notfound":
		return fmt.Errorf("hook #%d %s.%s(%s): %w", n, model, name, tag, failValue(kind))
	}
	return failValue(kind) // the bare value, as `return tx.First(&x).Error` would hand it back
}

var cur *runState

func probeText(n int) string { return "SELECT 1 /*c13:" + strconv.Itoa(n) + "*/" }

func (r *runState) hook(tx *gorm.DB, model, name string, ptr unsafe.Pointer, tag string, direct func(string)) error {
	if r == nil {
		return nil // seeding / dumps outside a run never reach hooks, but stay safe
	}
	n := len(r.invs)
	iv := invocation{N: n, Model: model, Hook: name, Tag: tag, Ptr: uintptr(ptr)}
	// the probe: a statement through the handle the hook was given
	if r.c.Probe == "raw" {
		var one int
		iv.ProbeErr = tx.Raw(probeText(n)).Scan(&one).Error
	} else {
		iv.ProbeErr = tx.Exec(probeText(n)).Error
	}
	if r.c.Audit {
		// a side row written through the hook's handle: part of what the operation did
		var err error
		if r.c.AuditCreate {
			err = tx.Create(&AuditRow{N: n, What: model + "." + name + "(" + tag + ")"}).Error // a whole nested operation
		} else {
			err = tx.Exec("INSERT INTO audits (n, what) VALUES (?, ?)", n, model+"."+name+"("+tag+")").Error
		}
		if err != nil && iv.ProbeErr == nil {
			iv.ProbeErr = err
		}
	}
	r.invs = append(r.invs, iv)
	if r.c.Set != "" && r.isSetter(name) && model != "FriendLink" { // (the join model has no Name; it sets its own Kind)
		v := r.c.setValue(tag)
		if r.c.Set == "direct" {
			direct(v)
		} else {
			tx.Statement.SetColumn("Name", v)
		}
	}
	if n == r.fail {
		return failError(r.failKind, n, model, name, tag)
	}
	return nil
}

// parentBeforeCreate: under the "hook" code plan the before-hook gives every record its Code and
// takes over a key for the records that have one assigned (an import), like a hook of an application would.
func (r *runState) parentBeforeCreate(p *Parent) {
	if r == nil || r.c.CodePlan != "hook" {
		return
	}
	p.Code = "h-" + p.Tag
	for _, rs := range r.c.Recs {
		if rs.Tag == p.Tag && rs.HookID != 0 && p.ID == 0 {
			p.ID = rs.HookID
		}
	}
}

func (r *runState) isSetter(hook string) bool {
	if r.c.SetIn == hBeforeSave {
		return hook == hBeforeSave
	}
	return hook == hBeforeCreate || hook == hBeforeUpdate
}

// ---- case ---------------------------------------------------------------------------------------

type KidSpec struct {
	Tag  string
	Name string
}

type RecSpec struct {
	Tag  string
	ID   uint // 0: new row; otherwise the key of a seeded row (or 900: no such row)
	Name string
	Note string
	Age  int
	Code string // Parent.Code as the caller sets it ("": not set)
	Boss *KidSpec
	Kids []KidSpec
	// Parent only: second belongs-to, composite-key has-many
	HookID  uint // under CodePlan "hook": the key BeforeCreate gives this record (0: none, the database assigns one)
	Mentor  *KidSpec
	Items   []KidSpec
	Desk    *KidSpec  // has-one
	Friends []KidSpec // many2many
}

type SeedRow struct {
	ID      uint
	Boss    bool
	Kids    int
	Desk    bool
	Friends int
}

const (
	opCreate        = "create"
	opCreateBatches = "createinbatches"
	opSave          = "save"
	opUpdates       = "updates"
	opUpdate        = "update"
	opUpdateColumn  = "updatecolumn"
	opUpdateColumns = "updatecolumns"
	opDelete        = "delete"
	opFind          = "find"
	opFirst         = "first"
	opPluck         = "pluck" // Pluck / Count: query pipeline without a record destination
)

const (
	shPtr       = "&T"
	shPtrSlice  = "&[]T"
	shPtrPSlice = "&[]*T"
	shSlice     = "[]T"
	shPSlice    = "[]*T"
	shCond      = "cond" // Delete(&T{}, "id IN ?", ids); Model(&T{}).Where("id IN ?", ids).Updates(..)
	shDest      = "dest" // db.Updates(&T{ID: .., Note: ..}): the updating value is the model
	shPtrArray  = "&[2]T"
	shMap       = "map"    // Model(&T{}).Create(map[string]interface{}{..}): documented to run no hooks
	shMaps      = "&[]map" // Model(&T{}).Create(&[]map[string]interface{}{..})
)

type Case struct {
	CodePlan    string // Parent.Code (database default: an expression): "" left to the database | "caller" set by the caller | "hook" set by BeforeCreate (which also assigns RecSpec.HookID)
	JoinModel   bool   // Parent.Friends goes through the caller's join model FriendLink (db.SetupJoinTable), which has create/save hooks
	Armed       bool   // PrepareStmt: the SQL texts the hooks will run were prepared on the pool (outside any transaction) before
	Share       string // one in-memory child reachable through several relations: "" | "mentor=boss" | "friends=seen" | "friends=seen+new" | "boss-across-parents"
	FailWith    string // write operations: the error value failing hooks return (query operations try every value)
	Raw         bool   // find / first / take: the SQL is given with db.Raw(..), gorm builds no clauses
	Handle      string // flavour of the handle the operation starts from: "" | "withcontext" | "session-initialized" | "session-newdb" | "debug"
	AuditCreate bool   // with Audit: the side row is stored by tx.Create(&AuditRow{}) instead of tx.Exec
	History     string // what happened to the handle before: "" | "sibling-skiphooks" | "after-updatecolumn"
	Unscoped    bool   // delete: Unscoped() (hard delete of a soft-delete model)
	Via         string // find: "" | "batches" (FindInBatches); first: "" | "take" | "last" | "firstorinit" | "firstorcreate"; pluck: "pluck" | "count"
	CondTag     string // FirstOrInit / FirstOrCreate: the condition is map{"tag": CondTag}
	CondForm    string // delete / update by condition: "where" (inline or chained Where) | "pk" (primary keys as inline argument) | "chain"
	Returning   bool   // Clauses(clause.Returning{}) on update / delete of a struct
	Conflict    string // create: "" | "nothing" | "updateall": Clauses(clause.OnConflict{...})
	PresetLines bool   // items come with their line number already set (always when no hook runs)
	Model       string // top-level model type ("" = Parent)
	Audit       bool   // every hook invocation also writes a row into audits through its handle
	Seed        []SeedRow
	Op          string
	Shape       string
	Recs        []RecSpec // in-memory records handed to the operation (write operations)
	IDs         []uint    // keys selected by the condition (find / first / delete by condition)
	Batch       int       // CreateInBatches
	Form        string    // updates / updatecolumns: "struct" | "map"
	NewNote     string    // value written by the update operations
	CallerName  string    // update operations: the caller also writes the name column ("" | "field": key/field Name | "column": key name)
	DelSel      string    // delete: Select("Kids" | "Desk" | "Friends") - has-many / has-one children are deleted by a nested Delete with its own hooks, many2many links by a hook-less one
	Preload     []string  // find / first
	SkipHooks   bool
	Tx          string // caller transaction: "" | "begin" (Begin..Commit/Rollback) | "closure" (db.Transaction) | "nested" (Transaction inside Transaction: save point)
	SkipDefTx   string // "" | "session" | "config": SkipDefaultTransaction
	Prepare     string // "" | "session" | "config": PrepareStmt
	NoReturning bool   // dialector without RETURNING support
	BatchVia    string // create: "" | "session" (Session{CreateBatchSize}) - the documented other way into CreateInBatches
	FullSave    bool   // Session{FullSaveAssociations}
	NoNestedTx  bool   // Session{DisableNestedTransaction}
	Set         string // "" | "direct" | "setcolumn": what the setter before-hook does to Name
	SetIn       string // hBeforeSave | "specific" (BeforeCreate / BeforeUpdate)
	Probe       string // "exec" | "raw"
}

func (k KidSpec) String() string { return k.Tag }

func (r RecSpec) String() string {
	s := fmt.Sprintf("%s#%d", r.Tag, r.ID)
	if r.HookID != 0 {
		s += fmt.Sprintf("(hook-key %d)", r.HookID)
	}
	if r.Boss != nil {
		s += "+boss"
	}
	if len(r.Kids) > 0 {
		s += fmt.Sprintf("+%dkids", len(r.Kids))
	}
	if r.Mentor != nil {
		s += "+mentor"
	}
	if len(r.Items) > 0 {
		s += fmt.Sprintf("+%ditems", len(r.Items))
	}
	if r.Desk != nil {
		s += "+desk"
	}
	if len(r.Friends) > 0 {
		s += fmt.Sprintf("+%dfriends", len(r.Friends))
	}
	return s
}

func (c Case) String() string {
	var b strings.Builder
	fmt.Fprintf(&b, "%s seed=%v %s %s", c.kit().name, c.Seed, c.Op, c.Shape)
	if c.Raw {
		b.WriteString(" Raw-SQL")
	}
	if c.Share != "" {
		b.WriteString(" shared-child:" + c.Share)
	}
	if c.CodePlan != "" {
		b.WriteString(" code-by-" + c.CodePlan)
	}
	if c.JoinModel {
		b.WriteString(" hooked-join-model")
	}
	if c.Armed {
		b.WriteString(" hook-sql-prepared-on-pool-before")
	}
	if c.FailWith != "" && c.FailWith != "sentinel" {
		b.WriteString(" hooks-fail-with=" + c.FailWith)
	}
	if c.Via != "" {
		b.WriteString(" via=" + c.Via)
	}
	if c.CondTag != "" {
		b.WriteString(" cond-tag=" + c.CondTag)
	}
	if c.CondForm != "" {
		b.WriteString(" cond-form=" + c.CondForm)
	}
	if c.Returning {
		b.WriteString(" Returning")
	}
	if c.Conflict != "" {
		b.WriteString(" OnConflict=" + c.Conflict)
	}
	if c.Audit {
		b.WriteString(" hooks-write-audits")
	}
	if c.AuditCreate {
		b.WriteString("-by-Create")
	}
	if c.History != "" {
		b.WriteString(" history=" + c.History)
	}
	if c.Handle != "" {
		b.WriteString(" handle=" + c.Handle)
	}
	if c.Unscoped {
		b.WriteString(" Unscoped")
	}
	if c.PresetLines {
		b.WriteString(" item-lines-preset")
	}
	if len(c.Recs) > 0 || c.Shape != shCond {
		fmt.Fprintf(&b, " recs=%v", c.Recs)
	}
	if c.IDs != nil {
		fmt.Fprintf(&b, " ids=%v", c.IDs)
	}
	if c.Batch > 0 {
		fmt.Fprintf(&b, " batch=%d", c.Batch)
	}
	if c.Form != "" {
		fmt.Fprintf(&b, " form=%s", c.Form)
	}
	if len(c.Preload) > 0 {
		fmt.Fprintf(&b, " preload=%v", c.Preload)
	}
	if c.CallerName != "" {
		fmt.Fprintf(&b, " caller-sets-name-by-%s", c.CallerName)
	}
	if c.DelSel != "" {
		b.WriteString(" Select(" + c.DelSel + ")")
	}
	if c.SkipHooks {
		b.WriteString(" SkipHooks")
	}
	if c.Tx != "" {
		b.WriteString(" in-caller-tx:" + c.Tx)
	}
	if c.SkipDefTx != "" {
		b.WriteString(" SkipDefaultTransaction@" + c.SkipDefTx)
	}
	if c.Prepare != "" {
		b.WriteString(" PrepareStmt@" + c.Prepare)
	}
	if c.NoReturning {
		b.WriteString(" no-returning")
	}
	if c.BatchVia != "" {
		fmt.Fprintf(&b, " CreateBatchSize=%d", c.Batch)
	}
	if c.FullSave {
		b.WriteString(" FullSaveAssociations")
	}
	if c.NoNestedTx {
		b.WriteString(" DisableNestedTransaction")
	}
	if c.Set != "" {
		fmt.Fprintf(&b, " set=%s@%s", c.Set, c.SetIn)
	}
	fmt.Fprintf(&b, " probe=%s", c.Probe)
	return b.String()
}

func (c *Case) inTx() bool { return c.Tx != "" }

// rollsBack: a failing hook must leave the database unchanged (the operation has a transaction to roll back).
func (c *Case) rollsBack() bool { return c.SkipDefTx == "" || c.inTx() }

func (c *Case) isUpdateOp() bool {
	switch c.Op {
	case opUpdates, opUpdate, opUpdateColumn, opUpdateColumns:
		return true
	}
	return false
}

// setValue is what the setter hook writes into Name. Update operations carry
// one value for all records (Updates writes one SET clause); create/save
// operations get a per-record value, which also checks that SetColumn
// addresses the record the hook was called for.
func (c *Case) setValue(tag string) string {
	if c.isUpdateOp() {
		return "hook!"
	}
	return "hook:" + tag
}

// hooksRun: the operation dispatches hooks at all.
func (c *Case) hooksRun() bool {
	return !c.SkipHooks && c.Op != opUpdateColumn && c.Op != opUpdateColumns && c.Shape != shMap && c.Shape != shMaps && c.Op != opPluck
}

// ---- seeded database ----------------------------------------------------------------------------

var ddl []string

type seedContent struct {
	parents  []Parent // without associations
	children []Child
	joins    [][2]uint // parent_friends rows (parent_id, child_id)
}

func materialize(c *Case) seedContent {
	var sc seedContent
	k := c.kit()
	cid := uint(0)
	for _, s := range c.Seed {
		p := Parent{ID: s.ID, Tag: fmt.Sprintf("s%d", s.ID), Name: fmt.Sprintf("name%d", s.ID), Note: "seed", Age: int(s.ID)}
		if s.Boss && k.hasBoss {
			cid++
			sc.children = append(sc.children, Child{ID: cid, Tag: fmt.Sprintf("s%d.boss", s.ID), Name: "boss"})
			id := cid
			p.BossID = &id
		}
		for j := 0; j < s.Kids && k.hasKids; j++ {
			cid++
			pid := s.ID
			sc.children = append(sc.children, Child{ID: cid, Tag: fmt.Sprintf("s%d.k%d", s.ID, j), Name: "kid", ParentID: &pid})
		}
		if s.Desk && k.hasBoss {
			cid++
			pid := s.ID
			sc.children = append(sc.children, Child{ID: cid, Tag: fmt.Sprintf("s%d.desk", s.ID), Name: "desk", OwnerID: &pid})
		}
		for j := 0; j < s.Friends && k.hasBoss; j++ {
			cid++
			sc.children = append(sc.children, Child{ID: cid, Tag: fmt.Sprintf("s%d.f%d", s.ID, j), Name: "friend"})
			sc.joins = append(sc.joins, [2]uint{s.ID, cid})
		}
		sc.parents = append(sc.parents, p)
	}
	return sc
}

func openDB(c *Case) *testdb.DB {
	d := testdb.Open(testdb.Options{NoReturning: c.NoReturning, Config: gorm.Config{DisableForeignKeyConstraintWhenMigrating: true,
		SkipDefaultTransaction: c.SkipDefTx == "config", PrepareStmt: c.Prepare == "config"}})
	if ddl == nil {
		if err := d.AutoMigrate(&Parent{}, &Child{}, &Item{}, &SaveOnly{}, &Plain{}, &Soft{}); err != nil {
			panic("harness: migrate: " + err.Error())
		}
		if err := d.Exec("CREATE TABLE audits (id integer PRIMARY KEY AUTOINCREMENT, n integer, what text)").Error; err != nil {
			panic("harness: migrate: " + err.Error())
		}
		if err := d.Exec("ALTER TABLE parent_friends ADD COLUMN kind text").Error; err != nil {
			panic("harness: migrate: " + err.Error())
		}
		var stmts []string
		if err := d.Raw("SELECT sql FROM sqlite_master WHERE sql IS NOT NULL AND name NOT LIKE 'sqlite_%' ORDER BY rowid").Scan(&stmts).Error; err != nil || len(stmts) < 5 {
			panic(fmt.Sprintf("harness: capture ddl: %v %v", err, stmts))
		}
		ddl = stmts
	} else {
		for _, q := range ddl {
			if err := d.Exec(q).Error; err != nil {
				panic("harness: ddl: " + err.Error())
			}
		}
	}
	if c.JoinModel {
		if err := d.SetupJoinTable(&Parent{}, "Friends", &FriendLink{}); err != nil {
			panic("harness: SetupJoinTable: " + err.Error())
		}
	}
	sc := materialize(c)
	for _, ch := range sc.children {
		if err := d.Exec("INSERT INTO children (id, tag, name, parent_id, owner_id) VALUES (?,?,?,?,?)", ch.ID, ch.Tag, ch.Name, ch.ParentID, ch.OwnerID).Error; err != nil {
			panic("harness: seed: " + err.Error())
		}
	}
	for _, j := range sc.joins {
		if err := d.Exec("INSERT INTO parent_friends (parent_id, child_id) VALUES (?,?)", j[0], j[1]).Error; err != nil {
			panic("harness: seed: " + err.Error())
		}
	}
	table := c.kit().table
	for _, p := range sc.parents {
		var err error
		if table == "parents" {
			err = d.Exec("INSERT INTO parents (id, tag, name, note, age, boss_id) VALUES (?,?,?,?,?,?)", p.ID, p.Tag, p.Name, p.Note, p.Age, p.BossID).Error
		} else {
			err = d.Exec("INSERT INTO "+table+" (id, tag, name, note, age) VALUES (?,?,?,?,?)", p.ID, p.Tag, p.Name, p.Note, p.Age).Error
		}
		if err != nil {
			panic("harness: seed: " + err.Error())
		}
	}
	d.Rec.Reset()
	return d
}

type pRow struct {
	ID       uint
	Tag      string
	Name     string
	Note     string
	Age      int
	BossID   *uint
	MentorID *uint
	Deleted  bool // soft-deleted
	Code     string
}

type iRow struct {
	ParentID uint
	LineNo   uint
	Tag      string
	Name     string
}

type cRow struct {
	ID       uint
	Tag      string
	Name     string
	ParentID *uint
	OwnerID  *uint
}

type jRow struct {
	ParentID uint
	ChildID  uint
	Kind     string
}

type aRow struct {
	ID   uint
	N    int
	What string
}

// tables: P is the table of the case's top-level model.
type tables struct {
	Main string
	P    []pRow
	C    []cRow
	I    []iRow
	J    []jRow
	A    []aRow
}

func up(p *uint) string {
	if p == nil {
		return "NULL"
	}
	return strconv.Itoa(int(*p))
}

func (t tables) String() string {
	var b strings.Builder
	b.WriteString(t.Main + ":")
	for _, r := range t.P {
		fmt.Fprintf(&b, " {%d %s %q %q %d boss=%s mentor=%s", r.ID, r.Tag, r.Name, r.Note, r.Age, up(r.BossID), up(r.MentorID))
		if r.Code != "" {
			b.WriteString(" code=" + r.Code)
		}
		if r.Deleted {
			b.WriteString(" DELETED")
		}
		b.WriteString("}")
	}
	b.WriteString(" children:")
	for _, r := range t.C {
		fmt.Fprintf(&b, " {%d %s %q parent=%s owner=%s}", r.ID, r.Tag, r.Name, up(r.ParentID), up(r.OwnerID))
	}
	b.WriteString(" parent_friends:")
	for _, r := range t.J {
		fmt.Fprintf(&b, " {%d-%d %s}", r.ParentID, r.ChildID, r.Kind)
	}
	b.WriteString(" items:")
	for _, r := range t.I {
		fmt.Fprintf(&b, " {%d/%d %s %q}", r.ParentID, r.LineNo, r.Tag, r.Name)
	}
	b.WriteString(" audits:")
	for _, r := range t.A {
		fmt.Fprintf(&b, " {%d %d %s}", r.ID, r.N, r.What)
	}
	return b.String()
}

// dump reads both tables (and the AUTOINCREMENT counters) with recording paused.
func dump(d *testdb.DB, c *Case) (tables, string) {
	t := tables{Main: c.kit().table}
	type seqRow struct {
		Name string
		Seq  int
	}
	var seqs []seqRow
	var others []int
	d.Rec.Pause()
	saved := cur
	cur = nil
	boss := "NULL AS boss_id, NULL AS mentor_id, 0 AS deleted, '' AS code"
	if t.Main == "parents" {
		boss = "boss_id, mentor_id, 0 AS deleted, COALESCE(code, '') AS code"
	} else if t.Main == "softs" {
		boss = "NULL AS boss_id, NULL AS mentor_id, deleted_at IS NOT NULL AS deleted, '' AS code"
	}
	e6 := d.Raw("SELECT parent_id, line_no, tag, name FROM items ORDER BY parent_id, line_no, tag").Scan(&t.I).Error
	e1 := d.Raw("SELECT id, tag, name, note, age, " + boss + " FROM " + t.Main + " ORDER BY id").Scan(&t.P).Error
	e2 := d.Raw("SELECT id, tag, name, parent_id, owner_id FROM children ORDER BY id").Scan(&t.C).Error
	if e7 := d.Raw("SELECT parent_id, child_id, COALESCE(kind, '') AS kind FROM parent_friends ORDER BY parent_id, child_id").Scan(&t.J).Error; e7 != nil {
		panic("harness: dump: " + e7.Error())
	}
	e3 := d.Raw("SELECT name, seq FROM sqlite_sequence ORDER BY name").Scan(&seqs).Error
	e4 := d.Raw("SELECT id, n, what FROM audits ORDER BY id").Scan(&t.A).Error
	e5 := d.Raw("SELECT count(*) FROM parents UNION ALL SELECT count(*) FROM flats UNION ALL SELECT count(*) FROM plains UNION ALL SELECT count(*) FROM softs").Scan(&others).Error
	cur = saved
	d.Rec.Resume()
	if e1 != nil || e2 != nil || e3 != nil || e4 != nil || e5 != nil || e6 != nil {
		panic(fmt.Sprintf("harness: dump: %v %v %v %v %v %v", e1, e2, e3, e4, e5, e6))
	}
	return t, fmt.Sprintf("%s seq=%v rows(parents,flats,plains,softs)=%v", t, seqs, others)
}

// ---- in-memory arguments ------------------------------------------------------------------------

// memRec is one top-level in-memory record of a run.
type memRec struct {
	Tag string
	ID  uint
	Ptr uintptr
}

// memory is what one run hands to gorm.
type memory struct {
	arg   interface{}        // the value passed to the finisher / Model
	recs  []memRec           // the top-level in-memory records, in argument order
	ptrs  map[string]uintptr // tag -> address of the in-memory child records (kids, bosses)
	find  func() []memRec    // find / first: the loaded records after the operation
	model interface{}        // map creates: the Model(..) value
	links func() [][2]string // after the run: (parent tag, link tag) of every many2many link of the argument
}

// buildParent: pointer-typed children (Boss, Mentor, Friends) with equal tags are ONE in-memory
// object reachable through several relations (pool is shared by all parents of the argument).
func buildParent(r RecSpec, pool map[string]*Child) Parent {
	p := Parent{ID: r.ID, Tag: r.Tag, Name: r.Name, Note: r.Note, Age: r.Age, Code: r.Code}
	obj := func(k KidSpec) *Child {
		if ch, ok := pool[k.Tag]; ok {
			return ch
		}
		ch := &Child{Tag: k.Tag, Name: k.Name}
		pool[k.Tag] = ch
		return ch
	}
	if r.Boss != nil {
		p.Boss = obj(*r.Boss)
	}
	for _, k := range r.Kids {
		p.Kids = append(p.Kids, Child{Tag: k.Tag, Name: k.Name})
	}
	if r.Mentor != nil {
		p.Mentor = obj(*r.Mentor)
	}
	for _, k := range r.Items {
		p.Items = append(p.Items, Item{Tag: k.Tag, Name: k.Name})
	}
	if r.Desk != nil {
		p.Desk = Child{Tag: r.Desk.Tag, Name: r.Desk.Name}
	}
	for _, k := range r.Friends {
		p.Friends = append(p.Friends, obj(k))
	}
	return p
}

func build(c *Case) *memory {
	if c.Shape == shMap || c.Shape == shMaps {
		m := &memory{ptrs: map[string]uintptr{}, model: c.kit().zero()}
		var maps []map[string]interface{}
		for _, r := range c.Recs {
			maps = append(maps, map[string]interface{}{"tag": r.Tag, "name": r.Name, "note": r.Note, "age": r.Age})
		}
		if c.Shape == shMap {
			m.arg = maps[0]
		} else {
			m.arg = &maps // by pointer, as gorm's own tests do (by value fails to scan RETURNING ids: not a hook matter)
		}
		return m
	}
	return c.kit().build(c)
}

func buildParentMem(c *Case) *memory {
	m := &memory{ptrs: map[string]uintptr{}}
	ref := func(p *Parent) memRec { return memRec{Tag: p.Tag, ID: p.ID, Ptr: uintptr(unsafe.Pointer(p))} }
	n := len(c.Recs)
	pool := map[string]*Child{}
	switch c.Op {
	case opPluck:
		m.arg = &Parent{}
		return m
	case opFind, opFirst:
		switch c.Shape {
		case shPtr:
			p := &Parent{}
			m.arg = p
			m.find = func() []memRec { return []memRec{ref(p)} }
		case shPtrSlice:
			s := &[]Parent{}
			m.arg = s
			m.find = func() []memRec {
				out := make([]memRec, len(*s))
				for i := range *s {
					out[i] = ref(&(*s)[i])
				}
				return out
			}
		case shPtrPSlice:
			s := &[]*Parent{}
			m.arg = s
			m.find = func() []memRec {
				out := make([]memRec, len(*s))
				for i := range *s {
					out[i] = ref((*s)[i])
				}
				return out
			}
		}
		return m
	}
	var parents []*Parent
	switch c.Shape {
	case shPtr, shCond, shDest:
		var p *Parent
		if c.Shape == shCond {
			p = &Parent{Tag: "cond"}
		} else {
			v := buildParent(c.Recs[0], pool)
			p = &v
		}
		m.arg = p
		parents = []*Parent{p}
	case shPtrSlice, shSlice:
		s := make([]Parent, n)
		for i, r := range c.Recs {
			s[i] = buildParent(r, pool)
			parents = append(parents, &s[i])
		}
		if c.Shape == shPtrSlice {
			m.arg = &s
		} else {
			m.arg = s
		}
	case shPtrArray:
		arr := &[2]Parent{}
		for i, r := range c.Recs {
			arr[i] = buildParent(r, pool)
			parents = append(parents, &arr[i])
		}
		m.arg = arr
	case shPtrPSlice, shPSlice:
		s := make([]*Parent, n)
		for i, r := range c.Recs {
			v := buildParent(r, pool)
			s[i] = &v
			parents = append(parents, s[i])
		}
		if c.Shape == shPtrPSlice {
			m.arg = &s
		} else {
			m.arg = s
		}
	}
	m.links = func() [][2]string {
		var out [][2]string
		for _, p := range parents {
			for _, f := range p.Friends {
				out = append(out, [2]string{p.Tag, (&FriendLink{ParentID: p.ID, ChildID: f.ID}).tag()})
			}
		}
		return out
	}
	for _, p := range parents {
		m.recs = append(m.recs, ref(p))
		if p.Boss != nil {
			m.ptrs[p.Boss.Tag] = uintptr(unsafe.Pointer(p.Boss))
		}
		for i := range p.Kids {
			m.ptrs[p.Kids[i].Tag] = uintptr(unsafe.Pointer(&p.Kids[i]))
		}
		if p.Mentor != nil {
			m.ptrs[p.Mentor.Tag] = uintptr(unsafe.Pointer(p.Mentor))
		}
		if p.Desk.Tag != "" {
			m.ptrs[p.Desk.Tag] = uintptr(unsafe.Pointer(&p.Desk))
		}
		for _, f := range p.Friends {
			m.ptrs[f.Tag] = uintptr(unsafe.Pointer(f))
		}
		for i := range p.Items {
			if c.PresetLines {
				p.Items[i].LineNo = lineOf(p.Items[i].Tag)
			}
			m.ptrs[p.Items[i].Tag] = uintptr(unsafe.Pointer(&p.Items[i]))
		}
	}
	return m
}

// exec runs the operation on db.
func (c *Case) exec(db *gorm.DB, m *memory) *gorm.DB {
	switch c.Handle {
	case "withcontext":
		db = db.WithContext(context.WithValue(context.Background(), ctxKey{}, "c13"))
	case "session-initialized":
		db = db.Session(&gorm.Session{Initialized: true})
	case "session-newdb":
		db = db.Session(&gorm.Session{NewDB: true})
	case "debug":
		db = db.Debug().Session(&gorm.Session{Logger: logger.Discard})
	}
	if c.History == "sibling-skiphooks" {
		// a SkipHooks session was derived from this very handle before; it must not reach the handle itself
		db = db.Session(&gorm.Session{})
		_ = db.Session(&gorm.Session{SkipHooks: true}).Where("id > ?", 0)
	}
	if c.SkipHooks {
		db = db.Session(&gorm.Session{SkipHooks: true})
	}
	if c.SkipDefTx == "session" || c.Prepare == "session" || c.FullSave || c.NoNestedTx {
		db = db.Session(&gorm.Session{SkipDefaultTransaction: c.SkipDefTx == "session", PrepareStmt: c.Prepare == "session",
			FullSaveAssociations: c.FullSave, DisableNestedTransaction: c.NoNestedTx})
	}
	switch c.Op {
	case opCreate:
		switch c.Conflict {
		case "nothing":
			db = db.Clauses(clause.OnConflict{DoNothing: true})
		case "updateall":
			db = db.Clauses(clause.OnConflict{UpdateAll: true})
		}
		if m.model != nil {
			return db.Model(m.model).Create(m.arg)
		}
		if c.BatchVia == "session" {
			return db.Session(&gorm.Session{CreateBatchSize: c.Batch}).Create(m.arg)
		}
		return db.Create(m.arg)
	case opCreateBatches:
		return db.CreateInBatches(m.arg, c.Batch)
	case opSave:
		return db.Save(m.arg)
	case opUpdates, opUpdate, opUpdateColumn, opUpdateColumns:
		if c.Returning {
			db = db.Clauses(clause.Returning{})
		}
		if c.Shape == shDest {
			if c.Op == opUpdates {
				return db.Updates(m.arg)
			}
			return db.UpdateColumns(m.arg)
		}
		tx := db.Model(m.arg)
		if c.Shape == shCond {
			if c.CondForm == "pk" {
				tx = tx.Where(c.IDs)
			} else {
				tx = tx.Where("id IN ?", c.IDs)
			}
		}
		if c.History == "after-updatecolumn" {
			// the reusable handle first ran a column update (which runs no hooks and changes nothing here)
			tx = tx.Session(&gorm.Session{})
			if r := tx.UpdateColumn("age", gorm.Expr("age")); r.Error != nil {
				return r
			}
		}
		switch c.Op {
		case opUpdates:
			return tx.Updates(c.updateValues())
		case opUpdate:
			col, v := c.updateColumn()
			return tx.Update(col, v)
		case opUpdateColumn:
			col, v := c.updateColumn()
			return tx.UpdateColumn(col, v)
		}
		return tx.UpdateColumns(c.updateValues())
	case opDelete:
		if c.DelSel != "" {
			db = db.Select(c.DelSel)
		}
		if c.Returning {
			db = db.Clauses(clause.Returning{})
		}
		if c.Unscoped {
			db = db.Unscoped()
		}
		if c.Shape == shCond {
			switch c.CondForm {
			case "pk":
				return db.Delete(m.arg, c.IDs)
			case "chain":
				return db.Where("id IN ?", c.IDs).Delete(m.arg)
			}
			return db.Delete(m.arg, "id IN ?", c.IDs)
		}
		return db.Delete(m.arg)
	case opPluck:
		tx := db.Model(m.arg).Where("id IN ?", c.IDs)
		if c.Via == "count" {
			var n int64
			return tx.Count(&n)
		}
		var names []string
		return tx.Pluck("name", &names)
	case opFind, opFirst:
		var tx *gorm.DB
		if c.Via == "firstorinit" || c.Via == "firstorcreate" {
			tx = db.Where(map[string]interface{}{"tag": c.CondTag})
		} else if c.Raw {
			// the caller's own SQL: no clause is built, the query callbacks still run
			tx = db.Raw("SELECT * FROM "+c.kit().table+" WHERE id IN ? ORDER BY id", c.IDs)
		} else {
			tx = db.Where("id IN ?", c.IDs)
		}
		if !c.Raw && ((c.Op == opFind && c.Via == "") || c.Via == "take") {
			tx = tx.Order("id") // First / Last / FindInBatches order by the primary key themselves
		}
		for _, p := range c.Preload {
			tx = tx.Preload(p)
		}
		switch c.Via {
		case "batches":
			return tx.FindInBatches(m.arg, c.Batch, func(*gorm.DB, int) error { return nil })
		case "take":
			return tx.Take(m.arg)
		case "last":
			return tx.Last(m.arg)
		case "firstorinit":
			return tx.FirstOrInit(m.arg)
		case "firstorcreate":
			return tx.FirstOrCreate(m.arg)
		}
		if c.Op == opFirst {
			return tx.First(m.arg)
		}
		return tx.Find(m.arg)
	}
	panic("harness: unknown op " + c.Op)
}

type ctxKey struct{}

const callerName = "caller"

// updateValues is the argument of Updates / UpdateColumns.
func (c *Case) updateValues() interface{} {
	if c.Form == "map" {
		mp := map[string]interface{}{"note": c.NewNote, "age": 77}
		switch c.CallerName {
		case "field":
			mp["Name"] = callerName
		case "column":
			mp["name"] = callerName
		}
		return mp
	}
	name := ""
	if c.CallerName != "" {
		name = callerName
	}
	return c.kit().updateWith(c.NewNote, 77, name)
}

// updateColumn is the argument pair of Update / UpdateColumn.
func (c *Case) updateColumn() (string, interface{}) {
	switch c.CallerName {
	case "field":
		return "Name", callerName
	case "column":
		return "name", callerName
	}
	return "note", c.NewNote
}

// writesNote: the update operation writes the note column.
func (c *Case) writesNote() bool {
	return !((c.Op == opUpdate || c.Op == opUpdateColumn) && c.CallerName != "")
}

// ---- unified event log --------------------------------------------------------------------------

type event struct {
	Kind  string // "hook" | "stmt" | "begin" | "commit" | "rollback" | "savepoint"
	Seq   int
	TxID  int
	Conn  int
	Text  string // stmt
	Verb  string // stmt: INSERT | UPDATE | DELETE | SELECT
	Table string // stmt
	Err   error
	Inv   invocation // hook
}

func (e event) String() string {
	switch e.Kind {
	case "hook":
		s := fmt.Sprintf("%s.%s(%s) tx=%d", e.Inv.Model, e.Inv.Hook, e.Inv.Tag, e.TxID)
		if e.Inv.ProbeErr != nil {
			s += " probe-error=" + e.Inv.ProbeErr.Error()
		}
		return s
	case "stmt":
		t := e.Text
		if len(t) > 70 {
			t = t[:70] + "…"
		}
		s := fmt.Sprintf("stmt[%s %s] tx=%d %q", e.Verb, e.Table, e.TxID, t)
		if e.Err != nil {
			s += " -> " + e.Err.Error()
		}
		return s
	}
	if e.Kind == "audit" {
		return fmt.Sprintf("audit-row tx=%d %v", e.TxID, e.Err)
	}
	return fmt.Sprintf("%s tx=%d", e.Kind, e.TxID)
}

// descr is the run-independent rendering used to compare a faulted run's prefix
// with the fault-free run (no addresses, no transaction numbers).
func (e event) descr() string {
	switch e.Kind {
	case "hook":
		return fmt.Sprintf("%s.%s(%s)", e.Inv.Model, e.Inv.Hook, e.Inv.Tag)
	case "stmt":
		return fmt.Sprintf("stmt[%s %s]", e.Verb, e.Table)
	}
	return e.Kind
}

func renderLog(log []event) string {
	var b strings.Builder
	for i, e := range log {
		fmt.Fprintf(&b, "\n    %2d %s", i, e)
	}
	return b.String()
}

func classifyStmt(text string) (verb, table string) {
	t := strings.TrimSpace(text)
	u := strings.ToUpper(t)
	cut := func(after string) string {
		i := strings.Index(u, after)
		if i < 0 {
			return ""
		}
		rest := strings.TrimSpace(t[i+len(after):])
		rest = strings.TrimLeft(rest, "`\"")
		j := strings.IndexAny(rest, "`\" (")
		if j < 0 {
			return rest
		}
		return rest[:j]
	}
	switch {
	case strings.HasPrefix(u, "INSERT"):
		return "INSERT", cut("INTO ")
	case strings.HasPrefix(u, "UPDATE"):
		return "UPDATE", cut("UPDATE ")
	case strings.HasPrefix(u, "DELETE"):
		return "DELETE", cut("FROM ")
	case strings.HasPrefix(u, "SELECT"):
		return "SELECT", cut("FROM ")
	case strings.HasPrefix(u, "SAVEPOINT"), strings.HasPrefix(u, "ROLLBACK TO"), strings.HasPrefix(u, "RELEASE"):
		return "SAVEPOINT", ""
	}
	return "OTHER", ""
}

// unify merges the driver log and the hook invocations into one ordered log.
// A hook invocation is placed at the position of its probe statement.
func unify(evs []recdrv.Event, invs []invocation) (log []event, problems []string) {
	seen := make([]bool, len(invs))
	for _, e := range evs {
		switch e.Kind {
		case recdrv.Begin:
			log = append(log, event{Kind: "begin", Seq: e.Seq, Conn: e.ConnID})
		case recdrv.Commit:
			log = append(log, event{Kind: "commit", Seq: e.Seq, TxID: e.TxID, Conn: e.ConnID, Err: e.Err})
		case recdrv.Rollback:
			log = append(log, event{Kind: "rollback", Seq: e.Seq, TxID: e.TxID, Conn: e.ConnID})
		case recdrv.Exec, recdrv.Query:
			if i := strings.Index(e.Text, "/*c13:"); i >= 0 {
				num := e.Text[i+6:]
				num = num[:strings.Index(num, "*/")]
				n, _ := strconv.Atoi(num)
				if n >= len(invs) || seen[n] {
					problems = append(problems, fmt.Sprintf("probe %d appears in the driver log without (or twice for) its invocation", n))
					continue
				}
				seen[n] = true
				log = append(log, event{Kind: "hook", Seq: e.Seq, TxID: e.TxID, Conn: e.ConnID, Inv: invs[n], Err: e.Err})
				continue
			}
			verb, table := classifyStmt(e.Text)
			kind := "stmt"
			if verb == "SAVEPOINT" {
				kind = "savepoint"
			} else if table == "audits" {
				kind = "audit" // written by a hook, accounted for with its invocation
			}
			log = append(log, event{Kind: kind, Seq: e.Seq, TxID: e.TxID, Conn: e.ConnID, Text: e.Text, Verb: verb, Table: table, Err: e.Err})
		}
	}
	for n, ok := range seen {
		if !ok {
			iv := invs[n]
			problems = append(problems, fmt.Sprintf("the probe statement of %s.%s(%s) never reached the driver (error: %v)", iv.Model, iv.Hook, iv.Tag, iv.ProbeErr))
		}
	}
	return log, problems
}

// ---- the oracle ---------------------------------------------------------------------------------

func phaseOf(hook string) string {
	switch hook {
	case hBeforeSave, hBeforeCreate, hBeforeUpdate:
		return "before-save"
	case hAfterCreate, hAfterUpdate, hAfterSave:
		return "after-save"
	}
	return hook // BeforeDelete, AfterDelete, AfterFind are phases of their own
}

// want describes what the grammar demands for one in-memory / loaded record.
type want struct {
	Tag    string
	Model  string
	Kind   string // "create" | "update" | "delete" | "find"
	Table  string
	Parent string // tag of the owning parent record ("" for top-level records)
	Ptr    uintptr
}

// expectation of a fault-free run.
type expectation struct {
	Wants  []want
	Err    error // expected error (nil: must succeed)
	Writes bool  // the operation writes (own transaction unless in a caller transaction)
}

type failer interface {
	Fatalf(format string, args ...interface{})
}

// runResult of one execution.
type runResult struct {
	Err     error
	Log     []event
	Before  string
	After   string
	AfterT  tables
	Mem     *memory
	Invs    []invocation
	OuterTx int
}

// runOnce executes the case on a fresh database with the failAt-th hook invocation failing.
func runOnce(c *Case, failAt int, failKind ...string) (res runResult, problems []string) {
	d := openDB(c)
	defer d.Close()
	_, res.Before = dump(d, c)
	m := build(c)
	res.Mem = m
	rs := &runState{c: c, fail: failAt}
	if len(failKind) > 0 {
		rs.failKind = failKind[0]
	}
	if c.Armed {
		// the texts the hooks will send were last prepared OUTSIDE a transaction: run them once on the pool
		h := d.DB
		if c.Prepare == "session" {
			h = d.Session(&gorm.Session{PrepareStmt: true})
		}
		for n := 0; n < 48; n++ {
			var one int
			if err := h.Raw(probeText(n)).Scan(&one).Error; err != nil {
				panic("harness: arming the statement cache: " + err.Error())
			}
		}
	}
	cur = rs
	defer func() { cur = nil }()
	d.Rec.Reset()
	switch c.Tx {
	case "begin":
		tx := d.Begin()
		if tx.Error != nil {
			panic("harness: begin: " + tx.Error.Error())
		}
		r := c.exec(tx, m)
		res.Err = r.Error
		if r.Error != nil {
			tx.Rollback()
		} else if err := tx.Commit().Error; err != nil {
			panic("harness: commit: " + err.Error())
		}
	case "closure":
		res.Err = d.Transaction(func(tx *gorm.DB) error { return c.exec(tx, m).Error })
	case "nested":
		// the caller's outer transaction commits whatever happens; the failed inner block must be
		// undone by its save point alone
		outerErr := d.Transaction(func(outer *gorm.DB) error {
			res.Err = outer.Transaction(func(inner *gorm.DB) error { return c.exec(inner, m).Error })
			return nil
		})
		if outerErr != nil {
			panic("harness: outer transaction: " + outerErr.Error())
		}
	default:
		res.Err = c.exec(d.DB, m).Error
	}
	evs := d.Rec.Events()
	cur = nil
	res.Invs = rs.invs
	res.Log, problems = unify(evs, rs.invs)
	if n := d.Rec.OpenTx(); n != 0 {
		problems = append(problems, fmt.Sprintf("%d driver transaction(s) left open", n))
	}
	res.AfterT, res.After = dump(d, c)
	return res, problems
}

// parentKeys: the non-zero primary keys of the in-memory parents (what a nested delete is keyed by).
func parentKeys(c *Case, m *memory) []uint {
	var out []uint
	for _, p := range m.recs {
		if p.ID != 0 {
			out = append(out, p.ID)
		}
	}
	return out
}

func containsID(ids []uint, id uint) bool {
	for _, x := range ids {
		if x == id {
			return true
		}
	}
	return false
}

// expect derives, from the case alone, which records must see which hooks.
func expect(c *Case, m *memory) expectation {
	var ex expectation
	sc := materialize(c)
	k := c.kit()
	switch c.Op {
	case opPluck:
		return ex // no record destination: no hook at all
	case opFind, opFirst:
		var loaded []Parent
		byCond := c.Via == "firstorinit" || c.Via == "firstorcreate"
		for _, p := range sc.parents {
			if (!byCond && containsID(c.IDs, p.ID)) || (byCond && p.Tag == c.CondTag) {
				loaded = append(loaded, p)
			}
		}
		if c.Op == opFirst || c.Shape == shPtr {
			if c.Via == "last" && len(loaded) > 1 {
				loaded = loaded[len(loaded)-1:]
			}
			if len(loaded) > 1 {
				loaded = loaded[:1]
			}
		}
		if c.Op == opFirst && len(loaded) == 0 && !byCond {
			ex.Err = gorm.ErrRecordNotFound
		}
		if c.Via == "firstorcreate" && len(loaded) == 0 {
			// not found: the destination (carrying the condition's value) is created
			ex.Writes = true
			if c.hooksRun() {
				dest := m.find()[0]
				ex.Wants = append(ex.Wants, want{Tag: c.CondTag, Model: k.name, Kind: "create", Table: k.table, Ptr: dest.Ptr})
			}
			return ex
		}
		if !c.hooksRun() {
			return ex
		}
		for _, p := range loaded {
			ex.Wants = append(ex.Wants, want{Tag: p.Tag, Model: k.name, Kind: "find", Table: k.table})
		}
		for _, pre := range c.Preload {
			seenBoss := map[uint]bool{}
			for _, p := range loaded {
				for _, ch := range sc.children {
					switch pre {
					case "Kids":
						if ch.ParentID != nil && *ch.ParentID == p.ID {
							ex.Wants = append(ex.Wants, want{Tag: ch.Tag, Model: "Child", Kind: "find", Table: "children", Parent: "*"})
						}
					case "Boss":
						if p.BossID != nil && *p.BossID == ch.ID && !seenBoss[ch.ID] {
							seenBoss[ch.ID] = true
							ex.Wants = append(ex.Wants, want{Tag: ch.Tag, Model: "Child", Kind: "find", Table: "children", Parent: "*"})
						}
					case "Desk":
						if ch.OwnerID != nil && *ch.OwnerID == p.ID {
							ex.Wants = append(ex.Wants, want{Tag: ch.Tag, Model: "Child", Kind: "find", Table: "children", Parent: "*"})
						}
					case "Friends":
						for _, j := range sc.joins {
							if j[0] == p.ID && j[1] == ch.ID {
								ex.Wants = append(ex.Wants, want{Tag: ch.Tag, Model: "Child", Kind: "find", Table: "children", Parent: "*"})
							}
						}
					}
				}
			}
		}
		return ex
	}
	ex.Writes = true
	if m.model != nil {
		return ex // created from maps: no record, no hooks
	}
	// empty slices: gorm refuses them
	if len(m.recs) == 0 {
		switch c.Op {
		case opCreate, opSave, opCreateBatches:
			ex.Err = gorm.ErrEmptySlice
		default:
			ex.Err = gorm.ErrMissingWhereClause
		}
		return ex
	}
	if !c.hooksRun() {
		return ex
	}
	wantedChild := map[string]bool{} // pointer-typed children by tag: equal tag = one in-memory record
	for i, p := range m.recs {
		w := want{Tag: p.Tag, Model: k.name, Table: k.table, Ptr: p.Ptr}
		switch c.Op {
		case opCreate, opCreateBatches:
			w.Kind = "create"
		case opSave:
			// finisher_api.go Save: a slice is an upsert through the create callbacks; a struct with a
			// zero key is created, with a key it is updated (the insert fallback runs without hooks)
			if c.Shape != shPtr || p.ID == 0 {
				w.Kind = "create"
			} else {
				w.Kind = "update"
			}
		case opUpdates, opUpdate:
			w.Kind = "update"
		case opDelete:
			w.Kind = "delete"
		}
		ex.Wants = append(ex.Wants, w)
		if c.Op == opDelete && (c.DelSel == "Kids" || c.DelSel == "Desk") && i == 0 && len(parentKeys(c, m)) > 0 {
			// Select("Kids"): one nested Delete of the children of all given parents, on a model value gorm makes
			ex.Wants = append(ex.Wants, want{Tag: "", Model: "Child", Kind: "delete", Table: "children", Parent: "*"})
		}
		if c.Shape != shCond && c.Op != opDelete {
			// the association callbacks run in the create and in the update pipeline alike
			r := c.Recs[i]
			if r.Boss != nil && !wantedChild[r.Boss.Tag] {
				wantedChild[r.Boss.Tag] = true
				ex.Wants = append(ex.Wants, want{Tag: r.Boss.Tag, Model: "Child", Kind: "create", Table: "children", Parent: p.Tag, Ptr: m.ptrs[r.Boss.Tag]})
			}
			for _, kd := range r.Kids {
				ex.Wants = append(ex.Wants, want{Tag: kd.Tag, Model: "Child", Kind: "create", Table: "children", Parent: p.Tag, Ptr: m.ptrs[kd.Tag]})
			}
			if r.Mentor != nil && !wantedChild[r.Mentor.Tag] {
				// (a record that is also the boss is one in-memory record: one set of hooks)
				wantedChild[r.Mentor.Tag] = true
				ex.Wants = append(ex.Wants, want{Tag: r.Mentor.Tag, Model: "Child", Kind: "create", Table: "children", Parent: p.Tag, Ptr: m.ptrs[r.Mentor.Tag]})
			}
			for _, kd := range r.Items {
				ex.Wants = append(ex.Wants, want{Tag: kd.Tag, Model: "Item", Kind: "create", Table: "items", Parent: p.Tag, Ptr: m.ptrs[kd.Tag]})
			}
			if r.Desk != nil {
				ex.Wants = append(ex.Wants, want{Tag: r.Desk.Tag, Model: "Child", Kind: "create", Table: "children", Parent: p.Tag, Ptr: m.ptrs[r.Desk.Tag]})
			}
			for _, kd := range r.Friends {
				if wantedChild[kd.Tag] {
					continue
				}
				wantedChild[kd.Tag] = true
				ex.Wants = append(ex.Wants, want{Tag: kd.Tag, Model: "Child", Kind: "create", Table: "children", Parent: p.Tag, Ptr: m.ptrs[kd.Tag]})
			}
		}
	}
	if c.JoinModel && m.links != nil && c.Op != opDelete && c.Shape != shCond {
		// the link rows are records of the caller's join model: its hooks once per row
		seenLink := map[string]bool{}
		for _, l := range m.links() {
			if !seenLink[l[1]] {
				seenLink[l[1]] = true
				ex.Wants = append(ex.Wants, want{Tag: l[1], Model: "FriendLink", Kind: "create", Table: "parent_friends", Parent: l[0]})
			}
		}
	}
	return ex
}

type hookKey struct{ Tag, Model, Hook string }

func verbOf(kind string) string {
	switch kind {
	case "create":
		return "INSERT"
	case "update":
		return "UPDATE"
	case "delete":
		return "DELETE"
	}
	return "SELECT"
}

// checkFaultFree judges the log of the fault-free run. It returns violations (empty: the grammar holds).
func checkFaultFree(c *Case, ex expectation, res runResult) []string {
	var v []string
	bad := func(format string, a ...interface{}) { v = append(v, fmt.Sprintf(format, a...)) }
	log := res.Log

	// error
	if ex.Err != nil {
		if !errors.Is(res.Err, ex.Err) {
			bad("expected error %q, got %v", ex.Err, res.Err)
		}
		if res.Before != res.After {
			bad("the refused operation changed the database")
		}
	} else if res.Err != nil {
		bad("unexpected error: %v", res.Err)
	}

	// positions of hook events
	pos := map[hookKey][]int{}
	for i, e := range log {
		if e.Kind != "hook" {
			continue
		}
		k := hookKey{e.Inv.Tag, e.Inv.Model, e.Inv.Hook}
		pos[k] = append(pos[k], i)
		if e.Inv.ProbeErr != nil {
			bad("the statement issued through the handle given to %s failed: %v", e, e.Inv.ProbeErr)
		}
	}
	wanted := map[hookKey]bool{}
	one := func(w want, hook string) int {
		k := hookKey{w.Tag, w.Model, hook}
		wanted[k] = true
		switch len(pos[k]) {
		case 0:
			bad("%s.%s never fired for record %s", w.Model, hook, w.Tag)
			return -1
		case 1:
		default:
			bad("%s.%s fired %d times for record %s", w.Model, hook, len(pos[k]), w.Tag)
		}
		p := pos[k][0]
		if w.Ptr != 0 && !valueHook(w.Model, hook) && log[p].Inv.Ptr != w.Ptr {
			bad("%s.%s for record %s was called on a different object (%#x) than the in-memory record (%#x)", w.Model, hook, w.Tag, log[p].Inv.Ptr, w.Ptr)
		}
		return p
	}
	type span struct{ lastBefore, firstAfter int }
	spans := map[string]span{}
	for _, w := range ex.Wants {
		var seq []string // hooks in required order, "|" marks the statement
		switch w.Kind {
		case "create":
			seq = []string{hBeforeSave, hBeforeCreate, "|", hAfterCreate, hAfterSave}
		case "update":
			seq = []string{hBeforeSave, hBeforeUpdate, "|", hAfterUpdate, hAfterSave}
		case "delete":
			seq = []string{hBeforeDelete, "|", hAfterDelete}
		case "find":
			seq = []string{"|", hAfterFind}
		}
		last, lastName := -1, ""
		stmtSeen := false
		sp := span{lastBefore: -1, firstAfter: len(log)}
		verb := verbOf(w.Kind)
		if w.Kind == "delete" && w.Parent == "" && c.kit().soft && !c.Unscoped {
			verb = "UPDATE" // soft delete
		}
		for _, h := range seq {
			if h == "|" {
				stmtSeen = true
				continue
			}
			if !applicable(w.Model, h) {
				continue // not in the model's method set
			}
			p := one(w, h)
			if p < 0 {
				continue
			}
			if p < last {
				bad("%s.%s fired before %s for record %s", w.Model, h, lastName, w.Tag)
			}
			if p > last {
				last, lastName = p, h
			}
			if !stmtSeen && p > sp.lastBefore {
				sp.lastBefore = p
			}
			if stmtSeen && p < sp.firstAfter {
				sp.firstAfter = p
			}
		}
		spans[w.Tag] = sp
		// the statement lies between the before- and the after-hooks of the record
		n := 0
		for i := sp.lastBefore + 1; i < sp.firstAfter && i < len(log); i++ {
			if log[i].Kind == "stmt" && log[i].Verb == verb && log[i].Table == w.Table && log[i].Err == nil {
				n++
			}
		}
		txs := map[int]bool{}
		for k2, ps := range pos {
			if k2.Tag == w.Tag && k2.Model == w.Model {
				for _, p := range ps {
					txs[log[p].TxID] = true
				}
			}
		}
		if len(txs) > 1 {
			bad("the hooks of record %s ran in %d different driver transactions", w.Tag, len(txs))
		} else if len(txs) == 1 {
			shared := false
			for i := sp.lastBefore + 1; i < sp.firstAfter && i < len(log); i++ {
				if log[i].Kind == "stmt" && log[i].Verb == verb && log[i].Table == w.Table && txs[log[i].TxID] {
					shared = true
				}
			}
			if !shared && n > 0 {
				bad("the hooks and the statement of record %s did not share one transaction", w.Tag)
			}
		}
		if n == 0 && sp.firstAfter <= len(log) {
			bad("no %s statement on %s between the before-hooks and the after-hooks of record %s", verb, w.Table, w.Tag)
		}
	}
	// children's hooks run inside their parent's window
	for _, w := range ex.Wants {
		if w.Parent == "" {
			continue
		}
		for k, ps := range pos {
			if k.Tag != w.Tag || k.Model != w.Model {
				continue
			}
			for _, p := range ps {
				if w.Parent == "*" && c.Via == "batches" {
					continue // every batch is a query of its own: its preloads follow the earlier batches' AfterFind
				}
				if w.Parent == "*" {
					// preloaded children / nested delete: inside the window of every top-level record
					for _, pw := range ex.Wants {
						if pw.Parent == "" && (p > spans[pw.Tag].firstAfter || p < spans[pw.Tag].lastBefore) {
							bad("%s.%s of nested record %q fired outside the window between the before- and after-hooks of top-level record %s", k.Model, k.Hook, k.Tag, pw.Tag)
						}
					}
					continue
				}
				sp := spans[w.Parent]
				if p < sp.lastBefore || p > sp.firstAfter {
					bad("%s.%s of child %s fired outside the window between the before- and after-hooks of its parent %s", k.Model, k.Hook, k.Tag, w.Parent)
				}
			}
		}
	}
	// nothing but the wanted hooks
	var extra []string
	for k, ps := range pos {
		if !wanted[k] {
			extra = append(extra, fmt.Sprintf("%s.%s(%s) x%d", k.Model, k.Hook, k.Tag, len(ps)))
		}
	}
	sort.Strings(extra)
	if len(extra) > 0 {
		if !c.hooksRun() {
			bad("hooks fired although the operation must run none: %v", extra)
		} else {
			bad("hooks fired that the operation does not call for: %v", extra)
		}
	}
	v = append(v, checkTx(c, ex, res, false)...)
	return v
}

// checkTx: every hook probe ran in the transaction of the operation's statements.
func checkTx(c *Case, ex expectation, res runResult, faulted bool) []string {
	var v []string
	bad := func(format string, a ...interface{}) { v = append(v, fmt.Sprintf(format, a...)) }
	// the driver transaction open at each point of the log (0: none). A begin event is logged
	// before its number is assigned: the number is that of the commit/rollback closing it.
	open := make([]int, len(res.Log))
	curTx := 0
	for i, e := range res.Log {
		switch e.Kind {
		case "begin":
			for j := i + 1; j < len(res.Log); j++ {
				if res.Log[j].Kind == "commit" || res.Log[j].Kind == "rollback" {
					curTx = res.Log[j].TxID
					break
				}
			}
			open[i] = curTx
		case "commit", "rollback":
			open[i] = curTx
			curTx = 0
		default:
			open[i] = curTx
		}
	}
	hooksFired := false
	for _, e := range res.Log {
		if e.Kind == "hook" {
			hooksFired = true
		}
	}
	for i, e := range res.Log {
		switch e.Kind {
		case "audit":
			if e.TxID != open[i] {
				bad("a row written through a hook's handle went to driver transaction %d (connection %d) while the operation's transaction was %d", e.TxID, e.Conn, open[i])
			}
		case "hook":
			if e.TxID != open[i] {
				bad("%s.%s(%s) was given a handle outside the operation's transaction: its statement ran in driver transaction %d (connection %d), the operation's transaction at that point was %d",
					e.Inv.Model, e.Inv.Hook, e.Inv.Tag, e.TxID, e.Conn, open[i])
			}
		case "stmt":
			if e.TxID != open[i] {
				bad("%s ran in driver transaction %d while the operation's transaction was %d", e, e.TxID, open[i])
			}
			// a lone statement without hooks is atomic by itself; once hooks take part the operation needs a transaction of its own
			if e.Verb != "SELECT" && e.TxID == 0 && ex.Writes && ex.Err == nil && hooksFired && c.SkipDefTx == "" {
				bad("hooks took part in the write but it ran outside any transaction (nothing could be rolled back): %s", e)
			}
		}
	}
	return v
}

// checkFaulted judges the run in which invocation h failed, against the fault-free run.
func checkFaulted(c *Case, ex expectation, base, res runResult, h int, kind string) []string {
	var v []string
	bad := func(format string, a ...interface{}) { v = append(v, fmt.Sprintf(format, a...)) }
	if res.Err == nil {
		bad("the hook error was swallowed: the operation returned nil")
	} else if !errors.Is(res.Err, failValue(kind)) {
		bad("the operation returned %q, which does not wrap the hook's error (%v)", res.Err, failValue(kind))
	}
	if c.rollsBack() && res.Before != res.After {
		bad("the database changed although the operation failed:\n   before: %s\n   after:  %s", res.Before, res.After)
	}
	// locate the failing invocation in both logs
	at := -1
	for i, e := range res.Log {
		if e.Kind == "hook" && e.Inv.N == h {
			at = i
			break
		}
	}
	if at < 0 {
		bad("invocation #%d never happened in the faulted run", h)
		return v
	}
	// identical prefix
	for i := 0; i <= at; i++ {
		if i >= len(base.Log) || base.Log[i].descr() != res.Log[i].descr() {
			bad("the faulted run diverges from the fault-free run before the failing hook (event %d)", i)
			break
		}
	}
	// after the failure: only hooks of the failing phase (same model), each wanted and at most once; no statement
	failed := res.Log[at].Inv
	wanted := map[hookKey]bool{}
	for _, e := range base.Log {
		if e.Kind == "hook" {
			wanted[hookKey{e.Inv.Tag, e.Inv.Model, e.Inv.Hook}] = true
		}
	}
	count := map[hookKey]int{}
	for i, e := range res.Log {
		if e.Kind == "hook" {
			k := hookKey{e.Inv.Tag, e.Inv.Model, e.Inv.Hook}
			count[k]++
			if count[k] == 2 {
				bad("%s.%s fired twice for record %s", k.Model, k.Hook, k.Tag)
			}
			if !wanted[k] {
				bad("%s.%s(%s) fired although the fault-free run has no such invocation", k.Model, k.Hook, k.Tag)
			}
			if e.Inv.ProbeErr != nil {
				bad("the statement issued through the handle given to %s failed: %v", e, e.Inv.ProbeErr)
			}
		}
		if i <= at {
			continue
		}
		switch e.Kind {
		case "stmt":
			bad("a later phase ran after %s.%s(%s) failed: %s", failed.Model, failed.Hook, failed.Tag, e)
		case "hook":
			if e.Inv.Model != failed.Model || phaseOf(e.Inv.Hook) != phaseOf(failed.Hook) {
				bad("a hook of a later phase fired after %s.%s(%s) failed: %s", failed.Model, failed.Hook, failed.Tag, e)
			}
		case "commit":
			if !c.inTx() && c.rollsBack() {
				bad("the operation committed after %s.%s(%s) failed", failed.Model, failed.Hook, failed.Tag)
			}
		}
	}
	v = append(v, checkTx(c, ex, res, true)...)
	return v
}

// checkStored: after the fault-free run the rows hold what the operation (and the setter hook) wrote.
func checkStored(c *Case, ex expectation, res runResult) []string {
	var v []string
	bad := func(format string, a ...interface{}) { v = append(v, fmt.Sprintf(format, a...)) }
	if ex.Err != nil {
		return nil
	}
	t := res.AfterT
	sc := materialize(c)
	// every hook invocation wrote exactly one side row through its handle
	if c.Audit && len(t.A) != len(res.Invs) {
		bad("%d audit rows are stored, the hooks wrote %d through their handles", len(t.A), len(res.Invs))
	}
	if !c.Audit && len(t.A) != 0 {
		bad("%d audit rows are stored although no hook writes any", len(t.A))
	}
	pByTag := map[string][]pRow{}
	pByID := map[uint]pRow{}
	for _, r := range t.P {
		pByTag[r.Tag] = append(pByTag[r.Tag], r)
		pByID[r.ID] = r
	}
	cByTag := map[string][]cRow{}
	for _, r := range t.C {
		cByTag[r.Tag] = append(cByTag[r.Tag], r)
	}
	set := c.Set != "" && c.hooksRun()
	switch c.Op {
	case opCreate, opCreateBatches, opSave:
		newRows := 0
		for _, r := range c.Recs {
			if c.Conflict == "nothing" && r.ID != 0 && seedHas(sc, r.ID) {
				// ON CONFLICT DO NOTHING: the row stays what it was
				if row := pByID[r.ID]; row.Tag != fmt.Sprintf("s%d", r.ID) || row.Note != "seed" {
					bad("row %d was changed by a create with OnConflict{DoNothing}: %v", r.ID, row)
				}
				continue
			}
			rows := pByTag[r.Tag]
			if len(rows) != 1 {
				bad("record %s is stored %d times", r.Tag, len(rows))
				continue
			}
			row := rows[0]
			wantName := r.Name
			if set {
				wantName = c.setValue(r.Tag)
			}
			if row.Name != wantName {
				if set {
					bad("record %s: the before-hook set Name to %q (%s) but the row holds %q", r.Tag, wantName, c.Set, row.Name)
				} else {
					bad("record %s: row holds name %q, the record had %q", r.Tag, row.Name, r.Name)
				}
			}
			if row.Note != r.Note || row.Age != r.Age {
				bad("record %s: row holds note=%q age=%d, the record had note=%q age=%d", r.Tag, row.Note, row.Age, r.Note, r.Age)
			}
			if r.ID != 0 && row.ID != r.ID {
				bad("record %s: stored under key %d, the record has key %d", r.Tag, row.ID, r.ID)
			}
			if c.CodePlan == "hook" && c.hooksRun() {
				if r.ID == 0 && r.HookID != 0 && row.ID != r.HookID {
					bad("record %s: the before-hook set the key %d but the row is stored under key %d", r.Tag, r.HookID, row.ID)
				}
				if row.Code != "h-"+r.Tag {
					bad("record %s: the before-hook set Code to %q but the row holds %q", r.Tag, "h-"+r.Tag, row.Code)
				}
			} else if r.Code != "" && row.Code != r.Code && (r.ID == 0 || !seedHas(sc, r.ID) || (c.Op == opSave && c.Shape == shPtr)) {
				// (an upsert's conflict update leaves a database-defaulted column of the existing row alone: UpdateAll's documented rule)
				bad("record %s: row holds code %q, the record had %q", r.Tag, row.Code, r.Code)
			}
			if r.ID == 0 || !seedHas(sc, r.ID) {
				newRows++
			}
			kids := append([]KidSpec(nil), r.Kids...)
			if r.Boss != nil {
				kids = append(kids, *r.Boss)
			}
			if r.Mentor != nil {
				kids = append(kids, *r.Mentor)
			}
			if r.Desk != nil {
				kids = append(kids, *r.Desk)
			}
			kids = append(kids, r.Friends...)
			{
				uniq, seenTag := kids[:0:0], map[string]bool{}
				for _, k := range kids {
					if !seenTag[k.Tag] {
						seenTag[k.Tag] = true
						uniq = append(uniq, k)
					}
				}
				kids = uniq
			}
			for _, k := range r.Items {
				var irows []iRow
				for _, ir := range t.I {
					if ir.Tag == k.Tag {
						irows = append(irows, ir)
					}
				}
				if len(irows) != 1 {
					bad("item record %s is stored %d times", k.Tag, len(irows))
					continue
				}
				wantName := k.Name
				if set {
					wantName = c.setValue(k.Tag)
				}
				if irows[0].Name != wantName {
					bad("item record %s: expected stored name %q (set=%q), the row holds %q", k.Tag, wantName, c.Set, irows[0].Name)
				}
				if irows[0].ParentID != row.ID || irows[0].LineNo != lineOf(k.Tag) {
					bad("item record %s is stored under key (%d,%d), expected (%d,%d)", k.Tag, irows[0].ParentID, irows[0].LineNo, row.ID, lineOf(k.Tag))
				}
			}
			for _, k := range kids {
				crows := cByTag[k.Tag]
				if len(crows) != 1 {
					bad("child record %s is stored %d times", k.Tag, len(crows))
					continue
				}
				wantName := k.Name
				if set {
					wantName = c.setValue(k.Tag)
				}
				if crows[0].Name != wantName {
					bad("child record %s: expected stored name %q (set=%q), the row holds %q", k.Tag, wantName, c.Set, crows[0].Name)
				}
				role := false
				if r.Boss != nil && k.Tag == r.Boss.Tag {
					role = true
					if row.BossID == nil || *row.BossID != crows[0].ID {
						bad("record %s does not reference its boss row %d", r.Tag, crows[0].ID)
					}
				}
				if r.Mentor != nil && k.Tag == r.Mentor.Tag {
					role = true
					if row.MentorID == nil || *row.MentorID != crows[0].ID {
						bad("record %s does not reference its mentor row %d", r.Tag, crows[0].ID)
					}
				}
				if r.Desk != nil && k.Tag == r.Desk.Tag {
					role = true
					if crows[0].OwnerID == nil || *crows[0].OwnerID != row.ID {
						bad("has-one record %s does not reference its owner row %d", k.Tag, row.ID)
					}
				}
				for _, f := range r.Friends {
					if f.Tag != k.Tag {
						continue
					}
					role = true
					linked := false
					for _, j := range t.J {
						if j.ParentID == row.ID && j.ChildID == crows[0].ID {
							linked = true
							if c.JoinModel && c.hooksRun() && j.Kind != "hooked" {
								bad("the link row %d-%d holds kind %q, the join model's BeforeCreate set \"hooked\"", j.ParentID, j.ChildID, j.Kind)
							}
						}
					}
					if !linked {
						bad("many2many record %s is not linked to row %d in parent_friends", k.Tag, row.ID)
					}
				}
				if !role && (crows[0].ParentID == nil || *crows[0].ParentID != row.ID) {
					bad("child record %s does not reference its parent row %d", k.Tag, row.ID)
				}
			}
		}
		if len(t.P) != len(sc.parents)+newRows {
			bad("the table holds %d rows, expected %d", len(t.P), len(sc.parents)+newRows)
		}
	case opUpdates, opUpdate, opUpdateColumn, opUpdateColumns:
		for _, sp := range sc.parents {
			row, ok := pByID[sp.ID]
			if !ok {
				bad("row %d disappeared", sp.ID)
				continue
			}
			target := false
			for _, r := range c.Recs {
				if r.ID == sp.ID {
					target = true
				}
			}
			if c.Shape == shCond {
				target = containsID(c.IDs, sp.ID)
			}
			wantNote, wantName := sp.Note, sp.Name
			if target {
				if c.writesNote() {
					wantNote = c.NewNote
				}
				if c.CallerName != "" {
					wantName = callerName
				}
				if set {
					wantName = c.setValue("")
				}
			}
			if row.Note != wantNote {
				bad("row %d holds note %q, expected %q", sp.ID, row.Note, wantNote)
			}
			if row.Name != wantName {
				if target && set {
					bad("row %d: the before-hook set Name to %q through SetColumn but the row holds %q", sp.ID, wantName, row.Name)
				} else {
					bad("row %d holds name %q, expected %q", sp.ID, row.Name, wantName)
				}
			}
		}
	case opDelete:
		gone := map[uint]bool{}
		if c.Shape == shCond {
			for _, id := range c.IDs {
				gone[id] = true
			}
		} else {
			for _, r := range c.Recs {
				gone[r.ID] = true
			}
		}
		for _, sp := range sc.parents {
			row, ok := pByID[sp.ID]
			if c.kit().soft && !c.Unscoped && gone[sp.ID] && !ok {
				bad("soft delete removed row %d", sp.ID)
			}
			ok = ok && !row.Deleted
			if gone[sp.ID] && ok {
				bad("row %d was not deleted", sp.ID)
			}
			if !gone[sp.ID] && !ok {
				bad("row %d was deleted", sp.ID)
			}
		}
		left := map[uint]bool{}
		for _, r := range t.C {
			left[r.ID] = true
		}
		for _, ch := range sc.children {
			dead := c.Shape != shCond && ((c.DelSel == "Kids" && ch.ParentID != nil && gone[*ch.ParentID]) ||
				(c.DelSel == "Desk" && ch.OwnerID != nil && gone[*ch.OwnerID]))
			if dead && left[ch.ID] {
				bad("child row %d of a deleted parent survived Select(%q)", ch.ID, c.DelSel)
			}
			if !dead && !left[ch.ID] {
				bad("child row %d was deleted", ch.ID)
			}
		}
		for _, j := range sc.joins {
			dead := c.DelSel == "Friends" && gone[j[0]] && c.Shape != shCond
			have := false
			for _, r := range t.J {
				if r.ParentID == j[0] && r.ChildID == j[1] {
					have = true
				}
			}
			if dead && have {
				bad("the many2many link %d-%d of a deleted parent survived Select(\"Friends\")", j[0], j[1])
			}
			if !dead && !have {
				bad("the many2many link %d-%d was deleted", j[0], j[1])
			}
		}
	case opPluck:
		if res.Before != res.After {
			bad("a query changed the database")
		}
	case opFind, opFirst:
		if c.Via == "firstorcreate" && ex.Writes {
			if n := len(pByTag[c.CondTag]); n != 1 {
				bad("FirstOrCreate found no row tagged %s but %d such rows are stored afterwards", c.CondTag, n)
			}
			if len(t.P) != len(sc.parents)+1 {
				bad("the table holds %d rows, expected %d", len(t.P), len(sc.parents)+1)
			}
		} else if res.Before != res.After {
			bad("a query changed the database")
		}
		if c.Via == "batches" || (c.Via == "firstorinit" && len(ex.Wants) == 0) {
			return v // the destination holds the last batch only / an initialised, not loaded, record
		}
		// the loaded records are the records the hooks were called on
		var wantTags []string
		wantPtr := map[string]bool{}
		for _, w := range ex.Wants {
			if w.Parent == "" {
				wantTags = append(wantTags, w.Tag)
			}
		}
		loaded := res.Mem.find()
		if c.Shape == shPtr && len(wantTags) == 0 && !c.hooksRun() {
			// struct destination without hooks: nothing to compare
			return v
		}
		if c.hooksRun() {
			if c.Shape == shPtr && len(wantTags) == 0 {
				loaded = nil
			}
			var got []string
			for _, p := range loaded {
				got = append(got, p.Tag)
				wantPtr[fmt.Sprintf("%s@%#x", p.Tag, p.Ptr)] = true
			}
			if strings.Join(got, ",") != strings.Join(wantTags, ",") {
				bad("loaded records %v, expected %v", got, wantTags)
			}
			for _, e := range res.Log {
				if e.Kind == "hook" && e.Inv.Model == c.kit().name && !valueHook(e.Inv.Model, e.Inv.Hook) && !wantPtr[fmt.Sprintf("%s@%#x", e.Inv.Tag, e.Inv.Ptr)] {
					bad("AfterFind of %s was called on an object (%#x) that is not the loaded record in the destination", e.Inv.Tag, e.Inv.Ptr)
				}
			}
		}
	}
	return v
}

func seedHas(sc seedContent, id uint) bool {
	for _, p := range sc.parents {
		if p.ID == id {
			return true
		}
	}
	return false
}

// ---- one case: fault-free run + every failing invocation ------------------------------------------

func caseClasses(c *Case) []string {
	cl := []string{"model:" + c.kit().name, "op:" + c.Op, "shape:" + c.Shape, "probe:" + c.Probe}
	if c.Audit {
		cl = append(cl, "hooks-write-audits")
	}
	n := len(c.Recs)
	if c.Op == opFind || c.Op == opFirst || c.Shape == shCond {
		n = len(c.IDs)
	}
	cl = append(cl, fmt.Sprintf("records:%d", n))
	kids, boss := false, false
	for _, r := range c.Recs {
		if r.Mentor != nil && r.Boss != nil {
			cl = append(cl, "children:two-belongs-to")
		}
		if len(r.Items) >= 2 {
			cl = append(cl, "children:composite-key-items>=2")
		} else if len(r.Items) == 1 {
			cl = append(cl, "children:composite-key-item")
		}
		if len(r.Items) > 0 && len(r.Kids) > 0 {
			cl = append(cl, "children:two-has-many")
		}
		if r.Desk != nil {
			cl = append(cl, "children:has-one")
		}
		if len(r.Friends) > 0 {
			cl = append(cl, "children:many2many")
		}
		if len(r.Kids) > 0 {
			kids = true
		}
		if r.Boss != nil {
			boss = true
		}
	}
	if kids {
		cl = append(cl, "children:has-many")
	}
	if boss {
		cl = append(cl, "children:belongs-to")
	}
	for _, p := range c.Preload {
		cl = append(cl, "preload:"+p)
	}
	if c.SkipHooks {
		cl = append(cl, "skiphooks")
	}
	if c.DelSel != "" {
		cl = append(cl, "children:nested-delete:"+c.DelSel)
	}
	if c.Via != "" {
		cl = append(cl, "via:"+c.Via)
	}
	if c.Raw {
		cl = append(cl, "raw-sql")
	}
	if c.Share != "" {
		cl = append(cl, "shared-child:"+c.Share)
	}
	if c.CodePlan != "" {
		cl = append(cl, "db-default-column:set-by-"+c.CodePlan)
		first, later := false, false
		for i, r := range c.Recs {
			if r.HookID != 0 && i == 0 {
				first = true
			}
			if r.HookID != 0 && i > 0 {
				later = true
			}
		}
		if later && !first {
			cl = append(cl, "hook-assigns-key:not-to-the-first-record")
		} else if later || first {
			cl = append(cl, "hook-assigns-key")
		}
	}
	if c.JoinModel {
		cl = append(cl, "hooked-join-model")
		for _, r := range c.Recs {
			if len(r.Friends) > 0 {
				cl = append(cl, "hooked-join-model:links-written")
			}
		}
	}
	if c.Armed {
		cl = append(cl, "prepare-stmt:hook-sql-on-pool-before")
	}
	if c.AuditCreate {
		cl = append(cl, "hooks-write-audits-by-create")
	}
	if c.History != "" {
		cl = append(cl, "history:"+c.History)
	}
	if c.Handle != "" {
		cl = append(cl, "handle:"+c.Handle)
	}
	if c.Unscoped {
		cl = append(cl, "unscoped-delete")
	}
	if c.CondForm != "" {
		cl = append(cl, "cond-form:"+c.CondForm)
	}
	if c.Returning {
		cl = append(cl, "clause:returning")
	}
	if c.Conflict != "" {
		cl = append(cl, "clause:on-conflict-"+c.Conflict)
	}
	if c.isUpdateOp() {
		for _, r := range c.Recs {
			if r.Boss != nil || r.Mentor != nil || r.Desk != nil || len(r.Kids)+len(r.Items)+len(r.Friends) > 0 {
				cl = append(cl, "children:saved-by-update")
			}
		}
	}
	if c.CallerName != "" {
		cl = append(cl, "caller-sets-name:"+c.CallerName)
	}
	if c.Tx != "" {
		cl = append(cl, "in-caller-tx:"+c.Tx)
	}
	if c.SkipDefTx != "" {
		cl = append(cl, "skip-default-transaction@"+c.SkipDefTx)
	}
	if c.Prepare != "" {
		cl = append(cl, "prepare-stmt@"+c.Prepare)
	}
	if c.NoReturning {
		cl = append(cl, "dialector:no-returning")
	}
	if c.BatchVia != "" {
		cl = append(cl, "create-batch-size-session")
	}
	if c.FullSave {
		cl = append(cl, "full-save-associations")
	}
	if c.NoNestedTx {
		cl = append(cl, "disable-nested-transaction")
	}
	if c.Set != "" {
		cl = append(cl, "set:"+c.Set+"@"+c.SetIn)
	}
	// one label per case, not per record
	seen := map[string]bool{}
	out := cl[:0]
	for _, x := range cl {
		if !seen[x] {
			seen[x] = true
			out = append(out, x)
		}
	}
	return out
}

func checkCase(t failer, c *Case) {
	desc := c.String()
	evid.Journal(desc)
	base, problems := runOnce(c, -1)
	ex := expect(c, base.Mem)
	fail := func(res runResult, h int, viol []string) {
		which := "fault-free run"
		if h >= 0 {
			which = fmt.Sprintf("run with hook invocation #%d failing", h)
		}
		flog := ""
		if h >= 0 {
			flog = "\n  fault-free log:" + renderLog(base.Log)
		}
		// the verdict is repeated last: the driver shows the tail of a shard's output
		t.Fatalf("C13 violated (%s): %s\n  case: %s\n  returned error: %v%s\n  event log:%s\n  => C13 violated (%s): %s\n     case: %s",
			which, strings.Join(viol, "\n   and: "), desc, res.Err, flog, renderLog(res.Log), which, viol[0], desc)
	}
	viol := append(problems, checkFaultFree(c, ex, base)...)
	viol = append(viol, checkStored(c, ex, base)...)
	H := len(base.Invs)
	hooked := 0
	childHooks := false
	for _, w := range ex.Wants {
		hooked++
		if w.Parent != "" {
			childHooks = true
		}
	}
	classes := caseClasses(c)
	nt := hooked >= 2 || childHooks
	evid.Case(desc+" fault-free", nt, nil, append(classes, "run:fault-free", fmt.Sprintf("hook-invocations:%s", bucket(H)))...)
	if len(viol) > 0 {
		fail(base, -1, viol)
	}
	kinds := []string{c.FailWith}
	if c.FailWith == "" {
		kinds = []string{"sentinel"}
	}
	if c.Op == opFind || c.Op == opFirst {
		kinds = failKinds // reads are cheap: every error value at every invocation
	}
	for hk := 0; hk < H*len(kinds); hk++ {
		h, kind := hk/len(kinds), kinds[hk%len(kinds)]
		res, problems := runOnce(c, h, kind)
		viol := append(problems, checkFaulted(c, ex, base, res, h, kind)...)
		iv := base.Invs[h]
		fc := []string{"run:faulted", "fail:" + iv.Model + "." + iv.Hook, "fail-with:" + kind}
		if h == 0 {
			fc = append(fc, "fail:first-invocation")
		}
		if h == H-1 {
			fc = append(fc, "fail:last-invocation")
		}
		evid.Case(fmt.Sprintf("%s fail@%d/%d with %s", desc, h, H, kind), nt || h > 0, nil, append(classes, fc...)...)
		if len(viol) > 0 {
			viol[0] = fmt.Sprintf("[hook fails with %s] %s", kind, viol[0])
			fail(res, h, viol)
		}
	}
	evid.AddExtra("operations", 1)
	evid.AddExtra("hook_invocations_enumerated", int64(H))
}

func bucket(n int) string {
	switch {
	case n == 0:
		return "0"
	case n <= 4:
		return "1-4"
	case n <= 12:
		return "5-12"
	case n <= 30:
		return "13-30"
	}
	return "31+"
}

// ---- generator ----------------------------------------------------------------------------------

var enabledOps = []string{opFirst, opCreate, opCreate, opCreate, opCreateBatches, opSave, opSave, opUpdates, opUpdates, opUpdate, opUpdateColumn, opUpdateColumns, opDelete, opDelete, opFind, opFind, opFirst, opFirst, opPluck}

// maxRecords: argument lengths 0..5 in the quick tier, 0..8 in the thorough tier.
func maxRecords() int {
	if harness.Thorough() {
		return 8
	}
	return 5
}

// drawChildren gives a record new associated records (each with its own hooks), as far as the model has the relations.
func drawChildren(t *rapid.T, r *RecSpec, rich bool, k *kit) {
	if !rich || !k.hasKids {
		return
	}
	tag := r.Tag
	if k.hasBoss && rapid.IntRange(0, 2).Draw(t, tag+".boss") == 0 {
		r.Boss = &KidSpec{Tag: tag + ".boss", Name: "b-" + tag}
	}
	kidCounts := []int{0, 0, 1, 2}
	if harness.Thorough() {
		kidCounts = append(kidCounts, 3, 12) // 12: beyond the capacity hint (10) of the element slices in callbacks/associations.go
	}
	n := rapid.SampledFrom(kidCounts).Draw(t, tag+".kids")
	for j := 0; j < n; j++ {
		r.Kids = append(r.Kids, KidSpec{Tag: fmt.Sprintf("%s.k%d", tag, j), Name: fmt.Sprintf("k%d-%s", j, tag)})
	}
	if !k.hasBoss {
		return
	}
	if rapid.IntRange(0, 2).Draw(t, tag+".mentor") == 0 {
		r.Mentor = &KidSpec{Tag: tag + ".mentor", Name: "m-" + tag}
	}
	ni := rapid.SampledFrom([]int{0, 0, 1, 2, 3}).Draw(t, tag+".items")
	for j := 0; j < ni; j++ {
		r.Items = append(r.Items, KidSpec{Tag: fmt.Sprintf("%s.i%d", tag, j), Name: fmt.Sprintf("i%d-%s", j, tag)})
	}
	if rapid.IntRange(0, 2).Draw(t, tag+".desk") == 0 {
		r.Desk = &KidSpec{Tag: tag + ".desk", Name: "d-" + tag}
	}
	nf := rapid.SampledFrom([]int{0, 0, 1, 2}).Draw(t, tag+".friends")
	for j := 0; j < nf; j++ {
		r.Friends = append(r.Friends, KidSpec{Tag: fmt.Sprintf("%s.f%d", tag, j), Name: fmt.Sprintf("f%d-%s", j, tag)})
	}
}

// drawShare lets one in-memory child be reachable through several relations of the operation (the
// records of c are Parents with children). Returns the sharing it installed.
func drawShare(t *rapid.T, c *Case) string {
	var withBoss, withAnyBT, withNewFriend []int
	for i, r := range c.Recs {
		if r.Boss != nil {
			withBoss = append(withBoss, i)
		}
		if r.Boss != nil || r.Mentor != nil {
			withAnyBT = append(withAnyBT, i)
			if len(r.Friends) > 0 {
				withNewFriend = append(withNewFriend, i)
			}
		}
	}
	opts := []string{"", "", ""}
	if len(withBoss) > 0 {
		opts = append(opts, "mentor=boss", "mentor=boss")
	}
	if len(withAnyBT) > 0 {
		opts = append(opts, "friends=seen", "friends=seen")
	}
	if len(withNewFriend) > 0 {
		opts = append(opts, "friends=seen+new")
	}
	if len(withBoss) >= 2 {
		opts = append(opts, "boss-across-parents")
	}
	share := rapid.SampledFrom(opts).Draw(t, "share")
	seenOf := func(r *RecSpec) []KidSpec {
		var s []KidSpec
		if r.Boss != nil {
			s = append(s, *r.Boss)
		}
		if r.Mentor != nil && (r.Boss == nil || r.Mentor.Tag != r.Boss.Tag) {
			s = append(s, *r.Mentor)
		}
		return s
	}
	switch share {
	case "mentor=boss":
		// (the belongs-to callback pools the mentors of all parents of the argument: all of them seen)
		for i := range c.Recs {
			c.Recs[i].Mentor = c.Recs[i].Boss
		}
	case "friends=seen":
		// the many2many callback pools the friends of all parents of the argument into one slice:
		// "only seen records" has to hold for the whole argument
		for i := range c.Recs {
			c.Recs[i].Friends = seenOf(&c.Recs[i])
		}
	case "friends=seen+new":
		for _, i := range withNewFriend {
			c.Recs[i].Friends = append(seenOf(&c.Recs[i]), c.Recs[i].Friends...)
		}
	case "boss-across-parents":
		for _, i := range withBoss[1:] {
			c.Recs[i].Boss = c.Recs[withBoss[0]].Boss
		}
	}
	return share
}

func drawCase(t *rapid.T) *Case {
	c := &Case{}
	// the full-featured Parent about half of the time, otherwise one of the hook-subset models
	if mi := rapid.IntRange(0, 2*(len(modelNames)-1)-1).Draw(t, "model"); mi >= len(modelNames)-1 {
		c.Model = "Parent"
	} else {
		c.Model = modelNames[mi+1]
	}
	k := c.kit()
	isParent := c.Model == "Parent"
	if c.Model == "Soft" {
		// the soft-delete model is about Delete: draw it more often than the general mix does
		c.Op = rapid.SampledFrom([]string{opDelete, opDelete, opDelete, opDelete, opFind, opFirst, opUpdates, opCreate, opSave}).Draw(t, "op")
	} else {
		c.Op = rapid.SampledFrom(enabledOps).Draw(t, "op")
	}
	needSeed := 0
	switch c.Op {
	case opUpdates, opUpdate, opUpdateColumn, opUpdateColumns, opDelete:
		needSeed = 1
	}
	nSeed := rapid.IntRange(needSeed, maxRecords()).Draw(t, "seed-rows")
	for i := 1; i <= nSeed; i++ {
		row := SeedRow{ID: uint(i)}
		if k.hasBoss {
			row.Boss = rapid.IntRange(0, 2).Draw(t, "seed.boss") == 0
		}
		if k.hasKids {
			row.Kids = rapid.SampledFrom([]int{0, 1, 2}).Draw(t, "seed.kids")
		}
		if k.hasBoss {
			row.Desk = rapid.IntRange(0, 2).Draw(t, "seed.desk") == 0
			row.Friends = rapid.SampledFrom([]int{0, 0, 1, 2}).Draw(t, "seed.friends")
		}
		c.Seed = append(c.Seed, row)
	}
	c.Probe = rapid.SampledFrom([]string{"exec", "raw"}).Draw(t, "probe")
	c.SkipHooks = rapid.IntRange(0, 5).Draw(t, "skiphooks") == 0
	c.Tx = rapid.SampledFrom([]string{"", "", "", "", "", "begin", "closure", "nested"}).Draw(t, "caller-tx")
	c.SkipDefTx = rapid.SampledFrom([]string{"", "", "", "", "", "", "session", "config"}).Draw(t, "skip-default-tx")
	c.Prepare = rapid.SampledFrom([]string{"", "", "", "", "", "", "session", "config"}).Draw(t, "prepare-stmt")
	c.NoReturning = rapid.IntRange(0, 4).Draw(t, "no-returning") == 0
	names := []string{"ann", "bob", "", "o'neil"}

	// existing keys in a generated order without repetition
	pickExisting := func(label string, min, max int) []uint {
		if max > nSeed {
			max = nSeed
		}
		if min > max {
			min = max
		}
		n := rapid.IntRange(min, max).Draw(t, label+".n")
		perm := rapid.Permutation(seedIDs(nSeed)).Draw(t, label+".ids")
		return perm[:n]
	}

	switch c.Op {
	case opCreate, opCreateBatches, opSave:
		shapes := []string{shPtr, shPtrSlice, shPtrPSlice, shSlice, shPSlice}
		if c.Op == opCreateBatches {
			shapes = shapes[1:]
		} else {
			shapes = append(shapes, shPtrArray)
		}
		if c.Op == opCreate {
			shapes = append(shapes, shMap, shMaps)
		}
		c.Shape = rapid.SampledFrom(shapes).Draw(t, "shape")
		n := 1
		switch c.Shape {
		case shPtr, shMap:
		case shPtrArray:
			n = 2
		case shMaps:
			n = rapid.IntRange(1, 3).Draw(t, "records")
		default:
			n = rapid.IntRange(0, maxRecords()).Draw(t, "records")
			if c.Op == opCreateBatches && n == 0 {
				n = 1
			}
		}
		isMap := c.Shape == shMap || c.Shape == shMaps
		rich := !isMap && rapid.IntRange(0, 2).Draw(t, "with-children") == 0
		var existing []uint
		if c.Op == opSave {
			existing = rapid.Permutation(seedIDs(nSeed)).Draw(t, "save.ids")
		}
		if c.Op == opCreate && !rich && !isMap {
			// an upsert clause: records may then carry keys that exist
			c.Conflict = rapid.SampledFrom([]string{"", "", "", "nothing", "updateall"}).Draw(t, "on-conflict")
			if c.Conflict != "" {
				existing = rapid.Permutation(seedIDs(nSeed)).Draw(t, "conflict.ids")
			}
		}
		for i := 0; i < n; i++ {
			tag := fmt.Sprintf("r%d", i)
			r := RecSpec{Tag: tag, Name: rapid.SampledFrom(names).Draw(t, tag+".name"), Note: "n-" + tag, Age: rapid.IntRange(0, 3).Draw(t, tag+".age")}
			// without RETURNING gorm back-fills batch keys by counting from LastInsertId, which a batch mixing
			// preset and zero keys defeats (a key back-fill matter, not a hook matter): such batches stay all-new
			mixedOK := !c.NoReturning || n == 1
			if (c.Op == opSave || c.Conflict != "") && mixedOK {
				switch rapid.SampledFrom([]string{"new", "existing", "existing", "missing"}).Draw(t, tag+".target") {
				case "existing":
					if len(existing) > 0 {
						r.ID, existing = existing[0], existing[1:]
					}
				case "missing":
					r.ID = uint(900 + i)
				}
			}
			drawChildren(t, &r, rich, k)
			c.Recs = append(c.Recs, r)
		}
		if rich && isParent {
			c.Share = drawShare(t, c)
		}
		if isParent && !isMap {
			// the column with a database default: left alone, set by the caller for every record (a multi-row
			// insert cannot default it for some rows only on SQLite), or set by BeforeCreate
			plans := []string{"", "", "caller"}
			if c.Op != opSave && c.Conflict == "" && c.hooksRun() {
				plans = append(plans, "hook", "hook")
			}
			c.CodePlan = rapid.SampledFrom(plans).Draw(t, "code-plan")
			for i := range c.Recs {
				switch c.CodePlan {
				case "caller":
					c.Recs[i].Code = "c-" + c.Recs[i].Tag
				case "hook":
					// the hook takes over a key for some records only (batches mixing preset and zero keys
					// need RETURNING, see above)
					if (!c.NoReturning || n == 1) && rapid.IntRange(0, 2).Draw(t, c.Recs[i].Tag+".hook-key") == 0 {
						c.Recs[i].HookID = uint(700 + i)
					}
				}
			}
		}
		if c.Op == opCreateBatches {
			c.Batch = rapid.IntRange(1, n+1).Draw(t, "batch")
		}
		if c.Op == opCreate && c.Shape != shPtr && c.Shape != shPtrArray && !isMap && n >= 1 && rapid.IntRange(0, 3).Draw(t, "batch-via-session") == 0 {
			c.BatchVia = "session"
			c.Batch = rapid.IntRange(1, n+1).Draw(t, "batch")
		}
		if rich {
			c.FullSave = rapid.IntRange(0, 3).Draw(t, "full-save") == 0
		}
		if c.Tx != "" && (c.Op == opCreateBatches || c.BatchVia != "") {
			c.NoNestedTx = rapid.Bool().Draw(t, "disable-nested-tx")
		}
		if isParent && !isMap {
			c.Set = rapid.SampledFrom([]string{"", "", "direct", "setcolumn"}).Draw(t, "set")
		}
	case opUpdates, opUpdate, opUpdateColumn, opUpdateColumns:
		shapes := []string{shPtr, shPtr, shPtrSlice, shPtrPSlice, shCond}
		if nSeed >= 2 {
			shapes = append(shapes, shPtrArray)
		}
		if c.Op == opUpdates || c.Op == opUpdateColumns {
			shapes = append(shapes, shDest)
		}
		c.Shape = rapid.SampledFrom(shapes).Draw(t, "shape")
		c.NewNote = "new-" + rapid.SampledFrom([]string{"x", "y"}).Draw(t, "note")
		var ids []uint
		switch c.Shape {
		case shPtr, shDest:
			ids = pickExisting("target", 1, 1)
			c.Returning = c.Shape == shPtr && rapid.IntRange(0, 3).Draw(t, "returning") == 0
		case shPtrArray:
			ids = pickExisting("target", 2, 2)
		case shCond:
			c.IDs = pickExisting("target", 0, maxRecords())
			if c.IDs == nil {
				c.IDs = []uint{}
			}
			c.CondForm = "where"
			if len(c.IDs) > 0 && rapid.Bool().Draw(t, "cond-pk") {
				c.CondForm = "pk"
			}
		default:
			ids = pickExisting("target", 0, maxRecords())
		}
		richUpd := isParent && c.Shape != shCond && c.Shape != shDest && !c.Returning && rapid.IntRange(0, 3).Draw(t, "with-children") == 0
		for i, id := range ids {
			r := RecSpec{Tag: fmt.Sprintf("r%d", i), ID: id}
			if c.Returning || c.Shape == shDest {
				r.Tag = fmt.Sprintf("s%d", id) // the row's own tag: RETURNING loads it into the record, db.Updates(&rec) writes it
			}
			if c.Shape == shDest {
				r.Note, r.Age = c.NewNote, 77
			}
			drawChildren(t, &r, richUpd, k)
			c.Recs = append(c.Recs, r)
		}
		if richUpd {
			c.Share = drawShare(t, c)
		}
		if c.Op == opUpdates || c.Op == opUpdateColumns {
			c.Form = rapid.SampledFrom([]string{"struct", "map"}).Draw(t, "form")
			if c.Shape == shDest {
				c.Form = "struct"
			}
		}
		// a before-hook changes what an update stores only through SetColumn (documented)
		if isParent {
			c.Set = rapid.SampledFrom([]string{"", "setcolumn"}).Draw(t, "set")
			// the caller may write the same column the hook sets, naming it by field or by column
			if c.Shape != shDest {
				c.CallerName = rapid.SampledFrom([]string{"", "", "field", "column"}).Draw(t, "caller-name")
			}
		}
	case opDelete:
		dshapes := []string{shPtr, shPtrSlice, shPtrPSlice, shSlice, shPSlice, shCond}
		if nSeed >= 2 {
			dshapes = append(dshapes, shPtrArray)
		}
		c.Shape = rapid.SampledFrom(dshapes).Draw(t, "shape")
		switch c.Shape {
		case shPtr:
			c.IDs = nil
			c.Returning = rapid.IntRange(0, 3).Draw(t, "returning") == 0
			for i, id := range pickExisting("target", 1, 1) {
				r := RecSpec{Tag: fmt.Sprintf("r%d", i), ID: id}
				if c.Returning {
					r.Tag = fmt.Sprintf("s%d", id) // RETURNING loads the deleted row into the record
				}
				c.Recs = append(c.Recs, r)
			}
		case shPtrArray:
			for i, id := range pickExisting("target", 2, 2) {
				c.Recs = append(c.Recs, RecSpec{Tag: fmt.Sprintf("r%d", i), ID: id})
			}
		case shCond:
			c.IDs = pickExisting("target", 0, maxRecords())
			if c.IDs == nil {
				c.IDs = []uint{}
			}
			c.CondForm = rapid.SampledFrom([]string{"where", "chain", "pk"}).Draw(t, "cond-form")
			if len(c.IDs) == 0 && c.CondForm == "pk" {
				c.CondForm = "where"
			}
		default:
			for i, id := range pickExisting("target", 0, maxRecords()) {
				c.Recs = append(c.Recs, RecSpec{Tag: fmt.Sprintf("r%d", i), ID: id})
			}
		}
		if c.Shape != shCond && k.hasKids {
			sel := []string{"", "", "", "Kids", "Kids"}
			if k.hasBoss {
				sel = append(sel, "Desk", "Friends")
			}
			c.DelSel = rapid.SampledFrom(sel).Draw(t, "select-association")
		}
	case opFind, opFirst:
		if c.Op == opFirst {
			c.Shape = shPtr
		} else {
			c.Shape = rapid.SampledFrom([]string{shPtrSlice, shPtrPSlice, shPtr}).Draw(t, "shape")
		}
		c.IDs = pickExisting("target", 0, maxRecords())
		sort.Slice(c.IDs, func(i, j int) bool { return c.IDs[i] < c.IDs[j] })
		if c.IDs == nil {
			c.IDs = []uint{}
		}
		if c.Op == opFind && c.Shape != shPtr && rapid.IntRange(0, 3).Draw(t, "in-batches") == 0 {
			c.Via = "batches"
			c.Batch = rapid.IntRange(1, 3).Draw(t, "batch")
		}
		if c.Op == opFirst {
			c.Via = rapid.SampledFrom([]string{"", "", "take", "last", "firstorinit", "firstorcreate", "firstorcreate", "firstorcreate"}).Draw(t, "finder")
			if c.Via == "firstorinit" || c.Via == "firstorcreate" {
				c.IDs = []uint{}
				c.CondTag = "fresh"
				if nSeed > 0 && rapid.Bool().Draw(t, "cond-existing") {
					c.CondTag = fmt.Sprintf("s%d", rapid.IntRange(1, nSeed).Draw(t, "cond-id"))
				}
			}
		}
		if (c.Via == "" || c.Via == "take") && rapid.IntRange(0, 2).Draw(t, "raw-sql") == 0 {
			c.Raw = true
		}
		if k.hasKids && c.CondTag == "" && !c.Raw {
			switch rapid.IntRange(0, 5).Draw(t, "preload") {
			case 0:
				c.Preload = []string{"Kids"}
			case 1:
				if k.hasBoss {
					c.Preload = []string{"Boss"}
				}
			case 2:
				if k.hasBoss {
					c.Preload = []string{"Boss", "Kids"}
				}
			case 3:
				if k.hasBoss {
					c.Preload = rapid.SampledFrom([][]string{{"Desk"}, {"Friends"}, {"Desk", "Friends"}, {"Boss", "Desk", "Friends", "Kids"}}).Draw(t, "preload-more")
				}
			}
		}
	}
	if c.Op == opPluck {
		c.Via = rapid.SampledFrom([]string{"pluck", "count"}).Draw(t, "via")
		c.IDs = pickExisting("target", 0, maxRecords())
		if c.IDs == nil {
			c.IDs = []uint{}
		}
	}
	switch c.Op {
	case opFind, opFirst, opPluck:
	default:
		// hooks of a write also write a side row through their handle (must be rolled back with the rest)
		c.Audit = rapid.IntRange(0, 2).Draw(t, "audit") == 0
		if c.Audit {
			c.AuditCreate = rapid.IntRange(0, 2).Draw(t, "audit-by-create") == 0
		}
	}
	for _, r := range c.Recs {
		if len(r.Items) > 0 {
			// without hooks nothing would assign the line numbers; otherwise either way
			c.PresetLines = !c.hooksRun() || rapid.IntRange(0, 2).Draw(t, "preset-lines") == 0
			break
		}
	}
	if isParent {
		c.JoinModel = rapid.IntRange(0, 2).Draw(t, "hooked-join-model") == 0
	}
	if c.Prepare != "" && c.Probe == "raw" {
		c.Armed = rapid.Bool().Draw(t, "hook-sql-on-pool-before")
	}
	hist := []string{"", "", "", "", "sibling-skiphooks"}
	withChildren := false
	for _, r := range c.Recs {
		if r.Boss != nil || r.Mentor != nil || r.Desk != nil || len(r.Kids)+len(r.Items)+len(r.Friends) > 0 {
			withChildren = true // the preliminary column update would already store them
		}
	}
	if (c.Op == opUpdates || c.Op == opUpdate) && c.Shape != shDest && !withChildren {
		hist = append(hist, "after-updatecolumn", "after-updatecolumn")
	}
	c.History = rapid.SampledFrom(hist).Draw(t, "history")
	if c.Op != opFind && c.Op != opFirst && c.Op != opPluck {
		c.FailWith = rapid.SampledFrom([]string{"sentinel", "sentinel", "sentinel", "notfound", "notfound", "wrapped-notfound", "canceled", "norows", "txdone", "invalidtx", "badconn"}).Draw(t, "fail-with")
	}
	c.Handle = rapid.SampledFrom([]string{"", "", "", "", "withcontext", "session-initialized", "session-newdb", "debug"}).Draw(t, "handle")
	if c.Op == opDelete && k.soft {
		c.Unscoped = rapid.IntRange(0, 2).Draw(t, "unscoped") == 0
	}
	if c.Set != "" {
		c.SetIn = rapid.SampledFrom([]string{hBeforeSave, "specific"}).Draw(t, "set-in")
	}
	return c
}

func seedIDs(n int) []uint {
	out := make([]uint, n)
	for i := range out {
		out[i] = uint(i + 1)
	}
	return out
}

// ---- the property -------------------------------------------------------------------------------

const rule = "C13: rapid draws a top-level model type - Parent (all nine hooks; children with their own hooks through two belongs-to, a has-one held by value, two has-many (one with a composite key whose second half the child's BeforeCreate assigns) and a many2many of pointers), " +
	"a hook SUBSET without associations (only BeforeSave+AfterSave / AfterSave / Before+AfterCreate / Before+AfterUpdate / Before+AfterDelete / AfterFind), all hooks on value receivers, value-receiver Save hooks mixed with pointer-receiver Create/Update hooks, hooks promoted from an embedded struct, a soft-delete model, or Plain (no hooks, hooked has-many children held by pointer); the applicable hooks are read off the type's method set - " +
	"an initial database (0-5 rows, 0-8 in the thorough tier, with associated rows) and one operation: " +
	"Create (struct, pointer/value slices, array, map, slice of maps; optional OnConflict{DoNothing|UpdateAll}; Session{CreateBatchSize}) / CreateInBatches / Save (new, existing, missing keys); " +
	"Model(&T | &[]T | &[]*T | &[2]T | &T{}+Where/primary keys).Updates(struct|map) / Update / UpdateColumn / UpdateColumns, db.Updates(&T), optionally with new children in the model, clause.Returning, the caller writing the column the hook sets; " +
	"Delete of &T, slices, array or a zero value with an inline / chained / primary-key condition, optional Select(Kids|Desk|Friends), clause.Returning, Unscoped on the soft-delete model; " +
	"Find / FindInBatches / First / Take / Last / FirstOrInit / FirstOrCreate with optional Preload, Find / First / Take over the caller's own db.Raw(..) SQL, and Pluck / Count; " +
	"with or without Session{SkipHooks}, default transaction on or SkipDefaultTransaction (Config or Session), PrepareStmt (Config or Session), dialector with or without RETURNING, FullSaveAssociations, DisableNestedTransaction, " +
	"outside or inside a caller transaction (Begin, Transaction closure, nested Transaction = save point), from a plain / WithContext / Session{Initialized} / Session{NewDB} / Debug handle, after a sibling SkipHooks session or a column update on the same reusable handle; " +
	"the many2many may go through a join model of the caller (SetupJoinTable) with its own create/save hooks; under PrepareStmt the hooks' SQL texts may have been prepared on the pool before; " +
	"one in-memory child may be reachable through several relations of the operation (same pointer as two belongs-to, or as a belongs-to and the many2many slice: still one set of hooks); " +
	"Parent has two database-defaulted columns (auto-increment key, default:(expr) Code): Code is left to the database, set by the caller, or set by BeforeCreate, which may also assign keys to some records only; " +
	"a before-hook of Parent may set Name directly or through Statement.SetColumn; hooks of a write may also store a side row through their handle (Exec or a nested gorm Create). " +
	"The operation runs fault-free once (H hook invocations; event-log grammar, transaction identity and stored values checked), then EVERY h<H is run with the h-th invocation returning an error, each from an identical fresh database " +
	"- the failing hook returns its own sentinel, gorm.ErrRecordNotFound bare or wrapped, context.Canceled, sql.ErrNoRows, sql.ErrTxDone, gorm.ErrInvalidTransaction or driver.ErrBadConn (every value for reads, one drawn value per write case) - " +
	"(error returned, identical prefix, no statement and no hook of another phase after the failure, no commit, database dump unchanged unless the operation was told to run without a transaction). " +
	"One evaluation = one run. Non-trivial = at least two hooked records or hooked children, or the failing invocation is not the first. Distinct = model + initial rows + operation + argument shape + records + options + failing index."

func TestC13(t *testing.T) {
	evid.Rule(rule)
	evid.Extra("exhaustive_per_case", true)
	evid.Assume("hook invocations are ordered against the operation's statements by a probe statement each hook issues through the handle it was given; the recording driver (recdrv over go-sqlite3) numbers driver transactions")
	rapid.Check(t, func(rt *rapid.T) {
		c := drawCase(rt)
		if c.inClassMapKeyAlias() && harness.OpenClass("C13", classMapKeyAlias) {
			evid.Excluded(classMapKeyAlias)
			return
		}
		if c.inClassMixedReceiver() && harness.OpenClass("C13", classMixedReceiver) {
			evid.Excluded(classMixedReceiver)
			return
		}
		if c.hooksRun() && c.Share == "friends=seen+new" && harness.OpenClass("C13", classSharedPartlyNew) {
			evid.Excluded(classSharedPartlyNew)
			return
		}
		if c.Share == "boss-across-parents" && harness.OpenClass("C13", classSharedAcrossParents) { // (the duplicate rows need no hooks)
			evid.Excluded(classSharedAcrossParents)
			return
		}
		if c.inClassSharedAcrossBatches() && harness.OpenClass("C13", classSharedAcrossBatches) {
			evid.Excluded(classSharedAcrossBatches)
			return
		}
		checkCase(rt, c)
	})
}

// ---- listed finding: SetColumn next to the caller's differently spelled map key -------------------

// classMapKeyAlias: an update whose values are a map (Update(column, v) / Updates(map)) naming a
// column by its database name, while a before-hook sets the same column through
// Statement.SetColumn with the field name (the documented spelling on both sides).
// SetColumn stores the hook's value under its own key next to the caller's key, and
// ConvertToAssignments renders both: `UPDATE .. SET name=?,name=?` with the caller's value
// last - the caller's value is stored (SQLite, MySQL: rightmost assignment wins; PostgreSQL
// rejects the statement), not the value the before-hook set.
const classMapKeyAlias = "setcolumn-map-key-alias"

func (c *Case) inClassMapKeyAlias() bool {
	if !c.hooksRun() || c.Set != "setcolumn" || c.CallerName != "column" || len(c.Recs) == 0 {
		return false
	}
	return c.Op == opUpdate || (c.Op == opUpdates && c.Form == "map")
}

// TestC13WitnessSetColumnMapKeyAlias asserts the property on the smallest such input; it fails
// while the defect exists.
func TestC13WitnessSetColumnMapKeyAlias(t *testing.T) {
	for _, op := range []string{opUpdate, opUpdates} {
		c := &Case{Seed: []SeedRow{{ID: 1}}, Op: op, Shape: shPtr, Form: "map", NewNote: "new-x", CallerName: "column",
			Recs: []RecSpec{{Tag: "r0", ID: 1}}, Set: "setcolumn", SetIn: "specific", Probe: "exec"}
		checkCase(errorfer{t}, c)
	}
}

// ---- listed finding: value- and pointer-receiver hooks of one phase on a struct argument -----------

// classMixedReceiver: a model declaring one hook of a phase on the value (func (m M) BeforeSave)
// and another hook of the same phase on the pointer (func (m *M) BeforeCreate), operated on
// through a struct argument (Create(&M{}), Save(&M{}), Model(&m).Updates(..)). callMethod first
// offers the struct VALUE to the hook interfaces; the value-receiver hook matches, `called` is
// true, and the addressable pointer - the only thing the pointer-receiver hook matches - is never
// offered. The schema (parsed from the pointer's method set) lists both hooks as applicable, and
// the same record inside a slice argument gets both.
const classMixedReceiver = "mixed-receiver-struct"

func (c *Case) inClassMixedReceiver() bool {
	if c.Model != "Mixed" || !c.hooksRun() || c.Shape != shPtr {
		return false
	}
	switch c.Op {
	case opCreate, opSave, opUpdates, opUpdate:
		return true
	}
	return false
}

// TestC13WitnessMixedReceiverStruct asserts the grammar for Create(&Mixed{}) and
// Model(&Mixed{ID:1}).Update(..); it fails while the defect exists. The slice form of the same
// record is the control and must hold.
func TestC13WitnessMixedReceiverStruct(t *testing.T) {
	ctl := &Case{Model: "Mixed", Op: opCreate, Shape: shPtrSlice, Recs: []RecSpec{{Tag: "r0", Name: "a", Note: "n"}}, Probe: "exec"}
	checkCase(t, ctl)
	for _, c := range []*Case{
		{Model: "Mixed", Op: opCreate, Shape: shPtr, Recs: []RecSpec{{Tag: "r0", Name: "a", Note: "n"}}, Probe: "exec"},
		{Model: "Mixed", Seed: []SeedRow{{ID: 1}}, Op: opUpdate, Shape: shPtr, NewNote: "new-x", Recs: []RecSpec{{Tag: "r0", ID: 1}}, Probe: "exec"},
	} {
		checkCase(errorfer{t}, c)
	}
}

// ---- listed findings: one in-memory child reachable through several relations ------------------------

// classSharedPartlyNew: a record already saved through an earlier relation of the operation (the
// parent's belongs-to) is also an element of a later association slice that holds a not yet saved
// record too (Friends = [boss, new]). callbacks/helper.go loadOrStoreVisitMap answers "already
// saved" for a slice only when EVERY element was seen, so saveAssociations creates the whole slice
// again: the four create hooks of the shared record fire a second time (the INSERT is ON CONFLICT
// DO NOTHING, the rows are right). With a slice of only seen records the hooks fire once.
const classSharedPartlyNew = "shared-child-in-partly-new-slice"

// classSharedAcrossParents: two parents of one slice argument hold the same new (zero key)
// belongs-to record. SaveBeforeAssociations de-duplicates the belongs-to values by primary key
// only, a zero key is "always distinct": the one in-memory record is put into the nested Create
// twice - its hooks fire twice and TWO rows are inserted for it.
const classSharedAcrossParents = "shared-child-across-parents"

// classSharedAcrossBatches: parents that share one new belongs-to record land in DIFFERENT batches of
// CreateInBatches (or of a Create under CreateBatchSize). Every batch is a Create of its own with its
// own visit map: the child saved with the first batch is created again with the next one (INSERT ..
// ON CONFLICT DO NOTHING, the rows are right) and its four hooks fire a second time. Parents sharing
// the child inside ONE batch are saved correctly (repaired in 4606f7f) and stay in the domain.
const classSharedAcrossBatches = "shared-child-across-batches"

// batchOf: the batch the i-th record of the argument falls into (-1: the operation does not batch).
func (c *Case) batchOf(i int) int {
	if (c.Op == opCreateBatches || c.BatchVia != "") && c.Batch > 0 {
		return i / c.Batch
	}
	return -1
}

func (c *Case) inClassSharedAcrossBatches() bool {
	if !c.hooksRun() || c.Share != "boss-across-parents" {
		return false
	}
	first := map[string]int{} // boss tag -> batch of the first parent holding it
	for i, r := range c.Recs {
		if r.Boss == nil {
			continue
		}
		if b, ok := first[r.Boss.Tag]; ok && b != c.batchOf(i) {
			return true
		}
		if _, ok := first[r.Boss.Tag]; !ok {
			first[r.Boss.Tag] = c.batchOf(i)
		}
	}
	return false
}

func TestC13WitnessSharedChildAcrossBatches(t *testing.T) {
	b := &KidSpec{Tag: "r0.boss", Name: "b"}
	recs := []RecSpec{{Tag: "r0", Name: "a", Note: "n", Boss: b}, {Tag: "r1", Name: "b", Note: "n", Boss: b}}
	// control: both parents in one batch - holds
	checkCase(t, &Case{Op: opCreateBatches, Batch: 2, Shape: shPtrPSlice, Probe: "exec", Share: "boss-across-parents", Recs: recs})
	checkCase(errorfer{t}, &Case{Op: opCreateBatches, Batch: 1, Shape: shPtrPSlice, Probe: "exec", Share: "boss-across-parents", Recs: recs})
	checkCase(errorfer{t}, &Case{Op: opCreate, BatchVia: "session", Batch: 1, Shape: shPtrSlice, Probe: "exec", Share: "boss-across-parents", Recs: recs})
}

func TestC13WitnessSharedChildPartlyNew(t *testing.T) {
	b := &KidSpec{Tag: "r0.boss", Name: "b"}
	// control: a slice of only seen records - holds
	checkCase(t, &Case{Op: opCreate, Shape: shPtr, Probe: "exec", Share: "friends=seen", Recs: []RecSpec{{Tag: "r0", Name: "a", Note: "n", Boss: b, Friends: []KidSpec{*b}}}})
	checkCase(errorfer{t}, &Case{Op: opCreate, Shape: shPtr, Probe: "exec", Share: "friends=seen+new",
		Recs: []RecSpec{{Tag: "r0", Name: "a", Note: "n", Boss: b, Friends: []KidSpec{*b, {Tag: "r0.f0", Name: "f"}}}}})
}

func TestC13WitnessSharedChildAcrossParents(t *testing.T) {
	b := &KidSpec{Tag: "r0.boss", Name: "b"}
	checkCase(errorfer{t}, &Case{Op: opCreate, Shape: shPtrSlice, Probe: "exec", Share: "boss-across-parents",
		Recs: []RecSpec{{Tag: "r0", Name: "a", Note: "n", Boss: b}, {Tag: "r1", Name: "b", Note: "n", Boss: b}}})
}

// errorfer lets a witness report every failing input instead of stopping at the first.
type errorfer struct{ t *testing.T }

func (e errorfer) Fatalf(format string, args ...interface{}) { e.t.Errorf(format, args...) }
