// The C11 model family: four groups of static Go types that differ in the type of
// their keys (uint, string, int+string, string+string). Every group has the same
// shape - a user with a self-referential boss/team, a company (belongs to), a
// profile (has one), pets with toys (has many, nested), languages (many to many)
// and, for the single-key groups, polymorphic notes/badge and a self-referential
// many-to-many - so that one generic oracle (spec tables below) serves all.
package c11

import (
	"database/sql"
	"reflect"

	"gorm.io/gorm"
)

// ---------------------------------------------------------------- group A: uint keys

type AUser struct {
	Label     *string // nullable column declared before the key (first column of the table)
	ID        uint    `gorm:"primaryKey;autoIncrement:false"`
	Tag       int
	BossID    *uint
	Boss      *AUser    `gorm:"foreignKey:BossID"`
	Team      []AUser   `gorm:"foreignKey:BossID"`
	CompanyID uint      // 0 = none (non-pointer foreign key)
	Company   ACompany  `gorm:"foreignKey:CompanyID"`
	Profile   *AProfile `gorm:"foreignKey:UserID"`
	Pets      []*APet   `gorm:"foreignKey:UserID"`
	Langs     []ALang   `gorm:"many2many:a_user_langs;joinForeignKey:UserID;joinReferences:LangID"`
	Friends   []*AUser  `gorm:"many2many:a_friends;joinForeignKey:UserID;joinReferences:FriendID"`
	Notes     []ANote   `gorm:"polymorphic:Owner"`
	Badge     *ABadge   `gorm:"polymorphic:Owner"`
	Nick      string    // not a key: referenced by AGift.UserNick (references: on a non-primary column; duplicates and "" occur)
	Gifts     []AGift   `gorm:"foreignKey:UserNick;references:Nick"`
	Clubs     []AClub   `gorm:"many2many:a_user_clubs;joinForeignKey:UserID;references:Code;joinReferences:ClubCode"` // far side referenced by a NON-UNIQUE column
	Memos     []AMemo   `gorm:"polymorphic:Owner;foreignKey:Nick"`                                                    // polymorphic id column holds the owner's Nick, not its ID
	Stamp     *AStamp   `gorm:"polymorphic:Owner;foreignKey:Nick"`
	Extra     AExtra    `gorm:"embedded;embeddedPrefix:extra_"`
}

// AExtra is embedded in AUser and carries a relation of its own (preloadable as
// "Mentor" and as "Extra.Mentor").
type AExtra struct {
	MentorID *uint
	Mentor   *AUser `gorm:"foreignKey:MentorID"`
}

// AClub is referenced by its Code, which several clubs may share.
type AClub struct {
	ID   uint `gorm:"primaryKey;autoIncrement:false"`
	Tag  int
	Code string
}

type AUserClub struct {
	UserID   uint   `gorm:"primaryKey;autoIncrement:false"`
	ClubCode string `gorm:"primaryKey"`
}

func (AUserClub) TableName() string { return "a_user_clubs" }

type AMemo struct {
	ID        uint `gorm:"primaryKey;autoIncrement:false"`
	Tag       int
	OwnerID   *string
	OwnerType string
}

type AStamp struct {
	ID        uint `gorm:"primaryKey;autoIncrement:false"`
	Tag       int
	OwnerID   *string
	OwnerType string
	DeletedAt gorm.DeletedAt
}

type AGift struct {
	ID       uint `gorm:"primaryKey;autoIncrement:false"`
	Tag      int
	UserNick *string
	Giver    *AUser `gorm:"foreignKey:UserNick;references:Nick"`
}

type ACompany struct {
	ID        uint `gorm:"primaryKey;autoIncrement:false"`
	Tag       int
	DeletedAt gorm.DeletedAt
	Staff     []AUser `gorm:"foreignKey:CompanyID"`
	Notes     []ANote `gorm:"polymorphic:Owner"`
}

type AProfile struct {
	Label  *string // nullable column declared before the key (first column of the table)
	ID     uint    `gorm:"primaryKey;autoIncrement:false"`
	Tag    int
	UserID *uint
}

type APet struct {
	ID        uint `gorm:"primaryKey;autoIncrement:false"`
	Tag       int
	UserID    *uint
	DeletedAt gorm.DeletedAt
	Owner     *AUser `gorm:"foreignKey:UserID"`
	Toys      []AToy `gorm:"foreignKey:PetID"`
}

type AToy struct {
	ID    uint `gorm:"primaryKey;autoIncrement:false"`
	Tag   int
	PetID uint
}

type ALang struct {
	ID        uint `gorm:"primaryKey;autoIncrement:false"`
	Tag       int
	DeletedAt gorm.DeletedAt
}

type ANote struct {
	ID        uint `gorm:"primaryKey;autoIncrement:false"`
	Tag       int
	OwnerID   uint
	OwnerType string
}

type ABadge struct {
	Label     *string // nullable column declared before the key (first column of the table)
	ID        uint    `gorm:"primaryKey;autoIncrement:false"`
	Tag       int
	OwnerID   *uint
	OwnerType string
	DeletedAt gorm.DeletedAt
}

type AUserLang struct {
	UserID uint `gorm:"primaryKey;autoIncrement:false"`
	LangID uint `gorm:"primaryKey;autoIncrement:false"`
}

func (AUserLang) TableName() string { return "a_user_langs" }

type AFriend struct {
	UserID   uint `gorm:"primaryKey;autoIncrement:false"`
	FriendID uint `gorm:"primaryKey;autoIncrement:false"`
}

func (AFriend) TableName() string { return "a_friends" }

// ---------------------------------------------------------------- group S: string keys

type SUser struct {
	Label     *string // nullable column declared before the key (first column of the table)
	ID        string  `gorm:"primaryKey"`
	BossID    *string
	Tag       int
	Boss      *SUser    `gorm:"foreignKey:BossID"`
	Team      []*SUser  `gorm:"foreignKey:BossID"`
	CompanyID string    // "" = none
	Company   *SCompany `gorm:"foreignKey:CompanyID"`
	Profile   SProfile  `gorm:"foreignKey:UserID"`
	Pets      []SPet    `gorm:"foreignKey:UserID"`
	Langs     []*SLang  `gorm:"many2many:s_user_langs;joinForeignKey:UserID;joinReferences:LangID"`
	Friends   []SUser   `gorm:"many2many:s_friends;joinForeignKey:UserID;joinReferences:FriendID"`
	Notes     []*SNote  `gorm:"polymorphic:Owner;polymorphicValue:s_usr"`
	Badge     SBadge    `gorm:"polymorphic:Owner"`
}

type SCompany struct {
	Label     *string // nullable column declared before the key (first column of the table)
	ID        string  `gorm:"primaryKey"`
	Tag       int
	DeletedAt gorm.DeletedAt
	Staff     []*SUser `gorm:"foreignKey:CompanyID"`
	Notes     []*SNote `gorm:"polymorphic:Owner"`
}

type SProfile struct {
	ID     string `gorm:"primaryKey"`
	Tag    int
	UserID *string
}

type SPet struct {
	ID        string `gorm:"primaryKey"`
	Tag       int
	UserID    sql.NullString
	DeletedAt gorm.DeletedAt
	Owner     *SUser  `gorm:"foreignKey:UserID"`
	Toys      []*SToy `gorm:"foreignKey:PetID"`
}

type SToy struct {
	ID    string `gorm:"primaryKey"`
	Tag   int
	PetID string
}

type SLang struct {
	ID        []byte `gorm:"primaryKey"`
	Tag       int
	DeletedAt gorm.DeletedAt
}

type SNote struct {
	ID        string `gorm:"primaryKey"`
	Tag       int
	OwnerID   string
	OwnerType string
}

type SBadge struct {
	Label     *string // nullable column declared before the key (first column of the table)
	ID        string  `gorm:"primaryKey"`
	Tag       int
	OwnerID   *string
	OwnerType string
	DeletedAt gorm.DeletedAt
}

// SUserLang is installed as the join model of SUser.Langs with SetupJoinTable:
// a join table that soft-deletes its links.
type SUserLang struct {
	UserID    string `gorm:"primaryKey"`
	LangID    []byte `gorm:"primaryKey"`
	DeletedAt gorm.DeletedAt
}

func (SUserLang) TableName() string { return "s_user_langs" }

type SFriend struct {
	UserID   string `gorm:"primaryKey"`
	FriendID string `gorm:"primaryKey"`
}

func (SFriend) TableName() string { return "s_friends" }

// ---------------------------------------------------------------- group C: composite int+string keys

type CUser struct {
	Label    *string // nullable column declared before the key (first column of the table)
	Org      int     `gorm:"primaryKey;autoIncrement:false"`
	Code     string  `gorm:"primaryKey"`
	BossOrg  *int
	BossCode *string
	Tag      int
	Boss     *CUser  `gorm:"foreignKey:BossOrg,BossCode;references:Org,Code"`
	Team     []CUser `gorm:"foreignKey:BossOrg,BossCode;references:Org,Code"`
	CoOrg    *int
	CoCode   *string
	Company  *CCompany `gorm:"foreignKey:CoOrg,CoCode;references:Org,Code"`
	Profile  CProfile  `gorm:"foreignKey:UserOrg,UserCode;references:Org,Code"`
	Pets     []CPet    `gorm:"foreignKey:UserOrg,UserCode;references:Org,Code"`
	Langs    []*CLang  `gorm:"many2many:c_user_langs;foreignKey:Org,Code;joinForeignKey:UserOrg,UserCode;references:Org,Code;joinReferences:LangOrg,LangCode"`
}

type CCompany struct {
	Label     *string // nullable column declared before the key (first column of the table)
	Org       int     `gorm:"primaryKey;autoIncrement:false"`
	Code      string  `gorm:"primaryKey"`
	Tag       int
	DeletedAt gorm.DeletedAt
	Staff     []*CUser `gorm:"foreignKey:CoOrg,CoCode;references:Org,Code"`
}

type CProfile struct {
	ID       uint `gorm:"primaryKey;autoIncrement:false"`
	Tag      int
	UserOrg  int // non-pointer parts: 0 / "" = none
	UserCode string
}

type CPet struct {
	Label     *string // nullable column declared before the key (first column of the table)
	ID        uint    `gorm:"primaryKey;autoIncrement:false"`
	Tag       int
	UserOrg   *int
	UserCode  *string
	DeletedAt gorm.DeletedAt
	Owner     *CUser `gorm:"foreignKey:UserOrg,UserCode;references:Org,Code"`
	Toys      []CToy `gorm:"foreignKey:PetID"`
}

type CToy struct {
	ID    uint `gorm:"primaryKey;autoIncrement:false"`
	Tag   int
	PetID *uint
}

// CodeT is a defined string type used as a key part.
type CodeT string

type CLang struct {
	Org       int   `gorm:"primaryKey;autoIncrement:false"`
	Code      CodeT `gorm:"primaryKey"`
	Tag       int
	DeletedAt gorm.DeletedAt
}

type CUserLang struct {
	UserOrg  int    `gorm:"primaryKey;autoIncrement:false"`
	UserCode string `gorm:"primaryKey"`
	LangOrg  int    `gorm:"primaryKey;autoIncrement:false"`
	LangCode CodeT  `gorm:"primaryKey"`
}

func (CUserLang) TableName() string { return "c_user_langs" }

// ---------------------------------------------------------------- group D: composite string+string keys

type DUser struct {
	Label   *string // nullable column declared before the key (first column of the table)
	K1      string  `gorm:"primaryKey"`
	K2      string  `gorm:"primaryKey"`
	Tag     int
	BossK1  *string
	BossK2  *string
	Boss    *DUser   `gorm:"foreignKey:BossK1,BossK2;references:K1,K2"`
	Team    []*DUser `gorm:"foreignKey:BossK1,BossK2;references:K1,K2"`
	CoK1    *string
	CoK2    *string
	Company *DCompany `gorm:"foreignKey:CoK1,CoK2;references:K1,K2"`
	Profile *DProfile `gorm:"foreignKey:UserK1,UserK2;references:K1,K2"`
	Pets    []*DPet   `gorm:"foreignKey:UserK1,UserK2;references:K1,K2"`
	Langs   []DLang   `gorm:"many2many:d_user_langs;foreignKey:K1,K2;joinForeignKey:UserK1,UserK2;references:K1,K2;joinReferences:LangK1,LangK2"`
}

type DCompany struct {
	Label     *string // nullable column declared before the key (first column of the table)
	K1        string  `gorm:"primaryKey"`
	K2        string  `gorm:"primaryKey"`
	Tag       int
	DeletedAt gorm.DeletedAt
	Staff     []DUser `gorm:"foreignKey:CoK1,CoK2;references:K1,K2"`
}

type DProfile struct {
	Label  *string // nullable column declared before the key (first column of the table)
	ID     uint    `gorm:"primaryKey;autoIncrement:false"`
	Tag    int
	UserK1 *string
	UserK2 *string
}

type DPet struct {
	K1        string `gorm:"primaryKey"`
	K2        string `gorm:"primaryKey"`
	Tag       int
	UserK1    string // non-pointer parts: "" = none
	UserK2    string
	DeletedAt gorm.DeletedAt
	Owner     *DUser `gorm:"foreignKey:UserK1,UserK2;references:K1,K2"`
	Toys      []DToy `gorm:"foreignKey:PetK1,PetK2;references:K1,K2"`
}

type DToy struct {
	ID    uint `gorm:"primaryKey;autoIncrement:false"`
	Tag   int
	PetK1 *string
	PetK2 *string
}

type DLang struct {
	K1        string `gorm:"primaryKey"`
	K2        string `gorm:"primaryKey"`
	Tag       int
	DeletedAt gorm.DeletedAt
}

type DUserLang struct {
	UserK1 string `gorm:"primaryKey"`
	UserK2 string `gorm:"primaryKey"`
	LangK1 string `gorm:"primaryKey"`
	LangK2 string `gorm:"primaryKey"`
}

func (DUserLang) TableName() string { return "d_user_langs" }

// ---------------------------------------------------------------- spec tables (the oracle's own description)

// Relation kinds.
const (
	hasOne    = "has-one"
	hasMany   = "has-many"
	belongsTo = "belongs-to"
	many2many = "many2many"
	polyMany  = "poly-has-many"
	polyOne   = "poly-has-one"
)

// rel describes one association field of a model the way the oracle reads it: a
// child row c belongs to owner row o iff o.own[i] == c.tgt[i] for every i (typed,
// NULL equals nothing), c.polyField == polyValue when polymorphic, and - many to
// many - iff a join row j exists with o.own == j.jOwn and j.jRel == c.tgt.
type rel struct {
	name   string
	kind   string
	target string // model name
	own    []string
	tgt    []string
	self   bool // self-referential

	polyField, polyValue string

	// embedded: the Go field lives inside this embedded struct field of the
	// owner ("Extra"); the relation can be named "Mentor" or "Extra.Mentor"
	embedded string

	join       string // join-row model name
	jOwn, jRel []string
}

func (r *rel) toOne() bool { return r.kind == hasOne || r.kind == belongsTo || r.kind == polyOne }

// fk describes a foreign-key tuple of a model for data generation.
type fk struct {
	fields  []string
	target  string
	tfields []string
}

// polyRef describes a polymorphic owner reference for data generation.
type polyRef struct {
	idField, typeField string
	owners             []string            // model names; the type value is the owner's table name ...
	values             map[string]string   // ... unless the owner's relation carries polymorphicValue
	keys               map[string][]string // owner fields stored in the id column (default: the owner's primary key; `polymorphic` + `foreignKey:`)
}

type model struct {
	name        string
	table       string
	typ         reflect.Type
	pk          []string
	soft        bool
	isJoin      bool
	fks         []fk
	poly        *polyRef
	rels        []*rel
	altNonEmpty bool     // alt columns never hold ""
	alt         []string // non-key columns that relations reference (`references:`): filled from the key alphabet, duplicates and "" allowed
	// generation bounds
	minRows, maxRows int
}

func (m *model) rel(name string) *rel {
	for _, r := range m.rels {
		if r.name == name {
			return r
		}
	}
	return nil
}

type family struct {
	name   string
	keys   string   // class label of the key type
	models []*model // insertion order
	roots  []string // models that carry relations (AutoMigrate these)
	byName map[string]*model
	// nested preload paths offered per root model
	extraRoots []string // further root models offered by genLoad
	nested     map[string][]string
	ddl        []string // captured once per process
	// setup runs on every fresh handle before anything else (SetupJoinTable)
	setup func(db *gorm.DB) error
}

// path is the Go field path of the relation field inside the owner struct.
func (r *rel) path() string {
	if r.embedded != "" {
		return r.embedded + "." + r.name
	}
	return r.name
}

func (f *family) m(name string) *model { return f.byName[name] }

func mk(f *family, ms ...*model) *family {
	f.byName = map[string]*model{}
	for _, m := range ms {
		f.byName[m.name] = m
		f.models = append(f.models, m)
		if m.maxRows == 0 {
			m.maxRows = 4
		}
	}
	return f
}

var families = []*family{famA(), famS(), famC(), famD()}

func single(prefix string, types map[string]interface{}, keys string) *family {
	p := prefix
	t := func(n string) reflect.Type { return reflect.TypeOf(types[n]) }
	tbl := map[string]string{"User": "users", "Company": "companies", "Profile": "profiles", "Pet": "pets", "Toy": "toys", "Lang": "langs", "Note": "notes", "Badge": "badges"}
	lower := map[string]string{"A": "a_", "S": "s_"}[p]
	table := func(n string) string { return lower + tbl[n] }
	id := []string{"ID"}
	f := &family{name: p, keys: keys, roots: []string{p + "User", p + "Company", p + "Pet"}}
	f.nested = map[string][]string{
		p + "User":    {"Pets.Toys", "Company.Staff", "Team.Pets", "Boss.Team", "Pets.Owner", "Friends.Pets", "Company.Notes", "Team.Boss", "Friends.Friends"},
		p + "Company": {"Staff.Pets", "Staff.Boss", "Staff.Langs"},
		p + "Pet":     {"Owner.Pets", "Owner.Company"},
	}
	return mk(f,
		&model{name: p + "Company", table: table("Company"), typ: t("Company"), pk: id, soft: true, minRows: 1, maxRows: 3, rels: []*rel{
			{name: "Staff", kind: hasMany, target: p + "User", own: id, tgt: []string{"CompanyID"}},
			{name: "Notes", kind: polyMany, target: p + "Note", own: id, tgt: []string{"OwnerID"}, polyField: "OwnerType", polyValue: table("Company")},
		}},
		&model{name: p + "User", table: table("User"), typ: t("User"), pk: id, minRows: 2, maxRows: 6,
			fks: []fk{{[]string{"BossID"}, p + "User", id}, {[]string{"CompanyID"}, p + "Company", id}},
			rels: []*rel{
				{name: "Boss", kind: belongsTo, target: p + "User", own: []string{"BossID"}, tgt: id, self: true},
				{name: "Team", kind: hasMany, target: p + "User", own: id, tgt: []string{"BossID"}, self: true},
				{name: "Company", kind: belongsTo, target: p + "Company", own: []string{"CompanyID"}, tgt: id},
				{name: "Profile", kind: hasOne, target: p + "Profile", own: id, tgt: []string{"UserID"}},
				{name: "Pets", kind: hasMany, target: p + "Pet", own: id, tgt: []string{"UserID"}},
				{name: "Langs", kind: many2many, target: p + "Lang", own: id, tgt: id, join: p + "UserLang", jOwn: []string{"UserID"}, jRel: []string{"LangID"}},
				{name: "Friends", kind: many2many, target: p + "User", own: id, tgt: id, join: p + "Friend", jOwn: []string{"UserID"}, jRel: []string{"FriendID"}, self: true},
				{name: "Notes", kind: polyMany, target: p + "Note", own: id, tgt: []string{"OwnerID"}, polyField: "OwnerType", polyValue: table("User")},
				{name: "Badge", kind: polyOne, target: p + "Badge", own: id, tgt: []string{"OwnerID"}, polyField: "OwnerType", polyValue: table("User")},
			}},
		&model{name: p + "Profile", table: table("Profile"), typ: t("Profile"), pk: id, fks: []fk{{[]string{"UserID"}, p + "User", id}}},
		&model{name: p + "Pet", table: table("Pet"), typ: t("Pet"), pk: id, soft: true, minRows: 1, maxRows: 8, fks: []fk{{[]string{"UserID"}, p + "User", id}}, rels: []*rel{
			{name: "Owner", kind: belongsTo, target: p + "User", own: []string{"UserID"}, tgt: id},
			{name: "Toys", kind: hasMany, target: p + "Toy", own: id, tgt: []string{"PetID"}},
		}},
		&model{name: p + "Toy", table: table("Toy"), typ: t("Toy"), pk: id, maxRows: 6, fks: []fk{{[]string{"PetID"}, p + "Pet", id}}},
		&model{name: p + "Lang", table: table("Lang"), typ: t("Lang"), pk: id, soft: true, maxRows: 3},
		&model{name: p + "Note", table: table("Note"), typ: t("Note"), pk: id, maxRows: 6, poly: &polyRef{idField: "OwnerID", typeField: "OwnerType", owners: []string{p + "User", p + "Company"}}},
		&model{name: p + "Badge", table: table("Badge"), typ: t("Badge"), pk: id, soft: true, poly: &polyRef{idField: "OwnerID", typeField: "OwnerType", owners: []string{p + "User", p + "Company"}}},
		&model{name: p + "UserLang", table: lower + "user_langs", typ: t("UserLang"), isJoin: true, pk: []string{"UserID", "LangID"}, maxRows: 7,
			fks: []fk{{[]string{"UserID"}, p + "User", id}, {[]string{"LangID"}, p + "Lang", id}}},
		&model{name: p + "Friend", table: lower + "friends", typ: t("Friend"), isJoin: true, pk: []string{"UserID", "FriendID"}, maxRows: 6,
			fks: []fk{{[]string{"UserID"}, p + "User", id}, {[]string{"FriendID"}, p + "User", id}}},
	)
}

func famA() *family {
	f := famA0()
	u := f.m("AUser")
	u.alt = []string{"Nick"}
	u.fks = append(u.fks, fk{[]string{"Extra.MentorID"}, "AUser", []string{"ID"}})
	u.rels = append(u.rels,
		&rel{name: "Gifts", kind: hasMany, target: "AGift", own: []string{"Nick"}, tgt: []string{"UserNick"}},
		&rel{name: "Mentor", embedded: "Extra", kind: belongsTo, target: "AUser", own: []string{"Extra.MentorID"}, tgt: []string{"ID"}, self: true})
	gift := &model{name: "AGift", table: "a_gifts", typ: reflect.TypeOf(AGift{}), pk: []string{"ID"}, maxRows: 6,
		fks:  []fk{{[]string{"UserNick"}, "AUser", []string{"Nick"}}},
		rels: []*rel{{name: "Giver", kind: belongsTo, target: "AUser", own: []string{"UserNick"}, tgt: []string{"Nick"}}}}
	f.byName[gift.name] = gift
	f.models = append(f.models, gift)
	club := &model{name: "AClub", table: "a_clubs", typ: reflect.TypeOf(AClub{}), pk: []string{"ID"}, minRows: 2, maxRows: 5, alt: []string{"Code"}, altNonEmpty: true}
	uclub := &model{name: "AUserClub", table: "a_user_clubs", typ: reflect.TypeOf(AUserClub{}), isJoin: true, pk: []string{"UserID", "ClubCode"}, maxRows: 7,
		fks: []fk{{[]string{"UserID"}, "AUser", []string{"ID"}}, {[]string{"ClubCode"}, "AClub", []string{"Code"}}}}
	// insertion order: clubs before their join rows, join models last
	f.byName[club.name], f.byName[uclub.name] = club, uclub
	f.models = append(f.models, club, uclub)
	u.rels = append(u.rels, &rel{name: "Clubs", kind: many2many, target: "AClub", own: []string{"ID"}, tgt: []string{"Code"},
		join: "AUserClub", jOwn: []string{"UserID"}, jRel: []string{"ClubCode"}})
	f.extraRoots = []string{"AGift"}
	f.nested["AGift"] = []string{"Giver.Gifts", "Giver.Boss", "Giver.Clubs"}
	f.nested["AUser"] = append(f.nested["AUser"], "Team.Clubs", "Gifts.Giver")
	nick := []string{"Nick"}
	u.rels = append(u.rels,
		&rel{name: "Memos", kind: polyMany, target: "AMemo", own: nick, tgt: []string{"OwnerID"}, polyField: "OwnerType", polyValue: "a_users"},
		&rel{name: "Stamp", kind: polyOne, target: "AStamp", own: nick, tgt: []string{"OwnerID"}, polyField: "OwnerType", polyValue: "a_users"})
	for _, m := range []*model{
		{name: "AMemo", table: "a_memos", typ: reflect.TypeOf(AMemo{}), pk: []string{"ID"}, maxRows: 6,
			poly: &polyRef{idField: "OwnerID", typeField: "OwnerType", owners: []string{"AUser"}, keys: map[string][]string{"AUser": nick}}},
		{name: "AStamp", table: "a_stamps", typ: reflect.TypeOf(AStamp{}), pk: []string{"ID"}, soft: true, maxRows: 4,
			poly: &polyRef{idField: "OwnerID", typeField: "OwnerType", owners: []string{"AUser"}, keys: map[string][]string{"AUser": nick}}},
	} {
		f.byName[m.name] = m
		f.models = append(f.models, m)
	}
	f.nested["AUser"] = append(f.nested["AUser"], "Gifts.Giver", "Mentor.Gifts", "Extra.Mentor.Pets", "Team.Extra.Mentor")
	return f
}

func famA0() *family {
	return single("A", map[string]interface{}{
		"User": AUser{}, "Company": ACompany{}, "Profile": AProfile{}, "Pet": APet{}, "Toy": AToy{}, "Lang": ALang{},
		"Note": ANote{}, "Badge": ABadge{}, "UserLang": AUserLang{}, "Friend": AFriend{},
	}, "uint")
}

func famS() *family {
	f := famS0()
	f.m("SUser").rel("Notes").polyValue = "s_usr"
	f.m("SNote").poly.values = map[string]string{"SUser": "s_usr"}
	f.m("SUserLang").soft = true
	f.setup = func(db *gorm.DB) error { return db.SetupJoinTable(&SUser{}, "Langs", &SUserLang{}) }
	return f
}

func famS0() *family {
	return single("S", map[string]interface{}{
		"User": SUser{}, "Company": SCompany{}, "Profile": SProfile{}, "Pet": SPet{}, "Toy": SToy{}, "Lang": SLang{},
		"Note": SNote{}, "Badge": SBadge{}, "UserLang": SUserLang{}, "Friend": SFriend{},
	}, "string")
}

func composite(p string, k1, k2 string, types map[string]interface{}, keys string, petPK, toyFK, toyT []string) *family {
	t := func(n string) reflect.Type { return reflect.TypeOf(types[n]) }
	lower := map[string]string{"C": "c_", "D": "d_"}[p]
	key := []string{k1, k2}
	pre := func(s string) []string { return []string{s + k1, s + k2} }
	id := []string{"ID"}
	f := &family{name: p, keys: keys, roots: []string{p + "User", p + "Company", p + "Pet"}}
	f.nested = map[string][]string{
		p + "User":    {"Pets.Toys", "Company.Staff", "Team.Pets", "Boss.Team", "Pets.Owner", "Team.Boss", "Boss.Company"},
		p + "Company": {"Staff.Pets", "Staff.Boss", "Staff.Langs"},
		p + "Pet":     {"Owner.Pets", "Owner.Company"},
	}
	return mk(f,
		&model{name: p + "Company", table: lower + "companies", typ: t("Company"), pk: key, soft: true, minRows: 1, maxRows: 3, rels: []*rel{
			{name: "Staff", kind: hasMany, target: p + "User", own: key, tgt: pre("Co")},
		}},
		&model{name: p + "User", table: lower + "users", typ: t("User"), pk: key, minRows: 2, maxRows: 6,
			fks: []fk{{pre("Boss"), p + "User", key}, {pre("Co"), p + "Company", key}},
			rels: []*rel{
				{name: "Boss", kind: belongsTo, target: p + "User", own: pre("Boss"), tgt: key, self: true},
				{name: "Team", kind: hasMany, target: p + "User", own: key, tgt: pre("Boss"), self: true},
				{name: "Company", kind: belongsTo, target: p + "Company", own: pre("Co"), tgt: key},
				{name: "Profile", kind: hasOne, target: p + "Profile", own: key, tgt: pre("User")},
				{name: "Pets", kind: hasMany, target: p + "Pet", own: key, tgt: pre("User")},
				{name: "Langs", kind: many2many, target: p + "Lang", own: key, tgt: key, join: p + "UserLang", jOwn: pre("User"), jRel: pre("Lang")},
			}},
		&model{name: p + "Profile", table: lower + "profiles", typ: t("Profile"), pk: id, fks: []fk{{pre("User"), p + "User", key}}},
		&model{name: p + "Pet", table: lower + "pets", typ: t("Pet"), pk: petPK, soft: true, minRows: 1, maxRows: 8, fks: []fk{{pre("User"), p + "User", key}}, rels: []*rel{
			{name: "Owner", kind: belongsTo, target: p + "User", own: pre("User"), tgt: key},
			{name: "Toys", kind: hasMany, target: p + "Toy", own: toyT, tgt: toyFK},
		}},
		&model{name: p + "Toy", table: lower + "toys", typ: t("Toy"), pk: id, maxRows: 6, fks: []fk{{toyFK, p + "Pet", toyT}}},
		&model{name: p + "Lang", table: lower + "langs", typ: t("Lang"), pk: key, soft: true, maxRows: 3},
		&model{name: p + "UserLang", table: lower + "user_langs", typ: t("UserLang"), isJoin: true, pk: append(pre("User"), pre("Lang")...), maxRows: 7,
			fks: []fk{{pre("User"), p + "User", key}, {pre("Lang"), p + "Lang", key}}},
	)
}

func famC() *family {
	return composite("C", "Org", "Code", map[string]interface{}{
		"User": CUser{}, "Company": CCompany{}, "Profile": CProfile{}, "Pet": CPet{}, "Toy": CToy{}, "Lang": CLang{}, "UserLang": CUserLang{},
	}, "int+string", []string{"ID"}, []string{"PetID"}, []string{"ID"})
}

func famD() *family {
	return composite("D", "K1", "K2", map[string]interface{}{
		"User": DUser{}, "Company": DCompany{}, "Profile": DProfile{}, "Pet": DPet{}, "Toy": DToy{}, "Lang": DLang{}, "UserLang": DUserLang{},
	}, "string+string", []string{"K1", "K2"}, []string{"PetK1", "PetK2"}, []string{"K1", "K2"})
}
