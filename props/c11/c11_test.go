// C11 - eager loading attaches to each record exactly its own associated rows.
// See DESIGN.md section 3 C11. The model family and the oracle's relation tables
// are in models_test.go; this file holds the data-graph generator, the load
// grammar (Preload / Joins / Association().Find), the reference join and the
// comparison.
package c11

import (
	"database/sql"
	"encoding/json"
	"errors"
	"fmt"
	"math"
	"reflect"
	"sort"
	"strings"
	"testing"
	"time"

	"gorm.io/gorm"
	"gorm.io/gorm/clause"
	"pgregory.net/rapid"

	"verif/internal/evid"
	"verif/internal/harness"
	"verif/internal/testdb"
)

func TestMain(m *testing.M) { harness.Main(m) }

const ruleText = "C11: a data graph over one of four static model groups (uint, string, int+string, string+string keys; has-one, has-many, belongs-to, many-to-many, polymorphic, self-referential, soft-deleting children, nested paths) is drawn with string keys from a hostile alphabet, NULL / partly NULL / dangling foreign keys, inserted table by table without association handling and mirrored in memory; one load is drawn (Preload single/nested/clause.Associations with inline conditions or scope functions, association Joins/InnerJoins with ON conditions, Association().Find) (nested paths up to 4 segments, self-referential relations walked repeatedly; joined relations optionally restricted to a column subset by db.Select/db.Omit, several models declare a nullable column before their key) over a parent shape (struct, []T, []*T, duplicated parents, reload into the same struct); every association field of every loaded record is compared, as a multiset of full child rows, with a reference join over the mirror (typed equality per key part, NULL equals nothing, condition, soft-delete scope). non-trivial = at least 2 parents loaded, and for one loaded relation one parent with no and one with >=2 associated rows (to-one relations: one parent without and two with a row), and a hostile key among the tuples involved (string with '_' / 'nil' / '0' / non-ASCII, NULL part, or dangling foreign key); distinct = group + all rows + load"

// ---------------------------------------------------------------- typed values

type val struct {
	Null bool
	Str  bool
	I    int64
	S    string
}

func (v val) String() string {
	switch {
	case v.Null:
		return "NULL"
	case v.Str:
		return fmt.Sprintf("%q", v.S)
	}
	return fmt.Sprint(v.I)
}

func (v val) zero() bool { return !v.Null && ((v.Str && v.S == "") || (!v.Str && v.I == 0)) }

// eqv is SQL equality for key parts of one declared type: NULL equals nothing.
func eqv(a, b val) bool {
	return !a.Null && !b.Null && a.Str == b.Str && a.I == b.I && a.S == b.S
}

var (
	nullStringT = reflect.TypeOf(sql.NullString{})
	nullInt64T  = reflect.TypeOf(sql.NullInt64{})
	bytesT      = reflect.TypeOf([]byte(nil))
)

func getVal(rv reflect.Value) val {
	switch rv.Kind() {
	case reflect.Ptr:
		if rv.IsNil() {
			return val{Null: true}
		}
		return getVal(rv.Elem())
	case reflect.Int, reflect.Int64, reflect.Int32:
		return val{I: rv.Int()}
	case reflect.Uint, reflect.Uint64, reflect.Uint32:
		return val{I: int64(rv.Uint())}
	case reflect.String:
		return val{Str: true, S: rv.String()}
	case reflect.Slice:
		if rv.Type() == bytesT { // a binary key: nil is NULL, the bytes are compared like a string
			if rv.IsNil() {
				return val{Null: true}
			}
			return val{Str: true, S: string(rv.Bytes())}
		}
	case reflect.Struct:
		if rv.Type() == nullStringT {
			ns := rv.Interface().(sql.NullString)
			if !ns.Valid {
				return val{Null: true}
			}
			return val{Str: true, S: ns.String}
		}
		if rv.Type() == nullInt64T {
			ni := rv.Interface().(sql.NullInt64)
			if !ni.Valid {
				return val{Null: true}
			}
			return val{I: ni.Int64}
		}
	}
	panic("harness: unsupported key field type " + rv.Type().String())
}

// nullable reports whether a field of this type can hold NULL.
func nullable(t reflect.Type) bool {
	return t.Kind() == reflect.Ptr || t == nullStringT || t == nullInt64T || t == bytesT
}

func isStrType(t reflect.Type) bool {
	if t.Kind() == reflect.Ptr {
		t = t.Elem()
	}
	return t.Kind() == reflect.String || t == nullStringT || t == bytesT
}

func setVal(rv reflect.Value, v val) {
	switch rv.Kind() {
	case reflect.Ptr:
		if v.Null {
			rv.Set(reflect.Zero(rv.Type()))
			return
		}
		p := reflect.New(rv.Type().Elem())
		setVal(p.Elem(), v)
		rv.Set(p)
	case reflect.Int, reflect.Int64, reflect.Int32:
		rv.SetInt(v.I)
	case reflect.Uint, reflect.Uint64, reflect.Uint32:
		rv.SetUint(uint64(v.I))
	case reflect.String:
		rv.SetString(v.S)
	case reflect.Slice:
		if rv.Type() != bytesT {
			panic("harness: unsupported key field type " + rv.Type().String())
		}
		if v.Null {
			rv.Set(reflect.Zero(bytesT))
		} else {
			rv.SetBytes([]byte(v.S))
		}
	case reflect.Struct:
		if rv.Type() == nullStringT {
			rv.Set(reflect.ValueOf(sql.NullString{String: v.S, Valid: !v.Null}))
			return
		}
		if rv.Type() == nullInt64T {
			rv.Set(reflect.ValueOf(sql.NullInt64{Int64: v.I, Valid: !v.Null}))
			return
		}
		fallthrough
	default:
		panic("harness: unsupported key field type " + rv.Type().String())
	}
}

type tuple []val

func (t tuple) String() string {
	s := make([]string, len(t))
	for i, v := range t {
		s[i] = v.String()
	}
	return "(" + strings.Join(s, ",") + ")"
}

func (t tuple) hasNull() bool {
	for _, v := range t {
		if v.Null {
			return true
		}
	}
	return false
}

func (t tuple) allBlank() bool {
	for _, v := range t {
		if !v.Null && !v.zero() {
			return false
		}
	}
	return true
}

func eqt(a, b tuple) bool {
	if len(a) != len(b) {
		return false
	}
	for i := range a {
		if !eqv(a[i], b[i]) {
			return false
		}
	}
	return true
}

// idText is what gorm's identity maps see of a key tuple (the harness's own
// rendering of the scheme: parts as text, NULL as "nil", joined with "_"). Two
// distinct typed tuples with the same idText are the known `idkey-*` classes.
func (t tuple) idText() string {
	s := make([]string, len(t))
	for i, v := range t {
		switch {
		case v.Null:
			s[i] = "nil"
		case v.Str:
			s[i] = v.S
		default:
			s[i] = fmt.Sprint(v.I)
		}
	}
	return strings.Join(s, "_")
}

func hostileVal(v val) bool {
	if v.Null {
		return true
	}
	if !v.Str {
		return false
	}
	if v.S == "" {
		return true
	}
	if strings.Contains(v.S, "_") || strings.Contains(v.S, "nil") || v.S == "0" {
		return true
	}
	for _, r := range v.S {
		if r > 127 {
			return true
		}
	}
	return false
}

func (t tuple) hostile() bool {
	for _, v := range t {
		if hostileVal(v) {
			return true
		}
	}
	return false
}

// ---------------------------------------------------------------- rows

// row is a pointer to a model struct.
type row = reflect.Value

// field resolves a Go field of a row; "Extra.MentorID" descends into the
// embedded struct field Extra.
func field(r row, name string) reflect.Value {
	f := reflect.Indirect(r)
	for _, part := range strings.Split(name, ".") {
		f = f.FieldByName(part)
		if !f.IsValid() {
			panic("harness: no field " + name + " in " + reflect.Indirect(r).Type().String())
		}
	}
	return f
}

// fieldType is the declared type of a (possibly dotted) field of a model.
func fieldType(m *model, name string) reflect.Type { return field(reflect.New(m.typ), name).Type() }

// relAt finds the relation whose Go field path is name.
func (m *model) relAt(name string) *rel {
	for _, r := range m.rels {
		if r.path() == name {
			return r
		}
	}
	return nil
}

func tupleOf(r row, fields []string) tuple {
	t := make(tuple, len(fields))
	for i, f := range fields {
		t[i] = getVal(field(r, f))
	}
	return t
}

var deletedAtT = reflect.TypeOf(gorm.DeletedAt{})

// rowString renders every scalar column of a row (keys, tag, foreign keys,
// deleted flag): the identity the comparison uses, so that an attached child
// must be a faithful copy of its stored row, not only carry the right key.
func rowString(m *model, r row) string { return rowRender(m, r, nil) }

// scalarFields lists the column fields of a model (everything but its relations).
func scalarFields(m *model) []string {
	var out []string
	for _, c := range scalarCols(m) {
		out = append(out, c.name)
	}
	return out
}

type scalarCol struct {
	idx     []int
	name    string // Go field path ("Extra.MentorID")
	deleted bool   // gorm.DeletedAt
}

var scalarCache = map[*model][]scalarCol{}

func scalarCols(m *model) []scalarCol {
	if c, ok := scalarCache[m]; ok {
		return c
	}
	var c []scalarCol
	var walk func(t reflect.Type, idx []int, prefix string)
	walk = func(t reflect.Type, idx []int, prefix string) {
		for i := 0; i < t.NumField(); i++ {
			sf := t.Field(i)
			name := prefix + sf.Name
			at := append(append([]int(nil), idx...), i)
			switch {
			case m.relAt(name) != nil:
			case strings.Contains(sf.Tag.Get("gorm"), "embedded"):
				walk(sf.Type, at, name+".")
			default:
				c = append(c, scalarCol{at, name, sf.Type == deletedAtT})
			}
		}
	}
	walk(m.typ, nil, "")
	scalarCache[m] = c
	return c
}

// rowRender renders the columns for which keep is true (nil: all).
func rowRender(m *model, r row, keep func(string) bool) string {
	rv := reflect.Indirect(r)
	var sb strings.Builder
	sb.WriteString(m.name + "{")
	first := true
	for _, c := range scalarCols(m) {
		if keep != nil && !keep(c.name) {
			continue
		}
		if !first {
			sb.WriteByte(' ')
		}
		first = false
		if c.deleted {
			if rv.FieldByIndex(c.idx).Interface().(gorm.DeletedAt).Valid {
				sb.WriteString("deleted")
			} else {
				sb.WriteString("live")
			}
			continue
		}
		sb.WriteString(c.name + "=" + getVal(rv.FieldByIndex(c.idx)).String())
	}
	sb.WriteByte('}')
	return sb.String()
}

func isDeleted(m *model, r row) bool {
	return m.soft && field(r, "DeletedAt").Interface().(gorm.DeletedAt).Valid
}

func tagOf(r row) int { return int(field(r, "Tag").Int()) }

// ---------------------------------------------------------------- load grammar

type cond struct {
	// inline-gte | inline-in | inline-map | inline-struct | inline-expr | inline-pk |
	// scope-ne | scope-gte-order | scope-unscoped | scope-select
	Form string   `json:"form"`
	K    int      `json:"k"`
	IDs  []int64  `json:"ids,omitempty"`  // inline-pk: primary keys (models with a single uint ID)
	Cols []string `json:"cols,omitempty"` // scope-select: the selected columns (Go field names; keys of the relation, ID and Tag always among them)
}

func (c *cond) holds(r row) bool {
	tag := tagOf(r)
	switch c.Form {
	case "inline-struct": // a struct condition skips zero fields
		return c.K == 0 || tag == c.K
	case "inline-expr":
		return tag >= c.K
	case "inline-pk":
		id := field(r, "ID").Uint()
		for _, x := range c.IDs {
			if uint64(x) == id {
				return true
			}
		}
		return false
	case "inline-gte", "scope-gte-order", "on-gte":
		return tag >= c.K
	case "inline-in":
		return tag == c.K || tag == c.K+1
	case "inline-map":
		return tag == c.K
	case "on-struct": // a struct condition skips zero fields
		return c.K == 0 || tag == c.K
	case "scope-ne":
		return tag != c.K
	}
	return true // scope-unscoped filters nothing
}

// keeps is the column filter of a scope-select condition (nil: all columns).
func (c *cond) keeps() func(string) bool {
	if c == nil || c.Form != "scope-select" {
		return nil
	}
	return func(n string) bool {
		for _, x := range c.Cols {
			if x == n {
				return true
			}
		}
		return false
	}
}

// args renders the condition as Preload / Find arguments; tm is the model the
// condition is applied to (nil for clause.Associations: only model-free forms).
func (c *cond) args(tm *model) []interface{} {
	switch c.Form {
	case "inline-struct":
		probe := reflect.New(tm.typ)
		field(probe, "Tag").SetInt(int64(c.K))
		return []interface{}{probe.Interface()}
	case "inline-expr":
		return []interface{}{clause.Gte{Column: clause.Column{Name: "tag"}, Value: c.K}}
	case "inline-abs":
		// true for every row, but SQLite's abs() raises "integer overflow" on
		// math.MinInt64 while the rows are stepped through (see poison rows)
		return []interface{}{"abs(tag) >= ?", 0}
	case "scope-abs":
		return []interface{}{func(db *gorm.DB) *gorm.DB { return db.Where("abs(tag) >= ?", 0) }}
	case "inline-pk":
		return []interface{}{append([]int64(nil), c.IDs...)}
	case "scope-select":
		cols := make([]string, len(c.Cols))
		for i, x := range c.Cols {
			cols[i] = gormFieldName(x)
		}
		return []interface{}{func(db *gorm.DB) *gorm.DB { return db.Select(cols) }}
	case "inline-gte":
		return []interface{}{"tag >= ?", c.K}
	case "inline-in":
		return []interface{}{"tag IN ?", []int{c.K, c.K + 1}}
	case "inline-map":
		return []interface{}{map[string]interface{}{"tag": c.K}}
	case "scope-ne":
		k := c.K
		return []interface{}{func(db *gorm.DB) *gorm.DB { return db.Where("tag <> ?", k) }}
	case "scope-gte-order":
		k := c.K
		return []interface{}{func(db *gorm.DB) *gorm.DB { return db.Where("tag >= ?", k).Order("tag DESC") }}
	case "scope-unscoped":
		return []interface{}{func(db *gorm.DB) *gorm.DB { return db.Unscoped() }}
	}
	panic("harness: bad cond form " + c.Form)
}

type preloadSpec struct {
	Path string `json:"path"`
	Cond *cond  `json:"cond,omitempty"`
}

type joinSpec struct {
	Rel   string `json:"rel"`
	Inner bool   `json:"inner,omitempty"`
	On    *cond  `json:"on,omitempty"` // on-gte | on-struct
	// column subset of the joined relation, handed over as db.Select(...) /
	// db.Omit(...) on the conditions handle (field names, or column names when
	// DBNames). "Tag" (NOT NULL) is always among the remaining columns, so a
	// matching row is never all-NULL; the key and the leading columns may be missing.
	// Nested: Joins("Rel.Nested") - the to-one relation Nested of the joined
	// record is joined as well (same join type, no conditions handle)
	Nested  string   `json:"nested,omitempty"`
	Select  []string `json:"select,omitempty"`
	Omit    []string `json:"omit,omitempty"`
	DBNames bool     `json:"db_names,omitempty"`
}

func (j *joinSpec) subset() bool { return len(j.Select) > 0 || len(j.Omit) > 0 }

// keeps returns the filter of the columns the join selects for its relation (nil: all).
func (j *joinSpec) keeps() func(string) bool {
	if !j.subset() {
		return nil
	}
	in := func(l []string, n string) bool {
		for _, x := range l {
			if x == n {
				return true
			}
		}
		return false
	}
	return func(n string) bool {
		if len(j.Select) > 0 && !in(j.Select, n) {
			return false
		}
		return !in(j.Omit, n)
	}
}

// decidable: whether "no related row" can be told from the loaded field: a nil
// pointer, or - value-typed field - a blank key when the key is selected.
func (j *joinSpec) decidable(owner *model, r *rel, tm *model) bool {
	if fieldType(owner, r.path()).Kind() == reflect.Ptr {
		return true
	}
	keep := j.keeps()
	if keep == nil {
		return true
	}
	for _, k := range tm.pk {
		if !keep(k) {
			return false
		}
	}
	return true
}

// joinedActual renders what a joined relation field holds ("-": nothing).
func joinedActual(f *family, owner *model, r *rel, j *joinSpec, rec reflect.Value) string {
	tm := f.m(r.target)
	fv := field(rec, r.path())
	if fv.Kind() == reflect.Ptr {
		if fv.IsNil() {
			return "-"
		}
		return rowRender(tm, fv, j.keeps())
	}
	if j.decidable(owner, r, tm) && tupleOf(fv.Addr(), tm.pk).allBlank() {
		return "-"
	}
	return rowRender(tm, fv.Addr(), j.keeps())
}

// joinedWant renders the reference for one candidate (invalid row: no related row).
func joinedWant(f *family, owner *model, r *rel, j *joinSpec, cand row) string {
	tm := f.m(r.target)
	if !cand.IsValid() {
		if j.decidable(owner, r, tm) {
			return "-"
		}
		return rowRender(tm, reflect.New(tm.typ), j.keeps())
	}
	return rowRender(tm, cand, j.keeps())
}

type load struct {
	Mode   string `json:"mode"` // query | assoc-find
	Root   string `json:"root"`
	Shape  string `json:"shape"` // struct | slice | ptrslice
	Dup    bool   `json:"dup,omitempty"`
	dupRow row    // the mirror row DupPick names (set by the test before the load runs)
	// Focus "m2m-owner-lists": a case built around the owner lists of a many-to-many
	// preload - the parent the database lists first is repeated 3, 5, 6 or 7 times,
	// the others once, the join rows are dense
	Focus    string        `json:"focus,omitempty"`
	DupOne   bool          `json:"dup_one,omitempty"` // only the parent row DupPick appears DupN times, the others once
	DupPick  int           `json:"dup_pick,omitempty"`
	DupByTag int           `json:"dup_by_tag,omitempty"` // s > 0: a parent with tag t (0..3) appears 1+t*s times, any other once
	DupN     int           `json:"dup_n,omitempty"`      // how often every parent appears (0: twice); assoc-find: extra copies of the first parent
	Reload   bool          `json:"reload,omitempty"`
	Unscoped bool          `json:"unscoped,omitempty"`
	MinTag   int           `json:"min_tag,omitempty"` // slices: parents with tag >= MinTag
	Pick     int           `json:"pick,omitempty"`    // struct: index of the parent row
	Joins    []joinSpec    `json:"joins,omitempty"`
	Preloads []preloadSpec `json:"preloads,omitempty"`
	// Shared: the query is derived from a reusable Session handle that already
	// carries Pads filler joins, the duplicating join and all but the last
	// association join; a sibling query (the same, with the last join replaced by
	// Sibling, or by one more filler join when Sibling is nil) is derived from the
	// same handle BEFORE this one runs, then both run and both are checked.
	Finisher   string `json:"finisher,omitempty"`    // struct shape: take (default) | first | last
	Batch      int    `json:"batch,omitempty"`       // slices: FindInBatches with this batch size
	ArrayExtra int    `json:"array_extra,omitempty"` // array shapes: spare elements beyond the rows expected
	// Reload with a change: the second load into the same destination uses these
	// conditions instead (parallel to Preloads; Set=false keeps the entry's) and,
	// with ReloadScoped, drops the root Unscoped(): children stop qualifying
	ReloadConds  []reloadCond `json:"reload_conds,omitempty"`
	ReloadScoped bool         `json:"reload_scoped,omitempty"`
	// CountChain: the finisher is called on the value Count returned
	// (h.Preload(..).Count(&n).Find(&page) on a reusable Session handle h)
	CountChain  bool      `json:"count_chain,omitempty"`
	CountFirst  bool      `json:"count_first,omitempty"`  // Shared: a Count is derived from the handle and run before the two queries
	ShareOn     bool      `json:"share_on,omitempty"`     // the conditions handle of the first join is passed to the second join too
	OutStruct   bool      `json:"out_struct,omitempty"`   // assoc-find of a to-one relation into a single struct
	QueryFields bool      `json:"query_fields,omitempty"` // gorm.Config{QueryFields: true}
	PrepareStmt bool      `json:"prepare_stmt,omitempty"` // Session{PrepareStmt: true}
	Shared      bool      `json:"shared,omitempty"`
	Pads        int       `json:"pads,omitempty"`
	Sibling     *joinSpec `json:"sibling,omitempty"`
	Assoc       string    `json:"assoc,omitempty"`
	OutPtr      bool      `json:"out_ptr,omitempty"`
	Cond        *cond     `json:"cond,omitempty"`
}

type reloadCond struct {
	Set  bool  `json:"set"`
	Cond *cond `json:"cond,omitempty"`
}

// round returns the load performed in the given round of a reload.
func (l load) round(n int) load {
	if n == 0 || (len(l.ReloadConds) == 0 && !l.ReloadScoped) {
		return l
	}
	s := l
	s.Preloads = append([]preloadSpec(nil), l.Preloads...)
	for i, rc := range l.ReloadConds {
		if rc.Set && i < len(s.Preloads) {
			s.Preloads[i].Cond = rc.Cond
		}
	}
	if l.ReloadScoped {
		s.Unscoped = false
	}
	return s
}

func (l load) String() string { b, _ := json.Marshal(l); return string(b) }

// node is one level of the normalised preload plan.
type node struct {
	conds    []*cond
	loaded   bool // the relation itself is preloaded (false: only a carrier of nested entries under a joined relation)
	unscoped bool
	// outerUnscoped: the scope inherited from the level above, without this
	// level's own scope functions: a many-to-many join table is read before they run
	outerUnscoped bool
	kids          map[string]*node
}

// keep is the column filter of the node's scope-select condition, if any.
func (n *node) keep() func(string) bool {
	for _, c := range n.conds {
		if k := c.keeps(); k != nil {
			return k
		}
	}
	return nil
}

func (n *node) kid(name string) *node {
	if n.kids == nil {
		n.kids = map[string]*node{}
	}
	k := n.kids[name]
	if k == nil {
		k = &node{}
		n.kids[name] = k
	}
	return k
}

// plan normalises the Preload calls the way callbacks/preload.go documents it
// (parsePreloadMap): a name loads that relation with its own conditions plus the
// conditions given to clause.Associations; "A.B" loads A (without conditions
// unless A is named too) and B below it with the entry's conditions, and so on
// level by level for longer paths ("A.A.B": A, then A of those, then B);
// clause.Associations loads every relation of the root model.
func (l load) plan(root *model) *node {
	top := &node{loaded: true, unscoped: l.Unscoped}
	joined := map[string]bool{}
	for _, j := range l.Joins {
		joined[j.Rel] = true
	}
	var assoc []*cond
	hasAssoc := false
	for _, p := range l.Preloads {
		if p.Path == clause.Associations {
			hasAssoc = true
			if p.Cond != nil {
				assoc = append(assoc, p.Cond)
			}
		}
	}
	if hasAssoc {
		for _, r := range root.rels {
			if !joined[r.name] {
				top.kid(r.name).loaded = true
			}
		}
	}
	for _, p := range l.Preloads {
		if p.Path == clause.Associations {
			continue
		}
		parts := relSegments(p.Path)
		n := top.kid(parts[0])
		if !joined[parts[0]] {
			n.loaded = true
		}
		for _, part := range parts[1:] {
			n = n.kid(part)
			n.loaded = true
		}
		if p.Cond != nil {
			n.conds = append(n.conds, p.Cond) // conditions belong to the last segment
		}
	}
	for _, n := range top.kids {
		if n.loaded {
			n.conds = append(n.conds, assoc...)
		}
	}
	for _, j := range l.Joins {
		// Joins("Rel.Nested"): Nested of the joined record is joined, never preloaded
		if j.Nested != "" && top.kids[j.Rel] != nil && top.kids[j.Rel].kids[j.Nested] != nil {
			top.kids[j.Rel].kids[j.Nested].loaded = false
		}
	}
	var inherit func(n *node, un bool)
	inherit = func(n *node, un bool) {
		n.outerUnscoped = un
		for _, c := range n.conds {
			if c.Form == "scope-unscoped" {
				un = true
			}
		}
		n.unscoped = un
		for _, k := range n.kids {
			inherit(k, un)
		}
	}
	for _, k := range top.kids {
		inherit(k, l.Unscoped)
	}
	return top
}

// embeddedNames are the embedded struct fields that carry relations: a preload
// path may spell such a relation "Extra.Mentor"; the plan knows it as "Mentor".
var embeddedNames = map[string]bool{"Extra": true}

// relSegments splits a preload path into relation names, dropping the names of
// embedded struct fields.
func relSegments(path string) []string {
	var out []string
	for _, p := range strings.Split(path, ".") {
		if !embeddedNames[p] {
			out = append(out, p)
		}
	}
	return out
}

// role names a key tuple of a model that feeds one of gorm's identity maps for a
// given load (see feedRoles).
type role struct {
	model  string
	fields string // comma-joined
}

func roleOf(m string, fields []string) role { return role{m, strings.Join(fields, ",")} }

// feedRoles lists the (model, key tuple) pairs whose values are turned into
// identity-map text by the load: the owner-side tuple of every preloaded or
// Association().Find relation (schema.GetIdentityFieldValuesMap) and, for many
// to many, the related side of the join rows. Association Joins are pure SQL and
// feed nothing.
func (l load) feedRoles(f *family) map[role]bool {
	out := map[role]bool{}
	add := func(m *model, r *rel) {
		out[roleOf(m.name, r.own)] = true
		if r.kind == many2many {
			out[roleOf(r.join, r.jRel)] = true
			out[roleOf(r.join, r.jOwn)] = true
		}
	}
	root := f.m(l.Root)
	if l.Mode == "assoc-find" {
		add(root, root.rel(l.Assoc))
		return out
	}
	var walk func(m *model, n *node)
	walk = func(m *model, n *node) {
		for name, k := range n.kids {
			r := m.rel(name)
			if k.loaded {
				add(m, r)
			}
			walk(f.m(r.target), k)
		}
	}
	walk(root, l.plan(root))
	if l.Shared {
		// the sibling query preloads what this one joins
		l2, _ := l.siblingLoad()
		for k := range l2.feedRoles(f) {
			out[k] = true
		}
	}
	return out
}

// absModels lists the models whose rows a condition with abs(tag) is evaluated on.
func (l load) absModels(f *family) map[string]bool {
	out := map[string]bool{}
	isAbs := func(c *cond) bool { return c != nil && (c.Form == "inline-abs" || c.Form == "scope-abs") }
	root := f.m(l.Root)
	if l.Mode == "assoc-find" {
		if isAbs(l.Cond) {
			out[root.rel(l.Assoc).target] = true
		}
		return out
	}
	for _, p := range l.Preloads {
		if !isAbs(p.Cond) {
			continue
		}
		if p.Path == clause.Associations {
			for _, r := range root.rels {
				out[r.target] = true
			}
			continue
		}
		_, _, tm := pathTarget(f, root, p.Path)
		out[tm.name] = true
	}
	return out
}

// stepFailure reports whether err is the failure an abs condition raises on a
// poison row of one of the models it is evaluated on: the load reported the
// broken-off result instead of attaching a part of it, which is what the
// property allows ("an error, or all rows").
func stepFailure(g *graph, l load, err error) bool {
	if err == nil || !strings.Contains(err.Error(), "integer overflow") {
		return false
	}
	for name := range l.absModels(g.fam) {
		for _, r := range g.rows[name] {
			if int64(tagOf(r)) == math.MinInt64 {
				return true
			}
		}
	}
	return false
}

// liveModels: the models whose rows must not be soft-deleted for this load (the
// targets of association Joins under a root Unscoped(), see genLoad).
func (l load) liveModels(f *family) map[string]bool {
	out := map[string]bool{}
	if !l.Unscoped || l.Mode != "query" {
		return out
	}
	root := f.m(l.Root)
	js := append([]joinSpec(nil), l.Joins...)
	if l.Sibling != nil {
		js = append(js, *l.Sibling)
	}
	for _, j := range js {
		r := root.rel(j.Rel)
		out[r.target] = true
		if j.Nested != "" {
			out[f.m(r.target).rel(j.Nested).target] = true
		}
	}
	return out
}

// ---------------------------------------------------------------- the data graph

type graph struct {
	fam   *family
	rows  map[string][]row
	crowd bool
	idx   map[string]map[string][]row // lookup cache: model|fields -> typed tuple text -> rows (table order)
	desc  string                      // compact description (wide graphs), "" = render every row
}

// lookup returns the rows of a model whose tuple over fields equals key (typed
// equality; a NULL part equals nothing). The mirror is immutable once drawn, so
// the per-(model, fields) index is built once.
func (g *graph) lookup(m *model, fields []string, key tuple) []row {
	if key.hasNull() {
		return nil
	}
	id := m.name + "|" + strings.Join(fields, ",")
	if g.idx == nil {
		g.idx = map[string]map[string][]row{}
	}
	ix, ok := g.idx[id]
	if !ok {
		ix = map[string][]row{}
		for _, r := range g.rows[m.name] {
			if t := tupleOf(r, fields); !t.hasNull() {
				ix[t.String()] = append(ix[t.String()], r)
			}
		}
		g.idx[id] = ix
	}
	return ix[key.String()]
}

func (g *graph) String() string {
	if g.desc != "" {
		return g.desc
	}
	var sb strings.Builder
	sb.WriteString("group " + g.fam.name + ":")
	for _, m := range g.fam.models {
		for _, r := range g.rows[m.name] {
			sb.WriteString(" " + rowString(m, r))
		}
	}
	return sb.String()
}

func (g *graph) find(m *model, pk tuple) row {
	if rs := g.lookup(m, m.pk, pk); len(rs) > 0 {
		return rs[0]
	}
	return reflect.Value{}
}

var (
	strPool = []string{"a", "b", "c", "a_b", "b_c", "_", "nil", "0", "a_", "_c", "1", "日本", "é_ß", "nil_", "A"}
	intPool = []int64{1, 2, 3, 4, 5, 10, 11, 21}
)

// drawPart draws one key part. composite: the part belongs to a key of several
// columns; there an integer part may be 0 (gorm accepts a composite key as long
// as one part is non-zero), unless the listed class idkey-zero-part is open: an
// int 0 is rendered "nil" and a *int 0 "0" by utils.ToStringKey, so relations
// whose two sides differ in pointer-ness fail on it.
func drawPart(rt *rapid.T, t reflect.Type, label string, composite, crowd bool) val {
	if isStrType(t) {
		s := rapid.SampledFrom(strPool).Draw(rt, label)
		if composite && rapid.IntRange(0, 8).Draw(rt, label+".empty") == 0 {
			// a zero member of a composite key: gorm takes a composite key as set as
			// soon as one member is non-zero, so ("", "x") is a key like any other
			return val{Str: true}
		}
		if crowd { // more distinct keys than the alphabet has
			s += []string{"", "#1", "#2", "_3"}[rapid.IntRange(0, 3).Draw(rt, label+".suffix")]
		}
		return val{Str: true, S: s}
	}
	if crowd {
		return val{I: int64(rapid.IntRange(1, 40).Draw(rt, label))}
	}
	v := val{I: rapid.SampledFrom(intPool).Draw(rt, label)}
	if composite && rapid.IntRange(0, 8).Draw(rt, label+".zero") == 0 {
		if harness.OpenClass("C11", "idkey-zero-part") {
			evid.Excluded("idkey-zero-part")
		} else {
			v.I = 0
		}
	}
	return v
}

// extraRows widens every table in the thorough tier.
func extraRows() int {
	if harness.Thorough() {
		return 3
	}
	return 0
}

func blank(t reflect.Type) val {
	if nullable(t) {
		return val{Null: true}
	}
	return val{Str: isStrType(t)}
}

// resplit returns the other ways of cutting the "_"-joined text of an all-string
// tuple into the same number of non-empty parts: exactly the tuples that the
// identity text cannot tell from t (("a_b","c") -> ("a","b_c")). Only pairs are
// cut (every composite key of the family has two parts).
func resplit(t tuple) []tuple {
	if len(t) != 2 || !t[0].Str || !t[1].Str || t[0].Null || t[1].Null {
		return nil
	}
	txt := t[0].S + "_" + t[1].S
	var out []tuple
	for i := 1; i < len(txt)-1; i++ {
		if txt[i] == '_' && i != len(t[0].S) {
			out = append(out, tuple{{Str: true, S: txt[:i]}, {Str: true, S: txt[i+1:]}})
		}
	}
	return out
}

// collisionClass names the known-finding class of two distinct typed tuples
// with the same identity text.
func collisionClass(a, b tuple) string {
	for _, t := range []tuple{a, b} {
		for _, v := range t {
			if v.Null || v.zero() {
				return "idkey-nil-collision" // a NULL / zero member rendered as the text "nil"
			}
		}
	}
	return "idkey-collision"
}

var plainStringT = reflect.TypeOf("")

// idTextTyped is idText with the declared column types taken into account: the
// zero value of a defined string type (type CodeT string) is not caught by
// ToStringKey's `case string` and is rendered "nil" like every other zero value.
func idTextTyped(m *model, fields []string, t tuple) string {
	s := make([]string, len(t))
	for i, v := range t {
		ft := fieldType(m, fields[i])
		switch {
		case v.Null:
			s[i] = "nil"
		case v.Str && v.S == "" && ft.Kind() == reflect.String && ft != plainStringT:
			s[i] = "nil"
		case v.Str:
			s[i] = v.S
		default:
			s[i] = fmt.Sprint(v.I)
		}
	}
	return strings.Join(s, "_")
}

// roleGuard keeps, per feeding role, the identity texts seen so far and tells
// whether a new tuple collides with a different tuple (and in which class).
type roleGuard struct {
	fam  *family
	seen map[role]map[string]tuple
	feed map[role]bool
}

func (rg *roleGuard) text(ro role, t tuple) string {
	return idTextTyped(rg.fam.m(ro.model), strings.Split(ro.fields, ","), t)
}

// allNull: every member is NULL (gorm skips such a key; a pointer to "" or 0 is
// a set member to gorm, so partly-NULL tuples with empty members take part).
func (t tuple) allNull() bool {
	for _, v := range t {
		if !v.Null {
			return false
		}
	}
	return true
}

func (rg *roleGuard) collides(ro role, t tuple) string {
	if !rg.feed[ro] || len(t) < 2 || t.allNull() {
		return ""
	}
	txt := rg.text(ro, t)
	if old, ok := rg.seen[ro][txt]; ok {
		same := len(old) == len(t)
		for i := range t {
			if old[i] != t[i] {
				same = false
			}
		}
		if !same {
			return collisionClass(old, t)
		}
	}
	return ""
}

func (rg *roleGuard) add(ro role, t tuple) {
	if !rg.feed[ro] || len(t) < 2 || t.allNull() {
		return
	}
	if rg.seen[ro] == nil {
		rg.seen[ro] = map[string]tuple{}
	}
	if _, ok := rg.seen[ro][rg.text(ro, t)]; !ok {
		rg.seen[ro][rg.text(ro, t)] = append(tuple(nil), t...)
	}
}

// genGraph draws the rows of every table of the group. Tuples of roles that
// feed identity maps in this load and fall in an open idkey class are excluded
// by construction (the row is dropped / the foreign key is blanked) and counted.
func genGraph(rt *rapid.T, f *family, l load) *graph {
	g := &graph{fam: f, rows: map[string][]row{}}
	rg := &roleGuard{fam: f, seen: map[role]map[string]tuple{}, feed: l.feedRoles(f)}
	excluded := func(class string) bool {
		if class != "" && harness.OpenClass("C11", class) {
			evid.Excluded(class)
			return true
		}
		return false
	}
	// crowd: now and then the child tables are large and their owners few, so that
	// one parent gets more children than the initial capacity of its slice (10)
	// and a child query returns more rows than the scanner's first allocation (20)
	live := l.liveModels(f)
	poison := len(l.absModels(f)) > 0 && rapid.Bool().Draw(rt, "poison")
	crowd := rapid.IntRange(0, 9).Draw(rt, "crowd") == 0
	g.crowd = crowd
	// phase 1: primary keys of the entity tables
	for _, m := range f.models {
		if m.isJoin {
			continue
		}
		n := rapid.IntRange(m.minRows, m.maxRows+extraRows()).Draw(rt, m.name+".n")
		if crowd && len(m.fks) > 0 {
			n = rapid.IntRange(12, 26).Draw(rt, m.name+".crowd-n")
		}
		seen := map[string]bool{}
		for i := 0; i < n; i++ {
			r := reflect.New(m.typ)
			pk := make(tuple, len(m.pk))
			for j, fn := range m.pk {
				pk[j] = drawPart(rt, field(r, fn).Type(), fmt.Sprintf("%s[%d].%s", m.name, i, fn), len(m.pk) > 1, crowd && len(m.fks) > 0)
			}
			// hostile by design: sometimes the key is another cut of an existing key's text
			if len(m.pk) == 2 && len(g.rows[m.name]) > 0 && rapid.IntRange(0, 5).Draw(rt, "resplit") == 0 {
				var alts []tuple
				for _, x := range g.rows[m.name] {
					alts = append(alts, resplit(tupleOf(x, m.pk))...)
				}
				if len(alts) > 0 {
					pk = alts[rapid.IntRange(0, len(alts)-1).Draw(rt, "resplit.pick")]
				}
			}
			if seen[pk.String()] || pk.allBlank() {
				continue
			}
			if excluded(rg.collides(roleOf(m.name, m.pk), pk)) {
				continue
			}
			rg.add(roleOf(m.name, m.pk), pk)
			seen[pk.String()] = true
			for j, fn := range m.pk {
				setVal(field(r, fn), pk[j])
			}
			field(r, "Tag").SetInt(int64(rapid.IntRange(0, 3).Draw(rt, "tag")))
			if poison && rapid.IntRange(0, 5).Draw(rt, "poison-row") == 0 {
				// a row on which abs(tag) fails at step time: a query with an abs
				// condition that reaches it breaks off in the middle of its result
				field(r, "Tag").SetInt(math.MinInt64)
			}
			for _, fn := range m.alt {
				// a referenced non-key column: duplicates are likely, "" (gorm: no value) possible
				v := rapid.SampledFrom([]string{"", "a", "a", "b", "a_b", "nil", "0", "日本", "1", "2"}).Draw(rt, fn)
				if v == "" && m.altNonEmpty {
					v = "a"
				}
				if v != "" {
					setVal(field(r, fn), val{Str: true, S: v})
				}
			}
			if lf := reflect.Indirect(r).FieldByName("Label"); lf.IsValid() {
				// the nullable first column: NULL in about half of the rows
				if v := rapid.SampledFrom([]string{"", "", "x", "nil"}).Draw(rt, "label"); v != "" {
					setVal(lf, val{Str: true, S: v})
				}
			}
			if m.soft && rapid.IntRange(0, 9).Draw(rt, "deleted") < 3 && !live[m.name] {
				field(r, "DeletedAt").Set(reflect.ValueOf(gorm.DeletedAt{Time: testdb.FixedNow, Valid: true}))
			}
			g.rows[m.name] = append(g.rows[m.name], r)
		}
	}
	// drawFK draws one foreign-key tuple: an existing target, a dangling tuple,
	// NULL/blank, or (composite) a partly NULL tuple.
	drawFK := func(r row, k fk, label string, allowBlank bool) tuple {
		types := make([]reflect.Type, len(k.fields))
		anyNullable := false
		for i, fn := range k.fields {
			types[i] = field(r, fn).Type()
			anyNullable = anyNullable || nullable(types[i])
		}
		targets := g.rows[k.target]
		mode := rapid.SampledFrom([]string{"hit", "hit", "hit", "hit", "hit", "hit", "dangling", "dangling", "blank", "blank", "partial"}).Draw(rt, label+".mode")
		if mode == "hit" && len(targets) == 0 {
			mode = "dangling"
		}
		if mode == "blank" && !allowBlank {
			mode = "dangling"
		}
		if mode == "partial" && (len(k.fields) < 2 || !anyNullable) {
			mode = "hit"
			if len(targets) == 0 {
				mode = "dangling"
			}
		}
		t := make(tuple, len(k.fields))
		switch mode {
		case "hit":
			hi := len(targets) - 1
			if crowd && hi > 1 {
				hi = 1
			}
			src := targets[rapid.IntRange(0, hi).Draw(rt, label+".target")]
			copy(t, tupleOf(src, k.tfields))
			if t.allBlank() { // the referenced column of that row is empty: nothing to point at
				for i := range t {
					t[i] = blank(types[i])
				}
			}
		case "dangling":
			for i := range t {
				t[i] = drawPart(rt, types[i], fmt.Sprintf("%s.%d", label, i), len(t) > 1, false)
			}
			if len(t) == 2 && len(targets) > 0 && rapid.IntRange(0, 2).Draw(rt, label+".resplit") == 0 {
				var alts []tuple
				for _, x := range targets {
					alts = append(alts, resplit(tupleOf(x, k.tfields))...)
				}
				if len(alts) > 0 {
					copy(t, alts[rapid.IntRange(0, len(alts)-1).Draw(rt, label+".resplit.pick")])
				}
			}
		case "blank":
			for i := range t {
				t[i] = blank(types[i])
			}
		case "partial":
			if len(targets) > 0 && rapid.Bool().Draw(rt, label+".from-target") {
				copy(t, tupleOf(targets[rapid.IntRange(0, len(targets)-1).Draw(rt, label+".target")], k.tfields))
			} else {
				for i := range t {
					t[i] = drawPart(rt, types[i], fmt.Sprintf("%s.%d", label, i), len(t) > 1, false)
				}
			}
			var nidx []int
			for i := range t {
				if nullable(types[i]) {
					nidx = append(nidx, i)
				}
			}
			t[rapid.SampledFrom(nidx).Draw(rt, label+".null-part")] = val{Null: true}
		}
		return t
	}
	// phase 2: foreign keys and polymorphic owners of the entity tables
	for _, m := range f.models {
		if m.isJoin {
			continue
		}
		for i, r := range g.rows[m.name] {
			for _, k := range m.fks {
				label := fmt.Sprintf("%s[%d].%s", m.name, i, k.fields[0])
				t := drawFK(r, k, label, true)
				ro := roleOf(m.name, k.fields)
				if excluded(rg.collides(ro, t)) {
					for j, fn := range k.fields {
						t[j] = blank(field(r, fn).Type())
					}
				}
				rg.add(ro, t)
				for j, fn := range k.fields {
					setVal(field(r, fn), t[j])
				}
			}
			if p := m.poly; p != nil {
				label := fmt.Sprintf("%s[%d].owner", m.name, i)
				owner := f.m(rapid.SampledFrom(p.owners).Draw(rt, label+".type"))
				okey := owner.pk
				if k, ok := p.keys[owner.name]; ok {
					okey = k // `polymorphic` + `foreignKey:`: the id column holds this owner field
				}
				t := drawFK(r, fk{[]string{p.idField}, owner.name, okey}, label, true)
				setVal(field(r, p.idField), t[0])
				typ := owner.table
				if v, ok := p.values[owner.name]; ok {
					typ = v // polymorphicValue tag on the owner's relation
				}
				if rapid.IntRange(0, 4).Draw(rt, label+".foreign-type") == 0 {
					typ = "zz_other"
				}
				field(r, p.typeField).SetString(typ)
			}
		}
	}
	// phase 3: join rows
	crowd = false
	for _, m := range f.models {
		if !m.isJoin {
			continue
		}
		n := rapid.IntRange(0, m.maxRows+extraRows()).Draw(rt, m.name+".n")
		seen := map[string]bool{}
		if rapid.Bool().Draw(rt, m.name+".dense") || l.Focus != "" {
			// densely linked: most pairs of the first owners and targets, so that
			// several owners share several far rows
			n = 0
			owners, targets := g.rows[m.fks[0].target], g.rows[m.fks[1].target]
			for oi := 0; oi < len(owners) && oi < 4; oi++ {
				for ti := 0; ti < len(targets) && ti < 3; ti++ {
					if !rapid.Bool().Draw(rt, fmt.Sprintf("%s.link.%d.%d", m.name, oi, ti)) {
						continue
					}
					r := reflect.New(m.typ)
					to, tt := tupleOf(owners[oi], m.fks[0].tfields), tupleOf(targets[ti], m.fks[1].tfields)
					if excluded(rg.collides(roleOf(m.name, m.fks[0].fields), to)) || excluded(rg.collides(roleOf(m.name, m.fks[1].fields), tt)) {
						continue
					}
					for j, fn := range m.fks[0].fields {
						setVal(field(r, fn), to[j])
					}
					for j, fn := range m.fks[1].fields {
						setVal(field(r, fn), tt[j])
					}
					if pk := tupleOf(r, m.pk); !seen[pk.String()] {
						seen[pk.String()] = true
						rg.add(roleOf(m.name, m.fks[0].fields), to)
						rg.add(roleOf(m.name, m.fks[1].fields), tt)
						g.rows[m.name] = append(g.rows[m.name], r)
					}
				}
			}
		}
		for i := 0; i < n; i++ {
			r := reflect.New(m.typ)
			bad := false
			var parts []tuple
			for _, k := range m.fks {
				t := drawFK(r, k, fmt.Sprintf("%s[%d].%s", m.name, i, k.fields[0]), false)
				if excluded(rg.collides(roleOf(m.name, k.fields), t)) {
					bad = true
				}
				parts = append(parts, t)
				for j, fn := range k.fields {
					setVal(field(r, fn), t[j])
				}
			}
			pk := tupleOf(r, m.pk)
			if bad || seen[pk.String()] {
				continue
			}
			seen[pk.String()] = true
			if m.soft && rapid.IntRange(0, 3).Draw(rt, "link-deleted") == 0 {
				field(r, "DeletedAt").Set(reflect.ValueOf(gorm.DeletedAt{Time: testdb.FixedNow, Valid: true}))
			}
			for ki, k := range m.fks {
				rg.add(roleOf(m.name, k.fields), parts[ki])
			}
			g.rows[m.name] = append(g.rows[m.name], r)
		}
	}
	return g
}

// ---------------------------------------------------------------- database

var fixedNow = func() time.Time { return testdb.FixedNow }

func openDB(f *family, queryFields bool) *testdb.DB {
	d := testdb.Open(testdb.Options{Config: gorm.Config{
		NowFunc:                                  fixedNow,
		DisableForeignKeyConstraintWhenMigrating: true,
		QueryFields:                              queryFields,
	}})
	if f.setup != nil {
		if err := f.setup(d.DB); err != nil {
			panic("harness: group setup: " + err.Error())
		}
	}
	return d
}

// schemaDDL migrates the group's models once per process on a scratch database
// and returns the CREATE statements AutoMigrate issued; every case replays them
// (an AutoMigrate per case costs several catalogue queries per table).
func (f *family) schemaDDL() []string {
	if f.ddl != nil {
		return f.ddl
	}
	d := openDB(f, false)
	defer d.Close()
	for _, m := range f.models {
		if m.isJoin {
			continue
		}
		if err := d.AutoMigrate(reflect.New(m.typ).Interface()); err != nil {
			panic(fmt.Sprintf("harness: AutoMigrate %s: %v", m.name, err))
		}
	}
	for _, e := range d.Rec.Statements() {
		if strings.HasPrefix(strings.TrimSpace(e.Text), "CREATE ") {
			f.ddl = append(f.ddl, e.Text)
		}
	}
	for _, m := range f.models {
		if !d.Migrator().HasTable(m.table) {
			panic("harness: table " + m.table + " was not created by AutoMigrate")
		}
	}
	return f.ddl
}

// store creates the tables and inserts the mirror rows table by table, without
// association handling.
func store(d *testdb.DB, g *graph) error {
	for _, s := range g.fam.schemaDDL() {
		if err := d.Exec(s).Error; err != nil {
			return fmt.Errorf("ddl %q: %w", s, err)
		}
	}
	for _, m := range g.fam.models {
		rows := g.rows[m.name]
		if len(rows) == 0 {
			continue
		}
		sl := reflect.New(reflect.SliceOf(m.typ))
		for _, r := range rows {
			sl.Elem().Set(reflect.Append(sl.Elem(), r.Elem()))
		}
		if err := d.Session(&gorm.Session{}).Omit(clause.Associations).CreateInBatches(sl.Interface(), 250).Error; err != nil {
			return fmt.Errorf("insert %s: %w", m.name, err)
		}
	}
	return nil
}

// ---------------------------------------------------------------- the reference join

type scope struct {
	unscoped     bool
	joinUnscoped bool // many to many: soft-deleted join rows are visible
	conds        []*cond
}

func (s scope) admits(m *model, r row) bool {
	if !s.unscoped && isDeleted(m, r) {
		return false
	}
	for _, c := range s.conds {
		if !c.holds(r) {
			return false
		}
	}
	return true
}

// related returns the mirror rows associated with owner through r: one entry
// per (join row, child) pair for many to many, one per child otherwise.
func (g *graph) related(r *rel, owner row, s scope) []row {
	tm := g.fam.m(r.target)
	own := tupleOf(owner, r.own)
	var out []row
	match := func(c row, key tuple) {
		if r.polyField != "" && field(c, r.polyField).String() != r.polyValue {
			return
		}
		if s.admits(tm, c) {
			out = append(out, c)
		}
	}
	if r.kind == many2many {
		jm := g.fam.m(r.join)
		for _, j := range g.lookup(jm, r.jOwn, own) {
			if !s.joinUnscoped && isDeleted(jm, j) {
				continue // the join model soft-deletes its links
			}
			key := tupleOf(j, r.jRel)
			for _, c := range g.lookup(tm, r.tgt, key) {
				match(c, key)
			}
		}
		return out
	}
	for _, c := range g.lookup(tm, r.tgt, own) {
		match(c, own)
	}
	return out
}

// ---------------------------------------------------------------- reading loaded values

// attached returns the records found in association field r of a loaded owner.
func attached(f *family, r *rel, owner reflect.Value) []row {
	fv := field(owner, r.path())
	switch fv.Kind() {
	case reflect.Slice:
		out := make([]row, 0, fv.Len())
		for i := 0; i < fv.Len(); i++ {
			e := fv.Index(i)
			if e.Kind() == reflect.Ptr {
				if e.IsNil() {
					continue
				}
				out = append(out, e)
			} else {
				out = append(out, e.Addr())
			}
		}
		return out
	case reflect.Ptr:
		if fv.IsNil() {
			return nil
		}
		return []row{fv}
	case reflect.Struct:
		// a value-typed to-one field is "empty" when its primary key is blank
		// (stored keys never are); checkRecord verifies that nothing else of
		// it is filled either
		if tupleOf(fv.Addr(), f.m(r.target).pk).allBlank() {
			return nil
		}
		return []row{fv.Addr()}
	}
	panic("harness: association field kind " + fv.Kind().String())
}

func renderRows(m *model, rs []row) []string { return renderRowsKeep(m, rs, nil) }

func renderRowsKeep(m *model, rs []row, keep func(string) bool) []string {
	out := make([]string, len(rs))
	for i, r := range rs {
		out[i] = rowRender(m, r, keep)
	}
	sort.Strings(out)
	return out
}

func sameMultiset(a, b []string) bool {
	if len(a) != len(b) {
		return false
	}
	for i := range a {
		if a[i] != b[i] {
			return false
		}
	}
	return true
}

// ---------------------------------------------------------------- checking one loaded record

type checker struct {
	g     *graph
	l     load
	stats map[string]*relStat // per top-level relation, over the loaded parents
}

type relStat struct {
	parents, none, one, many int
	hostile                  bool
	kind                     string
}

// checkRecord compares every association field of a loaded record of model m
// with the reference join; n is the preload plan at this level (nil: nothing
// may be attached), joined names the relations filled by association Joins.
func (c *checker) checkRecord(m *model, rec reflect.Value, n *node, joined map[string]*joinSpec, top bool, path string) error {
	f := c.g.fam
	mirror := c.g.find(m, tupleOf(rec, m.pk))
	if !mirror.IsValid() {
		return fmt.Errorf("%s: loaded record %s is not a stored row", path, rowString(m, rec))
	}
	var keep func(string) bool // column subset this record was loaded with (Select in a preload scope)
	if n != nil {
		keep = n.keep()
	}
	if got, want := rowRender(m, rec, keep), rowRender(m, mirror, keep); got != want {
		return fmt.Errorf("%s: loaded record %s differs from the stored row %s", path, got, want)
	}
	if keep != nil {
		rest := func(n string) bool { return !keep(n) }
		if g, z := rowRender(m, rec, rest), rowRender(m, reflect.New(m.typ), rest); g != z {
			return fmt.Errorf("%s: columns that were not selected are filled: %s", path, g)
		}
	}
	for _, r := range m.rels {
		tm := f.m(r.target)
		got := attached(f, r, rec)
		where := path + "." + r.name
		if js := joined[r.name]; js != nil && js.subset() {
			// joined with a column subset: present iff a related row exists, the
			// selected columns carry that row's values, everything else stays zero
			s := scope{}
			if js.On != nil {
				s.conds = []*cond{js.On}
			}
			cands := c.g.related(r, mirror, s)
			var wants []string
			for _, x := range cands {
				wants = append(wants, joinedWant(f, m, r, js, x))
			}
			if len(cands) == 0 {
				wants = []string{joinedWant(f, m, r, js, reflect.Value{})}
			}
			act := joinedActual(f, m, r, js, rec)
			ok := false
			for _, w := range wants {
				ok = ok || w == act
			}
			if !ok {
				return fmt.Errorf("%s (joined, columns %v%v) of %s: holds %s, reference join gives one of %v", where, js.Select, js.Omit, rowString(m, mirror), act, wants)
			}
			if fv := field(rec, r.path()); !(fv.Kind() == reflect.Ptr && fv.IsNil()) {
				child := fv
				if child.Kind() != reflect.Ptr {
					child = child.Addr()
				}
				keep := js.keeps()
				rest := func(n string) bool { return !keep(n) }
				if g, z := rowRender(tm, child, rest), rowRender(tm, reflect.New(tm.typ), rest); g != z {
					return fmt.Errorf("%s (joined, columns %v%v): columns that were not selected are filled: %s", where, js.Select, js.Omit, g)
				}
				for _, r2 := range tm.rels {
					if x := attached(f, r2, child); len(x) != 0 {
						return fmt.Errorf("%s.%s: relation was not requested but holds %v", where, r2.name, renderRows(f.m(r2.target), x))
					}
				}
			}
			continue
		}
		if fv := field(rec, r.path()); fv.Kind() == reflect.Struct && len(got) == 0 {
			if g, z := rowString(tm, fv.Addr()), rowString(tm, reflect.New(tm.typ)); g != z {
				return fmt.Errorf("%s of %s: no key but partly filled: %s", where, rowString(m, mirror), g)
			}
		}
		var k *node
		if n != nil {
			k = n.kids[r.name]
		}
		if js := joined[r.name]; js != nil {
			s := scope{}
			if js.On != nil {
				s.conds = []*cond{js.On}
			}
			want := c.g.related(r, mirror, s)
			if err := memberCheck(tm, got, want, where+" (joined)", nil); err != nil {
				return err
			}
		} else if k != nil && k.loaded {
			s := scope{unscoped: k.unscoped, joinUnscoped: k.outerUnscoped, conds: k.conds}
			want := c.g.related(r, mirror, s)
			if top {
				c.note(r, mirror, want)
			}
			if r.toOne() {
				if err := memberCheck(tm, got, want, where, k.keep()); err != nil {
					return err
				}
			} else if gs, ws := renderRowsKeep(tm, got, k.keep()), renderRowsKeep(tm, want, k.keep()); !sameMultiset(gs, ws) {
				return fmt.Errorf("%s of %s: attached %v, reference join gives %v", where, rowString(m, mirror), gs, ws)
			}
		} else {
			if len(got) != 0 {
				return fmt.Errorf("%s of %s: relation was not requested but holds %v", where, rowString(m, mirror), renderRows(tm, got))
			}
			continue
		}
		var sub map[string]*joinSpec
		if js := joined[r.name]; js != nil && js.Nested != "" {
			sub = map[string]*joinSpec{js.Nested: {Rel: js.Nested, Inner: js.Inner}}
		}
		for i, child := range got {
			if err := c.checkRecord(tm, child, k, sub, false, fmt.Sprintf("%s[%d]", where, i)); err != nil {
				return err
			}
		}
	}
	return nil
}

// memberCheck: a to-one field holds one of the candidate rows, and holds none
// only if there is no candidate.
func memberCheck(tm *model, got, want []row, where string, keep func(string) bool) error {
	ws := renderRowsKeep(tm, want, keep)
	if len(got) == 0 {
		if len(want) != 0 {
			return fmt.Errorf("%s: nothing attached, reference join gives %v", where, ws)
		}
		return nil
	}
	gs := rowRender(tm, got[0], keep)
	for _, w := range ws {
		if w == gs {
			return nil
		}
	}
	return fmt.Errorf("%s: attached %s, reference join gives %v", where, gs, ws)
}

func (c *checker) note(r *rel, owner row, want []row) {
	st := c.stats[r.name]
	if st == nil {
		st = &relStat{kind: r.kind}
		c.stats[r.name] = st
	}
	st.parents++
	if len(want) > 10 {
		evid.Class("size:parent-with-more-than-10-rows")
	}
	switch len(want) {
	case 0:
		st.none++
	case 1:
		st.one++
	default:
		st.many++
	}
	if tupleOf(owner, r.own).hostile() {
		st.hostile = true
	}
	for _, w := range want {
		if tupleOf(w, c.g.fam.m(r.target).pk).hostile() {
			st.hostile = true
		}
	}
}

// hostileAround reports a hostile or dangling tuple on either side of relation r.
func (g *graph) hostileAround(owner *model, r *rel) bool {
	for _, o := range g.rows[owner.name] {
		if tupleOf(o, r.own).hostile() {
			return true
		}
	}
	tm := g.fam.m(r.target)
	for _, c := range g.rows[tm.name] {
		if tupleOf(c, r.tgt).hostile() {
			return true
		}
	}
	if r.kind == many2many {
		return false
	}
	// dangling: a referencing tuple without a referenced row
	ref, refM, refF, tgtM, tgtF := owner, owner, r.own, tm, r.tgt
	_ = ref
	if r.kind != belongsTo { // children reference owners
		refM, refF, tgtM, tgtF = tm, r.tgt, owner, r.own
	}
	for _, x := range g.rows[refM.name] {
		t := tupleOf(x, refF)
		if t.allBlank() {
			continue
		}
		if len(g.lookup(tgtM, tgtF, t)) == 0 {
			return true
		}
	}
	return false
}

// ---------------------------------------------------------------- running a load

func elementsOf(dest reflect.Value) []reflect.Value {
	v := dest.Elem()
	if v.Kind() == reflect.Struct {
		return []reflect.Value{dest}
	}
	out := make([]reflect.Value, 0, v.Len())
	for i := 0; i < v.Len(); i++ {
		e := v.Index(i)
		if e.Kind() != reflect.Ptr {
			e = e.Addr()
		} else if e.IsNil() {
			continue
		}
		out = append(out, e)
	}
	return out
}

func newDest(m *model, shape string, n int) reflect.Value {
	switch shape {
	case "array":
		return reflect.New(reflect.ArrayOf(n, m.typ))
	case "ptrarray":
		return reflect.New(reflect.ArrayOf(n, reflect.PtrTo(m.typ)))
	case "struct":
		return reflect.New(m.typ)
	case "slice":
		return reflect.New(reflect.SliceOf(m.typ))
	}
	return reflect.New(reflect.SliceOf(reflect.PtrTo(m.typ)))
}

func colName(db *gorm.DB, fieldName string) string {
	if i := strings.LastIndex(fieldName, "."); i >= 0 {
		// a column of an embedded struct declared with embeddedPrefix:<field>_
		return strings.ToLower(fieldName[:i]) + "_" + db.NamingStrategy.ColumnName("", fieldName[i+1:])
	}
	return db.NamingStrategy.ColumnName("", fieldName)
}

// gormFieldName is the name gorm knows a (possibly embedded) field by.
func gormFieldName(fieldName string) string {
	return fieldName[strings.LastIndex(fieldName, ".")+1:]
}

func curCol(name string) clause.Column { return clause.Column{Table: clause.CurrentTable, Name: name} }

// copies is how often every parent appears under the duplicating join.
func (l load) copies() int {
	if !l.Dup {
		return 1
	}
	if l.DupN < 2 {
		return 2
	}
	return l.DupN
}

// lessTuple orders key tuples the way SQLite's BINARY collation does (integers
// numerically, text bytewise, member by member).
func lessTuple(a, b tuple) bool {
	for i := range a {
		if a[i].Str != b[i].Str {
			return !a[i].Str
		}
		if a[i].Str && a[i].S != b[i].S {
			return a[i].S < b[i].S
		}
		if !a[i].Str && a[i].I != b[i].I {
			return a[i].I < b[i].I
		}
	}
	return false
}

// copiesOf is how often parent p appears in the result.
func (l load) copiesOf(p row) int {
	if l.Dup && l.DupOne {
		if l.dupRow.IsValid() && p.Pointer() == l.dupRow.Pointer() {
			return l.copies()
		}
		return 1
	}
	if l.Dup && l.DupByTag > 0 {
		if t := tagOf(p); t >= 0 && t <= 3 {
			return 1 + t*l.DupByTag
		}
		return 1
	}
	return l.copies()
}

// dupJoin repeats the parent rows: every row n times, or - byTag - a row with
// tag t in 0..3 1+t*s times (parents duplicated unevenly).
func dupJoin(l load, d *testdb.DB, root *model) (string, []interface{}) {
	table := root.table
	n := l.copies()
	if l.DupByTag > 0 {
		n = 1 + 3*l.DupByTag
	}
	sel := "SELECT 0 AS n"
	for i := 1; i < n; i++ {
		sel += fmt.Sprintf(" UNION ALL SELECT %d AS n", i)
	}
	if l.DupOne {
		// only the picked parent is repeated
		on := "dup.n = 0"
		var args []interface{}
		if l.dupRow.IsValid() {
			var eqs []string
			for i, v := range tupleOf(l.dupRow, root.pk) {
				eqs = append(eqs, fmt.Sprintf("%s.%s = ?", table, colName(d.DB, root.pk[i])))
				if v.Str {
					if fieldType(root, root.pk[i]) == bytesT {
						args = append(args, []byte(v.S))
					} else {
						args = append(args, v.S)
					}
				} else {
					args = append(args, v.I)
				}
			}
			on += " OR (" + strings.Join(eqs, " AND ") + ")"
		}
		return "JOIN (" + sel + ") AS dup ON " + on, args
	}
	if l.DupByTag > 0 {
		return fmt.Sprintf("JOIN (%s) AS dup ON dup.n <= (CASE WHEN %s.tag BETWEEN 0 AND 3 THEN %s.tag * %d ELSE 0 END)", sel, table, table, l.DupByTag), nil
	}
	return "JOIN (" + sel + ") AS dup ON 1 = 1", nil
}

func padJoin(i int) string {
	return fmt.Sprintf("JOIN (SELECT 1 AS n%d) AS pad%d ON 1 = 1", i, i)
}

// addJoin appends one association join to the chain.
func addJoin(tx *gorm.DB, d *testdb.DB, g *graph, root *model, j joinSpec, sharedOn **gorm.DB) *gorm.DB {
	var args []interface{}
	jname := j.Rel
	if j.Nested != "" {
		jname += "." + j.Nested
	}
	if sharedOn != nil && *sharedOn != nil && j.On != nil {
		// the very handle the previous join was given
		if j.Inner {
			return tx.InnerJoins(jname, *sharedOn)
		}
		return tx.Joins(jname, *sharedOn)
	}
	if j.On != nil || j.subset() {
		on := d.Session(&gorm.Session{NewDB: true})
		name := func(fn string) string {
			if j.DBNames {
				return colName(d.DB, fn)
			}
			return gormFieldName(fn)
		}
		if len(j.Select) > 0 {
			cols := make([]string, len(j.Select))
			for i, fn := range j.Select {
				cols[i] = name(fn)
			}
			on = on.Select(cols)
		}
		if len(j.Omit) > 0 {
			cols := make([]string, len(j.Omit))
			for i, fn := range j.Omit {
				cols[i] = name(fn)
			}
			on = on.Omit(cols...)
		}
		if j.On != nil {
			if j.On.Form == "on-struct" {
				// struct conditions are qualified with the join alias (a map or a
				// string condition is not: "ambiguous column" on self joins)
				probe := reflect.New(g.fam.m(root.rel(j.Rel).target).typ)
				field(probe, "Tag").SetInt(int64(j.On.K))
				on = on.Where(probe.Interface())
			} else {
				on = on.Where(clause.Gte{Column: curCol("tag"), Value: j.On.K})
			}
		}
		args = append(args, on)
		if sharedOn != nil {
			*sharedOn = on
		}
	}
	if j.Inner {
		return tx.InnerJoins(jname, args...)
	}
	return tx.Joins(jname, args...)
}

// buildBase starts the chain: scope, filler joins, duplicating join and the
// first n association joins.
func buildBase(d *testdb.DB, g *graph, l load, n int) *gorm.DB {
	root := g.fam.m(l.Root)
	tx := d.Session(&gorm.Session{PrepareStmt: l.PrepareStmt})
	if l.Unscoped {
		tx = tx.Unscoped()
	}
	for i := 0; i < l.Pads; i++ {
		tx = tx.Joins(padJoin(i))
	}
	if l.Dup {
		q, args := dupJoin(l, d, root)
		tx = tx.Joins(q, args...)
	}
	for _, j := range l.Joins[:n] {
		tx = addJoin(tx, d, g, root, j, nil)
	}
	return tx
}

// finishQuery adds the remaining joins (from index n), the preloads and the
// parent filter; it does not execute.
func finishQuery(tx *gorm.DB, d *testdb.DB, g *graph, l load, n int, extraPad bool) *gorm.DB {
	root := g.fam.m(l.Root)
	var on *gorm.DB
	var sharedOn **gorm.DB
	if l.ShareOn {
		sharedOn = &on
	}
	for _, j := range l.Joins[n:] {
		tx = addJoin(tx, d, g, root, j, sharedOn)
	}
	if extraPad {
		tx = tx.Joins(padJoin(99))
	}
	for _, p := range l.Preloads {
		var args []interface{}
		if p.Cond != nil {
			var tm *model
			if p.Path != clause.Associations {
				_, _, tm = pathTarget(g.fam, root, p.Path)
			}
			args = p.Cond.args(tm)
		}
		tx = tx.Preload(p.Path, args...)
	}
	if l.Shape == "struct" {
		pk := tupleOf(g.rows[root.name][l.Pick], root.pk)
		for i, fn := range root.pk {
			var v interface{} = pk[i].I
			if pk[i].Str {
				v = pk[i].S
			}
			tx = tx.Where(clause.Eq{Column: curCol(colName(d.DB, fn)), Value: v})
		}
		return tx
	}
	if l.MinTag > 0 {
		tx = tx.Where(clause.Gte{Column: curCol("tag"), Value: l.MinTag})
	}
	return tx
}

// execQuery runs the finisher and returns the loaded records.
func execQuery(tx *gorm.DB, m *model, l load, dest reflect.Value) ([]reflect.Value, error) {
	var err error
	if l.CountChain {
		// the paging idiom: count through a reusable handle, go on from what Count returned
		var n int64
		tx = tx.Model(reflect.New(m.typ).Interface()).Session(&gorm.Session{}).Count(&n)
		if tx.Error != nil {
			return nil, fmt.Errorf("Count before the load: %w", tx.Error)
		}
	}
	switch {
	case l.Shape == "struct" && l.Finisher == "first":
		err = tx.First(dest.Interface()).Error
	case l.Shape == "struct" && l.Finisher == "last":
		err = tx.Last(dest.Interface()).Error
	case l.Shape == "struct":
		err = tx.Take(dest.Interface()).Error
	case l.Batch > 0:
		// every batch reuses the destination: copy the records out
		var all []reflect.Value
		err = tx.FindInBatches(dest.Interface(), l.Batch, func(_ *gorm.DB, _ int) error {
			for _, e := range elementsOf(dest) {
				cp := reflect.New(e.Elem().Type())
				cp.Elem().Set(e.Elem())
				all = append(all, cp)
			}
			return nil
		}).Error
		return all, err
	default:
		err = tx.Find(dest.Interface()).Error
	}
	if err != nil {
		return nil, err
	}
	elems := elementsOf(dest)
	if dest.Elem().Kind() == reflect.Array {
		// the unused tail of an array destination: elements without a key
		// (preloading leaves empty, non-nil slices in them)
		kept := elems[:0]
		for _, e := range elems {
			if !tupleOf(e, m.pk).allBlank() {
				kept = append(kept, e)
			}
		}
		elems = kept
	}
	return elems, nil
}

// runQuery performs the Preload/Joins load into dest.
func runQuery(d *testdb.DB, g *graph, l load, dest reflect.Value) ([]reflect.Value, error) {
	return execQuery(finishQuery(buildBase(d, g, l, 0), d, g, l, 0, false), g.fam.m(l.Root), l, dest)
}

// siblingLoad is the load the sibling query of a Shared load performs.
func (l load) siblingLoad() (load, bool) {
	s := l
	s.Shared, s.Sibling, s.Reload = false, nil, false
	s.Joins = append([]joinSpec(nil), l.Joins[:len(l.Joins)-1]...)
	if l.Sibling != nil {
		s.Joins = append(s.Joins, *l.Sibling)
		return s, false
	}
	return s, true // one more filler join instead
}

// referenceRows computes the rows a Joins query must return: per admitted
// parent the product of its candidates per joined relation (LEFT: a parent
// without candidates keeps one row with nothing attached; INNER: it is
// dropped), every row twice when the duplicating join is on.
func referenceRows(g *graph, l load) []string {
	root := g.fam.m(l.Root)
	var out []string
	for i, p := range g.rows[root.name] {
		if l.Shape == "struct" && i != l.Pick {
			continue
		}
		if l.Shape != "struct" && l.MinTag > 0 && tagOf(p) < l.MinTag {
			continue
		}
		if !l.Unscoped && isDeleted(root, p) {
			continue // the root query's own soft-delete scope
		}
		combos := []string{tupleOf(p, root.pk).String()}
		for ji := range l.Joins {
			j := &l.Joins[ji]
			r := root.rel(j.Rel)
			s := scope{}
			if j.On != nil {
				s.conds = []*cond{j.On}
			}
			cands := g.related(r, p, s)
			var next []string
			for _, c := range combos {
				if len(cands) == 0 && !j.Inner {
					next = append(next, c+"|"+joinedWant(g.fam, root, r, j, reflect.Value{}))
				}
				for _, x := range cands {
					switch {
					case j.subset():
						next = append(next, c+"|"+joinedWant(g.fam, root, r, j, x))
					case j.Nested != "":
						// the joined record's own to-one relation, joined the same way
						tm := g.fam.m(r.target)
						r2 := tm.rel(j.Nested)
						c2 := g.related(r2, x, scope{})
						if len(c2) == 0 && !j.Inner {
							next = append(next, c+"|"+tupleOf(x, tm.pk).String()+"/-")
						}
						for _, y := range c2 {
							next = append(next, c+"|"+tupleOf(x, tm.pk).String()+"/"+tupleOf(y, g.fam.m(r2.target).pk).String())
						}
					default:
						next = append(next, c+"|"+tupleOf(x, g.fam.m(r.target).pk).String())
					}
				}
			}
			combos = next
		}
		for i := 0; i < l.copiesOf(p); i++ {
			out = append(out, combos...)
		}
	}
	sort.Strings(out)
	return out
}

func resultRows(g *graph, l load, elems []reflect.Value) []string {
	root := g.fam.m(l.Root)
	out := make([]string, 0, len(elems))
	for _, e := range elems {
		s := tupleOf(e, root.pk).String()
		for ji := range l.Joins {
			j := &l.Joins[ji]
			r := root.rel(j.Rel)
			if j.subset() {
				s += "|" + joinedActual(g.fam, root, r, j, e)
				continue
			}
			got := attached(g.fam, r, e)
			if len(got) == 0 {
				s += "|-"
			} else {
				tm := g.fam.m(r.target)
				s += "|" + tupleOf(got[0], tm.pk).String()
				if j.Nested != "" {
					r2 := tm.rel(j.Nested)
					if g2 := attached(g.fam, r2, got[0]); len(g2) == 0 {
						s += "/-"
					} else {
						s += "/" + tupleOf(g2[0], g.fam.m(r2.target).pk).String()
					}
				}
			}
		}
		out = append(out, s)
	}
	sort.Strings(out)
	return out
}

// checkQuery runs the load and compares. It returns the violation text ("" = held)
// and the non-triviality of the case.
func checkQuery(d *testdb.DB, g *graph, l load) (string, bool) {
	if !l.Shared {
		return checkQueryWith(d, g, l, func(lr load, dest reflect.Value) ([]reflect.Value, error) { return runQuery(d, g, lr, dest) })
	}
	// both queries are derived from one reusable handle before either runs
	n := len(l.Joins) - 1
	base := buildBase(d, g, l, n).Session(&gorm.Session{})
	q1 := finishQuery(base, d, g, l, n, false)
	l2, pad := l.siblingLoad()
	q2 := finishQuery(base, d, g, l2, n, pad)
	if l.CountFirst {
		// a third query from the same handle, run first: it must not leak into the others
		var n int64
		if err := base.Model(reflect.New(g.fam.m(l.Root).typ).Interface()).Count(&n).Error; err != nil {
			return fmt.Sprintf("Count derived from the shared handle failed: %v", err), false
		}
	}
	msg, nt := checkQueryWith(d, g, l, func(_ load, dest reflect.Value) ([]reflect.Value, error) {
		return execQuery(q1, g.fam.m(l.Root), l, dest)
	})
	if msg != "" {
		return "query derived first from the shared handle: " + msg, false
	}
	if msg2, _ := checkQueryWith(d, g, l2, func(_ load, dest reflect.Value) ([]reflect.Value, error) {
		return execQuery(q2, g.fam.m(l.Root), l2, dest)
	}); msg2 != "" {
		return "sibling query derived from the shared handle (" + l2.String() + "): " + msg2, false
	}
	return "", nt
}

func checkQueryWith(d *testdb.DB, g *graph, l0 load, run func(lr load, dest reflect.Value) ([]reflect.Value, error)) (string, bool) {
	root := g.fam.m(l0.Root)
	dest := newDest(root, l0.Shape, len(referenceRows(g, l0))+l0.ArrayExtra)
	rounds := 1
	if l0.Reload {
		rounds = 2
	}
	nt := false
	for round := 0; round < rounds; round++ {
		l := l0.round(round) // the second load into the same destination may carry other conditions
		elems, err := run(l, dest)
		want := referenceRows(g, l)
		switch {
		case err == nil:
		case errors.Is(err, gorm.ErrRecordNotFound) && l.Shape == "struct":
			if len(want) != 0 {
				return fmt.Sprintf("load returned ErrRecordNotFound, reference gives rows %v", want), false
			}
			return "", false
		case stepFailure(g, l, err):
			evid.Class("outcome:step-failure-reported")
			return "", false
		default:
			return fmt.Sprintf("load failed: %v", err), false
		}
		got := resultRows(g, l, elems)
		if l.Shape == "struct" {
			ok := false
			for _, w := range want {
				if w == got[0] {
					ok = true
				}
			}
			if !ok {
				return fmt.Sprintf("loaded (parent|joined...) row %v, reference gives one of %v", got, want), false
			}
		} else if !sameMultiset(got, want) {
			return fmt.Sprintf("loaded (parent|joined...) rows %v, reference gives %v", got, want), false
		}
		c := &checker{g: g, l: l, stats: map[string]*relStat{}}
		joined := map[string]*joinSpec{}
		for i := range l.Joins {
			joined[l.Joins[i].Rel] = &l.Joins[i]
		}
		plan := l.plan(root)
		for i, e := range elems {
			if err := c.checkRecord(root, e, plan, joined, true, fmt.Sprintf("round %d result[%d]", round, i)); err != nil {
				return err.Error(), false
			}
		}
		// non-triviality
		distinct := map[string]bool{}
		for _, e := range elems {
			distinct[tupleOf(e, root.pk).String()] = true
		}
		factor := l.copies()
		if l.DupByTag > 0 || l.DupOne {
			factor = 1
		}
		for name, st := range c.stats {
			r := root.rel(name)
			hostile := st.hostile || g.hostileAround(root, r)
			if len(distinct) >= 2 && hostile && st.none >= 1 {
				if r.toOne() && st.one+st.many >= 2*factor {
					nt = true
				}
				if !r.toOne() && st.many >= 1 {
					nt = true
				}
			}
		}
		if len(l.Joins) > 0 && len(distinct) >= 2 {
			// joined relations: one parent without and two with a partner
			for _, j := range l.Joins {
				r := root.rel(j.Rel)
				none, some := 0, 0
				for _, e := range elems {
					if len(attached(g.fam, r, e)) == 0 {
						none++
					} else {
						some++
					}
				}
				if (none >= 1 || j.Inner) && some >= 2*factor && g.hostileAround(root, r) {
					nt = true
				}
			}
		}
	}
	return "", nt
}

// checkAssocFind runs db.Model(parents).Association(name).Find(&out, conds...).
func checkAssocFind(d *testdb.DB, g *graph, l load) (string, bool) {
	root := g.fam.m(l.Root)
	r := root.rel(l.Assoc)
	tm := g.fam.m(r.target)
	// the caller's parents: copies of the stored rows
	var chosen []row
	for i, p := range g.rows[root.name] {
		if l.Shape == "struct" {
			if i == l.Pick {
				chosen = append(chosen, p)
			}
		} else if l.MinTag <= 0 || tagOf(p) >= l.MinTag {
			chosen = append(chosen, p)
		}
	}
	if len(chosen) == 0 {
		return "", false
	}
	var parents reflect.Value
	switch l.Shape {
	case "struct":
		parents = reflect.New(root.typ)
		parents.Elem().Set(chosen[0].Elem())
	case "slice":
		parents = reflect.New(reflect.SliceOf(root.typ))
		for _, p := range chosen {
			parents.Elem().Set(reflect.Append(parents.Elem(), p.Elem()))
		}
		for i := 1; i < l.copies(); i++ {
			parents.Elem().Set(reflect.Append(parents.Elem(), chosen[0].Elem()))
		}
	default:
		parents = reflect.New(reflect.SliceOf(reflect.PtrTo(root.typ)))
		var first reflect.Value
		for i, p := range chosen {
			cp := reflect.New(root.typ)
			cp.Elem().Set(p.Elem())
			if i == 0 {
				first = cp
			}
			parents.Elem().Set(reflect.Append(parents.Elem(), cp))
		}
		for i := 1; i < l.copies(); i++ {
			parents.Elem().Set(reflect.Append(parents.Elem(), first)) // the same pointer again
		}
	}
	tx := d.Session(&gorm.Session{PrepareStmt: l.PrepareStmt})
	if l.Unscoped {
		tx = tx.Unscoped()
	}
	as := tx.Model(parents.Interface()).Association(l.Assoc)
	if as.Error != nil {
		return fmt.Sprintf("Association(%s): %v", l.Assoc, as.Error), false
	}
	var out reflect.Value
	if l.OutStruct {
		out = reflect.New(tm.typ) // Find(&one) for a to-one relation
	} else if l.OutPtr {
		out = reflect.New(reflect.SliceOf(reflect.PtrTo(tm.typ)))
	} else {
		out = reflect.New(reflect.SliceOf(tm.typ))
	}
	var args []interface{}
	s := scope{unscoped: l.Unscoped, joinUnscoped: l.Unscoped}
	if l.Cond != nil {
		args = l.Cond.args(tm)
		s.conds = []*cond{l.Cond}
	}
	if err := as.Find(out.Interface(), args...); stepFailure(g, l, err) {
		evid.Class("outcome:step-failure-reported")
		return "", false
	} else if err != nil {
		return fmt.Sprintf("Association(%s).Find failed: %v", l.Assoc, err), false
	}
	// reference: every child row that belongs to one of the (distinct) parents;
	// many to many: once per (parent, child) link
	var want []row
	seenParent := map[string]bool{}
	seenChild := map[string]bool{}
	none, contributing := 0, 0
	for _, p := range chosen {
		key := tupleOf(p, r.own).String()
		rel := g.related(r, p, s)
		if len(rel) == 0 {
			none++
		} else {
			contributing++
		}
		if r.kind == many2many {
			if seenParent[key] {
				continue
			}
			seenParent[key] = true
			want = append(want, rel...)
			continue
		}
		for _, c := range rel {
			ck := tupleOf(c, tm.pk).String()
			if !seenChild[ck] {
				seenChild[ck] = true
				want = append(want, c)
			}
		}
	}
	got := elementsOf(out)
	if l.OutStruct {
		if tupleOf(out, tm.pk).allBlank() {
			got = nil // nothing found: the struct stays empty (checked below to be entirely zero)
			if g0, z := rowString(tm, out), rowString(tm, reflect.New(tm.typ)); g0 != z {
				return fmt.Sprintf("Association(%s).Find into a struct: no key but partly filled: %s", l.Assoc, g0), false
			}
		}
		if err := memberCheck(tm, got, want, fmt.Sprintf("Association(%s).Find into a struct", l.Assoc), nil); err != nil {
			return err.Error(), false
		}
	} else if gs, ws := renderRows(tm, got), renderRows(tm, want); !sameMultiset(gs, ws) {
		return fmt.Sprintf("Association(%s).Find over parents %v returned %v, reference join gives %v", l.Assoc, renderRows(root, chosen), gs, ws), false
	}
	for i, e := range got {
		// nothing may be attached to the found records
		c := &checker{g: g, l: l, stats: map[string]*relStat{}}
		if err := c.checkRecord(tm, e, nil, nil, false, fmt.Sprintf("found[%d]", i)); err != nil {
			return err.Error(), false
		}
	}
	nt := len(chosen) >= 2 && none >= 1 && len(want) >= 2 && g.hostileAround(root, r)
	return "", nt
}

// ---------------------------------------------------------------- one case

type outcome struct {
	desc    string
	nt      bool
	classes []string
	msg     string
}

func runCase(g *graph, l load) outcome {
	d := openDB(g.fam, l.QueryFields)
	defer d.Close()
	o := outcome{desc: g.String() + " load " + l.String()}
	if err := store(d, g); err != nil {
		panic("harness: " + err.Error() + " for " + o.desc)
	}
	if l.Mode == "assoc-find" {
		o.msg, o.nt = checkAssocFind(d, g, l)
	} else {
		o.msg, o.nt = checkQuery(d, g, l)
	}
	o.classes = classesOf(g, l)
	return o
}

func classesOf(g *graph, l load) []string {
	f := g.fam
	root := f.m(l.Root)
	set := map[string]bool{"keys:" + f.keys: true, "root:" + strings.TrimPrefix(l.Root, f.name): true}
	shape := "shape:" + l.Shape
	set[shape] = true
	if l.Dup {
		set["shape:duplicate-parents"] = true
		if l.DupByTag > 0 {
			set["shape:duplicate-parents-unevenly"] = true
		} else if l.DupOne {
			set[fmt.Sprintf("shape:one-parent-x%d-others-once", l.copies())] = true
		} else {
			set[fmt.Sprintf("shape:duplicate-parents-x%d", l.copies())] = true
		}
	}
	if l.Reload {
		set["shape:reload-same-struct"] = true
	}
	if l.Unscoped {
		set["scope:root-unscoped"] = true
		if len(l.Joins) > 0 {
			set["scope:root-unscoped-with-joins"] = true
			for _, p := range l.Preloads {
				if parts := relSegments(p.Path); len(parts) >= 2 && isJoined(l, parts[0]) {
					set["scope:root-unscoped-preload-under-joined"] = true
				}
			}
		}
	}
	if g.crowd {
		set["size:crowded-children"] = true
	}
	if l.Shape == "struct" && l.Mode == "query" {
		fin := l.Finisher
		if fin == "" {
			fin = "take"
		}
		set["finisher:"+fin] = true
	} else if l.Mode == "query" {
		if l.Batch > 0 {
			set["finisher:find-in-batches"] = true
		} else {
			set["finisher:find"] = true
		}
	}
	if l.ArrayExtra > 0 {
		set["shape:array-with-spare-elements"] = true
	}
	if l.CountFirst {
		set["handle:count-derived-first"] = true
	}
	if l.CountChain {
		set["handle:load-continues-from-count"] = true
	}
	if l.Reload && l.Shape != "struct" {
		set["shape:reload-same-slice"] = true
	}
	if len(l.ReloadConds) > 0 || l.ReloadScoped {
		set["shape:reload-with-changed-conditions"] = true
	}
	if l.ShareOn {
		set["handle:one-conditions-handle-two-joins"] = true
	}
	if l.OutStruct {
		set["assoc-find:into-struct"] = true
	}
	if l.QueryFields {
		set["config:query-fields"] = true
	}
	if l.PrepareStmt {
		set["config:prepare-stmt"] = true
	}
	if l.Focus != "" {
		set["focus:"+l.Focus] = true
	}
	if l.Shared {
		set["handle:shared-base-two-derived-queries"] = true
		if nb := l.Pads + len(l.Joins) - 1; l.Dup && nb+1 >= 3 || nb >= 3 {
			set["handle:shared-base-3+-joins"] = true
		}
	}
	kindOf := func(m *model, name string) *rel { return m.rel(name) }
	if l.Mode == "assoc-find" {
		r := root.rel(l.Assoc)
		set["path:assoc-find"] = true
		set["kind:"+r.kind] = true
		set["assoc-find:"+r.kind] = true
		if r.self {
			set["kind:self-referential"] = true
		}
		if l.Cond != nil {
			set["cond:"+l.Cond.Form] = true
		}
	}
	for _, j := range l.Joins {
		r := root.rel(j.Rel)
		p := "path:joins"
		if j.Inner {
			p = "path:inner-joins"
		}
		set[p] = true
		set["kind:"+r.kind] = true
		set[strings.TrimPrefix(p, "path:")+":"+r.kind] = true
		if r.self {
			set["kind:self-referential"] = true
		}
		if j.On != nil {
			set["cond:"+j.On.Form] = true
		}
		if j.Nested != "" {
			r2 := f.m(r.target).rel(j.Nested)
			set["path:joins-nested"] = true
			set["joins-nested:"+r.kind+">"+r2.kind] = true
			set["kind:"+r2.kind] = true
		}
		if j.subset() {
			tm := f.m(r.target)
			keep := j.keeps()
			if len(j.Select) > 0 {
				set["joins-columns:select"] = true
			} else {
				set["joins-columns:omit"] = true
			}
			hasKey := true
			for _, k := range tm.pk {
				hasKey = hasKey && keep(k)
			}
			if !hasKey {
				set["joins-columns:without-key"] = true
			}
			for _, c := range scalarFields(tm) {
				if keep(c) {
					if ft := fieldType(tm, c); nullable(ft) || ft == deletedAtT {
						set["joins-columns:first-column-nullable"] = true
					}
					break
				}
			}
		} else if sf := f.m(r.target).typ.Field(0); sf.Name == "Label" {
			set["joins:first-column-nullable"] = true
		}
	}
	joined := map[string]bool{}
	for _, j := range l.Joins {
		joined[j.Rel] = true
	}
	for _, p := range l.Preloads {
		if p.Cond != nil {
			set["cond:"+p.Cond.Form] = true
			if strings.HasPrefix(p.Cond.Form, "scope-") {
				set["path:preload-scope-func"] = true
			} else {
				set["path:preload-inline-cond"] = true
			}
		}
		if p.Path == clause.Associations {
			set["path:preload-associations"] = true
			for _, r := range root.rels {
				set["kind:"+r.kind] = true
			}
			continue
		}
		parts := relSegments(p.Path)
		if strings.Contains(p.Path, "Extra.") {
			set["path:preload-embedded-name"] = true
		}
		r := kindOf(root, parts[0])
		set["kind:"+r.kind] = true
		if r.self {
			set["kind:self-referential"] = true
		}
		if len(parts) == 1 {
			set["path:preload-single"] = true
			set["preload:"+r.kind] = true
			continue
		}
		r2 := kindOf(f.m(r.target), parts[1])
		set["kind:"+r2.kind] = true
		if len(parts) == 2 {
			set["preload-nested:"+r.kind+">"+r2.kind] = true
		} else {
			set[fmt.Sprintf("path:preload-depth-%d", len(parts))] = true
			repeat, selfSteps := false, 0
			cur := root
			for i, part := range parts {
				rr := cur.rel(part)
				set["kind:"+rr.kind] = true
				if rr.self {
					selfSteps++
				}
				if i > 0 && part == parts[0] {
					repeat = true
				}
				cur = f.m(rr.target)
			}
			if repeat {
				set["preload-deep:first-segment-repeats"] = true
			}
			if selfSteps >= 2 {
				set["preload-deep:self-referential-walked-twice"] = true
			}
			if p.Cond != nil {
				set["preload-deep:with-condition"] = true
			}
		}
		if joined[parts[0]] {
			set["path:preload-under-joined"] = true
		} else {
			set["path:preload-nested"] = true
		}
	}
	// type shapes behind the relations this load touches
	touched := map[string]bool{}
	var walk func(m *model, n *node)
	walk = func(m *model, n *node) {
		for name, k := range n.kids {
			r := m.rel(name)
			touched[m.name+"."+name] = true
			walk(f.m(r.target), k)
		}
	}
	if l.Mode == "assoc-find" {
		touched[l.Root+"."+l.Assoc] = true
	} else {
		walk(root, l.plan(root))
		for _, j := range l.Joins {
			touched[l.Root+"."+j.Rel] = true
			if j.Nested != "" {
				touched[root.rel(j.Rel).target+"."+j.Nested] = true
			}
		}
	}
	for rel, label := range typeShapes {
		if touched[rel] {
			set[label] = true
		}
	}
	// data features
	for _, m := range f.models {
		for _, r := range g.rows[m.name] {
			if !m.isJoin && int64(tagOf(r)) == math.MinInt64 {
				set["data:poison-row-for-abs-condition"] = true
			}
			if isDeleted(m, r) {
				set["data:soft-deleted-row"] = true
				if m.isJoin {
					set["data:soft-deleted-join-row"] = true
				}
			}
			if lf := reflect.Indirect(r).FieldByName("Label"); lf.IsValid() && lf.IsNil() {
				set["data:null-first-column"] = true
			}
			for _, k := range m.fks {
				t := tupleOf(r, k.fields)
				switch {
				case t.allBlank():
					set["data:null-or-blank-fk"] = true
				case t.hasNull():
					set["data:partly-null-fk"] = true
				default:
					if len(g.lookup(f.m(k.target), k.tfields, t)) == 0 {
						set["data:dangling-fk"] = true
					}
				}
			}
			if !m.isJoin && tupleOf(r, m.pk).hostile() {
				set["data:hostile-key"] = true
			}
			if pk := tupleOf(r, m.pk); !m.isJoin && len(pk) > 1 {
				for _, v := range pk {
					if v.zero() {
						set["data:composite-key-with-zero-member"] = true
					}
				}
			}
		}
	}
	out := make([]string, 0, len(set))
	for k := range set {
		out = append(out, k)
	}
	sort.Strings(out)
	return out
}

// typeShapes labels the relations whose key columns have a special type shape.
var typeShapes = map[string]string{
	"AUser.Gifts":   "type:references-non-primary-column",
	"AUser.Clubs":   "type:many2many-references-non-unique-column",
	"AUser.Memos":   "type:polymorphic-with-foreignKey-on-non-primary-column",
	"AUser.Stamp":   "type:polymorphic-with-foreignKey-on-non-primary-column",
	"AGift.Giver":   "type:references-non-primary-column",
	"AUser.Mentor":  "type:relation-in-embedded-struct",
	"AUser.Profile": "type:sql.NullInt64-foreign-key",
	"SPet.Owner":    "type:sql.NullString-foreign-key",
	"SUser.Pets":    "type:sql.NullString-foreign-key",
	"SUser.Langs":   "type:bytes-key+soft-deleting-join-model",
	"SUser.Notes":   "type:polymorphicValue-tag",
	"CUser.Langs":   "type:defined-string-type-key",
}

// ---------------------------------------------------------------- generators

func genCond(rt *rapid.T, label string, forms []string) *cond {
	return &cond{Form: rapid.SampledFrom(forms).Draw(rt, label+".form"), K: rapid.IntRange(0, 3).Draw(rt, label+".k")}
}

// pathTarget walks a preload path and returns the model owning its last
// relation, that relation and the model it loads.
func pathTarget(f *family, root *model, path string) (*model, *rel, *model) {
	cur := root
	var owner *model
	var r *rel
	for _, seg := range relSegments(path) {
		owner, r = cur, cur.rel(seg)
		cur = f.m(r.target)
	}
	return owner, r, cur
}

// genCondFor draws a condition for one relation (model-specific forms allowed).
func genCondFor(rt *rapid.T, label string, forms []string, r *rel, tm *model) *cond {
	c := genCond(rt, label, forms)
	switch c.Form {
	case "inline-pk":
		if len(tm.pk) != 1 || fieldType(tm, tm.pk[0]).Kind() != reflect.Uint {
			c.Form = "inline-expr" // primary-key conditions: models with one integer key
			break
		}
		c.IDs = rapid.SliceOfNDistinct(rapid.SampledFrom(intPool), 1, 4, func(x int64) int64 { return x }).Draw(rt, label+".ids")
		sort.Slice(c.IDs, func(i, j int) bool { return c.IDs[i] < c.IDs[j] })
	case "scope-select":
		// the relation's key columns stay selected (gorm needs them to assign the
		// rows), so do the primary key and Tag; the other columns are drawn
		must := map[string]bool{"Tag": true}
		for _, x := range tm.pk {
			must[x] = true
		}
		for _, x := range r.tgt {
			must[x] = true
		}
		if r.polyField != "" {
			must[r.polyField] = true
		}
		for _, x := range scalarFields(tm) {
			if must[x] || rapid.IntRange(0, 2).Draw(rt, label+".col."+x) == 0 {
				c.Cols = append(c.Cols, x)
			}
		}
	}
	return c
}

var (
	preloadForms = []string{"inline-abs", "scope-abs", "inline-gte", "inline-in", "inline-map", "inline-struct", "inline-expr", "inline-pk", "scope-ne", "scope-gte-order", "scope-unscoped", "scope-select"}
	assocForms   = []string{"inline-abs", "scope-abs", "inline-gte", "inline-in", "inline-map", "inline-expr", "scope-ne", "scope-gte-order", "scope-unscoped"} // model-free forms (clause.Associations)
	inlineForms  = []string{"inline-abs", "inline-gte", "inline-in", "inline-map", "inline-struct", "inline-expr", "inline-pk"}
	onForms      = []string{"on-gte", "on-struct"}
)

func genLoad(rt *rapid.T, f *family, wide bool) load {
	l := load{}
	l.Root = rapid.SampledFrom(append([]string{f.name + "User", f.name + "User", f.name + "User", f.name + "User", f.name + "Company", f.name + "Pet"}, f.extraRoots...)).Draw(rt, "root")
	root := f.m(l.Root)
	l.Mode = rapid.SampledFrom([]string{"query", "query", "query", "assoc-find"}).Draw(rt, "mode")
	if !wide && rapid.IntRange(0, 11).Draw(rt, "focus") == 0 {
		l.Focus, l.Root, l.Mode = "m2m-owner-lists", f.name+"User", "query"
		root = f.m(l.Root)
	}
	l.Shape = rapid.SampledFrom([]string{"slice", "slice", "slice", "ptrslice", "ptrslice", "ptrslice", "struct", "struct", "array", "ptrarray"}).Draw(rt, "shape")
	if l.Shape == "array" {
		l.ArrayExtra = rapid.IntRange(0, 2).Draw(rt, "array-extra")
	}
	if l.Shape != "struct" {
		l.Dup = rapid.IntRange(0, 2).Draw(rt, "dup") == 0
		if l.Dup {
			// 2..7 copies: identity-map entries of 3, 5, 6, 7 records have spare capacity
			l.DupN = rapid.IntRange(2, 7).Draw(rt, "dup.n")
			if l.Mode == "query" {
				switch rapid.SampledFrom([]string{"all", "by-tag", "one", "one", "one"}).Draw(rt, "dup.mode") {
				case "by-tag":
					// uneven duplication: 1,2,3,4 or 1,3,5,7 copies depending on the parent's tag
					l.DupByTag, l.DupN = rapid.IntRange(1, 2).Draw(rt, "dup.by-tag.step"), 0
				case "one":
					l.DupOne = true // one parent (drawn once the rows exist) is repeated, the others are not
				}
			}
		}
		if rapid.IntRange(0, 3).Draw(rt, "filter") == 0 {
			l.MinTag = rapid.IntRange(1, 2).Draw(rt, "min-tag")
		}
	}
	if l.Focus != "" {
		if l.Shape != "slice" && l.Shape != "ptrslice" {
			l.Shape, l.ArrayExtra = "slice", 0
		}
		l.Dup, l.DupOne, l.DupByTag, l.MinTag = true, true, 0, 0
		l.DupN = rapid.SampledFrom([]int{3, 3, 5, 6, 7}).Draw(rt, "focus.copies")
	}
	l.Unscoped = rapid.IntRange(0, 7).Draw(rt, "unscoped") == 0
	l.QueryFields = rapid.IntRange(0, 7).Draw(rt, "query-fields") == 0
	l.PrepareStmt = rapid.IntRange(0, 7).Draw(rt, "prepare-stmt") == 0
	if wide {
		// more than a thousand parents of the user model in one slice
		l.Root, l.Dup, l.DupN, l.DupByTag, l.DupOne, l.MinTag = f.name+"User", false, 0, 0, false, 0
		root = f.m(l.Root)
		if l.Shape == "struct" {
			l.Shape = "slice"
		}
	}
	var names []string
	var toOne []string
	for _, r := range root.rels {
		names = append(names, r.name)
		if r.toOne() {
			toOne = append(toOne, r.name)
		}
	}
	if l.Mode == "assoc-find" {
		if l.Shape == "array" || l.Shape == "ptrarray" {
			l.Shape, l.ArrayExtra = "slice", 0
		}
		l.Assoc = rapid.SampledFrom(names).Draw(rt, "assoc")
		l.OutPtr = rapid.Bool().Draw(rt, "out-ptr")
		l.OutStruct = root.rel(l.Assoc).toOne() && l.Shape == "struct" && rapid.Bool().Draw(rt, "out-struct")
		if rapid.Bool().Draw(rt, "with-cond") {
			ar := root.rel(l.Assoc)
			l.Cond = genCondFor(rt, "cond", inlineForms, ar, f.m(ar.target))
		}
		return l
	}
	if l.Shape == "slice" || l.Shape == "ptrslice" {
		l.Reload = rapid.IntRange(0, 5).Draw(rt, "reload") == 0 // Find into the same slice variable again
	}
	if l.Shape == "struct" {
		l.Reload = rapid.Bool().Draw(rt, "reload")
		l.Finisher = rapid.SampledFrom([]string{"", "first", "last"}).Draw(rt, "finisher")
	}
	used := map[string]bool{}
	// association joins (to-one relations). With a root Unscoped() the rows of
	// the joined tables are all kept live by genGraph (liveModels): whether
	// Unscoped() lifts the soft-delete filter of a JOINED table is not stated
	// (the ON clause keeps it), but what is preloaded BELOW the joined relation is
	// an Unscoped preload like any other and may hold soft-deleted rows.
	if len(toOne) > 0 && rapid.IntRange(0, 9).Draw(rt, "joins") < 4 {
		n := rapid.IntRange(1, 2).Draw(rt, "joins.n")
		for i := 0; i < n && i < len(toOne); i++ {
			name := rapid.SampledFrom(toOne).Draw(rt, "join.rel")
			if used[name] {
				continue
			}
			used[name] = true
			j := joinSpec{Rel: name, Inner: rapid.IntRange(0, 3).Draw(rt, "join.inner") == 0}
			var below []string
			for _, r2 := range f.m(root.rel(name).target).rels {
				if r2.toOne() {
					below = append(below, r2.name)
				}
			}
			if len(below) > 0 && rapid.IntRange(0, 3).Draw(rt, "join.nested") == 0 {
				j.Nested = rapid.SampledFrom(below).Draw(rt, "join.nested.rel") // Joins("Boss.Company")
			} else if rapid.IntRange(0, 2).Draw(rt, "join.on") == 0 {
				j.On = genCond(rt, "join.on", onForms)
			}
			l.Joins = append(l.Joins, j)
		}
		// one conditions handle given to both joins
		if len(l.Joins) == 2 && l.Joins[0].On != nil && l.Joins[0].On.Form == "on-gte" && l.Joins[1].Nested == "" && rapid.Bool().Draw(rt, "join.share-on") {
			l.Joins[1].On = &cond{Form: "on-gte", K: l.Joins[0].On.K}
			l.ShareOn = true
		}
	}
	np := rapid.IntRange(0, 3).Draw(rt, "preloads.n")
	if len(l.Joins) == 0 && np == 0 {
		np = 1
	}
	for i := 0; i < np; i++ {
		var p preloadSpec
		switch rapid.SampledFrom([]string{"single", "single", "single", "nested", "nested", "deep", "deep", "assoc"}).Draw(rt, "preload.kind") {
		case "single":
			p.Path = rapid.SampledFrom(names).Draw(rt, "preload.rel")
		case "nested":
			p.Path = rapid.SampledFrom(f.nested[l.Root]).Draw(rt, "preload.path")
		case "deep":
			// a walk of 3 or 4 relations; a self-referential relation is often
			// walked again ("Boss.Boss.Pets", "Team.Team.Team", "Boss.Team.Pets")
			depth := rapid.IntRange(3, 4).Draw(rt, "preload.depth")
			cur := root
			var segs []string
			for len(segs) < depth && len(cur.rels) > 0 {
				var again []string
				for _, r := range cur.rels {
					if r.self {
						again = append(again, r.name)
					}
				}
				var name string
				if len(segs) < depth-1 && len(again) > 0 && rapid.IntRange(0, 2).Draw(rt, "preload.walk-self") > 0 {
					if n := len(segs); n > 0 && cur.rel(segs[n-1]) != nil && cur.rel(segs[n-1]).self && rapid.Bool().Draw(rt, "preload.repeat") {
						name = segs[n-1]
					} else {
						name = rapid.SampledFrom(again).Draw(rt, "preload.self")
					}
				} else {
					name = cur.rels[rapid.IntRange(0, len(cur.rels)-1).Draw(rt, "preload.step")].name
				}
				segs = append(segs, name)
				cur = f.m(cur.rel(name).target)
			}
			p.Path = strings.Join(segs, ".")
		default:
			p.Path = clause.Associations
		}
		if norm := strings.Join(relSegments(p.Path), "."); used[norm] || isJoined(l, norm) {
			continue // named twice, or a joined relation (Joins fills it; Preload of it is skipped by gorm)
		} else {
			used[norm] = true
		}
		if rapid.IntRange(0, 9).Draw(rt, "preload.with-cond") < 4 {
			if p.Path == clause.Associations {
				p.Cond = genCond(rt, "preload.cond", assocForms)
			} else {
				_, pr, ptm := pathTarget(f, root, p.Path)
				p.Cond = genCondFor(rt, "preload.cond", preloadForms, pr, ptm)
			}
		}
		l.Preloads = append(l.Preloads, p)
	}
	// one parent repeated and the others not: mostly together with a many-to-many
	// relation (several owners share far rows; the hop through the join rows
	// builds owner lists of different lengths)
	if l.Dup && l.DupOne && (l.Focus != "" || rapid.Bool().Draw(rt, "dup.one.m2m")) {
		var m2m []string
		for _, r := range root.rels {
			if r.kind == many2many && !used[r.name] {
				m2m = append(m2m, r.name)
			}
		}
		if len(m2m) > 0 {
			name := rapid.SampledFrom(m2m).Draw(rt, "dup.one.m2m.rel")
			used[name] = true
			l.Preloads = append(l.Preloads, preloadSpec{Path: name})
		}
	}
	if len(l.Joins) == 0 && len(l.Preloads) == 0 {
		l.Preloads = []preloadSpec{{Path: names[0]}}
	}
	// domain: gorm hands the conditions of clause.Associations down to entries
	// nested under a *joined* relation ("Company.Staff" with Joins("Company")),
	// which no documentation states either way - the combination is not generated.
	underJoined := false
	for _, p := range l.Preloads {
		if parts := relSegments(p.Path); len(parts) >= 2 && isJoined(l, parts[0]) {
			underJoined = true
		}
	}
	// a reload that changes what qualifies: other (scope-function) conditions on
	// the same paths, or the root Unscoped() dropped
	if l.Reload && !wide {
		underJ := false
		for _, p := range l.Preloads {
			if parts := relSegments(p.Path); len(parts) >= 2 && isJoined(l, parts[0]) {
				underJ = true
			}
		}
		if rapid.Bool().Draw(rt, "reload.change") {
			for _, p := range l.Preloads {
				rc := reloadCond{}
				if !(p.Path == clause.Associations && underJ) && rapid.IntRange(0, 2).Draw(rt, "reload.cond.set") > 0 {
					rc.Set = true
					if rapid.IntRange(0, 3).Draw(rt, "reload.cond.none") > 0 {
						rc.Cond = genCond(rt, "reload.cond", []string{"scope-ne", "scope-gte-order"})
					}
				}
				l.ReloadConds = append(l.ReloadConds, rc)
			}
		}
		if l.Unscoped && len(l.Joins) == 0 && rapid.Bool().Draw(rt, "reload.scoped") {
			l.ReloadScoped = true
		}
	}
	// the load continues from the value Count returned
	if !l.Shared && rapid.IntRange(0, 5).Draw(rt, "count-chain") == 0 {
		l.CountChain = true
		// listed finding nested-join-from-leftover: Joins("R.S") adds two join
		// clauses for one Statement.Joins entry, AfterQuery trims the FROM clause by
		// the number of entries, so one clause of the Count query stays behind and
		// the load that continues from Count joins R twice.
		for _, j := range l.Joins {
			if j.Nested != "" && harness.OpenClass("C11", "nested-join-from-leftover") {
				l.CountChain = false
				evid.Excluded("nested-join-from-leftover")
				break
			}
		}
	}
	// FindInBatches: pages by the (single) primary key, so no duplicated parents
	if (l.Shape == "slice" || l.Shape == "ptrslice") && len(l.Joins) == 0 && !l.Dup && len(root.pk) == 1 && rapid.IntRange(0, 3).Draw(rt, "batches") == 0 {
		l.Batch = rapid.IntRange(1, 3).Draw(rt, "batch-size")
	}
	// domain: one relation is spelled one way per load. "Extra.Mentor.X" and
	// "Mentor.Y" are two entries to gorm (embedded name vs relation name), the
	// relation is preloaded once per entry and the later load replaces the earlier
	// one with its nested levels - the caller named the same relation twice.
	mentors, spelled := 0, false
	for _, p := range l.Preloads {
		if strings.Contains(p.Path, "Mentor") {
			mentors++
			spelled = spelled || strings.Contains(p.Path, "Extra.")
		}
	}
	if mentors > 1 && spelled {
		for i := range l.Preloads {
			l.Preloads[i].Path = strings.ReplaceAll(l.Preloads[i].Path, "Extra.", "")
		}
		evid.Excluded("domain:embedded-relation-spelled-two-ways")
	}
	// a column subset (scope-select) only on a relation nothing is nested below
	// (nested levels need that level's other key columns)
	for i := range l.Preloads {
		p := &l.Preloads[i]
		if p.Cond == nil || p.Cond.Form != "scope-select" {
			continue
		}
		mine := strings.Join(relSegments(p.Path), ".")
		for _, q := range l.Preloads {
			if strings.HasPrefix(strings.Join(relSegments(q.Path), "."), mine+".") {
				p.Cond = &cond{Form: "scope-ne", K: p.Cond.K}
				break
			}
		}
	}
	// shared reusable handle (needs a last association join to add on top of it)
	if len(l.Joins) > 0 && rapid.IntRange(0, 2).Draw(rt, "shared") == 0 {
		l.Shared, l.Reload, l.ShareOn, l.ReloadConds, l.ReloadScoped = true, false, false, nil, false
		l.CountChain = false
		l.CountFirst = rapid.Bool().Draw(rt, "shared.count-first")
		l.Pads = rapid.IntRange(0, 3).Draw(rt, "shared.pads")
		var free []string
		for _, n := range toOne {
			if !isJoined(l, n) && !used[n] {
				free = append(free, n)
			}
		}
		if len(free) > 0 && rapid.Bool().Draw(rt, "shared.sibling-rel") {
			sib := joinSpec{Rel: rapid.SampledFrom(free).Draw(rt, "shared.sibling"), Inner: rapid.IntRange(0, 3).Draw(rt, "shared.sibling.inner") == 0}
			under := false
			for _, p := range l.Preloads {
				if np := strings.Join(relSegments(p.Path), "."); strings.HasPrefix(np, sib.Rel+".") || np == sib.Rel {
					under = true // the sibling would turn a preloaded relation into a joined one
				}
			}
			if !under {
				l.Sibling = &sib
			}
		}
	}
	// column subsets of joined relations (db.Select / db.Omit on the conditions
	// handle); not for a joined relation that carries nested preloads (those need
	// the joined record's key columns)
	for ji := range l.Joins {
		j := &l.Joins[ji]
		carrier := false
		for _, p := range l.Preloads {
			if strings.HasPrefix(strings.Join(relSegments(p.Path), "."), j.Rel+".") {
				carrier = true
			}
		}
		if carrier || j.Nested != "" || l.ShareOn || rapid.IntRange(0, 1).Draw(rt, "join.subset") == 0 {
			continue
		}
		var others []string
		for _, c := range scalarFields(f.m(root.rel(j.Rel).target)) {
			if c != "Tag" {
				others = append(others, c)
			}
		}
		pick := rapid.SliceOfNDistinct(rapid.SampledFrom(others), 1, len(others), func(s string) string { return s }).Draw(rt, "join.cols")
		sort.Strings(pick)
		if rapid.Bool().Draw(rt, "join.cols.omit") {
			if len(pick) == len(others) {
				pick = pick[1:] // an Omit of everything but Tag is fine, but keep some variety
			}
			if len(pick) == 0 {
				continue
			}
			j.Omit = pick
		} else {
			j.Select = append(pick, "Tag")
		}
		j.DBNames = rapid.Bool().Draw(rt, "join.cols.db-names")
	}
	// listed finding assoc-inline-conds-concat: an inline condition on
	// clause.Associations and another inline condition on a named relation are
	// concatenated by gorm into one argument list (append(preloads[name],
	// associationsConds...)): the second condition's text becomes a surplus
	// argument of the first and is silently dropped. Scope functions compose, so
	// only the inline+inline pair is excluded while the class is open.
	assocInline := false
	for _, p := range l.Preloads {
		if p.Path == clause.Associations && p.Cond != nil && strings.HasPrefix(p.Cond.Form, "inline-") {
			assocInline = true
		}
	}
	for i := range l.Preloads {
		p := &l.Preloads[i]
		if assocInline && p.Path != clause.Associations && len(relSegments(p.Path)) == 1 && p.Cond != nil && strings.HasPrefix(p.Cond.Form, "inline-") &&
			harness.OpenClass("C11", "assoc-inline-conds-concat") {
			p.Cond = nil
			evid.Excluded("assoc-inline-conds-concat")
		}
	}
	for i := range l.Preloads {
		if underJoined && l.Preloads[i].Path == clause.Associations && l.Preloads[i].Cond != nil {
			l.Preloads[i].Cond = nil
			evid.Excluded("domain:associations-cond-with-preload-under-joined")
		}
	}
	return l
}

func isJoined(l load, name string) bool {
	for _, j := range l.Joins {
		if j.Rel == name || (j.Nested != "" && j.Rel+"."+j.Nested == name) {
			return true
		}
	}
	return false
}

// knownClass recognises the listed finding classes that are properties of the
// whole case (the idkey classes are excluded inside genGraph, tuple by tuple).
//
// assocfind-composite-nokey: Association().Find over a relation with a composite
// key when none of the given parents has a key tuple (all NULL / blank):
// ToQueryConditions renders `(c1,c2) IN (NULL)`, which is an SQL error.
func knownClass(g *graph, l load) string {
	if l.Mode == "assoc-find" {
		root := g.fam.m(l.Root)
		r := root.rel(l.Assoc)
		if len(r.own) >= 2 {
			any := false
			for i, p := range g.rows[root.name] {
				if (l.Shape == "struct" && i == l.Pick) || (l.Shape != "struct" && (l.MinTag <= 0 || tagOf(p) >= l.MinTag)) {
					if !tupleOf(p, r.own).allBlank() {
						any = true
					}
				}
			}
			if !any {
				return "assocfind-composite-nokey"
			}
		}
	}
	return ""
}

// TestC11 is the generated check.
func TestC11(t *testing.T) {
	evid.Rule(ruleText)
	rapid.Check(t, func(rt *rapid.T) {
		f := rapid.SampledFrom(families).Draw(rt, "group")
		l := genLoad(rt, f, false)
		g := genGraph(rt, f, l)
		if n := len(g.rows[l.Root]); n == 0 {
			// the root table came out empty (only possible for non-user roots)
			l.Shape, l.Reload, l.Pick = "slice", false, 0
		} else if l.Shape == "struct" {
			l.Pick = rapid.IntRange(0, n-1).Draw(rt, "pick")
		} else if l.Dup && l.DupOne {
			l.DupPick = rapid.IntRange(0, n-1).Draw(rt, "dup-pick")
			if rapid.Bool().Draw(rt, "dup-pick.smallest-key") || l.Focus != "" {
				// the parent the database lists first (its join rows come first too)
				root := f.m(l.Root)
				for i, r := range g.rows[l.Root] {
					if lessTuple(tupleOf(r, root.pk), tupleOf(g.rows[l.Root][l.DupPick], root.pk)) {
						l.DupPick = i
					}
				}
			}
			l.dupRow = g.rows[l.Root][l.DupPick]
		}
		if class := knownClass(g, l); class != "" && harness.OpenClass("C11", class) {
			evid.Excluded(class)
			return
		}
		evid.Journal(g.String() + " load " + l.String())
		o := runCase(g, l)
		evid.Case(o.desc, o.nt, nil, o.classes...)
		if o.msg != "" {
			rt.Fatalf("C11 violated: %s\n  case: %s", o.msg, o.desc)
		}
	})
}

// ---------------------------------------------------------------- wide graphs

// wideKey derives the i-th key tuple of a model: unique per index, typed like
// the model's key columns, without "_" in composite string parts (no idkey class).
func wideKey(m *model, i int) tuple {
	probe := reflect.New(m.typ)
	t := make(tuple, len(m.pk))
	if len(m.pk) == 1 {
		if isStrType(field(probe, m.pk[0]).Type()) {
			t[0] = val{Str: true, S: fmt.Sprintf("k_%d", i)}
		} else {
			t[0] = val{I: int64(i + 1)}
		}
		return t
	}
	a, b := i/50, i%50
	if isStrType(field(probe, m.pk[0]).Type()) {
		t[0] = val{Str: true, S: fmt.Sprintf("u%d", a)}
	} else {
		t[0] = val{I: int64(a + 1)}
	}
	t[1] = val{Str: true, S: fmt.Sprintf("v%d", b)}
	return t
}

// genWide builds a graph with n users (n > 1000: more distinct parent keys than
// fit one batch of any batched child lookup) and a few dozen children whose
// owners are drawn mostly from the users beyond the first thousand.
func genWide(rt *rapid.T, f *family, n int, live map[string]bool) *graph {
	g := &graph{fam: f, rows: map[string][]row{}}
	var sb strings.Builder
	fmt.Fprintf(&sb, "wide group %s users=%d", f.name, n)
	p := f.name
	newRow := func(m *model, i int) row {
		r := reflect.New(m.typ)
		for j, v := range wideKey(m, i) {
			setVal(field(r, m.pk[j]), v)
		}
		field(r, "Tag").SetInt(int64(i % 4))
		if m.soft && i%4 == 3 && !live[m.name] {
			field(r, "DeletedAt").Set(reflect.ValueOf(gorm.DeletedAt{Time: testdb.FixedNow, Valid: true}))
		}
		if lf := reflect.Indirect(r).FieldByName("Label"); lf.IsValid() && i%2 == 1 {
			setVal(lf, val{Str: true, S: "x"})
		}
		for _, fn := range m.alt {
			if i%9 != 0 || m.altNonEmpty { // a referenced non-key column: shared by pairs of rows, "" now and then
				setVal(field(r, fn), val{Str: true, S: fmt.Sprintf("n%d", i/2)})
			}
		}
		g.rows[m.name] = append(g.rows[m.name], r)
		return r
	}
	setFK := func(r row, fields []string, src row, tfields []string) {
		if tupleOf(src, tfields).allBlank() {
			return // the referenced column of that row is empty
		}
		for j, v := range tupleOf(src, tfields) {
			setVal(field(r, fields[j]), v)
		}
	}
	pickUser := func(label string) int {
		if rapid.Bool().Draw(rt, label+".tail") {
			return rapid.IntRange(1000, n-1).Draw(rt, label)
		}
		return rapid.IntRange(0, n-1).Draw(rt, label)
	}
	um, cm := f.m(p+"User"), f.m(p+"Company")
	for i := 0; i < 3; i++ {
		newRow(cm, i)
	}
	mult := rapid.SampledFrom([]int{1, 7, 13}).Draw(rt, "boss.mult")
	off := rapid.IntRange(1, 50).Draw(rt, "boss.off")
	fmt.Fprintf(&sb, " boss(i)=(i*%d+%d)%%n unless i%%5==0, company(i)=i%%4", mult, off)
	for i := 0; i < n; i++ {
		newRow(um, i)
	}
	for i, u := range g.rows[um.name] {
		for _, k := range um.fks {
			switch {
			case k.target == um.name && i%5 != 0:
				setFK(u, k.fields, g.rows[um.name][(i*mult+off)%n], k.tfields)
			case k.target == cm.name && i%4 < 3:
				setFK(u, k.fields, g.rows[cm.name][i%4], k.tfields)
			}
		}
	}
	for _, m := range f.models {
		if m == um || m == cm {
			continue
		}
		cnt := rapid.IntRange(m.minRows, 12*m.maxRows).Draw(rt, m.name+".n")
		if len(m.fks) == 0 && m.poly == nil {
			cnt = 3 // languages
		}
		fmt.Fprintf(&sb, " %s[", strings.TrimPrefix(m.name, p))
		seen := map[string]bool{}
		for i := 0; i < cnt; i++ {
			r := reflect.New(m.typ)
			if !m.isJoin {
				r = newRow(m, i)
			}
			for ki, k := range m.fks {
				rows := g.rows[k.target]
				if len(rows) == 0 {
					continue
				}
				var idx int
				if k.target == um.name {
					idx = pickUser(fmt.Sprintf("%s[%d].%d", m.name, i, ki))
				} else {
					idx = rapid.IntRange(0, len(rows)-1).Draw(rt, fmt.Sprintf("%s[%d].%d", m.name, i, ki))
				}
				setFK(r, k.fields, rows[idx], k.tfields)
				fmt.Fprintf(&sb, "%d", idx)
				if ki < len(m.fks)-1 {
					sb.WriteByte('>')
				}
			}
			if pr := m.poly; pr != nil {
				hasCompany := false
				for _, o := range pr.owners {
					hasCompany = hasCompany || o == cm.name
				}
				if hasCompany && rapid.IntRange(0, 3).Draw(rt, "poly.company") == 0 {
					idx := rapid.IntRange(0, 2).Draw(rt, "poly.company.idx")
					setFK(r, []string{pr.idField}, g.rows[cm.name][idx], cm.pk)
					field(r, pr.typeField).SetString(cm.table)
					fmt.Fprintf(&sb, "c%d", idx)
				} else {
					idx := pickUser(fmt.Sprintf("%s[%d].owner", m.name, i))
					ukey := um.pk
					if k, ok := pr.keys[um.name]; ok {
						ukey = k
					}
					setFK(r, []string{pr.idField}, g.rows[um.name][idx], ukey)
					field(r, pr.typeField).SetString(um.table)
					fmt.Fprintf(&sb, "%d", idx)
				}
			}
			sb.WriteByte(' ')
			if m.isJoin {
				if k := tupleOf(r, m.pk).String(); !seen[k] {
					seen[k] = true
					g.rows[m.name] = append(g.rows[m.name], r)
				}
			}
		}
		sb.WriteString("]")
	}
	g.desc = sb.String()
	return g
}

// TestC11Wide: the same loads over graphs with more than a thousand parents.
func TestC11Wide(t *testing.T) {
	evid.Rule(ruleText + " | wide: 1001-1300 users (thorough: up to 2300) with index-derived keys, a few dozen children owned mostly by users beyond the first thousand, loaded as one slice")
	rapid.Check(t, func(rt *rapid.T) {
		f := rapid.SampledFrom(families).Draw(rt, "group")
		max := 1300
		if harness.Thorough() {
			max = 2300
		}
		n := rapid.IntRange(1001, max).Draw(rt, "users")
		l := genLoad(rt, f, true)
		g := genWide(rt, f, n, l.liveModels(f))
		if class := knownClass(g, l); class != "" && harness.OpenClass("C11", class) {
			evid.Excluded(class)
			return
		}
		evid.Journal(g.String() + " load " + l.String())
		o := runCase(g, l)
		evid.Case(o.desc, o.nt, nil, append(o.classes, "wide:more-than-1000-parents")...)
		if o.msg != "" {
			rt.Fatalf("C11 violated: %s\n  case: %s", o.msg, o.desc)
		}
	})
}

// ---------------------------------------------------------------- witnesses of listed findings

func famByName(n string) *family {
	for _, f := range families {
		if f.name == n {
			return f
		}
	}
	panic("harness: no group " + n)
}

// graphOf builds a data graph from literal rows (pointers to model structs).
func graphOf(f *family, rows ...interface{}) *graph {
	g := &graph{fam: f, rows: map[string][]row{}}
	for _, r := range rows {
		rv := reflect.ValueOf(r)
		g.rows[rv.Elem().Type().Name()] = append(g.rows[rv.Elem().Type().Name()], rv)
	}
	return g
}

func sp(s string) *string { return &s }
func ip(i int) *int       { return &i }

func witness(t *testing.T, g *graph, loads ...load) {
	t.Helper()
	for _, l := range loads {
		func() {
			defer func() {
				if p := recover(); p != nil {
					t.Errorf("C11 violated: the load panicked: %v\n  case: %s load %s", p, g, l)
				}
			}()
			if o := runCase(g, l); o.msg != "" {
				t.Errorf("C11 violated: %s\n  case: %s", o.msg, o.desc)
			}
		}()
	}
}

// parents ("a_b","c") and ("a","b_c"), one pet each: both keys are "a_b_c" to
// the identity map, so both pets land on both parents / the second parent's pet
// is never queried.
func TestC11WitnessIDKeyCollision(t *testing.T) {
	g := graphOf(famByName("D"),
		&DUser{K1: "a_b", K2: "c"}, &DUser{K1: "a", K2: "b_c"},
		&DPet{K1: "p1", K2: "x", UserK1: "a_b", UserK2: "c"}, &DPet{K1: "p2", K2: "x", UserK1: "a", UserK2: "b_c"})
	witness(t, g,
		load{Mode: "query", Root: "DUser", Shape: "slice", Preloads: []preloadSpec{{Path: "Pets"}}},
		load{Mode: "assoc-find", Root: "DUser", Shape: "slice", Assoc: "Pets"})
}

// users with company keys (NULL,"x") and ("nil","x"): the NULL part is rendered
// as the text "nil", so the two foreign keys share one identity-map entry.
func TestC11WitnessIDKeyNilCollision(t *testing.T) {
	for _, order := range [][2]int{{0, 1}, {1, 0}} {
		us := []*DUser{{K1: "u1", K2: "a", CoK1: nil, CoK2: sp("x")}, {K1: "u2", K2: "a", CoK1: sp("nil"), CoK2: sp("x")}}
		// SQLite returns rows in key order; name the users so that both orders occur
		us[order[0]].K1, us[order[1]].K1 = "u1", "u2"
		g := graphOf(famByName("D"), us[0], us[1], &DCompany{K1: "nil", K2: "x"})
		witness(t, g, load{Mode: "query", Root: "DUser", Shape: "slice", Preloads: []preloadSpec{{Path: "Company"}}})
	}
	// the same with the zero value of a defined string type (CodeT ""), which
	// ToStringKey's `case string` does not catch: languages (4,"") and (4,"nil")
	g := graphOf(famByName("C"), &CUser{Org: 1, Code: "a"}, &CUser{Org: 1, Code: "b"},
		&CLang{Org: 4, Code: ""}, &CLang{Org: 4, Code: "nil"},
		&CUserLang{UserOrg: 1, UserCode: "a", LangOrg: 4, LangCode: ""}, &CUserLang{UserOrg: 1, UserCode: "b", LangOrg: 4, LangCode: "nil"})
	witness(t, g, load{Mode: "query", Root: "CUser", Shape: "slice", Preloads: []preloadSpec{{Path: "Langs"}}})
}

// Association("Boss").Find on a composite-key belongs-to whose parent has no
// boss: `(org,code) IN (NULL)` is an SQL error instead of an empty result.
func TestC11WitnessAssocFindCompositeNoKey(t *testing.T) {
	g := graphOf(famByName("C"), &CUser{Org: 1, Code: "a"})
	witness(t, g, load{Mode: "assoc-find", Root: "CUser", Shape: "slice", Assoc: "Boss"},
		load{Mode: "assoc-find", Root: "CUser", Shape: "struct", Assoc: "Company"})
}

// Preload("Boss", "tag >= ?", 0) together with Preload(clause.Associations,
// "tag >= ?", 1): both conditions are given for Boss, gorm applies only the first.
func TestC11WitnessAssocInlineCondsConcat(t *testing.T) {
	two := uint(2)
	g := graphOf(famByName("A"), &AUser{ID: 1, Tag: 2, BossID: &two}, &AUser{ID: 2, Tag: 0})
	witness(t, g, load{Mode: "query", Root: "AUser", Shape: "slice", Preloads: []preloadSpec{
		{Path: "Boss", Cond: &cond{Form: "inline-gte", K: 0}},
		{Path: clause.Associations, Cond: &cond{Form: "inline-gte", K: 1}},
	}})
}

// Regression witness of the fixed finding assoc-embedded-dup (93c08b1; passes now).
// Preload(clause.Associations, "tag >= ?", 0) on a model with a relation inside
// an embedded struct (AUser.Extra.Mentor), through a prepared-statement session:
// the condition's arguments reach the Mentor query twice.
func TestC11WitnessAssocEmbeddedDup(t *testing.T) {
	one := uint(1)
	g := graphOf(famByName("A"), &AUser{ID: 1, Tag: 1, Extra: AExtra{MentorID: &one}}, &APet{ID: 1, UserID: &one})
	witness(t, g, load{Mode: "query", Root: "AUser", Shape: "slice", Preloads: []preloadSpec{
		{Path: "Extra.Mentor.Pets"}, {Path: clause.Associations},
	}}, load{Mode: "query", Root: "AUser", Shape: "slice", PrepareStmt: true, Preloads: []preloadSpec{
		{Path: clause.Associations, Cond: &cond{Form: "inline-gte", K: 0}},
	}}, load{Mode: "query", Root: "AUser", Shape: "slice", Preloads: []preloadSpec{
		{Path: clause.Associations, Cond: &cond{Form: "inline-in", K: 0}},
	}})
}

// Regression witness of the fixed finding nested-join-preload-nil-struct (8aa05e9).
// First(&user) with Joins("Boss.Boss") and Preload("Boss.Boss.Team") for a user
// without a boss: the joined Boss is a nil pointer, preloadEntryPoint descends
// into it for the nested joined relation and dereferences it (reflect panic).
// A slice destination skips nil joined records; the struct branch does not.
func TestC11WitnessNestedJoinPreloadNilStruct(t *testing.T) {
	g := graphOf(famByName("A"), &AUser{ID: 1}, &AUser{ID: 2})
	witness(t, g, load{Mode: "query", Root: "AUser", Shape: "struct", Pick: 0,
		Joins:    []joinSpec{{Rel: "Boss", Nested: "Boss"}},
		Preloads: []preloadSpec{{Path: "Boss.Boss.Team"}}})
}

// h.Joins("Boss.Boss").Count(&n).Find(&users): the Count query leaves one of the two
// join clauses of the nested join in the FROM clause; the Find that continues
// from it joins again: "ambiguous column name" or every row twice.
func TestC11WitnessNestedJoinFromLeftover(t *testing.T) {
	one := uint(1)
	g := graphOf(famByName("A"), &AUser{ID: 1, BossID: &one})
	witness(t, g, load{Mode: "query", Root: "AUser", Shape: "slice", CountChain: true,
		Joins: []joinSpec{{Rel: "Boss", Nested: "Boss"}}},
		load{Mode: "query", Root: "AUser", Shape: "slice", CountChain: true,
			Joins: []joinSpec{{Rel: "Boss", Nested: "Boss", Inner: true}}, Preloads: []preloadSpec{{Path: "Team"}}})
}

// a parent with composite key (0,"x") and a pet whose foreign key is (*int -> 0,
// "x"): the parent's int 0 is rendered "nil", the child's *int 0 "0", the child
// is not found in the identity map and the whole Preload fails with "failed to
// assign association". (Profile, whose foreign key parts are plain ints, loads.)
func TestC11WitnessIDKeyZeroPart(t *testing.T) {
	g := graphOf(famByName("C"), &CUser{Org: 0, Code: "x"}, &CUser{Org: 1, Code: "x"},
		&CPet{ID: 1, UserOrg: ip(0), UserCode: sp("x")}, &CPet{ID: 2, UserOrg: ip(1), UserCode: sp("x")},
		&CProfile{ID: 1, UserOrg: 0, UserCode: "x"})
	witness(t, g, load{Mode: "query", Root: "CUser", Shape: "slice", Preloads: []preloadSpec{{Path: "Profile"}}})
	witness(t, g, load{Mode: "query", Root: "CUser", Shape: "slice", Preloads: []preloadSpec{{Path: "Pets"}}})
}
