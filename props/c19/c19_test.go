package c19

import (
	"errors"
	"fmt"
	"testing"
	"time"

	"gorm.io/gorm"
	"pgregory.net/rapid"

	"verif/internal/chains"
	"verif/internal/evid"
	"verif/internal/harness"
	"verif/internal/recdrv"
	"verif/internal/testdb"
)

func TestMain(m *testing.M) { harness.Main(m) }

const rule = "C19: the chains of C01 (internal/chains: reads, writes, upserts, soft deletes, raw SQL; records without nested association values) are run twice from two identically prepared SQLite databases behind the recording driver: once dry (Session{DryRun:true}, Config{DryRun:true} or db.ToSQL; with and without PrepareStmt), once for real; NowFunc is fixed. non-trivial = a write finisher or at least 2 bound values; distinct = dry mode + canonical rendering of chain and values"

func fixedNow() time.Time { return testdb.FixedNow }

type sample struct {
	Mode  string `json:"mode"`
	Chain string `json:"chain"`
	SQL   string `json:"sql"`
	Vars  string `json:"vars"`
}

func open(c *chains.Chain, dryRun, prepare bool) *testdb.DB {
	d := testdb.Open(testdb.Options{
		Config:      gorm.Config{NowFunc: fixedNow, DryRun: dryRun, PrepareStmt: prepare},
		NoReturning: c.CreatesFromMap(), // see C01: scanning RETURNING rows into []map fails after the statement was sent
	})
	return d
}

// driverCalls keeps the events the property speaks about.
func driverCalls(evs []recdrv.Event) []recdrv.Event {
	var out []recdrv.Event
	for _, e := range evs {
		switch e.Kind {
		case recdrv.Begin, recdrv.Commit, recdrv.Rollback, recdrv.Prepare, recdrv.Exec, recdrv.Query:
			out = append(out, e)
		}
	}
	return out
}

func logOf(evs []recdrv.Event) string {
	s := ""
	for _, e := range evs {
		s += "\n      " + e.String()
	}
	if s == "" {
		return " (empty)"
	}
	return s
}

func check(rt *rapid.T, c *chains.Chain, mode string, prepare bool) {
	desc := mode
	if prepare {
		desc += "+prepare"
	}
	desc += " " + c.String()
	evid.Journal(desc)

	a := open(c, mode == "config", prepare)
	defer a.Close()
	b := open(c, false, prepare)
	defer b.Close()
	for _, d := range []*testdb.DB{a, b} {
		if err := chains.Prepare(d.SQL); err != nil {
			rt.Fatalf("harness: cannot prepare the database: %v", err)
		}
	}

	// ---- dry run on A
	a.Rec.Reset()
	var (
		dryTx  *gorm.DB
		toSQL  string
		dryErr error
	)
	switch mode {
	case "session":
		dryTx = c.Apply(a.Session(&gorm.Session{DryRun: true}))
	case "config":
		dryTx = c.Apply(a.DB)
	default:
		toSQL = a.ToSQL(func(tx *gorm.DB) *gorm.DB {
			dryTx = c.Apply(tx)
			return dryTx
		})
	}
	dryErr = dryTx.Error
	drySQL := dryTx.Statement.SQL.String()
	dryVars := append([]interface{}(nil), dryTx.Statement.Vars...)
	dryNorm := chains.NormAll(dryVars)
	dryLog := driverCalls(a.Rec.Events())

	info := c.Describe(true)
	classes := append(chains.SortedKeys(info.Classes), "dry:"+mode)
	if prepare {
		classes = append(classes, "prepare-stmt")
	}
	nt := c.Write() || len(dryVars) >= 2
	evid.Case(desc, nt, sample{Mode: mode, Chain: c.String(), SQL: drySQL, Vars: chains.Render(dryNorm)}, classes...)

	// ---- real run on B
	b.Rec.Reset()
	realTx := c.Apply(b.DB)
	realLog := driverCalls(b.Rec.Events())
	stmts := b.Rec.Statements()

	fail := func(format string, args ...interface{}) {
		rt.Fatalf("C19 violated: %s\n  case: %s\n  dry statement: %s\n    %s\n  driver log of the dry run:%s\n  driver log of the real run:%s",
			fmt.Sprintf(format, args...), desc, drySQL, chains.Render(dryNorm), logOf(dryLog), logOf(realLog))
	}

	// the dry run sends nothing
	if dryErr != nil && !(c.Fin == "scan" && errors.Is(dryErr, gorm.ErrDryRunModeUnsupported)) {
		fail("the dry run failed: %v", dryErr)
	}
	for _, e := range dryLog {
		switch e.Kind {
		case recdrv.Prepare, recdrv.Exec, recdrv.Query:
			fail("the dry run sent a statement to the driver: %s", e)
		}
	}
	if mode == "tosql" && len(dryLog) > 0 {
		fail("ToSQL made %d driver call(s)", len(dryLog))
	}
	if !c.Write() && len(dryLog) > 0 {
		fail("a dry read made %d driver call(s)", len(dryLog))
	}
	if len(dryLog) > 0 {
		// a write may open and commit an empty implicit transaction, nothing else
		if len(dryLog) != 2 || dryLog[0].Kind != recdrv.Begin || dryLog[1].Kind != recdrv.Commit {
			fail("the dry write did more than open and commit one empty transaction")
		}
	}
	if a.Rec.OpenTx() != 0 {
		fail("the dry run left a transaction open")
	}
	if drySQL == "" {
		fail("the dry run exposes no statement")
	}

	// the real run sends exactly what the dry run showed
	if err := realTx.Error; err != nil && !(c.MayNotFind() && errors.Is(err, gorm.ErrRecordNotFound)) {
		fail("the real run failed: %v", err)
	}
	if len(stmts) == 0 {
		fail("the real run sent no statement")
	}
	first := stmts[0]
	if first.Text != drySQL {
		fail("the real run's main statement differs from the dry run's text:\n    real: %s", first.Text)
	}
	args := make([]interface{}, len(first.Args))
	for i, x := range first.Args {
		args[i] = chains.Norm(x.Value)
	}
	if i := chains.SameAll(dryNorm, args); i >= 0 {
		fail("the real run's arguments differ from the dry run's values at index %d:\n    real: %s", i, chains.Render(args))
	}
	if len(stmts) != 1 {
		fail("the real run sent %d statements where the dry run shows one", len(stmts))
	}
	if mode == "tosql" {
		if want := a.Dialector.Explain(first.Text, dryVars...); toSQL != want {
			fail("ToSQL returned %q, Explain of the executed statement is %q", toSQL, want)
		}
	}
}

func TestC19(t *testing.T) {
	evid.Rule(rule)
	rapid.Check(t, func(rt *rapid.T) {
		cfg := chains.Config{Exec: true, Big: harness.Thorough(), Excluded: evid.Excluded}
		if harness.OpenClass("C01", chains.ClassRescanBytes) {
			// listed finding of C01: gorm expands a []byte per byte when it re-scans a rendered
			// fragment; the resulting statement can be invalid SQL ("row value misused"), identically
			// in the dry and in the real run. Not a C19 subject; skipped while C01 lists it as open.
			cfg.Skip = map[string]bool{chains.ClassRescanBytes: true}
		}
		c := chains.Gen(rt, cfg)
		mode := rapid.SampledFrom([]string{"session", "config", "tosql"}).Draw(rt, "mode")
		prepare := rapid.IntRange(0, 4).Draw(rt, "prepare") == 4
		check(rt, c, mode, prepare)
	})
}
