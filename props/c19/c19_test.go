package c19

import (
	"errors"
	"fmt"
	"io"
	"log"
	"sort"
	"strings"
	"testing"
	"time"

	"gorm.io/gorm"
	"gorm.io/gorm/logger"
	"pgregory.net/rapid"

	"verif/internal/chains"
	"verif/internal/evid"
	"verif/internal/harness"
	"verif/internal/recdrv"
	"verif/internal/testdb"
)

func TestMain(m *testing.M) { harness.Main(m) }

const rule = "C19: the chains of C01 (internal/chains: reads, writes, upserts, soft deletes, raw SQL; records without nested association values) are run twice from two identically prepared SQLite databases behind the recording driver: once dry (Session{DryRun:true}, Config{DryRun:true} or db.ToSQL; with and without PrepareStmt and SkipDefaultTransaction, from the root handle or from a reusable handle db.Where(p).Session(&Session{}) that already carries a condition; including batched creates, Save, FirstOrInit/FirstOrCreate, updates under Session{SkipHooks} and models with integer auto-time columns), once for real; NowFunc is fixed. non-trivial = a write finisher or at least 2 bound values; distinct = dry mode + canonical rendering of chain and values"

func fixedNow() time.Time { return testdb.FixedNow }

type sample struct {
	Mode  string `json:"mode"`
	Chain string `json:"chain"`
	SQL   string `json:"sql"`
	Vars  string `json:"vars"`
}

// variation of the handle configuration and of where the operation runs
type variation struct {
	// logger: "" = logger.Discard, else the stock logger (writing nowhere) at level silent / warn / info,
	// "+pq" = with ParameterizedQueries (it then filters the parameters it is asked to explain);
	// debug = the operation starts with db.Debug(). None of this may change what is exposed or sent.
	logger                string
	debug                 bool
	prepare, skipTx       bool
	noReturning, noNested bool
	queryFields, inTx     bool
}

func stockLogger(kind string) logger.Interface {
	if kind == "" {
		return nil // testdb uses logger.Discard
	}
	level := map[string]logger.LogLevel{"silent": logger.Silent, "warn": logger.Warn, "info": logger.Info}[strings.TrimSuffix(kind, "+pq")]
	return logger.New(log.New(io.Discard, "", 0), logger.Config{LogLevel: level, ParameterizedQueries: strings.HasSuffix(kind, "+pq")})
}

func open(c *chains.Chain, dryRun bool, v variation) *testdb.DB {
	d := testdb.Open(testdb.Options{
		Config: gorm.Config{NowFunc: fixedNow, Logger: stockLogger(v.logger), DryRun: dryRun, PrepareStmt: v.prepare, SkipDefaultTransaction: v.skipTx,
			CreateBatchSize: c.ConfigBatchSize(), QueryFields: v.queryFields, DisableNestedTransaction: v.noNested},
		NoReturning: v.noReturning && !c.Returning,
	})
	return d
}

// isSavepoint: transaction control sent as text (nested transactions use save points).
func isSavepoint(text string) bool {
	return strings.HasPrefix(text, "SAVEPOINT ") || strings.HasPrefix(text, "ROLLBACK TO ") || strings.HasPrefix(text, "RELEASE ")
}

type built struct {
	sql  string
	vars []interface{}
}

// driverCalls keeps the events the property speaks about.
func driverCalls(evs []recdrv.Event) []recdrv.Event {
	var out []recdrv.Event
	for _, e := range evs {
		switch e.Kind {
		case recdrv.Begin, recdrv.Commit, recdrv.Rollback, recdrv.Prepare, recdrv.Exec, recdrv.Query:
			out = append(out, e)
		}
	}
	return out
}

func logOf(evs []recdrv.Event) string {
	s := ""
	for _, e := range evs {
		s += "\n      " + e.String()
	}
	if s == "" {
		return " (empty)"
	}
	return s
}

func check(rt *rapid.T, c *chains.Chain, p *chains.Cond, mode string, v variation) {
	prepare, skipTx := v.prepare, v.skipTx
	desc := mode
	if v.inTx {
		desc += "+intx"
	}
	if v.logger != "" {
		desc += "+log:" + v.logger
	}
	if v.debug {
		desc += "+debug"
	}
	if prepare {
		desc += "+prepare"
	}
	if skipTx {
		desc += "+skiptx"
	}
	if p != nil {
		// the operation starts from a reusable handle that already carries a condition
		desc += " h=db.Where(" + p.U.String() + ").Session()"
	}
	desc += " " + c.String()
	evid.Journal(desc)

	a := open(c, mode == "config", v)
	defer a.Close()
	b := open(c, false, v)
	defer b.Close()
	for _, d := range []*testdb.DB{a, b} {
		if err := chains.Prepare(d.SQL); err != nil {
			rt.Fatalf("harness: cannot prepare the database: %v", err)
		}
	}
	// A batched create runs every batch on a statement of its own and the handle it returns
	// exposes none of them: the statements a dry run builds are observed right after the
	// executing callback of the Create pipeline instead.
	var caps []built
	capFn := func(tx *gorm.DB) {
		if tx.DryRun {
			caps = append(caps, built{sql: tx.Statement.SQL.String(), vars: append([]interface{}(nil), tx.Statement.Vars...)})
		}
	}
	for _, err := range []error{
		a.Callback().Create().Before("gorm:save_after_associations").Register("verif:capture", capFn),
		a.Callback().Query().After("gorm:query").Register("verif:capture", capFn),
		a.Callback().Row().After("gorm:row").Register("verif:capture", capFn),
	} {
		if err != nil {
			rt.Fatalf("harness: %v", err)
		}
	}
	// inBlock runs fn inside an explicit Transaction block of db when the variation asks for it
	inBlock := func(db *gorm.DB, fn func(tx *gorm.DB)) {
		if !v.inTx {
			fn(db)
			return
		}
		if err := db.Transaction(func(tx *gorm.DB) error { fn(tx); return nil }); err != nil {
			rt.Fatalf("C19 violated: the transaction block failed: %v\n  case: %s", err, desc)
		}
	}
	plan := c.WithPrefix(p).Plan(chains.Mode{LiteralLimit: true, Now: fixedNow()})
	handle := func(db *gorm.DB) *gorm.DB {
		if v.debug {
			db = db.Debug()
		}
		if p == nil {
			return db
		}
		return chains.ApplyPrefix(db, p).Session(&gorm.Session{})
	}

	// ---- dry run on A
	a.Rec.Reset()
	var (
		dryTx *gorm.DB
		toSQL string
	)
	switch mode {
	case "session":
		inBlock(a.Session(&gorm.Session{DryRun: true, SkipDefaultTransaction: skipTx}), func(tx *gorm.DB) {
			dryTx = c.ApplyFrom(handle(tx), a.Session(&gorm.Session{DryRun: true}))
		})
	case "config":
		inBlock(a.DB, func(tx *gorm.DB) { dryTx = c.ApplyFrom(handle(tx), a.DB) })
	default:
		inBlock(a.DB, func(outer *gorm.DB) {
			toSQL = handle(outer).ToSQL(func(tx *gorm.DB) *gorm.DB {
				root := tx
				if p != nil || v.inTx {
					root = a.DB // nested pieces (sub-queries, groups) start from a clean handle
				}
				dryTx = c.ApplyFrom(tx, root)
				return dryTx
			})
		})
	}
	dryErr := dryTx.Error
	exposed := built{sql: dryTx.Statement.SQL.String(), vars: append([]interface{}(nil), dryTx.Statement.Vars...)}
	dry := []built{exposed}
	dryAt := plan.DryAt[len(plan.DryAt)-1:]
	if plan.Hidden {
		// statements built on handles the caller never sees: the last ones the pipelines built
		// (nested sub-queries are rendered before their outer statement)
		if len(caps) > len(plan.DryAt) {
			caps = caps[len(caps)-len(plan.DryAt):]
		}
		dry, dryAt = caps, plan.DryAt
	}
	dryLog := driverCalls(a.Rec.Events())

	info := c.Describe(true)
	classes := append(chains.SortedKeys(info.Classes), "dry:"+mode)
	if prepare {
		classes = append(classes, "prepare-stmt")
	}
	if skipTx {
		classes = append(classes, "skip-default-transaction")
	}
	if v.logger != "" {
		classes = append(classes, "logger:"+v.logger)
	}
	for name, on := range map[string]bool{"debug()": v.debug, "config:no-returning": v.noReturning, "config:query-fields": v.queryFields, "config:no-nested-tx": v.noNested, "in-transaction": v.inTx} {
		if on {
			classes = append(classes, name)
		}
	}
	sort.Strings(classes)
	if p != nil {
		classes = append(classes, "stateful-handle")
	}
	nVars := 0
	smp := sample{Mode: mode, Chain: c.String()}
	for i, st := range dry {
		nVars += len(st.vars)
		if i == 0 {
			smp.SQL, smp.Vars = st.sql, chains.Render(chains.NormAll(st.vars))
		}
	}
	nt := c.Write() || nVars >= 2
	evid.Case(desc, nt, smp, classes...)

	// ---- real run on B
	b.Rec.Reset()
	var realTx *gorm.DB
	inBlock(b.DB, func(tx *gorm.DB) { realTx = c.ApplyFrom(handle(tx), b.DB) })
	realLog := driverCalls(b.Rec.Events())
	var stmts []recdrv.Event
	for _, e := range b.Rec.Statements() {
		if !isSavepoint(e.Text) {
			stmts = append(stmts, e)
		}
	}

	fail := func(format string, args ...interface{}) {
		shown := ""
		for _, st := range dry {
			shown += "\n      " + st.sql + "\n        " + chains.Render(chains.NormAll(st.vars))
		}
		rt.Fatalf("C19 violated: %s\n  case: %s\n  dry statement(s):%s\n  driver log of the dry run:%s\n  driver log of the real run:%s",
			fmt.Sprintf(format, args...), desc, shown, logOf(dryLog), logOf(realLog))
	}

	// the dry run sends nothing
	if plan.Refused {
		// outcome of an operation gorm refuses: the same error in both runs, nothing sent in either
		if !errors.Is(dryErr, gorm.ErrMissingWhereClause) {
			fail("the real run refuses this operation (no conditions: ErrMissingWhereClause) and sends nothing, but the dry run reports %v and presents its statement as what would be sent", dryErr)
		}
	} else if dryErr != nil && !((c.Fin == "scan" || c.Fin == "rows") && errors.Is(dryErr, gorm.ErrDryRunModeUnsupported)) {
		fail("the dry run failed: %v", dryErr)
	}
	for _, e := range dryLog {
		switch e.Kind {
		case recdrv.Prepare, recdrv.Exec, recdrv.Query:
			fail("the dry run sent a statement to the driver: %s", e)
		}
	}
	if v.inTx {
		// the caller's own transaction block is the only thing that may reach the driver
		if len(dryLog) != 2 || dryLog[0].Kind != recdrv.Begin || dryLog[1].Kind != recdrv.Commit {
			fail("a dry run inside a Transaction block made driver calls besides the block's BEGIN and COMMIT")
		}
	} else if mode == "tosql" && len(dryLog) > 0 {
		fail("ToSQL made %d driver call(s)", len(dryLog))
	} else if skipTx && len(dryLog) > 0 {
		fail("a dry run with SkipDefaultTransaction made %d driver call(s)", len(dryLog))
	} else if !c.Write() && len(dryLog) > 0 {
		fail("a dry read made %d driver call(s)", len(dryLog))
	}
	if len(dryLog) > 0 {
		// a write may open and commit an empty implicit transaction, nothing else
		closing := recdrv.Commit
		if plan.Refused && !v.inTx {
			closing = recdrv.Rollback // the refused operation ends its implicit transaction by rolling back
		}
		if len(dryLog) != 2 || dryLog[0].Kind != recdrv.Begin || dryLog[1].Kind != closing {
			fail("the dry write did more than open and close one empty transaction")
		}
	}
	if a.Rec.OpenTx() != 0 {
		fail("the dry run left a transaction open")
	}
	if len(dry) != len(dryAt) {
		fail("the dry run built %d statement(s), the operation consists of %d", len(dry), len(dryAt))
	}
	if plan.Hidden && exposed.sql != "" && exposed.sql != dry[len(dry)-1].sql {
		fail("the handle returned by the batched dry run exposes a statement that is none of its batches: %q", exposed.sql)
	}

	if plan.Refused {
		if !errors.Is(realTx.Error, gorm.ErrMissingWhereClause) || len(stmts) != 0 {
			fail("an update/delete without conditions must be refused (ErrMissingWhereClause) and send nothing; the real run returned %v and sent %d statement(s)", realTx.Error, len(stmts))
		}
		return
	}
	// the real run sends exactly what the dry run showed
	if err := realTx.Error; err != nil && !(c.MayNotFind() && errors.Is(err, gorm.ErrRecordNotFound)) {
		fail("the real run failed: %v", err)
	}
	if len(stmts) < len(plan.Real) || (len(stmts) > len(plan.Real)+1 && !plan.ExtraRealMany) || (len(stmts) > len(plan.Real) && !plan.ExtraReal && !plan.ExtraRealMany) {
		fail("the real run sent %d statement(s), the operation consists of %d", len(stmts), len(plan.Real))
	}
	for i, st := range dry {
		if st.sql == "" {
			fail("the dry run exposes no statement")
		}
		real := stmts[dryAt[i]]
		if real.Text != st.sql {
			fail("statement %d of the real run differs from the dry run's text:\n    real: %s", dryAt[i]+1, real.Text)
		}
		args := make([]interface{}, len(real.Args))
		for k, x := range real.Args {
			args[k] = chains.NormArg(x.Name, x.Value)
		}
		if k := chains.SameAll(chains.NormAll(st.vars), args); k >= 0 {
			fail("statement %d of the real run: arguments differ from the dry run's values at index %d:\n    real: %s", dryAt[i]+1, k, chains.Render(args))
		}
	}
	if mode == "tosql" {
		want := ""
		if !plan.Hidden {
			want = a.Dialector.Explain(stmts[dryAt[0]].Text, exposed.vars...)
		} else if exposed.sql != "" {
			want = a.Dialector.Explain(exposed.sql, exposed.vars...)
		}
		if toSQL != want {
			fail("ToSQL returned %q, Explain of the executed statement is %q", toSQL, want)
		}
	}
}

func TestC19(t *testing.T) {
	evid.Rule(rule)
	rapid.Check(t, func(rt *rapid.T) {
		cfg := chains.Config{Exec: true, Big: harness.Thorough(), Excluded: evid.Excluded}
		if harness.OpenClass("C01", chains.ClassRescanBytes) {
			// listed finding of C01: gorm expands a []byte per byte when it re-scans a rendered
			// fragment; the resulting statement can be invalid SQL ("row value misused"), identically
			// in the dry and in the real run. Not a C19 subject; skipped while C01 lists it as open.
			cfg.Skip = map[string]bool{chains.ClassRescanBytes: true}
		}
		c := chains.Gen(rt, cfg)
		mode := rapid.SampledFrom([]string{"session", "config", "tosql"}).Draw(rt, "mode")
		prepare := rapid.IntRange(0, 4).Draw(rt, "prepare") == 4
		skipTx := mode != "tosql" && rapid.Bool().Draw(rt, "skiptx")
		var p *chains.Cond
		if rapid.Bool().Draw(rt, "stateful") {
			p = chains.GenPrefix(rt, cfg, c)
		}
		v := variation{prepare: prepare, skipTx: skipTx,
			noReturning: rapid.IntRange(0, 3).Draw(rt, "noreturning") == 0,
			queryFields: rapid.IntRange(0, 4).Draw(rt, "queryfields") == 0,
			noNested:    rapid.Bool().Draw(rt, "nonested"),
			inTx:        rapid.IntRange(0, 3).Draw(rt, "intx") == 0,
			logger:      rapid.SampledFrom([]string{"", "", "silent", "warn", "info", "silent+pq", "warn+pq", "info+pq", "info+pq"}).Draw(rt, "logger"),
			debug:       rapid.IntRange(0, 3).Draw(rt, "debug") == 0}
		check(rt, c, p, mode, v)
	})
}
