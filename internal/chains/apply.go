package chains

import (
	"database/sql"
	"encoding/json"
	"fmt"

	"gorm.io/gorm"
	"gorm.io/gorm/clause"
)

// ---- descriptors to Go values ---------------------------------------------------------------

func (a Arg) goValue(root *gorm.DB) interface{} {
	switch {
	case a.V != nil:
		return a.V.Go()
	case a.E != nil:
		if a.E.Named() {
			return clause.NamedExpr{SQL: a.E.SQL, Vars: a.E.args(root)}
		}
		return clause.Expr{SQL: a.E.SQL, Vars: a.E.args(root), WithoutParentheses: a.E.NoParen}
	case a.Q != nil:
		return a.Q.build(root)
	case a.R != nil:
		return root.Raw(a.R.SQL, a.R.args(root)...)
	default:
		return clause.Column{Name: a.Col}
	}
}

// args builds the argument list of a template call.
func (t *Tmpl) args(root *gorm.DB) []interface{} {
	if !t.Named() {
		out := make([]interface{}, len(t.Slots))
		for i, s := range t.Slots {
			out[i] = s.A.goValue(root)
		}
		return out
	}
	if t.Driver {
		out := make([]interface{}, 0, len(t.ArgOrder))
		for _, name := range t.ArgOrder {
			for _, b := range t.Binds {
				if b.Name == name {
					out = append(out, sql.Named(name, b.A.goValue(root)))
				}
			}
		}
		return out
	}
	switch t.Carrier {
	case "map":
		m := map[string]interface{}{}
		for _, b := range t.Binds {
			m[b.Name] = b.A.goValue(root)
		}
		return []interface{}{m}
	case "struct":
		var c NamedCarrier
		for _, b := range t.Binds {
			switch b.Name {
			case "N1":
				c.N1 = b.A.goValue(root)
			case "N2":
				c.N2 = b.A.goValue(root)
			case "N3":
				c.N3 = b.A.goValue(root)
			default:
				panic("chains: struct carrier with name " + b.Name)
			}
		}
		if t.CarrierPtr {
			return []interface{}{&c}
		}
		return []interface{}{c}
	default:
		out := make([]interface{}, len(t.Binds))
		for i, b := range t.Binds {
			out[i] = sql.Named(b.Name, b.A.goValue(root))
		}
		return out
	}
}

func (c Cl) column() interface{} {
	if c.ColTyped {
		return clause.Column{Name: c.Col}
	}
	return c.Col
}

func (c Cl) expr(root *gorm.DB) clause.Expression {
	switch c.Op {
	case "eq":
		return clause.Eq{Column: c.column(), Value: c.A.goValue(root)}
	case "neq":
		return clause.Neq{Column: c.column(), Value: c.A.goValue(root)}
	case "gt":
		return clause.Gt{Column: c.column(), Value: c.A.goValue(root)}
	case "gte":
		return clause.Gte{Column: c.column(), Value: c.A.goValue(root)}
	case "lt":
		return clause.Lt{Column: c.column(), Value: c.A.goValue(root)}
	case "lte":
		return clause.Lte{Column: c.column(), Value: c.A.goValue(root)}
	case "like":
		return clause.Like{Column: c.column(), Value: c.A.goValue(root)}
	case "in":
		vs := make([]interface{}, len(c.In))
		for i, v := range c.In {
			vs[i] = v.Go()
		}
		return clause.IN{Column: c.column(), Values: vs}
	}
	subs := make([]clause.Expression, len(c.Sub))
	for i, s := range c.Sub {
		subs[i] = s.expr(root)
	}
	switch c.Op {
	case "and":
		return clause.And(subs...)
	case "or":
		return clause.Or(subs...)
	case "not":
		return clause.Not(subs...)
	}
	panic("chains: unknown clause op " + c.Op)
}

// goPtr builds a pointer to a fresh record struct.
func (r Rec) goPtr() interface{} {
	f := func(i int) *Val {
		if i < len(r.F) {
			return r.F[i]
		}
		return nil
	}
	str := func(v *Val) string {
		if v == nil {
			return ""
		}
		return v.S
	}
	num := func(v *Val) int64 {
		if v == nil {
			return 0
		}
		return v.I
	}
	switch r.Table {
	case "items":
		it := &Item{ID: uint(r.ID), Name: str(f(0)), Code: num(f(1)), OwnerID: uint(num(f(7)))}
		if v := f(2); v != nil {
			it.Price = v.F
		}
		if v := f(3); v != nil {
			it.Active = v.B
		}
		if v := f(4); v != nil {
			s := v.S
			it.Note = &s
		}
		if v := f(5); v != nil {
			it.Nick = sql.NullString{String: v.S, Valid: true}
		}
		if v := f(6); v != nil {
			it.Data = []byte(v.S)
		}
		if v := f(8); v != nil {
			it.Payload = json.RawMessage(v.S)
		}
		if v := f(9); v != nil {
			it.Digest = Hash(v.S)
		}
		return it
	case "owners":
		return &Owner{ID: uint(r.ID), Title: str(f(0)), Age: num(f(1))}
	case "tags":
		return &Tag{ID: uint(r.ID), Label: str(f(0)), Weight: num(f(1)), ItemID: uint(num(f(2)))}
	}
	panic("chains: unknown table " + r.Table)
}

// goValue builds the record by value.
func (r Rec) goValue() interface{} {
	switch p := r.goPtr().(type) {
	case *Item:
		return *p
	case *Owner:
		return *p
	case *Tag:
		return *p
	}
	return nil
}

// recPtrSlicePtr builds &[]*X{…}.
func recPtrSlicePtr(rows []Rec) interface{} {
	switch rows[0].Table {
	case "items":
		out := make([]*Item, len(rows))
		for i, r := range rows {
			out[i] = r.goPtr().(*Item)
		}
		return &out
	case "owners":
		out := make([]*Owner, len(rows))
		for i, r := range rows {
			out[i] = r.goPtr().(*Owner)
		}
		return &out
	default:
		out := make([]*Tag, len(rows))
		for i, r := range rows {
			out[i] = r.goPtr().(*Tag)
		}
		return &out
	}
}

func (c *Chain) rowsValue() interface{} {
	if c.PtrElems {
		return recPtrSlicePtr(c.Rows)
	}
	return recSlicePtr(c.Rows)
}

func recSlicePtr(rows []Rec) interface{} {
	switch rows[0].Table {
	case "items":
		out := make([]Item, len(rows))
		for i, r := range rows {
			out[i] = *(r.goPtr().(*Item))
		}
		return &out
	case "owners":
		out := make([]Owner, len(rows))
		for i, r := range rows {
			out[i] = *(r.goPtr().(*Owner))
		}
		return &out
	default:
		out := make([]Tag, len(rows))
		for i, r := range rows {
			out[i] = *(r.goPtr().(*Tag))
		}
		return &out
	}
}

func kvMap(keys []string, vals []Arg, root *gorm.DB) map[string]interface{} {
	m := make(map[string]interface{}, len(keys))
	for i, k := range keys {
		m[k] = vals[i].goValue(root)
	}
	return m
}

// call returns the (query, args...) pair passed to Where/Not/Or/Having/inline conditions.
func (u Unit) call(root *gorm.DB) (interface{}, []interface{}) {
	switch u.Form {
	case "tmpl", "named":
		return u.T.SQL, u.T.args(root)
	case "map":
		switch u.MapType {
		case "ss":
			m := map[string]string{}
			for i, k := range u.Keys {
				m[k] = u.Vals[i].V.S
			}
			return m, nil
		case "ii":
			return map[interface{}]interface{}{u.Keys[0]: u.Vals[0].goValue(root)}, nil
		}
		return kvMap(u.Keys, u.Vals, root), nil
	case "colval":
		return u.Keys[0], []interface{}{u.Vals[0].goValue(root)}
	case "struct":
		var fields []interface{}
		for _, f := range u.Fields {
			fields = append(fields, f)
		}
		if u.Ptr {
			return u.Rec.goPtr(), fields
		}
		return u.Rec.goValue(), fields
	case "clause":
		if u.Cl.Op == "list" { // only as Clauses(e1, e2, …)
			exprs := make([]clause.Expression, len(u.Cl.Sub))
			for i, s := range u.Cl.Sub {
				exprs[i] = s.expr(root)
			}
			return exprs, nil
		}
		return u.Cl.expr(root), nil
	case "group":
		return applyConds(root, root, u.Group), nil
	case "pk":
		return u.PK.Go(), nil
	}
	panic("chains: unknown unit form " + u.Form)
}

func applyConds(tx, root *gorm.DB, conds []Cond) *gorm.DB {
	for _, c := range conds {
		q, args := c.U.call(root)
		switch c.Op {
		case "where":
			tx = tx.Where(q, args...)
		case "not":
			tx = tx.Not(q, args...)
		case "or":
			tx = tx.Or(q, args...)
		case "clauses":
			tx = tx.Clauses(q.([]clause.Expression)...)
		case "whereclause":
			tx = tx.Clauses(clause.Where{Exprs: q.([]clause.Expression)})
		case "scope":
			sq, sargs := q, args
			tx = tx.Scopes(func(d *gorm.DB) *gorm.DB { return d.Where(sq, sargs...) })
		default:
			panic("chains: unknown condition op " + c.Op)
		}
	}
	return tx
}

func modelOf(base string, id int64) interface{} {
	switch base {
	case "item":
		return &Item{ID: uint(id)}
	case "owner":
		return &Owner{ID: uint(id)}
	case "tag":
		return &Tag{ID: uint(id)}
	}
	panic("chains: no model for base " + base)
}

// build performs every call of the chain except the finisher.
func (c *Chain) build(root *gorm.DB) *gorm.DB { return c.buildFrom(root, root) }

// buildFrom starts the chain on start (which may be a reusable handle that
// already carries state); nested pieces (sub-queries, grouped conditions,
// db.Raw arguments) are built from the clean handle root.
func (c *Chain) buildFrom(start, root *gorm.DB) *gorm.DB {
	tx := start
	if c.SkipHooks {
		tx = tx.Session(&gorm.Session{SkipHooks: true})
	}
	if c.AllowGlobal {
		tx = tx.Session(&gorm.Session{AllowGlobalUpdate: true})
	}
	table, model := tableOf(c.Base)
	switch {
	case c.Kind == "raw" || c.Kind == "exec" || c.Kind == "save" || c.Kind == "firstor":
		return tx
	case c.Base == "sub":
		tx = tx.Table("(?) AS t", c.Sub.build(root))
	case !model:
		tx = tx.Table(table)
	case c.Kind == "create":
		if c.CrKind == "map" || c.CrKind == "maps" {
			tx = tx.Model(modelOf(c.Base, 0))
		}
	case c.Kind == "delete":
		// the model comes from the value handed to Delete, unless an explicit one carries a key too
		if c.ModelID != 0 {
			tx = tx.Model(modelOf(c.Base, c.ModelID))
		}
	case c.UpKind == "updates-self":
		// db.Updates(&X{ID: n, …}): the value is model and update at once
	case len(c.ModelIDs) > 0:
		rows := make([]Rec, len(c.ModelIDs))
		for i, id := range c.ModelIDs {
			rows[i] = Rec{Table: table, ID: id}
		}
		tx = tx.Model(recSlicePtr(rows))
	default:
		tx = tx.Model(modelOf(c.Base, c.ModelID))
	}
	if c.Unscoped {
		tx = tx.Unscoped()
	}
	if c.Distinct {
		tx = tx.Distinct()
	}
	switch c.ColMode {
	case "select":
		rest := make([]interface{}, len(c.Cols)-1)
		for i, s := range c.Cols[1:] {
			rest[i] = s
		}
		tx = tx.Select(c.Cols[0], rest...)
	case "omit":
		tx = tx.Omit(c.Cols...)
	}
	if len(c.SelCols) > 0 {
		rest := make([]interface{}, len(c.SelCols)-1)
		for i, s := range c.SelCols[1:] {
			rest[i] = s
		}
		tx = tx.Select(c.SelCols[0], rest...)
	}
	if c.Sel != nil {
		tx = tx.Select(c.Sel.SQL, c.Sel.args(root)...)
	}
	for _, j := range c.Joins {
		var args []interface{}
		name := "Owner"
		switch j.Kind {
		case "raw":
			name, args = j.T.SQL, j.T.args(root)
		case "rel-on":
			q, a := j.On.call(root)
			args = []interface{}{root.Where(q, a...)}
		}
		if j.Inner {
			tx = tx.InnerJoins(name, args...)
		} else {
			tx = tx.Joins(name, args...)
		}
	}
	tx = applyConds(tx, root, c.Conds)
	switch c.EmptyCond {
	case "struct":
		tx = tx.Where(modelOf(c.Base, 0))
	case "map":
		tx = tx.Where(map[string]interface{}{})
	}
	if c.Group != "" {
		tx = tx.Group(c.Group)
	}
	for _, h := range c.PreHavings {
		q, a := h.call(root)
		tx = tx.Having(q, a...)
	}
	if c.Having != nil {
		q, a := c.Having.call(root)
		tx = tx.Having(q, a...)
	}
	for _, o := range c.PreOrders {
		tx = tx.Order(o)
	}
	if c.OrderStr != "" {
		tx = tx.Order(c.OrderStr)
	}
	if c.OrderExpr != nil {
		tx = tx.Order(clause.OrderBy{Expression: clause.Expr{SQL: c.OrderExpr.SQL, Vars: c.OrderExpr.args(root), WithoutParentheses: c.OrderExpr.NoParen}})
	}
	if c.LimitCl {
		l := clause.Limit{Offset: c.Offset}
		if c.Limit != 0 {
			n := c.Limit
			l.Limit = &n
		}
		tx = tx.Clauses(l)
	} else {
		if c.Limit != 0 {
			tx = tx.Limit(c.Limit)
		}
		if c.Offset != 0 {
			tx = tx.Offset(c.Offset)
		}
	}
	if c.Lock {
		tx = tx.Clauses(clause.Locking{Strength: "UPDATE"})
	}
	if c.Returning {
		tx = tx.Clauses(clause.Returning{})
	}
	if k := c.Conflict; k != nil {
		oc := clause.OnConflict{Columns: []clause.Column{{Name: "id"}}}
		switch k.Kind {
		case "nothing":
			oc.DoNothing = true
		case "assignments":
			oc.DoUpdates = clause.Assignments(kvMap(k.Keys, k.Vals, root))
		case "columns":
			oc.DoUpdates = clause.AssignmentColumns(k.Cols)
		case "updateall":
			oc = clause.OnConflict{UpdateAll: true}
		}
		if k.Where != nil {
			oc.Where = clause.Where{Exprs: []clause.Expression{k.Where.expr(root)}}
		}
		tx = tx.Clauses(oc)
	}
	return tx
}

func (c *Chain) destSlice() interface{} {
	_, model := tableOf(c.Base)
	if !model || len(c.SelCols) > 0 || c.Sel != nil || c.Group != "" {
		return &[]map[string]interface{}{}
	}
	switch c.Base {
	case "item":
		return &[]Item{}
	case "owner":
		return &[]Owner{}
	default:
		return &[]Tag{}
	}
}

func (c *Chain) destOne() interface{} {
	if _, model := tableOf(c.Base); !model {
		return &map[string]interface{}{}
	}
	return modelOf(c.Base, 0)
}

// Apply performs the whole chain on root (a handle that starts a fresh
// statement for every call) and returns the *gorm.DB the finisher returned.
// Every Go value handed to gorm is built fresh, so a chain can be applied any
// number of times.
func (c *Chain) Apply(root *gorm.DB) *gorm.DB { return c.ApplyFrom(root, root) }

// ApplyFrom performs the chain starting on the handle start, see buildFrom.
func (c *Chain) ApplyFrom(start, root *gorm.DB) *gorm.DB {
	return c.FinishOn(c.buildFrom(start, root), root)
}

// BuildFrom performs every call of the chain except the finisher and returns the chain value.
func (c *Chain) BuildFrom(start, root *gorm.DB) *gorm.DB { return c.buildFrom(start, root) }

// FinishOn calls the chain's finisher on tx, a chain value produced by BuildFrom.
func (c *Chain) FinishOn(tx, root *gorm.DB) *gorm.DB {
	var inl []interface{}
	if c.Inline != nil {
		q, a := c.Inline.call(root)
		inl = append([]interface{}{q}, a...)
	}
	switch c.Kind {
	case "query":
		switch c.Fin {
		case "find":
			return tx.Find(c.destSlice(), inl...)
		case "first":
			return tx.First(c.destOne(), inl...)
		case "take":
			return tx.Take(c.destOne(), inl...)
		case "last":
			return tx.Last(c.destOne(), inl...)
		case "count":
			var n int64
			return tx.Count(&n)
		case "pluck":
			return tx.Pluck(c.PluckCol, &[]sql.NullString{})
		case "scan":
			return tx.Scan(&[]map[string]interface{}{})
		case "batches":
			return tx.FindInBatches(c.destSlice(), c.FindBatch, func(*gorm.DB, int) error { return nil })
		case "rows":
			rows, err := tx.Rows()
			if rows != nil {
				err = rows.Close()
			}
			res := root.Session(&gorm.Session{NewDB: true})
			res.Error = err
			return res
		case "row":
			res := root.Session(&gorm.Session{NewDB: true})
			if row := tx.Row(); row != nil {
				var sink interface{}
				_ = row.Scan(&sink) // releases the connection; the column count does not matter here
				res.Error = row.Err()
			}
			return res
		}
	case "update":
		switch c.UpKind {
		case "update":
			return tx.Update(c.SetKeys[0], c.SetVals[0].goValue(root))
		case "updatecolumn":
			return tx.UpdateColumn(c.SetKeys[0], c.SetVals[0].goValue(root))
		case "updates-map":
			return tx.Updates(kvMap(c.SetKeys, c.SetVals, root))
		case "updatecolumns-map":
			return tx.UpdateColumns(kvMap(c.SetKeys, c.SetVals, root))
		case "updates-struct":
			if c.SetPtr {
				return tx.Updates(c.SetRec.goPtr())
			}
			return tx.Updates(c.SetRec.goValue())
		case "updates-self":
			return tx.Updates(c.SetRec.goPtr())
		case "updatecolumns-struct":
			if c.SetPtr {
				return tx.UpdateColumns(c.SetRec.goPtr())
			}
			return tx.UpdateColumns(c.SetRec.goValue())
		}
	case "delete":
		if c.DelRec != nil {
			return tx.Delete(c.DelRec.goPtr(), inl...)
		}
		return tx.Delete(modelOf(c.Base, 0), inl...)
	case "create":
		switch c.CrKind {
		case "struct":
			return tx.Create(c.Rows[0].goPtr())
		case "slice":
			switch c.Batch {
			case "inbatches":
				return tx.CreateInBatches(c.rowsValue(), c.BatchSize)
			case "session":
				return tx.Session(&gorm.Session{CreateBatchSize: c.BatchSize}).Create(c.rowsValue())
			}
			return tx.Create(c.rowsValue()) // also Batch "config": the handle carries the size
		case "map":
			m := kvMap(c.MapRows[0].Keys, c.MapRows[0].Vals, root)
			if c.MapPtr {
				return tx.Create(&m)
			}
			return tx.Create(m)
		case "maps":
			ms := make([]map[string]interface{}, len(c.MapRows))
			for i, r := range c.MapRows {
				ms[i] = kvMap(r.Keys, r.Vals, root)
			}
			if c.MapPtr {
				return tx.Create(&ms)
			}
			return tx.Create(ms)
		}
	case "save":
		if c.CrKind == "struct" {
			return tx.Save(c.Rows[0].goPtr())
		}
		return tx.Save(c.rowsValue())
	case "firstor":
		dest := Rec{Table: c.Rows[0].Table}.goPtr()
		cond := c.Rows[0].goValue()
		if c.WithModel {
			tx = tx.Model(Rec{Table: c.Rows[0].Table}.goPtr())
		}
		if c.Attrs != nil {
			tx = tx.Attrs(c.Attrs.goValue())
		}
		if c.Assign != nil {
			tx = tx.Assign(c.Assign.goValue())
		}
		switch {
		case c.Fin == "firstorinit" && c.InlineCond:
			return tx.FirstOrInit(dest, cond)
		case c.Fin == "firstorinit":
			return tx.Where(cond).FirstOrInit(dest)
		case c.InlineCond:
			return tx.FirstOrCreate(dest, cond)
		default:
			return tx.Where(cond).FirstOrCreate(dest)
		}
	case "raw":
		return tx.Raw(c.Raw.SQL, c.Raw.args(root)...).Scan(&[]map[string]interface{}{})
	case "exec":
		return tx.Exec(c.Raw.SQL, c.Raw.args(root)...)
	}
	panic(fmt.Sprintf("chains: cannot apply %s/%s/%s/%s", c.Kind, c.Fin, c.UpKind, c.CrKind))
}

// Write reports whether the finisher changes data (gorm wraps it in its default transaction).
func (c *Chain) Write() bool {
	switch c.Kind {
	case "update", "delete", "create", "exec", "save":
		return true
	case "firstor":
		return c.Fin == "firstorcreate"
	}
	return false
}

// Batched: the create is split into batches; the handle a dry run returns then exposes no statement.
func (c *Chain) Batched() bool { return c.Kind == "create" && c.Batch != "" }

// HiddenQuery: Row, Rows and FindInBatches run on a statement the caller never sees.
func (c *Chain) HiddenQuery() bool {
	return c.Kind == "query" && (c.Fin == "row" || c.Fin == "rows" || c.Fin == "batches")
}

// ConfigBatchSize is the Config.CreateBatchSize the handle must be opened with (0 = none).
func (c *Chain) ConfigBatchSize() int {
	if c.Batched() && c.Batch == "config" {
		return c.BatchSize
	}
	return 0
}

// MayNotFind: finishers that report ErrRecordNotFound on an empty result.
func (c *Chain) MayNotFind() bool {
	return c.Kind == "query" && (c.Fin == "first" || c.Fin == "take" || c.Fin == "last" || c.Fin == "row")
}

// CreatesFromMap: Create(map) / Create([]map).
func (c *Chain) CreatesFromMap() bool {
	return c.Kind == "create" && (c.CrKind == "map" || c.CrKind == "maps")
}
