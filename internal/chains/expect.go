package chains

import (
	"sort"
	"strconv"
	"time"
)

// Mode of the prediction. On SQLite the dialector writes LIMIT/OFFSET as
// literal integers (gorm.io/driver/sqlite ClauseBuilders) instead of binding them.
type Mode struct {
	LiteralLimit bool
	Now          time.Time // value of Config.NowFunc
}

// This file is the independent linearizer: it predicts the bound values of a
// statement from the chain description and the documented placement rules
// alone (clause order SELECT, FROM/joins, WHERE in call order, GROUP BY/HAVING,
// ORDER BY, LIMIT, OFFSET; SET before WHERE; VALUES row-major, then ON CONFLICT;
// slices expand to one value per element, an empty slice to a single NULL after
// '(' or to the literal (NULL); named arguments bind once per occurrence;
// identifiers bind nothing). It never looks at what gorm produced.

func argLeaves(a Arg, paren bool, m Mode) []interface{} {
	switch {
	case a.V != nil:
		if a.V.IsSlice() && len(a.V.L) == 0 {
			if paren {
				return []interface{}{nil}
			}
			return nil
		}
		return a.V.Leaves()
	case a.E != nil:
		return tmplLeaves(a.E, m)
	case a.Q != nil:
		return a.Q.queryLeaves(m)
	case a.R != nil:
		return tmplLeaves(a.R, m)
	}
	return nil
}

func tmplLeaves(t *Tmpl, m Mode) []interface{} {
	var out []interface{}
	if t.Driver {
		// driver-level named arguments: bound in the order they are passed, each under its name
		for _, name := range t.ArgOrder {
			for _, b := range t.Binds {
				if b.Name == name {
					for _, l := range argLeaves(b.A, false, m) {
						out = append(out, NamedLeaf{Name: name, V: l})
					}
				}
			}
		}
		return out
	}
	if t.Named() {
		for _, ref := range t.Refs {
			for _, b := range t.Binds {
				if b.Name == ref {
					out = append(out, argLeaves(b.A, false, m)...)
				}
			}
		}
		return out
	}
	for _, s := range t.Slots {
		out = append(out, argLeaves(s.A, s.Paren || t.NoParen, m)...)
	}
	return out
}

// eqLeaves: equality builders render a NULL-like value as IS [NOT] NULL and a
// slice as IN (...) / IN (NULL).
func eqLeaves(a Arg, m Mode) []interface{} {
	if a.V != nil {
		if a.V.NilLike() {
			return nil
		}
		if a.V.IsSlice() {
			return a.V.Leaves()
		}
	}
	return argLeaves(a, false, m)
}

func clLeaves(c Cl, m Mode) []interface{} {
	switch c.Op {
	case "eq", "neq":
		return eqLeaves(*c.A, m)
	case "gt", "gte", "lt", "lte", "like":
		return argLeaves(*c.A, false, m)
	case "in":
		var out []interface{}
		for _, v := range c.In {
			out = append(out, v.Leaves()...)
		}
		return out
	}
	var out []interface{}
	for _, s := range c.Sub {
		out = append(out, clLeaves(s, m)...)
	}
	return out
}

// zeroLeaf is what a zero-valued struct field binds on insert.
func zeroLeaf(kind string) interface{} {
	switch kind {
	case "str":
		return ""
	case "int", "uint":
		return int64(0)
	case "float":
		return float64(0)
	case "bool":
		return false
	}
	return nil // pstr, nullstr, bytes
}

// bindsZero: a nil value of a named byte-slice type is written as the literal
// (NULL) by the generic value writer (an empty list); a nil []byte is bound.
func bindsZero(kind string) bool { return kind != "raw" && kind != "hash" }

// condLeaves: a struct used as condition or as Updates value contributes its non-zero fields in field order.
func (r Rec) condLeaves() []interface{} {
	var out []interface{}
	for _, f := range r.F {
		if f != nil {
			out = append(out, f.Leaves()...)
		}
	}
	return out
}

// createLeaves: an inserted struct binds every column in field order, the
// timestamps (items), and the primary key last when it is set.
func (r Rec) createLeaves(m Mode) []interface{} { return r.createLeavesCols(m, "", nil) }

// written: does a create/update restricted by Select(cols…)/Omit(cols…) write the plain column col?
func written(col, mode string, cols []string) bool {
	switch mode {
	case "select":
		return has(cols, col)
	case "omit":
		return !has(cols, col)
	}
	return true
}

// createLeavesCols: Select keeps the selected columns plus the tracked-time
// columns (not deleted_at, not the primary key); Omit drops the omitted ones.
func (r Rec) createLeavesCols(m Mode, mode string, cols []string) []interface{} {
	var out []interface{}
	for i, col := range columnsOf(r.Table) {
		if !written(col.name, mode, cols) {
			continue
		}
		if i < len(r.F) && r.F[i] != nil {
			out = append(out, r.F[i].Leaves()...)
		} else if r.Table == "owners" && col.name == "age" {
			out = append(out, int64(OwnerDefaultAge)) // Owner.BeforeCreate fills a missing age
		} else if bindsZero(col.kind) {
			out = append(out, zeroLeaf(col.kind))
		}
	}
	tracked := createdLeaves(r.Table, m)
	if mode == "select" && r.Table == "items" {
		tracked = tracked[:2] // deleted_at is not a tracked-time column: only written when selected
	}
	out = append(out, tracked...)
	if r.ID != 0 && mode != "select" {
		out = append(out, r.ID)
	}
	return out
}

// createdLeaves: the tracked-time columns of an inserted struct (generated
// records leave them zero, so gorm stamps them with NowFunc in the column's unit).
func createdLeaves(table string, m Mode) []interface{} {
	switch table {
	case "items":
		return []interface{}{m.Now, m.Now, nil} // created_at, updated_at (time.Time), deleted_at
	case "owners":
		return []interface{}{m.Now.Unix(), m.Now.Unix()} // CreatedAt, UpdatedAt int64: unix seconds
	case "tags":
		return []interface{}{m.Now.UnixMilli(), m.Now.UnixNano()} // autoCreateTime:milli, autoUpdateTime:nano
	}
	return nil
}

// touchedLeaves: the auto-update-time column refreshed by an update with hooks.
func touchedLeaves(table string, m Mode) []interface{} {
	switch table {
	case "items":
		return []interface{}{m.Now}
	case "owners":
		return []interface{}{m.Now.Unix()}
	case "tags":
		return []interface{}{m.Now.UnixNano()}
	}
	return nil
}

// saveUpdateLeaves: Save of a struct with a primary key updates every column
// (zero values included; the create time keeps its zero, the update time is
// refreshed) where the key matches.
func (r Rec) saveUpdateLeaves(m Mode) []interface{} {
	var out []interface{}
	for i, col := range columnsOf(r.Table) {
		if i < len(r.F) && r.F[i] != nil {
			out = append(out, r.F[i].Leaves()...)
		} else if bindsZero(col.kind) {
			out = append(out, zeroLeaf(col.kind))
		}
	}
	switch r.Table {
	case "items":
		out = append(out, time.Time{}, m.Now, nil)
	case "owners":
		out = append(out, int64(0), m.Now.Unix())
	case "tags":
		out = append(out, int64(0), m.Now.UnixNano())
	}
	return append(out, r.ID)
}

func unitLeaves(u Unit, m Mode) []interface{} {
	switch u.Form {
	case "tmpl", "named":
		return tmplLeaves(u.T, m)
	case "map", "colval":
		var out []interface{}
		for _, v := range u.Vals {
			out = append(out, eqLeaves(v, m)...)
		}
		return out
	case "struct":
		if len(u.Fields) == 0 {
			return u.Rec.condLeaves()
		}
		// only the named fields, in field order; a zero value is compared too (NULL-like zero: IS NULL)
		var out []interface{}
		for i, col := range columnsOf(u.Rec.Table) {
			switch f := u.Rec.F[i]; {
			case !has(u.Fields, col.name):
			case f != nil:
				out = append(out, f.Leaves()...)
			case col.kind == "pstr" || col.kind == "nullstr" || col.kind == "raw" || col.kind == "hash":
			default:
				out = append(out, zeroLeaf(col.kind))
			}
		}
		return out
	case "clause":
		return clLeaves(*u.Cl, m)
	case "group":
		var out []interface{}
		for _, c := range u.Group {
			out = append(out, unitLeaves(c.U, m)...)
		}
		return out
	case "pk":
		return u.PK.Leaves()
	}
	return nil
}

type topExpr struct {
	loneOr bool
	leaves []interface{}
	inner  []topExpr // the members of a grouped condition passed to Where
}

// whereLeaves orders the top-level conditions: call order, except that the
// builder moves the first condition that is not a lone Or(...) to the front
// (documented in clause.Where.Build: "Switch position if the first query
// expression is a single Or condition"). When the soft-delete filter is active
// and a lone Or exists, the filter first groups all conditions, which keeps
// call order.
func whereLeaves(exprs []topExpr, softDelete bool) []interface{} {
	if len(exprs) == 1 && exprs[0].inner != nil && !softDelete {
		// a single grouped condition is the whole WHERE clause: its members are the top-level conditions
		exprs = exprs[0].inner
	}
	anyOr := false
	for _, e := range exprs {
		anyOr = anyOr || e.loneOr
	}
	ordered := append([]topExpr(nil), exprs...)
	if !(softDelete && anyOr) {
		for i, e := range ordered {
			if !e.loneOr {
				ordered[0], ordered[i] = ordered[i], ordered[0]
				break
			}
		}
	}
	var out []interface{}
	for _, e := range ordered {
		out = append(out, e.leaves...)
	}
	return out
}

func (c *Chain) topExprs(m Mode) (out []topExpr) {
	group := func(u Unit) []topExpr {
		if u.Form != "group" {
			return nil
		}
		var in []topExpr
		for _, g := range u.Group {
			in = append(in, topExpr{loneOr: g.Op == "or", leaves: unitLeaves(g.U, m)})
		}
		return in
	}
	var scoped []topExpr
	defer func() {
		// FindInBatches groups the chain's conditions when one of them is an Or, before scopes run and
		// before it appends its cursor (finisher_api.go)
		if c.Fin != "batches" {
			return
		}
		hasOr := false
		for _, cd := range c.Conds {
			hasOr = hasOr || cd.Op == "or"
		}
		if !hasOr {
			return
		}
		n := len(out) - len(scoped)
		g := topExpr{inner: append([]topExpr(nil), out[:n]...)}
		for _, e := range g.inner {
			g.leaves = append(g.leaves, e.leaves...)
		}
		out = append([]topExpr{g}, out[n:]...)
	}()
	for _, cd := range c.Conds {
		switch cd.Op {
		case "whereclause": // Clauses(clause.Where{Exprs}): every expression is a top-level condition of its own
			for _, sub := range cd.U.Cl.Sub {
				out = append(out, topExpr{leaves: clLeaves(sub, m)})
			}
			continue
		case "scope": // Scopes run when the finisher executes: after every condition given by then
			scoped = append(scoped, topExpr{leaves: unitLeaves(cd.U, m)})
			continue
		}
		e := topExpr{loneOr: cd.Op == "or", leaves: unitLeaves(cd.U, m)}
		if cd.Op == "where" {
			e.inner = group(cd.U)
		}
		out = append(out, e)
	}
	if c.Inline != nil {
		out = append(out, topExpr{leaves: unitLeaves(*c.Inline, m), inner: group(*c.Inline)})
	}
	return append(out, scoped...)
}

func (c *Chain) softDelete() bool { return c.Base == "item" && !c.Unscoped }

func (c *Chain) queryLeaves(m Mode) []interface{} {
	var out []interface{}
	if c.Sel != nil && c.Fin != "count" {
		out = append(out, tmplLeaves(c.Sel, m)...)
	}
	if c.Base == "sub" {
		out = append(out, c.Sub.queryLeaves(m)...)
	}
	for _, j := range c.Joins {
		switch j.Kind {
		case "raw":
			out = append(out, tmplLeaves(j.T, m)...)
		case "rel-on":
			out = append(out, unitLeaves(*j.On, m)...)
		}
	}
	out = append(out, whereLeaves(c.topExprs(m), c.softDelete())...)
	for _, h := range c.PreHavings {
		out = append(out, unitLeaves(h, m)...)
	}
	if c.Having != nil {
		out = append(out, unitLeaves(*c.Having, m)...)
	}
	if c.OrderExpr != nil {
		dropped := c.Fin == "first" || c.Fin == "last" || (c.Fin == "count" && c.Group == "")
		if !dropped {
			out = append(out, tmplLeaves(c.OrderExpr, m)...)
		}
	}
	if !m.LiteralLimit {
		limit := c.Limit
		if c.Fin == "first" || c.Fin == "take" || c.Fin == "last" {
			limit = 1
		}
		if c.Fin == "batches" {
			limit = c.FindBatch
		}
		if limit > 0 {
			out = append(out, int64(limit))
		}
		if c.Offset > 0 {
			out = append(out, int64(c.Offset))
		}
	}
	return out
}

func setLeaves(keys []string, vals []Arg, m Mode) []interface{} {
	var out []interface{}
	for i := range keys {
		out = append(out, argLeaves(vals[i], false, m)...)
	}
	return out
}

func has(keys []string, k string) bool {
	for _, x := range keys {
		if x == k {
			return true
		}
	}
	return false
}

// Expected predicts the complete list of bound values, normalized like Norm does.
func (c *Chain) Expected(m Mode) []interface{} {
	table, model := tableOf(c.Base)
	switch c.Kind {
	case "query":
		return c.queryLeaves(m)
	case "update":
		var out []interface{}
		hooks := (c.UpKind == "update" || c.UpKind == "updates-map" || c.UpKind == "updates-struct" || c.UpKind == "updates-self") && !c.SkipHooks
		tracked := model && hooks
		if c.SetRec != nil {
			for i, col := range columnsOf(c.SetRec.Table) {
				switch f := c.SetRec.F[i]; {
				case !written(col.name, c.ColMode, c.Cols):
				case f != nil:
					out = append(out, f.Leaves()...)
				case c.ColMode == "select" && bindsZero(col.kind): // a selected field is written even when zero
					out = append(out, zeroLeaf(col.kind))
				}
			}
		} else {
			for i, k := range c.SetKeys {
				if written(k, c.ColMode, c.Cols) {
					out = append(out, argLeaves(c.SetVals[i], false, m)...)
				}
			}
		}
		if tracked {
			out = append(out, touchedLeaves(table, m)...)
		}
		exprs := c.topExprs(m)
		if c.ModelID != 0 {
			exprs = append(exprs, topExpr{leaves: []interface{}{c.ModelID}})
		}
		if len(c.ModelIDs) > 0 {
			ids := make([]interface{}, len(c.ModelIDs))
			for i, id := range c.ModelIDs {
				ids[i] = id
			}
			exprs = append(exprs, topExpr{leaves: ids})
		}
		if c.UpKind == "updates-self" {
			exprs = append(exprs, topExpr{leaves: []interface{}{c.SetRec.ID}})
		}
		return append(out, whereLeaves(exprs, c.softDelete())...)
	case "delete":
		var out []interface{}
		if c.softDelete() {
			out = append(out, m.Now)
		}
		exprs := c.topExprs(m)
		if c.DelRec != nil && c.DelRec.ID != 0 {
			exprs = append(exprs, topExpr{leaves: []interface{}{c.DelRec.ID}})
		}
		if c.ModelID != 0 {
			exprs = append(exprs, topExpr{leaves: []interface{}{c.ModelID}})
		}
		return append(out, whereLeaves(exprs, c.softDelete())...)
	case "create":
		if c.Batched() {
			return nil // several statements: see Plan
		}
		return c.createLeaves(c.Rows, m)
	case "save":
		if c.CrKind == "struct" {
			if c.Rows[0].ID != 0 {
				return c.Rows[0].saveUpdateLeaves(m)
			}
			return c.Rows[0].createLeaves(m)
		}
		var out []interface{}
		for _, r := range c.Rows {
			out = append(out, r.createLeaves(m)...)
		}
		return append(out, touchedLeaves(c.Rows[0].Table, m)...) // ON CONFLICT DO UPDATE SET <update time>=?, col=excluded.col…
	case "firstor":
		if c.Fin == "firstorcreate" {
			// nothing matches: the condition's fields, then Attrs, then Assign become the new record
			merged := Rec{Table: c.Rows[0].Table, F: append([]*Val(nil), c.Rows[0].F...)}
			for _, over := range []*Rec{c.Attrs, c.Assign} {
				if over != nil {
					for i, f := range over.F {
						if f != nil {
							merged.F[i] = f
						}
					}
				}
			}
			return merged.createLeaves(m)
		}
		return c.firstOrSelectLeaves(m)
	case "raw", "exec":
		return tmplLeaves(c.Raw, m)
	}
	return nil
}

// firstOrSelectLeaves: the SELECT … ORDER BY key LIMIT 1 of FirstOrInit/FirstOrCreate.
func (c *Chain) firstOrSelectLeaves(m Mode) []interface{} {
	out := c.Rows[0].condLeaves()
	if !m.LiteralLimit {
		out = append(out, int64(1))
	}
	return out
}

// createLeaves of one INSERT statement for rows (struct/slice) or maps.
func (c *Chain) createLeaves(rows []Rec, m Mode) []interface{} {
	table, _ := tableOf(c.Base)
	var out []interface{}
	switch c.CrKind {
	case "struct", "slice":
		for _, r := range rows {
			out = append(out, r.createLeavesCols(m, c.ColMode, c.Cols)...)
		}
	case "map":
		for i, k := range c.MapRows[0].Keys {
			if written(k, c.ColMode, c.Cols) {
				out = append(out, argLeaves(c.MapRows[0].Vals[i], false, m)...)
			}
		}
	case "maps":
		colset := map[string]bool{}
		for _, r := range c.MapRows {
			for _, k := range r.Keys {
				if written(k, c.ColMode, c.Cols) {
					colset[k] = true
				}
			}
		}
		cols := make([]string, 0, len(colset))
		for k := range colset {
			cols = append(cols, k)
		}
		sort.Strings(cols)
		for _, r := range c.MapRows {
			for _, col := range cols {
				found := false
				for i, k := range r.Keys {
					if k == col {
						out = append(out, argLeaves(r.Vals[i], false, m)...)
						found = true
					}
				}
				if !found {
					out = append(out, nil)
				}
			}
		}
	}
	if k := c.Conflict; k != nil {
		switch k.Kind {
		case "assignments":
			out = append(out, setLeaves(k.Keys, k.Vals, m)...)
		case "updateall":
			out = append(out, touchedLeaves(table, m)...) // the update time is refreshed on conflict
		}
		if k.Where != nil {
			out = append(out, clLeaves(*k.Where, m)...)
		}
	}
	return out
}

// Plan lists the statements of a chain: what a dry run builds (Dry; the handle
// it returns exposes the last one unless Hidden) and what a real run sends
// (Real, in order). DryAt[i] is the index in Real of the statement Dry[i] shows.
type Plan struct {
	Dry    [][]interface{}
	Real   [][]interface{}
	DryAt  []int
	Hidden bool // batched create: the returned handle exposes nothing (each batch runs on its own statement)
	// ExtraReal: the real run may send one more statement after Real (Save of a
	// struct whose key matches no row falls back to an upsert).
	ExtraReal bool
	// Refused: the operation has no condition: it is refused with ErrMissingWhereClause (dry run and
	// real run alike), the real run sends nothing (Real is empty); Dry holds what was built before the refusal.
	Refused bool
	// ExtraRealMany: any number of further statements may follow (FindInBatches fetching further batches)
	ExtraRealMany bool
}

// Plan predicts the statements and their bound values.
func (c *Chain) Plan(m Mode) Plan {
	// Owner's AfterCreate hook sends one statement per created record, right after the INSERT
	hook := func(n int) [][]interface{} {
		if c.Base != "owner" || c.SkipHooks {
			return nil
		}
		out := make([][]interface{}, n)
		for i := range out {
			out[i] = []interface{}{int64(0), int64(-1)}
		}
		return out
	}
	switch {
	case c.Batched():
		var p Plan
		p.Hidden = true
		for i := 0; i < len(c.Rows); i += c.BatchSize {
			end := i + c.BatchSize
			if end > len(c.Rows) {
				end = len(c.Rows)
			}
			ins := c.createLeaves(c.Rows[i:end], m)
			p.Dry = append(p.Dry, ins)
			p.DryAt = append(p.DryAt, len(p.Real))
			p.Real = append(append(p.Real, ins), hook(end-i)...)
		}
		return p
	case c.Kind == "firstor" && c.Fin == "firstorcreate":
		ins := c.Expected(m)
		return Plan{Dry: [][]interface{}{ins}, Real: append([][]interface{}{c.firstOrSelectLeaves(m), ins}, hook(1)...), DryAt: []int{1}}
	}
	e := c.Expected(m)
	if c.Refused {
		return Plan{Dry: [][]interface{}{e}, DryAt: []int{0}, Refused: true}
	}
	p := Plan{Dry: [][]interface{}{e}, Real: [][]interface{}{e}, DryAt: []int{0}, Hidden: c.HiddenQuery(), ExtraRealMany: c.Fin == "batches",
		ExtraReal: c.Kind == "save" && c.CrKind == "struct" && c.Rows[0].ID != 0}
	switch {
	case c.Kind == "create" && (c.CrKind == "struct" || c.CrKind == "slice"):
		p.Real = append(p.Real, hook(len(c.Rows))...)
	case c.Kind == "save" && (c.CrKind == "slice" || c.Rows[0].ID == 0):
		p.Real = append(p.Real, hook(len(c.Rows))...)
	}
	return p
}

// ---- walking the description ------------------------------------------------------------------

// Info is what the checks need to know about a chain besides its prediction.
type Info struct {
	Tokens  []string        // sentinel texts of every argument value
	Hazards map[string]bool // slice sub-query named nested-expr hostile …
	Classes map[string]bool
}

type walker struct {
	info   Info
	lit    bool // LIMIT/OFFSET are literals
	onTmpl func(*Tmpl)
}

func (w *walker) val(v Val) {
	w.info.Tokens = append(w.info.Tokens, v.Tokens()...)
	w.info.Classes["val:"+v.K] = true
	if v.IsSlice() {
		w.info.Hazards["slice"] = true
		if len(v.L) == 0 {
			w.info.Classes["slice:empty"] = true
		} else if len(v.L) == 1 {
			w.info.Classes["slice:one"] = true
		} else {
			w.info.Classes["slice:many"] = true
		}
		for _, e := range v.L {
			w.info.Classes["elem:"+e.K] = true
		}
	}
	if v.K == KGormValuer {
		w.info.Hazards["nested-expr"] = true
	}
	if v.Hostile() {
		w.info.Hazards["hostile"] = true
	}
}

func (w *walker) arg(a Arg) {
	switch {
	case a.V != nil:
		w.val(*a.V)
	case a.E != nil:
		w.info.Hazards["nested-expr"] = true
		w.info.Classes["arg:expr"] = true
		w.tmpl(a.E)
	case a.Q != nil:
		w.info.Hazards["sub-query"] = true
		w.info.Classes["arg:subquery"] = true
		w.chain(a.Q)
	case a.R != nil:
		w.info.Hazards["sub-query"] = true
		w.info.Classes["arg:raw-subquery"] = true
		w.tmpl(a.R)
	default:
		w.info.Classes["arg:column"] = true
	}
}

func (w *walker) tmpl(t *Tmpl) {
	if w.onTmpl != nil {
		w.onTmpl(t)
	}
	if t.Named() {
		w.info.Hazards["named"] = true
		if t.Driver {
			w.info.Classes["named:driver"] = true
		} else {
			w.info.Classes["named:"+t.Carrier] = true
		}
		if t.CarrierPtr {
			w.info.Classes["named:struct-ptr"] = true
		}
		seen := map[string]int{}
		for _, r := range t.Refs {
			seen[r]++
			if seen[r] == 2 {
				w.info.Classes["named:repeated"] = true
			}
		}
		for _, b := range t.Binds {
			w.arg(b.A)
		}
		return
	}
	if t.NoParen {
		w.info.Classes["expr:noparen"] = true
	}
	if t.LitQ > 0 {
		w.info.Classes["tmpl:literal-question-mark"] = true
	}
	for _, s := range t.Slots {
		if s.Paren {
			w.info.Classes["slot:paren"] = true
		}
		w.arg(s.A)
	}
}

func (w *walker) cl(c Cl) {
	w.info.Classes["clause:"+c.Op] = true
	if c.A != nil {
		w.arg(*c.A)
	}
	for _, v := range c.In {
		w.val(v)
	}
	if c.Op == "in" {
		w.info.Hazards["slice"] = true
		switch len(c.In) {
		case 0:
			w.info.Classes["in:empty"] = true
		case 1:
			w.info.Classes["in:one"] = true
		default:
			w.info.Classes["in:many"] = true
		}
	}
	for _, s := range c.Sub {
		w.cl(s)
	}
}

func (w *walker) rec(r Rec) {
	for _, f := range r.F {
		if f != nil {
			w.val(*f)
		}
	}
}

func (w *walker) unit(u Unit, where string) {
	w.info.Classes[where+":"+u.Form] = true
	if u.MapType != "" {
		w.info.Classes["map:"+u.MapType] = true
	}
	if len(u.Fields) > 0 {
		w.info.Classes["struct:selected-fields"] = true
	}
	switch u.Form {
	case "tmpl", "named":
		w.tmpl(u.T)
	case "map", "colval":
		for _, v := range u.Vals {
			w.arg(v)
		}
	case "struct":
		w.rec(*u.Rec)
	case "clause":
		w.cl(*u.Cl)
	case "group":
		w.info.Classes["grouped"] = true
		for _, c := range u.Group {
			w.unit(c.U, "group-"+c.Op)
		}
	case "pk":
		w.val(*u.PK)
	}
}

func (w *walker) chain(c *Chain) {
	if c.Sub != nil {
		w.info.Hazards["sub-query"] = true
		w.info.Classes["table:subquery"] = true
		w.chain(c.Sub)
	}
	if c.Sel != nil {
		w.info.Classes["select:args"] = true
		w.tmpl(c.Sel)
	}
	for _, j := range c.Joins {
		w.info.Classes["join:"+j.Kind] = true
		if j.T != nil {
			w.tmpl(j.T)
		}
		if j.On != nil {
			w.unit(*j.On, "join-on")
		}
	}
	for i, cd := range c.Conds {
		w.unit(cd.U, cd.Op)
		if i == 0 && cd.Op == "or" && len(c.Conds) > 1 {
			w.info.Classes["or-leading"] = true
		}
	}
	if c.Inline != nil {
		w.unit(*c.Inline, "inline")
	}
	for _, h := range c.PreHavings {
		w.unit(h, "having")
	}
	if c.Having != nil {
		w.unit(*c.Having, "having")
	}
	for _, r := range []*Rec{c.Attrs, c.Assign} {
		if r != nil {
			w.rec(*r)
		}
	}
	if c.OrderExpr != nil {
		w.info.Classes["order:expr"] = true
		w.tmpl(c.OrderExpr)
	}
	if c.Limit > 0 {
		w.info.Classes["limit"] = true
		if !w.lit {
			w.info.Tokens = append(w.info.Tokens, Val{K: KInt, I: int64(c.Limit)}.Tokens()...)
		}
	}
	if c.Offset > 0 {
		w.info.Classes["offset"] = true
		if !w.lit {
			w.info.Tokens = append(w.info.Tokens, Val{K: KInt, I: int64(c.Offset)}.Tokens()...)
		}
	}
	for _, id := range append([]int64{c.ModelID}, recIDs(c)...) {
		if id >= 1000000 {
			w.info.Tokens = append(w.info.Tokens, strconv.FormatInt(id, 10))
		}
	}
	if c.LimitCl {
		w.info.Classes["clauses:limit"] = true
	}
	if c.Lock {
		w.info.Classes["clauses:locking"] = true
	}
	if c.Returning {
		w.info.Classes["clauses:returning"] = true
	}
	if c.Unscoped {
		w.info.Classes["unscoped"] = true
	}
	for _, v := range c.SetVals {
		w.arg(v)
	}
	if c.SetRec != nil {
		w.rec(*c.SetRec)
	}
	for _, r := range c.Rows {
		w.rec(r)
	}
	for _, r := range c.MapRows {
		for _, v := range r.Vals {
			w.arg(v)
		}
	}
	if k := c.Conflict; k != nil {
		w.info.Classes["upsert:"+k.Kind] = true
		for _, v := range k.Vals {
			w.arg(v)
		}
		if k.Where != nil {
			w.info.Classes["upsert:where"] = true
			w.cl(*k.Where)
		}
	}
	if c.Raw != nil {
		w.tmpl(c.Raw)
	}
}

func recIDs(c *Chain) []int64 {
	var out []int64
	if c.DelRec != nil {
		out = append(out, c.DelRec.ID)
	}
	for _, r := range c.Rows {
		out = append(out, r.ID)
	}
	return out
}

// LiteralQ is the number of '?' characters of string literals that stay in the statement text.
func (c *Chain) LiteralQ() int {
	if c.Kind == "query" && c.Sel != nil && c.Fin != "count" {
		return c.Sel.LitQ
	}
	return 0
}

// Describe walks the chain. literalLimit: LIMIT/OFFSET values are legitimately
// part of the text (SQLite dialector), so they are not leak sentinels.
func (c *Chain) Describe(literalLimit bool) Info {
	w := &walker{info: Info{Hazards: map[string]bool{}, Classes: map[string]bool{}}, lit: literalLimit}
	w.chain(c)
	fin := c.Kind
	switch c.Kind {
	case "query":
		fin = "fin:" + c.Fin
	case "update":
		fin = "fin:" + c.UpKind
	case "delete":
		fin = "fin:delete"
		if c.softDelete() {
			fin = "fin:delete-soft"
		}
	case "create":
		fin = "fin:create-" + c.CrKind
		if c.Batched() {
			w.info.Classes["batch:"+c.Batch] = true
			if len(c.Rows) > c.BatchSize {
				w.info.Classes["batch:several"] = true
			} else {
				w.info.Classes["batch:single"] = true
			}
		}
	case "save":
		fin = "fin:save-" + c.CrKind
		if c.CrKind == "struct" && c.Rows[0].ID != 0 {
			fin += "-update"
		}
	case "firstor":
		fin = "fin:" + c.Fin
	default:
		fin = "fin:" + c.Kind
	}
	w.info.Classes[fin] = true
	w.info.Classes["base:"+c.Base] = true
	if c.SkipHooks {
		w.info.Classes["session:skiphooks"] = true
	}
	for flag, on := range map[string]bool{"session:allow-global-update": c.AllowGlobal, "distinct": c.Distinct, "value:ptr-elems": c.PtrElems,
		"value:map-ptr": c.MapPtr, "value:struct-ptr": c.SetPtr, "firstor:attrs": c.Attrs != nil, "firstor:assign": c.Assign != nil, "firstor:model": c.WithModel,
		"hook:after-create": c.Base == "owner" && !c.SkipHooks && (c.Kind == "create" && c.CrKind != "map" && c.CrKind != "maps" || c.Kind == "save" || c.Fin == "firstorcreate")} {
		if on {
			w.info.Classes[flag] = true
		}
	}
	if c.ColMode != "" {
		w.info.Classes["columns:"+c.ColMode+"-"+c.Kind] = true
	}
	if c.Refused {
		w.info.Classes["refused:"+c.Kind] = true
		if c.EmptyCond != "" {
			w.info.Classes["refused:empty-"+c.EmptyCond] = true
		}
	}
	if len(c.ModelIDs) > 0 {
		w.info.Classes["model:slice"] = true
	}
	if c.Kind == "delete" && c.ModelID != 0 {
		w.info.Classes["delete:model-key"] = true
	}
	return w.info
}

// SortedKeys of a set, for deterministic class lists.
func SortedKeys(m map[string]bool) []string {
	out := make([]string, 0, len(m))
	for k := range m {
		out = append(out, k)
	}
	sort.Strings(out)
	return out
}
