package chains

import (
	"bytes"
	"database/sql"
	"database/sql/driver"
	"encoding/json"
	"fmt"
	"reflect"
	"strconv"
	"strings"
	"time"
)

// Val describes one argument value. It is plain data: Go() builds the Go value
// handed to gorm (a fresh one on every call), Leaf()/Elems() say what the
// database must receive for it.
type Val struct {
	K string  `json:"k"`
	S string  `json:"s,omitempty"`
	I int64   `json:"i,omitempty"`
	F float64 `json:"f,omitempty"`
	B bool    `json:"b,omitempty"`
	L []Val   `json:"l,omitempty"`
}

// Scalar kinds.
const (
	KStr        = "str"
	KInt        = "int"
	KI64        = "i64"
	KUint       = "uint"
	KF64        = "f64"
	KBool       = "bool"
	KTime       = "time"
	KNil        = "nil"
	KPStr       = "pstr"
	KPI64       = "pi64"
	KNilPStr    = "nilpstr"
	KNullStr    = "nullstr"
	KNullStr0   = "nullstr0"
	KNullI64    = "nulli64"
	KBytes      = "bytes"
	KHash       = "hash" // chains.Hash, a named []byte type
	KRaw        = "raw"  // json.RawMessage
	KValuer     = "valuer"
	KPValuer    = "pvaluer"
	KNilPValuer = "nilpvaluer"
	KNilGVal    = "nilgval"  // (*chains.Concat)(nil): a nil pointer that is a gorm.Valuer
	KGormValuer = "gval"     // gorm.Valuer rendering "(? || ?)" with S and I
	KVSlice     = "vslice"   // chains.StrList{S, "tail"}: a slice type implementing driver.Valuer
	KNullTime   = "nulltime" // sql.NullTime (valid)
	KReenter    = "reenter"  // chains.Reenter: a gorm.Valuer that runs ReenterHook while the statement is built
	// slice kinds
	KStrs   = "strs"
	KInts   = "ints"
	KI64s   = "i64s"
	KF64s   = "f64s"
	KAnys   = "anys"
	KArr2   = "arr2"   // [2]string
	KArr3   = "arr3"   // [3]int
	KIDs    = "ids"    // chains.IDs ([]int64)
	KLevels = "levels" // []chains.Level (named uint8 elements)
	KLevArr = "levarr" // [2]chains.Level
	KTinys  = "tinys"  // []chains.Tiny (named int8)
	KPorts  = "ports"  // []chains.Port (named uint16)
	KNames  = "names"  // chains.Names ([]string)
	KTuples = "tuples" // [][]interface{}
)

// IsSlice reports whether v expands to several placeholders.
func (v Val) IsSlice() bool {
	switch v.K {
	case KStrs, KInts, KI64s, KF64s, KAnys, KArr2, KArr3, KIDs, KNames, KTuples, KLevels, KLevArr, KTinys, KPorts:
		return true
	}
	return false
}

// BytesLike: []byte and the named byte-slice types; each is ONE value.
func (v Val) BytesLike() bool { return v.K == KBytes || v.K == KHash || v.K == KRaw }

// EqList: the slice types clause.Eq/Neq expand to IN (...) by name; any other
// slice or array reaching them is rendered by the generic value writer as "(?,?)".
func (v Val) EqList() bool {
	switch v.K {
	case KStrs, KInts, KI64s, KAnys:
		return true
	}
	return false
}

// NilLike: the value is SQL NULL (rendered IS NULL by the equality builders).
func (v Val) NilLike() bool {
	switch v.K {
	case KNil, KNilPStr, KNullStr0, KNilPValuer, KNilGVal:
		return true
	}
	return false
}

var sentinelEpoch = time.Date(2471, 3, 4, 5, 6, 7, 0, time.UTC)

func (v Val) time() time.Time { return sentinelEpoch.Add(time.Duration(v.I) * time.Second) }

// Go builds the value passed to gorm.
func (v Val) Go() interface{} {
	switch v.K {
	case KStr:
		return v.S
	case KInt:
		return int(v.I)
	case KI64:
		return v.I
	case KUint:
		return uint(v.I)
	case KF64:
		return v.F
	case KBool:
		return v.B
	case KTime:
		return v.time()
	case KNil:
		return nil
	case KPStr:
		s := v.S
		return &s
	case KPI64:
		i := v.I
		return &i
	case KNilPStr:
		return (*string)(nil)
	case KNullStr:
		return sql.NullString{String: v.S, Valid: true}
	case KNullStr0:
		return sql.NullString{}
	case KNullI64:
		return sql.NullInt64{Int64: v.I, Valid: true}
	case KBytes:
		return []byte(v.S)
	case KHash:
		return Hash(v.S)
	case KRaw:
		return json.RawMessage(v.S)
	case KValuer:
		return Wrapped{S: v.S}
	case KPValuer:
		return &Wrapped{S: v.S}
	case KNilPValuer:
		return (*Wrapped)(nil)
	case KNilGVal:
		return (*Concat)(nil)
	case KGormValuer:
		return Concat{A: v.S, B: v.I}
	case KReenter:
		return Reenter{V: v.I}
	case KVSlice:
		return StrList{v.S, "tail"}
	case KNullTime:
		return sql.NullTime{Time: v.time(), Valid: true}
	case KStrs:
		out := make([]string, len(v.L))
		for i, e := range v.L {
			out[i] = e.S
		}
		return out
	case KInts:
		out := make([]int, len(v.L))
		for i, e := range v.L {
			out[i] = int(e.I)
		}
		return out
	case KI64s:
		out := make([]int64, len(v.L))
		for i, e := range v.L {
			out[i] = e.I
		}
		return out
	case KF64s:
		out := make([]float64, len(v.L))
		for i, e := range v.L {
			out[i] = e.F
		}
		return out
	case KAnys:
		out := make([]interface{}, len(v.L))
		for i, e := range v.L {
			out[i] = e.Go()
		}
		return out
	case KArr2:
		return [2]string{v.L[0].S, v.L[1].S}
	case KArr3:
		return [3]int{int(v.L[0].I), int(v.L[1].I), int(v.L[2].I)}
	case KLevels:
		out := make([]Level, len(v.L))
		for i, e := range v.L {
			out[i] = Level(e.I)
		}
		return out
	case KLevArr:
		return [2]Level{Level(v.L[0].I), Level(v.L[1].I)}
	case KTinys:
		out := make([]Tiny, len(v.L))
		for i, e := range v.L {
			out[i] = Tiny(e.I)
		}
		return out
	case KPorts:
		out := make([]Port, len(v.L))
		for i, e := range v.L {
			out[i] = Port(e.I)
		}
		return out
	case KIDs:
		out := make(IDs, len(v.L))
		for i, e := range v.L {
			out[i] = e.I
		}
		return out
	case KNames:
		out := make(Names, len(v.L))
		for i, e := range v.L {
			out[i] = e.S
		}
		return out
	case KTuples:
		out := make([][]interface{}, len(v.L))
		for i, e := range v.L {
			out[i] = e.Go().([]interface{})
		}
		return out
	}
	panic("chains: unknown value kind " + v.K)
}

// Leaves is what the driver must receive for the value when it is bound as a
// single parameter (scalars), or for each element (slices; nested slices are
// flattened; an empty nested slice binds nothing).
func (v Val) Leaves() []interface{} {
	switch v.K {
	case KStr, KPStr, KNullStr, KValuer, KPValuer:
		return []interface{}{v.S}
	case KInt, KI64, KUint, KPI64, KNullI64, KReenter:
		return []interface{}{v.I}
	case KF64:
		return []interface{}{v.F}
	case KBool:
		return []interface{}{v.B}
	case KTime, KNullTime:
		return []interface{}{v.time()}
	case KVSlice:
		return []interface{}{v.S + "|tail"}
	case KNil, KNilPStr, KNullStr0, KNilPValuer, KNilGVal:
		return []interface{}{nil}
	case KBytes, KHash, KRaw:
		return []interface{}{[]byte(v.S)}
	case KGormValuer:
		return []interface{}{v.S, v.I}
	}
	var out []interface{}
	for _, e := range v.L {
		out = append(out, e.Leaves()...)
	}
	return out
}

// Tokens returns the sentinel texts that must never occur in SQL text.
func (v Val) Tokens() []string {
	switch v.K {
	case KStr, KPStr, KNullStr, KValuer, KPValuer, KBytes, KHash, KRaw:
		return []string{tokenOf(v.S)}
	case KInt, KI64, KUint, KPI64, KNullI64, KReenter:
		if v.I < 1000000 {
			return nil // small keys of seeded rows are not sentinels
		}
		return []string{strconv.FormatInt(v.I, 10)}
	case KF64:
		return []string{strconv.FormatInt(int64(v.F), 10)}
	case KTime, KNullTime:
		return []string{"2471-"}
	case KVSlice:
		return []string{tokenOf(v.S)}
	case KGormValuer:
		return []string{tokenOf(v.S), strconv.FormatInt(v.I, 10)}
	}
	var out []string
	for _, e := range v.L {
		out = append(out, e.Tokens()...)
	}
	return out
}

// Hostile reports whether a string payload carries a character that would
// change the statement if it were spliced into the text.
func (v Val) Hostile() bool {
	switch v.K {
	case KStr, KPStr, KNullStr, KValuer, KPValuer, KBytes, KHash, KRaw, KGormValuer, KVSlice:
		return strings.ContainsAny(v.S, "'\"`\\?@)($;-\n%")
	}
	for _, e := range v.L {
		if e.Hostile() {
			return true
		}
	}
	return false
}

// String renders the value canonically.
func (v Val) String() string {
	switch v.K {
	case KStr, KPStr, KNullStr, KValuer, KPValuer, KBytes, KHash, KRaw, KVSlice:
		return v.K + ":" + strconv.Quote(v.S)
	case KInt, KI64, KUint, KPI64, KNullI64, KTime, KNullTime, KReenter:
		return v.K + ":" + strconv.FormatInt(v.I, 10)
	case KF64:
		return v.K + ":" + strconv.FormatFloat(v.F, 'g', -1, 64)
	case KBool:
		return v.K + ":" + strconv.FormatBool(v.B)
	case KGormValuer:
		return v.K + ":" + strconv.Quote(v.S) + "+" + strconv.FormatInt(v.I, 10)
	}
	if len(v.L) == 0 && !v.IsSlice() {
		return v.K
	}
	parts := make([]string, len(v.L))
	for i, e := range v.L {
		parts[i] = e.String()
	}
	return v.K + "[" + strings.Join(parts, ",") + "]"
}

// tokens are "Zq<digits>x": letters and digits only, so they survive any quoting unchanged.
func tokenOf(s string) string {
	i := strings.Index(s, "Zq")
	if i < 0 {
		return s
	}
	j := i + 2
	for j < len(s) && s[j] >= '0' && s[j] <= '9' {
		j++
	}
	if j < len(s) && s[j] == 'x' {
		j++
	}
	return s[i:j]
}

// Norm converts a bound value (as found in Statement.Vars or in the driver's
// argument list) to the canonical driver value, the way database/sql does:
// nil pointers are NULL, pointers are dereferenced, driver.Valuer is called,
// integers widen to int64, floats to float64.
// NamedLeaf is a value bound under a driver-level name (sql.NamedArg / driver.NamedValue.Name).
type NamedLeaf struct {
	Name string
	V    interface{}
}

// NormArg normalizes one driver argument.
func NormArg(name string, v interface{}) interface{} {
	if name != "" {
		return NamedLeaf{Name: name, V: Norm(v)}
	}
	return Norm(v)
}

func Norm(v interface{}) interface{} {
	if na, ok := v.(sql.NamedArg); ok {
		return NamedLeaf{Name: na.Name, V: Norm(na.Value)}
	}
	for depth := 0; depth < 8; depth++ {
		if v == nil {
			return nil
		}
		rv := reflect.ValueOf(v)
		if rv.Kind() == reflect.Ptr && rv.IsNil() {
			return nil
		}
		if vr, ok := v.(driver.Valuer); ok {
			x, err := vr.Value()
			if err != nil {
				return fmt.Sprintf("valuer error: %v", err)
			}
			v = x
			continue
		}
		switch rv.Kind() {
		case reflect.Ptr:
			v = rv.Elem().Interface()
			continue
		case reflect.Int, reflect.Int8, reflect.Int16, reflect.Int32, reflect.Int64:
			return rv.Int()
		case reflect.Uint, reflect.Uint8, reflect.Uint16, reflect.Uint32, reflect.Uint64:
			return int64(rv.Uint())
		case reflect.Float32, reflect.Float64:
			return rv.Float()
		case reflect.Bool:
			return rv.Bool()
		case reflect.String:
			return rv.String()
		case reflect.Slice:
			if rv.Type().Elem().Kind() == reflect.Uint8 {
				return rv.Bytes()
			}
		}
		return v
	}
	return v
}

// Same compares two normalized driver values.
func Same(a, b interface{}) bool {
	if x, ok := a.(NamedLeaf); ok {
		y, ok := b.(NamedLeaf)
		return ok && x.Name == y.Name && Same(x.V, y.V)
	}
	if _, ok := b.(NamedLeaf); ok {
		return false
	}
	switch x := a.(type) {
	case nil:
		if y, ok := b.([]byte); ok {
			return y == nil
		}
		return b == nil
	case []byte:
		if b == nil {
			return x == nil
		}
		y, ok := b.([]byte)
		return ok && bytes.Equal(x, y)
	case time.Time:
		y, ok := b.(time.Time)
		return ok && x.Equal(y)
	}
	if _, ok := b.([]byte); ok {
		return false
	}
	if _, ok := b.(time.Time); ok {
		return false
	}
	return reflect.TypeOf(a) == reflect.TypeOf(b) && a == b
}

// Render prints a normalized value list for messages.
func Render(vs []interface{}) string {
	parts := make([]string, len(vs))
	for i, v := range vs {
		switch x := v.(type) {
		case NamedLeaf:
			parts[i] = ":" + x.Name + "=" + Render([]interface{}{x.V})
		case nil:
			parts[i] = "NULL"
		case string:
			parts[i] = strconv.Quote(x)
		case []byte:
			parts[i] = "b" + strconv.Quote(string(x))
		case time.Time:
			parts[i] = x.UTC().Format(time.RFC3339)
		default:
			parts[i] = fmt.Sprintf("%T(%v)", v, v)
		}
	}
	return "[" + strings.Join(parts, ", ") + "]"
}

// NormAll normalizes a list.
func NormAll(vs []interface{}) []interface{} {
	out := make([]interface{}, len(vs))
	for i, v := range vs {
		out[i] = Norm(v)
	}
	return out
}

// SameAll compares two normalized lists; it returns the first differing index or -1.
func SameAll(a, b []interface{}) int {
	n := len(a)
	if len(b) < n {
		n = len(b)
	}
	for i := 0; i < n; i++ {
		if !Same(a[i], b[i]) {
			return i
		}
	}
	if len(a) != len(b) {
		return n
	}
	return -1
}
