package chains

import "strings"

// ClassRescanBytes is a known-finding class: inside the ON condition of a
// relation join or inside a db.Raw sub-query, a []byte whose placeholder
// directly follows '(' in the rendered text (the first element of a list, or
// the first argument of an expression placed in "(?)"). gorm renders these
// fragments once and then scans the rendered text a second time as a template
// (callbacks.BuildQuerySQL genJoinClause, Statement.AddVar case *DB); on that
// second scan the []byte after '(' is expanded into one bound integer per byte.
const ClassRescanBytes = "rescan-bytes"

type rescanWalk struct {
	fix bool
	hit bool
}

func (w *rescanWalk) bytesAt(v *Val) {
	if v.BytesLike() {
		w.hit = true
		if w.fix {
			v.K = KStr
		}
	}
}

// list: the first element of a parenthesised list (of every tuple, for row values).
func (w *rescanWalk) list(l []Val) {
	if len(l) == 0 {
		return
	}
	if l[0].K == KAnys {
		for i := range l {
			w.list(l[i].L)
		}
		return
	}
	w.bytesAt(&l[0])
}

func (w *rescanWalk) arg(a *Arg, rescan, afterParen bool) {
	switch {
	case a.V != nil:
		if !rescan {
			return
		}
		if a.V.IsSlice() {
			w.list(a.V.L)
		} else if afterParen {
			w.bytesAt(a.V)
		}
	case a.E != nil:
		w.tmpl(a.E, rescan, afterParen)
	case a.Q != nil:
		w.chain(a.Q, rescan)
	case a.R != nil:
		w.tmpl(a.R, true, false)
	}
}

func (w *rescanWalk) tmpl(t *Tmpl, rescan, outerParen bool) {
	if t.Named() {
		for i := range t.Binds {
			w.arg(&t.Binds[i].A, rescan, false)
		}
		return
	}
	for i := range t.Slots {
		ap := t.Slots[i].Paren || (i == 0 && outerParen && strings.HasPrefix(t.SQL, "?"))
		w.arg(&t.Slots[i].A, rescan, ap)
	}
}

func (w *rescanWalk) cl(c *Cl, rescan bool) {
	if c.A != nil {
		w.arg(c.A, rescan, false)
	}
	if rescan {
		w.list(c.In)
	}
	for i := range c.Sub {
		w.cl(&c.Sub[i], rescan)
	}
}

func (w *rescanWalk) unit(u *Unit, rescan bool) {
	switch u.Form {
	case "tmpl", "named":
		w.tmpl(u.T, rescan, false)
	case "map", "colval":
		for i := range u.Vals {
			w.arg(&u.Vals[i], rescan, false)
		}
	case "clause":
		w.cl(u.Cl, rescan)
	case "group":
		for i := range u.Group {
			w.unit(&u.Group[i].U, rescan)
		}
	}
}

func (w *rescanWalk) chain(c *Chain, rescan bool) {
	if c.Sub != nil {
		w.chain(c.Sub, rescan)
	}
	if c.Sel != nil {
		w.tmpl(c.Sel, rescan, false)
	}
	for i := range c.Joins {
		j := &c.Joins[i]
		if j.T != nil {
			w.tmpl(j.T, rescan, false)
		}
		if j.On != nil {
			w.unit(j.On, true)
		}
	}
	for i := range c.Conds {
		w.unit(&c.Conds[i].U, rescan)
	}
	if c.Inline != nil {
		w.unit(c.Inline, rescan)
	}
	if c.Having != nil {
		w.unit(c.Having, rescan)
	}
	if c.OrderExpr != nil {
		w.tmpl(c.OrderExpr, rescan, false)
	}
	for i := range c.SetVals {
		w.arg(&c.SetVals[i], rescan, false)
	}
	for i := range c.MapRows {
		for k := range c.MapRows[i].Vals {
			w.arg(&c.MapRows[i].Vals[k], rescan, false)
		}
	}
	if k := c.Conflict; k != nil {
		for i := range k.Vals {
			w.arg(&k.Vals[i], rescan, false)
		}
		if k.Where != nil {
			w.cl(k.Where, rescan)
		}
	}
	if c.Raw != nil {
		w.tmpl(c.Raw, rescan, false)
	}
}

// rescanBytes reports whether the chain falls in ClassRescanBytes; with fix it
// replaces the offending []byte values by strings with the same payload.
func rescanBytes(c *Chain, fix bool) bool {
	w := &rescanWalk{fix: fix}
	w.chain(c, false)
	return w.hit
}

// InRescanBytes reports whether the chain falls in ClassRescanBytes.
func (c *Chain) InRescanBytes() bool { return rescanBytes(c, false) }
