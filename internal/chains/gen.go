package chains

import (
	"fmt"
	"math/bits"
	"sort"
	"strconv"
	"strings"

	"gorm.io/gorm"
	"pgregory.net/rapid"
)

// Config of the generator.
type Config struct {
	// Exec: generate only shapes that SQLite accepts (no row-value IN lists).
	Exec bool
	// Big: larger bounds (thorough tier).
	Big bool
	// Skip lists finding classes that are excluded by construction; Excluded is
	// told every time a draw was changed because of it.
	Skip     map[string]bool
	Excluded func(class string)
}

type gen struct {
	t   *rapid.T
	cfg Config
	n   int // sentinel counter: every value of a case is distinct
	// noExec is set when a generated shape is only valid for the statement builder
	noExec bool
}

// Gen draws one chain.
func Gen(t *rapid.T, cfg Config) *Chain {
	g := &gen{t: t, cfg: cfg}
	c := g.chain()
	c.NoExec = g.noExec
	if c.Raw != nil && g.pct("rawspace", 45) {
		// multi-line literals: leading / trailing white space is part of the statement text
		c.Raw.SQL = g.oneOf("rawlead", "", " ", "\n", "\n  ") + c.Raw.SQL + g.oneOf("rawtrail", "", " ", "\n", " \n")
	}
	sanitize(c)
	if rescanBytes(c, false) && cfg.Skip[ClassRescanBytes] {
		rescanBytes(c, true)
		if cfg.Excluded != nil {
			cfg.Excluded(ClassRescanBytes)
		}
	}
	if err := c.Validate(); err != nil {
		t.Fatalf("harness: generator produced an inconsistent template: %v in %s", err, c)
	}
	return c
}

// sanitize keeps the generated values inside the property's domain: a []byte
// directly after '(' is expanded per byte by the template scanner (DESIGN C01 D:
// existing behaviour, not asserted against), so such slots carry the same
// payload as a string instead.
func sanitize(c *Chain) {
	w := &walker{info: Info{Hazards: map[string]bool{}, Classes: map[string]bool{}}}
	w.onTmpl = func(t *Tmpl) {
		for i := range t.Slots {
			if v := t.Slots[i].A.V; v != nil && v.BytesLike() && (t.Slots[i].Paren || t.NoParen) {
				v.K = KStr
			}
		}
	}
	w.chain(c)
}

// pick draws a uniform index: rapid's integer generators are deliberately
// biased towards small values, which would make the first alternative of every
// choice (and every low-percentage option) dominate; fair coin flips are not biased.
func (g *gen) pick(label string, n int) int {
	if n <= 1 {
		return 0
	}
	v := 0
	for i, k := 0, bits.Len(uint(n-1))+2; i < k; i++ {
		v <<= 1
		if rapid.Bool().Draw(g.t, label) {
			v |= 1
		}
	}
	return v % n
}

func (g *gen) pct(label string, p int) bool { return g.pick(label, 100) < p }

// payload draws a number whose distribution does not matter.
func (g *gen) payload(label string, n int) int { return rapid.IntRange(0, n-1).Draw(g.t, label) }
func (g *gen) oneOf(label string, xs ...string) string {
	return xs[g.pick(label, len(xs))]
}

// weighted picks an index by weight.
func (g *gen) weighted(label string, ws ...int) int {
	sum := 0
	for _, w := range ws {
		sum += w
	}
	r := g.pick(label, sum)
	for i, w := range ws {
		if r < w {
			return i
		}
		r -= w
	}
	return len(ws) - 1
}

// ---- values -------------------------------------------------------------------------------------

var hostileFragments = []string{
	"'", "''", "\"", "`", "\\", "\\'", "?", "??", "@n1", "@N1 ", "@who,", ")", "(", "$1", "$2", "--", ";", "\n", "\r\n", "\t",
	"%", "_", "é", "日本", "🙂", "' OR '1'='1", "'; DROP TABLE items; --", "?)", "(?)", " ", "/*", "*/", "x' AND 1=(SELECT 1) --", "\\\\", "{}", "[]", ":", ":name", "$10",
}

func (g *gen) next() int { g.n++; return g.n }

func (g *gen) token() string { return fmt.Sprintf("Zq%dx", 10000+g.next()) }

func (g *gen) str() string {
	tok := g.token()
	if g.pct("plain", 25) {
		return tok
	}
	var b strings.Builder
	for i, k := 0, g.pick("npre", 3); i < k; i++ {
		b.WriteString(hostileFragments[g.pick("pre", len(hostileFragments))])
	}
	b.WriteString(tok)
	for i, k := 0, g.pick("nsuf", 3); i < k; i++ {
		b.WriteString(hostileFragments[g.pick("suf", len(hostileFragments))])
	}
	return b.String()
}

// num: a 7-digit integer unique within the case.
func (g *gen) num() int64 {
	k := g.next()
	// one block of 10007 numbers per drawn value, without wrap-around: cases with more than 800
	// values (1100-element lists) must not repeat a number, or a bound value could equal a number
	// that is legitimately part of the text (the literal LIMIT of the SQLite dialector)
	return 1000000 + int64(k)*10007 + int64(g.payload("num", 10007))
}

func (g *gen) strVal(kinds ...string) Val {
	if len(kinds) == 0 {
		kinds = []string{KStr, KStr, KStr, KPStr, KNullStr, KValuer, KPValuer, KBytes, KHash, KRaw, KVSlice}
	}
	return Val{K: kinds[g.pick("strkind", len(kinds))], S: g.str()}
}

func (g *gen) intVal() Val {
	kinds := []string{KInt, KInt, KI64, KUint, KPI64, KNullI64}
	return Val{K: kinds[g.pick("intkind", len(kinds))], I: g.num()}
}

func (g *gen) floatVal() Val {
	return Val{K: KF64, F: float64(g.num()) + []float64{0.25, 0.5, 0.75}[g.pick("frac", 3)]}
}

func (g *gen) nilVal() Val {
	return Val{K: []string{KNil, KNilPStr, KNullStr0, KNilPValuer, KNilGVal}[g.pick("nilkind", 5)]}
}

// scalar of a column class (str int float bool time); any = whatever.
func (g *gen) scalar(class string, nilPct int) Val {
	if nilPct > 0 && g.pct("isnil", nilPct) {
		return g.nilVal()
	}
	switch class {
	case "str":
		if g.pct("gval", 6) {
			return Val{K: KGormValuer, S: g.str(), I: g.num()}
		}
		return g.strVal()
	case "int":
		return g.intVal()
	case "float":
		return g.floatVal()
	case "bool":
		return Val{K: KBool, B: g.pct("b", 50)}
	case "time":
		return Val{K: g.oneOf("timekind", KTime, KTime, KNullTime), I: int64(g.next())*3600 + int64(g.payload("sec", 3600))}
	}
	switch g.weighted("anyclass", 45, 30, 8, 5, 12) {
	case 0:
		return g.scalar("str", 0)
	case 1:
		return g.scalar("int", 0)
	case 2:
		return g.scalar("float", 0)
	case 3:
		return g.scalar("bool", 0)
	default:
		return g.scalar("time", 0)
	}
}

// elem: a scalar used as list element; first = it will directly follow '('.
func (g *gen) elem(class string, nilPct int, first bool) Val {
	return g.scalar(class, nilPct)
}

// slice of a class. typed: only the slice types clause.Eq recognises.
func (g *gen) slice(class string, allowEmpty, typedOnly bool) Val {
	max := 5
	if g.cfg.Big {
		max = 8
	}
	lo := 1
	if allowEmpty {
		lo = 0
	}
	n := lo + g.pick("slicelen", max-lo+1)
	if n > 1 && g.pct("shortslice", 35) {
		n = 1 + g.pick("short", 2)
	}
	big := g.pct("bigslice", 1) && class != "float"
	if big {
		n = 1100 // more values than any preallocated buffer, four-digit placeholder numbers
	}
	var v Val
	switch class {
	case "str":
		v.K = []string{KStrs, KStrs, KAnys, KArr2, KNames}[g.pick("sk", 5)]
		if typedOnly && !v.EqList() && !g.oddEqList() {
			v.K = KStrs
		}
		if v.K == KArr2 {
			n = 2
		}
		for i := 0; i < n; i++ {
			if v.K == KAnys {
				v.L = append(v.L, g.elem("str", 10, i == 0))
			} else {
				v.L = append(v.L, Val{K: KStr, S: g.str()})
			}
		}
	case "float":
		v.K = KF64s
		if typedOnly && !g.oddEqList() {
			v.K = KAnys
		}
		for i := 0; i < n; i++ {
			v.L = append(v.L, g.floatVal())
		}
	default:
		v.K = []string{KInts, KI64s, KAnys, KIDs, KArr3, KLevels, KLevArr, KTinys, KPorts}[g.pick("ik", 9)]
		if typedOnly && !v.EqList() && !g.oddEqList() {
			v.K = KI64s
		}
		if v.K == KArr3 {
			n = 3
		}
		if v.K == KLevArr {
			n = 2
		}
		for i := 0; i < n; i++ {
			if v.K == KAnys {
				v.L = append(v.L, g.scalar("int", 10))
			} else {
				v.L = append(v.L, Val{K: KInt, I: g.num()})
			}
		}
	}
	if big && len(v.L) == 1100 {
		// ten-digit sentinels: the seven-digit space is too small for this many distinct numbers
		for i := range v.L {
			if v.L[i].K != KStr && !v.L[i].NilLike() && v.L[i].S == "" {
				v.L[i].I = 3000000000 + int64(g.next())*1201 + int64(i)
			}
		}
	}
	if v.K != KAnys {
		// typed slices hold plain elements
		for i := range v.L {
			switch v.K {
			case KStrs, KArr2, KNames:
				v.L[i].K = KStr
			case KInts, KI64s, KIDs, KArr3:
				v.L[i].K = KInt
			case KLevels, KLevArr: // named uint8 elements: small numbers, each one bound value
				v.L[i] = Val{K: KInt, I: int64(1 + g.payload("level", 250))}
			case KTinys:
				v.L[i] = Val{K: KInt, I: int64(g.payload("tiny", 200) - 100)}
			case KPorts:
				v.L[i] = Val{K: KInt, I: int64(1000 + g.payload("port", 60000))}
			}
		}
	}
	return v
}

// oddEqList: let a slice/array type that clause.Eq/Neq do not know by name reach
// an equality builder. It is rendered "col = (?,?)" — one placeholder per
// element, which is what this property is about, but a row value SQLite
// rejects: only for the dry dialects.
func (g *gen) oddEqList() bool {
	if g.cfg.Exec || !g.pct("oddeqlist", 30) {
		return false
	}
	g.noExec = true
	return true
}

func pv(v Val) *Val { return &v }

// ---- scopes ----------------------------------------------------------------------------------------

type scope struct {
	table string // items owners tags t
	qual  string // qualifier written in template text ("" or "items.")
	model bool   // a schema is attached: struct and primary-key conditions are possible
	depth int    // nesting depth of the thing being generated
}

func init() {
	tableColumns["t"] = []column{{"name", "str"}, {"code", "int"}, {"owner_id", "uint"}}
}

func classOf(kind string) string {
	switch kind {
	case "str", "pstr", "nullstr", "bytes", "raw", "hash":
		return "str"
	case "int", "uint":
		return "int"
	}
	return kind
}

func (g *gen) col(sc scope, class string) (string, string) {
	var cands []column
	for _, c := range columnsOf(sc.table) {
		if class == "" || classOf(c.kind) == class {
			cands = append(cands, c)
		}
	}
	if len(cands) == 0 {
		cands = columnsOf(sc.table)
	}
	c := cands[g.pick("col", len(cands))]
	return c.name, classOf(c.kind)
}

// ---- arguments ------------------------------------------------------------------------------------

// exprArg: a gorm.Expr with its own arguments, nested as a value.
func (g *gen) exprArg(class string, sc scope) Arg {
	switch class {
	case "str":
		switch g.pick("exprstr", 3) {
		case 0:
			return Arg{E: &Tmpl{SQL: "lower(?)", Slots: []Slot{{A: Arg{V: pv(g.strVal()), E: nil}, Paren: true}}}}
		case 1:
			return Arg{E: &Tmpl{SQL: "? || ?", Slots: []Slot{{A: Arg{V: pv(g.strVal())}}, {A: Arg{V: pv(g.strVal(KStr))}}}}}
		default:
			return Arg{E: &Tmpl{SQL: "COALESCE(@n1, @n2, @n1)", Refs: []string{"n1", "n2", "n1"}, Carrier: "named",
				Binds: []Bind{{Name: "n1", A: Arg{V: pv(g.nilVal())}}, {Name: "n2", A: Arg{V: pv(g.strVal())}}}}}
		}
	default:
		switch g.pick("exprint", 3) {
		case 0:
			return Arg{E: &Tmpl{SQL: "abs(?)", Slots: []Slot{{A: Arg{V: pv(g.intVal())}, Paren: true}}}}
		case 1:
			return Arg{E: &Tmpl{SQL: "? + ?", Slots: []Slot{{A: Arg{V: pv(g.intVal())}}, {A: Arg{V: pv(g.floatVal())}}}}}
		default:
			if sc.depth < 2 {
				inner := g.exprArg("int", scope{depth: sc.depth + 1})
				return Arg{E: &Tmpl{SQL: "max(?, ?)", Slots: []Slot{{A: inner, Paren: true}, {A: Arg{V: pv(g.intVal())}}}}}
			}
			return Arg{E: &Tmpl{SQL: "abs(?)", Slots: []Slot{{A: Arg{V: pv(g.intVal())}, Paren: true}}}}
		}
	}
}

// subQuery: a one-column SELECT built by a chain. list=true: any number of
// rows (for IN), else a scalar aggregate.
func (g *gen) subQuery(list bool, depth int) *Chain {
	var q *Chain
	var sc scope
	if list {
		switch g.pick("subbase", 4) {
		case 0:
			q = &Chain{Kind: "query", Base: "owner", SelCols: []string{"id"}}
			sc = scope{table: "owners", model: true}
		case 1:
			q = &Chain{Kind: "query", Base: "t:owners", SelCols: []string{"age"}}
			sc = scope{table: "owners"}
		case 2:
			q = &Chain{Kind: "query", Base: "item", SelCols: []string{"code"}, Unscoped: g.pct("subunscoped", 15)}
			sc = scope{table: "items", model: true}
		default:
			q = &Chain{Kind: "query", Base: "tag", SelCols: []string{"item_id"}}
			sc = scope{table: "tags", model: true}
		}
	} else {
		switch g.pick("subscalar", 3) {
		case 0:
			q = &Chain{Kind: "query", Base: "tag", SelCols: []string{"MAX(weight)"}}
			sc = scope{table: "tags", model: true}
		case 1:
			q = &Chain{Kind: "query", Base: "t:owners", Sel: &Tmpl{SQL: "COALESCE(MIN(age), ?)", Slots: []Slot{{A: Arg{V: pv(g.intVal())}}}}}
			sc = scope{table: "owners"}
		default:
			q = &Chain{Kind: "query", Base: "item", Sel: &Tmpl{SQL: "COUNT(*) + @n1", Refs: []string{"n1"}, Carrier: g.oneOf("subcar", "named", "map"),
				Binds: []Bind{{Name: "n1", A: Arg{V: pv(g.intVal())}}}}}
			sc = scope{table: "items", model: true}
		}
	}
	sc.depth = depth + 1
	n := g.weighted("subconds", 15, 55, 30)
	q.Conds = g.conds(sc, n, false)
	if list && g.pct("sublimit", 15) {
		q.Limit = int(g.num())
	}
	return q
}

func (g *gen) rawSub(depth int) *Tmpl {
	sc := scope{table: "owners", depth: depth + 1}
	if g.pct("rawsubnamed", 30) {
		t := g.namedTmpl(sc, 1+g.pick("rawsubn", 2), "SELECT id FROM owners WHERE ")
		return t
	}
	return g.posTmpl(sc, 1+g.pick("rawsubn", 2), "SELECT id FROM owners WHERE ", false)
}

// ---- templates --------------------------------------------------------------------------------------

var cmpOps = []string{"=", "<>", ">", "<", ">=", "<="}

// piece appends one comparison to the template text and returns its slots.
func (g *gen) piece(sc scope, b *strings.Builder, rich bool) []Slot {
	kind := g.weighted("piece", 30, 8, 12, 14, 5, 6, 8, 7, 4, 3, 3)
	if !rich && kind >= 6 {
		kind = g.weighted("piece-simple", 30, 8, 12, 14, 5, 6)
	}
	if sc.depth >= 3 && (kind == 7 || kind == 10) {
		kind = 0
	}
	switch kind {
	case 0: // col op ?
		col, class := g.col(sc, "")
		if sc.table == "items" && g.pct("timecol", 12) {
			col, class = g.oneOf("tcol", "created_at", "updated_at"), "time"
		}
		op := cmpOps[g.pick("op", len(cmpOps))]
		fmt.Fprintf(b, "%s%s %s ?", sc.qual, col, op)
		return []Slot{{A: Arg{V: pv(g.scalar(class, 8))}}}
	case 1: // LIKE
		col, _ := g.col(sc, "str")
		fmt.Fprintf(b, "%s%s LIKE ?", sc.qual, col)
		return []Slot{{A: Arg{V: pv(g.strVal())}}}
	case 2: // IN ?
		col, class := g.col(sc, "")
		fmt.Fprintf(b, "%s%s IN ?", sc.qual, col)
		return []Slot{{A: Arg{V: pv(g.slice(class, true, false))}}}
	case 3: // IN (?)
		col, class := g.col(sc, "")
		fmt.Fprintf(b, "%s%s IN (?)", sc.qual, col)
		if g.pct("inscalar", 15) {
			return []Slot{{A: Arg{V: pv(g.scalar(class, 10))}, Paren: true}}
		}
		return []Slot{{A: Arg{V: pv(g.slice(class, true, false))}, Paren: true}}
	case 4: // NOT IN (?)
		col, class := g.col(sc, "")
		fmt.Fprintf(b, "%s%s NOT IN (?)", sc.qual, col)
		return []Slot{{A: Arg{V: pv(g.slice(class, true, false))}, Paren: true}}
	case 5: // BETWEEN
		col, class := g.col(sc, "int")
		fmt.Fprintf(b, "%s%s BETWEEN ? AND ?", sc.qual, col)
		return []Slot{{A: Arg{V: pv(g.scalar(class, 0))}}, {A: Arg{V: pv(g.scalar(class, 0))}}}
	case 6: // col = Expr
		col, class := g.col(sc, "")
		if class != "str" {
			class = "int"
		}
		paren := g.pct("exprparen", 30)
		if paren {
			fmt.Fprintf(b, "%s%s = (?)", sc.qual, col)
		} else {
			fmt.Fprintf(b, "%s%s = ?", sc.qual, col)
		}
		return []Slot{{A: g.exprArg(class, sc), Paren: paren}}
	case 7: // sub-query
		col, _ := g.col(sc, "int")
		switch g.pick("subform", 3) {
		case 0:
			fmt.Fprintf(b, "%s%s IN (?)", sc.qual, col)
			return []Slot{{A: Arg{Q: g.subQuery(true, sc.depth)}, Paren: true}}
		case 1:
			fmt.Fprintf(b, "%s%s %s (?)", sc.qual, col, cmpOps[g.pick("op", len(cmpOps))])
			return []Slot{{A: Arg{Q: g.subQuery(false, sc.depth)}, Paren: true}}
		default:
			b.WriteString("EXISTS (?)")
			return []Slot{{A: Arg{Q: g.subQuery(true, sc.depth)}, Paren: true}}
		}
	case 8: // identifier argument
		col, class := g.col(sc, "")
		other, _ := g.col(sc, class)
		fmt.Fprintf(b, "%s%s <> ?", sc.qual, col)
		return []Slot{{A: Arg{Col: other}}}
	case 9: // row-value IN list (statement builder only)
		if g.cfg.Exec {
			col, class := g.col(sc, "")
			fmt.Fprintf(b, "%s%s = ?", sc.qual, col)
			return []Slot{{A: Arg{V: pv(g.scalar(class, 0))}}}
		}
		g.noExec = true
		c1, k1 := g.col(sc, "str")
		c2, k2 := g.col(sc, "int")
		fmt.Fprintf(b, "(%s%s, %s%s) IN ?", sc.qual, c1, sc.qual, c2)
		v := Val{K: KTuples}
		for i, n := 0, 1+g.pick("ntuples", 3); i < n; i++ {
			v.L = append(v.L, Val{K: KAnys, L: []Val{g.elem(k1, 0, true), g.elem(k2, 0, false)}})
		}
		return []Slot{{A: Arg{V: &v}}}
	default: // db.Raw sub-query
		col, _ := g.col(sc, "int")
		fmt.Fprintf(b, "%s%s IN (?)", sc.qual, col)
		return []Slot{{A: Arg{R: g.rawSub(sc.depth)}, Paren: true}}
	}
}

// posTmpl: prefix + 1..n pieces joined by AND / OR.
func (g *gen) posTmpl(sc scope, n int, prefix string, rich bool) *Tmpl {
	var b strings.Builder
	b.WriteString(prefix)
	t := &Tmpl{}
	wrap := n > 1 && g.pct("wrap", 20)
	if wrap {
		b.WriteByte('(')
	}
	for i := 0; i < n; i++ {
		if i > 0 {
			b.WriteString(g.oneOf("joiner", " AND ", " OR ", " AND ", "\nOR "))
		}
		if g.pct("aposcomment", 10) {
			// an apostrophe that does not delimit a string literal: inside a comment
			b.WriteString(g.oneOf("apos", "/* don't */ ", "/* it's o'clock' */ ", "-- can't\n"))
		}
		t.Slots = append(t.Slots, g.piece(sc, &b, rich)...)
	}
	if wrap {
		b.WriteByte(')')
	}
	t.SQL = b.String()
	return t
}

// namedTmpl: prefix + pieces using @names; names may repeat.
func (g *gen) namedTmpl(sc scope, n int, prefix string, allowStruct ...bool) *Tmpl {
	t := &Tmpl{Carrier: []string{"named", "named", "map", "struct"}[g.pick("carrier", 4)]}
	if len(allowStruct) > 0 && !allowStruct[0] && t.Carrier == "struct" {
		t.Carrier = "map"
	}
	if t.Carrier == "struct" {
		t.CarrierPtr = g.pct("carrierptr", 30)
	}
	pool := []string{"n1", "n2", "who"}
	if t.Carrier == "struct" {
		pool = []string{"N1", "N2", "N3"}
	}
	binds := map[string]Arg{}
	classes := map[string]string{}
	var b strings.Builder
	b.WriteString(prefix)
	wrap := g.pct("nwrap", 25)
	if wrap {
		b.WriteByte('(')
	}
	for i := 0; i < n; i++ {
		if i > 0 {
			b.WriteString(g.oneOf("joiner", " AND ", " OR "))
		}
		name := pool[g.pick("name", len(pool))]
		col, class := g.col(sc, classes[name])
		if prev, ok := binds[name]; ok {
			// reuse: the same value bound once more
			if prev.Q != nil {
				icol, _ := g.col(sc, "int")
				fmt.Fprintf(&b, "%s%s IN (@%s)", sc.qual, icol, name)
			} else if prev.V != nil && prev.V.IsSlice() {
				fmt.Fprintf(&b, "%s%s IN @%s", sc.qual, col, name)
			} else {
				fmt.Fprintf(&b, "%s%s %s @%s", sc.qual, col, cmpOps[g.pick("op", len(cmpOps))], name)
			}
		} else {
			classes[name] = class
			switch g.weighted("nform", 60, 20, 12, 8) {
			case 0:
				binds[name] = Arg{V: pv(g.scalar(class, 8))}
				fmt.Fprintf(&b, "%s%s %s @%s", sc.qual, col, cmpOps[g.pick("op", len(cmpOps))], name)
			case 1:
				binds[name] = Arg{V: pv(g.slice(class, true, false))}
				fmt.Fprintf(&b, "%s%s IN @%s", sc.qual, col, name)
			case 2:
				if class != "str" {
					class = "int"
				}
				binds[name] = g.exprArg(class, sc)
				fmt.Fprintf(&b, "%s%s = @%s", sc.qual, col, name)
			default:
				if sc.depth < 3 {
					icol, _ := g.col(sc, "int")
					binds[name] = Arg{Q: g.subQuery(true, sc.depth)}
					fmt.Fprintf(&b, "%s%s IN (@%s)", sc.qual, icol, name)
				} else {
					binds[name] = Arg{V: pv(g.scalar(class, 0))}
					fmt.Fprintf(&b, "%s%s = @%s", sc.qual, col, name)
				}
			}
		}
		t.Refs = append(t.Refs, name)
	}
	if wrap {
		b.WriteByte(')')
	}
	names := make([]string, 0, len(binds))
	for k := range binds {
		names = append(names, k)
	}
	sort.Strings(names)
	for _, k := range names {
		t.Binds = append(t.Binds, Bind{Name: k, A: binds[k]})
	}
	t.SQL = b.String()
	return t
}

// ---- units ------------------------------------------------------------------------------------------

func (g *gen) eqValue(class string, sc scope, allowBytes bool) Arg {
	switch g.weighted("eqval", 58, 10, 18, 8, 6) {
	case 0:
		v := g.scalar(class, 0)
		if !allowBytes && v.BytesLike() {
			v.K = KStr // a map condition turns any byte slice into an IN list of its bytes (DESIGN C01 D)
		}
		return Arg{V: &v}
	case 1:
		return Arg{V: pv(g.nilVal())}
	case 2:
		return Arg{V: pv(g.slice(class, true, true))}
	case 3:
		if class != "str" {
			class = "int"
		}
		return g.exprArg(class, sc)
	default:
		return Arg{V: &Val{K: KGormValuer, S: g.str(), I: g.num()}}
	}
}

func (g *gen) leafCl(sc scope) Cl {
	col, class := g.col(sc, "")
	c := Cl{Col: col, ColTyped: g.pct("coltyped", 40)}
	switch g.weighted("clop", 22, 12, 8, 6, 8, 6, 10, 28) {
	case 0:
		c.Op = "eq"
		a := g.eqValue(class, sc, true)
		c.A = &a
	case 1:
		c.Op = "neq"
		a := g.eqValue(class, sc, true)
		if a.V != nil && a.V.IsSlice() && len(a.V.L) == 0 {
			a = Arg{V: pv(g.scalar(class, 0))}
		}
		c.A = &a
	case 2:
		c.Op, c.A = "gt", &Arg{V: pv(g.scalar(class, 5))}
	case 3:
		c.Op, c.A = "gte", &Arg{V: pv(g.scalar(class, 5))}
	case 4:
		c.Op, c.A = "lt", &Arg{V: pv(g.scalar(class, 5))}
	case 5:
		c.Op, c.A = "lte", &Arg{V: pv(g.scalar(class, 5))}
	case 6:
		col, _ = g.col(sc, "str")
		c.Col = col
		c.Op, c.A = "like", &Arg{V: pv(g.strVal())}
	default:
		c.Op = "in"
		if !g.cfg.Exec && g.pct("intuple", 8) {
			g.noExec = true
			c2, k2 := g.col(sc, "")
			c.Col, c.ColTyped = col, false
			_ = c2
			// a composite IN is written with a column list; the statement builder only sees values
			for i, n := 0, 1+g.pick("ntuples", 3); i < n; i++ {
				c.In = append(c.In, Val{K: KAnys, L: []Val{g.elem(class, 0, true), g.elem(k2, 0, false)}})
			}
			break
		}
		n := g.weighted("inlen", 12, 25, 25, 20, 18)
		for i := 0; i < n; i++ {
			c.In = append(c.In, g.elem(class, 8, i == 0))
		}
	}
	return c
}

func (g *gen) clause(sc scope) Cl {
	switch g.weighted("clshape", 70, 10, 10, 10) {
	case 0:
		return g.leafCl(sc)
	case 1:
		return Cl{Op: "and", Sub: []Cl{g.leafCl(sc), g.leafCl(sc)}}
	case 2:
		return Cl{Op: "or", Sub: []Cl{g.leafCl(sc), g.leafCl(sc)}}
	default:
		if g.pct("not2", 40) {
			return Cl{Op: "not", Sub: []Cl{g.leafCl(sc), g.leafCl(sc)}}
		}
		return Cl{Op: "not", Sub: []Cl{g.leafCl(sc)}}
	}
}

// rec draws a record of a table; every field is set with probability pct.
func (g *gen) rec(table string, pct int, atLeastOne bool) Rec {
	cols := columnsOf(table)
	r := Rec{Table: table, F: make([]*Val, len(cols))}
	set := 0
	for i, c := range cols {
		if !g.pct("fieldset", pct) {
			continue
		}
		r.F[i] = g.fieldVal(c.kind)
		set++
	}
	if set == 0 && atLeastOne {
		r.F[0] = g.fieldVal(cols[0].kind)
	}
	return r
}

func (g *gen) fieldVal(kind string) *Val {
	switch kind {
	case "str":
		return &Val{K: KStr, S: g.str()}
	case "pstr":
		return &Val{K: KPStr, S: g.str()}
	case "nullstr":
		return &Val{K: KNullStr, S: g.str()}
	case "bytes":
		return &Val{K: KBytes, S: g.str()}
	case "raw":
		return &Val{K: KRaw, S: g.str()}
	case "hash":
		return &Val{K: KHash, S: g.str()}
	case "int":
		return &Val{K: KI64, I: g.num()}
	case "uint":
		return &Val{K: KUint, I: g.num()}
	case "float":
		return pv(g.floatVal())
	default:
		return &Val{K: KBool, B: true}
	}
}

// unit draws one condition argument list. where: the position (top group having inline join).
func (g *gen) unit(sc scope, where string) Unit {
	const (
		uTmpl = iota
		uNamed
		uMap
		uStruct
		uClause
		uColval
		uGroup
		uPK
	)
	ws := []int{32, 14, 12, 8, 14, 8, 8, 4}
	if !sc.model || sc.table == "t" {
		ws[uStruct], ws[uPK] = 0, 0
	}
	if sc.depth >= 2 || where == "having" || where == "join" {
		ws[uGroup] = 0
	}
	if where != "top" && where != "inline" { // First(&item, 10), Delete(&Tag{}, []int{1, 2, 3})
		ws[uPK] = 0
	}
	if where == "inline" {
		ws[uPK] *= 3
	}
	if where == "join" {
		ws[uStruct], ws[uMap], ws[uColval], ws[uClause] = 0, 0, 0, 0
	}
	switch g.weighted("unit", ws...) {
	case uTmpl:
		return Unit{Form: "tmpl", T: g.posTmpl(sc, g.weighted("npieces", 55, 30, 15)+1, "", true)}
	case uNamed:
		return Unit{Form: "named", T: g.namedTmpl(sc, g.weighted("npieces", 45, 35, 20)+1, "")}
	case uMap:
		cols := columnsOf(sc.table)
		n := 1 + g.weighted("mapkeys", 50, 35, 15)
		if n > len(cols) {
			n = len(cols)
		}
		perm := rapid.Permutation(cols).Draw(g.t, "mapcols")[:n]
		sort.Slice(perm, func(i, j int) bool { return perm[i].name < perm[j].name })
		u := Unit{Form: "map"}
		switch g.weighted("maptype", 70, 15, 15) {
		case 1: // map[string]string
			u.MapType = "ss"
			for _, c := range perm {
				u.Keys = append(u.Keys, c.name)
				u.Vals = append(u.Vals, Arg{V: &Val{K: KStr, S: g.str()}})
			}
			return u
		case 2: // map[interface{}]interface{}: iteration order is random, so one key
			u.MapType = "ii"
			u.Keys = []string{perm[0].name}
			u.Vals = []Arg{g.eqValue(classOf(perm[0].kind), sc, true)}
			return u
		}
		for _, c := range perm {
			u.Keys = append(u.Keys, c.name)
			a := g.eqValue(classOf(c.kind), sc, false)
			if a.V != nil && a.V.IsSlice() && a.V.K != KAnys && g.pct("mapslice-any", 30) {
				// map values may be any slice type: the builder turns them into IN
				a = Arg{V: pv(g.slice(classOf(c.kind), true, false))}
			}
			u.Vals = append(u.Vals, a)
		}
		return u
	case uStruct:
		r := g.rec(sc.table, 30, true)
		u := Unit{Form: "struct", Rec: &r, Ptr: g.pct("structptr", 50)}
		if g.pct("structfields", 25) {
			cols := rapid.Permutation(columnsOf(sc.table)).Draw(g.t, "fields")
			nf := 1 + g.pick("nfields", 3)
			if nf > len(cols) {
				nf = len(cols)
			}
			for _, col := range cols[:nf] {
				u.Fields = append(u.Fields, col.name)
			}
			sort.Strings(u.Fields)
		}
		return u
	case uClause:
		c := g.clause(sc)
		return Unit{Form: "clause", Cl: &c}
	case uColval:
		col, class := g.col(sc, "")
		return Unit{Form: "colval", Keys: []string{col}, Vals: []Arg{g.eqValue(class, sc, true)}}
	case uGroup:
		inner := sc
		inner.depth++
		inner.model = false
		return Unit{Form: "group", Group: g.conds(inner, 2+g.pick("groupn", 2), true)}
	default:
		switch g.pick("pkform", 4) {
		case 0:
			return Unit{Form: "pk", PK: &Val{K: KInt, I: g.num()}}
		case 1:
			// a numeric string alone is the primary key; signed spellings are integers too
			return Unit{Form: "pk", PK: &Val{K: KStr, S: g.oneOf("pksign", "", "", "-", "+") + strconv.FormatInt(g.num(), 10)}}
		case 2:
			v := g.slice("int", false, false)
			if v.K == KAnys {
				v.K = KI64s
				for i := range v.L {
					v.L[i] = Val{K: KInt, I: g.num()}
				}
			}
			return Unit{Form: "pk", PK: &v}
		default:
			return Unit{Form: "pk", PK: &Val{K: KI64, I: g.num()}}
		}
	}
}

// conds draws n Where/Not/Or calls.
func (g *gen) conds(sc scope, n int, inGroup bool) []Cond {
	var out []Cond
	for i := 0; i < n; i++ {
		op := []string{"where", "where", "where", "or", "not"}[g.weighted("condop", 40, 10, 10, 22, 18)]
		where := "top"
		if inGroup {
			where = "group"
		}
		u := g.unit(sc, where)
		if !inGroup && sc.depth == 0 && g.pct("asclauses", 6) {
			// Clauses(expr, expr) adds plain conditions too
			l := Cl{Op: "list", Sub: []Cl{g.leafCl(sc)}}
			if g.pct("clauses2", 50) {
				l.Sub = append(l.Sub, g.leafCl(sc))
			}
			op := "clauses"
			if g.pct("aswhereclause", 40) {
				op = "whereclause" // Clauses(clause.Where{Exprs: …}) merges the expressions as they are
			}
			out = append(out, Cond{Op: op, U: Unit{Form: "clause", Cl: &l}})
			continue
		}
		if !inGroup && sc.depth == 0 && g.pct("asscope", 6) {
			// Scopes(func(db) { return db.Where(…) }): applied when the finisher runs
			out = append(out, Cond{Op: "scope", U: g.unit(sc, "having")})
			continue
		}
		out = append(out, Cond{Op: op, U: u})
	}
	return out
}

// ---- chains -----------------------------------------------------------------------------------------

func (g *gen) chain() *Chain {
	switch g.weighted("kind", 40, 15, 7, 18, 6, 6, 5, 3) {
	case 0:
		return g.query()
	case 1:
		return g.update()
	case 2:
		return g.delete()
	case 3:
		return g.create()
	case 4:
		return g.raw()
	case 5:
		return g.exec()
	case 6:
		return g.save()
	default:
		return g.firstOr()
	}
}

func (g *gen) maxConds() int {
	if g.cfg.Big {
		return 5
	}
	return 4
}

func (g *gen) query() *Chain {
	c := &Chain{Kind: "query"}
	var sc scope
	switch g.weighted("qbase", 48, 7, 9, 12, 6, 18) {
	case 0:
		c.Base, sc = "item", scope{table: "items", model: true}
	case 1:
		c.Base, sc = "owner", scope{table: "owners", model: true}
	case 2:
		c.Base, sc = "tag", scope{table: "tags", model: true}
	case 3:
		c.Base, sc = "t:items", scope{table: "items"}
	case 4:
		c.Base, sc = "t:tags", scope{table: "tags"}
	default:
		c.Base, sc = "sub", scope{table: "t"}
		inner := scope{table: "items", depth: 1}
		c.Sub = &Chain{Kind: "query", Base: "t:items", SelCols: []string{"name", "code", "owner_id"}}
		if g.pct("submodel", 50) {
			c.Sub.Base, inner.model = "item", true
		}
		c.Sub.Conds = g.conds(inner, g.weighted("subn", 15, 50, 35), false)
		if g.pct("subtablelimit", 15) {
			c.Sub.Limit = int(g.num())
		}
	}
	itemsBase := c.Base == "item" || c.Base == "t:items"
	if c.Base == "item" && g.pct("unscoped", 8) {
		c.Unscoped = true
	}
	// joins first: they decide whether template text is qualified
	if itemsBase && g.pct("join", 22) {
		j := Join{Inner: g.pct("inner", 30)}
		osc := scope{table: "owners", qual: "owners.", depth: 1}
		switch k := g.weighted("joinkind", 45, 20, 35); {
		case k == 0 || c.Base != "item":
			j.Kind = "raw"
			prefix := "JOIN owners ON owners.id = items.owner_id AND "
			if g.pct("joinnamed", 35) {
				j.T = g.namedTmpl(osc, 1+g.pick("joinn", 2), prefix)
			} else {
				j.T = g.posTmpl(osc, 1+g.pick("joinn", 2), prefix, false)
			}
			j.Inner = false
		case k == 1:
			j.Kind = "rel"
		default:
			j.Kind = "rel-on"
			asc := scope{table: "owners", qual: "Owner.", depth: 1}
			u := g.unit(asc, "join")
			j.On = &u
		}
		c.Joins = append(c.Joins, j)
		sc.qual = "items."
	}
	fins := []string{"find", "first", "take", "last", "count", "pluck", "scan", "row", "rows", "batches"}
	fw := []int{30, 11, 7, 5, 14, 9, 12, 4, 4, 4}
	if !sc.model {
		fw[1], fw[3], fw[9] = 0, 0, 0
	}
	c.Fin = fins[g.weighted("fin", fw...)]
	grouped := false
	if c.Fin != "pluck" && c.Fin != "batches" && c.Fin != "first" && c.Fin != "last" && len(c.Joins) == 0 && sc.table != "owners" && g.pct("group", 12) {
		grouped = true
		gcol := "owner_id"
		if sc.table == "tags" {
			gcol = "item_id"
		}
		c.Group = gcol
		c.SelCols = []string{gcol, "COUNT(*) AS n"}
		if g.pct("having", 75) {
			var u Unit
			switch g.pick("havingform", 4) {
			case 3:
				u = Unit{Form: "colval", Keys: []string{gcol}, Vals: []Arg{g.eqValue("int", sc, true)}}
			case 0:
				u = Unit{Form: "tmpl", T: &Tmpl{SQL: "COUNT(*) > ? OR " + gcol + " IN (?)", Slots: []Slot{{A: Arg{V: pv(g.intVal())}}, {A: Arg{V: pv(g.slice("int", true, false))}, Paren: true}}}}
			case 1:
				u = Unit{Form: "named", T: &Tmpl{SQL: "COUNT(*) < @n1 AND " + gcol + " <> @n1", Refs: []string{"n1", "n1"}, Carrier: g.oneOf("hcar", "named", "map"),
					Binds: []Bind{{Name: "n1", A: Arg{V: pv(g.intVal())}}}}}
			default:
				cl := Cl{Op: "gt", Col: gcol, A: &Arg{V: pv(g.intVal())}}
				u = Unit{Form: "clause", Cl: &cl}
			}
			c.Having = &u
		}
	}
	if c.Fin == "batches" {
		// FindInBatches(dest, n, fn): typed destination, its own ORDER BY key and LIMIT n
		c.FindBatch = int(g.num())
		if g.pct("smallbatch", 35) {
			c.FindBatch = 1 + g.pick("findbatch", 3) // fewer than the seeded rows: further batches follow
		}
		c.Conds = g.conds(sc, g.weighted("nconds", 10, 30, 30, 20, 10), false)
		return c
	}
	if !grouped && g.pct("distinct", 8) {
		c.Distinct = true
	}
	if !grouped && g.pct("select", 28) {
		scol, _ := g.col(sc, "str")
		icol, _ := g.col(sc, "int")
		switch g.weighted("selform", 35, 40, 25) {
		case 0:
			if c.Fin == "pluck" || g.pct("sel1", 40) {
				c.SelCols = []string{scol}
			} else {
				c.SelCols = []string{scol, icol}
			}
		case 1:
			sql := "COALESCE(" + sc.qual + scol + ", ?)"
			slots := []Slot{{A: Arg{V: pv(g.strVal())}}}
			if g.pct("selexpr", 25) {
				slots = []Slot{{A: g.exprArg("str", sc)}}
			}
			if c.Fin != "pluck" {
				sql = sc.qual + icol + ", " + sql + " AS x2"
				if g.pct("sel2", 40) {
					sql += ", ? AS x3"
					slots = append(slots, Slot{A: Arg{V: pv(g.scalar("", 10))}})
				}
			}
			c.Sel = &Tmpl{SQL: sql, Slots: slots}
			if c.Fin != "pluck" && g.pct("litq", 30) {
				// a '?' that is no placeholder, after the real ones: inside a string literal
				c.Sel.SQL += g.oneOf("litqtext", ", 'really?' AS q", ", 'a?b??' AS q")
				c.Sel.LitQ = strings.Count(c.Sel.SQL, "?") - len(slots)
			}
		default:
			t := &Tmpl{SQL: sc.qual + icol + " + @n1", Refs: []string{"n1"}, Carrier: g.oneOf("selcar", "named", "map"),
				Binds: []Bind{{Name: "n1", A: Arg{V: pv(g.intVal())}}}}
			if c.Fin != "pluck" {
				t.SQL += " AS y1, @n1 AS y2"
				t.Refs = append(t.Refs, "n1")
			}
			c.Sel = t
		}
	}
	if sc.model && !grouped && len(c.SelCols) == 0 && c.Sel == nil && c.Fin != "pluck" && c.Fin != "count" && g.pct("queryomit", 8) {
		c.ColMode = "omit" // the column list is spelled out without the omitted ones
		col, _ := g.col(sc, "")
		c.Cols = []string{col}
	}
	c.Conds = g.conds(sc, g.weighted("nconds", 10, 30, 30, 20, 10), false)
	if len(c.Conds) > g.maxConds() {
		c.Conds = c.Conds[:g.maxConds()]
	}
	if g.pct("order", 25) {
		scol, _ := g.col(sc, "str")
		icol, _ := g.col(sc, "int")
		if grouped {
			scol, icol = c.Group, c.Group
		}
		switch g.weighted("orderform", 35, 25, 20, 20) {
		case 0:
			c.OrderStr = sc.qual + scol + " DESC"
		case 1:
			c.OrderExpr = &Tmpl{SQL: "CASE WHEN " + sc.qual + scol + " = ? THEN 0 ELSE 1 END, " + sc.qual + icol, Slots: []Slot{{A: Arg{V: pv(g.scalar("str", 0))}}}}
		case 2:
			c.OrderExpr = &Tmpl{SQL: sc.qual + icol + " IN (?) DESC", Slots: []Slot{{A: Arg{V: pv(g.slice("int", true, false))}, Paren: true}}}
		default:
			c.OrderExpr = &Tmpl{SQL: "CASE WHEN " + sc.qual + icol + " IN (1, ?) THEN 0 ELSE 1 END", NoParen: true, Slots: []Slot{{A: Arg{V: pv(g.slice("int", false, false))}}}}
		}
	}
	if g.pct("limit", 25) {
		c.Limit = int(g.num())
		if g.pct("nolimit", 8) {
			c.Limit = -1
		}
	}
	if g.pct("offset", 12) {
		c.Offset = int(g.num())
		if c.Limit == 0 && !g.pct("offsetonly", 30) {
			c.Limit = int(g.num())
		}
	}
	if (c.Limit > 0 || c.Offset > 0) && c.Limit >= 0 && g.pct("limitcl", 20) {
		c.LimitCl = true
	}
	if g.pct("lock", 4) {
		c.Lock = true
	}
	if (c.Fin == "find" || c.Fin == "first" || c.Fin == "take" || c.Fin == "last") && g.pct("inline", 22) {
		u := g.unit(sc, "inline")
		c.Inline = &u
	}
	if c.Fin == "pluck" {
		c.PluckCol, _ = g.col(sc, "str")
		if len(c.SelCols) == 1 {
			c.PluckCol = c.SelCols[0]
		}
	}
	return c
}

// setArg: a value assigned to a column.
func (g *gen) setArg(class string, sc scope, allowSub bool) Arg {
	switch g.weighted("setval", 60, 10, 14, 6, 10) {
	case 0:
		return Arg{V: pv(g.scalar(class, 0))}
	case 1:
		return Arg{V: pv(g.nilVal())}
	case 2:
		if class != "str" {
			class = "int"
		}
		return g.exprArg(class, sc)
	case 3:
		return Arg{V: &Val{K: KGormValuer, S: g.str(), I: g.num()}}
	default:
		if allowSub {
			return Arg{Q: g.subQuery(false, sc.depth)}
		}
		return Arg{V: pv(g.scalar(class, 0))}
	}
}

func (g *gen) setMap(sc scope, n int, allowSub bool) ([]string, []Arg) {
	cols := columnsOf(sc.table)
	if n > len(cols) {
		n = len(cols)
	}
	perm := rapid.Permutation(cols).Draw(g.t, "setcols")[:n]
	sort.Slice(perm, func(i, j int) bool { return perm[i].name < perm[j].name })
	var keys []string
	var vals []Arg
	for _, c := range perm {
		keys = append(keys, c.name)
		vals = append(vals, g.setArg(classOf(c.kind), sc, allowSub))
	}
	return keys, vals
}

func (g *gen) update() *Chain {
	c := &Chain{Kind: "update"}
	var sc scope
	switch g.weighted("ubase", 50, 20, 15, 15) {
	case 0:
		c.Base, sc = "item", scope{table: "items", model: true}
	case 1:
		c.Base, sc = "tag", scope{table: "tags", model: true}
	case 2:
		c.Base, sc = "owner", scope{table: "owners", model: true}
	default:
		c.Base, sc = "t:items", scope{table: "items"}
	}
	if g.pct("skiphooks", 15) {
		c.SkipHooks = true
	}
	refused := g.pct("refused", 6)
	if !refused && sc.model && g.pct("modelid", 22) {
		c.ModelID = 1 + int64(g.pick("mid", 3))
		if g.pct("bigid", 40) {
			c.ModelID = g.num()
		}
	}
	if !refused && c.ModelID == 0 && sc.model && g.pct("modelslice", 8) {
		for i, n := 0, 1+g.pick("nmodelids", 3); i < n; i++ {
			c.ModelIDs = append(c.ModelIDs, g.num())
		}
	}
	if c.Base == "item" && g.pct("unscoped", 6) {
		c.Unscoped = true
	}
	lo := 1
	if !refused && g.pct("allowglobal", 8) {
		c.AllowGlobal = true // a write without any condition is then permitted
		lo = 0
	}
	if c.ModelID != 0 || len(c.ModelIDs) > 0 {
		lo = 0
	}
	if refused {
		// no condition at all (or only one that vanishes) and no AllowGlobalUpdate: must be refused
		c.Refused = true
		c.EmptyCond = g.oneOf("emptycond", "", "", "struct", "map")
		if !sc.model && c.EmptyCond == "struct" {
			c.EmptyCond = "map"
		}
	} else {
		c.Conds = g.conds(sc, lo+g.weighted("nconds", 50, 35, 15), false)
	}
	kinds := []string{"update", "updates-map", "updates-struct", "updatecolumn", "updatecolumns-map", "updatecolumns-struct"}
	kw := []int{25, 28, 17, 10, 12, 8}
	if !sc.model {
		kw[2], kw[5] = 0, 0
	}
	c.UpKind = kinds[g.weighted("upkind", kw...)]
	switch c.UpKind {
	case "update", "updatecolumn":
		c.SetKeys, c.SetVals = g.setMap(sc, 1, true)
	case "updates-map", "updatecolumns-map":
		c.SetKeys, c.SetVals = g.setMap(sc, 1+g.weighted("nset", 30, 40, 30), true)
	default:
		r := g.rec(sc.table, 35, true)
		c.SetRec = &r
		c.SetPtr = g.pct("setptr", 30)
		if !refused && c.UpKind == "updates-struct" && c.ModelID == 0 && len(c.ModelIDs) == 0 && g.pct("updateself", 25) {
			// db.Where(…).Updates(&X{ID: n, …}): the key of the value itself is the target
			c.UpKind, c.SetPtr = "updates-self", false
			c.SetRec.ID = g.num()
		}
	}
	if g.pct("updcols", 15) {
		g.restrictColumns(c, sc.table)
	}
	// RETURNING scans the updated rows back into the typed model: only with typed (struct) values
	if c.SetRec != nil && g.pct("returning", 25) {
		c.Returning = true
	}
	return c
}

func (g *gen) delete() *Chain {
	c := &Chain{Kind: "delete"}
	var sc scope
	switch g.weighted("dbase", 55, 35, 10) {
	case 0:
		c.Base, sc = "item", scope{table: "items", model: true}
	case 1:
		c.Base, sc = "tag", scope{table: "tags", model: true}
	default:
		c.Base, sc = "owner", scope{table: "owners", model: true}
	}
	if c.Base == "item" && g.pct("unscoped", 18) {
		c.Unscoped = true
	}
	if g.pct("refused", 6) {
		// no condition at all (or only one that vanishes) and no AllowGlobalUpdate: must be refused
		c.Refused = true
		c.EmptyCond = g.oneOf("emptycond", "", "", "struct", "map")
		c.Returning = g.pct("returning", 10)
		return c
	}
	lo := 1
	if g.pct("allowglobal", 8) {
		c.AllowGlobal = true
		lo = 0
	}
	if g.pct("delrec", 25) {
		id := 1 + int64(g.pick("did", 3))
		if g.pct("bigid", 40) {
			id = g.num()
		}
		c.DelRec = &Rec{Table: sc.table, ID: id, F: make([]*Val, len(columnsOf(sc.table)))}
		lo = 0
	}
	if g.pct("inline", 22) {
		u := g.unit(sc, "inline")
		c.Inline = &u
		lo = 0
	}
	if g.pct("delmodel", 10) {
		c.ModelID = g.num() // Model(&X{ID: m}).Delete(&X{…}): both keys restrict the statement
		lo = 0
	}
	c.Conds = g.conds(sc, lo+g.weighted("nconds", 50, 35, 15), false)
	if g.pct("returning", 10) {
		c.Returning = true
	}
	return c
}

func (g *gen) create() *Chain {
	c := &Chain{Kind: "create"}
	table := "items"
	switch g.weighted("cbase", 45, 35, 20) {
	case 0:
		c.Base = "item"
	case 1:
		c.Base, table = "tag", "tags"
	default:
		c.Base, table = "owner", "owners"
	}
	sc := scope{table: table, model: true}
	c.CrKind = []string{"struct", "slice", "map", "maps"}[g.weighted("crkind", 30, 34, 18, 18)]
	conflictPct := 30
	if c.CrKind == "map" || c.CrKind == "maps" {
		conflictPct = 12
	}
	if g.pct("conflict", conflictPct) {
		k := &Conflict{Kind: []string{"nothing", "assignments", "columns", "updateall"}[g.weighted("ckind", 25, 35, 20, 20)]}
		if k.Kind == "updateall" && (c.CrKind == "map" || c.CrKind == "maps") {
			k.Kind = "nothing"
		}
		switch k.Kind {
		case "assignments":
			k.Keys, k.Vals = g.setMap(sc, 1+g.pick("nassign", 2), false)
		case "columns":
			col, _ := g.col(sc, "")
			k.Cols = []string{col}
		}
		if (k.Kind == "assignments" || k.Kind == "columns") && g.pct("cwhere", 30) {
			w := g.leafCl(scope{table: table, depth: 3})
			w.Col = table + "." + w.Col
			w.ColTyped = false
			k.Where = &w
		}
		c.Conflict = k
	}
	newID := func(i int) int64 {
		if c.Conflict != nil && g.pct("existing", 50) {
			return int64(1 + (i % 3))
		}
		if g.pct("withid", 25) || c.Conflict != nil {
			return g.num()
		}
		return 0
	}
	switch c.CrKind {
	case "struct":
		r := g.rec(table, 70, false)
		r.ID = newID(0)
		c.Rows = []Rec{r}
	case "slice":
		n := 1 + g.weighted("nrows", 20, 35, 25, 20)
		for i := 0; i < n; i++ {
			r := g.rec(table, 70, false)
			r.ID = newID(i)
			c.Rows = append(c.Rows, r)
		}
		c.PtrElems = g.pct("ptrelems", 30)
		if g.pct("batched", 55) {
			c.Batch = g.oneOf("batchkind", "inbatches", "session", "config")
			c.BatchSize = 1 + g.pick("batchsize", 3) // shorter, equal and longer slices all occur
		}
	case "map":
		keys, vals := g.setMap(sc, 1+g.weighted("nkeys", 25, 40, 35), false)
		if c.Conflict != nil {
			keys, vals = withID(keys, vals, newID(0))
		}
		c.MapRows = []MapRow{{Keys: keys, Vals: vals}}
		c.MapPtr = g.pct("mapptr", 30)
	default:
		c.MapPtr = g.pct("mapptr", 30)
		n := 1 + g.pick("nmaps", 3) // a slice holding a single map is a []map too
		for i := 0; i < n; i++ {
			keys, vals := g.setMap(sc, 1+g.weighted("nkeys", 35, 40, 25), false)
			if c.Conflict != nil {
				keys, vals = withID(keys, vals, newID(i))
			}
			c.MapRows = append(c.MapRows, MapRow{Keys: keys, Vals: vals})
		}
	}
	if c.Conflict == nil && g.pct("crcols", 15) {
		g.restrictColumns(c, table)
	}
	return c
}

// restrictColumns draws Select(cols…) / Omit(cols…) for a create or update so
// that at least one supplied value is still written.
func (g *gen) restrictColumns(c *Chain, table string) {
	var supplied []string // columns the chain gives a value for
	switch {
	case c.SetRec != nil:
		for i, f := range c.SetRec.F {
			if f != nil {
				supplied = append(supplied, columnsOf(table)[i].name)
			}
		}
	case len(c.SetKeys) > 0:
		supplied = c.SetKeys
	case len(c.MapRows) > 0:
		supplied = c.MapRows[0].Keys
	default:
		for _, col := range columnsOf(table) {
			supplied = append(supplied, col.name)
		}
	}
	var plain []string
	for _, col := range columnsOf(table) {
		plain = append(plain, col.name)
	}
	keep := supplied[g.pick("keepcol", len(supplied))]
	if keep == "id" {
		return
	}
	perm := rapid.Permutation(plain).Draw(g.t, "restrictcols")
	n := 1 + g.pick("nrestrict", 3)
	if g.pct("omitmode", 45) {
		c.ColMode = "omit"
		for _, col := range perm {
			if col != keep && len(c.Cols) < n {
				c.Cols = append(c.Cols, col)
			}
		}
		if len(c.Cols) == 0 {
			c.ColMode = ""
		}
		return
	}
	c.ColMode = "select"
	c.Cols = []string{keep}
	for _, col := range perm {
		if col != keep && len(c.Cols) < n {
			c.Cols = append(c.Cols, col)
		}
	}
}

// save: Save(&struct) (insert without key, update of every column with one) and Save(&slice) (upsert).
func (g *gen) save() *Chain {
	table := g.oneOf("savetable", "items", "tags", "owners")
	c := &Chain{Kind: "save", Base: map[string]string{"items": "item", "tags": "tag", "owners": "owner"}[table]}
	id := func(i int) int64 {
		switch g.weighted("saveid", 40, 35, 25) {
		case 0:
			return 0
		case 1:
			return int64(1 + i%3)
		}
		return g.num()
	}
	if g.pct("saveslice", 40) {
		c.CrKind = "slice"
		for i, n := 0, 1+g.pick("nrows", 3); i < n; i++ {
			r := g.rec(table, 70, false)
			r.ID = id(i)
			c.Rows = append(c.Rows, r)
		}
		c.PtrElems = g.pct("ptrelems", 30)
		return c
	}
	c.CrKind = "struct"
	r := g.rec(table, 70, false)
	r.ID = id(0)
	c.Rows = []Rec{r}
	return c
}

// NOTE: Save(&[]*X) is drawn in save() through PtrElems.

// firstOr: FirstOrInit / FirstOrCreate with a struct condition that matches no seeded row.
func (g *gen) firstOr() *Chain {
	table := g.oneOf("fotable", "items", "tags", "owners")
	c := &Chain{Kind: "firstor", Base: map[string]string{"items": "item", "tags": "tag", "owners": "owner"}[table],
		Fin: g.oneOf("fofin", "firstorinit", "firstorcreate"), InlineCond: g.pct("foinline", 40)}
	r := g.rec(table, 45, true)
	if r.F[0] == nil {
		r.F[0] = g.fieldVal(columnsOf(table)[0].kind) // a sentinel string: the condition matches no seeded row
	}
	c.Rows = []Rec{r}
	if g.pct("attrs", 35) {
		a := g.rec(table, 35, true)
		c.Attrs = &a
	}
	if g.pct("assign", 20) {
		a := g.rec(table, 35, true)
		c.Assign = &a
	}
	c.WithModel = g.pct("withmodel", 30)
	return c
}

// withID adds an "id" key (kept sorted) so that an upsert from a map can conflict.
func withID(keys []string, vals []Arg, id int64) ([]string, []Arg) {
	if id == 0 {
		return keys, vals
	}
	keys = append(keys, "id")
	vals = append(vals, Arg{V: &Val{K: KI64, I: id}})
	idx := make([]int, len(keys))
	for i := range idx {
		idx[i] = i
	}
	sort.Slice(idx, func(a, b int) bool { return keys[idx[a]] < keys[idx[b]] })
	k2 := make([]string, len(keys))
	v2 := make([]Arg, len(keys))
	for i, j := range idx {
		k2[i], v2[i] = keys[j], vals[j]
	}
	return k2, v2
}

// driverTmpl: prefix + comparisons with the driver's own named placeholders (":name"), the values
// passed as sql.Named(...) in an order of their own. gorm writes no placeholder for them: they are
// the arguments left over after the last '?', handed through to the driver under their names.
func (g *gen) driverTmpl(sc scope, prefix string) *Tmpl {
	t := &Tmpl{Driver: true, Carrier: "driver"}
	pool := []string{"n1", "n2", "who", "lim"}
	var b strings.Builder
	b.WriteString(prefix)
	used := map[string]bool{}
	for i, n := 0, 2+g.pick("drivern", 3); i < n; i++ {
		if i > 0 {
			b.WriteString(g.oneOf("joiner", " AND ", " OR "))
		}
		name := pool[g.pick("name", len(pool))]
		col, class := g.col(sc, "")
		fmt.Fprintf(&b, "%s %s :%s", col, cmpOps[g.pick("op", len(cmpOps))], name)
		t.Refs = append(t.Refs, name)
		if !used[name] {
			used[name] = true
			v := g.scalar(class, 8)
			if v.K == KGormValuer {
				v.K = KStr // an expression cannot be a driver-level argument
			}
			t.Binds = append(t.Binds, Bind{Name: name, A: Arg{V: &v}})
		}
	}
	sort.Slice(t.Binds, func(i, j int) bool { return t.Binds[i].Name < t.Binds[j].Name })
	names := make([]string, len(t.Binds))
	for i, bd := range t.Binds {
		names[i] = bd.Name
	}
	t.ArgOrder = rapid.Permutation(names).Draw(g.t, "argorder") // not the order of appearance in the text
	t.SQL = b.String()
	return t
}

func (g *gen) raw() *Chain {
	c := &Chain{Kind: "raw", Fin: "scan"}
	table := g.oneOf("rawtable", "items", "items", "tags", "owners")
	sc := scope{table: table}
	if g.pct("drivernamed", 12) {
		c.Raw = g.driverTmpl(sc, "SELECT * FROM "+table+" WHERE ")
		return c
	}
	switch g.weighted("rawform", 50, 30, 20) {
	case 0:
		c.Raw = g.posTmpl(sc, 1+g.weighted("rawn", 40, 40, 20), "SELECT * FROM "+table+" WHERE ", true)
	case 1:
		c.Raw = g.namedTmpl(sc, 1+g.weighted("rawn", 40, 40, 20), "SELECT * FROM "+table+" WHERE ")
	default:
		n := 1 + g.pick("nsel", 3)
		t := &Tmpl{}
		parts := make([]string, n)
		for i := range parts {
			parts[i] = "? AS c" + strconv.Itoa(i)
			t.Slots = append(t.Slots, Slot{A: Arg{V: pv(g.scalar("", 10))}})
		}
		t.SQL = "SELECT " + strings.Join(parts, ", ")
		c.Raw = t
	}
	return c
}

func (g *gen) exec() *Chain {
	c := &Chain{Kind: "exec"}
	if g.pct("drivernamed", 12) {
		table := g.oneOf("deltable", "tags", "owners")
		c.Raw = g.driverTmpl(scope{table: table}, "DELETE FROM "+table+" WHERE ")
		return c
	}
	switch g.weighted("execform", 30, 20, 20, 15, 15) {
	case 0:
		sc := scope{table: "items"}
		where := g.posTmpl(sc, 1+g.pick("execn", 2), "", true)
		set := &Tmpl{SQL: "UPDATE items SET name = ?, code = ? WHERE ", Slots: []Slot{{A: g.setArg("str", sc, false)}, {A: g.setArg("int", sc, false)}}}
		c.Raw = &Tmpl{SQL: set.SQL + where.SQL, Slots: append(set.Slots, where.Slots...)}
	case 1:
		sc := scope{table: "tags"}
		t := g.namedTmpl(sc, 1+g.pick("execn", 2), "UPDATE tags SET label = @lbl WHERE ", false)
		t.Binds = append([]Bind{{Name: "lbl", A: g.setArg("str", sc, false)}}, t.Binds...) // "lbl" sorts first
		t.Refs = append([]string{"lbl"}, t.Refs...)
		c.Raw = t
	case 2:
		c.Raw = &Tmpl{SQL: "INSERT INTO tags (label, weight, item_id) VALUES (?, ?, ?)", Slots: []Slot{
			{A: g.setArg("str", scope{table: "tags"}, false), Paren: true}, {A: Arg{V: pv(g.scalar("int", 10))}}, {A: Arg{V: pv(g.scalar("int", 10))}}}}
	case 3:
		c.Raw = &Tmpl{SQL: "INSERT INTO owners (title, age) VALUES (@n1, @n2), (@n1, @who)", Refs: []string{"n1", "n2", "n1", "who"}, Carrier: g.oneOf("execcar", "named", "map"),
			Binds: []Bind{{Name: "n1", A: Arg{V: pv(g.scalar("str", 10))}}, {Name: "n2", A: Arg{V: pv(g.scalar("int", 0))}}, {Name: "who", A: Arg{V: pv(g.scalar("int", 10))}}}}
	default:
		table := g.oneOf("deltable", "tags", "owners")
		c.Raw = g.posTmpl(scope{table: table}, 1+g.pick("execn", 2), "DELETE FROM "+table+" WHERE ", true)
	}
	return c
}

// GenPrefix draws one Where(...) call for a reusable handle that the chain is
// then started from (db.Where(p).Session(&Session{})); nil when a leading
// condition would not be part of the chain's statement.
func GenPrefix(t *rapid.T, cfg Config, c *Chain) *Cond {
	switch c.Kind {
	case "query", "update", "delete":
	default:
		return nil
	}
	if c.Refused {
		return nil // a handle carrying a condition would make the operation legitimate
	}
	g := &gen{t: t, cfg: cfg, n: 400} // sentinels disjoint from the chain's
	table, _ := tableOf(c.Base)
	sc := scope{table: table, depth: 1}
	if len(c.Joins) > 0 {
		sc.qual = "items."
	}
	u := g.unit(sc, "group")
	cd := &Cond{Op: "where", U: u}
	tmp := &Chain{Kind: "query", Base: c.Base, Conds: []Cond{*cd}}
	sanitize(tmp)
	if rescanBytes(tmp, false) || g.noExec {
		return nil
	}
	return cd
}

// WithPrefix returns a copy of the chain whose conditions start with p: the
// description of "chain applied on a handle that already carries Where(p)".
func (c *Chain) WithPrefix(p *Cond) *Chain {
	if p == nil {
		return c
	}
	cp := *c
	cp.Conds = append([]Cond{*p}, c.Conds...)
	return &cp
}

// ApplyPrefix performs the Where call of p on db.
func ApplyPrefix(db *gorm.DB, p *Cond) *gorm.DB {
	if p == nil {
		return db
	}
	return applyConds(db, db, []Cond{*p})
}

// WithReenter returns a copy of the chain with one more Where at the end of its
// conditions whose argument is a Reenter value (see ReenterHook).
func (c *Chain) WithReenter(v int64) *Chain {
	table, _ := tableOf(c.Base)
	col := map[string]string{"items": "code", "t": "code", "owners": "age", "tags": "weight"}[table]
	if len(c.Joins) > 0 {
		col = "items." + col
	}
	cp := *c
	cp.Conds = append(append([]Cond(nil), c.Conds...), Cond{Op: "where", U: Unit{Form: "tmpl",
		T: &Tmpl{SQL: col + " <> ?", Slots: []Slot{{A: Arg{V: &Val{K: KReenter, I: v}}}}}}})
	return &cp
}

// GenSibling draws a simple query on the same base as c (two conditions, Find):
// a second statement to derive from the same reusable handle.
func GenSibling(t *rapid.T, cfg Config, c *Chain) *Chain {
	b := &Chain{Kind: "query", Base: c.Base, Sub: c.Sub, Fin: "find"}
	for i := 0; i < 2; i++ {
		g := &gen{t: t, cfg: cfg, n: 500 + 50*i}
		table, _ := tableOf(c.Base)
		sc := scope{table: table, depth: 2}
		u := Unit{Form: "tmpl", T: g.posTmpl(sc, 1+g.pick("sibpieces", 2), "", false)}
		b.Conds = append(b.Conds, Cond{Op: "where", U: u})
	}
	sanitize(b)
	return b
}

// Shared is a reusable-handle scenario: Prefix is performed once on the handle
// h (several calls of each appending clause kind: Where, Having with Group,
// Order), then the siblings AddA and AddB each add one more call of every kind
// to h. FullA / FullB describe the resulting statements (prefix + own calls).
type Shared struct {
	Prefix, AddA, AddB, FullA, FullB *Chain
}

// GenShared draws a Shared scenario on a table that can be grouped.
func GenShared(t *rapid.T, cfg Config) Shared {
	g := &gen{t: t, cfg: cfg}
	base := g.oneOf("sharedbase", "item", "tag", "t:items")
	table, _ := tableOf(base)
	gcol := "owner_id"
	if table == "tags" {
		gcol = "item_id"
	}
	sc := scope{table: table, depth: 2}
	where := func() Cond { return Cond{Op: "where", U: Unit{Form: "tmpl", T: g.posTmpl(sc, 1, "", false)}} }
	having := func() Unit {
		switch g.pick("sharedhaving", 3) {
		case 0:
			return Unit{Form: "tmpl", T: &Tmpl{SQL: "COUNT(*) <> ?", Slots: []Slot{{A: Arg{V: pv(g.intVal())}}}}}
		case 1:
			return Unit{Form: "tmpl", T: &Tmpl{SQL: gcol + " NOT IN (?)", Slots: []Slot{{A: Arg{V: pv(g.slice("int", false, false))}, Paren: true}}}}
		default:
			cl := Cl{Op: "neq", Col: gcol, A: &Arg{V: pv(g.intVal())}}
			return Unit{Form: "clause", Cl: &cl}
		}
	}
	order := func() string { return g.oneOf("sharedorder", gcol, gcol+" DESC", "n", "n DESC") }

	p := &Chain{Kind: "query", Base: base, Group: gcol, SelCols: []string{gcol, "COUNT(*) AS n"}}
	for i, n := 0, g.pick("nprewhere", 8); i < n; i++ {
		p.Conds = append(p.Conds, where())
	}
	for i, n := 0, g.pick("nprehaving", 8); i < n; i++ {
		p.PreHavings = append(p.PreHavings, having())
	}
	for i, n := 0, g.pick("npreorder", 8); i < n; i++ {
		p.PreOrders = append(p.PreOrders, order())
	}
	sib := func() (*Chain, *Chain) {
		h := having()
		add := &Chain{Kind: "query", Base: base, Fin: "find", Conds: []Cond{where()}, Having: &h, OrderStr: order()}
		full := *p
		full.Fin = "find"
		full.Conds = append(append([]Cond(nil), p.Conds...), add.Conds...)
		full.Having, full.OrderStr = add.Having, add.OrderStr
		return add, &full
	}
	var s Shared
	s.Prefix = p
	s.AddA, s.FullA = sib()
	s.AddB, s.FullB = sib()
	for _, c := range []*Chain{s.Prefix, s.AddA, s.AddB} {
		sanitize(c)
	}
	return s
}
