package chains

import (
	"fmt"
	"strconv"
	"strings"
)

// Arg is one argument: a value, a nested gorm.Expr, a sub-query built by a
// chain, a db.Raw(...) sub-query or a clause.Column (an identifier, not a value).
type Arg struct {
	V   *Val   `json:"v,omitempty"`
	E   *Tmpl  `json:"e,omitempty"`
	Q   *Chain `json:"q,omitempty"`
	R   *Tmpl  `json:"r,omitempty"`
	Col string `json:"col,omitempty"`
}

// Slot is one positional placeholder of a template. Paren says that the '?'
// directly follows '(' in the template text (the documented IN (?) form:
// a slice expands without adding its own parentheses, an empty slice is NULL).
type Slot struct {
	A     Arg  `json:"a"`
	Paren bool `json:"paren,omitempty"`
}

// Bind is one named argument.
type Bind struct {
	Name string `json:"name"`
	A    Arg    `json:"a"`
}

// Tmpl is an SQL template: positional ('?', Slots) or named ('@name', Refs in
// order of occurrence, Binds sorted by name, Carrier says how they are passed).
type Tmpl struct {
	SQL        string   `json:"sql"`
	Slots      []Slot   `json:"slots,omitempty"`
	Refs       []string `json:"refs,omitempty"`
	Binds      []Bind   `json:"binds,omitempty"`
	Carrier    string   `json:"carrier,omitempty"`    // named | map | struct
	CarrierPtr bool     `json:"carrierptr,omitempty"` // the struct carrier is passed by pointer
	NoParen    bool     `json:"noparen,omitempty"`    // clause.Expr{WithoutParentheses: true}
	// LitQ: number of '?' characters inside string literals that follow the last real placeholder
	// (e.g. ", 'really?' AS q"): no argument is left for them, they stay part of the text
	LitQ int `json:"litq,omitempty"`
	// Driver: the text uses the driver's own named placeholders (":name"); the values are passed as
	// sql.Named(...) in the order ArgOrder and must reach the driver as named arguments
	Driver   bool     `json:"driver,omitempty"`
	ArgOrder []string `json:"argorder,omitempty"`
}

// Named reports whether the template uses @name arguments.
func (t *Tmpl) Named() bool { return len(t.Refs) > 0 }

// Cl is a clause builder expression.
type Cl struct {
	Op       string `json:"op"` // eq neq gt gte lt lte like in and or not list (list: only as the argument list of Clauses)
	Col      string `json:"col,omitempty"`
	ColTyped bool   `json:"coltyped,omitempty"` // clause.Column{Name: Col} instead of the string
	A        *Arg   `json:"a,omitempty"`
	In       []Val  `json:"in,omitempty"`
	Sub      []Cl   `json:"sub,omitempty"`
}

// Rec is a record of one of the three tables: F holds the column values in
// column order (nil = Go zero value), without id and timestamps.
type Rec struct {
	Table string `json:"table"` // items | owners | tags
	ID    int64  `json:"id,omitempty"`
	F     []*Val `json:"f"`
}

// Unit is one condition argument list (what is passed to Where/Not/Or/Having/
// an inline finisher condition).
type Unit struct {
	Form  string   `json:"form"` // tmpl named map struct clause colval group pk
	T     *Tmpl    `json:"t,omitempty"`
	Keys  []string `json:"keys,omitempty"`
	Vals  []Arg    `json:"vals,omitempty"`
	Rec   *Rec     `json:"rec,omitempty"`
	Ptr   bool     `json:"ptr,omitempty"`
	Cl    *Cl      `json:"cl,omitempty"`
	Group []Cond   `json:"group,omitempty"`
	PK    *Val     `json:"pk,omitempty"`
	// MapType: "" = map[string]interface{}, "ss" = map[string]string, "ii" = map[interface{}]interface{} (one key)
	MapType string `json:"maptype,omitempty"`
	// Fields: Where(&X{…}, "col", …): only the named fields are conditions, zero values included
	Fields []string `json:"fields,omitempty"`
}

// Cond is one Where/Not/Or call (or a Clauses(expr...) call adding conditions).
type Cond struct {
	Op string `json:"op"` // where not or clauses whereclause (Clauses(clause.Where{Exprs})) scope (Scopes(func(db){return db.Where(…)}))
	U  Unit   `json:"u"`
}

// Join is one Joins/InnerJoins call.
type Join struct {
	Kind  string `json:"kind"` // raw rel rel-on
	Inner bool   `json:"inner,omitempty"`
	T     *Tmpl  `json:"t,omitempty"`
	On    *Unit  `json:"on,omitempty"`
}

// Conflict is an upsert clause.
type Conflict struct {
	Kind  string   `json:"kind"` // nothing assignments columns updateall
	Keys  []string `json:"keys,omitempty"`
	Vals  []Arg    `json:"vals,omitempty"`
	Cols  []string `json:"cols,omitempty"`
	Where *Cl      `json:"where,omitempty"`
}

// MapRow is one map[string]interface{} record (keys sorted).
type MapRow struct {
	Keys []string `json:"keys"`
	Vals []Arg    `json:"vals"`
}

// Chain is a whole call chain ending in a finisher (or, for sub-queries, in none).
type Chain struct {
	Kind string `json:"kind"` // query update delete create save firstor raw exec
	// Base: "item" | "owner" | "tag" = Model(&X{}); "t:items" … = Table(name);
	// "sub" = Table("(?) AS t", Sub)
	Base     string  `json:"base"`
	Sub      *Chain  `json:"sub,omitempty"`
	ModelID  int64   `json:"modelid,omitempty"`  // Model(&X{ID: n})
	ModelIDs []int64 `json:"modelids,omitempty"` // Model(&[]X{{ID: a}, {ID: b}}) (updates)
	Unscoped bool    `json:"unscoped,omitempty"`

	SelCols []string `json:"selcols,omitempty"`
	Sel     *Tmpl    `json:"sel,omitempty"`
	Joins   []Join   `json:"joins,omitempty"`
	Conds   []Cond   `json:"conds,omitempty"`
	Group   string   `json:"group,omitempty"`
	Having  *Unit    `json:"having,omitempty"`
	// PreHavings / PreOrders: Having / Order(string) calls made before Having / OrderStr, each by a call of its own
	PreHavings []Unit   `json:"prehavings,omitempty"`
	PreOrders  []string `json:"preorders,omitempty"`
	OrderStr   string   `json:"orderstr,omitempty"`
	OrderExpr  *Tmpl    `json:"orderexpr,omitempty"`
	Limit      int      `json:"limit,omitempty"`
	Offset     int      `json:"offset,omitempty"`
	LimitCl    bool     `json:"limitcl,omitempty"` // Limit/Offset given as Clauses(clause.Limit{…})
	Lock       bool     `json:"lock,omitempty"`
	Returning  bool     `json:"returning,omitempty"`

	Fin      string `json:"fin,omitempty"` // find first take last count pluck scan row rows batches
	Inline   *Unit  `json:"inline,omitempty"`
	PluckCol string `json:"pluckcol,omitempty"`

	UpKind  string   `json:"upkind,omitempty"` // update updates-map updates-struct updatecolumn updatecolumns-map updatecolumns-struct updates-self (db.Updates(&X{ID: n, …}) without Model)
	SetKeys []string `json:"setkeys,omitempty"`
	SetVals []Arg    `json:"setvals,omitempty"`
	SetRec  *Rec     `json:"setrec,omitempty"`

	CrKind   string    `json:"crkind,omitempty"` // struct slice map maps
	Rows     []Rec     `json:"rows,omitempty"`
	MapRows  []MapRow  `json:"maprows,omitempty"`
	Conflict *Conflict `json:"conflict,omitempty"`

	// Batch: "" | "inbatches" (CreateInBatches(&slice, n)) | "session"
	// (Session{CreateBatchSize: n}.Create(&slice)) | "config" (Config.CreateBatchSize = n;
	// the check opens the handle with it, see ConfigBatchSize). Only with CrKind "slice".
	Batch     string `json:"batch,omitempty"`
	BatchSize int    `json:"batchsize,omitempty"`
	// SkipHooks: the chain starts with Session(&Session{SkipHooks: true})
	SkipHooks bool `json:"skiphooks,omitempty"`
	// Kind "save": Save(&Rows[0]) (CrKind "struct") or Save(&Rows) (CrKind "slice").
	// Kind "firstor": Fin "firstorinit" | "firstorcreate" with Rows[0] as the struct
	// condition (passed through Where, or inline when InlineCond).
	InlineCond bool `json:"inlinecond,omitempty"`
	// FirstOr*: Attrs(struct) / Assign(struct) and an explicit Model(&X{}) before the finisher
	Attrs     *Rec `json:"attrs,omitempty"`
	Assign    *Rec `json:"assign,omitempty"`
	WithModel bool `json:"withmodel,omitempty"`

	// Refused: an update or delete that ends up without any condition and without
	// AllowGlobalUpdate: gorm must refuse it with ErrMissingWhereClause, dry or not, and send nothing.
	// EmptyCond: a condition that vanishes is given all the same: "struct" = Where(&X{}), "map" = Where(map{}).
	Refused   bool   `json:"refused,omitempty"`
	EmptyCond string `json:"emptycond,omitempty"`

	Distinct bool `json:"distinct,omitempty"` // Distinct() before Select
	// AllowGlobal: the chain starts with Session(&Session{AllowGlobalUpdate: true})
	AllowGlobal bool `json:"allowglobal,omitempty"`
	// Cols/ColMode: Select(cols…) / Omit(cols…) restricting the columns a create or update writes
	Cols    []string `json:"cols,omitempty"`
	ColMode string   `json:"colmode,omitempty"` // select | omit
	// value forms: Create(&[]*X{…}), Create(&map)/Create(&[]map), Updates(&X{…})
	PtrElems bool `json:"ptrelems,omitempty"`
	MapPtr   bool `json:"mapptr,omitempty"`
	SetPtr   bool `json:"setptr,omitempty"`
	// FindBatch: batch size of Fin "batches" (FindInBatches)
	FindBatch int `json:"findbatch,omitempty"`

	DelRec *Rec `json:"delrec,omitempty"` // Delete(&X{ID: n})

	Raw *Tmpl `json:"raw,omitempty"`

	// NoExec: the shape is valid for the statement builder but not accepted by
	// SQLite (row-value IN lists); it is only run on the dry dialects.
	NoExec bool `json:"noexec,omitempty"`
}

// ---- canonical rendering ----------------------------------------------------------------------

func (a Arg) String() string {
	switch {
	case a.V != nil:
		return a.V.String()
	case a.E != nil:
		return "Expr(" + a.E.String() + ")"
	case a.Q != nil:
		return "sub{" + a.Q.String() + "}"
	case a.R != nil:
		return "db.Raw(" + a.R.String() + ")"
	default:
		return "Column(" + a.Col + ")"
	}
}

func (t *Tmpl) String() string {
	var b strings.Builder
	b.WriteString(strconv.Quote(t.SQL))
	if t.NoParen {
		b.WriteString("/noparen")
	}
	for _, s := range t.Slots {
		b.WriteString(", ")
		b.WriteString(s.A.String())
	}
	if t.Named() {
		carrier := t.Carrier
		if t.Driver {
			carrier = "driver-named" + fmt.Sprint(t.ArgOrder)
		}
		if t.CarrierPtr {
			carrier = "&" + carrier
		}
		b.WriteString(", " + carrier + "{")
		for i, bd := range t.Binds {
			if i > 0 {
				b.WriteString(", ")
			}
			b.WriteString(bd.Name + ": " + bd.A.String())
		}
		b.WriteString("}")
	}
	return b.String()
}

func (c Cl) String() string {
	switch c.Op {
	case "and", "or", "not", "list":
		parts := make([]string, len(c.Sub))
		for i, s := range c.Sub {
			parts[i] = s.String()
		}
		return "clause." + strings.Title(c.Op) + "(" + strings.Join(parts, ", ") + ")"
	case "in":
		parts := make([]string, len(c.In))
		for i, s := range c.In {
			parts[i] = s.String()
		}
		return fmt.Sprintf("clause.IN{%s, [%s]}", c.colString(), strings.Join(parts, ", "))
	}
	return fmt.Sprintf("clause.%s{%s, %s}", strings.Title(c.Op), c.colString(), c.A.String())
}

func (c Cl) colString() string {
	if c.ColTyped {
		return "Column(" + c.Col + ")"
	}
	return strconv.Quote(c.Col)
}

func (r Rec) String() string {
	var b strings.Builder
	b.WriteString(r.Table + "{")
	if r.ID != 0 {
		fmt.Fprintf(&b, "id: %d, ", r.ID)
	}
	cols := columnsOf(r.Table)
	first := true
	for i, f := range r.F {
		if f == nil {
			continue
		}
		if !first {
			b.WriteString(", ")
		}
		first = false
		b.WriteString(cols[i].name + ": " + f.String())
	}
	b.WriteString("}")
	return b.String()
}

func rowsString(rows []Rec) string {
	parts := make([]string, len(rows))
	for i, r := range rows {
		parts[i] = r.String()
	}
	return "&[]{" + strings.Join(parts, ", ") + "}"
}

func kvString(keys []string, vals []Arg) string {
	parts := make([]string, len(keys))
	for i := range keys {
		parts[i] = keys[i] + ": " + vals[i].String()
	}
	return "map{" + strings.Join(parts, ", ") + "}"
}

func (u Unit) String() string {
	switch u.Form {
	case "tmpl", "named":
		return u.T.String()
	case "map":
		return u.MapType + kvString(u.Keys, u.Vals)
	case "colval":
		return strconv.Quote(u.Keys[0]) + ", " + u.Vals[0].String()
	case "struct":
		out := u.Rec.String()
		if u.Ptr {
			out = "&" + out
		}
		if len(u.Fields) > 0 {
			out += ", fields(" + strings.Join(u.Fields, ",") + ")"
		}
		return out
	case "clause":
		return u.Cl.String()
	case "group":
		return "db" + condsString(u.Group)
	case "pk":
		return "pk " + u.PK.String()
	}
	return "?" + u.Form
}

func condsString(cs []Cond) string {
	var b strings.Builder
	for _, c := range cs {
		name := map[string]string{"where": "Where", "not": "Not", "or": "Or", "clauses": "Clauses", "whereclause": "Clauses(clause.Where)", "scope": "Scopes:Where"}[c.Op]
		b.WriteString("." + name + "(" + c.U.String() + ")")
	}
	return b.String()
}

// String is the canonical rendering of the chain (equal strings = same case).
func (c *Chain) String() string {
	var b strings.Builder
	b.WriteString("db")
	if c.SkipHooks {
		b.WriteString(".Session(SkipHooks)")
	}
	if c.AllowGlobal {
		b.WriteString(".Session(AllowGlobalUpdate)")
	}
	switch {
	case c.Kind == "raw" || c.Kind == "exec" || c.Kind == "save" || c.Kind == "firstor":
	case c.Base == "sub":
		b.WriteString(".Table(\"(?) AS t\", sub{" + c.Sub.String() + "})")
	case strings.HasPrefix(c.Base, "t:"):
		b.WriteString(".Table(" + strconv.Quote(c.Base[2:]) + ")")
	case c.Kind == "create" || (c.Kind == "delete" && c.DelRec != nil && c.ModelID == 0):
		if c.CrKind == "map" || c.CrKind == "maps" {
			b.WriteString(".Model(&" + c.Base + "{})")
		}
	case c.UpKind == "updates-self":
	case len(c.ModelIDs) > 0:
		fmt.Fprintf(&b, ".Model(&[]%s{ids %v})", c.Base, c.ModelIDs)
	default:
		if c.ModelID != 0 {
			fmt.Fprintf(&b, ".Model(&%s{ID: %d})", c.Base, c.ModelID)
		} else {
			b.WriteString(".Model(&" + c.Base + "{})")
		}
	}
	if c.Unscoped {
		b.WriteString(".Unscoped()")
	}
	if c.Distinct {
		b.WriteString(".Distinct()")
	}
	if c.ColMode != "" {
		b.WriteString("." + strings.Title(c.ColMode) + "(" + strings.Join(c.Cols, ",") + ")")
	}
	if c.PtrElems {
		b.WriteString("[ptr elems]")
	}
	if c.MapPtr {
		b.WriteString("[map ptr]")
	}
	if c.SetPtr {
		b.WriteString("[value ptr]")
	}
	if len(c.SelCols) > 0 {
		b.WriteString(".Select(" + strings.Join(c.SelCols, ",") + ")")
	}
	if c.Sel != nil {
		b.WriteString(".Select(" + c.Sel.String() + ")")
	}
	for _, j := range c.Joins {
		fn := ".Joins("
		if j.Inner {
			fn = ".InnerJoins("
		}
		switch j.Kind {
		case "raw":
			b.WriteString(fn + j.T.String() + ")")
		case "rel":
			b.WriteString(fn + "\"Owner\")")
		default:
			b.WriteString(fn + "\"Owner\", db.Where(" + j.On.String() + "))")
		}
	}
	b.WriteString(condsString(c.Conds))
	switch c.EmptyCond {
	case "struct":
		b.WriteString(".Where(&" + c.Base + "{})")
	case "map":
		b.WriteString(".Where(map{})")
	}
	if c.Group != "" {
		b.WriteString(".Group(" + c.Group + ")")
	}
	for _, h := range c.PreHavings {
		b.WriteString(".Having(" + h.String() + ")")
	}
	if c.Having != nil {
		b.WriteString(".Having(" + c.Having.String() + ")")
	}
	for _, o := range c.PreOrders {
		b.WriteString(".Order(" + strconv.Quote(o) + ")")
	}
	if c.OrderStr != "" {
		b.WriteString(".Order(" + strconv.Quote(c.OrderStr) + ")")
	}
	if c.OrderExpr != nil {
		b.WriteString(".Order(OrderBy{Expr(" + c.OrderExpr.String() + ")})")
	}
	if c.LimitCl {
		fmt.Fprintf(&b, ".Clauses(Limit{%d,%d})", c.Limit, c.Offset)
	} else {
		if c.Limit != 0 {
			fmt.Fprintf(&b, ".Limit(%d)", c.Limit)
		}
		if c.Offset != 0 {
			fmt.Fprintf(&b, ".Offset(%d)", c.Offset)
		}
	}
	if c.Lock {
		b.WriteString(".Clauses(Locking)")
	}
	if c.Returning {
		b.WriteString(".Clauses(Returning)")
	}
	if c.Conflict != nil {
		k := c.Conflict
		b.WriteString(".Clauses(OnConflict{" + k.Kind)
		if len(k.Keys) > 0 {
			b.WriteString(" " + kvString(k.Keys, k.Vals))
		}
		if len(k.Cols) > 0 {
			b.WriteString(" cols(" + strings.Join(k.Cols, ",") + ")")
		}
		if k.Where != nil {
			b.WriteString(" where " + k.Where.String())
		}
		b.WriteString("})")
	}
	inline := ""
	if c.Inline != nil {
		inline = ", " + c.Inline.String()
	}
	switch c.Kind {
	case "query":
		switch c.Fin {
		case "":
		case "pluck":
			b.WriteString(".Pluck(" + c.PluckCol + ")")
		case "batches":
			fmt.Fprintf(&b, ".FindInBatches(dest, %d)", c.FindBatch)
		default:
			b.WriteString("." + strings.Title(c.Fin) + "(dest" + inline + ")")
		}
	case "update":
		switch c.UpKind {
		case "update", "updatecolumn":
			b.WriteString("." + map[string]string{"update": "Update", "updatecolumn": "UpdateColumn"}[c.UpKind] + "(" + strconv.Quote(c.SetKeys[0]) + ", " + c.SetVals[0].String() + ")")
		case "updates-map", "updatecolumns-map":
			b.WriteString("." + map[string]string{"updates-map": "Updates", "updatecolumns-map": "UpdateColumns"}[c.UpKind] + "(" + kvString(c.SetKeys, c.SetVals) + ")")
		default:
			b.WriteString("." + map[string]string{"updates-struct": "Updates", "updatecolumns-struct": "UpdateColumns", "updates-self": "Updates"}[c.UpKind] + "(" + c.SetRec.String() + ")")
		}
	case "delete":
		if c.DelRec != nil {
			b.WriteString(".Delete(&" + c.DelRec.String() + inline + ")")
		} else {
			b.WriteString(".Delete(&" + c.Base + "{}" + inline + ")")
		}
	case "create":
		switch c.CrKind {
		case "struct":
			b.WriteString(".Create(&" + c.Rows[0].String() + ")")
		case "slice":
			rows := rowsString(c.Rows)
			switch c.Batch {
			case "inbatches":
				fmt.Fprintf(&b, ".CreateInBatches(%s, %d)", rows, c.BatchSize)
			case "session":
				fmt.Fprintf(&b, ".Session(CreateBatchSize: %d).Create(%s)", c.BatchSize, rows)
			case "config":
				fmt.Fprintf(&b, "[Config.CreateBatchSize: %d].Create(%s)", c.BatchSize, rows)
			default:
				b.WriteString(".Create(" + rows + ")")
			}
		case "map":
			b.WriteString(".Create(" + kvString(c.MapRows[0].Keys, c.MapRows[0].Vals) + ")")
		default:
			parts := make([]string, len(c.MapRows))
			for i, r := range c.MapRows {
				parts[i] = kvString(r.Keys, r.Vals)
			}
			b.WriteString(".Create([]map{" + strings.Join(parts, ", ") + "})")
		}
	case "save":
		if c.CrKind == "struct" {
			b.WriteString(".Save(&" + c.Rows[0].String() + ")")
		} else {
			b.WriteString(".Save(" + rowsString(c.Rows) + ")")
		}
	case "firstor":
		fn := map[string]string{"firstorinit": "FirstOrInit", "firstorcreate": "FirstOrCreate"}[c.Fin]
		if c.WithModel {
			b.WriteString(".Model(&" + c.Rows[0].Table + "{})")
		}
		if c.Attrs != nil {
			b.WriteString(".Attrs(" + c.Attrs.String() + ")")
		}
		if c.Assign != nil {
			b.WriteString(".Assign(" + c.Assign.String() + ")")
		}
		if c.InlineCond {
			b.WriteString("." + fn + "(&" + c.Rows[0].Table + "{}, " + c.Rows[0].String() + ")")
		} else {
			b.WriteString(".Where(" + c.Rows[0].String() + ")." + fn + "(&" + c.Rows[0].Table + "{})")
		}
	case "raw":
		b.WriteString(".Raw(" + c.Raw.String() + ")." + strings.Title(c.Fin) + "(dest)")
	case "exec":
		b.WriteString(".Exec(" + c.Raw.String() + ")")
	}
	return b.String()
}

// ---- table metadata -----------------------------------------------------------------------------

type column struct {
	name string
	kind string // str int float bool pstr nullstr bytes uint raw hash
}

var tableColumns = map[string][]column{
	"items": {
		{"name", "str"}, {"code", "int"}, {"price", "float"}, {"active", "bool"},
		{"note", "pstr"}, {"nick", "nullstr"}, {"data", "bytes"}, {"owner_id", "uint"},
		{"payload", "raw"}, {"digest", "hash"},
	},
	"owners": {{"title", "str"}, {"age", "int"}},
	"tags":   {{"label", "str"}, {"weight", "int"}, {"item_id", "uint"}},
}

func columnsOf(table string) []column { return tableColumns[table] }

// tableOf maps a chain base to its table name and whether a model (schema) is attached.
func tableOf(base string) (table string, model bool) {
	switch base {
	case "item":
		return "items", true
	case "owner":
		return "owners", true
	case "tag":
		return "tags", true
	case "sub":
		return "t", false
	}
	return strings.TrimPrefix(base, "t:"), false
}
