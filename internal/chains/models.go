// Package chains is the chain grammar shared by the C01 and C19 checks: a
// plain-data description of a gorm call chain (Chain), a rapid generator for
// it, an interpreter that performs the described calls on a *gorm.DB (Apply)
// and an independent linearizer (Expected) that predicts, from the description
// alone, the sequence of values the statement must bind.
package chains

import (
	"context"
	"database/sql"
	"database/sql/driver"
	"encoding/json"
	"strings"
	"time"

	"gorm.io/gorm"
	"gorm.io/gorm/clause"
)

// The three-table schema. Column names of different tables never clash (apart
// from the always-qualified primary keys) so that joins never produce an
// ambiguous column reference.
type Item struct {
	ID        uint `gorm:"primarykey"`
	Name      string
	Code      int64
	Price     float64
	Active    bool
	Note      *string
	Nick      sql.NullString
	Data      []byte
	OwnerID   uint
	Payload   json.RawMessage // named byte-slice types: one bound value, like []byte
	Digest    Hash
	Owner     *Owner // belongs to; always nil in generated records
	CreatedAt time.Time
	UpdatedAt time.Time
	DeletedAt gorm.DeletedAt
}

// Owner tracks its times as integer unix seconds (CreatedAt/UpdatedAt by name).
type Owner struct {
	ID        uint `gorm:"primarykey"`
	Title     string
	Age       int64
	CreatedAt int64
	UpdatedAt int64
}

// Tag tracks its times in tagged integer fields (milliseconds / nanoseconds).
type Tag struct {
	ID      uint `gorm:"primarykey"`
	Label   string
	Weight  int64
	ItemID  uint
	Made    int64 `gorm:"autoCreateTime:milli"`
	Touched int64 `gorm:"autoUpdateTime:nano"`
}

// DDL creates the tables exactly as AutoMigrate would name them (three plain
// statements are much cheaper than AutoMigrate per case).
var DDL = []string{
	"CREATE TABLE `items` (`id` integer PRIMARY KEY AUTOINCREMENT,`name` text,`code` integer,`price` real,`active` numeric,`note` text,`nick` text,`data` blob,`owner_id` integer,`payload` blob,`digest` blob,`created_at` datetime,`updated_at` datetime,`deleted_at` datetime)",
	"CREATE TABLE `owners` (`id` integer PRIMARY KEY AUTOINCREMENT,`title` text,`age` integer,`created_at` integer,`updated_at` integer)",
	"CREATE TABLE `tags` (`id` integer PRIMARY KEY AUTOINCREMENT,`label` text,`weight` integer,`item_id` integer,`made` integer,`touched` integer)",
}

// Seed rows inserted through database/sql (never through gorm: a DryRun handle
// could not do it) so that reads return something and writes hit something.
var Seed = []string{
	"INSERT INTO owners (id,title,age,created_at,updated_at) VALUES (1,'ann',30,1900000000,1900000001),(2,'bob',41,1900000002,1900000003),(3,'o''hara',52,1900000004,1900000005)",
	"INSERT INTO items (id,name,code,price,active,note,nick,data,owner_id,payload,digest,created_at,updated_at,deleted_at) VALUES " +
		"(1,'alpha',10,1.5,1,'n1','a',x'01',1,x'5b312c325d',x'aa01','2030-01-01 00:00:00+00:00','2030-01-01 00:00:00+00:00',NULL)," +
		"(2,'beta',20,2.5,0,NULL,NULL,NULL,2,NULL,NULL,'2030-01-02 00:00:00+00:00','2030-01-02 00:00:00+00:00',NULL)," +
		"(3,'gamma',30,3.5,1,'n3','g',x'0203',1,x'5b335d',x'bb','2030-01-03 00:00:00+00:00','2030-01-03 00:00:00+00:00','2030-02-01 00:00:00+00:00')",
	"INSERT INTO tags (id,label,weight,item_id,made,touched) VALUES (1,'red',5,1,1900000000000,1900000000000000000),(2,'blue',7,1,1900000000001,1900000000000000001),(3,'green',9,2,1900000000002,1900000000000000002)",
}

// Prepare creates and seeds the schema through the raw pool.
func Prepare(pool *sql.DB) error {
	for _, s := range DDL {
		if _, err := pool.Exec(s); err != nil {
			return err
		}
	}
	for _, s := range Seed {
		if _, err := pool.Exec(s); err != nil {
			return err
		}
	}
	return nil
}

// Hash is a named byte-slice type without a Value method (like json.RawMessage, net.IP).
type Hash []byte

// IDs and Names are named slice types: lists, but not one of the slice types
// the equality builders know by name.
type (
	IDs   []int64
	Names []string
)

// Level is a named uint8 type (an enum): a []Level is a list of values, not binary data.
// Tiny and Port are named int8 / uint16 types for contrast.
type (
	Level uint8
	Tiny  int8
	Port  uint16
)

// StrList is a slice type that implements driver.Valuer: ONE bound value everywhere.
type StrList []string

func (l StrList) Value() (driver.Value, error) { return strings.Join(l, "|"), nil }

// Wrapped is a custom driver.Valuer (value receiver).
type Wrapped struct{ S string }

func (w Wrapped) Value() (driver.Value, error) { return w.S, nil }

// Concat is a gorm.Valuer: it renders as an SQL expression with two bound values.
type Concat struct {
	A string
	B int64
}

func (c Concat) GormValue(_ context.Context, _ *gorm.DB) clause.Expr {
	return clause.Expr{SQL: "(? || ?)", Vars: []interface{}{c.A, c.B}}
}

// NamedCarrier is the struct form of named arguments (@N1, @N2, @N3).
type NamedCarrier struct {
	N1        interface{}
	N2        interface{}
	NamedBase // N3 comes from an embedded struct
}

// NamedBase is embedded in NamedCarrier.
type NamedBase struct{ N3 interface{} }

// Reenter is a gorm.Valuer that, while the statement it is an argument of is
// being built, calls ReenterHook (the checks use it to build and run another
// complete statement from the same reusable handle) and then renders as one
// bound value.
type Reenter struct{ V int64 }

// ReenterHook is called by Reenter.GormValue (nil = nothing). Set by single-threaded tests only.
var ReenterHook func()

func (r Reenter) GormValue(_ context.Context, _ *gorm.DB) clause.Expr {
	if h := ReenterHook; h != nil {
		ReenterHook = nil // once
		h()
	}
	return clause.Expr{SQL: "?", Vars: []interface{}{r.V}}
}

// OwnerHookSQL is the statement Owner's AfterCreate hook runs for every created
// record, through the handle gorm passes to the hook.
const OwnerHookSQL = "UPDATE owners SET age = age + ? WHERE id < ?"

// AfterCreate runs a nested statement: in a dry run it must not reach the driver either.
func (o *Owner) AfterCreate(tx *gorm.DB) error {
	return tx.Exec(OwnerHookSQL, 0, -1).Error
}

// OwnerDefaultAge is what Owner's BeforeCreate hook writes into a record created without an age:
// a hook that changes a written column (the statement must show the changed value, dry or not).
const OwnerDefaultAge = 18

func (o *Owner) BeforeCreate(tx *gorm.DB) error {
	if o.Age == 0 {
		o.Age = OwnerDefaultAge
	}
	return nil
}
