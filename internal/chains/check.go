package chains

import (
	"fmt"
	"strconv"
	"strings"
)

// ---- generator self-check ---------------------------------------------------------------------------

func validateTmpl(t *Tmpl) error {
	if t.Driver {
		if strings.ContainsAny(t.SQL, "?@") {
			return fmt.Errorf("driver-named template %q contains '?' or '@'", t.SQL)
		}
		if got := ColonNames(t.SQL, false); strings.Join(got, ",") != strings.Join(t.Refs, ",") {
			return fmt.Errorf("driver-named template %q: text has %v, description has %v", t.SQL, got, t.Refs)
		}
		if len(t.ArgOrder) != len(t.Binds) {
			return fmt.Errorf("driver-named template %q: %d arguments for %d names", t.SQL, len(t.ArgOrder), len(t.Binds))
		}
		return nil
	}
	if t.Named() {
		if strings.Contains(t.SQL, "?") {
			return fmt.Errorf("named template %q contains '?'", t.SQL)
		}
		var refs []string
		for i := 0; i < len(t.SQL); i++ {
			if t.SQL[i] != '@' {
				continue
			}
			j := i + 1
			for j < len(t.SQL) && !strings.ContainsRune(" ,)\n", rune(t.SQL[j])) {
				j++
			}
			refs = append(refs, t.SQL[i+1:j])
			i = j
		}
		if strings.Join(refs, ",") != strings.Join(t.Refs, ",") {
			return fmt.Errorf("named template %q: text has %v, description has %v", t.SQL, refs, t.Refs)
		}
		for _, r := range t.Refs {
			found := false
			for _, b := range t.Binds {
				found = found || b.Name == r
			}
			if !found {
				return fmt.Errorf("named template %q: @%s unbound", t.SQL, r)
			}
		}
		return nil
	}
	if strings.Contains(t.SQL, "@") {
		return fmt.Errorf("positional template %q contains '@'", t.SQL)
	}
	k, lit := 0, 0
	for i := 0; i < len(t.SQL); i++ {
		if t.SQL[i] != '?' {
			continue
		}
		if k >= len(t.Slots) {
			lit++ // after the last real placeholder: a '?' of a string literal
			continue
		}
		if paren := i > 0 && t.SQL[i-1] == '('; paren != t.Slots[k].Paren {
			return fmt.Errorf("template %q: placeholder %d paren flag %v does not match the text", t.SQL, k, t.Slots[k].Paren)
		}
		k++
	}
	if k != len(t.Slots) || lit != t.LitQ {
		return fmt.Errorf("template %q has %d '?' (+%d literal) for %d arguments (+%d literal)", t.SQL, k, lit, len(t.Slots), t.LitQ)
	}
	return nil
}

// Validate checks that every template's description matches its text.
func (c *Chain) Validate() error {
	var err error
	w := &walker{info: Info{Hazards: map[string]bool{}, Classes: map[string]bool{}}}
	w.onTmpl = func(t *Tmpl) {
		if e := validateTmpl(t); e != nil && err == nil {
			err = e
		}
	}
	w.chain(c)
	return err
}

// ---- oracles over the statement text ---------------------------------------------------------------

// CheckNumbered verifies the '$n' structure: the tokens $k are exactly $1…$n,
// once each, in increasing left-to-right order. It returns "" or a description.
func CheckNumbered(sql string, n int) string {
	next := 1
	for i := 0; i < len(sql); i++ {
		if sql[i] != '$' {
			continue
		}
		j := i + 1
		for j < len(sql) && sql[j] >= '0' && sql[j] <= '9' {
			j++
		}
		if j == i+1 {
			return fmt.Sprintf("'$' without number at byte %d", i)
		}
		k, _ := strconv.Atoi(sql[i+1 : j])
		if k != next {
			return fmt.Sprintf("placeholder $%d found where $%d was expected", k, next)
		}
		next++
		i = j - 1
	}
	if next-1 != n {
		return fmt.Sprintf("%d numbered placeholders for %d bound values", next-1, n)
	}
	return ""
}

// Unnumber rewrites $k to ?.
func Unnumber(sql string) string {
	var b strings.Builder
	for i := 0; i < len(sql); i++ {
		if sql[i] == '$' {
			j := i + 1
			for j < len(sql) && sql[j] >= '0' && sql[j] <= '9' {
				j++
			}
			if j > i+1 {
				b.WriteByte('?')
				i = j - 1
				continue
			}
		}
		b.WriteByte(sql[i])
	}
	return b.String()
}

// CountQ counts '?' placeholders.
func CountQ(sql string) int { return strings.Count(sql, "?") }

// Leaked returns the sentinel tokens found in the text.
func Leaked(sql string, tokens []string) []string {
	var out []string
	for _, t := range tokens {
		if t != "" && strings.Contains(sql, t) {
			out = append(out, t)
		}
	}
	return out
}

// ColonNames lists the driver-style named placeholders (":name") of a statement
// text in order of appearance; distinct = every name once.
func ColonNames(sql string, distinct bool) []string {
	var out []string
	seen := map[string]bool{}
	for i := 0; i+1 < len(sql); i++ {
		if sql[i] != ':' {
			continue
		}
		j := i + 1
		for j < len(sql) && (sql[j] == '_' || sql[j] >= 'a' && sql[j] <= 'z' || sql[j] >= 'A' && sql[j] <= 'Z' || sql[j] >= '0' && sql[j] <= '9') {
			j++
		}
		if j == i+1 {
			continue
		}
		name := sql[i+1 : j]
		if !distinct || !seen[name] {
			out = append(out, name)
		}
		seen[name] = true
		i = j - 1
	}
	return out
}

// Positional counts the values that are not bound under a name, and lists the names of the others.
func Positional(vars []interface{}) (int, []string) {
	n := 0
	var names []string
	for _, v := range vars {
		if l, ok := v.(NamedLeaf); ok {
			names = append(names, l.Name)
		} else {
			n++
		}
	}
	return n, names
}

// NamedMatch: every value bound under a name has its ":name" placeholder in the text and vice versa.
func NamedMatch(sql string, names []string) bool {
	want := map[string]bool{}
	for _, n := range names {
		if want[n] {
			return false // the same name bound twice
		}
		want[n] = true
	}
	got := ColonNames(sql, true)
	if len(got) != len(want) {
		return false
	}
	for _, n := range got {
		if !want[n] {
			return false
		}
	}
	return true
}
