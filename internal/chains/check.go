package chains

import (
	"fmt"
	"strconv"
	"strings"
)

// ---- generator self-check ---------------------------------------------------------------------------

func validateTmpl(t *Tmpl) error {
	if t.Named() {
		if strings.Contains(t.SQL, "?") {
			return fmt.Errorf("named template %q contains '?'", t.SQL)
		}
		var refs []string
		for i := 0; i < len(t.SQL); i++ {
			if t.SQL[i] != '@' {
				continue
			}
			j := i + 1
			for j < len(t.SQL) && !strings.ContainsRune(" ,)\n", rune(t.SQL[j])) {
				j++
			}
			refs = append(refs, t.SQL[i+1:j])
			i = j
		}
		if strings.Join(refs, ",") != strings.Join(t.Refs, ",") {
			return fmt.Errorf("named template %q: text has %v, description has %v", t.SQL, refs, t.Refs)
		}
		for _, r := range t.Refs {
			found := false
			for _, b := range t.Binds {
				found = found || b.Name == r
			}
			if !found {
				return fmt.Errorf("named template %q: @%s unbound", t.SQL, r)
			}
		}
		return nil
	}
	if strings.Contains(t.SQL, "@") {
		return fmt.Errorf("positional template %q contains '@'", t.SQL)
	}
	k := 0
	for i := 0; i < len(t.SQL); i++ {
		if t.SQL[i] != '?' {
			continue
		}
		if k >= len(t.Slots) {
			return fmt.Errorf("template %q has more '?' than arguments", t.SQL)
		}
		if paren := i > 0 && t.SQL[i-1] == '('; paren != t.Slots[k].Paren {
			return fmt.Errorf("template %q: placeholder %d paren flag %v does not match the text", t.SQL, k, t.Slots[k].Paren)
		}
		k++
	}
	if k != len(t.Slots) {
		return fmt.Errorf("template %q has %d '?' for %d arguments", t.SQL, k, len(t.Slots))
	}
	return nil
}

// Validate checks that every template's description matches its text.
func (c *Chain) Validate() error {
	var err error
	w := &walker{info: Info{Hazards: map[string]bool{}, Classes: map[string]bool{}}}
	w.onTmpl = func(t *Tmpl) {
		if e := validateTmpl(t); e != nil && err == nil {
			err = e
		}
	}
	w.chain(c)
	return err
}

// ---- oracles over the statement text ---------------------------------------------------------------

// CheckNumbered verifies the '$n' structure: the tokens $k are exactly $1…$n,
// once each, in increasing left-to-right order. It returns "" or a description.
func CheckNumbered(sql string, n int) string {
	next := 1
	for i := 0; i < len(sql); i++ {
		if sql[i] != '$' {
			continue
		}
		j := i + 1
		for j < len(sql) && sql[j] >= '0' && sql[j] <= '9' {
			j++
		}
		if j == i+1 {
			return fmt.Sprintf("'$' without number at byte %d", i)
		}
		k, _ := strconv.Atoi(sql[i+1 : j])
		if k != next {
			return fmt.Sprintf("placeholder $%d found where $%d was expected", k, next)
		}
		next++
		i = j - 1
	}
	if next-1 != n {
		return fmt.Sprintf("%d numbered placeholders for %d bound values", next-1, n)
	}
	return ""
}

// Unnumber rewrites $k to ?.
func Unnumber(sql string) string {
	var b strings.Builder
	for i := 0; i < len(sql); i++ {
		if sql[i] == '$' {
			j := i + 1
			for j < len(sql) && sql[j] >= '0' && sql[j] <= '9' {
				j++
			}
			if j > i+1 {
				b.WriteByte('?')
				i = j - 1
				continue
			}
		}
		b.WriteByte(sql[i])
	}
	return b.String()
}

// CountQ counts '?' placeholders.
func CountQ(sql string) int { return strings.Count(sql, "?") }

// Leaked returns the sentinel tokens found in the text.
func Leaked(sql string, tokens []string) []string {
	var out []string
	for _, t := range tokens {
		if t != "" && strings.Contains(sql, t) {
			out = append(out, t)
		}
	}
	return out
}
