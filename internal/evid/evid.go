// Package evid collects what a check actually explored: every generated case
// is reported with a canonical descriptor, its class labels and whether it is
// non-trivial by the property's stated rule. At process exit (Flush, called
// from TestMain) the collector writes a partial evidence file that the driver
// script merges across shards.
package evid

import (
	"encoding/binary"
	"encoding/json"
	"hash/fnv"
	"os"
	"sort"
	"sync"
)

type collector struct {
	mu          sync.Mutex
	evaluations int64
	nontrivial  int64
	distinct    map[uint64]struct{} // hashes of non-trivial descriptors
	classes     map[string]int64
	excluded    map[string]int64
	samples     []interface{}
	ntSamples   int
	rule        string
	extra       map[string]interface{}
	assumptions []string
	exhaustive  *bool
}

var c = &collector{
	distinct: map[uint64]struct{}{},
	classes:  map[string]int64{},
	excluded: map[string]int64{},
	extra:    map[string]interface{}{},
}

const maxSamples = 8

// Rule states how cases are generated and what makes one non-trivial/distinct.
func Rule(s string) { c.mu.Lock(); c.rule = s; c.mu.Unlock() }

// Assume records an assumption / trusted-base item of the check.
func Assume(s string) {
	c.mu.Lock()
	defer c.mu.Unlock()
	for _, a := range c.assumptions {
		if a == s {
			return
		}
	}
	c.assumptions = append(c.assumptions, s)
}

// Exhaustive marks that a finite space was enumerated completely.
func Exhaustive(b bool) { c.mu.Lock(); c.exhaustive = &b; c.mu.Unlock() }

// Extra stores an additional coverage key (summed when numeric across shards).
func Extra(key string, v interface{}) { c.mu.Lock(); c.extra[key] = v; c.mu.Unlock() }

// AddExtra adds n to a numeric extra coverage key.
func AddExtra(key string, n int64) {
	c.mu.Lock()
	defer c.mu.Unlock()
	cur, _ := c.extra[key].(int64)
	c.extra[key] = cur + n
}

// Case reports one generated case. desc must be a canonical rendering of the
// case (equal descriptors = same case). sample, if non-nil, is what is written
// to the evidence samples list (defaults to desc).
func Case(desc string, nontrivial bool, sample interface{}, classes ...string) {
	c.mu.Lock()
	defer c.mu.Unlock()
	c.evaluations++
	for _, cl := range classes {
		c.classes[cl]++
	}
	if !nontrivial {
		if len(c.samples) < 2 {
			c.addSample(desc, sample)
		}
		return
	}
	c.nontrivial++
	h := fnv.New64a()
	h.Write([]byte(desc))
	k := h.Sum64()
	if _, ok := c.distinct[k]; !ok {
		c.distinct[k] = struct{}{}
		// keep a spread of non-trivial samples: the first few, then every 2^k-th
		n := len(c.distinct)
		if c.ntSamples < maxSamples && (n <= 3 || n&(n-1) == 0) {
			c.ntSamples++
			c.addSample(desc, sample)
		}
	}
}

func (c *collector) addSample(desc string, sample interface{}) {
	if sample == nil {
		sample = desc
	}
	c.samples = append(c.samples, sample)
}

// Class bumps a class counter without counting a case (sub-events of a case).
func Class(cl string) { c.mu.Lock(); c.classes[cl]++; c.mu.Unlock() }

// Excluded counts a generated case that was skipped because it falls in a
// listed known-finding class or outside the property's stated domain.
func Excluded(class string) { c.mu.Lock(); c.excluded[class]++; c.mu.Unlock() }

type partial struct {
	Evaluations int64                  `json:"evaluations"`
	Nontrivial  int64                  `json:"nontrivial"`
	Distinct    int                    `json:"distinct_nontrivial"`
	Rule        string                 `json:"rule"`
	Classes     map[string]int64       `json:"classes"`
	Excluded    map[string]int64       `json:"excluded"`
	Samples     []interface{}          `json:"samples"`
	Extra       map[string]interface{} `json:"extra"`
	Assumptions []string               `json:"assumptions"`
	Exhaustive  *bool                  `json:"exhaustive,omitempty"`
}

// Flush writes the partial evidence to $VERIF_EVID_OUT (JSON) and the distinct
// hashes to $VERIF_EVID_OUT.hashes (little-endian uint64s). No-op when unset.
func Flush() {
	out := os.Getenv("VERIF_EVID_OUT")
	if out == "" {
		return
	}
	c.mu.Lock()
	defer c.mu.Unlock()
	p := partial{
		Evaluations: c.evaluations, Nontrivial: c.nontrivial, Distinct: len(c.distinct),
		Rule: c.rule, Classes: c.classes, Excluded: c.excluded, Samples: c.samples,
		Extra: c.extra, Assumptions: c.assumptions, Exhaustive: c.exhaustive,
	}
	b, _ := json.MarshalIndent(p, "", " ")
	_ = os.WriteFile(out, b, 0o644)
	keys := make([]uint64, 0, len(c.distinct))
	for k := range c.distinct {
		keys = append(keys, k)
	}
	sort.Slice(keys, func(i, j int) bool { return keys[i] < keys[j] })
	buf := make([]byte, 8*len(keys))
	for i, k := range keys {
		binary.LittleEndian.PutUint64(buf[8*i:], k)
	}
	_ = os.WriteFile(out+".hashes", buf, 0o644)
}

// Journal appends the descriptor of the case about to run to $VERIF_JOURNAL so
// that the driver can attribute a process abort (fatal error) to a case.
var journal *os.File

func Journal(desc string) {
	p := os.Getenv("VERIF_JOURNAL")
	if p == "" {
		return
	}
	c.mu.Lock()
	defer c.mu.Unlock()
	if journal == nil {
		f, err := os.OpenFile(p, os.O_CREATE|os.O_WRONLY|os.O_TRUNC, 0o644)
		if err != nil {
			return
		}
		journal = f
	}
	// keep only the last entry: rewrite from offset 0
	_ = journal.Truncate(0)
	_, _ = journal.WriteAt([]byte(desc), 0)
}
