// Package harness holds what every property package shares: TestMain glue,
// tier/seed access, replay-file plumbing and the known-findings reader.
package harness

import (
	"bufio"
	"crypto/sha1"
	"encoding/hex"
	"encoding/json"
	"fmt"
	"os"
	"path/filepath"
	"strconv"
	"strings"
	"sync"
	"testing"

	"verif/internal/evid"
)

// Main is the TestMain body of every property package.
func Main(m *testing.M) {
	code := m.Run()
	evid.Flush()
	os.Exit(code)
}

// Tier is "quick" or "thorough" (VERIF_TIER, default quick).
func Tier() string {
	if t := os.Getenv("VERIF_TIER"); t == "thorough" {
		return t
	}
	return "quick"
}

// Thorough reports whether the thorough tier is running.
func Thorough() bool { return Tier() == "thorough" }

// Seed is the per-process seed handed down by the driver (never 0).
func Seed() uint64 {
	s, _ := strconv.ParseUint(os.Getenv("VERIF_PROC_SEED"), 10, 64)
	if s == 0 {
		s = 1
	}
	return s
}

// Shard / Shards: index and number of parallel processes of this test.
func Shard() int  { n, _ := strconv.Atoi(os.Getenv("VERIF_SHARD")); return n }
func Shards() int { n, _ := strconv.Atoi(os.Getenv("VERIF_SHARDS")); if n < 1 { n = 1 }; return n }

// EnvInt reads an integer knob passed by the driver.
func EnvInt(name string, def int) int {
	if v, err := strconv.Atoi(os.Getenv(name)); err == nil {
		return v
	}
	return def
}

// Root is the /verif directory.
func Root() string {
	if r := os.Getenv("VERIF_ROOT"); r != "" {
		return r
	}
	return "/verif"
}

// ReplayPath is the non-rapid replay file to re-run ("" when not replaying).
func ReplayPath() string { return os.Getenv("VERIF_REPLAY") }

// LoadReplay decodes the replay file into v.
func LoadReplay(v interface{}) error {
	b, err := os.ReadFile(ReplayPath())
	if err != nil {
		return err
	}
	return json.Unmarshal(b, v)
}

// SaveCase writes a failing non-rapid case as JSON under $VERIF_REPLAY_DIR and
// prints the marker line the driver looks for. It returns the path.
func SaveCase(test string, c interface{}) string {
	dir := os.Getenv("VERIF_REPLAY_DIR")
	if dir == "" {
		dir = os.TempDir()
	}
	_ = os.MkdirAll(dir, 0o755)
	b, _ := json.MarshalIndent(c, "", " ")
	h := sha1.Sum(b)
	p := filepath.Join(dir, fmt.Sprintf("%s-%s.json", test, hex.EncodeToString(h[:6])))
	_ = os.WriteFile(p, b, 0o644)
	fmt.Printf("VERIF-REPLAY-FILE: %s\n", p)
	return p
}

// Finding is one line of known-findings.txt.
type Finding struct {
	State    string // "open" or "fixed"
	Property string
	Class    string
	Witness  string
	Text     string
}

// Findings parses /verif/known-findings.txt (missing file = none).
func Findings() []Finding {
	findingsOnce.Do(func() { findings = loadFindings() })
	return findings
}

var (
	findingsOnce sync.Once
	findings     []Finding
)

func loadFindings() []Finding {
	f, err := os.Open(filepath.Join(Root(), "known-findings.txt"))
	if err != nil {
		return nil
	}
	defer f.Close()
	var out []Finding
	sc := bufio.NewScanner(f)
	for sc.Scan() {
		line := strings.TrimSpace(sc.Text())
		if line == "" || strings.HasPrefix(line, "#") {
			continue
		}
		var fd Finding
		switch {
		case strings.HasPrefix(line, "open:"):
			fd.State, line = "open", strings.TrimSpace(line[5:])
		case strings.HasPrefix(line, "fixed:"):
			fd.State, line = "fixed", strings.TrimSpace(line[6:])
		default:
			continue
		}
		var rest []string
		for _, w := range strings.Fields(line) {
			switch {
			case strings.HasPrefix(w, "property=") && fd.Property == "":
				fd.Property = w[9:]
			case strings.HasPrefix(w, "class=") && fd.Class == "":
				fd.Class = w[6:]
			case strings.HasPrefix(w, "witness=") && fd.Witness == "":
				fd.Witness = w[8:]
			default:
				rest = append(rest, w)
			}
		}
		fd.Text = strings.Join(rest, " ")
		out = append(out, fd)
	}
	return out
}

// OpenClass reports whether class is listed as an open known finding of the
// property: generators then exclude that class by construction (counting it
// with evid.Excluded) so that the search continues behind the finding.
func OpenClass(property, class string) bool {
	for _, f := range Findings() {
		if f.State == "open" && f.Property == property && f.Class == class {
			return true
		}
	}
	return false
}
