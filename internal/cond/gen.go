package cond

import (
	"fmt"
	"reflect"
	"sort"
	"strings"

	"pgregory.net/rapid"
)

// Cfg bounds and steers the generators.
type Cfg struct {
	Qual         string // table name that must qualify columns (join paths), "" = unqualified
	NoStruct     bool   // struct form unavailable
	NoGroup      bool
	MaxDepth     int  // tree depth (default 3)
	MaxUnits     int  // calls per chain (default 5)
	MaxID        int  // ids used by the primary-key forms are 1..MaxID+1
	LeadingOr    bool // the first effective call may be Or
	EmptyIn      bool // IN lists may be empty (rendered IN (NULL) by gorm)
	NoPK         bool // no primary-key forms (conditions must not mention id)
	NoNeutral    bool // no Session{} / WithContext between calls, no Clauses(expr)
	NoNullInList bool // no NULL elements in IN lists
	SoftCol      bool // conditions may name the soft-delete column itself (IS [NOT] NULL; real name: SoftColName)
	SkipClass    func(class string) bool
	OnExcluded   func(class string)
}

func (c Cfg) depth() int {
	if c.MaxDepth > 0 {
		return c.MaxDepth
	}
	return 3
}

func (c Cfg) units() int {
	if c.MaxUnits > 0 {
		return c.MaxUnits
	}
	return 5
}

func (c Cfg) skip(class string) bool {
	if c.SkipClass != nil && c.SkipClass(class) {
		if c.OnExcluded != nil {
			c.OnExcluded(class)
		}
		return true
	}
	return false
}

// ---- rows --------------------------------------------------------------------------------------

var (
	intDom  = []int{0, 1, 2, 3}
	textDom = []string{"a", "b", "ab", ""}
	// keyword-bearing data: strings that contain the letters of AND / OR, as a
	// word of their own or inside a word. They are values only (compared with
	// = <> < > IN LIKE); in literal renderings they put the letters before,
	// between and behind the real keywords of a raw condition.
	kwDom = []string{"or", "and", "sand", "order", "b and c", "é", "ß", "日本"}
	// compared values may also be upper case (rows stay lower case, so that
	// SQLite's case-insensitive LIKE cannot differ from the evaluator)
	kwValDom = []string{"or", "and", "sand", "order", "b and c", "x OR y", "AND", "é", "ß", "日本", "é"}
	likeDom  = []string{"a%", "%b", "_", "%", "ab", "", "a_", "%a%", "_b", "b", "%or%", "%and", "s_nd", "or%", "b and%", "日_", "%é"}
)

// rowText draws a stored text value, valText a compared one.
func rowText(x g) string {
	if x.pct(35) {
		return kwDom[x.n(len(kwDom))]
	}
	return textDom[x.n(4)]
}

func valText(x g) string {
	if x.pct(35) {
		return kwValDom[x.n(len(kwValDom))]
	}
	return textDom[x.n(4)]
}

// GenRows draws 0..max rows with ids 1..n over the tiny domains.
func GenRows(rt *rapid.T, max int) []Row {
	x := newG(rt)
	n := x.n(max + 1)
	rows := make([]Row, n)
	for i := range rows {
		rows[i] = GenRow(x, i+1)
	}
	return rows
}

// GenRow draws the column values of one row.
func GenRow(x g, id int) Row {
	r := Row{ID: id, Ca: intDom[x.n(4)], Cb: intDom[x.n(4)], Cs: rowText(x), Cor: intDom[x.n(4)], Band: rowText(x)}
	if !x.pct(35) {
		v := intDom[x.n(4)]
		r.Cn = &v
	}
	if !x.pct(35) {
		v := rowText(x)
		r.Ct = &v
	}
	return r
}

// G exposes the draw helper to property packages.
func G(rt *rapid.T) g { return newG(rt) }

// ---- trees -------------------------------------------------------------------------------------

func genVal(x g, col string) Val {
	if IsText(col) {
		return StrV(valText(x))
	}
	return IntV(x.n(5)) // 4 matches nothing
}

// SoftColName is the real name of the soft-delete column for the units generated
// next (set by the property before it draws a case; one goroutine per process).
var SoftColName = "deleted_at"

func genAtom(x g, cfg Cfg) *Node {
	if cfg.SoftCol && x.pct(5) {
		if x.pct(60) {
			return IsNull(SoftCol)
		}
		return NotNull(SoftCol)
	}
	col := DataCols[x.n(len(DataCols))]
	ops := []Op{OpEq, OpEq, OpNe, OpNe, OpLt, OpGt, OpGe, OpLe, OpIn, OpIn}
	if IsText(col) {
		ops = append(ops, OpLike, OpLike)
	}
	if Nullable(col) {
		ops = append(ops, OpIsNull, OpIsNull, OpNotNull)
	} else if x.pct(5) {
		ops = append(ops, OpIsNull, OpNotNull)
	}
	op := ops[x.n(len(ops))]
	switch op {
	case OpIsNull, OpNotNull:
		return &Node{Kind: KAtom, Col: col, Op: op}
	case OpLike:
		return Atom(col, op, StrV(likeDom[x.n(len(likeDom))]))
	case OpIn:
		return In(col, genList(x, col, cfg)...)
	}
	return Atom(col, op, genVal(x, col))
}

func genList(x g, col string, cfg Cfg) []Val {
	lo := 1
	if cfg.EmptyIn {
		lo = 0
	}
	k := lo + x.n(4-lo)
	if x.pct(6) {
		k = 4 + x.n(7) // long list: more bound values than the statement's initial capacity
	}
	vs := make([]Val, k)
	for i := range vs {
		vs[i] = genVal(x, col)
	}
	if !cfg.NoNullInList && x.pct(12) {
		// NULL elements: a list of exactly one NULL, {NULL, NULL}, or a value and a NULL
		null := Val{Str: IsText(col), Null: true}
		switch x.n(3) {
		case 0:
			vs = []Val{null}
		case 1:
			vs = []Val{null, null}
		default:
			vs = []Val{genVal(x, col), null}
		}
	}
	return vs
}

// GenTree draws a condition tree of at most the given depth.
func GenTree(rt *rapid.T, depth int, cfg Cfg) *Node { return genTree(newG(rt), depth, cfg) }

func genTree(x g, depth int, cfg Cfg) *Node {
	if depth <= 0 {
		return genAtom(x, cfg)
	}
	switch k := x.n(100); {
	case k < 34:
		return genAtom(x, cfg)
	case k < 58:
		return genNary(x, KAnd, depth, cfg)
	case k < 84:
		return genNary(x, KOr, depth, cfg)
	}
	return Not(genTree(x, depth-1, cfg))
}

func genNary(x g, k Kind, depth int, cfg Cfg) *Node {
	n := 2 + x.n(2)
	kids := make([]*Node, n)
	for i := range kids {
		kids[i] = genTree(x, depth-1, cfg)
	}
	return &Node{Kind: k, Kids: kids}
}

// ---- units -------------------------------------------------------------------------------------

func featsOf(fs ...string) map[string]bool {
	m := map[string]bool{}
	for _, f := range fs {
		m[f] = true
	}
	return m
}

func (cfg Cfg) key(col string) string {
	if cfg.Qual != "" {
		return cfg.Qual + "." + col
	}
	return col
}

func genMapUnit(x g, cfg Cfg) *Unit {
	k := x.n(4) // 0..3 entries
	if x.pct(8) {
		k = 4 + x.n(2) // more conditions than the builder's initial capacity
	}
	cols := append([]string(nil), DataCols...)
	m := map[string]interface{}{}
	u := &Unit{Form: FMap, Feats: featsOf()}
	for i := 0; i < k; i++ {
		j := x.n(len(cols))
		col := cols[j]
		cols = append(cols[:j], cols[j+1:]...)
		var node *Node
		switch c := x.n(10); {
		case c < 2:
			// nil value = IS NULL (untyped nil or a typed nil pointer)
			if Nullable(col) && x.pct(40) {
				if IsText(col) {
					m[cfg.key(col)] = (*string)(nil)
				} else {
					m[cfg.key(col)] = (*int)(nil)
				}
				u.Feats["map:typed-nil"] = true
			} else {
				m[cfg.key(col)] = nil
			}
			u.Feats["map:nil"] = true
			node = IsNull(col)
		case c < 5:
			vs := genList(x, col, cfg)
			sl := goSlice(x, vs, IsText(col))
			switch x.n(6) {
			case 0: // a pointer to the slice is a list too
				p := reflect.New(reflect.TypeOf(sl))
				p.Elem().Set(reflect.ValueOf(sl))
				sl = p.Interface()
				u.Feats["map:pointer-to-slice"] = true
			case 1: // an array / a pointer to an array
				rv := reflect.ValueOf(sl)
				p := reflect.New(reflect.ArrayOf(rv.Len(), rv.Type().Elem()))
				reflect.Copy(p.Elem(), rv)
				if x.pct(50) {
					sl = p.Interface()
				} else {
					sl = p.Elem().Interface()
				}
				u.Feats["map:array"] = true
			}
			m[cfg.key(col)] = sl
			u.Feats["map:slice"] = true
			node = In(col, vs...)
		default:
			v := genVal(x, col)
			m[cfg.key(col)] = v.Go()
			if x.pct(15) {
				m[cfg.key(col)] = valuerFor(v)
				u.Feats["value:valuer-slice"] = true
			}
			node = Atom(col, OpEq, v)
		}
		u.Members = append(u.Members, node)
	}
	if cfg.SoftCol && x.pct(8) {
		// a typed condition on the soft-delete column itself: deleted_at = nil
		m[cfg.key(SoftColName)] = nil
		u.Members = append(u.Members, IsNull(SoftCol))
		u.Feats["cond:soft-delete-column"] = true
	}
	// members in gorm's order (sorted keys) - irrelevant for the meaning
	u.Tree = And(u.Members...)
	u.Query = m
	// the other map types BuildCondition accepts
	allStr, allScalar := true, true
	for _, v := range m {
		switch v.(type) {
		case string:
		case int:
			allStr = false
		default:
			allStr, allScalar = false, false
		}
	}
	switch {
	case allStr && x.pct(40):
		ms := map[string]string{}
		for k, v := range m {
			ms[k] = v.(string)
		}
		u.Query = ms
		u.Feats["map:string-string"] = true
	case allScalar && x.pct(20):
		mi := map[interface{}]interface{}{}
		for k, v := range m {
			mi[k] = v
		}
		u.Query = mi
		u.Feats["map:any-any"] = true
	}
	u.Desc = goString(u.Query)
	if k == 0 {
		u.Feats["map:empty"] = true
	}
	return u
}

func genStructUnit(x g, cfg Cfg) *Unit {
	u := &Unit{Form: FStruct, Fields: map[string]interface{}{}, Ptr: x.pct(50), Feats: featsOf()}
	k := x.n(4)
	cols := append([]string(nil), DataCols...)
	if !cfg.NoPK {
		cols = append(cols, "id")
	}
	var parts []string
	for i := 0; i < k; i++ {
		j := x.n(len(cols))
		col := cols[j]
		cols = append(cols[:j], cols[j+1:]...)
		switch col {
		case "id":
			v := 1 + x.n(cfg.MaxID+1)
			u.Fields[col] = v
			u.Members = append(u.Members, Atom(col, OpEq, IntV(v)))
			u.Feats["struct:pk-field"] = true
		case "ca", "cb", "cor":
			v := x.n(4) // 0 = zero field: no condition
			u.Fields[col] = v
			if v != 0 {
				u.Members = append(u.Members, Atom(col, OpEq, IntV(v)))
			} else {
				u.Feats["struct:zero-field"] = true
			}
		case "cs", "band":
			v := valText(x)
			if x.pct(15) {
				v = ""
			}
			u.Fields[col] = v
			if v != "" {
				u.Members = append(u.Members, Atom(col, OpEq, StrV(v)))
			} else {
				u.Feats["struct:zero-field"] = true
			}
		case "cn":
			v := x.n(4) // a pointer to 0 is not a zero field
			u.Fields[col] = &v
			u.Members = append(u.Members, Atom(col, OpEq, IntV(v)))
			u.Feats["struct:pointer-field"] = true
		case "ct":
			v := valText(x)
			u.Fields[col] = &v
			u.Members = append(u.Members, Atom(col, OpEq, StrV(v)))
			u.Feats["struct:pointer-field"] = true
		}
	}
	if len(u.Fields) > 0 && x.pct(20) {
		// Where(&T{...}, "col", "Field"): only the named fields form conditions,
		// zero values included (a nil pointer field means IS NULL)
		names := map[string]string{"id": "ID", "ca": "Ca", "cb": "Cb", "cs": "Cs", "cn": "Cn", "ct": "Ct", "cor": "Cor", "band": "Band"}
		all := make([]string, 0, len(u.Fields))
		for c := range u.Fields {
			all = append(all, c)
		}
		sort.Strings(all)
		if x.pct(30) { // also a field that is not set at all
			for _, c := range []string{"ca", "cs", "cn"} {
				if _, ok := u.Fields[c]; !ok {
					all = append(all, c)
					break
				}
			}
		}
		u.Members = nil
		nsel := 1 + x.n(len(all))
		for _, c := range all[:nsel] {
			if x.pct(50) {
				u.Args = append(u.Args, c)
			} else {
				u.Args = append(u.Args, names[c])
			}
			var node *Node
			switch v := u.Fields[c].(type) {
			case nil:
				switch c {
				case "cn":
					node = IsNull(c)
				case "cs":
					node = Atom(c, OpEq, StrV(""))
				default:
					node = Atom(c, OpEq, IntV(0))
				}
			case int:
				node = Atom(c, OpEq, IntV(v))
			case string:
				node = Atom(c, OpEq, StrV(v))
			case *int:
				node = Atom(c, OpEq, IntV(*v))
			case *string:
				node = Atom(c, OpEq, StrV(*v))
			}
			u.Members = append(u.Members, node)
		}
		u.Feats["struct:selected-fields"] = true
	}
	keys := make([]string, 0, len(u.Fields))
	for c := range u.Fields {
		keys = append(keys, c)
	}
	sort.Strings(keys)
	for _, c := range keys {
		parts = append(parts, c+":"+goString(u.Fields[c]))
	}
	u.Tree = And(u.Members...)
	amp := ""
	if u.Ptr {
		amp = "&"
		u.Feats["struct:pointer"] = true
	}
	u.Desc = amp + "T{" + strings.Join(parts, ", ") + "}" + argString(u.Args)
	if len(u.Members) == 0 {
		u.Feats["struct:zero"] = true
	}
	return u
}

func genRawUnit(x g, cfg Cfg, mode RawMode) *Unit {
	tree := genTree(x, cfg.depth(), cfg)
	q := ""
	if cfg.Qual != "" {
		q = cfg.Qual + "."
	}
	raw := RenderRaw(x.rt, tree, mode, x.pct(70), q)
	form := map[RawMode]Form{ModeQ: FRawQ, ModeLit: FRawLit, ModeNamed: FNamed}[mode]
	if mode == ModeNamed && countValues(tree) == 0 {
		form = FRawQ
	}
	return &Unit{Form: form, Tree: tree, Query: raw.SQL, Args: raw.Args, Feats: raw.Feats,
		Desc: goString(raw.SQL) + argString(raw.Args)}
}

func genClauseUnit(x g, cfg Cfg) *Unit {
	tree := genTree(x, cfg.depth(), cfg)
	r := &clauseR{g: x, qual: cfg.Qual, feats: map[string]bool{}}
	e, d := r.expr(tree, true)
	u := &Unit{Form: FClause, Tree: tree, Query: e, Desc: d, Feats: r.feats}
	if r.topAnd {
		u.Members = tree.Kids
		u.MemberCmps = r.topCmpKids
	}
	return u
}

// genColValue: Where("col", value).
func genColValue(x g, cfg Cfg) *Unit {
	col := DataCols[x.n(len(DataCols))]
	u := &Unit{Form: FColValue, Query: cfg.key(col), Feats: featsOf()}
	var arg interface{}
	switch c := x.n(10); {
	case c < 1 && Nullable(col):
		u.Tree = IsNull(col)
		u.Feats["colvalue:nil"] = true
	case c < 4:
		vs := genList(x, col, cfg)
		arg = goSlice(x, vs, IsText(col))
		switch arg.(type) {
		case []int, []string, []interface{}:
		default: // Where("col", list) becomes a clause.Eq, which expands only its listed slice types
			vals := make([]interface{}, len(vs))
			for i, v := range vs {
				vals[i] = v.Go()
			}
			arg = vals
		}
		u.Tree = In(col, vs...)
		u.Feats["colvalue:slice"] = true
	case c < 6:
		v := genVal(x, col)
		arg = valuerFor(v)
		u.Tree = Atom(col, OpEq, v)
		u.Feats["value:valuer-slice"] = true
	default:
		v := genVal(x, col)
		arg = v.Go()
		u.Tree = Atom(col, OpEq, v)
	}
	u.Args = []interface{}{arg}
	u.Desc = goString(u.Query) + ", " + goString(arg)
	return u
}

func genPKSlice(x g, cfg Cfg) *Unit {
	k := 1 + x.n(3)
	ids := make([]int, k)
	vs := make([]Val, k)
	for i := range ids {
		ids[i] = 1 + x.n(cfg.MaxID+1)
		vs[i] = IntV(ids[i])
	}
	return &Unit{Form: FPKSlice, Tree: In("id", vs...), Query: ids, Desc: goString(ids), Feats: featsOf()}
}

// GenUnit draws one unit. level is the grouped-builder nesting level.
func GenUnit(rt *rapid.T, cfg Cfg, level int) *Unit { return genUnit(newG(rt), cfg, level) }

func genUnit(x g, cfg Cfg, level int) *Unit {
	for {
		k := x.n(100)
		switch {
		case k < 2:
			if cfg.NoPK {
				continue
			}
			return genNumericString(x, cfg)
		case k < 6:
			return genColValue(x, cfg)
		case k < 24:
			return genRawUnit(x, cfg, ModeQ)
		case k < 32:
			return genRawUnit(x, cfg, ModeLit)
		case k < 44:
			return genRawUnit(x, cfg, ModeNamed)
		case k < 56:
			return genMapUnit(x, cfg)
		case k < 66:
			if cfg.NoStruct {
				continue
			}
			return genStructUnit(x, cfg)
		case k < 82:
			return genClauseUnit(x, cfg)
		case k < 95:
			if cfg.NoGroup || level >= 2 {
				continue
			}
			n := 1 + x.n(3)
			if x.pct(4) {
				n = 0
			}
			return &Unit{Form: FGroup, Group: genCalls(x, cfg, n, level+1, false), Feats: featsOf()}
		default:
			if cfg.NoPK {
				continue
			}
			return genPKSlice(x, cfg)
		}
	}
}

// GenCalls draws a sequence of n Where/Not/Or calls in the property's domain:
// the first effective call is not Or (unless cfg.LeadingOr), Not is used only
// on units for which NotOK holds.
func GenCalls(rt *rapid.T, cfg Cfg, n int) []Call {
	return genCalls(newG(rt), cfg, n, 0, cfg.LeadingOr)
}

func genCalls(x g, cfg Cfg, n, level int, leadingOr bool) []Call {
	calls := make([]Call, 0, n)
	seenEffective := false
	for i := 0; i < n; i++ {
		var verb Verb
		switch k := x.n(100); {
		case k < 40:
			verb = VWhere
		case k < 65:
			verb = VNot
		default:
			verb = VOr
		}
		u := genUnit(x, cfg, level)
		if len(calls) > 0 && x.pct(12) {
			// the same unit (same rendering) once more in the chain
			u = calls[x.n(len(calls))].U
			if u.Feats != nil {
				u.Feats["chain:unit-repeated"] = true
			}
		}
		if verb == VNot && !u.NotOK() {
			if cfg.OnExcluded != nil {
				cfg.OnExcluded("domain:not-of-and-without-comparison")
			}
			verb = VWhere
		}
		if verb == VOr && !seenEffective && !leadingOr {
			verb = VWhere
		}
		if c := findingClass(verb, u); c != "" && cfg.skip(c) {
			i--
			continue
		}
		if !u.Empty() {
			seenEffective = true
		}
		call := Call{Verb: verb, U: u}
		if level == 0 && !cfg.NoNeutral {
			if x.pct(10) {
				call.Pre = []string{"Session{}", "WithContext"}[x.n(2)]
			}
			if verb == VWhere && u.Form == FClause && x.pct(20) {
				call.ViaClauses = true
			}
		}
		calls = append(calls, call)
	}
	return calls
}

// genNumericString: a string that parses as an integer is a primary key value in
// every role (Where("7"), Not("-1"), inline): also with a sign.
func genNumericString(x g, cfg Cfg) *Unit {
	id := 1 + x.n(cfg.MaxID+1)
	str := fmt.Sprint(id)
	switch x.n(4) {
	case 0:
		id = -id
		str = fmt.Sprint(id)
	case 1:
		str = "+" + str
	}
	u := &Unit{Form: FPKScalar, Tree: Atom("id", OpEq, IntV(id)), Query: str, Desc: fmt.Sprintf("%q", str), Feats: featsOf("pk:numeric-string")}
	if str[0] == '-' || str[0] == '+' {
		u.Feats["pk:signed-numeric-string"] = true
	}
	return u
}

// GenInline draws an inline finisher condition (any unit form, plus a bare
// primary key value).
func GenInline(rt *rapid.T, cfg Cfg) *Unit {
	x := newG(rt)
	for {
		if !cfg.NoPK && x.pct(12) {
			id := 1 + x.n(cfg.MaxID+1)
			if x.pct(40) {
				return genNumericString(x, cfg)
			}
			return &Unit{Form: FPKScalar, Tree: Atom("id", OpEq, IntV(id)), Query: id, Desc: fmt.Sprint(id), Feats: featsOf()}
		}
		u := genUnit(x, cfg, 0)
		if c := findingClass(VWhere, u); c != "" && cfg.skip(c) {
			continue
		}
		return u
	}
}

// findingClass names the known-finding class a call falls in ("" = none).
// Classes are defined structurally on the generated input, never on outcomes.
func findingClass(verb Verb, u *Unit) string {
	for _, f := range FindingClassifiers {
		if c := f(verb, u); c != "" {
			return c
		}
	}
	return ""
}

// FindingClassifiers recognise the input classes of listed open findings.
var FindingClassifiers []func(verb Verb, u *Unit) string
