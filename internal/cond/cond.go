// Package cond is the machinery shared by the condition properties C02, C08 and
// C09: a small condition-tree type over the columns
//
//	id int, ca int, cb int, cs text, cn int NULL, ct text NULL, cor int, band text
//
// a Kleene three-valued evaluator of such trees over in-memory rows, the
// renderings of a tree into every form gorm accepts as a condition ("unit"),
// chains of Where/Not/Or calls over units and the reference meaning of a chain.
package cond

import (
	"fmt"
	"sort"
	"strconv"
	"strings"
)

// ---- values and rows -------------------------------------------------------------------------

// Val is a non-NULL scalar of one of the two column types.
type Val struct {
	Str  bool
	I    int
	S    string
	Null bool // only as an element of an IN list: SQL NULL
}

func IntV(i int) Val    { return Val{I: i} }
func StrV(s string) Val { return Val{Str: true, S: s} }

// Go returns the value as the Go value handed to gorm.
func (v Val) Go() interface{} {
	if v.Null {
		return nil
	}
	if v.Str {
		return v.S
	}
	return v.I
}

// Lit is the SQL literal of the value (strings never contain quotes).
func (v Val) Lit() string {
	if v.Null {
		return "NULL"
	}
	if v.Str {
		return "'" + v.S + "'"
	}
	return strconv.Itoa(v.I)
}

func (v Val) String() string {
	if v.Null {
		return "NULL"
	}
	if v.Str {
		return strconv.Quote(v.S)
	}
	return strconv.Itoa(v.I)
}

func cmp(a, b Val) int {
	if a.Str {
		return strings.Compare(a.S, b.S)
	}
	switch {
	case a.I < b.I:
		return -1
	case a.I > b.I:
		return 1
	}
	return 0
}

// Row is one in-memory table row. Cn/Ct nil = SQL NULL.
type Row struct {
	ID     int
	Ca, Cb int
	Cs     string
	Cn     *int
	Ct     *string
	// Cor / Band: an integer and a text column whose NAMES contain the letters of
	// the keywords OR / AND (the builder scans raw conditions for those keywords)
	Cor  int
	Band string
	// Del: the row is soft-deleted (pseudo column SoftCol: NULL for live rows)
	Del bool
	FK  int // foreign key of a related table's row (pseudo column "fk"), 0 = none
}

// Col returns the value of the named column and whether it is NULL.
func (r Row) Col(name string) (Val, bool) {
	switch name {
	case "id":
		return IntV(r.ID), false
	case "fk":
		return IntV(r.FK), false
	case SoftCol:
		return StrV("deleted"), !r.Del
	case "ca":
		return IntV(r.Ca), false
	case "cb":
		return IntV(r.Cb), false
	case "cs":
		return StrV(r.Cs), false
	case "cor":
		return IntV(r.Cor), false
	case "band":
		return StrV(r.Band), false
	case "cn":
		if r.Cn == nil {
			return Val{}, true
		}
		return IntV(*r.Cn), false
	case "ct":
		if r.Ct == nil {
			return Val{Str: true}, true
		}
		return StrV(*r.Ct), false
	}
	panic("cond: unknown column " + name)
}

func (r Row) String() string {
	cn, ct := "NULL", "NULL"
	if r.Cn != nil {
		cn = strconv.Itoa(*r.Cn)
	}
	if r.Ct != nil {
		ct = strconv.Quote(*r.Ct)
	}
	return fmt.Sprintf("{id:%d ca:%d cb:%d cs:%q cn:%s ct:%s cor:%d band:%q}", r.ID, r.Ca, r.Cb, r.Cs, cn, ct, r.Cor, r.Band)
}

// SoftCol is the name the soft-delete column has in condition trees, whatever its
// real name (Cfg.SoftCol); only IS [NOT] NULL is generated on it.
const SoftCol = "<deleted_at>"

// Mentions reports whether an atom on the column occurs in the tree.
func (n *Node) Mentions(col string) bool {
	if n == nil {
		return false
	}
	if n.Kind == KAtom {
		return n.Col == col
	}
	for _, k := range n.Kids {
		if k.Mentions(col) {
			return true
		}
	}
	return false
}

// IsText reports whether the column holds text.
func IsText(col string) bool { return col == "cs" || col == "ct" || col == "band" }

// Nullable reports whether the column may hold NULL.
func Nullable(col string) bool { return col == "cn" || col == "ct" }

// DataCols are the columns conditions are generated over (id is used by the
// primary-key forms only).
var DataCols = []string{"ca", "cb", "cs", "cn", "ct", "cor", "band"}

// ---- three-valued logic ----------------------------------------------------------------------

// TV is a Kleene truth value.
type TV int8

const (
	F TV = 0
	U TV = 1
	T TV = 2
)

func tv(b bool) TV {
	if b {
		return T
	}
	return F
}

// ---- trees -----------------------------------------------------------------------------------

type Kind int8

const (
	KAtom Kind = iota
	KAnd
	KOr
	KNot
)

// Op is an atom's operator.
type Op string

const (
	OpEq      Op = "="
	OpNe      Op = "<>"
	OpLt      Op = "<"
	OpGt      Op = ">"
	OpGe      Op = ">="
	OpLe      Op = "<="
	OpIn      Op = "IN"
	OpLike    Op = "LIKE"
	OpIsNull  Op = "IS NULL"
	OpNotNull Op = "IS NOT NULL"
)

// Node is a condition tree. And/Or have >= 2 kids, Not exactly one.
type Node struct {
	Kind Kind
	Kids []*Node
	Col  string
	Op   Op
	V    Val   // =, <>, <, >, LIKE
	Vs   []Val // IN (an empty list evaluates to UNKNOWN: gorm renders it as IN (NULL))
}

func Atom(col string, op Op, v Val) *Node { return &Node{Kind: KAtom, Col: col, Op: op, V: v} }
func In(col string, vs ...Val) *Node      { return &Node{Kind: KAtom, Col: col, Op: OpIn, Vs: vs} }
func IsNull(col string) *Node             { return &Node{Kind: KAtom, Col: col, Op: OpIsNull} }
func NotNull(col string) *Node            { return &Node{Kind: KAtom, Col: col, Op: OpNotNull} }
func Not(n *Node) *Node                   { return &Node{Kind: KNot, Kids: []*Node{n}} }

// And / Or build the connective; nil operands (= no condition) are dropped, a
// single operand is returned as is and no operand gives nil.
func And(ns ...*Node) *Node { return nary(KAnd, ns) }
func Or(ns ...*Node) *Node  { return nary(KOr, ns) }

func nary(k Kind, ns []*Node) *Node {
	var kids []*Node
	for _, n := range ns {
		if n != nil {
			kids = append(kids, n)
		}
	}
	switch len(kids) {
	case 0:
		return nil
	case 1:
		return kids[0]
	}
	return &Node{Kind: k, Kids: kids}
}

// Eval evaluates the tree on a row; a nil tree is TRUE (no condition).
func (n *Node) Eval(r Row) TV {
	if n == nil {
		return T
	}
	switch n.Kind {
	case KAnd:
		res := T
		for _, k := range n.Kids {
			if v := k.Eval(r); v < res {
				res = v
			}
		}
		return res
	case KOr:
		res := F
		for _, k := range n.Kids {
			if v := k.Eval(r); v > res {
				res = v
			}
		}
		return res
	case KNot:
		return T - n.Kids[0].Eval(r)
	}
	v, null := r.Col(n.Col)
	switch n.Op {
	case OpIsNull:
		return tv(null)
	case OpNotNull:
		return tv(!null)
	}
	if null {
		return U
	}
	switch n.Op {
	case OpEq:
		return tv(cmp(v, n.V) == 0)
	case OpNe:
		return tv(cmp(v, n.V) != 0)
	case OpLt:
		return tv(cmp(v, n.V) < 0)
	case OpGt:
		return tv(cmp(v, n.V) > 0)
	case OpGe:
		return tv(cmp(v, n.V) >= 0)
	case OpLe:
		return tv(cmp(v, n.V) <= 0)
	case OpIn:
		if len(n.Vs) == 0 {
			return U
		}
		res := F
		for _, x := range n.Vs {
			if x.Null {
				res = U // x IN (..., NULL) is never FALSE
				continue
			}
			if cmp(v, x) == 0 {
				return T
			}
		}
		return res
	case OpLike:
		return tv(Like(v.S, n.V.S))
	}
	panic("cond: unknown operator " + string(n.Op))
}

// Like matches s against an SQL LIKE pattern (% and _, no escape). The
// generated alphabet is lower-case ASCII, so SQLite's case folding is moot.
func Like(s, pat string) bool { return likeRunes([]rune(s), []rune(pat)) }

// (SQLite's % and _ work on characters, not bytes; only ASCII letters fold case)
func likeRunes(s, pat []rune) bool {
	if len(pat) == 0 {
		return len(s) == 0
	}
	switch pat[0] {
	case '%':
		for i := 0; i <= len(s); i++ {
			if likeRunes(s[i:], pat[1:]) {
				return true
			}
		}
		return false
	case '_':
		return len(s) != 0 && likeRunes(s[1:], pat[1:])
	}
	return len(s) != 0 && s[0] == pat[0] && likeRunes(s[1:], pat[1:])
}

// String is a canonical fully parenthesised rendering (used in descriptors).
func (n *Node) String() string {
	if n == nil {
		return "TRUE"
	}
	switch n.Kind {
	case KAnd, KOr:
		parts := make([]string, len(n.Kids))
		for i, k := range n.Kids {
			parts[i] = k.String()
		}
		sep := " AND "
		if n.Kind == KOr {
			sep = " OR "
		}
		return "(" + strings.Join(parts, sep) + ")"
	case KNot:
		return "NOT " + n.Kids[0].String()
	}
	switch n.Op {
	case OpIsNull, OpNotNull:
		return n.Col + " " + string(n.Op)
	case OpIn:
		parts := make([]string, len(n.Vs))
		for i, v := range n.Vs {
			parts[i] = v.String()
		}
		return n.Col + " IN (" + strings.Join(parts, ",") + ")"
	}
	return n.Col + " " + string(n.Op) + " " + n.V.String()
}

// HasConnective reports whether the tree contains an AND or OR node.
func (n *Node) HasConnective() bool {
	if n == nil {
		return false
	}
	if n.Kind == KAnd || n.Kind == KOr {
		return true
	}
	for _, k := range n.Kids {
		if k.HasConnective() {
			return true
		}
	}
	return false
}

// HasKind reports whether a node of the kind occurs in the tree.
func (n *Node) HasKind(k Kind) bool {
	if n == nil {
		return false
	}
	if n.Kind == k {
		return true
	}
	for _, c := range n.Kids {
		if c.HasKind(k) {
			return true
		}
	}
	return false
}

// Select returns the sorted ids of the rows on which the predicate is TRUE.
func Select(rows []Row, pred *Node) []int {
	ids := []int{}
	for _, r := range rows {
		if pred.Eval(r) == T {
			ids = append(ids, r.ID)
		}
	}
	sort.Ints(ids)
	return ids
}

// SameIDs compares two id lists as sets given as sorted slices.
func SameIDs(a, b []int) bool {
	if len(a) != len(b) {
		return false
	}
	for i := range a {
		if a[i] != b[i] {
			return false
		}
	}
	return true
}
