package cond

import (
	"context"
	"reflect"
	"sort"
	"strings"

	"gorm.io/gorm"
	"gorm.io/gorm/clause"
)

// Form is the gorm form a unit is handed over in.
type Form int

const (
	FRawQ       Form = iota // "… ? …", args
	FRawLit                 // "… literal …"
	FNamed                  // "… @name …", map or sql.Named args
	FMap                    // map[string]interface{}
	FStruct                 // model struct value / pointer (non-zero fields)
	FClause                 // clause.Expression tree
	FGroup                  // db.Where(db.Where(A).Or(B)) grouped builder
	FPKSlice                // []int: primary key IN
	FPKScalar               // inline only: Find(&x, 3)
	FColValue               // Where("col", value): column name + one value (scalar, nil, slice, Valuer slice)
	FEmptyStr               // "" (no condition)
	FEmptySlice             // []int{} (no condition)
)

var formNames = map[Form]string{
	FRawQ: "raw-q", FRawLit: "raw-literal", FNamed: "named", FMap: "map", FStruct: "struct", FClause: "clause",
	FGroup: "group", FPKSlice: "pk-slice", FPKScalar: "pk-scalar", FColValue: "col-value", FEmptyStr: "empty-string", FEmptySlice: "empty-slice",
}

func (f Form) String() string { return formNames[f] }

// Verb is the chain method a unit is given to.
type Verb int

const (
	VWhere Verb = iota
	VNot
	VOr
)

func (v Verb) String() string { return [...]string{"Where", "Not", "Or"}[v] }

// Unit is one condition: its logical content and one concrete rendering.
type Unit struct {
	Form Form
	// Tree is the positive meaning for every form except FGroup (nil = the
	// unit adds no condition: empty map, zero struct, "", []int{}).
	Tree *Node
	// Members are the member conditions of a map / struct unit, or the kids
	// of a clause unit whose root was rendered as clause.And: Not(unit) then
	// means "every member false".
	Members []*Node
	// MemberCmps: how many clause.And kids are comparison expressions.
	MemberCmps int

	Query interface{}   // what is passed as the first argument (nil for FStruct/FGroup: built at apply time)
	Args  []interface{} // further arguments
	// FStruct
	Fields map[string]interface{}
	Ptr    bool
	// FGroup
	Group []Call

	Desc  string          // canonical printable rendering of the arguments
	Feats map[string]bool // rendering features
}

// Call is one Where/Not/Or call.
type Call struct {
	Verb Verb
	U    *Unit
	// Pre is a neutral call made on the handle before this one ("" = none):
	// "Session{}" or "WithContext" (both clone the statement).
	Pre string
	// ViaClauses hands a clause.Expression unit over with db.Clauses(expr)
	// instead of db.Where(expr) (verb Where only).
	ViaClauses bool
}

// Env is what rendering needs from the property: the handle grouped builders
// start from and the model struct factory.
type Env struct {
	Base       *gorm.DB
	MakeStruct func(fields map[string]interface{}, ptr bool) interface{}
}

// StructMaker returns a MakeStruct for the model type t (a struct whose fields
// ID, Ca, Cb, Cs, Cn, Ct, Cor, Band carry the columns of the same lower-case names).
func StructMaker(t reflect.Type) func(map[string]interface{}, bool) interface{} {
	names := map[string]string{"id": "ID", "ca": "Ca", "cb": "Cb", "cs": "Cs", "cn": "Cn", "ct": "Ct", "cor": "Cor", "band": "Band"}
	return func(fields map[string]interface{}, ptr bool) interface{} {
		p := reflect.New(t)
		for col, v := range fields {
			p.Elem().FieldByName(names[col]).Set(reflect.ValueOf(v))
		}
		if ptr {
			return p.Interface()
		}
		return p.Elem().Interface()
	}
}

// Empty reports whether the unit adds no condition at all.
func (u *Unit) Empty() bool {
	if u.Form == FGroup {
		for _, c := range u.Group {
			if !c.U.Empty() {
				return false
			}
		}
		return true
	}
	return u.Tree == nil
}

// Pred is the meaning of the unit used positively (Where / Or / inline).
func (u *Unit) Pred() *Node {
	if u.Form == FGroup {
		return ChainPred(u.Group)
	}
	return u.Tree
}

// memberWise reports whether Not(unit) is read member by member.
func (u *Unit) memberWise() bool { return len(u.Members) >= 2 }

// NotPred is the meaning of Not(unit): NOT of the whole for raw, single and OR
// units, "every member false" for multi-member map / struct / And units.
func (u *Unit) NotPred() *Node {
	switch {
	case u.Empty():
		return nil
	case u.Form == FGroup:
		eff := effective(u.Group)
		if len(eff) == 1 && eff[0].Verb == VWhere {
			return eff[0].U.NotPred()
		}
		return Not(ChainPred(u.Group))
	case u.memberWise():
		ns := make([]*Node, len(u.Members))
		for i, m := range u.Members {
			ns[i] = Not(m)
		}
		return And(ns...)
	}
	return Not(u.Tree)
}

// NotOK reports whether Not(unit) is inside the property's domain: excluded
// are AND-combinations without a comparison member (Not(And(raw, raw)) renders
// NOT (x AND y) while the member-wise reading is documented for maps/structs,
// DESIGN 2.9) and grouped builders mixing AND-ed and OR-ed members.
func (u *Unit) NotOK() bool {
	switch u.Form {
	case FClause:
		return !u.memberWise() || u.MemberCmps >= 1
	case FGroup:
		eff := effective(u.Group)
		switch len(eff) {
		case 0:
			return true
		case 1:
			return eff[0].Verb != VWhere || eff[0].U.NotOK()
		}
		for _, c := range eff[1:] {
			if c.Verb != VOr {
				return false
			}
		}
		return true
	}
	return true
}

func effective(calls []Call) []Call {
	var out []Call
	for _, c := range calls {
		if !c.U.Empty() {
			out = append(out, c)
		}
	}
	return out
}

// ChainPred is the reference meaning of a sequence of Where/Not/Or calls plus
// conditions AND-ed at the end (inline condition, primary key): the OR over the
// maximal runs split at Or calls of the AND of the units of each run. Calls
// whose unit adds no condition do not exist. nil = no condition (TRUE).
func ChainPred(calls []Call, tail ...*Node) *Node {
	var runs [][]*Node
	var cur []*Node
	for _, c := range effective(calls) {
		if c.Verb == VOr {
			runs = append(runs, cur)
			cur = nil
		}
		if c.Verb == VNot {
			cur = append(cur, c.U.NotPred())
		} else {
			cur = append(cur, c.U.Pred())
		}
	}
	for _, t := range tail {
		if t != nil {
			cur = append(cur, t)
		}
	}
	runs = append(runs, cur)
	var ors []*Node
	for _, r := range runs {
		if len(r) > 0 {
			ors = append(ors, And(r...))
		}
	}
	return Or(ors...)
}

// QueryArgs returns the arguments for Where/Not/Or/inline.
func (u *Unit) QueryArgs(env Env) (interface{}, []interface{}) {
	switch u.Form {
	case FStruct:
		return env.MakeStruct(u.Fields, u.Ptr), u.Args // Args: selected column names
	case FGroup:
		return ApplyCalls(env.Base, env, u.Group), nil
	}
	return u.Query, u.Args
}

// Inline returns the unit as the variadic tail of a finisher.
func (u *Unit) Inline(env Env) []interface{} {
	q, a := u.QueryArgs(env)
	return append([]interface{}{q}, a...)
}

// ApplyCalls applies the calls to db.
func ApplyCalls(db *gorm.DB, env Env, calls []Call) *gorm.DB {
	for _, c := range calls {
		switch c.Pre {
		case "Session{}":
			db = db.Session(&gorm.Session{})
		case "WithContext":
			db = db.WithContext(context.Background())
		}
		q, a := c.U.QueryArgs(env)
		if c.ViaClauses {
			if e, ok := q.(clause.Expression); ok && c.Verb == VWhere {
				db = db.Clauses(e)
				continue
			}
		}
		switch c.Verb {
		case VWhere:
			db = db.Where(q, a...)
		case VNot:
			db = db.Not(q, a...)
		case VOr:
			db = db.Or(q, a...)
		}
	}
	return db
}

func (u *Unit) String() string {
	if u.Form == FGroup {
		return "db" + CallsString(u.Group)
	}
	return u.Desc
}

// CallsString prints ".Where(…).Or(…)".
func CallsString(calls []Call) string {
	var b strings.Builder
	for _, c := range calls {
		if c.Pre != "" {
			b.WriteString("." + c.Pre)
		}
		name := c.Verb.String()
		if c.ViaClauses {
			name = "Clauses"
		}
		b.WriteString("." + name + "(" + c.U.String() + ")")
	}
	return b.String()
}

// Walk visits the unit and, for grouped builders, every inner call.
func (u *Unit) Walk(verb Verb, depth int, f func(verb Verb, u *Unit, depth int)) {
	f(verb, u, depth)
	for _, c := range u.Group {
		c.U.Walk(c.Verb, depth+1, f)
	}
}

// Classes returns the class labels of a call list (forms, verbs, features).
func Classes(calls []Call, inline *Unit) []string {
	seen := map[string]bool{}
	visit := func(verb Verb, u *Unit, depth int) {
		seen["form:"+u.Form.String()] = true
		seen["verb:"+verb.String()] = true
		seen["verb-form:"+verb.String()+"/"+u.Form.String()] = true
		if depth > 0 {
			seen["group:inner-"+verb.String()] = true
		}
		if u.Empty() {
			seen["unit:no-condition"] = true
		}
		if u.memberWise() {
			seen["unit:multi-member"] = true
			if verb == VNot {
				seen["not:member-wise"] = true
			}
		}
		if u.Form != FGroup && u.Tree != nil {
			if u.Tree.HasKind(KOr) {
				seen["tree:or"] = true
			}
			if u.Tree.HasKind(KAnd) {
				seen["tree:and"] = true
			}
			if u.Tree.HasKind(KNot) {
				seen["tree:not"] = true
			}
		}
		for f := range u.Feats {
			seen[f] = true
		}
	}
	for _, c := range calls {
		c.U.Walk(c.Verb, 0, visit)
		if c.Pre != "" {
			seen["chain:"+c.Pre+"-between-calls"] = true
		}
		if c.ViaClauses {
			seen["verb:Clauses(expr)"] = true
		}
	}
	if inline != nil {
		seen["inline:"+inline.Form.String()] = true
		inline.Walk(VWhere, 0, visit)
	}
	out := make([]string, 0, len(seen))
	for k := range seen {
		out = append(out, k)
	}
	sort.Strings(out)
	return out
}
