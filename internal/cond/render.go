package cond

import (
	"database/sql"
	"database/sql/driver"
	"fmt"
	"reflect"
	"sort"
	"strconv"
	"strings"

	"gorm.io/gorm/clause"
	"pgregory.net/rapid"
)

// g wraps the rapid source with the few draw shapes the renderers need.
// rapid's integer generators are deliberately biased towards small values
// (IntRange(0,99) < 10 holds about 40 % of the time), which starves the rarer
// shapes; every choice is therefore a fixed mixing function of a rapid draw and
// its position, i.e. still fully determined by the rapid seed / fail file.
type g struct {
	rt  *rapid.T
	ctr *uint64
}

func newG(rt *rapid.T) g {
	salt := rapid.Uint64().Draw(rt, "salt")
	return g{rt: rt, ctr: &salt}
}

func (x g) n(k int) int {
	v := rapid.Uint64().Draw(x.rt, "u")
	*x.ctr++
	z := v + *x.ctr*0x9E3779B97F4A7C15
	z = (z ^ (z >> 30)) * 0xBF58476D1CE4E5B9
	z = (z ^ (z >> 27)) * 0x94D049BB133111EB
	z ^= z >> 31
	return int(z % uint64(k))
}
func (x g) pct(p int) bool         { return x.n(100) < p }
func (x g) pick(s []string) string { return s[x.n(len(s))] }

// N, Pct: the draw helpers for property packages.
func (x g) N(k int) int    { return x.n(k) }
func (x g) Pct(p int) bool { return x.pct(p) }

// StrList / IntSum are slice types that implement driver.Valuer: as a condition
// value they are ONE value (their Value()), not a list - BuildCondition routes
// them to clause.Eq on purpose.
type StrList []string

func (l StrList) Value() (driver.Value, error) { return strings.Join(l, ""), nil }

type IntSum []int

func (l IntSum) Value() (driver.Value, error) {
	n := 0
	for _, v := range l {
		n += v
	}
	return int64(n), nil
}

// valuerFor wraps the scalar into the Valuer slice whose Value() is the scalar.
func valuerFor(v Val) interface{} {
	if v.Str {
		l := StrList{}
		for i := 0; i < len(v.S); i++ {
			l = append(l, v.S[i:i+1])
		}
		return l
	}
	if v.I > 0 {
		return IntSum{v.I - 1, 1}
	}
	return IntSum{0, 0}
}

// ---- raw SQL strings ---------------------------------------------------------------------------

// RawMode selects how values appear in a raw condition string.
type RawMode int

const (
	ModeQ     RawMode = iota // `?` placeholders + positional args
	ModeLit                  // values written as SQL literals, no args
	ModeNamed                // `@name` placeholders + named args
)

type rawR struct {
	g
	mode  RawMode
	wild  bool   // random keyword case, whitespace, redundant parentheses, adjacency
	qual  string // "tbl." or ""
	args  []interface{}
	named []sql.NamedArg
	feats map[string]bool
	// ModeNamed: name style
	longNames, structArgs bool
}

var (
	wsPlain = []string{" ", " ", " ", "  ", "\t", "\n", " \n", "\t ", "\n\t", "   "}
	// after an @name only the characters NamedExpr treats as terminators may
	// follow (DESIGN 2.9): every choice starts with a space or a new line
	wsNamed = []string{" ", " ", " ", "  ", "\n", " \n", " \t", "\n\t", "   "}
)

func (r *rawR) feat(f string) {
	if r.feats != nil {
		r.feats[f] = true
	}
}

func (r *rawR) ws() string {
	if !r.wild {
		return " "
	}
	set := wsPlain
	if r.mode == ModeNamed {
		set = wsNamed
	}
	s := r.pick(set)
	if strings.Contains(s, "\n") {
		r.feat("raw:newline")
	}
	if strings.Contains(s, "\t") {
		r.feat("raw:tab")
	}
	return s
}

func (r *rawR) kw(s string) string {
	if !r.wild {
		return s
	}
	switch r.n(4) {
	case 0:
		return s
	case 1:
		r.feat("raw:kw-lower")
		return strings.ToLower(s)
	case 2:
		r.feat("raw:kw-mixed")
		return s[:1] + strings.ToLower(s[1:])
	}
	r.feat("raw:kw-mixed")
	return strings.ToLower(s[:1]) + s[1:]
}

func (r *rawR) adj() bool {
	if r.wild && r.pct(40) {
		r.feat("raw:adjacent-paren")
		return true
	}
	return false
}

func (r *rawR) ph(v interface{}, eq func(interface{}) bool) string {
	switch r.mode {
	case ModeQ:
		r.args = append(r.args, v)
		return "?"
	case ModeNamed:
		// reuse an earlier name carrying an equal value now and then
		if eq != nil {
			for _, na := range r.named {
				if eq(na.Value) && r.pct(40) {
					r.feat("raw:name-reused")
					return "@" + na.Name
				}
			}
		}
		name := "v" + strconv.Itoa(len(r.named)+1)
		if r.longNames {
			// longer than the 10 byte buffer NamedExpr starts a name with
			name = "Value_number_" + strconv.Itoa(len(r.named)+1)
		} else if r.structArgs {
			name = "V" + strconv.Itoa(len(r.named)+1) // an exported field name
		}
		r.named = append(r.named, sql.Named(name, v))
		return "@" + name
	}
	panic("ph in literal mode")
}

func (r *rawR) scalar(v Val) string {
	if r.mode == ModeLit {
		return v.Lit()
	}
	var gv interface{} = v.Go()
	switch k := r.n(20); {
	case !v.Str && k < 5:
		gv = int64(v.I)
	case k == 5: // pointer to the value
		if v.Str {
			x := v.S
			gv = &x
		} else {
			x := v.I
			gv = &x
		}
		r.feat("value:pointer")
	case k == 6: // valid sql.Null* wrapper (a driver.Valuer)
		if v.Str {
			gv = sql.NullString{String: v.S, Valid: true}
		} else {
			gv = sql.NullInt64{Int64: int64(v.I), Valid: true}
		}
		r.feat("value:sql-null-valuer")
	}
	return r.ph(gv, func(o interface{}) bool {
		switch x := o.(type) {
		case int:
			return !v.Str && x == v.I
		case int64:
			return !v.Str && int(x) == v.I
		case string:
			return v.Str && x == v.S
		}
		return false // wrapped values get a name of their own
	})
}

// goSlice renders an IN list as one of the slice types gorm expands.
func goSlice(x g, vs []Val, text bool) interface{} {
	hasNull := false
	for _, v := range vs {
		hasNull = hasNull || v.Null
	}
	if hasNull {
		// NULL elements: untyped nil, typed nil pointers, invalid sql.Null*
		switch x.n(3) {
		case 0:
			out := make([]interface{}, len(vs))
			for i, v := range vs {
				out[i] = v.Go()
			}
			return out
		case 1:
			if text {
				out := make([]*string, len(vs))
				for i, v := range vs {
					if !v.Null {
						s := v.S
						out[i] = &s
					}
				}
				return out
			}
			out := make([]*int, len(vs))
			for i, v := range vs {
				if !v.Null {
					n := v.I
					out[i] = &n
				}
			}
			return out
		}
		if text {
			out := make([]sql.NullString, len(vs))
			for i, v := range vs {
				out[i] = sql.NullString{String: v.S, Valid: !v.Null}
			}
			return out
		}
		out := make([]sql.NullInt64, len(vs))
		for i, v := range vs {
			out[i] = sql.NullInt64{Int64: int64(v.I), Valid: !v.Null}
		}
		return out
	}
	switch x.n(3) {
	case 0:
		out := make([]interface{}, len(vs))
		for i, v := range vs {
			out[i] = v.Go()
		}
		return out
	}
	if text {
		out := make([]string, len(vs))
		for i, v := range vs {
			out[i] = v.S
		}
		return out
	}
	out := make([]int, len(vs))
	for i, v := range vs {
		out[i] = v.I
	}
	return out
}

func (r *rawR) atom(n *Node) string {
	c := r.qual + n.Col
	if n.Col == SoftCol {
		c = r.qual + SoftColName
	}
	switch n.Op {
	case OpIsNull:
		return c + r.ws() + r.kw("IS") + r.ws() + r.kw("NULL")
	case OpNotNull:
		return c + r.ws() + r.kw("IS") + r.ws() + r.kw("NOT") + r.ws() + r.kw("NULL")
	case OpIn:
		s := c + r.ws() + r.kw("IN")
		switch r.mode {
		case ModeLit:
			parts := make([]string, len(n.Vs))
			for i, v := range n.Vs {
				parts[i] = v.Lit()
			}
			if len(parts) == 0 {
				parts = []string{"NULL"}
			}
			sep := ","
			if r.wild && r.pct(50) {
				sep = ", "
			}
			glue := r.ws()
			if r.adj() {
				glue = ""
			}
			return s + glue + "(" + strings.Join(parts, sep) + ")"
		case ModeNamed:
			return s + r.ws() + r.ph(goSlice(r.g, n.Vs, IsText(n.Col)), nil)
		}
		sl := goSlice(r.g, n.Vs, IsText(n.Col))
		switch r.n(3) {
		case 0:
			return s + r.ws() + r.ph(sl, nil)
		case 1:
			return s + r.ws() + "(" + r.ph(sl, nil) + ")"
		}
		if r.wild {
			r.feat("raw:adjacent-paren")
			return s + "(" + r.ph(sl, nil) + ")"
		}
		return s + " (" + r.ph(sl, nil) + ")"
	case OpLike:
		return c + r.ws() + r.kw("LIKE") + r.ws() + r.scalar(n.V)
	}
	op := string(n.Op)
	if n.Op == OpNe && r.wild && r.pct(30) {
		op = "!="
	}
	gl := " "
	if r.wild && r.pct(35) {
		gl = ""
		r.feat("raw:op-tight")
	}
	return c + gl + op + gl + r.scalar(n.V)
}

// expr renders n below a parent of the given kind (KAtom = top level).
func (r *rawR) expr(n *Node, parent Kind) string {
	var s string
	need := false
	switch n.Kind {
	case KAtom:
		s = r.atom(n)
	case KNot:
		inner := r.expr(n.Kids[0], KNot)
		glue := r.ws()
		if strings.HasPrefix(inner, "(") && r.adj() {
			glue = ""
		}
		s = r.kw("NOT") + glue + inner
	case KAnd, KOr:
		word := "AND"
		if n.Kind == KOr {
			word = "OR"
		}
		for i, k := range n.Kids {
			part := r.expr(k, n.Kind)
			if i == 0 {
				s = part
				continue
			}
			lg, rg := r.ws(), r.ws()
			if strings.HasSuffix(s, ")") && r.adj() {
				lg = ""
			}
			if strings.HasPrefix(part, "(") && r.adj() {
				rg = ""
			}
			s += lg + r.kw(word) + rg + part
		}
		need = parent == KNot || (n.Kind == KOr && parent == KAnd)
	}
	if need {
		return "(" + s + ")"
	}
	if r.wild && r.pct(15) {
		r.feat("raw:redundant-paren")
		if r.pct(30) {
			return "(" + r.ws() + s + r.ws() + ")"
		}
		return "(" + s + ")"
	}
	return s
}

// Raw is a rendered raw condition.
type Raw struct {
	SQL   string
	Args  []interface{}   // ModeQ: positional; ModeNamed: one map or a list of sql.NamedArg
	Feats map[string]bool // rendering features, for the class histogram
}

// countValues returns how many value slots the tree has.
func countValues(n *Node) int {
	if n.Kind != KAtom {
		c := 0
		for _, k := range n.Kids {
			c += countValues(k)
		}
		return c
	}
	if n.Op == OpIsNull || n.Op == OpNotNull {
		return 0
	}
	return 1
}

// RenderRaw renders the tree as a raw SQL condition. qual is "" or "table.".
func RenderRaw(rt *rapid.T, n *Node, mode RawMode, wild bool, qual string) Raw {
	if mode == ModeNamed && countValues(n) == 0 {
		mode = ModeQ // a template without values cannot be a named template
	}
	r := &rawR{g: newG(rt), mode: mode, wild: wild, qual: qual, feats: map[string]bool{}}
	if mode == ModeNamed {
		switch r.n(6) {
		case 0:
			r.longNames = true
		case 1:
			r.structArgs = true
		}
	}
	s := r.expr(n, KAtom)
	if wild && r.pct(10) {
		s = r.pick([]string{" ", "\n", "\t"}) + s
		r.feat("raw:lead-space")
	}
	if wild && r.pct(10) && mode != ModeNamed {
		s += r.pick([]string{" ", "\n", "\t"})
		r.feat("raw:trail-space")
	}
	out := Raw{SQL: s, Feats: r.feats}
	switch mode {
	case ModeQ:
		out.Args = r.args
	case ModeNamed:
		if r.structArgs {
			// a struct whose exported fields carry the values: @V1 reads field V1
			fields := make([]reflect.StructField, len(r.named))
			for i, na := range r.named {
				fields[i] = reflect.StructField{Name: na.Name, Type: reflect.TypeOf(na.Value)}
			}
			sv := reflect.New(reflect.StructOf(fields)).Elem()
			for i, na := range r.named {
				sv.Field(i).Set(reflect.ValueOf(na.Value))
			}
			if r.pct(50) {
				out.Args = []interface{}{sv.Interface()}
			} else {
				out.Args = []interface{}{sv.Addr().Interface()}
			}
			r.feat("named:struct")
		} else if r.pct(50) {
			m := map[string]interface{}{}
			for _, na := range r.named {
				m[na.Name] = na.Value
			}
			out.Args = []interface{}{m}
			r.feat("named:map")
		} else {
			for _, na := range r.named {
				out.Args = append(out.Args, na)
			}
			r.feat("named:args")
		}
	}
	return out
}

// ---- clause.Expression trees -------------------------------------------------------------------

type clauseR struct {
	g
	qual  string // table name or ""
	feats map[string]bool
	// top-level facts used by the meaning of Not(unit)
	topAnd     bool // the root rendered as clause.And(kids...) with >= 2 kids
	topCmpKids int  // how many of those kids are comparison expressions
}

func (r *clauseR) column(col string) (interface{}, string) {
	if col == SoftCol {
		col = SoftColName
	}
	switch r.n(3) {
	case 0:
		if r.qual != "" {
			return r.qual + "." + col, strconv.Quote(r.qual + "." + col)
		}
		return col, strconv.Quote(col)
	case 1:
		if r.qual != "" {
			return clause.Column{Table: r.qual, Name: col}, "Column{" + r.qual + "." + col + "}"
		}
		return clause.Column{Name: col}, "Column{" + col + "}"
	}
	return clause.Column{Table: clause.CurrentTable, Name: col}, "Column{~." + col + "}"
}

func isCmp(e clause.Expression) bool {
	_, ok := e.(clause.NegationExpressionBuilder)
	return ok
}

func (r *clauseR) leaf(n *Node) (clause.Expression, string) {
	q := ""
	if r.qual != "" {
		q = r.qual + "."
	}
	mode := ModeQ
	if r.pct(30) {
		mode = ModeLit // the values are written into the Expr's SQL text
		r.feats["clause:expr-leaf-literal"] = true
	}
	raw := RenderRaw(r.rt, n, mode, r.pct(50), q)
	for f := range raw.Feats {
		r.feats[f] = true
	}
	r.feats["clause:expr-leaf"] = true
	return clause.Expr{SQL: raw.SQL, Vars: raw.Args}, "Expr{" + strconv.Quote(raw.SQL) + argString(raw.Args) + "}"
}

func (r *clauseR) expr(n *Node, top bool) (clause.Expression, string) {
	switch n.Kind {
	case KAtom:
		if r.pct(12) {
			return r.leaf(n)
		}
		c, cd := r.column(n.Col)
		if (n.Op == OpEq || n.Op == OpNe) && r.pct(15) {
			r.feats["value:valuer-slice"] = true
			v := valuerFor(n.V)
			if n.Op == OpEq {
				return clause.Eq{Column: c, Value: v}, "Eq{" + cd + "," + goString(v) + "}"
			}
			return clause.Neq{Column: c, Value: v}, "Neq{" + cd + "," + goString(v) + "}"
		}
		switch n.Op {
		case OpEq:
			return clause.Eq{Column: c, Value: n.V.Go()}, "Eq{" + cd + "," + n.V.String() + "}"
		case OpNe:
			return clause.Neq{Column: c, Value: n.V.Go()}, "Neq{" + cd + "," + n.V.String() + "}"
		case OpLt:
			return clause.Lt{Column: c, Value: n.V.Go()}, "Lt{" + cd + "," + n.V.String() + "}"
		case OpGt:
			return clause.Gt{Column: c, Value: n.V.Go()}, "Gt{" + cd + "," + n.V.String() + "}"
		case OpGe:
			return clause.Gte{Column: c, Value: n.V.Go()}, "Gte{" + cd + "," + n.V.String() + "}"
		case OpLe:
			return clause.Lte{Column: c, Value: n.V.Go()}, "Lte{" + cd + "," + n.V.String() + "}"
		case OpLike:
			return clause.Like{Column: c, Value: n.V.Go()}, "Like{" + cd + "," + n.V.String() + "}"
		case OpIsNull:
			return clause.Eq{Column: c, Value: nil}, "Eq{" + cd + ",nil}"
		case OpNotNull:
			return clause.Neq{Column: c, Value: nil}, "Neq{" + cd + ",nil}"
		case OpIn:
			if r.pct(50) {
				vals := make([]interface{}, len(n.Vs))
				for i, v := range n.Vs {
					vals[i] = v.Go()
				}
				return clause.IN{Column: c, Values: vals}, "IN{" + cd + "," + fmt.Sprint(vals) + "}"
			}
			sl := goSlice(r.g, n.Vs, IsText(n.Col))
			switch sl.(type) {
			case []int, []string, []interface{}:
			default: // clause.Eq expands only its listed slice types
				vals := make([]interface{}, len(n.Vs))
				for i, v := range n.Vs {
					vals[i] = v.Go()
				}
				sl = vals
			}
			r.feats["clause:eq-slice"] = true
			return clause.Eq{Column: c, Value: sl}, fmt.Sprintf("Eq{%s,%s}", cd, goString(sl))
		}
	case KNot:
		k := n.Kids[0]
		// clause.Not flattens a clause.And operand into member-wise negation,
		// which the statement defines for the Not *call* only: a NOT over an
		// AND inside a tree is written as a raw leaf instead (domain note)
		if k.Kind == KAnd || r.pct(10) {
			return r.leaf(n)
		}
		e, d := r.expr(k, false)
		r.feats["clause:not"] = true
		return clause.Not(e), "Not(" + d + ")"
	case KAnd, KOr:
		if r.pct(10) {
			return r.leaf(n)
		}
		es := make([]clause.Expression, len(n.Kids))
		ds := make([]string, len(n.Kids))
		cmps := 0
		for i, k := range n.Kids {
			es[i], ds[i] = r.expr(k, false)
			if isCmp(es[i]) {
				cmps++
			}
		}
		if n.Kind == KAnd {
			if top {
				r.topAnd, r.topCmpKids = true, cmps
			}
			r.feats["clause:and"] = true
			return clause.And(es...), "And(" + strings.Join(ds, ", ") + ")"
		}
		r.feats["clause:or"] = true
		return clause.Or(es...), "Or(" + strings.Join(ds, ", ") + ")"
	}
	panic("cond: bad node")
}

// ---- argument printing -------------------------------------------------------------------------

func argString(args []interface{}) string {
	var b strings.Builder
	for _, a := range args {
		b.WriteString(", ")
		b.WriteString(goString(a))
	}
	return b.String()
}

// goString prints a condition argument canonically (maps with sorted keys).
func goString(a interface{}) string {
	switch v := a.(type) {
	case nil:
		return "nil"
	case string:
		return strconv.Quote(v)
	case int:
		return strconv.Itoa(v)
	case int64:
		return "int64(" + strconv.FormatInt(v, 10) + ")"
	case *int:
		if v == nil {
			return "(*int)(nil)"
		}
		return "&" + strconv.Itoa(*v)
	case *string:
		if v == nil {
			return "(*string)(nil)"
		}
		return "&" + strconv.Quote(*v)
	case sql.NamedArg:
		return "Named(" + v.Name + "," + goString(v.Value) + ")"
	case map[string]interface{}:
		keys := make([]string, 0, len(v))
		for k := range v {
			keys = append(keys, k)
		}
		sort.Strings(keys)
		parts := make([]string, len(keys))
		for i, k := range keys {
			parts[i] = k + ":" + goString(v[k])
		}
		return "map{" + strings.Join(parts, ", ") + "}"
	case []interface{}:
		parts := make([]string, len(v))
		for i, x := range v {
			parts[i] = goString(x)
		}
		return "[]any{" + strings.Join(parts, ",") + "}"
	case []int:
		return fmt.Sprintf("[]int%v", v)
	case []string:
		return fmt.Sprintf("[]string%q", v)
	case sql.NullInt64:
		return fmt.Sprintf("NullInt64(%d)", v.Int64)
	case sql.NullString:
		return "NullString(" + strconv.Quote(v.String) + ")"
	case map[string]string:
		keys := make([]string, 0, len(v))
		for k := range v {
			keys = append(keys, k)
		}
		sort.Strings(keys)
		parts := make([]string, len(keys))
		for i, k := range keys {
			parts[i] = k + ":" + strconv.Quote(v[k])
		}
		return "map[string]string{" + strings.Join(parts, ", ") + "}"
	case map[interface{}]interface{}:
		parts := make([]string, 0, len(v))
		for k, x := range v {
			parts = append(parts, fmt.Sprint(k)+":"+goString(x))
		}
		sort.Strings(parts)
		return "map[any]any{" + strings.Join(parts, ", ") + "}"
	case []*int:
		parts := make([]string, len(v))
		for i, x := range v {
			parts[i] = goString(x)
		}
		return "[]*int{" + strings.Join(parts, ",") + "}"
	case []*string:
		parts := make([]string, len(v))
		for i, x := range v {
			parts[i] = goString(x)
		}
		return "[]*string{" + strings.Join(parts, ",") + "}"
	case []sql.NullInt64:
		parts := make([]string, len(v))
		for i, x := range v {
			parts[i] = fmt.Sprintf("{%d %v}", x.Int64, x.Valid)
		}
		return "[]sql.NullInt64{" + strings.Join(parts, ",") + "}"
	case []sql.NullString:
		parts := make([]string, len(v))
		for i, x := range v {
			parts[i] = fmt.Sprintf("{%q %v}", x.String, x.Valid)
		}
		return "[]sql.NullString{" + strings.Join(parts, ",") + "}"
	case StrList:
		return fmt.Sprintf("StrList%q", []string(v))
	case IntSum:
		return fmt.Sprintf("IntSum%v", []int(v))
	}
	// anonymous argument structs of @name templates (and pointers to them):
	// print the fields, never an address
	rv := reflect.ValueOf(a)
	prefix := ""
	for rv.Kind() == reflect.Ptr && !rv.IsNil() {
		rv, prefix = rv.Elem(), prefix+"&"
	}
	if rv.Kind() == reflect.Slice || rv.Kind() == reflect.Array {
		parts := make([]string, rv.Len())
		for i := range parts {
			parts[i] = goString(rv.Index(i).Interface())
		}
		return prefix + rv.Type().String() + "{" + strings.Join(parts, ",") + "}"
	}
	if rv.Kind() == reflect.Struct && rv.Type().Name() == "" {
		parts := make([]string, rv.NumField())
		for i := range parts {
			parts[i] = rv.Type().Field(i).Name + ":" + goString(rv.Field(i).Interface())
		}
		return prefix + "struct{" + strings.Join(parts, ", ") + "}"
	}
	return fmt.Sprintf("%T(%v)", a, a)
}
