package cond

import (
	"strings"

	"gorm.io/gorm/clause"
)

// Input classes of genuine gorm defects found by the condition checks. A
// class is a structural predicate over one Where/Not/Or call; generators skip
// a class only while known-findings.txt lists it as open for the property.
const (
	// Not("a = @x OR b = @y", args): NotConditions.Build parenthesises a raw
	// clause.Expr containing AND/OR but not a clause.NamedExpr, so the NOT
	// applies to the first member only.
	ClassNamedUnderNot = "named-under-not"
	// Or("a = @x OR b = @y", args) next to an AND-ed condition: buildExprs
	// parenthesises an Expr inside a single Or condition but not a NamedExpr.
	ClassNamedOrUnderOr = "named-or-under-or"

	// Not(db.Where(map{"cb": 1}).Or("ca = ? AND ct = ?", 1, "a")): when the
	// first member of the negated grouped builder is a comparison, every member
	// is negated on its own and a raw Or member with AND/OR is written as
	// `NOT ca = 1 AND ct = 'a'` without parentheses.
	ClassNotGroupCmpOrRaw = "not-group-cmp-or-raw"
)

func init() {
	FindingClassifiers = append(FindingClassifiers, namedClass, notGroupClass)
}

// single returns the unit a grouped builder with exactly one effective Where
// call stands for (db.Where(db.Where(u)) is u), or u itself.
func single(u *Unit) *Unit {
	for u.Form == FGroup {
		eff := effective(u.Group)
		if len(eff) != 1 || eff[0].Verb != VWhere {
			break
		}
		u = eff[0].U
	}
	return u
}

// topRaw returns the raw SQL a unit is handed to the builder as (a string
// condition, or a clause.Expr at the root of a clause unit).
func topRaw(u *Unit) (string, bool) {
	switch u.Form {
	case FRawQ, FRawLit, FNamed:
		s, _ := u.Query.(string)
		return s, true
	case FClause:
		if e, ok := u.Query.(clause.Expr); ok {
			return e.SQL, true
		}
	}
	return "", false
}

// topCmp reports whether the unit reaches the builder as one comparison
// expression (clause.Eq, IN, ...).
func topCmp(u *Unit) bool {
	switch u.Form {
	case FMap, FStruct:
		return len(u.Members) == 1
	case FPKSlice, FPKScalar, FColValue:
		return true
	case FClause:
		e, _ := u.Query.(clause.Expression)
		return isCmp(e)
	}
	return false
}

func namedClass(verb Verb, u *Unit) string {
	u = single(u)
	if u.Form != FNamed {
		return ""
	}
	sql, _ := u.Query.(string)
	and, or := TopLevelConnectives(sql)
	switch {
	case verb == VNot && (and || or):
		return ClassNamedUnderNot
	case verb == VOr && or:
		return ClassNamedOrUnderOr
	}
	return ""
}

func notGroupClass(verb Verb, u *Unit) string {
	u = single(u)
	if verb != VNot || u.Form != FGroup {
		return ""
	}
	eff := effective(u.Group)
	if len(eff) < 2 || eff[0].Verb != VWhere || !topCmp(single(eff[0].U)) {
		return ""
	}
	for _, c := range eff[1:] {
		if sql, ok := topRaw(single(c.U)); ok && c.Verb == VOr {
			if and, or := TopLevelConnectives(sql); and || or {
				return ClassNotGroupCmpOrRaw
			}
		}
	}
	return ""
}

// TopLevelConnectives reports whether the raw condition has an AND / an OR
// keyword outside every parenthesis and outside quoted literals.
func TopLevelConnectives(sql string) (and, or bool) {
	isWord := func(c byte) bool {
		return c == '_' || c == '@' || (c >= '0' && c <= '9') || (c >= 'a' && c <= 'z') || (c >= 'A' && c <= 'Z')
	}
	up := strings.ToUpper(sql)
	depth := 0
	quoted := false
	for i := 0; i < len(up); i++ {
		if up[i] == '\'' {
			quoted = !quoted
			continue
		}
		if quoted {
			continue
		}
		switch up[i] {
		case '(':
			depth++
			continue
		case ')':
			depth--
			continue
		}
		if depth != 0 || (i > 0 && isWord(up[i-1])) {
			continue
		}
		for _, kw := range []string{"AND", "OR"} {
			if strings.HasPrefix(up[i:], kw) && (i+len(kw) == len(up) || !isWord(up[i+len(kw)])) {
				if kw == "AND" {
					and = true
				} else {
					or = true
				}
			}
		}
	}
	return
}
