package cond

import (
	"database/sql"
	"fmt"
	"strconv"
	"strings"
)

// Item is the plain (no soft delete) model of the items table.
type Item struct {
	ID   int `gorm:"primaryKey"`
	Ca   int
	Cb   int
	Cs   string
	Cn   *int
	Ct   *string
	Cor  int
	Band string
	Mark int
}

func (Item) TableName() string { return "items" }

// Stored is one physical row as read back by Dump.
type Stored struct {
	Row
	Mark      int
	DeletedAt string // quote(deleted_at) (comma-joined for several soft-delete columns): "NULL" or the stored text; "" when the table has no such column
	Extra     string // further columns (foreign keys), printed
}

func (s Stored) String() string {
	return fmt.Sprintf("%s mark=%d del=%s %s", s.Row, s.Mark, s.DeletedAt, s.Extra)
}

// TableSpec describes a table sharing the condition columns.
type TableSpec struct {
	Name        string
	Soft        bool     // has deleted_at
	SoftCols    []string // soft-delete columns when there are several or the name differs (implies Soft)
	SoftDefault string
	// (SoftDefault: SQL literal the soft-delete column(s) default to - zeroValue models keep a
	// time there instead of NULL; "" = no default)
	Extra []string // extra integer columns (foreign keys)
}

func (t TableSpec) softCols() []string {
	if len(t.SoftCols) > 0 {
		return t.SoftCols
	}
	if t.Soft {
		return []string{"deleted_at"}
	}
	return nil
}

// Live reports whether no soft-delete column of the stored row is set.
func (s Stored) Live() bool {
	return strings.Trim(strings.ReplaceAll(s.DeletedAt, "NULL", ""), ",") == ""
}

// Create creates the table with the declared column types gorm's AutoMigrate
// would use on SQLite (integer / text / datetime).
func (t TableSpec) Create(db *sql.DB) error {
	cols := "id integer PRIMARY KEY, ca integer, cb integer, cs text, cn integer, ct text, cor integer, band text, mark integer"
	for _, c := range t.softCols() {
		cols += ", " + c + " datetime"
		if t.SoftDefault != "" {
			cols += " DEFAULT " + t.SoftDefault
		}
	}
	for _, e := range t.Extra {
		cols += ", " + e + " integer"
	}
	_, err := db.Exec("CREATE TABLE " + t.Name + " (" + cols + ")")
	return err
}

// InsertRow describes one row to insert: deletedAt "" = NULL.
type InsertRow struct {
	Row
	DeletedAt string
	Extra     []int
}

// Insert writes the rows with one statement.
func (t TableSpec) Insert(db *sql.DB, rows []InsertRow) error {
	if len(rows) == 0 {
		return nil
	}
	var b strings.Builder
	b.WriteString("INSERT INTO " + t.Name + " VALUES ")
	for i, r := range rows {
		if i > 0 {
			b.WriteByte(',')
		}
		cn, ct := "NULL", "NULL"
		if r.Cn != nil {
			cn = strconv.Itoa(*r.Cn)
		}
		if r.Ct != nil {
			ct = "'" + *r.Ct + "'"
		}
		fmt.Fprintf(&b, "(%d,%d,%d,'%s',%s,%s,%d,'%s',0", r.ID, r.Ca, r.Cb, r.Cs, cn, ct, r.Cor, r.Band)
		for i := range t.softCols() {
			// the first soft-delete column carries the mark, further ones stay NULL
			if r.DeletedAt == "" || i > 0 {
				b.WriteString(",NULL")
			} else {
				b.WriteString(",'" + r.DeletedAt + "'")
			}
		}
		for _, e := range r.Extra {
			fmt.Fprintf(&b, ",%d", e)
		}
		b.WriteByte(')')
	}
	_, err := db.Exec(b.String())
	return err
}

// Dump reads the physical rows ordered by id.
func (t TableSpec) Dump(db *sql.DB) ([]Stored, error) {
	q := "SELECT id, ca, cb, cs, cn, ct, cor, band, mark"
	soft := t.softCols()
	if len(soft) > 0 {
		parts := make([]string, len(soft))
		for i, c := range soft {
			parts[i] = "quote(" + c + ")"
		}
		q += ", " + strings.Join(parts, " || ',' || ")
	}
	for _, e := range t.Extra {
		q += ", " + e
	}
	rows, err := db.Query(q + " FROM " + t.Name + " ORDER BY id")
	if err != nil {
		return nil, err
	}
	defer rows.Close()
	var out []Stored
	for rows.Next() {
		var s Stored
		var cn sql.NullInt64
		var ct sql.NullString
		var mark sql.NullInt64
		extra := make([]sql.NullInt64, len(t.Extra))
		dst := []interface{}{&s.ID, &s.Ca, &s.Cb, &s.Cs, &cn, &ct, &s.Cor, &s.Band, &mark}
		if len(soft) > 0 {
			dst = append(dst, &s.DeletedAt)
		}
		for i := range extra {
			dst = append(dst, &extra[i])
		}
		if err := rows.Scan(dst...); err != nil {
			return nil, err
		}
		if cn.Valid {
			v := int(cn.Int64)
			s.Cn = &v
		}
		if ct.Valid {
			v := ct.String
			s.Ct = &v
		}
		s.Mark = int(mark.Int64)
		for i, e := range extra {
			if e.Valid {
				s.Extra += fmt.Sprintf("%s=%d ", t.Extra[i], e.Int64)
			} else {
				s.Extra += t.Extra[i] + "=NULL "
			}
		}
		out = append(out, s)
	}
	return out, rows.Err()
}

// Plain turns rows into insertable live rows.
func Plain(rows []Row) []InsertRow {
	out := make([]InsertRow, len(rows))
	for i, r := range rows {
		out[i] = InsertRow{Row: r}
	}
	return out
}

// RowsString prints rows compactly for descriptors.
func RowsString(rows []Row) string {
	parts := make([]string, len(rows))
	for i, r := range rows {
		parts[i] = r.String()
	}
	return "[" + strings.Join(parts, " ") + "]"
}
