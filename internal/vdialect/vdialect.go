// Package vdialect holds the dialectors the checks use: a thin wrapper around
// the cached gorm SQLite dialector (error-returning save points, optional
// RETURNING support) and two connection-less dry-run dialectors that differ
// only in placeholder style.
package vdialect

import (
	"strconv"

	"gorm.io/driver/sqlite"
	"gorm.io/gorm"
	"gorm.io/gorm/callbacks"
	"gorm.io/gorm/clause"
	"gorm.io/gorm/logger"
	"gorm.io/gorm/migrator"
	"gorm.io/gorm/schema"
)

// SQLite wraps gorm.io/driver/sqlite's dialector.
type SQLite struct {
	sqlite.Dialector
	// NoReturning registers the default callbacks without RETURNING clauses
	// (as the driver does for SQLite < 3.35).
	NoReturning bool
}

// NewSQLite builds the dialector over an existing pool.
func NewSQLite(conn gorm.ConnPool, noReturning bool) *SQLite {
	return &SQLite{Dialector: sqlite.Dialector{Conn: conn}, NoReturning: noReturning}
}

func (d *SQLite) Initialize(db *gorm.DB) error {
	if !d.NoReturning {
		return d.Dialector.Initialize(db)
	}
	db.ConnPool = d.Dialector.Conn
	callbacks.RegisterDefaultCallbacks(db, &callbacks.Config{LastInsertIDReversed: true})
	for k, v := range d.Dialector.ClauseBuilders() {
		db.ClauseBuilders[k] = v
	}
	return nil
}

// Migrator must hand *this* dialector to the migrator so that DataTypeOf etc.
// still resolve; the driver's Migrator type is reused unchanged.
func (d *SQLite) Migrator(db *gorm.DB) gorm.Migrator {
	return sqlite.Migrator{Migrator: migrator.Migrator{Config: migrator.Config{
		DB: db, Dialector: d, CreateIndexAfterCreateTable: true,
	}}}
}

// SavePoint / RollbackTo return the statement's error (the cached driver's
// versions return nil unconditionally, which would turn an injected SAVEPOINT
// fault into an apparent gorm defect).
func (d *SQLite) SavePoint(tx *gorm.DB, name string) error {
	return tx.Exec("SAVEPOINT " + name).Error
}

func (d *SQLite) RollbackTo(tx *gorm.DB, name string) error {
	return tx.Exec("ROLLBACK TO SAVEPOINT " + name).Error
}

// Dry is a connection-less dialector for DryRun statements. Numbered selects
// '$n' placeholders (numbered by len(stmt.Vars), like the postgres dialector),
// otherwise '?'.
type Dry struct{ Numbered bool }

func (Dry) Name() string { return "dry" }

func (Dry) Initialize(db *gorm.DB) error {
	callbacks.RegisterDefaultCallbacks(db, &callbacks.Config{
		CreateClauses:        []string{"INSERT", "VALUES", "ON CONFLICT", "RETURNING"},
		UpdateClauses:        []string{"UPDATE", "SET", "FROM", "WHERE", "RETURNING"},
		DeleteClauses:        []string{"DELETE", "FROM", "WHERE", "RETURNING"},
		LastInsertIDReversed: true,
	})
	return nil
}

func (Dry) DefaultValueOf(*schema.Field) clause.Expression { return clause.Expr{SQL: "DEFAULT"} }
func (Dry) Migrator(*gorm.DB) gorm.Migrator                { return nil }

func (d Dry) BindVarTo(w clause.Writer, stmt *gorm.Statement, v interface{}) {
	if d.Numbered {
		w.WriteByte('$')
		w.WriteString(strconv.Itoa(len(stmt.Vars)))
		return
	}
	w.WriteByte('?')
}

// QuoteTo: the quoting of utils/tests.DummyDialector, simplified to plain
// backtick quoting of dotted identifiers.
func (Dry) QuoteTo(w clause.Writer, str string) {
	sqlite.Dialector{}.QuoteTo(w, str)
}

func (Dry) Explain(sql string, vars ...interface{}) string {
	return logger.ExplainSQL(sql, nil, `"`, vars...)
}

func (Dry) DataTypeOf(*schema.Field) string { return "" }
