// Package testdb opens gorm handles for the checks: a recorded in-memory
// SQLite (every driver call logged / faultable) or a connection-less dry-run
// handle.
package testdb

import (
	"database/sql"
	"time"

	"gorm.io/gorm"
	"gorm.io/gorm/logger"

	"verif/internal/recdrv"
	"verif/internal/vdialect"
)

// Options of Open.
type Options struct {
	Config      gorm.Config // Logger defaults to Discard
	NoReturning bool
	MaxOpen     int // 0 = unlimited
}

// DB bundles the handle with its recorder and pool.
type DB struct {
	*gorm.DB
	Rec *recdrv.Recorder
	SQL *sql.DB
}

// FixedNow is the sentinel time every handle starts its clock at.
var FixedNow = time.Date(2031, 7, 5, 11, 12, 13, 0, time.UTC)

// Open returns a handle on a fresh private in-memory SQLite behind recdrv.
func Open(o Options) *DB {
	rec := recdrv.NewMemory()
	sqlDB := rec.DB()
	if o.MaxOpen > 0 {
		sqlDB.SetMaxOpenConns(o.MaxOpen)
	}
	cfg := o.Config
	if cfg.Logger == nil {
		cfg.Logger = logger.Discard
	}
	db, err := gorm.Open(vdialect.NewSQLite(sqlDB, o.NoReturning), &cfg)
	if err != nil {
		panic(err)
	}
	rec.Reset()
	return &DB{DB: db, Rec: rec, SQL: sqlDB}
}

// Close releases pool and anchor connection.
func (d *DB) Close() {
	_ = d.SQL.Close()
	d.Rec.Close()
}

// Dry returns a DryRun handle with '?' or '$n' placeholders.
func Dry(numbered bool, cfg gorm.Config) *gorm.DB {
	cfg.DryRun = true
	cfg.DisableAutomaticPing = true
	if cfg.Logger == nil {
		cfg.Logger = logger.Discard
	}
	db, err := gorm.Open(vdialect.Dry{Numbered: numbered}, &cfg)
	if err != nil {
		panic(err)
	}
	return db
}

func gormConfig() gorm.Config { return gorm.Config{} }
