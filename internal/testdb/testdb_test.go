package testdb

import (
	"errors"
	"testing"

	"verif/internal/recdrv"
)

type item struct {
	ID   uint
	Name string
}

func TestRecorded(t *testing.T) {
	d := Open(Options{})
	defer d.Close()
	if err := d.AutoMigrate(&item{}); err != nil {
		t.Fatal(err)
	}
	d.Rec.Reset()
	if err := d.Create(&item{Name: "x"}).Error; err != nil {
		t.Fatal(err)
	}
	for _, e := range d.Rec.Events() {
		t.Log(e)
	}
	if d.Rec.OpenTx() != 0 {
		t.Fatal("open tx")
	}
	d.Rec.SetFault(recdrv.FailNth(1, recdrv.ErrInjected))
	err := d.Create(&item{Name: "y"}).Error
	if !errors.Is(err, recdrv.ErrInjected) {
		t.Fatalf("got %v", err)
	}
	d.Rec.SetFault(nil)
	var n int64
	d.Model(&item{}).Count(&n)
	if n != 1 {
		t.Fatalf("n=%d", n)
	}
	dry := Dry(true, gormConfig())
	var it []item
	st := dry.Where("name = ? AND id IN ?", "a", []int{1, 2}).Find(&it).Statement
	t.Log(st.SQL.String(), st.Vars)
}
