package schemagen

import (
	"testing"

	"gorm.io/gorm/schema"
)

// the hand-written name table must agree with gorm's default naming strategy
// (a disagreement is decided by reading schema/naming.go).
func TestNameTable(t *testing.T) {
	ns := schema.NamingStrategy{}
	for goName, want := range nameMap {
		if got := ns.ColumnName("t", goName); got != want {
			t.Errorf("%s: table says %q, naming strategy %q", goName, want, got)
		}
	}
}
