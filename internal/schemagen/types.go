// Package schemagen is the schema / value grammar shared by C03 and C20: model
// types built at run time with reflect.StructOf from a grammar of field kinds
// and tags, value generators with kind boundaries, per-kind normalisers and
// the Create → read-back round-trip oracle.
package schemagen

import (
	"context"
	"database/sql/driver"
	"encoding/json"
	"fmt"
	"reflect"
	"sort"
	"strconv"
	"strings"

	"gorm.io/gorm/schema"
)

// ---- harness-defined scanner/valuer types ---------------------------------------------------
//
// Each one stores a representation that differs from the Go value, so a path
// that bypasses Value/Scan is visible in the stored / loaded data.

// Label is a string-backed custom type: stored as "L:" + value.
type Label string

func (l Label) Value() (driver.Value, error) { return "L:" + string(l), nil }

func (l *Label) Scan(src interface{}) error {
	var s string
	switch v := src.(type) {
	case string:
		s = v
	case []byte:
		s = string(v)
	case nil:
		*l = ""
		return nil
	default:
		return fmt.Errorf("schemagen.Label: cannot scan %T", src)
	}
	if !strings.HasPrefix(s, "L:") {
		return fmt.Errorf("schemagen.Label: stored value %q lacks the L: prefix (Value was bypassed)", s)
	}
	*l = Label(s[2:])
	return nil
}

// Point is a struct-backed custom type: stored as "(x,y)".
type Point struct{ X, Y int32 }

func (p Point) Value() (driver.Value, error) { return fmt.Sprintf("(%d,%d)", p.X, p.Y), nil }

func (p *Point) Scan(src interface{}) error {
	var s string
	switch v := src.(type) {
	case string:
		s = v
	case []byte:
		s = string(v)
	case nil:
		*p = Point{}
		return nil
	default:
		return fmt.Errorf("schemagen.Point: cannot scan %T", src)
	}
	q, err := parsePoint(s)
	if err != nil {
		return err
	}
	*p = q
	return nil
}

func parsePoint(s string) (Point, error) {
	if len(s) < 5 || s[0] != '(' || s[len(s)-1] != ')' {
		return Point{}, fmt.Errorf("schemagen.Point: bad stored value %q", s)
	}
	parts := strings.Split(s[1:len(s)-1], ",")
	if len(parts) != 2 {
		return Point{}, fmt.Errorf("schemagen.Point: bad stored value %q", s)
	}
	x, err1 := strconv.ParseInt(parts[0], 10, 32)
	y, err2 := strconv.ParseInt(parts[1], 10, 32)
	if err1 != nil || err2 != nil {
		return Point{}, fmt.Errorf("schemagen.Point: bad stored value %q", s)
	}
	return Point{int32(x), int32(y)}, nil
}

// Attrs is a map-backed custom type: nil is stored as NULL, otherwise as a JSON
// object with sorted keys prefixed by "A".
type Attrs map[string]string

// GormDataType gives the column type (a nil map's Value is NULL, from which
// gorm cannot derive one).
func (Attrs) GormDataType() string { return "string" }

func (a Attrs) Value() (driver.Value, error) {
	if a == nil {
		return nil, nil
	}
	return "A" + attrsJSON(a), nil
}

func attrsJSON(a Attrs) string {
	keys := make([]string, 0, len(a))
	for k := range a {
		keys = append(keys, k)
	}
	sort.Strings(keys)
	var sb strings.Builder
	sb.WriteByte('{')
	for i, k := range keys {
		if i > 0 {
			sb.WriteByte(',')
		}
		kb, _ := json.Marshal(k)
		vb, _ := json.Marshal(a[k])
		sb.Write(kb)
		sb.WriteByte(':')
		sb.Write(vb)
	}
	sb.WriteByte('}')
	return sb.String()
}

func (a *Attrs) Scan(src interface{}) error {
	var s string
	switch v := src.(type) {
	case string:
		s = v
	case []byte:
		s = string(v)
	case nil:
		*a = nil
		return nil
	default:
		return fmt.Errorf("schemagen.Attrs: cannot scan %T", src)
	}
	m, err := parseAttrs(s)
	if err != nil {
		return err
	}
	*a = m
	return nil
}

func parseAttrs(s string) (Attrs, error) {
	if !strings.HasPrefix(s, "A") {
		return nil, fmt.Errorf("schemagen.Attrs: stored value %q lacks the A prefix (Value was bypassed)", s)
	}
	m := map[string]string{}
	if err := json.Unmarshal([]byte(s[1:]), &m); err != nil {
		return nil, fmt.Errorf("schemagen.Attrs: %v in %q", err, s)
	}
	return Attrs(m), nil
}

// ---- payload types of the serializer kinds -----------------------------------------------------

// Doc is the struct payload of `serializer:json` fields.
type Doc struct {
	Title string            `json:"title"`
	N     int64             `json:"n"`
	Ratio float64           `json:"ratio"`
	Tags  []string          `json:"tags"`
	Meta  map[string]string `json:"meta"`
	Sub   *SubDoc           `json:"sub"`
}

// SubDoc nests inside Doc.
type SubDoc struct {
	Flag bool  `json:"flag"`
	IDs  []int `json:"ids"`
}

// GobDoc is the struct payload of `serializer:gob` fields.
type GobDoc struct {
	Name  string
	N     int64
	F     float64
	Tags  []string
	Count map[string]int
}

// ---- field types that implement schema.SerializerInterface themselves ---------------------------
//
// Both Scan methods are written the way such types usually are: they decode into
// the receiver and rely on gorm handing them a fresh (zero) receiver for every
// row. A NULL column leaves the receiver as it is; omitted JSON members are not
// reset; json.Unmarshal reuses the backing array of a slice that is already there.

// SerDoc is a struct whose optional members are omitted from the stored JSON; the zero value is stored as NULL.
type SerDoc struct {
	Name string         `json:"name,omitempty"`
	Tags []string       `json:"tags,omitempty"`
	Meta map[string]int `json:"meta,omitempty"`
	N    *int           `json:"n,omitempty"`
}

func (d SerDoc) isZero() bool {
	return d.Name == "" && len(d.Tags) == 0 && len(d.Meta) == 0 && d.N == nil
}

// Scan implements schema.SerializerInterface.
func (d *SerDoc) Scan(ctx context.Context, field *schema.Field, dst reflect.Value, dbValue interface{}) error {
	switch v := dbValue.(type) {
	case nil:
		return nil
	case string:
		return json.Unmarshal([]byte(v), d)
	case []byte:
		return json.Unmarshal(v, d)
	}
	return fmt.Errorf("schemagen.SerDoc: cannot scan %T", dbValue)
}

// Value implements schema.SerializerValuerInterface.
func (d SerDoc) Value(ctx context.Context, field *schema.Field, dst reflect.Value, fieldValue interface{}) (interface{}, error) {
	if d.isZero() {
		return nil, nil
	}
	b, err := json.Marshal(d)
	return string(b), err
}

// SerList is a slice stored as a JSON array; nil is stored as NULL.
type SerList []string

// Scan implements schema.SerializerInterface.
func (l *SerList) Scan(ctx context.Context, field *schema.Field, dst reflect.Value, dbValue interface{}) error {
	switch v := dbValue.(type) {
	case nil:
		return nil
	case string:
		return json.Unmarshal([]byte(v), l)
	case []byte:
		return json.Unmarshal(v, l)
	}
	return fmt.Errorf("schemagen.SerList: cannot scan %T", dbValue)
}

// Value implements schema.SerializerValuerInterface.
func (l SerList) Value(ctx context.Context, field *schema.Field, dst reflect.Value, fieldValue interface{}) (interface{}, error) {
	if l == nil {
		return nil, nil
	}
	b, err := json.Marshal([]string(l))
	return string(b), err
}

var (
	_ schema.SerializerInterface = (*SerDoc)(nil)
	_ schema.SerializerInterface = (*SerList)(nil)
)
