// Package schemagen is the schema / value grammar shared by C03 and C20: model
// types built at run time with reflect.StructOf from a grammar of field kinds
// and tags, value generators with kind boundaries, per-kind normalisers and
// the Create → read-back round-trip oracle.
package schemagen

import (
	"context"
	"database/sql/driver"
	"encoding/json"
	"fmt"
	"reflect"
	"sort"
	"strconv"
	"strings"
	"time"

	"gorm.io/gorm"
	"gorm.io/gorm/clause"
	"gorm.io/gorm/schema"
)

// ---- harness-defined scanner/valuer types ---------------------------------------------------
//
// Each one stores a representation that differs from the Go value, so a path
// that bypasses Value/Scan is visible in the stored / loaded data.

// Label is a string-backed custom type: stored as "L:" + value.
type Label string

func (l Label) Value() (driver.Value, error) { return "L:" + string(l), nil }

func (l *Label) Scan(src interface{}) error {
	var s string
	switch v := src.(type) {
	case string:
		s = v
	case []byte:
		s = string(v)
	case nil:
		*l = ""
		return nil
	default:
		return fmt.Errorf("schemagen.Label: cannot scan %T", src)
	}
	if !strings.HasPrefix(s, "L:") {
		return fmt.Errorf("schemagen.Label: stored value %q lacks the L: prefix (Value was bypassed)", s)
	}
	*l = Label(s[2:])
	return nil
}

// Point is a struct-backed custom type: stored as "(x,y)".
type Point struct{ X, Y int32 }

func (p Point) Value() (driver.Value, error) { return fmt.Sprintf("(%d,%d)", p.X, p.Y), nil }

func (p *Point) Scan(src interface{}) error {
	var s string
	switch v := src.(type) {
	case string:
		s = v
	case []byte:
		s = string(v)
	case nil:
		*p = Point{}
		return nil
	default:
		return fmt.Errorf("schemagen.Point: cannot scan %T", src)
	}
	q, err := parsePoint(s)
	if err != nil {
		return err
	}
	*p = q
	return nil
}

func parsePoint(s string) (Point, error) {
	if len(s) < 5 || s[0] != '(' || s[len(s)-1] != ')' {
		return Point{}, fmt.Errorf("schemagen.Point: bad stored value %q", s)
	}
	parts := strings.Split(s[1:len(s)-1], ",")
	if len(parts) != 2 {
		return Point{}, fmt.Errorf("schemagen.Point: bad stored value %q", s)
	}
	x, err1 := strconv.ParseInt(parts[0], 10, 32)
	y, err2 := strconv.ParseInt(parts[1], 10, 32)
	if err1 != nil || err2 != nil {
		return Point{}, fmt.Errorf("schemagen.Point: bad stored value %q", s)
	}
	return Point{int32(x), int32(y)}, nil
}

// Attrs is a map-backed custom type: nil is stored as NULL, otherwise as a JSON
// object with sorted keys prefixed by "A".
type Attrs map[string]string

// GormDataType gives the column type (a nil map's Value is NULL, from which
// gorm cannot derive one).
func (Attrs) GormDataType() string { return "string" }

func (a Attrs) Value() (driver.Value, error) {
	if a == nil {
		return nil, nil
	}
	return "A" + attrsJSON(a), nil
}

func attrsJSON(a Attrs) string {
	keys := make([]string, 0, len(a))
	for k := range a {
		keys = append(keys, k)
	}
	sort.Strings(keys)
	var sb strings.Builder
	sb.WriteByte('{')
	for i, k := range keys {
		if i > 0 {
			sb.WriteByte(',')
		}
		kb, _ := json.Marshal(k)
		vb, _ := json.Marshal(a[k])
		sb.Write(kb)
		sb.WriteByte(':')
		sb.Write(vb)
	}
	sb.WriteByte('}')
	return sb.String()
}

func (a *Attrs) Scan(src interface{}) error {
	var s string
	switch v := src.(type) {
	case string:
		s = v
	case []byte:
		s = string(v)
	case nil:
		*a = nil
		return nil
	default:
		return fmt.Errorf("schemagen.Attrs: cannot scan %T", src)
	}
	m, err := parseAttrs(s)
	if err != nil {
		return err
	}
	*a = m
	return nil
}

func parseAttrs(s string) (Attrs, error) {
	if !strings.HasPrefix(s, "A") {
		return nil, fmt.Errorf("schemagen.Attrs: stored value %q lacks the A prefix (Value was bypassed)", s)
	}
	m := map[string]string{}
	if err := json.Unmarshal([]byte(s[1:]), &m); err != nil {
		return nil, fmt.Errorf("schemagen.Attrs: %v in %q", err, s)
	}
	return Attrs(m), nil
}

// ---- payload types of the serializer kinds -----------------------------------------------------

// Doc is the struct payload of `serializer:json` fields.
type Doc struct {
	Title string            `json:"title"`
	N     int64             `json:"n"`
	Ratio float64           `json:"ratio"`
	Tags  []string          `json:"tags"`
	Meta  map[string]string `json:"meta"`
	Sub   *SubDoc           `json:"sub"`
}

// SubDoc nests inside Doc.
type SubDoc struct {
	Flag bool  `json:"flag"`
	IDs  []int `json:"ids"`
}

// GobDoc is the struct payload of `serializer:gob` fields.
type GobDoc struct {
	Name  string
	N     int64
	F     float64
	Tags  []string
	Count map[string]int
}

// ---- field types that implement schema.SerializerInterface themselves ---------------------------
//
// Both Scan methods are written the way such types usually are: they decode into
// the receiver and rely on gorm handing them a fresh (zero) receiver for every
// row. A NULL column leaves the receiver as it is; omitted JSON members are not
// reset; json.Unmarshal reuses the backing array of a slice that is already there.

// SerDoc is a struct whose optional members are omitted from the stored JSON; the zero value is stored as NULL.
type SerDoc struct {
	Name string         `json:"name,omitempty"`
	Tags []string       `json:"tags,omitempty"`
	Meta map[string]int `json:"meta,omitempty"`
	N    *int           `json:"n,omitempty"`
}

func (d SerDoc) isZero() bool {
	return d.Name == "" && len(d.Tags) == 0 && len(d.Meta) == 0 && d.N == nil
}

// Scan implements schema.SerializerInterface.
func (d *SerDoc) Scan(ctx context.Context, field *schema.Field, dst reflect.Value, dbValue interface{}) error {
	switch v := dbValue.(type) {
	case nil:
		return nil
	case string:
		return json.Unmarshal([]byte(v), d)
	case []byte:
		return json.Unmarshal(v, d)
	}
	return fmt.Errorf("schemagen.SerDoc: cannot scan %T", dbValue)
}

// Value implements schema.SerializerValuerInterface.
func (d SerDoc) Value(ctx context.Context, field *schema.Field, dst reflect.Value, fieldValue interface{}) (interface{}, error) {
	if d.isZero() {
		return nil, nil
	}
	b, err := json.Marshal(d)
	return string(b), err
}

// SerList is a slice stored as a JSON array; nil is stored as NULL.
type SerList []string

// Scan implements schema.SerializerInterface.
func (l *SerList) Scan(ctx context.Context, field *schema.Field, dst reflect.Value, dbValue interface{}) error {
	switch v := dbValue.(type) {
	case nil:
		return nil
	case string:
		return json.Unmarshal([]byte(v), l)
	case []byte:
		return json.Unmarshal(v, l)
	}
	return fmt.Errorf("schemagen.SerList: cannot scan %T", dbValue)
}

// Value implements schema.SerializerValuerInterface.
func (l SerList) Value(ctx context.Context, field *schema.Field, dst reflect.Value, fieldValue interface{}) (interface{}, error) {
	if l == nil {
		return nil, nil
	}
	b, err := json.Marshal([]string(l))
	return string(b), err
}

var (
	_ schema.SerializerInterface = (*SerDoc)(nil)
	_ schema.SerializerInterface = (*SerList)(nil)
)

// ---- further scanner/valuer shapes and named basic types ---------------------------------------------

// StrList is a slice-backed scanner/valuer: nil is NULL, otherwise "S" + JSON array.
type StrList []string

// GormDataType gives the column type (a nil list's Value is NULL, from which gorm cannot derive one).
func (StrList) GormDataType() string { return "string" }

func (l StrList) Value() (driver.Value, error) {
	if l == nil {
		return nil, nil
	}
	b, err := json.Marshal([]string(l))
	return "S" + string(b), err
}

func (l *StrList) Scan(src interface{}) error {
	var s string
	switch v := src.(type) {
	case string:
		s = v
	case []byte:
		s = string(v)
	case nil:
		*l = nil
		return nil
	default:
		return fmt.Errorf("schemagen.StrList: cannot scan %T", src)
	}
	if !strings.HasPrefix(s, "S") {
		return fmt.Errorf("schemagen.StrList: stored value %q lacks the S prefix (Value was bypassed)", s)
	}
	var out []string
	if err := json.Unmarshal([]byte(s[1:]), &out); err != nil {
		return err
	}
	*l = out
	return nil
}

// UUID is a byte-array-backed scanner/valuer stored as 32 hex digits.
type UUID [16]byte

func (u UUID) Value() (driver.Value, error) { return fmt.Sprintf("%x", u[:]), nil }

func (u *UUID) Scan(src interface{}) error {
	var s string
	switch v := src.(type) {
	case string:
		s = v
	case []byte:
		s = string(v)
	default:
		return fmt.Errorf("schemagen.UUID: cannot scan %T", src)
	}
	if len(s) != 32 {
		return fmt.Errorf("schemagen.UUID: stored value %q is not 32 hex digits (Value was bypassed)", s)
	}
	for i := 0; i < 16; i++ {
		b, err := strconv.ParseUint(s[2*i:2*i+2], 16, 8)
		if err != nil {
			return fmt.Errorf("schemagen.UUID: %q: %v", s, err)
		}
		u[i] = byte(b)
	}
	return nil
}

// Level is an integer-backed scanner/valuer stored as value + 1000.
type Level int

func (l Level) Value() (driver.Value, error) { return int64(l) + 1000, nil }

func (l *Level) Scan(src interface{}) error {
	switch v := src.(type) {
	case int64:
		*l = Level(v - 1000)
		return nil
	case nil:
		*l = 0
		return nil
	}
	return fmt.Errorf("schemagen.Level: cannot scan %T", src)
}

// Stamp is a scanner/valuer convertible to time.Time (stored as the time itself).
type Stamp time.Time

func (s Stamp) Value() (driver.Value, error) { return time.Time(s), nil }

func (s *Stamp) Scan(src interface{}) error {
	switch v := src.(type) {
	case time.Time:
		*s = Stamp(v)
		return nil
	case nil:
		*s = Stamp{}
		return nil
	}
	return fmt.Errorf("schemagen.Stamp: cannot scan %T", src)
}

// Named basic types without Scan/Value methods.
type (
	Status string
	Count  int64
	Raw    []byte
	Flag   bool
	Ratio  float64
)

// ExprPoint is a customized data type in the documented GormValuerInterface style: it is
// written through a SQL expression (GormValue) and read through Scan; stored as "x,y".
type ExprPoint struct{ X, Y int32 }

func (ExprPoint) GormDataType() string { return "string" }

// GormValue implements gorm.Valuer.
func (p ExprPoint) GormValue(ctx context.Context, db *gorm.DB) clause.Expr {
	return clause.Expr{SQL: "(? || ',' || ?)", Vars: []interface{}{strconv.Itoa(int(p.X)), strconv.Itoa(int(p.Y))}}
}

func (p *ExprPoint) Scan(src interface{}) error {
	s, ok := src.(string)
	if b, isB := src.([]byte); isB {
		s, ok = string(b), true
	}
	if !ok {
		return fmt.Errorf("schemagen.ExprPoint: cannot scan %T", src)
	}
	q, err := parsePoint("(" + s + ")")
	if err != nil {
		return err
	}
	*p = ExprPoint{q.X, q.Y}
	return nil
}
