package schemagen

import (
	"fmt"
	"reflect"
	"strings"

	"gorm.io/gorm"
	"gorm.io/gorm/schema"
	"pgregory.net/rapid"
)

// GenOptions steer the model generator.
type GenOptions struct {
	MinLeaves, MaxLeaves  int             // payload leaves (marker and keys come on top)
	Kinds                 []*Kind         // leaf kinds to draw from (nil = every kind except Exclude)
	Exclude               map[string]bool // kinds of a listed known-finding class: drawn, counted through OnExclude, replaced
	OnExclude             func(k *Kind)
	Migration             bool // C20: add index / uniqueIndex / unique / check / size / not null tags
	NoExprDefault         bool // C20: no parenthesised expression defaults
	NoEmbedded            bool
	NoKeys                bool // (v2 additions) no key / marker fields
	NoIgnoredNameAsColumn bool // listed finding: no column spelled like the Go name of a `-` field (counted through OnExcludeTag)
	NamingVariants        bool // C03: may set NamingStrategy.NoLowerCase (StructSpec.NoLowerCase)
	Addition              bool // the field is added to a table that already holds rows (C20 v2)
	NoNonCanonical        bool // listed finding: no numeric default spelled non-canonically (counted through OnExcludeTag)
	NoUniqueNameClash     bool // listed finding: no two `unique` columns whose constraint names coincide after case folding (counted through OnExcludeTag)
	NoAddedUnique         bool // listed finding: no `unique` tag on fields added in v2 (counted through OnExcludeTag)
	OnExcludeTag          func(class string)
	Names                 *Namer
}

// Namer hands out unused field and column names.
type Namer struct {
	used    map[string]bool
	columns map[string]bool
}

// NewNamer returns an empty name allocator.
func NewNamer() *Namer {
	return &Namer{used: map[string]bool{"ID": true, "Marker": true, "CreatedAt": true, "UpdatedAt": true}, columns: map[string]bool{}}
}

func (n *Namer) goName(t *rapid.T, label string) string {
	var free []string
	for _, p := range namePool {
		if !n.used[p[0]] {
			free = append(free, p[0])
		}
	}
	if len(free) == 0 {
		panic("schemagen: name pool exhausted")
	}
	s := rapid.SampledFrom(free).Draw(t, label)
	n.used[s] = true
	return s
}

var columnPool = []string{"col_a", "c2", "the_value", "Mixed", "x_y_z", "data1", "order", "group", "f_q", "kolumn"}

func (n *Namer) column(t *rapid.T, label string) string {
	var free []string
	for _, c := range columnPool {
		if !n.columns[c] {
			free = append(free, c)
		}
	}
	if len(free) == 0 {
		return ""
	}
	s := rapid.SampledFrom(free).Draw(t, label)
	n.columns[s] = true
	return s
}

var prefixPool = []string{"home_", "w_", "x", "P_", "sub_"}

// PKModes of the grammar.
var PKModes = []string{"gorm-model", "id-name", "tag", "tag-autoinc", "string", "id-string", "int-noauto", "composite", "composite-auto", "composite3", "composite-id"}

var autoIncKinds = []*Kind{KInt, KInt8, KInt16, KInt32, KInt64, KUint, KUint8, KUint16, KUint32, KUint64}

func (o GenOptions) kinds() []*Kind {
	src := o.Kinds
	if src == nil {
		src = AllKinds()
	}
	return src
}

// genLeaf draws one payload leaf.
func genLeaf(t *rapid.T, o GenOptions, label string, inPtrGroup bool) *FieldSpec {
	// draw the group first so that the many pointer kinds do not crowd out the others
	kinds := o.kinds()
	groups := []string{}
	seen := map[string]bool{}
	for _, k := range kinds {
		if !seen[k.Group] {
			seen[k.Group] = true
			groups = append(groups, k.Group)
		}
	}
	g := rapid.SampledFrom(groups).Draw(t, label+".group")
	var sub []*Kind
	for _, k := range kinds {
		if k.Group == g {
			sub = append(sub, k)
		}
	}
	k := rapid.SampledFrom(sub).Draw(t, label+".kind")
	if o.Exclude[k.Name] {
		if o.OnExclude != nil {
			o.OnExclude(k)
		}
		if k.Group == "serializer" {
			k = KUnixInt64
		} else {
			k = KInt64
		}
	}
	f := &FieldSpec{Name: o.Names.goName(t, label+".name"), Kind: k}
	if st := rapid.IntRange(0, 7).Draw(t, label+".tagstyle"); st >= 6 {
		f.TagStyle = st - 5
	}
	if rapid.IntRange(0, 3).Draw(t, label+".hascol") == 0 {
		f.Column = o.Names.column(t, label+".col")
	}
	switch rapid.IntRange(0, 7).Draw(t, label+".tagkind") {
	case 0, 1:
		var ds []Default
		for _, d := range k.Defaults {
			if o.NoExprDefault && (strings.Contains(d.Tag, "(") || d.Canon == Any) {
				continue
			}
			if d.NonCanonical && o.NoNonCanonical {
				continue
			}
			ds = append(ds, d)
		}
		if len(ds) > 0 {
			if o.NoNonCanonical && o.OnExcludeTag != nil && len(ds) < len(k.Defaults) {
				for _, d := range k.Defaults {
					if d.NonCanonical {
						// the draw below could have picked it
						if rapid.IntRange(0, len(k.Defaults)-1).Draw(t, label+".noncanon") == 0 {
							o.OnExcludeTag("default-noncanonical-number")
						}
						break
					}
				}
			}
			d := rapid.SampledFrom(ds).Draw(t, label+".default")
			// the empty-string default is one spelling among many string defaults: give it a quarter of the draws
			if k.Family == FString && rapid.IntRange(0, 3).Draw(t, label+".emptydefault") == 0 {
				for _, e := range ds {
					if e.Tag == "''" {
						d = e
					}
				}
			}
			f.Default = &d
		}
	case 2:
		if len(k.AutoTime) > 0 {
			v := rapid.SampledFrom(k.AutoTime).Draw(t, label+".atv")
			tag := rapid.SampledFrom([]string{"autoCreateTime", "autoUpdateTime"}).Draw(t, label+".at")
			if v != "" {
				tag += ":" + v
			}
			f.AutoTime = tag
		}
	}
	if o.Migration {
		genMigrationTags(t, o, f, label, inPtrGroup)
	}
	return f
}

// genMigrationTags adds the C20 tags to a leaf.
func genMigrationTags(t *rapid.T, o GenOptions, f *FieldSpec, label string, inPtrGroup bool) {
	k := f.Kind
	indexable := k.Family != FOpaque || k.Group == "custom"
	if indexable && rapid.IntRange(0, 3).Draw(t, label+".hasidx") == 0 {
		switch rapid.IntRange(0, 4).Draw(t, label+".idx") {
		case 0, 1:
			f.Index = "index"
		case 2:
			f.Index = "index:idx_" + strings.ToLower(f.Name)
		case 3:
			if k.distinct != nil && k.Family != FBool && !inPtrGroup && f.Default == nil && f.AutoTime == "" {
				f.Index = "uniqueIndex"
				f.DistinctValue = true
			} else {
				f.Index = "index"
			}
		case 4:
			f.Index = "index:,composite:grp"
			if rapid.Bool().Draw(t, label+".idxprio") {
				f.Index += ",priority:" + rapid.SampledFrom([]string{"1", "2", "12"}).Draw(t, label+".prio")
			}
		}
		// index options
		if f.Index == "index" {
			switch rapid.IntRange(0, 5).Draw(t, label+".idxopt") {
			case 0:
				f.Index = "index:,sort:desc"
			case 1:
				f.Index = "index:,where:marker > 0"
			case 2:
				if k.distinct != nil && k.Family != FBool && !inPtrGroup && f.Default == nil && f.AutoTime == "" {
					f.Index = "index:,unique"
					f.DistinctValue = true
				}
			}
		}
	}
	if k.distinct != nil && k.Family != FBool && !inPtrGroup && f.Default == nil && f.AutoTime == "" && f.Index != "uniqueIndex" &&
		rapid.IntRange(0, 7).Draw(t, label+".uniq") == 0 {
		if o.Addition && o.NoAddedUnique {
			if o.OnExcludeTag != nil {
				o.OnExcludeTag("unique-on-added-column")
			}
		} else {
			f.Unique = true
			f.DistinctValue = true
		}
	}
	if rapid.IntRange(0, 5).Draw(t, label+".haschk") == 0 {
		col := f.Column
		if col == "" {
			col = SnakeName(f.Name)
		}
		_ = col
		// a check over the marker column (always present, always > 0): valid whatever the leaf's own values are
		f.Check = rapid.SampledFrom(CheckExprs).Draw(t, label+".chk")
		if rapid.Bool().Draw(t, label+".chkname") {
			f.CheckName = "chk_" + strings.ToLower(f.Name)
		}
	}
	switch rapid.IntRange(0, 9).Draw(t, label+".extra") {
	case 0:
		f.Extra = append(f.Extra, "comment:"+rapid.SampledFrom([]string{"note", "two words", "it's"}).Draw(t, label+".comment"))
	case 1:
		if k.Family == FFloat {
			f.Extra = append(f.Extra, "precision:10", "scale:2")
		}
	case 2:
		if k == KString || k.Name == "*string" || k == KNullString {
			n := rapid.SampledFrom([]int{32, 100, 255}).Draw(t, label+".varchar")
			f.Extra = append(f.Extra, fmt.Sprintf("type:varchar(%d)", n))
			if rapid.Bool().Draw(t, label+".varcharsize") {
				f.Size = n
			}
		}
	}
	// (a size: that contradicts type:varchar(n) is a contradictory model: not generated)
	if k.Family == FString && f.Size == 0 && len(f.Extra) == 0 && rapid.IntRange(0, 2).Draw(t, label+".hassize") == 0 {
		f.Size = rapid.SampledFrom([]int{16, 100, 255, 1024}).Draw(t, label+".size")
	}
	if !inPtrGroup && rapid.IntRange(0, 5).Draw(t, label+".nn") == 0 && (f.Default == nil || !strings.EqualFold(f.Default.Tag, "null")) {
		// SQLite adds a NOT NULL column to an existing table only with a non-NULL constant default
		if !o.Addition || (f.Default != nil && !f.Default.DB) {
			f.NotNull = true
		}
	}
	if o.Addition && f.Default != nil && f.DistinctValue {
		// existing rows all get the default: not unique
		f.DistinctValue, f.Unique = false, false
		if f.Index == "uniqueIndex" {
			f.Index = "index"
		}
	}
}

// genGroup draws an embedded struct with 1-3 leaves (and, rarely, a nested group).
func genGroup(t *rapid.T, o GenOptions, label string, budget *int, depth int, inPtr bool) *FieldSpec {
	g := &FieldSpec{Name: o.Names.goName(t, label+".gname"), Embedded: &StructSpec{}}
	g.Ptr = rapid.IntRange(0, 3).Draw(t, label+".gptr") == 0
	g.Anonymous = rapid.IntRange(0, 3).Draw(t, label+".ganon") == 0
	if rapid.IntRange(0, 2).Draw(t, label+".gpre") > 0 {
		g.Prefix = rapid.SampledFrom(prefixPool).Draw(t, label+".prefix")
	}
	n := rapid.IntRange(1, 3).Draw(t, label+".gn")
	for i := 0; i < n && *budget > 0; i++ {
		if depth == 0 && i > 0 && rapid.IntRange(0, 5).Draw(t, fmt.Sprintf("%s.nest%d", label, i)) == 0 {
			g.Embedded.Fields = append(g.Embedded.Fields, genGroup(t, o, fmt.Sprintf("%s.g%d", label, i), budget, depth+1, inPtr || g.Ptr))
			continue
		}
		g.Embedded.Fields = append(g.Embedded.Fields, genLeaf(t, o, fmt.Sprintf("%s.f%d", label, i), inPtr || g.Ptr))
		*budget--
	}
	if len(g.Embedded.Fields) == 0 {
		g.Embedded.Fields = append(g.Embedded.Fields, genLeaf(t, o, label+".f0", inPtr || g.Ptr))
		*budget--
	}
	return g
}

// GenModel draws a model: payload leaves and embedded groups, a marker column and the key fields of a key mode.
func GenModel(t *rapid.T, o GenOptions) (*StructSpec, string) {
	if o.Names == nil {
		o.Names = NewNamer()
	}
	if o.MaxLeaves == 0 {
		o.MinLeaves, o.MaxLeaves = 2, 10
	}
	budget := rapid.IntRange(o.MinLeaves, o.MaxLeaves).Draw(t, "leaves")
	s := &StructSpec{}
	for i := 0; budget > 0; i++ {
		label := fmt.Sprintf("f%d", i)
		if !o.NoEmbedded && rapid.IntRange(0, 4).Draw(t, label+".isgroup") == 0 {
			g := genGroup(t, o, label, &budget, 0, false)
			s.Fields = append(s.Fields, g)
			// the same struct type embedded a second time under another prefix
			if g.Prefix != "" && rapid.IntRange(0, 2).Draw(t, label+".twin") == 0 {
				var other []string
				for _, p := range prefixPool {
					if p != g.Prefix && !strings.EqualFold(p, g.Prefix) {
						other = append(other, p)
					}
				}
				twin := &FieldSpec{Name: o.Names.goName(t, label+".twinname"), Embedded: g.Embedded, Ptr: g.Ptr, Anonymous: g.Anonymous,
					Prefix: rapid.SampledFrom(other).Draw(t, label+".twinprefix")}
				if !hasPrefixClash(s, twin.Prefix) && !hasDistinct(g.Embedded) {
					s.Fields = append(s.Fields, twin)
				}
			}
			continue
		}
		s.Fields = append(s.Fields, genLeaf(t, o, label, false))
		budget--
	}
	defer func() {
		if !o.NoKeys {
			crossName(t, s, o)
			styleTags(t, s)
			if o.Migration && rapid.IntRange(0, 3).Draw(t, "colindex") == 0 {
				AddColumnNamedIndex(t, s, "colindex")
			}
		}
	}()
	if !o.NoKeys && !o.NoEmbedded {
		shadow(t, s, o)
	}
	pk := ""
	if !o.NoKeys {
		pk = rapid.SampledFrom(PKModes).Draw(t, "pkmode")
		if o.NamingVariants && rapid.IntRange(0, 5).Draw(t, "nolowercase") == 0 {
			s.NoLowerCase = true
		}
		// a field gorm ignores altogether
		if rapid.IntRange(0, 4).Draw(t, "ignored") == 0 {
			k := rapid.SampledFrom([]*Kind{KString, KInt64, KIgnoredDoc, KIgnoredFunc}).Draw(t, "ignored.kind")
			insert(t, s, &FieldSpec{Name: o.Names.goName(t, "ignored.name"), Kind: k, Ignored: true}, "ignored.pos")
		}
		// auto time by field name
		if pk != "gorm-model" && rapid.IntRange(0, 9).Draw(t, "byname") == 0 {
			k := rapid.SampledFrom([]*Kind{KTime, KInt64, KInt, KUint}).Draw(t, "byname.kind")
			n := rapid.SampledFrom([]string{"CreatedAt", "UpdatedAt"}).Draw(t, "byname.name")
			insert(t, s, &FieldSpec{Name: n, Kind: k, AutoTime: "name"}, "byname.pos")
		}
		insert(t, s, &FieldSpec{Name: "Marker", Kind: KInt64, Marker: true}, "marker.pos")
		for i, f := range keyFields(t, o, pk) {
			insert(t, s, f, fmt.Sprintf("pk%d.pos", i))
		}
	}
	return s, pk
}

// two embedded structs may not share a prefix (their columns would collide)
func hasPrefixClash(s *StructSpec, prefix string) bool {
	n := 0
	for _, f := range s.Fields {
		if f.Embedded != nil && strings.EqualFold(f.Prefix, prefix) {
			n++
		}
	}
	return n > 0
}

func hasDistinct(s *StructSpec) bool {
	for _, f := range s.Fields {
		if f.Embedded != nil {
			if hasDistinct(f.Embedded) {
				return true
			}
		} else if f.DistinctValue || f.Check != "" || strings.HasPrefix(f.Index, "index:idx_") || strings.Contains(f.Index, "where:") || strings.Contains(f.Index, "sort:") {
			// explicitly named indexes / checks would be declared twice
			return true
		}
	}
	return false
}

func insert(t *rapid.T, s *StructSpec, f *FieldSpec, label string) {
	pos := rapid.IntRange(0, len(s.Fields)).Draw(t, label)
	s.Fields = append(s.Fields, nil)
	copy(s.Fields[pos+1:], s.Fields[pos:])
	s.Fields[pos] = f
}

func keyFields(t *rapid.T, o GenOptions, mode string) []*FieldSpec {
	intKind := func(label string) *Kind { return rapid.SampledFrom(autoIncKinds).Draw(t, label) }
	name := func(label string) string { return o.Names.goName(t, label) }
	switch mode {
	case "gorm-model":
		// the canonical shape: gorm.Model embedded anonymously (ID, CreatedAt, UpdatedAt, DeletedAt)
		return []*FieldSpec{{Name: "Model", Anonymous: true, FixedType: reflect.TypeOf(gorm.Model{}), Embedded: &StructSpec{Fields: []*FieldSpec{
			{Name: "ID", Kind: KUint, PrimaryKey: true, DistinctValue: true},
			{Name: "CreatedAt", Kind: KTime, AutoTime: "name"},
			{Name: "UpdatedAt", Kind: KTime, AutoTime: "name"},
			{Name: "DeletedAt", Kind: KDeletedAt},
		}}}}
	case "id-name":
		return []*FieldSpec{{Name: "ID", Kind: intKind("pk.kind"), PrimaryKey: true, DistinctValue: true, AutoIncTag: "", Column: ""}}
	case "tag":
		return []*FieldSpec{{Name: name("pk.name"), Kind: intKind("pk.kind"), PrimaryKey: true, DistinctValue: true}}
	case "tag-autoinc":
		return []*FieldSpec{{Name: name("pk.name"), Kind: intKind("pk.kind"), PrimaryKey: true, DistinctValue: true, AutoIncTag: "autoIncrement"}}
	case "string":
		return []*FieldSpec{{Name: name("pk.name"), Kind: KString, PrimaryKey: true, DistinctValue: true}}
	case "id-string":
		return []*FieldSpec{{Name: "ID", Kind: KString, PrimaryKey: true, DistinctValue: true}}
	case "int-noauto":
		return []*FieldSpec{{Name: name("pk.name"), Kind: intKind("pk.kind"), PrimaryKey: true, DistinctValue: true, AutoIncTag: "autoIncrement:false"}}
	case "composite":
		k1 := rapid.SampledFrom([]*Kind{KInt, KInt64, KUint, KUint32, KString}).Draw(t, "pk1.kind")
		k2 := rapid.SampledFrom([]*Kind{KInt, KInt16, KUint64, KString}).Draw(t, "pk2.kind")
		return []*FieldSpec{
			{Name: name("pk1.name"), Kind: k1, PrimaryKey: true, DistinctValue: true},
			{Name: name("pk2.name"), Kind: k2, PrimaryKey: true, DistinctValue: true},
		}
	case "composite3":
		k1 := rapid.SampledFrom([]*Kind{KInt, KInt64, KUint32, KString}).Draw(t, "pk1.kind")
		k3 := rapid.SampledFrom([]*Kind{KInt16, KUint64, KString, KInt}).Draw(t, "pk3.kind")
		return []*FieldSpec{
			{Name: name("pk1.name"), Kind: k1, PrimaryKey: true, DistinctValue: true},
			{Name: name("pk2.name"), Kind: KString, PrimaryKey: true, DistinctValue: true},
			{Name: name("pk3.name"), Kind: k3, PrimaryKey: true, DistinctValue: true},
		}
	case "composite-id":
		// a key part named ID (the prioritized key; an integer one auto-increments) next to another key part
		idKind := rapid.SampledFrom([]*Kind{KUint, KInt64, KInt, KString}).Draw(t, "pk.id.kind")
		k2 := rapid.SampledFrom([]*Kind{KString, KInt, KUint16}).Draw(t, "pk2.kind")
		fs := []*FieldSpec{
			{Name: "ID", Kind: idKind, PrimaryKey: true, DistinctValue: true},
			{Name: name("pk2.name"), Kind: k2, PrimaryKey: true, DistinctValue: true},
		}
		if rapid.Bool().Draw(t, "pk.swap") {
			fs[0], fs[1] = fs[1], fs[0]
		}
		return fs
	case "composite-auto":
		k2 := rapid.SampledFrom([]*Kind{KInt, KInt16, KUint64, KString}).Draw(t, "pk2.kind")
		fs := []*FieldSpec{
			{Name: name("pk1.name"), Kind: intKind("pk1.kind"), PrimaryKey: true, DistinctValue: true, AutoIncTag: "autoIncrement"},
			{Name: name("pk2.name"), Kind: k2, PrimaryKey: true, DistinctValue: true},
		}
		if rapid.Bool().Draw(t, "pk.swap") {
			fs[0], fs[1] = fs[1], fs[0]
		}
		return fs
	}
	panic("schemagen: unknown key mode " + mode)
}

// ---- records --------------------------------------------------------------------------------------

// KeyFill says who supplies the auto-increment key.
type KeyFill string

const (
	KeyAuto     KeyFill = "auto"     // every record leaves the auto-increment key zero
	KeySupplied KeyFill = "supplied" // every record carries a caller-chosen key
	KeyMixed    KeyFill = "mixed"    // some do (only meaningful with RETURNING)
	KeyLeading  KeyFill = "leading"  // the first k records carry ascending caller-chosen keys, the rest leave it zero
)

// Records is a batch of generated records of one model.
type Records struct {
	M        *Model
	Vals     []reflect.Value // addressable struct values
	Boundary bool            // at least one boundary value was drawn
}

// GenRecords draws n records. firstMarker is the marker of the first record;
// distinct columns use firstMarker-derived ordinals so that several batches in
// one table stay distinct.
func GenRecords(t *rapid.T, m *Model, n int, fill KeyFill, ordinal int) *Records {
	rs := &Records{M: m}
	auto := m.AutoKey()
	// database-side defaults: SQLite has no DEFAULT keyword in VALUES, so within
	// one INSERT such a column is either omitted by every record or given by every record
	dbDefaultGiven := map[*Leaf]bool{}
	for _, l := range m.Leaves {
		if l.Spec.Default != nil && l.Spec.Default.DB && !l.Spec.PrimaryKey {
			dbDefaultGiven[l] = rapid.IntRange(0, 2).Draw(t, "dbdefault."+l.GoPath) == 0
		}
	}
	// a pointer-embedded struct that holds a given db-default column is never nil
	keepGroup := map[string]bool{}
	for l, given := range dbDefaultGiven {
		if given {
			for h := range l.Path {
				if l.PtrHop[h] {
					keepGroup[fmt.Sprint(l.Path[:h+1])] = true
				}
			}
		}
	}
	leading := 0
	if fill == KeyLeading && auto != nil {
		leading = n
		if n >= 2 {
			leading = rapid.IntRange(1, n-1).Draw(t, "leadingkeys")
		}
	}
	for i := 0; i < n; i++ {
		rec := reflect.New(m.Type).Elem()
		ord := ordinal + i
		nilGroups := map[string]bool{}
		for _, l := range m.Leaves {
			label := fmt.Sprintf("r%d.%s", i, l.GoPath)
			// pointer-embedded parents: nil for a quarter of the records
			skip := false
			for h := range l.Path {
				if l.PtrHop[h] {
					key := fmt.Sprint(l.Path[:h+1])
					if _, ok := nilGroups[key]; !ok {
						isNil := rapid.IntRange(0, 3).Draw(t, fmt.Sprintf("r%d.nilgroup%s", i, key)) == 0
						if isNil && m.KeepGroups[key] {
							// listed known-finding class: this pointer-embedded struct is not left nil
							if m.OnKeptGroup != nil {
								m.OnKeptGroup()
							}
							isNil = false
						}
						nilGroups[key] = isNil && !keepGroup[key]
					}
					if nilGroups[key] {
						skip = true
					}
				}
			}
			if skip {
				rs.Boundary = true
				continue
			}
			var v reflect.Value
			switch {
			case l.Spec.Marker:
				v = reflect.ValueOf(int64(1000 + ord))
			case l == auto:
				supplied := fill == KeySupplied || (fill == KeyMixed && rapid.Bool().Draw(t, label+".supplied")) || (fill == KeyLeading && i < leading)
				if !supplied {
					continue
				}
				base := 100
				if n > 8 {
					base = 60 // 8-bit keys: the explicit keys and the generated ones after them stay below 127
				}
				v = l.Kind.Distinct(base + ord)
			case l.Spec.DistinctValue:
				v = l.Kind.Distinct(1 + ord)
			default:
				if given, ok := dbDefaultGiven[l]; ok && !given {
					continue
				}
				var b bool
				v, b = l.Kind.Gen(t, label)
				rs.Boundary = rs.Boundary || b
				if _, ok := dbDefaultGiven[l]; ok && v.IsZero() {
					if l.Kind.distinct == nil {
						continue
					}
					v = l.Kind.Distinct(1 + ord)
				}
				// NOT NULL byte columns get non-empty values: a nil slice is NULL, and gorm writes an empty
				// slice of a named byte-slice type as (NULL) too (statement.AddVar treats it as an empty list)
				nn := l.Spec.NotNull || l.Spec.ValuesNotNull
				if nn && l.Kind.Canon(v) == Null || (nn && l.Kind.Family == FBytes && v.Kind() == reflect.Slice && v.Len() == 0) {
					if l.Kind.distinct != nil {
						v = l.Kind.Distinct(1 + ord)
					} else {
						v = nonNull(t, l.Kind, label)
					}
				}
			}
			l.Set(rec, v)
		}
		// shadowed fields get values too (they must not reach the column of the field that shadows them)
		for _, l := range m.Shadowed {
			set := true
			for _, key := range l.GroupKeys() {
				if isNil, ok := nilGroups[key]; !ok || isNil {
					set = false
				}
			}
			if set {
				v, _ := l.Kind.Gen(t, fmt.Sprintf("r%d.shadowed.%s", i, l.GoPath))
				l.Set(rec, v)
			}
		}
		rs.Vals = append(rs.Vals, rec)
	}
	// a db-default column given by every record must be non-zero in every record (else gorm
	// would emit DEFAULT for the zero ones): enforced above through Distinct
	return rs
}

func nonNull(t *rapid.T, k *Kind, label string) reflect.Value {
	for i := 0; i < 50; i++ {
		v, _ := k.Gen(t, fmt.Sprintf("%s.nn%d", label, i))
		if k.Canon(v) != Null {
			return v
		}
	}
	panic("schemagen: cannot draw a non-NULL value of " + k.Name)
}

// Snapshot returns the canonical forms and zero flags of every leaf of every record.
func (rs *Records) Snapshot() (canon [][]string, zero [][]bool) {
	for _, rec := range rs.Vals {
		c := make([]string, len(rs.M.Leaves))
		z := make([]bool, len(rs.M.Leaves))
		for j, l := range rs.M.Leaves {
			c[j] = l.Canon(rec)
			z[j] = l.IsZero(rec)
		}
		canon = append(canon, c)
		zero = append(zero, z)
	}
	return
}

// NewRecords wraps hand-written records (witness tests).
func NewRecords(m *Model, vals []reflect.Value) *Records {
	return &Records{M: m, Vals: vals, Boundary: true}
}

// crossName gives some unprefixed fields a `column:` tag that is spelled like the
// Go NAME of another field of the model (exact case, or differing only by case),
// optionally as a chain A -> column "B", B -> column "C" (legacy CamelCase
// schemas). SQLite column names are case-insensitive, so a rename is kept only
// if all columns of the model stay distinct ignoring case.
func crossName(t *rapid.T, s *StructSpec, o GenOptions) {
	if rapid.IntRange(0, 3).Draw(t, "crossname") != 0 {
		return
	}
	type cand struct {
		f        *FieldSpec
		unprefix bool
	}
	var all []cand
	shared := map[*StructSpec]int{}
	var walk func(s *StructSpec, unprefix bool)
	walk = func(s *StructSpec, unprefix bool) {
		shared[s]++
		if shared[s] > 1 {
			return
		}
		for _, f := range s.Fields {
			if f.Embedded != nil {
				walk(f.Embedded, unprefix && f.Prefix == "" && f.FixedType == nil)
			} else if !f.Marker {
				all = append(all, cand{f, unprefix})
			}
		}
	}
	walk(s, true)
	names := map[string]int{}
	for _, c := range all {
		names[c.f.Name]++
	}
	valid := func() bool {
		seen := map[string]bool{}
		uni := map[string]bool{}
		m := Build(s)
		// the only column two fields may share is the one of a generated shadowing pair
		for _, l := range m.Shadowed {
			if !l.Spec.Shadowed && !l.Spec.Ignored {
				return false
			}
		}
		for _, l := range m.Leaves {
			k := strings.ToLower(l.DBName)
			if seen[k] {
				return false
			}
			seen[k] = true
			if l.Spec.Unique && o.NoUniqueNameClash {
				n := schema.NamingStrategy{}.UniqueName("t", l.DBName)
				if uni[n] {
					if o.OnExcludeTag != nil {
						o.OnExcludeTag("unique-name-collision")
					}
					return false
				}
				uni[n] = true
			}
		}
		return true
	}
	steps := rapid.IntRange(1, 3).Draw(t, "crossname.steps")
	var from *FieldSpec
	for i := 0; i < steps; i++ {
		// A: an unprefixed field without column tag (chains continue at the field whose name was just used)
		var as []*FieldSpec
		for _, c := range all {
			if c.unprefix && c.f.Column == "" && names[c.f.Name] == 1 && (from == nil || c.f == from) && !strings.HasPrefix(c.f.Index, "index:idx") {
				as = append(as, c.f)
			}
		}
		if len(as) == 0 {
			return
		}
		a := rapid.SampledFrom(as).Draw(t, fmt.Sprintf("crossname.a%d", i))
		var bs []*FieldSpec
		for _, c := range all {
			if c.f != a && c.f.Name != a.Name && c.f.Name != "ID" { // (a column spelled "id"/"ID" would compete for gorm's default key lookup)
				bs = append(bs, c.f)
			}
		}
		if len(bs) == 0 {
			return
		}
		b := rapid.SampledFrom(bs).Draw(t, fmt.Sprintf("crossname.b%d", i))
		if b.Ignored && o.NoIgnoredNameAsColumn {
			if o.OnExcludeTag != nil {
				o.OnExcludeTag("ignored-field-named-like-column")
			}
			return
		}
		col := b.Name
		switch rapid.IntRange(0, 4).Draw(t, fmt.Sprintf("crossname.case%d", i)) {
		case 0:
			col = strings.ToLower(b.Name)
		case 1:
			col = strings.ToUpper(b.Name)
		}
		a.Column = col
		if !valid() {
			a.Column = ""
			return
		}
		from = b
	}
}

// shadow adds an outer field that takes the column of a field of an embedded
// struct (the Go idiom of overriding a promoted field): same Go name, same
// column, declared after the embedded struct (sometimes before it). The
// embedded struct is unprefixed and embedded once; the shadowed field is plain.
func shadow(t *rapid.T, s *StructSpec, o GenOptions) {
	if rapid.IntRange(0, 3).Draw(t, "shadow") != 0 {
		return
	}
	shadowIn(t, s, o, 0, "shadow")
}

// shadowIn adds the overriding field for an embedded struct at position >= from.
func shadowIn(t *rapid.T, s *StructSpec, o GenOptions, from int, label string) bool {
	uses := map[*StructSpec]int{}
	for _, f := range s.Fields {
		if f.Embedded != nil {
			uses[f.Embedded]++
		}
	}
	type cand struct {
		pos  int
		leaf *FieldSpec
	}
	var cands []cand
	for i, f := range s.Fields {
		if i < from || f.Embedded == nil || f.Prefix != "" || uses[f.Embedded] > 1 || f.FixedType != nil {
			continue
		}
		for _, l := range f.Embedded.Fields {
			if l.Embedded == nil && l.Default == nil && l.AutoTime == "" && l.Index == "" && !l.Unique && l.Check == "" && !l.NotNull && l.Size == 0 && !l.DistinctValue {
				cands = append(cands, cand{i, l})
			}
		}
	}
	if len(cands) == 0 {
		return false
	}
	c := rapid.SampledFrom(cands).Draw(t, label+".field")
	// the overriding field is an ordinary leaf of the grammar: another kind, its own default /
	// auto time / not null / unique / index tags (the shadowed one is plain)
	outer := genLeaf(t, o, label+".outer", false)
	if rapid.IntRange(0, 2).Draw(t, label+".samekind") == 0 && outer.Default == nil {
		outer.Kind = c.leaf.Kind
		outer.AutoTime, outer.Size, outer.Extra = "", 0, nil
		if outer.DistinctValue && (c.leaf.Kind.distinct == nil || c.leaf.Kind.Family == FBool) {
			outer.DistinctValue, outer.Unique = false, false
			if outer.Index == "uniqueIndex" || outer.Index == "index:,unique" {
				outer.Index = "index"
			}
		}
		if outer.Size > 0 && c.leaf.Kind.Family != FString {
			outer.Size = 0
		}
	}
	outer.Name, outer.Column = c.leaf.Name, c.leaf.Column
	c.leaf.Shadowed = true
	pos := c.pos + 1 + rapid.IntRange(0, len(s.Fields)-c.pos-1).Draw(t, label+".after")
	if from == 0 && rapid.IntRange(0, 3).Draw(t, label+".before") == 0 {
		pos = rapid.IntRange(0, c.pos).Draw(t, label+".pos")
	}
	s.Fields = append(s.Fields, nil)
	copy(s.Fields[pos+1:], s.Fields[pos:])
	s.Fields[pos] = outer
	return true
}

// styleTags varies the spelling of every field's tag: key case and blanks around the keys.
func styleTags(t *rapid.T, s *StructSpec) {
	if rapid.IntRange(0, 1).Draw(t, "tagspelling") != 0 {
		return
	}
	seen := map[*StructSpec]bool{}
	n := 0
	var walk func(s *StructSpec)
	walk = func(s *StructSpec) {
		if seen[s] {
			return
		}
		seen[s] = true
		for _, f := range s.Fields {
			if f.FixedType != nil {
				continue
			}
			n++
			label := fmt.Sprintf("tagspelling.%d", n)
			f.TagSpace = rapid.IntRange(0, 2).Draw(t, label+".space")
			if f.TagStyle == 0 && rapid.IntRange(0, 2).Draw(t, label+".case") == 0 {
				f.TagStyle = 1
			}
			if f.Embedded != nil {
				walk(f.Embedded)
			}
		}
	}
	walk(s)
}

// CheckExprs: check expressions over the marker column (always present, always > 0), so
// they hold whatever the field's own values are. Several contain commas (IN lists,
// multi-argument functions, a comma inside a string literal): in `check:name,expr`
// only the first comma separates the name.
var CheckExprs = []string{
	"marker > 0", "marker <> 0 AND marker IS NOT NULL", "(marker + 1) > 1",
	"coalesce(marker, 1) > 0", "marker NOT IN (0,-1,-2)", "max(marker, 1, 2) >= 2", "marker > 0 OR 'a,b' = 'c'", "ifnull(marker,1) BETWEEN 1 AND 99999999",
}
