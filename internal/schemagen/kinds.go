package schemagen

import (
	"bytes"
	"database/sql"
	"database/sql/driver"
	"encoding/gob"
	"encoding/hex"
	"encoding/json"
	"fmt"
	"math"
	"reflect"
	"sort"
	"strconv"
	"strings"
	"time"

	"gorm.io/gorm"
	"pgregory.net/rapid"
)

// Family is the shape of the value a column stores.
type Family int

const (
	FInt Family = iota
	FUint
	FFloat
	FBool
	FString
	FBytes
	FTime
	FOpaque // custom / serialized payloads
)

// Null is the canonical form of NULL / nil.
const Null = "null"

// Any as Default.Canon: the database computes a value the harness cannot predict (CURRENT_TIMESTAMP).
const Any = "*"

// Default is one `default:` tag a kind accepts.
type Default struct {
	Tag   string // text after "default:"
	Canon string // canonical form of the value a zero field ends up with
	DB    bool   // evaluated by the database (expression / NULL), not by gorm
	// NonCanonical: a numeric literal spelled differently from how gorm renders the parsed value in DDL (-1.50, 1e3, 0x10)
	NonCanonical bool
}

// Kind is one field kind of the grammar.
type Kind struct {
	Name     string // "int8", "*int8", "sql.NullString", "custom:Label", "json:[]string" …
	Group    string // histogram group: int uint float bool string bytes time pointer nullable custom serializer
	Type     reflect.Type
	Family   Family
	BaseTag  []string // tag parts the kind always carries (serializer:…, type:…)
	Nullable bool     // has a NULL state
	Special  bool     // pointer / nullable / serializer / custom (non-triviality rule)
	Elem     *Kind    // for pointer kinds

	gen      func(t *rapid.T, label string) (reflect.Value, bool)
	canon    func(v reflect.Value) string
	canonRaw func(raw interface{}) (string, error)
	dbValue  func(v reflect.Value) interface{}
	distinct func(i int) reflect.Value // i ≥ 1 → pairwise distinct non-zero values (keys, unique columns)

	Defaults []Default
	AutoTime []string // autoCreateTime / autoUpdateTime variants the kind supports ("", "milli", "nano")
	KeyOK    bool     // usable as primary key
	AutoInc  bool     // integer kind usable as auto-increment key
	// NullIsZero: loading NULL gives the Go zero value and the zero value's
	// canonical form is not Null (plain scalars)
	ZeroCanon string
}

// GoString keeps rapid's draw log readable.
func (k *Kind) GoString() string { return "kind(" + k.Name + ")" }

// Gen draws a value; the flag reports a boundary value.
func (k *Kind) Gen(t *rapid.T, label string) (reflect.Value, bool) { return k.gen(t, label) }

// Canon is the canonical form of a Go field value of this kind.
func (k *Kind) Canon(v reflect.Value) string { return k.canon(v) }

// CanonRaw is the canonical form of a value as found in a map / raw row.
func (k *Kind) CanonRaw(raw interface{}) (string, error) {
	raw = deref(raw)
	if raw == nil {
		if k.Family == FBytes && !k.Nullable {
			return "x:", nil // nil ≡ empty for []byte
		}
		return Null, nil
	}
	if strings.HasPrefix(k.Group, "serializer") {
		// a reader that deserialises hands back the field's Go value rather than the stored form
		if rv := reflect.ValueOf(raw); rv.Type() == k.Type {
			return k.canon(rv), nil
		} else if k.Type.Kind() == reflect.Ptr && rv.Type() == k.Type.Elem() {
			p := reflect.New(rv.Type())
			p.Elem().Set(rv)
			return k.canon(p), nil
		}
	}
	return k.canonRaw(raw)
}

// DBValue is the driver-level value that stores v (used by the map create paths).
func (k *Kind) DBValue(v reflect.Value) interface{} { return k.dbValue(v) }

// Distinct returns the i-th (i ≥ 1) of a family of pairwise distinct non-zero values.
func (k *Kind) Distinct(i int) reflect.Value { return k.distinct(i) }

func deref(raw interface{}) interface{} {
	for raw != nil {
		rv := reflect.ValueOf(raw)
		if rv.Kind() != reflect.Ptr {
			return raw
		}
		if rv.IsNil() {
			return nil
		}
		raw = rv.Elem().Interface()
	}
	return nil
}

// ---- canonical scalars ---------------------------------------------------------------------------

func cInt(i int64) string   { return "i:" + strconv.FormatInt(i, 10) }
func cUint(u uint64) string { return "i:" + strconv.FormatUint(u, 10) }
func cFloat(f float64) string {
	return "f:" + strconv.FormatFloat(f, 'g', -1, 64)
}
func cBool(b bool) string      { return "b:" + strconv.FormatBool(b) }
func cStr(s string) string     { return "s:" + strconv.Quote(s) }
func cBytes(b []byte) string   { return "x:" + hex.EncodeToString(b) }
func cTime(t time.Time) string { return fmt.Sprintf("t:%d.%09d", t.Unix(), t.Nanosecond()) }

func rawInt(raw interface{}) (string, error) {
	rv := reflect.ValueOf(raw)
	switch rv.Kind() {
	case reflect.Int, reflect.Int8, reflect.Int16, reflect.Int32, reflect.Int64:
		return cInt(rv.Int()), nil
	case reflect.Uint, reflect.Uint8, reflect.Uint16, reflect.Uint32, reflect.Uint64:
		return cUint(rv.Uint()), nil
	}
	return "", fmt.Errorf("integer column holds %T(%v)", raw, raw)
}

func rawFloat(raw interface{}) (string, error) {
	rv := reflect.ValueOf(raw)
	switch rv.Kind() {
	case reflect.Float32, reflect.Float64:
		return cFloat(rv.Float()), nil
	case reflect.Int64:
		return cFloat(float64(rv.Int())), nil
	}
	return "", fmt.Errorf("float column holds %T(%v)", raw, raw)
}

func rawBool(raw interface{}) (string, error) {
	switch v := raw.(type) {
	case bool:
		return cBool(v), nil
	case int64:
		if v == 0 || v == 1 {
			return cBool(v == 1), nil
		}
	case float64: // the SQLite dialector declares bool columns "numeric": a model-less read reports float64
		if v == 0 || v == 1 {
			return cBool(v == 1), nil
		}
	}
	if rv := reflect.ValueOf(raw); rv.Kind() == reflect.Bool {
		return cBool(rv.Bool()), nil
	}
	return "", fmt.Errorf("bool column holds %T(%v)", raw, raw)
}

func rawString(raw interface{}) (string, bool) {
	switch v := raw.(type) {
	case string:
		return v, true
	case []byte:
		return string(v), true
	}
	rv := reflect.ValueOf(raw)
	if rv.Kind() == reflect.String {
		return rv.String(), true
	}
	if rv.Kind() == reflect.Slice && rv.Type().Elem().Kind() == reflect.Uint8 {
		return string(rv.Bytes()), true
	}
	return "", false
}

func rawStr(raw interface{}) (string, error) {
	if s, ok := rawString(raw); ok {
		return cStr(s), nil
	}
	return "", fmt.Errorf("text column holds %T(%v)", raw, raw)
}

func rawBytes(raw interface{}) (string, error) {
	if s, ok := rawString(raw); ok {
		return cBytes([]byte(s)), nil
	}
	return "", fmt.Errorf("blob column holds %T(%v)", raw, raw)
}

func rawTime(raw interface{}) (string, error) {
	if t, ok := raw.(time.Time); ok {
		return cTime(t), nil
	}
	return "", fmt.Errorf("datetime column holds %T(%v)", raw, raw)
}

// ---- value pools ------------------------------------------------------------------------------

var boundaryStrings = []string{
	"", "it's", `say "hi"`, "back`tick", "naïve ☃ 日本語 😀", "semi;colon -- comment", "?", "NULL", " lead and trail ",
	"line\nbreak\ttab", "100%_\\", "''", "@name :name $1",
}

// Zones used for time values.
var zones = []*time.Location{
	time.UTC, time.FixedZone("", 5*3600+1800), time.FixedZone("", -8*3600), time.FixedZone("", 14*3600),
}

var boundaryTimes = []time.Time{
	{},
	time.Date(1, 1, 1, 0, 0, 0, 1, time.UTC),
	time.Date(9999, 12, 31, 23, 59, 59, 999999999, time.UTC),
	time.Date(1969, 12, 31, 23, 59, 59, 500000000, time.UTC),
	time.Date(1970, 1, 1, 0, 0, 0, 0, time.UTC),
	time.Date(2024, 2, 29, 12, 0, 0, 123456789, time.UTC),
	time.Date(2038, 1, 19, 3, 14, 8, 1, time.UTC),
}

func genTime(t *rapid.T, label string) (time.Time, bool) {
	if rapid.IntRange(0, 9).Draw(t, label+".tb") < 4 {
		bt := rapid.SampledFrom(boundaryTimes).Draw(t, label+".bt")
		if y := bt.Year(); y > 1 && y < 9999 { // the extremes stay in UTC: a zone offset would push them out of the years 1-9999 the driver's text format holds
			bt = bt.In(rapid.SampledFrom(zones).Draw(t, label+".zone"))
		}
		return bt, true
	}
	sec := rapid.Int64Range(-2000000000, 4000000000).Draw(t, label+".sec")
	ns := rapid.SampledFrom([]int64{0, 1, 1000, 123456789, 999999999}).Draw(t, label+".ns")
	return time.Unix(sec, ns).In(rapid.SampledFrom(zones).Draw(t, label+".zone")), ns != 0
}

func genString(t *rapid.T, label string) (string, bool) {
	switch rapid.IntRange(0, 9).Draw(t, label+".sb") {
	case 0, 1, 2, 3:
		return rapid.SampledFrom(boundaryStrings).Draw(t, label+".bs"), true
	case 4:
		s := rapid.StringN(0, 12, 40).Draw(t, label+".us")
		return s, true
	}
	return rapid.StringMatching(`[a-z]{1,8}`).Draw(t, label+".s"), false
}

func genBytes(t *rapid.T, label string) ([]byte, bool) {
	switch rapid.IntRange(0, 5).Draw(t, label+".bb") {
	case 0:
		return nil, true
	case 1:
		return []byte{}, true
	case 2:
		return []byte{0x00, 0xff, 0x27, 0x22, 0x00}, true
	}
	return rapid.SliceOfN(rapid.Byte(), 1, 10).Draw(t, label+".b"), false
}

// ---- kind constructors ------------------------------------------------------------------------------

func intKind(name string, typ reflect.Type, bits int) *Kind {
	min, max := int64(-1)<<(bits-1), int64(1)<<(bits-1)-1
	k := &Kind{Name: name, Group: "int", Type: typ, Family: FInt, KeyOK: true, AutoInc: true, ZeroCanon: cInt(0)}
	k.gen = func(t *rapid.T, label string) (reflect.Value, bool) {
		var i int64
		b := false
		if rapid.IntRange(0, 9).Draw(t, label+".ib") < 4 {
			i, b = rapid.SampledFrom([]int64{min, max, -1, 0, 1, min + 1, max - 1}).Draw(t, label+".iv"), true
		} else {
			i = rapid.Int64Range(min, max).Draw(t, label+".i")
		}
		v := reflect.New(typ).Elem()
		v.SetInt(i)
		return v, b
	}
	k.canon = func(v reflect.Value) string { return cInt(v.Int()) }
	k.canonRaw = rawInt
	k.dbValue = func(v reflect.Value) interface{} { return v.Int() }
	k.distinct = func(i int) reflect.Value {
		v := reflect.New(typ).Elem()
		v.SetInt(int64(i))
		return v
	}
	k.Defaults = []Default{{Tag: "42", Canon: cInt(42), DB: false}, {Tag: "-7", Canon: cInt(-7), DB: false}, {Tag: "0", Canon: cInt(0), DB: false}, {Tag: "(1+1)", Canon: cInt(2), DB: true}, {Tag: "(abs(-7))", Canon: cInt(7), DB: true}, {Tag: "null", Canon: cInt(0), DB: true},
		{Tag: "NULL", Canon: cInt(0), DB: true},
		{Tag: "0x10", Canon: cInt(16), NonCanonical: true}, {Tag: "+5", Canon: cInt(5), NonCanonical: true}, {Tag: "00", Canon: cInt(0), NonCanonical: true}}
	if bits == 64 {
		k.AutoTime = []string{"", "milli", "nano"}
	} else if bits == 32 {
		k.AutoTime = []string{""}
	}
	return k
}

func uintKind(name string, typ reflect.Type, bits int) *Kind {
	max := uint64(math.MaxInt64)
	if bits < 64 {
		max = uint64(1)<<bits - 1
	}
	k := &Kind{Name: name, Group: "uint", Type: typ, Family: FUint, KeyOK: true, AutoInc: true, ZeroCanon: cUint(0)}
	k.gen = func(t *rapid.T, label string) (reflect.Value, bool) {
		var u uint64
		b := false
		if rapid.IntRange(0, 9).Draw(t, label+".ub") < 4 {
			u, b = rapid.SampledFrom([]uint64{0, 1, max, max - 1}).Draw(t, label+".uv"), true
		} else {
			u = rapid.Uint64Range(0, max).Draw(t, label+".u")
		}
		v := reflect.New(typ).Elem()
		v.SetUint(u)
		return v, b
	}
	k.canon = func(v reflect.Value) string { return cUint(v.Uint()) }
	k.canonRaw = rawInt
	k.dbValue = func(v reflect.Value) interface{} { return int64(v.Uint()) }
	k.distinct = func(i int) reflect.Value {
		v := reflect.New(typ).Elem()
		v.SetUint(uint64(i))
		return v
	}
	k.Defaults = []Default{{Tag: "42", Canon: cUint(42), DB: false}, {Tag: "0", Canon: cUint(0)}, {Tag: "(1+1)", Canon: cUint(2), DB: true}, {Tag: "null", Canon: cUint(0), DB: true}, {Tag: "NULL", Canon: cUint(0), DB: true},
		{Tag: "00", Canon: cUint(0), NonCanonical: true}}
	if bits == 64 {
		k.AutoTime = []string{"", "milli", "nano"}
	} else if bits == 32 {
		k.AutoTime = []string{""}
	}
	return k
}

func floatKind(name string, typ reflect.Type, bits int) *Kind {
	k := &Kind{Name: name, Group: "float", Type: typ, Family: FFloat, ZeroCanon: cFloat(0)}
	bounds := []float64{0, 1.1, -1.5, 0.1, math.MaxFloat64, math.SmallestNonzeroFloat64, 1e15, 16777217, -1e-300}
	if bits == 32 {
		bounds = []float64{0, 1.1, -1.5, 0.1, math.MaxFloat32, math.SmallestNonzeroFloat32, 16777216, -3.4e38}
	}
	k.gen = func(t *rapid.T, label string) (reflect.Value, bool) {
		var f float64
		b := false
		if rapid.IntRange(0, 9).Draw(t, label+".fb") < 4 {
			f, b = rapid.SampledFrom(bounds).Draw(t, label+".fv"), true
		} else if bits == 32 {
			f = float64(rapid.Float32Range(-1e6, 1e6).Draw(t, label+".f"))
		} else {
			f = rapid.Float64Range(-1e12, 1e12).Draw(t, label+".f")
		}
		if f == 0 {
			f = 0 // SQLite stores REAL -0.0 as integer 0: the sign of zero is not representable in the column
		}
		v := reflect.New(typ).Elem()
		v.SetFloat(f)
		return v, b
	}
	// v.Float() of a float32 field is the widened value: the same number the column stores
	k.canon = func(v reflect.Value) string { return cFloat(v.Float()) }
	k.canonRaw = rawFloat
	k.dbValue = func(v reflect.Value) interface{} { return v.Float() }
	k.distinct = func(i int) reflect.Value {
		v := reflect.New(typ).Elem()
		v.SetFloat(float64(i) + 0.5)
		return v
	}
	k.Defaults = []Default{{Tag: "1.5", Canon: cFloat(1.5), DB: false}, {Tag: "-0.25", Canon: cFloat(-0.25), DB: false}, {Tag: "(1.5*2)", Canon: cFloat(3), DB: true}, {Tag: "null", Canon: cFloat(0), DB: true},
		{Tag: "0", Canon: cFloat(0)}, {Tag: "NULL", Canon: cFloat(0), DB: true},
		{Tag: "-1.50", Canon: cFloat(-1.5), NonCanonical: true}, {Tag: "1e3", Canon: cFloat(1000), NonCanonical: true}, {Tag: "0.0", Canon: cFloat(0), NonCanonical: true}, {Tag: ".5", Canon: cFloat(0.5), NonCanonical: true}}
	return k
}

func boolKind() *Kind {
	typ := reflect.TypeOf(false)
	k := &Kind{Name: "bool", Group: "bool", Type: typ, Family: FBool, ZeroCanon: cBool(false)}
	k.gen = func(t *rapid.T, label string) (reflect.Value, bool) {
		return reflect.ValueOf(rapid.Bool().Draw(t, label+".bool")), false
	}
	k.canon = func(v reflect.Value) string { return cBool(v.Bool()) }
	k.canonRaw = rawBool
	k.dbValue = func(v reflect.Value) interface{} { return v.Bool() }
	k.distinct = func(i int) reflect.Value { return reflect.ValueOf(true) }
	k.Defaults = []Default{{Tag: "true", Canon: cBool(true), DB: false}, {Tag: "false", Canon: cBool(false), DB: false}, {Tag: "(1=1)", Canon: cBool(true), DB: true},
		{Tag: "0", Canon: cBool(false)}, {Tag: "FALSE", Canon: cBool(false)}, {Tag: "1", Canon: cBool(true)}, {Tag: "null", Canon: cBool(false), DB: true}}
	return k
}

func stringKind() *Kind {
	typ := reflect.TypeOf("")
	k := &Kind{Name: "string", Group: "string", Type: typ, Family: FString, KeyOK: true, ZeroCanon: cStr("")}
	k.gen = func(t *rapid.T, label string) (reflect.Value, bool) {
		s, b := genString(t, label)
		return reflect.ValueOf(s), b
	}
	k.canon = func(v reflect.Value) string { return cStr(v.String()) }
	k.canonRaw = rawStr
	k.dbValue = func(v reflect.Value) interface{} { return v.String() }
	k.distinct = func(i int) reflect.Value { return reflect.ValueOf(fmt.Sprintf("k'%d", i)) }
	k.Defaults = []Default{{Tag: "'abc'", Canon: cStr("abc"), DB: false}, {Tag: "hello", Canon: cStr("hello"), DB: false}, {Tag: "'a b'", Canon: cStr("a b"), DB: false}, {Tag: "'a,b'", Canon: cStr("a,b"), DB: false},
		{Tag: "''", Canon: cStr("")}, {Tag: `\"\"`, Canon: cStr("")}, {Tag: "' '", Canon: cStr(" ")}, {Tag: "'x y z'", Canon: cStr("x y z")},
		{Tag: "'null'", Canon: cStr("null")}, {Tag: "'NULL'", Canon: cStr("NULL")}, {Tag: "'a null b'", Canon: cStr("a null b")}, {Tag: "'0'", Canon: cStr("0")}, {Tag: "'false'", Canon: cStr("false")},
		{Tag: "('a'||'b')", Canon: cStr("ab"), DB: true}, {Tag: "null", Canon: cStr(""), DB: true}, {Tag: "NULL", Canon: cStr(""), DB: true}}
	return k
}

func bytesKind() *Kind {
	typ := reflect.TypeOf([]byte(nil))
	k := &Kind{Name: "[]byte", Group: "bytes", Type: typ, Family: FBytes, ZeroCanon: cBytes(nil)}
	k.gen = func(t *rapid.T, label string) (reflect.Value, bool) {
		b, bd := genBytes(t, label)
		v := reflect.New(typ).Elem()
		if b != nil {
			v.SetBytes(b)
		}
		return v, bd
	}
	k.canon = func(v reflect.Value) string { return cBytes(v.Bytes()) }
	k.canonRaw = rawBytes
	k.dbValue = func(v reflect.Value) interface{} {
		if v.IsNil() {
			return []byte(nil)
		}
		return v.Bytes()
	}
	k.distinct = func(i int) reflect.Value { return reflect.ValueOf([]byte{byte(i), 0xfe}) }
	return k
}

func timeKind() *Kind {
	typ := reflect.TypeOf(time.Time{})
	k := &Kind{Name: "time.Time", Group: "time", Type: typ, Family: FTime, ZeroCanon: cTime(time.Time{})}
	k.gen = func(t *rapid.T, label string) (reflect.Value, bool) {
		tm, b := genTime(t, label)
		return reflect.ValueOf(tm), b
	}
	k.canon = func(v reflect.Value) string { return cTime(v.Interface().(time.Time)) }
	k.canonRaw = rawTime
	k.dbValue = func(v reflect.Value) interface{} { return v.Interface() }
	k.distinct = func(i int) reflect.Value {
		return reflect.ValueOf(time.Date(2000, 1, 1, 0, 0, i, 0, time.UTC))
	}
	k.Defaults = []Default{
		{Tag: "(datetime('2001-02-03 04:05:06'))", Canon: cTime(time.Date(2001, 2, 3, 4, 5, 6, 0, time.UTC)), DB: true},
		{Tag: "null", Canon: cTime(time.Time{}), DB: true},
		{Tag: "NULL", Canon: cTime(time.Time{}), DB: true},
		{Tag: "2001-02-03 04:05:06", Canon: cTime(time.Date(2001, 2, 3, 4, 5, 6, 0, time.Local))},
		{Tag: "CURRENT_TIMESTAMP", Canon: Any, DB: true},
	}
	k.AutoTime = []string{""}
	return k
}

// pointerKind wraps a base kind in a pointer.
func pointerKind(base *Kind) *Kind {
	typ := reflect.PointerTo(base.Type)
	k := &Kind{Name: "*" + base.Name, Group: "pointer", Type: typ, Family: base.Family, BaseTag: base.BaseTag,
		Nullable: true, Special: true, Elem: base, ZeroCanon: Null}
	k.gen = func(t *rapid.T, label string) (reflect.Value, bool) {
		v := reflect.New(typ).Elem()
		if rapid.IntRange(0, 3).Draw(t, label+".nil") == 0 {
			return v, true
		}
		e, b := base.gen(t, label)
		if base.Family == FBytes && e.Kind() == reflect.Slice && e.IsNil() {
			// database/sql dereferences the pointer and binds a nil slice as NULL: a
			// pointer to a nil slice is not representable as distinct from a nil pointer
			e = reflect.ValueOf([]byte{})
		}
		p := reflect.New(base.Type)
		p.Elem().Set(e)
		v.Set(p)
		return v, b
	}
	k.canon = func(v reflect.Value) string {
		if v.IsNil() {
			return Null
		}
		return base.canon(v.Elem())
	}
	k.canonRaw = base.canonRaw
	k.dbValue = func(v reflect.Value) interface{} {
		if v.IsNil() {
			return nil
		}
		return base.dbValue(v.Elem())
	}
	k.distinct = func(i int) reflect.Value {
		p := reflect.New(base.Type)
		p.Elem().Set(base.distinct(i))
		return p
	}
	// a literal default fills a nil pointer; an expression default / NULL leaves NULL → nil unless returned
	for _, d := range base.Defaults {
		if strings.EqualFold(d.Tag, "null") {
			k.Defaults = append(k.Defaults, Default{Tag: d.Tag, Canon: Null, DB: true})
		} else {
			k.Defaults = append(k.Defaults, d)
		}
	}
	if base.Family == FTime {
		k.AutoTime = base.AutoTime
	}
	return k
}

// nullKind: database/sql nullable wrappers. field 0 holds the value, field "Valid" the flag.
func nullKind(name string, typ reflect.Type, base *Kind) *Kind {
	k := &Kind{Name: name, Group: "nullable", Type: typ, Family: base.Family, Nullable: true, Special: true, ZeroCanon: Null}
	k.gen = func(t *rapid.T, label string) (reflect.Value, bool) {
		v := reflect.New(typ).Elem()
		if rapid.IntRange(0, 3).Draw(t, label+".null") == 0 {
			return v, true
		}
		e, b := base.gen(t, label)
		v.Field(0).Set(e.Convert(v.Field(0).Type()))
		v.FieldByName("Valid").SetBool(true)
		return v, b
	}
	k.canon = func(v reflect.Value) string {
		if !v.FieldByName("Valid").Bool() {
			return Null
		}
		return base.canon(v.Field(0).Convert(base.Type))
	}
	k.canonRaw = base.canonRaw
	k.dbValue = func(v reflect.Value) interface{} {
		if !v.FieldByName("Valid").Bool() {
			return nil
		}
		return base.dbValue(v.Field(0).Convert(base.Type))
	}
	k.distinct = func(i int) reflect.Value {
		v := reflect.New(typ).Elem()
		v.Field(0).Set(base.distinct(i).Convert(v.Field(0).Type()))
		v.FieldByName("Valid").SetBool(true)
		return v
	}
	return k
}

// ---- custom scanner/valuer kinds -----------------------------------------------------------------

func labelKind() *Kind {
	typ := reflect.TypeOf(Label(""))
	k := &Kind{Name: "custom:Label", Group: "custom", Type: typ, Family: FOpaque, Special: true, ZeroCanon: cStr("")}
	k.gen = func(t *rapid.T, label string) (reflect.Value, bool) {
		s, b := genString(t, label)
		return reflect.ValueOf(Label(s)), b
	}
	k.canon = func(v reflect.Value) string { return cStr(v.String()) }
	k.canonRaw = func(raw interface{}) (string, error) {
		s, ok := rawString(raw)
		if !ok {
			return "", fmt.Errorf("Label column holds %T(%v)", raw, raw)
		}
		if len(s) < 2 || s[:2] != "L:" {
			return "", fmt.Errorf("Label column holds %q: the L: prefix written by Value is missing", s)
		}
		return cStr(s[2:]), nil
	}
	k.dbValue = func(v reflect.Value) interface{} { return "L:" + v.String() }
	k.distinct = func(i int) reflect.Value { return reflect.ValueOf(Label(fmt.Sprintf("l%d", i))) }
	return k
}

func cPoint(p Point) string { return fmt.Sprintf("p:(%d,%d)", p.X, p.Y) }

func pointKind() *Kind {
	typ := reflect.TypeOf(Point{})
	k := &Kind{Name: "custom:Point", Group: "custom", Type: typ, Family: FOpaque, Special: true, ZeroCanon: cPoint(Point{})}
	k.gen = func(t *rapid.T, label string) (reflect.Value, bool) {
		if rapid.IntRange(0, 3).Draw(t, label+".pb") == 0 {
			p := rapid.SampledFrom([]Point{{}, {math.MinInt32, math.MaxInt32}, {-1, 0}}).Draw(t, label+".pv")
			return reflect.ValueOf(p), true
		}
		return reflect.ValueOf(Point{rapid.Int32().Draw(t, label+".x"), rapid.Int32().Draw(t, label+".y")}), false
	}
	k.canon = func(v reflect.Value) string { return cPoint(v.Interface().(Point)) }
	k.canonRaw = func(raw interface{}) (string, error) {
		s, ok := rawString(raw)
		if !ok {
			return "", fmt.Errorf("Point column holds %T(%v)", raw, raw)
		}
		p, err := parsePoint(s)
		if err != nil {
			return "", err
		}
		return cPoint(p), nil
	}
	k.dbValue = func(v reflect.Value) interface{} { x, _ := v.Interface().(Point).Value(); return x }
	k.distinct = func(i int) reflect.Value { return reflect.ValueOf(Point{int32(i), -int32(i)}) }
	return k
}

func cAttrs(a Attrs) string {
	if a == nil {
		return Null
	}
	return "m:" + attrsJSON(a)
}

func attrsKind() *Kind {
	typ := reflect.TypeOf(Attrs(nil))
	k := &Kind{Name: "custom:Attrs", Group: "custom", Type: typ, Family: FOpaque, Special: true, Nullable: true, ZeroCanon: Null}
	k.gen = func(t *rapid.T, label string) (reflect.Value, bool) {
		switch rapid.IntRange(0, 4).Draw(t, label+".ab") {
		case 0:
			return reflect.ValueOf(Attrs(nil)), true
		case 1:
			return reflect.ValueOf(Attrs{}), true
		}
		n := rapid.IntRange(1, 3).Draw(t, label+".an")
		a := Attrs{}
		bd := false
		for i := 0; i < n; i++ {
			key, b1 := genString(t, fmt.Sprintf("%s.k%d", label, i))
			val, b2 := genString(t, fmt.Sprintf("%s.v%d", label, i))
			a[key] = val
			bd = bd || b1 || b2
		}
		return reflect.ValueOf(a), bd
	}
	k.canon = func(v reflect.Value) string { return cAttrs(v.Interface().(Attrs)) }
	k.canonRaw = func(raw interface{}) (string, error) {
		s, ok := rawString(raw)
		if !ok {
			return "", fmt.Errorf("Attrs column holds %T(%v)", raw, raw)
		}
		a, err := parseAttrs(s)
		if err != nil {
			return "", err
		}
		return cAttrs(a), nil
	}
	k.dbValue = func(v reflect.Value) interface{} { x, _ := v.Interface().(Attrs).Value(); return x }
	k.distinct = func(i int) reflect.Value { return reflect.ValueOf(Attrs{"k": strconv.Itoa(i)}) }
	return k
}

// ---- serializer kinds ---------------------------------------------------------------------------------

func jsonCanon(v interface{}) string {
	b, err := json.Marshal(v)
	if err != nil {
		return "json-error:" + err.Error()
	}
	if string(b) == "null" {
		return Null
	}
	return "j:" + string(b)
}

// jsonKind: `serializer:json` over typ. JSON "null" (nil slice / map / pointer) is stored as NULL.
func jsonKind(name string, typ reflect.Type, gen func(t *rapid.T, label string) (reflect.Value, bool)) *Kind {
	k := &Kind{Name: "json:" + name, Group: "serializer", Type: typ, Family: FOpaque, Special: true, Nullable: true,
		BaseTag: []string{"serializer:json"}}
	k.ZeroCanon = jsonCanon(reflect.Zero(typ).Interface())
	k.gen = gen
	k.canon = func(v reflect.Value) string { return jsonCanon(v.Interface()) }
	k.canonRaw = func(raw interface{}) (string, error) {
		s, ok := rawString(raw)
		if !ok {
			return "", fmt.Errorf("json column holds %T(%v)", raw, raw)
		}
		p := reflect.New(typ)
		if err := json.Unmarshal([]byte(s), p.Interface()); err != nil {
			return "", fmt.Errorf("json column holds %q: %v", s, err)
		}
		return jsonCanon(p.Elem().Interface()), nil
	}
	k.dbValue = func(v reflect.Value) interface{} {
		b, _ := json.Marshal(v.Interface())
		if string(b) == "null" {
			return nil
		}
		return string(b)
	}
	return k
}

func genStrings(t *rapid.T, label string) ([]string, bool) {
	switch rapid.IntRange(0, 4).Draw(t, label+".sl") {
	case 0:
		return nil, true
	case 1:
		return []string{}, true
	}
	n := rapid.IntRange(1, 3).Draw(t, label+".n")
	out := make([]string, n)
	bd := false
	for i := range out {
		var b bool
		out[i], b = genString(t, fmt.Sprintf("%s.%d", label, i))
		bd = bd || b
	}
	return out, bd
}

func genDoc(t *rapid.T, label string) (Doc, bool) {
	var d Doc
	var b1, b2 bool
	d.Title, b1 = genString(t, label+".title")
	d.N = rapid.SampledFrom([]int64{0, 1, -1, math.MaxInt64, math.MinInt64, 1 << 53, 1<<53 + 1}).Draw(t, label+".n")
	d.Ratio = rapid.SampledFrom([]float64{0, 0.1, -2.5, 1e21, 1e-7}).Draw(t, label+".ratio")
	d.Tags, b2 = genStrings(t, label+".tags")
	switch rapid.IntRange(0, 2).Draw(t, label+".meta") {
	case 1:
		d.Meta = map[string]string{}
	case 2:
		d.Meta = map[string]string{"k<>&": "v'\"", "": "empty key"}
	}
	if rapid.Bool().Draw(t, label+".sub") {
		d.Sub = &SubDoc{Flag: rapid.Bool().Draw(t, label+".flag")}
		if rapid.Bool().Draw(t, label+".ids") {
			d.Sub.IDs = []int{1, -2, math.MaxInt32}
		}
	}
	return d, b1 || b2 || d.N > 1 || d.N < -1
}

// gob does not distinguish nil from empty slices / maps, and drops zero fields.
func cGobDoc(d GobDoc) string {
	keys := make([]string, 0, len(d.Count))
	for k := range d.Count {
		keys = append(keys, k)
	}
	sort.Strings(keys)
	s := fmt.Sprintf("g:%q|%d|%s|%q|", d.Name, d.N, strconv.FormatFloat(d.F, 'g', -1, 64), append([]string{}, d.Tags...))
	for _, k := range keys {
		s += fmt.Sprintf("%q=%d,", k, d.Count[k])
	}
	return s
}

func gobKind(withType bool) *Kind {
	typ := reflect.TypeOf(GobDoc{})
	k := &Kind{Name: "gob:GobDoc", Group: "serializer", Type: typ, Family: FOpaque, Special: true,
		BaseTag: []string{"serializer:gob"}, ZeroCanon: cGobDoc(GobDoc{})}
	if withType {
		k.Name = "gob:GobDoc/bytes"
		k.BaseTag = append(k.BaseTag, "type:bytes")
	}
	k.gen = func(t *rapid.T, label string) (reflect.Value, bool) {
		var d GobDoc
		var b1, b2 bool
		d.Name, b1 = genString(t, label+".name")
		d.N = rapid.SampledFrom([]int64{0, 1, -1, math.MaxInt64, math.MinInt64}).Draw(t, label+".n")
		d.F = rapid.SampledFrom([]float64{0, 0.1, -2.5, math.MaxFloat64}).Draw(t, label+".f")
		d.Tags, b2 = genStrings(t, label+".tags")
		if rapid.Bool().Draw(t, label+".count") {
			d.Count = map[string]int{"a": 1, "": -1}
		}
		return reflect.ValueOf(d), b1 || b2 || d.N > 1 || d.N < -1
	}
	k.canon = func(v reflect.Value) string { return cGobDoc(v.Interface().(GobDoc)) }
	k.canonRaw = func(raw interface{}) (string, error) {
		s, ok := rawString(raw)
		if !ok {
			return "", fmt.Errorf("gob column holds %T(%v)", raw, raw)
		}
		var d GobDoc
		if err := gob.NewDecoder(bytes.NewReader([]byte(s))).Decode(&d); err != nil {
			return "", fmt.Errorf("gob column: %v", err)
		}
		return cGobDoc(d), nil
	}
	k.dbValue = func(v reflect.Value) interface{} {
		var buf bytes.Buffer
		_ = gob.NewEncoder(&buf).Encode(v.Interface())
		return buf.Bytes()
	}
	return k
}

// unixtimeKind: `serializer:unixtime` over an integer kind; the column is a
// datetime. The column type is spelled `type:datetime`: the SQLite dialector
// passes `type:time` through literally and go-sqlite3 only parses columns
// declared datetime/timestamp/date into time.Time (a driver matter).
func unixtimeKind(base *Kind, ptr bool) *Kind {
	typ := base.Type
	name := "unixtime:" + base.Name
	if ptr {
		typ = reflect.PointerTo(typ)
		name = "unixtime:*" + base.Name
	}
	k := &Kind{Name: name, Group: "serializer", Type: typ, Family: FOpaque, Special: true, Nullable: ptr,
		BaseTag: []string{"serializer:unixtime", "type:datetime"}}
	lo, hi := int64(-62135596800), int64(253402300799) // years 1 … 9999
	bits := base.Type.Bits()
	if base.Family == FInt && bits < 64 {
		lo, hi = int64(-1)<<(bits-1), int64(1)<<(bits-1)-1
	}
	if base.Family == FUint {
		lo = 0
		if bits < 64 {
			hi = int64(1)<<bits - 1
		}
	}
	set := func(i int64) reflect.Value {
		e := reflect.New(base.Type).Elem()
		if base.Family == FUint {
			e.SetUint(uint64(i))
		} else {
			e.SetInt(i)
		}
		if !ptr {
			return e
		}
		p := reflect.New(base.Type)
		p.Elem().Set(e)
		return p
	}
	get := func(v reflect.Value) (int64, bool) {
		if ptr {
			if v.IsNil() {
				return 0, false
			}
			v = v.Elem()
		}
		if base.Family == FUint {
			return int64(v.Uint()), true
		}
		return v.Int(), true
	}
	k.ZeroCanon = cInt(0)
	if ptr {
		k.ZeroCanon = Null
	}
	k.distinct = func(i int) reflect.Value { return set(int64(i)) }
	k.gen = func(t *rapid.T, label string) (reflect.Value, bool) {
		if ptr && rapid.IntRange(0, 3).Draw(t, label+".nil") == 0 {
			return reflect.New(typ).Elem(), true
		}
		if rapid.IntRange(0, 9).Draw(t, label+".utb") < 4 {
			return set(rapid.SampledFrom([]int64{lo, hi, 0, 1, 1 << 31}).Filter(func(i int64) bool { return i >= lo && i <= hi }).Draw(t, label+".utv")), true
		}
		return set(rapid.Int64Range(lo, hi).Draw(t, label+".ut")), false
	}
	k.canon = func(v reflect.Value) string {
		i, ok := get(v)
		if !ok {
			return Null
		}
		return cInt(i)
	}
	k.canonRaw = func(raw interface{}) (string, error) {
		if t, ok := raw.(time.Time); ok {
			if t.Nanosecond() != 0 {
				return "", fmt.Errorf("unixtime column holds %v with a fraction", t)
			}
			return cInt(t.Unix()), nil
		}
		return "", fmt.Errorf("unixtime column holds %T(%v)", raw, raw)
	}
	k.dbValue = func(v reflect.Value) interface{} {
		i, ok := get(v)
		if !ok {
			return nil
		}
		return time.Unix(i, 0).UTC()
	}
	return k
}

// deletedAtKind: gorm.DeletedAt as it appears in gorm.Model; always NULL here (a
// soft-deleted row is invisible to the readers by design: C08's subject).
func deletedAtKind() *Kind {
	typ := reflect.TypeOf(gorm.DeletedAt{})
	k := &Kind{Name: "gorm.DeletedAt", Group: "nullable", Type: typ, Family: FTime, Nullable: true, Special: true, ZeroCanon: Null}
	k.gen = func(t *rapid.T, label string) (reflect.Value, bool) { return reflect.New(typ).Elem(), false }
	k.canon = func(v reflect.Value) string {
		d := v.Interface().(gorm.DeletedAt)
		if !d.Valid {
			return Null
		}
		return cTime(d.Time)
	}
	k.canonRaw = rawTime
	k.dbValue = func(v reflect.Value) interface{} { return nil }
	return k
}

// ignored kinds: only used for `gorm:"-"` fields (no column)
func ignoredKind(name string, typ reflect.Type, gen func(t *rapid.T, label string) reflect.Value, canon func(v reflect.Value) string) *Kind {
	k := &Kind{Name: "ignored:" + name, Group: "ignored", Type: typ, Family: FOpaque}
	k.gen = func(t *rapid.T, label string) (reflect.Value, bool) { return gen(t, label), false }
	k.canon = canon
	k.ZeroCanon = canon(reflect.Zero(typ))
	return k
}

// ---- further custom kinds ---------------------------------------------------------------------------

// namedKind: a named type over a basic kind, without methods; behaves like the basic kind.
func namedKind(name string, typ reflect.Type, base *Kind) *Kind {
	k := &Kind{Name: "named:" + name, Group: "named", Type: typ, Family: base.Family, Special: true, ZeroCanon: base.ZeroCanon, KeyOK: false}
	conv := func(v reflect.Value) reflect.Value { return v.Convert(base.Type) }
	k.gen = func(t *rapid.T, label string) (reflect.Value, bool) {
		v, b := base.gen(t, label)
		return v.Convert(typ), b
	}
	k.canon = func(v reflect.Value) string { return base.canon(conv(v)) }
	k.canonRaw = base.canonRaw
	k.dbValue = func(v reflect.Value) interface{} { return base.dbValue(conv(v)) }
	k.distinct = func(i int) reflect.Value { return base.distinct(i).Convert(typ) }
	for _, d := range base.Defaults {
		if !d.NonCanonical {
			k.Defaults = append(k.Defaults, d)
		}
	}
	return k
}

func strListKind() *Kind {
	typ := reflect.TypeOf(StrList(nil))
	c := func(l StrList) string {
		if l == nil {
			return Null
		}
		return fmt.Sprintf("S:%q", []string(l))
	}
	k := &Kind{Name: "custom:StrList", Group: "custom", Type: typ, Family: FOpaque, Special: true, Nullable: true, ZeroCanon: Null}
	k.gen = func(t *rapid.T, label string) (reflect.Value, bool) {
		s, b := genStrings(t, label)
		return reflect.ValueOf(StrList(s)), b
	}
	k.canon = func(v reflect.Value) string { return c(v.Interface().(StrList)) }
	k.canonRaw = func(raw interface{}) (string, error) {
		s, ok := rawString(raw)
		if !ok {
			return "", fmt.Errorf("StrList column holds %T(%v)", raw, raw)
		}
		var l StrList
		if err := l.Scan(s); err != nil {
			return "", err
		}
		return c(l), nil
	}
	k.dbValue = func(v reflect.Value) interface{} { x, _ := v.Interface().(StrList).Value(); return x }
	k.distinct = func(i int) reflect.Value { return reflect.ValueOf(StrList{strconv.Itoa(i)}) }
	return k
}

func uuidKind() *Kind {
	typ := reflect.TypeOf(UUID{})
	c := func(u UUID) string { return "uuid:" + hex.EncodeToString(u[:]) }
	k := &Kind{Name: "custom:UUID", Group: "custom", Type: typ, Family: FOpaque, Special: true, ZeroCanon: c(UUID{})}
	k.gen = func(t *rapid.T, label string) (reflect.Value, bool) {
		var u UUID
		switch rapid.IntRange(0, 3).Draw(t, label+".ub") {
		case 0:
			return reflect.ValueOf(u), true
		case 1:
			for i := range u {
				u[i] = 0xff
			}
			return reflect.ValueOf(u), true
		}
		copy(u[:], rapid.SliceOfN(rapid.Byte(), 16, 16).Draw(t, label+".u"))
		return reflect.ValueOf(u), false
	}
	k.canon = func(v reflect.Value) string { return c(v.Interface().(UUID)) }
	k.canonRaw = func(raw interface{}) (string, error) {
		s, ok := rawString(raw)
		if !ok {
			return "", fmt.Errorf("UUID column holds %T(%v)", raw, raw)
		}
		var u UUID
		if err := u.Scan(s); err != nil {
			return "", err
		}
		return c(u), nil
	}
	k.dbValue = func(v reflect.Value) interface{} { x, _ := v.Interface().(UUID).Value(); return x }
	k.distinct = func(i int) reflect.Value { return reflect.ValueOf(UUID{15: byte(i)}) }
	return k
}

func levelKind() *Kind {
	typ := reflect.TypeOf(Level(0))
	k := &Kind{Name: "custom:Level", Group: "custom", Type: typ, Family: FOpaque, Special: true, ZeroCanon: cInt(0)}
	k.gen = func(t *rapid.T, label string) (reflect.Value, bool) {
		if rapid.IntRange(0, 3).Draw(t, label+".lb") == 0 {
			return reflect.ValueOf(rapid.SampledFrom([]Level{0, -1000, math.MaxInt32, math.MinInt32}).Draw(t, label+".lv")), true
		}
		return reflect.ValueOf(Level(rapid.Int32().Draw(t, label+".l"))), false
	}
	k.canon = func(v reflect.Value) string { return cInt(v.Int()) }
	k.canonRaw = func(raw interface{}) (string, error) {
		rv := reflect.ValueOf(raw)
		if rv.Kind() != reflect.Int64 {
			return "", fmt.Errorf("Level column holds %T(%v)", raw, raw)
		}
		return cInt(rv.Int() - 1000), nil
	}
	k.dbValue = func(v reflect.Value) interface{} { return v.Int() + 1000 }
	k.distinct = func(i int) reflect.Value { return reflect.ValueOf(Level(i)) }
	return k
}

func exprPointKind() *Kind {
	typ := reflect.TypeOf(ExprPoint{})
	c := func(p ExprPoint) string { return fmt.Sprintf("ep:%d,%d", p.X, p.Y) }
	k := &Kind{Name: "custom:ExprPoint(GormValuer)", Group: "custom", Type: typ, Family: FOpaque, Special: true, ZeroCanon: c(ExprPoint{})}
	k.gen = func(t *rapid.T, label string) (reflect.Value, bool) {
		if rapid.IntRange(0, 3).Draw(t, label+".eb") == 0 {
			return reflect.ValueOf(rapid.SampledFrom([]ExprPoint{{}, {math.MinInt32, math.MaxInt32}, {-1, 0}}).Draw(t, label+".ev")), true
		}
		return reflect.ValueOf(ExprPoint{rapid.Int32().Draw(t, label+".x"), rapid.Int32().Draw(t, label+".y")}), false
	}
	k.canon = func(v reflect.Value) string { return c(v.Interface().(ExprPoint)) }
	k.canonRaw = func(raw interface{}) (string, error) {
		if p, ok := raw.(ExprPoint); ok {
			return c(p), nil
		}
		s, ok := rawString(raw)
		if !ok {
			return "", fmt.Errorf("ExprPoint column holds %T(%v)", raw, raw)
		}
		var p ExprPoint
		if err := p.Scan(s); err != nil {
			return "", err
		}
		return c(p), nil
	}
	k.dbValue = func(v reflect.Value) interface{} {
		p := v.Interface().(ExprPoint)
		return fmt.Sprintf("%d,%d", p.X, p.Y)
	}
	k.distinct = func(i int) reflect.Value { return reflect.ValueOf(ExprPoint{int32(i), 7}) }
	return k
}

func stampKind() *Kind {
	typ := reflect.TypeOf(Stamp{})
	k := &Kind{Name: "custom:Stamp", Group: "custom", Type: typ, Family: FOpaque, Special: true, ZeroCanon: cTime(time.Time{})}
	k.gen = func(t *rapid.T, label string) (reflect.Value, bool) {
		tm, b := genTime(t, label)
		return reflect.ValueOf(Stamp(tm)), b
	}
	k.canon = func(v reflect.Value) string { return cTime(time.Time(v.Interface().(Stamp))) }
	k.canonRaw = rawTime
	k.dbValue = func(v reflect.Value) interface{} { return time.Time(v.Interface().(Stamp)) }
	k.distinct = func(i int) reflect.Value { return reflect.ValueOf(Stamp(time.Date(2000, 1, 1, 0, 0, i, 0, time.UTC))) }
	return k
}

// ---- untyped JSON payloads -----------------------------------------------------------------------------
//
// `serializer:json` over interface{}-bearing types. The documented behaviour is
// encoding/json's: a number inside an untyped value loads as float64. The
// normaliser renders a value with a tag per dynamic type, integers as the
// float64 they become; anything else (json.Number, …) keeps its own type name,
// so equal renderings ⇔ reflect.DeepEqual with "input marshalled and
// unmarshalled by encoding/json into a fresh value of the field type".

func renderUntyped(v interface{}) string {
	switch x := v.(type) {
	case nil:
		return "nil"
	case float64:
		return cFloat(x)
	case float32:
		return cFloat(float64(x))
	case int:
		return cFloat(float64(x))
	case int64:
		return cFloat(float64(x))
	case string:
		return cStr(x)
	case bool:
		return cBool(x)
	case []interface{}:
		if x == nil {
			return "nil"
		}
		parts := make([]string, len(x))
		for i, e := range x {
			parts[i] = renderUntyped(e)
		}
		return "[" + strings.Join(parts, ",") + "]"
	case map[string]interface{}:
		if x == nil {
			return "nil"
		}
		keys := make([]string, 0, len(x))
		for k := range x {
			keys = append(keys, k)
		}
		sort.Strings(keys)
		parts := make([]string, len(keys))
		for i, k := range keys {
			parts[i] = strconv.Quote(k) + ":" + renderUntyped(x[k])
		}
		return "{" + strings.Join(parts, ",") + "}"
	}
	return fmt.Sprintf("(%T)%v", v, v)
}

func genUntyped(t *rapid.T, label string, depth int) interface{} {
	max := 8
	if depth >= 2 {
		max = 6
	}
	switch rapid.IntRange(0, max).Draw(t, label+".u") {
	case 0:
		return nil
	case 1:
		return rapid.SampledFrom([]float64{0.5, -2.25, 3, 0, 1e-7, 1e18, 9007199254740994, -9007199254740996, 1e21}).Draw(t, label+".f")
	case 2:
		return rapid.SampledFrom([]int{7, -1, 0, 1 << 40}).Draw(t, label+".i")
	case 3:
		return rapid.SampledFrom([]int64{1 << 53, -(1 << 53), 42}).Draw(t, label+".i64")
	case 4:
		s, _ := genString(t, label+".s")
		return s
	case 5:
		return rapid.Bool().Draw(t, label+".b")
	case 6:
		return rapid.SampledFrom([]float64{1, 2.5, 1234567890123}).Draw(t, label+".f2")
	case 7:
		n := rapid.IntRange(0, 3).Draw(t, label+".ln")
		l := make([]interface{}, n)
		for i := range l {
			l[i] = genUntyped(t, fmt.Sprintf("%s.%d", label, i), depth+1)
		}
		return l
	}
	n := rapid.IntRange(0, 3).Draw(t, label+".mn")
	m := map[string]interface{}{}
	for i := 0; i < n; i++ {
		m[rapid.SampledFrom([]string{"n", "list", "sub", "x y", ""}).Draw(t, fmt.Sprintf("%s.k%d", label, i))] = genUntyped(t, fmt.Sprintf("%s.v%d", label, i), depth+1)
	}
	return m
}

func untypedJSONKind(name string, typ reflect.Type, top func(t *rapid.T, label string) interface{}) *Kind {
	k := &Kind{Name: "json:" + name, Group: "serializer", Type: typ, Family: FOpaque, Special: true, Nullable: true,
		BaseTag: []string{"serializer:json"}, ZeroCanon: Null}
	render := func(v interface{}) string {
		r := renderUntyped(v)
		if r == "nil" {
			return Null
		}
		return "u:" + r
	}
	k.gen = func(t *rapid.T, label string) (reflect.Value, bool) {
		v := reflect.New(typ).Elem()
		if x := top(t, label); x != nil {
			v.Set(reflect.ValueOf(x))
		}
		return v, true
	}
	k.canon = func(v reflect.Value) string { return render(v.Interface()) }
	k.canonRaw = func(raw interface{}) (string, error) {
		s, ok := rawString(raw)
		if !ok {
			return "", fmt.Errorf("json column holds %T(%v)", raw, raw)
		}
		p := reflect.New(typ)
		if err := json.Unmarshal([]byte(s), p.Interface()); err != nil {
			return "", fmt.Errorf("json column holds %q: %v", s, err)
		}
		return render(p.Elem().Interface()), nil
	}
	k.dbValue = func(v reflect.Value) interface{} {
		b, _ := json.Marshal(v.Interface())
		if string(b) == "null" {
			return nil
		}
		return string(b)
	}
	return k
}

// ---- kinds whose own type implements schema.SerializerInterface -------------------------------------

func cSerDoc(d SerDoc) string {
	if d.isZero() {
		return Null
	}
	keys := make([]string, 0, len(d.Meta))
	for k := range d.Meta {
		keys = append(keys, k)
	}
	sort.Strings(keys)
	s := fmt.Sprintf("sd:%q|%q|", d.Name, append([]string{}, d.Tags...))
	for _, k := range keys {
		s += fmt.Sprintf("%q=%d,", k, d.Meta[k])
	}
	if d.N != nil {
		s += fmt.Sprintf("|n=%d", *d.N)
	}
	return s
}

func serDocKind() *Kind {
	typ := reflect.TypeOf(SerDoc{})
	k := &Kind{Name: "sertype:SerDoc", Group: "serializer-type", Type: typ, Family: FOpaque, Special: true, Nullable: true, ZeroCanon: Null}
	k.gen = func(t *rapid.T, label string) (reflect.Value, bool) {
		// every member is present in about half of the records, so consecutive rows differ in what they omit
		var d SerDoc
		if rapid.Bool().Draw(t, label+".hasname") {
			d.Name, _ = genString(t, label+".name")
		}
		if rapid.Bool().Draw(t, label+".hastags") {
			n := rapid.IntRange(1, 4).Draw(t, label+".ntags")
			for i := 0; i < n; i++ {
				d.Tags = append(d.Tags, rapid.StringMatching(`[a-z]{1,4}`).Draw(t, fmt.Sprintf("%s.tag%d", label, i)))
			}
		}
		if rapid.Bool().Draw(t, label+".hasmeta") {
			d.Meta = map[string]int{}
			n := rapid.IntRange(1, 3).Draw(t, label+".nmeta")
			for i := 0; i < n; i++ {
				d.Meta[rapid.SampledFrom([]string{"a", "b", "c", "d"}).Draw(t, fmt.Sprintf("%s.mk%d", label, i))] = rapid.IntRange(-3, 3).Draw(t, fmt.Sprintf("%s.mv%d", label, i))
			}
		}
		if rapid.Bool().Draw(t, label+".hasn") {
			n := rapid.SampledFrom([]int{0, 1, -1, math.MaxInt32}).Draw(t, label+".n")
			d.N = &n
		}
		return reflect.ValueOf(d), true
	}
	k.canon = func(v reflect.Value) string { return cSerDoc(v.Interface().(SerDoc)) }
	k.canonRaw = func(raw interface{}) (string, error) {
		s, ok := rawString(raw)
		if !ok {
			return "", fmt.Errorf("SerDoc column holds %T(%v)", raw, raw)
		}
		var d SerDoc
		if err := json.Unmarshal([]byte(s), &d); err != nil {
			return "", fmt.Errorf("SerDoc column holds %q: %v", s, err)
		}
		return cSerDoc(d), nil
	}
	k.dbValue = func(v reflect.Value) interface{} {
		x, _ := v.Interface().(SerDoc).Value(nil, nil, reflect.Value{}, nil)
		return x
	}
	k.distinct = func(i int) reflect.Value { return reflect.ValueOf(SerDoc{Name: fmt.Sprintf("d%d", i)}) }
	return k
}

func cSerList(l SerList) string {
	if l == nil {
		return Null
	}
	return fmt.Sprintf("sl:%q", []string(l))
}

func serListKind() *Kind {
	typ := reflect.TypeOf(SerList(nil))
	k := &Kind{Name: "sertype:SerList", Group: "serializer-type", Type: typ, Family: FOpaque, Special: true, Nullable: true, ZeroCanon: Null}
	k.gen = func(t *rapid.T, label string) (reflect.Value, bool) {
		// lengths vary from record to record (a shorter list after a longer one)
		n := rapid.IntRange(-1, 4).Draw(t, label+".len")
		if n < 0 {
			return reflect.ValueOf(SerList(nil)), true
		}
		l := SerList{}
		for i := 0; i < n; i++ {
			l = append(l, rapid.StringMatching(`[a-z]{1,4}`).Draw(t, fmt.Sprintf("%s.e%d", label, i)))
		}
		return reflect.ValueOf(l), true
	}
	k.canon = func(v reflect.Value) string { return cSerList(v.Interface().(SerList)) }
	k.canonRaw = func(raw interface{}) (string, error) {
		s, ok := rawString(raw)
		if !ok {
			return "", fmt.Errorf("SerList column holds %T(%v)", raw, raw)
		}
		var l SerList
		if err := json.Unmarshal([]byte(s), &l); err != nil {
			return "", fmt.Errorf("SerList column holds %q: %v", s, err)
		}
		return cSerList(l), nil
	}
	k.dbValue = func(v reflect.Value) interface{} {
		x, _ := v.Interface().(SerList).Value(nil, nil, reflect.Value{}, nil)
		return x
	}
	k.distinct = func(i int) reflect.Value { return reflect.ValueOf(SerList{fmt.Sprintf("e%d", i)}) }
	return k
}

// ---- the kind table ----------------------------------------------------------------------------------

var (
	KInt     = intKind("int", reflect.TypeOf(int(0)), 64)
	KInt8    = intKind("int8", reflect.TypeOf(int8(0)), 8)
	KInt16   = intKind("int16", reflect.TypeOf(int16(0)), 16)
	KInt32   = intKind("int32", reflect.TypeOf(int32(0)), 32)
	KInt64   = intKind("int64", reflect.TypeOf(int64(0)), 64)
	KUint    = uintKind("uint", reflect.TypeOf(uint(0)), 64)
	KUint8   = uintKind("uint8", reflect.TypeOf(uint8(0)), 8)
	KUint16  = uintKind("uint16", reflect.TypeOf(uint16(0)), 16)
	KUint32  = uintKind("uint32", reflect.TypeOf(uint32(0)), 32)
	KUint64  = uintKind("uint64", reflect.TypeOf(uint64(0)), 64)
	KFloat32 = floatKind("float32", reflect.TypeOf(float32(0)), 32)
	KFloat64 = floatKind("float64", reflect.TypeOf(float64(0)), 64)
	KBool    = boolKind()
	KString  = stringKind()
	KBytes   = bytesKind()
	KTime    = timeKind()

	Scalars = []*Kind{KInt, KInt8, KInt16, KInt32, KInt64, KUint, KUint8, KUint16, KUint32, KUint64, KFloat32, KFloat64, KBool, KString, KBytes, KTime}

	Pointers = func() []*Kind {
		var out []*Kind
		for _, k := range Scalars {
			out = append(out, pointerKind(k))
		}
		return out
	}()

	KNullString  = nullKind("sql.NullString", reflect.TypeOf(sql.NullString{}), KString)
	KNullInt64   = nullKind("sql.NullInt64", reflect.TypeOf(sql.NullInt64{}), KInt64)
	KNullInt32   = nullKind("sql.NullInt32", reflect.TypeOf(sql.NullInt32{}), KInt32)
	KNullFloat64 = nullKind("sql.NullFloat64", reflect.TypeOf(sql.NullFloat64{}), KFloat64)
	KNullBool    = nullKind("sql.NullBool", reflect.TypeOf(sql.NullBool{}), KBool)
	KNullTime    = nullKind("sql.NullTime", reflect.TypeOf(sql.NullTime{}), KTime)
	Nullables    = []*Kind{KNullString, KNullInt64, KNullInt32, KNullFloat64, KNullBool, KNullTime}

	KLabel     = labelKind()
	KPoint     = pointKind()
	KAttrs     = attrsKind()
	KPtrPoint  = pointerKind(KPoint)
	KPtrLabel  = pointerKind(KLabel)
	KStrList   = strListKind()
	KUUID      = uuidKind()
	KLevel     = levelKind()
	KStamp     = stampKind()
	KExprPoint = exprPointKind()
	Customs    = []*Kind{KLabel, KPoint, KAttrs, KPtrPoint, KPtrLabel, KStrList, KUUID, KLevel, KStamp, KExprPoint}

	KDeletedAt   = deletedAtKind()
	KIgnoredDoc  = ignoredKind("Doc", reflect.TypeOf(Doc{}), func(t *rapid.T, label string) reflect.Value { d, _ := genDoc(t, label); return reflect.ValueOf(d) }, func(v reflect.Value) string { return jsonCanon(v.Interface()) })
	KIgnoredFunc = ignoredKind("func()", reflect.TypeOf(func() {}), func(t *rapid.T, label string) reflect.Value {
		if rapid.Bool().Draw(t, label+".fn") {
			return reflect.ValueOf(func() {})
		}
		return reflect.Zero(reflect.TypeOf(func() {}))
	}, func(v reflect.Value) string { return fmt.Sprintf("func-nil:%v", v.IsNil()) })

	KStatus = namedKind("Status(string)", reflect.TypeOf(Status("")), KString)
	KCount  = namedKind("Count(int64)", reflect.TypeOf(Count(0)), KInt64)
	KRaw    = namedKind("Raw([]byte)", reflect.TypeOf(Raw(nil)), KBytes)
	KFlag   = namedKind("Flag(bool)", reflect.TypeOf(Flag(false)), KBool)
	KRatio  = namedKind("Ratio(float64)", reflect.TypeOf(Ratio(0)), KFloat64)
	// KFlag (a named bool) is not in the grammar: the SQLite dialector declares bool columns "numeric",
	// go-sqlite3 returns int64 for them and database/sql cannot assign an int64 to a named bool kind
	Named = []*Kind{KStatus, KCount, KRaw, KRatio}

	KJSONStrings = jsonKind("[]string", reflect.TypeOf([]string(nil)), func(t *rapid.T, label string) (reflect.Value, bool) {
		s, b := genStrings(t, label)
		v := reflect.New(reflect.TypeOf([]string(nil))).Elem()
		if s != nil {
			v.Set(reflect.ValueOf(s))
		}
		return v, b
	})
	KJSONMap = jsonKind("map[string]int64", reflect.TypeOf(map[string]int64(nil)), func(t *rapid.T, label string) (reflect.Value, bool) {
		switch rapid.IntRange(0, 3).Draw(t, label+".jm") {
		case 0:
			return reflect.ValueOf(map[string]int64(nil)), true
		case 1:
			return reflect.ValueOf(map[string]int64{}), true
		}
		return reflect.ValueOf(map[string]int64{"max": math.MaxInt64, "min": math.MinInt64, "q'\"": 0}), true
	})
	KJSONDoc = jsonKind("Doc", reflect.TypeOf(Doc{}), func(t *rapid.T, label string) (reflect.Value, bool) {
		d, b := genDoc(t, label)
		return reflect.ValueOf(d), b
	})
	KJSONPtrDoc = jsonKind("*Doc", reflect.TypeOf((*Doc)(nil)), func(t *rapid.T, label string) (reflect.Value, bool) {
		if rapid.IntRange(0, 3).Draw(t, label+".nil") == 0 {
			return reflect.ValueOf((*Doc)(nil)), true
		}
		d, b := genDoc(t, label)
		return reflect.ValueOf(&d), b
	})
	KJSONAnyMap = untypedJSONKind("map[string]interface{}", reflect.TypeOf(map[string]interface{}(nil)), func(t *rapid.T, label string) interface{} {
		n := rapid.IntRange(-1, 3).Draw(t, label+".n")
		if n < 0 {
			return nil
		}
		m := map[string]interface{}{}
		for i := 0; i < n; i++ {
			m[rapid.SampledFrom([]string{"a", "num", "list", "sub"}).Draw(t, fmt.Sprintf("%s.k%d", label, i))] = genUntyped(t, fmt.Sprintf("%s.v%d", label, i), 1)
		}
		return m
	})
	KJSONAnyList = untypedJSONKind("[]interface{}", reflect.TypeOf([]interface{}(nil)), func(t *rapid.T, label string) interface{} {
		n := rapid.IntRange(-1, 3).Draw(t, label+".n")
		if n < 0 {
			return nil
		}
		l := make([]interface{}, n)
		for i := range l {
			l[i] = genUntyped(t, fmt.Sprintf("%s.%d", label, i), 1)
		}
		return l
	})
	KJSONAny = untypedJSONKind("interface{}", reflect.TypeOf((*interface{})(nil)).Elem(), func(t *rapid.T, label string) interface{} {
		return genUntyped(t, label, 0)
	})
	KGob      = gobKind(false)
	KGobBytes = gobKind(true)

	KUnixInt64    = unixtimeKind(KInt64, false)
	KUnixInt      = unixtimeKind(KInt, false)
	KUnixInt32    = unixtimeKind(KInt32, false)
	KUnixInt16    = unixtimeKind(KInt16, false)
	KUnixPtrInt64 = unixtimeKind(KInt64, true)
	KUnixUint     = unixtimeKind(KUint, false)
	KUnixUint32   = unixtimeKind(KUint32, false)

	Serializers = []*Kind{KJSONStrings, KJSONMap, KJSONDoc, KJSONPtrDoc, KJSONAnyMap, KJSONAnyList, KJSONAny, KGob, KGobBytes, KUnixInt64, KUnixInt, KUnixInt32, KUnixInt16, KUnixPtrInt64}
	KSerDoc     = serDocKind()
	KSerList    = serListKind()
	// SerializerTypes: field types that implement schema.SerializerInterface themselves
	SerializerTypes = []*Kind{KSerDoc, KSerList}

	// UnixtimeUnsigned: `serializer:unixtime` over unsigned integers (the
	// serializer's own message says "only int, uint supported").
	UnixtimeUnsigned = []*Kind{KUnixUint, KUnixUint32}
)

// AllKinds lists every kind of the grammar (unsigned unixtime included).
func AllKinds() []*Kind {
	var out []*Kind
	out = append(out, Scalars...)
	out = append(out, Pointers...)
	out = append(out, Nullables...)
	out = append(out, Customs...)
	out = append(out, Named...)
	out = append(out, Serializers...)
	out = append(out, UnixtimeUnsigned...)
	out = append(out, SerializerTypes...)
	return out
}

// KindByName looks a kind up.
func KindByName(name string) *Kind {
	for _, k := range AllKinds() {
		if k.Name == name {
			return k
		}
	}
	return nil
}

var _ driver.Valuer = Label("")
